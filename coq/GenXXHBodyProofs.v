(* GenXXHBodyProofs.v — the TRANSLATED xxh32 functions (GenXXHBody.v, generated from
   internal/xxh32/xxh32zero.go) compute the hand-written model of XXH32.v, hence the reference
   XXH32 (XXH32Proofs.v).  No axioms.  Proof style: rewriting-based symbolic execution (GoT.v,
   section 4); the state after every loop / call is abstracted to a variable of which only the
   needed projections are known.

   Corrections w.r.t. the statements first asked for (details at the theorems, section 10):
   - Write does NOT always return len input: when it completes a pending stripe it returns
     len input - (16 - bufused) (the Go code returns n after `n -= c`): [write_ret];
   - every chunk must be shorter than 2^63 (a Go slice always is): for a longer list the
     translated `input[n-n%16:]` panics, because n - n%16 wraps to a negative int;
   - the zero value of the struct is [zero_XXHZero s0] (v = 4 zeros, buf = 16 zeros), not the
     fields of [zero_state], whose arrays are empty lists;
   - the one-shot theorem does not need [bytes input] (the model is applied to the same list). *)
From Coq Require Import ZArith List Lia Bool Arith ZifyBool.
From LZ4V Require Import Base GoT GenXXH XXH32 XXH32Proofs GenXXHBody GenXXHBodySpec.
Import ListNotations.
Open Scope Z_scope.
Open Scope got_scope.

Ltac dlia := zify; Z.to_euclidean_division_equations; lia.

(* ------------------------------------------------------------------------------------------ *)
(* 0. Outcome predicates and derived rules                                                    *)
(* ------------------------------------------------------------------------------------------ *)
Definition returns (o : outcome state) (Q : state -> Prop) : Prop := exists s', o = Ret s' /\ Q s'.
Definition falls (o : outcome state) (Q : state -> Prop) : Prop := exists s', o = Fall s' /\ Q s'.

Lemma returns_Ret s (Q : state -> Prop) : Q s -> returns (Ret s) Q.
Proof. intros H; exists s; split; [reflexivity|exact H]. Qed.
Lemma falls_Fall s (Q : state -> Prop) : Q s -> falls (Fall s) Q.
Proof. intros H; exists s; split; [reflexivity|exact H]. Qed.

Lemma returns_impl o (Q Q' : state -> Prop) : returns o Q -> (forall s, Q s -> Q' s) -> returns o Q'.
Proof. intros (s & -> & H) HQ. exists s. split; [reflexivity|apply HQ, H]. Qed.
Lemma falls_impl o (Q Q' : state -> Prop) : falls o Q -> (forall s, Q s -> Q' s) -> falls o Q'.
Proof. intros (s & -> & H) HQ. exists s. split; [reflexivity|apply HQ, H]. Qed.

Lemma seq_guard_ok (g : state -> bool) (a k : stmt) s : g s = true -> seq (guard g a) k s = seq a k s.
Proof. intros H. rewrite seq_guard, H. reflexivity. Qed.

(* a loop whose body and post statement complete normally *)
Lemma loop_falls (Inv : state -> Prop) (mu : state -> nat) (cond : state -> bool) (body post : stmt)
      (P : state -> Prop) :
  (forall s, Inv s -> cond s = false -> P s) ->
  (forall s, Inv s -> cond s = true ->
     exists s1 s2, body s = Fall s1 /\ post s1 = Fall s2 /\ Inv s2 /\ (mu s2 < mu s)%nat) ->
  forall fuel s, Inv s -> (mu s < fuel)%nat ->
  exists s', loop fuel cond body post s = Fall s' /\ P s'.
Proof.
  intros Hexit Hstep fuel s Hinv Hmu.
  apply (loop_inv Inv (fun o => exists s', o = Fall s' /\ P s') mu cond body post); try assumption.
  - intros s1 Hi Hc. exists s1. split; [reflexivity|]. apply Hexit; assumption.
  - intros s1 Hi Hc. destruct (Hstep s1 Hi Hc) as (s2 & s3 & Hb & Hp & Hi3 & Hm).
    rewrite Hb, Hp. split; assumption.
Qed.

(* ------------------------------------------------------------------------------------------ *)
(* 1. Lists, words, slices                                                                    *)
(* ------------------------------------------------------------------------------------------ *)
Lemma zlen_len (l : list Z) : zlen l = len l.
Proof. reflexivity. Qed.

(* the little-endian word at index j of a memory list *)
Definition wordZ (mem : list Z) (j : Z) : Z :=
  znth mem j + 256 * znth mem (j + 1) + 65536 * znth mem (j + 2) + 16777216 * znth mem (j + 3).

Lemma le32_wordZ (x : slice loc) (s : state) : le32 x s = wordZ (ld (s_loc x) s) (s_off x).
Proof. unfold le32, sl_le32, sl_get, wordZ. rewrite Z.add_0_r. reflexivity. Qed.

Lemma znth_app1 (a b : list Z) i : 0 <= i < zlen a -> znth (a ++ b) i = znth a i.
Proof. unfold znth, zlen. intros H. apply app_nth1. lia. Qed.

Lemma nth_skipn_Z (l : list Z) (q : Z) (i : nat) : 0 <= q ->
  nth i (skipn (Z.to_nat q) l) 0 = znth l (q + Z.of_nat i).
Proof. intros Hq. unfold znth. rewrite nth_skipn_add. f_equal. lia. Qed.

(* data of a slice window [o, o+n) of mem; word i of what remains after q bytes *)
Lemma wordZ_zsub (mem : list Z) (o n q : Z) (i : nat) (j : Z) :
  0 <= o -> 0 <= q -> q + Z.of_nat i + 4 <= n -> j = o + q + Z.of_nat i ->
  wordZ mem j = word (skipn (Z.to_nat q) (zsub mem o n)) i.
Proof.
  intros Ho Hq Hn ->. unfold wordZ, word, Base.le32.
  rewrite !nth_skipn_Z by lia.
  rewrite !znth_zsub by lia.
  repeat (f_equal; try lia).
Qed.

Lemma znth_zsub_skipn (mem : list Z) (o n q : Z) :
  0 <= o -> 0 <= q < n -> o + n <= zlen mem ->
  skipn (Z.to_nat q) (zsub mem o n) = znth mem (o + q) :: skipn (Z.to_nat (q + 1)) (zsub mem o n).
Proof.
  intros Ho Hq Hn.
  assert (Hl : zlen (zsub mem o n) = n) by (apply zsub_length; lia).
  rewrite <- (znth_zsub mem o n q) by lia.
  set (d := zsub mem o n) in *. unfold zlen in Hl. unfold znth.
  replace (Z.to_nat (q + 1)) with (S (Z.to_nat q)) by lia.
  assert (Hq' : (Z.to_nat q < length d)%nat) by lia.
  clearbody d. revert Hq'. generalize (Z.to_nat q). clear.
  intros k. revert d. induction k as [|k IH]; intros d Hk.
  - destruct d; [cbn in Hk; lia|reflexivity].
  - destruct d; [cbn in Hk; lia|]. cbn [skipn nth]. apply IH. cbn in Hk. lia.
Qed.

Lemma zsub_app_all (a b : list Z) : zsub (a ++ b) 0 (zlen a) = a.
Proof.
  unfold zsub, zlen. cbn [Z.to_nat skipn]. rewrite Nat2Z.id.
  rewrite firstn_app, Nat.sub_diag, firstn_all. cbn [firstn]. apply app_nil_r.
Qed.

Lemma wordZ_app (l sp : list Z) (q : Z) (i : nat) (j : Z) :
  0 <= q -> q + Z.of_nat i + 4 <= zlen l -> j = q + Z.of_nat i ->
  wordZ (l ++ sp) j = word (skipn (Z.to_nat q) l) i.
Proof.
  intros Hq Hn ->. rewrite <- (zsub_app_all l sp) at 2.
  apply wordZ_zsub; lia.
Qed.

Lemma wordZ_self (l : list Z) (i : nat) (j : Z) :
  j = Z.of_nat i -> Z.of_nat i + 4 <= zlen l -> wordZ l j = word l i.
Proof.
  intros -> H. rewrite <- (app_nil_r l) at 1. apply (wordZ_app l [] 0 i); lia.
Qed.

Lemma zsub_zsub (mem : list Z) o n a m :
  0 <= o -> 0 <= a -> 0 <= m -> a + m <= n ->
  zsub (zsub mem o n) a m = zsub mem (o + a) m.
Proof.
  intros Ho Ha Hm Hn. unfold zsub.
  rewrite Z2Nat.inj_add by lia.
  rewrite (Base.skipn_add (Z.to_nat o) (Z.to_nat a)).
  set (l := skipn (Z.to_nat o) mem).
  rewrite skipn_firstn_comm. rewrite firstn_firstn. f_equal. lia.
Qed.

Lemma zsub_skipn (mem : list Z) o n q : 0 <= o -> 0 <= q <= n ->
  skipn (Z.to_nat q) (zsub mem o n) = zsub mem (o + q) (n - q).
Proof.
  intros Ho Hq. unfold zsub. rewrite skipn_firstn_comm.
  rewrite Z2Nat.inj_add by lia. rewrite Base.skipn_add. f_equal. lia.
Qed.

Lemma zsub_firstn (mem : list Z) o n q : 0 <= q <= n ->
  firstn (Z.to_nat q) (zsub mem o n) = zsub mem o q.
Proof. intros Hq. unfold zsub. rewrite firstn_firstn. f_equal. lia. Qed.

Lemma zsub_0_all (l : list Z) n : zlen l <= n -> zsub l 0 n = l.
Proof. unfold zsub, zlen. intros H. cbn [Z.to_nat skipn]. apply firstn_all2. lia. Qed.

Lemma length4 (l : list Z) : length l = 4%nat -> exists a b c d, l = [a; b; c; d].
Proof.
  destruct l as [|a [|b [|c [|d [|e l]]]]]; cbn; intros H; try discriminate.
  exists a, b, c, d. reflexivity.
Qed.

(* ------------------------------------------------------------------------------------------ *)
(* 2. Model-side lemmas (XXH32.v) in "peel one iteration" form                                *)
(* ------------------------------------------------------------------------------------------ *)
Lemma finish_peel4 h l : (4 <= length l)%nat ->
  finish_impl h l = finish_impl (step4_i h l) (skipn 4 l).
Proof.
  intros H. unfold finish_impl.
  rewrite (tail4_loop_spec (length (skipn 4 l))) by lia.
  destruct (length l) as [|f] eqn:E; [lia|].
  cbn [tail4_loop]. rewrite E.
  replace (4 <=? S f)%nat with true by (symmetry; apply Nat.leb_le; lia).
  rewrite tail4_loop_spec by (rewrite skipn_length; lia). reflexivity.
Qed.

Lemma finish_short h l : (length l < 4)%nat -> finish_impl h l = avalanche_i (tail1_i h l).
Proof.
  intros H. unfold finish_impl. rewrite tail4_loop_spec by lia.
  rewrite Nat.div_small by assumption. reflexivity.
Qed.

Lemma checksum_zero_small l : len l < 16 ->
  checksum_zero l = finish_impl (w32 (w32 (len l) + 374761393)) l.
Proof. intros H. unfold checksum_zero. apply Z.ltb_lt in H. rewrite H. reflexivity. Qed.

Lemma checksum_zero_big l : 16 <= len l ->
  checksum_zero l = finish_impl (w32 (w32 (len l) + merge_i (lanes_of oneshot_lanes l))) (tail_of l).
Proof.
  intros H. unfold checksum_zero. apply Z.ltb_ge in H. rewrite H.
  rewrite stripes_loop_spec by lia. rewrite seeds_oneshot. reflexivity.
Qed.

(* ------------------------------------------------------------------------------------------ *)
(* 3. Bridges between the translated expressions and the model's primitives                   *)
(* ------------------------------------------------------------------------------------------ *)
Lemma round_eq v w w' : w = w' ->
  wu32 (GenXXHBody.xxh32_rol13 (wu32 (v + wu32 (w * 2246822519))) * 2654435761) = round_i v w'.
Proof. intros ->. reflexivity. Qed.
Lemma stripe_eq a b c d w0 w4 w8 w12 l :
  w0 = word l 0 -> w4 = word l 4 -> w8 = word l 8 -> w12 = word l 12 ->
  (wu32 (GenXXHBody.xxh32_rol13 (wu32 (a + wu32 (w0 * 2246822519))) * 2654435761),
   wu32 (GenXXHBody.xxh32_rol13 (wu32 (b + wu32 (w4 * 2246822519))) * 2654435761),
   wu32 (GenXXHBody.xxh32_rol13 (wu32 (c + wu32 (w8 * 2246822519))) * 2654435761),
   wu32 (GenXXHBody.xxh32_rol13 (wu32 (d + wu32 (w12 * 2246822519))) * 2654435761))
  = stripe_i (a, b, c, d) l.
Proof. intros -> -> -> ->. reflexivity. Qed.
Lemma lanes_step v l : (16 <= length l)%nat ->
  lanes_of (stripe_i v l) (skipn 16 l) = lanes_of v l /\ tail_of (skipn 16 l) = tail_of l.
Proof.
  intros H. destruct (lanes_peel v l H) as [Q1 Q2]. rewrite stripe_i_eq. split; congruence.
Qed.
Lemma step4_eq h w l : w = word l 0 ->
  wu32 (GenXXHBody.xxh32_rol17 (wu32 (h + wu32 (w * 3266489917))) * 668265263) = step4_i h l.
Proof. intros ->. reflexivity. Qed.
Lemma step1_eq h b :
  wu32 (GenXXHBody.xxh32_rol11 (wu32 (h + wu32 (b * 374761393))) * 2654435761) = step1_i h b.
Proof. reflexivity. Qed.
Lemma merge_eq a b c d :
  wu32 (wu32 (wu32 (GenXXHBody.xxh32_rol1 a + GenXXHBody.xxh32_rol7 b) + GenXXHBody.xxh32_rol12 c)
        + GenXXHBody.xxh32_rol18 d) = merge_i (a, b, c, d).
Proof. reflexivity. Qed.
Lemma avalanche_eq h :
  Z.lxor (wu32 (Z.lxor (wu32 (Z.lxor h (Z.shiftr h 15) * 2246822519))
                       (Z.shiftr (wu32 (Z.lxor h (Z.shiftr h 15) * 2246822519)) 13) * 3266489917))
         (Z.shiftr (wu32 (Z.lxor (wu32 (Z.lxor h (Z.shiftr h 15) * 2246822519))
                       (Z.shiftr (wu32 (Z.lxor h (Z.shiftr h 15) * 2246822519)) 13) * 3266489917)) 16)
  = avalanche_i h.
Proof. reflexivity. Qed.

(* symbolic execution of straight-line code, re-associating nested blocks *)
Ltac steps := repeat (first [rewrite seq_assoc | got_step]; xxh32_state_simpl).

(* guards: reduce slice arithmetic, then linear arithmetic over Z with booleans *)
Ltac slice_simpl :=
  unfold sl_slice_ok, sl_le32_ok, sl_idx_ok, arr_idx_ok, sl_copy_n, sl_slice, sl_array, nilv, sl_nilv;
  cbn [s_nil s_loc s_off s_len s_cap negb].
(* [norm] also unfolds copy / indexed load / store, so that projections of the new state reduce
   at once.  Use it after every step of code containing [scopy]: with xxh32_state_simpl alone the
   term [field (scopy d x s)] stays folded, every later statement duplicates the whole state
   term, and Qed (not the tactics) becomes exponential (observed: > 15 min for Write). *)
Ltac norm :=
  repeat progress (unfold scopy, sl_copy, sset, sl_set, sget, sl_get; slice_simpl; xxh32_state_simpl).
Ltac splits := repeat match goal with |- _ /\ _ => split end.
Ltac easy_goal := first [assumption | reflexivity | lia].

Tactic Notation "steps_g" tactic(tac) :=
  repeat (first [rewrite seq_assoc | rewrite seq_guard_ok by tac | rewrite guard_ok by tac | got_step];
          xxh32_state_simpl).


(* ------------------------------------------------------------------------------------------ *)
(* 4. checksumZeroGo                                                                          *)
(* ------------------------------------------------------------------------------------------ *)
Section OneShot.
  Variables (input spare : list Z).
  Let N := zlen input.
  Let mem := input ++ spare.
  Let C := zlen input + zlen spare.

  Lemma checksumZeroGo_model fuel s0 :
    len input < 2 ^ 63 -> (length input / 16 + 4 <= fuel)%nat ->
    returns (xxh32_checksumZeroGo fuel (init_xxh32_checksumZeroGo_fresh input spare s0))
            (fun s' => checksumZeroGo_ret0 s' = checksum_zero input).
  Proof.
    intros Hlen Hfuel.
    assert (HN0 : 0 <= N) by apply zlen_nonneg.
    assert (HNlen : N = len input) by reflexivity.
    assert (HS0 : 0 <= zlen spare) by apply zlen_nonneg.
    assert (Hmemlen : zlen mem = C) by apply zlen_app.
    assert (Hfuel' : N / 16 + 4 <= Z.of_nat fuel).
    { pose proof (Nat2Z.inj_div (length input) 16) as Hdiv. change (Z.of_nat 16) with 16 in Hdiv.
      unfold N, zlen. lia. }
    unfold xxh32_checksumZeroGo, init_xxh32_checksumZeroGo_fresh.
    xxh32_steps.
    (* the code after the if: 4-byte loop, 1-byte loop, avalanche *)
    lazymatch goal with |- returns (seq (ite _ _ _) ?Xk _) _ => set (K := Xk) end.
    lazymatch goal with |- returns (seq (ite _ _ _) ?Xk _) _ =>
      assert (Htail : forall s o n c h,
        checksumZeroGo_input s = mkslice false L_checksumZeroGo_input o n c ->
        mem_checksumZeroGo_input s = mem -> checksumZeroGo_n s = n -> checksumZeroGo_h32 s = h ->
        0 <= o -> 0 <= n <= c -> o + c <= zlen mem -> n < 16 ->
        returns (Xk s) (fun s1 => checksumZeroGo_ret0 s1 = finish_impl h (zsub mem o n)))
    end.
    { clear s0. intros s o n c h Hin Hmem Hn Hh Ho Hnc Hoc Hn16.
      unfold K. xxh32_steps.
      set (data := zsub mem o n).
      assert (Hdl : zlen data = n) by (apply zsub_length; lia).
      pose (Inv2 := fun s1 : state =>
        checksumZeroGo_input s1 = mkslice false L_checksumZeroGo_input o n c /\
        mem_checksumZeroGo_input s1 = mem /\ checksumZeroGo_n s1 = n /\
        checksumZeroGo_n_2 s1 = n - 4 /\ 0 <= checksumZeroGo_p_1 s1 <= n /\
        finish_impl (checksumZeroGo_h32 s1) (skipn (Z.to_nat (checksumZeroGo_p_1 s1)) data)
        = finish_impl h data).
      lazymatch goal with |- returns (seq (loop ?Xf ?Xc ?Xb ?Xp) _ ?Xs) _ =>
        assert (HL : exists s', loop Xf Xc Xb Xp Xs = Fall s' /\ (Inv2 s' /\ n - 4 < checksumZeroGo_p_1 s'))
      end.
      { apply (loop_falls Inv2 (fun s1 => Z.to_nat ((n - checksumZeroGo_p_1 s1) / 4))).
        - intros s1 Hi Hc. cbv beta in Hc. split; [exact Hi|].
          destruct Hi as (_ & _ & _ & Hn2 & _). lia.
        - intros s1 (Hin1 & Hmem1 & Hn1 & Hn2 & Hp & Hfin) Hc. cbv beta in Hc.
          assert (Hp4 : checksumZeroGo_p_1 s1 + 4 <= n) by lia.
          eexists. eexists. split; [|split].
          + rewrite seq_guard_ok.
            2:{ cbv beta. rewrite Hin1. slice_simpl. rewrite wi64_id by lia. lia. }
            xxh32_steps. reflexivity.
          + xxh32_steps. reflexivity.
          + unfold Inv2. xxh32_state_simpl. rewrite wi64_id by lia.
            rewrite le32_wordZ, Hin1. slice_simpl. xxh32_state_simpl. rewrite Hmem1.
            split; [|dlia].
            splits; try easy_goal.
            rewrite <- Hfin.
            rewrite (finish_peel4 _ (skipn (Z.to_nat (checksumZeroGo_p_1 s1)) data))
              by (rewrite skipn_length; unfold zlen in Hdl; lia).
            rewrite <- Base.skipn_add.
            replace (Z.to_nat (checksumZeroGo_p_1 s1 + 4)) with (Z.to_nat (checksumZeroGo_p_1 s1) + 4)%nat by lia.
            f_equal. apply step4_eq. apply (wordZ_zsub mem o n); lia.
        - unfold Inv2. xxh32_state_simpl. rewrite Hn, wi64_id by lia.
          splits; try easy_goal; rewrite Hh; reflexivity.
        - xxh32_state_simpl. dlia. }
      destruct HL as (s2 & HL & (Hin2 & Hmem2 & Hn2 & _ & Hp2 & Hfin2) & Hex2).
      rewrite (seq_Fall _ _ _ _ HL). clear HL Inv2.
      rewrite finish_short in Hfin2 by (rewrite skipn_length; unfold zlen in Hdl; lia).
      pose (Inv3 := fun s1 : state =>
        checksumZeroGo_input s1 = mkslice false L_checksumZeroGo_input o n c /\
        mem_checksumZeroGo_input s1 = mem /\ checksumZeroGo_n s1 = n /\
        0 <= checksumZeroGo_p_1 s1 <= n /\ n - 4 < checksumZeroGo_p_1 s1 /\
        avalanche_i (tail1_i (checksumZeroGo_h32 s1) (skipn (Z.to_nat (checksumZeroGo_p_1 s1)) data))
        = finish_impl h data).
      lazymatch goal with |- returns (seq (loop ?Xf ?Xc ?Xb ?Xp) _ ?Xs) _ =>
        assert (HL : exists s', loop Xf Xc Xb Xp Xs = Fall s' /\ (Inv3 s' /\ n <= checksumZeroGo_p_1 s'))
      end.
      { apply (loop_falls Inv3 (fun s1 => Z.to_nat (n - checksumZeroGo_p_1 s1))).
        - intros s1 Hi Hc. cbv beta in Hc. split; [exact Hi|].
          destruct Hi as (_ & _ & Hn3 & _). lia.
        - intros s1 (Hin1 & Hmem1 & Hn1 & Hp & Hp' & Hfin) Hc. cbv beta in Hc.
          assert (Hp4 : checksumZeroGo_p_1 s1 < n) by lia.
          eexists. eexists. split; [|split].
          + rewrite seq_guard_ok.
            2:{ cbv beta. rewrite Hin1. slice_simpl. lia. }
            xxh32_steps. reflexivity.
          + reflexivity.
          + unfold Inv3. xxh32_state_simpl. rewrite wi64_id by lia.
            unfold sget, sl_get. rewrite Hin1. slice_simpl. xxh32_state_simpl. rewrite Hmem1.
            split; [|lia].
            splits; try easy_goal.
            rewrite <- Hfin. unfold data at 2.
            rewrite (znth_zsub_skipn mem o n (checksumZeroGo_p_1 s1)) by lia.
            cbn [tail1_i]. rewrite step1_eq. reflexivity.
        - unfold Inv3.
          splits; try easy_goal.
        - lia. }
      destruct HL as (s3 & HL & (Hin3 & Hmem3 & Hn3 & Hp3 & _ & Hfin3) & Hex3).
      rewrite (seq_Fall _ _ _ _ HL). clear HL Inv3.
      rewrite skipn_all2 in Hfin3 by (unfold zlen in Hdl; lia). cbn [tail1_i] in Hfin3.
      xxh32_steps. apply returns_Ret. xxh32_state_simpl.
      rewrite <- Hfin3. apply avalanche_eq. }
    cbn [s_len]. fold N. fold C. fold mem.
    rewrite seq_ite. xxh32_state_simpl.
    destruct (N <? 16) eqn:E16.
    - (* short input *)
      apply Z.ltb_lt in E16. xxh32_steps.
      eapply returns_impl.
      + eapply (Htail _ 0 N C); xxh32_state_simpl; try reflexivity; lia.
      + cbv beta. intros s1 ->. unfold mem, N. rewrite zsub_app_all.
        rewrite checksum_zero_small by (rewrite <- zlen_len; exact E16). reflexivity.
    - (* at least one stripe *)
      apply Z.ltb_ge in E16. steps.
      rewrite (wi64_id (N - 16)) by lia.
      pose (Inv1 := fun s1 : state =>
        checksumZeroGo_input s1 = mkslice false L_checksumZeroGo_input 0 N C /\
        mem_checksumZeroGo_input s1 = mem /\ checksumZeroGo_n s1 = N /\
        checksumZeroGo_n_1 s1 = N - 16 /\ checksumZeroGo_h32 s1 = wu32 N /\
        0 <= checksumZeroGo_p s1 <= N /\
        lanes_of (checksumZeroGo_v1 s1, checksumZeroGo_v2 s1, checksumZeroGo_v3 s1, checksumZeroGo_v4 s1)
                 (skipn (Z.to_nat (checksumZeroGo_p s1)) input) = lanes_of oneshot_lanes input /\
        tail_of (skipn (Z.to_nat (checksumZeroGo_p s1)) input) = tail_of input).
      lazymatch goal with |- returns (seq (loop ?Xf ?Xc ?Xb ?Xp) _ ?Xs) _ =>
        assert (HL : exists s', loop Xf Xc Xb Xp Xs = Fall s' /\ (Inv1 s' /\ N - 16 < checksumZeroGo_p s'))
      end.
      { apply (loop_falls Inv1 (fun s1 => Z.to_nat ((N - checksumZeroGo_p s1) / 16))).
        - intros s1 Hi Hc. cbv beta in Hc. split; [exact Hi|].
          destruct Hi as (_ & _ & _ & Hn1 & _). lia.
        - intros s1 (Hin1 & Hmem1 & Hn1 & Hn1' & Hh1 & Hp & Hla & Hta) Hc. cbv beta in Hc.
          assert (Hp16 : checksumZeroGo_p s1 + 16 <= N) by lia.
          eexists. eexists. split; [|split].
          + repeat (first [rewrite seq_assoc | rewrite seq_guard_ok | rewrite guard_ok | got_step];
                    [xxh32_state_simpl | cbv beta; xxh32_state_simpl; rewrite ?Hin1; slice_simpl; lia ..]).
            reflexivity.
          + steps. reflexivity.
          + unfold Inv1. xxh32_state_simpl. rewrite wi64_id by lia.
            rewrite !le32_wordZ, !Hin1. slice_simpl. xxh32_state_simpl. rewrite !Hmem1.
            split; [|dlia].
            set (rest := skipn (Z.to_nat (checksumZeroGo_p s1)) input) in *.
            assert (Hrl : (16 <= length rest)%nat)
              by (unfold rest; rewrite skipn_length; unfold N, zlen in Hp16; lia).
            replace (skipn (Z.to_nat (checksumZeroGo_p s1 + 16)) input) with (skipn 16 rest)
              by (unfold rest; rewrite <- Base.skipn_add; f_equal; lia).
            destruct (lanes_step (checksumZeroGo_v1 s1, checksumZeroGo_v2 s1, checksumZeroGo_v3 s1, checksumZeroGo_v4 s1)
                                 rest Hrl) as [Q1 Q2].
            rewrite <- Hla, <- Hta, <- Q1, <- Q2. splits; try easy_goal. f_equal.
            apply stripe_eq; apply wordZ_app; fold N; lia.
        - unfold Inv1. xxh32_state_simpl.
          splits; try easy_goal.
        - xxh32_state_simpl. dlia. }
      destruct HL as (s2 & HL & (Hin2 & Hmem2 & Hn2 & _ & Hh2 & Hp2 & Hla2 & Hta2) & Hex2).
      rewrite (seq_Fall _ _ _ _ HL). clear HL Inv1.
      steps_g ltac:(cbv beta; rewrite Hin2; slice_simpl; lia).
      set (p := checksumZeroGo_p s2) in *.
      set (rest := skipn (Z.to_nat p) input) in *.
      assert (Hrl : (length rest < 16)%nat)
        by (unfold rest; rewrite skipn_length; unfold N, zlen in Hex2; lia).
      destruct (lanes_short (checksumZeroGo_v1 s2, checksumZeroGo_v2 s2, checksumZeroGo_v3 s2, checksumZeroGo_v4 s2)
                            rest Hrl) as [Q1 Q2].
      rewrite Q1 in Hla2. rewrite Q2 in Hta2.
      eapply returns_impl.
      + eapply (Htail _ (0 + p) (N - p) (C - p)); xxh32_state_simpl;
          rewrite ?Hin2, ?Hn2; slice_simpl;
          first [assumption | reflexivity | lia | (apply wi64_id; lia)].
      + cbv beta. intros s1 ->.
        rewrite checksum_zero_big by (rewrite <- zlen_len; exact E16).
        rewrite <- Hla2, <- Hta2, Hh2, merge_eq.
        unfold rest. rewrite <- (zsub_app_all input spare) at 2. fold mem. fold N.
        rewrite zsub_skipn by lia. reflexivity.
  Qed.
End OneShot.

(* ------------------------------------------------------------------------------------------ *)
(* 5. The streaming state: abstraction and well-formedness                                    *)
(* ------------------------------------------------------------------------------------------ *)
(* the struct is unchanged *)
Definition same_x (s s' : state) : Prop :=
  mem_XXHZero_v s' = mem_XXHZero_v s /\ mem_XXHZero_buf s' = mem_XXHZero_buf s /\
  XXHZero_totalLen s' = XXHZero_totalLen s /\ XXHZero_bufused s' = XXHZero_bufused s.

Lemma same_x_abs s s' : same_x s s' -> abs_x s' = abs_x s.
Proof. intros (H1 & H2 & H3 & H4). unfold abs_x. rewrite H1, H2, H3, H4. reflexivity. Qed.
Lemma same_x_wf s s' : same_x s s' -> wf_x s -> wf_x s'.
Proof. intros (H1 & H2 & H3 & H4). unfold wf_x, wf_arrays. rewrite H1, H2, H3, H4. tauto. Qed.

(* ------------------------------------------------------------------------------------------ *)
(* 6. Sum32                                                                                   *)
(* ------------------------------------------------------------------------------------------ *)
Lemma word_firstn (l : list Z) (k q : nat) (i : nat) : (q + i + 4 <= k)%nat ->
  word (skipn q (firstn k l)) i = word (skipn q l) i.
Proof.
  intros H. unfold word. rewrite !nth_skipn_add. rewrite !Base.nth_firstn by lia. reflexivity.
Qed.

Lemma skipn_firstn_cons (l : list Z) (k q : Z) : 0 <= q < k -> k <= zlen l ->
  skipn (Z.to_nat q) (firstn (Z.to_nat k) l)
  = znth l q :: skipn (Z.to_nat (q + 1)) (firstn (Z.to_nat k) l).
Proof.
  intros Hq Hk. change (firstn (Z.to_nat k) l) with (zsub l 0 k).
  rewrite (znth_zsub_skipn l 0 k q) by lia. reflexivity.
Qed.

Lemma Sum32_model fuel s :
  wf_x s -> (4 <= fuel)%nat ->
  returns (xxh32_XXHZero_Sum32 fuel s)
          (fun s' => XXHZero_Sum32_ret0 s' = xsum32 (abs_x s) /\ same_x s s').
Proof.
  intros ((Hvl & Hvw & Hbl & Hbb) & Hbu & Htl) Hfuel.
  set (buf := mem_XXHZero_buf s). set (n := XXHZero_bufused s).
  set (data := firstn (Z.to_nat n) buf).
  assert (Hdl : zlen data = n) by (unfold data, zlen; rewrite firstn_length; fold buf in Hbl; lia).
  unfold xxh32_XXHZero_Sum32. steps.
  lazymatch goal with |- returns (seq (ite _ _ _) ?Xk _) _ => set (K := Xk) end.
  assert (Htail : forall s1 h, XXHZero_Sum32_h32 s1 = h -> same_x s s1 ->
            returns (K s1) (fun s' => XXHZero_Sum32_ret0 s' = finish_impl h data /\ same_x s s')).
  { intros s1 h Hh (Sv & Sb & St & Su). unfold K. steps.
    rewrite Su. fold n. rewrite (wi64_id (n - 4)) by lia.
    pose (Inv2 := fun s2 : state =>
      same_x s s2 /\ mem_XXHZero_Sum32_buf s2 = buf /\ XXHZero_Sum32_n s2 = n /\
      XXHZero_Sum32_n_1 s2 = n - 4 /\ 0 <= XXHZero_Sum32_p s2 <= n /\
      finish_impl (XXHZero_Sum32_h32 s2) (skipn (Z.to_nat (XXHZero_Sum32_p s2)) data) = finish_impl h data).
    lazymatch goal with |- returns (seq (loop ?Xf ?Xc ?Xb ?Xp) _ ?Xs) _ =>
      assert (HL : exists s', loop Xf Xc Xb Xp Xs = Fall s' /\ (Inv2 s' /\ n - 4 < XXHZero_Sum32_p s'))
    end.
    { apply (loop_falls Inv2 (fun s2 => Z.to_nat ((n - XXHZero_Sum32_p s2) / 4))).
      - intros s2 Hi Hc. cbv beta in Hc. split; [exact Hi|].
        destruct Hi as (_ & _ & _ & Hn2 & _). lia.
      - intros s2 ((Sv2 & Sb2 & St2 & Su2) & Hb2 & Hn2 & Hn2' & Hp & Hfin) Hc. cbv beta in Hc.
        assert (Hp4 : XXHZero_Sum32_p s2 + 4 <= n) by lia.
        eexists. eexists. split; [|split].
        + steps_g ltac:(cbv beta; slice_simpl; rewrite wi64_id by lia; lia). reflexivity.
        + steps. reflexivity.
        + unfold Inv2, same_x in *. xxh32_state_simpl. rewrite wi64_id by lia.
          rewrite le32_wordZ. slice_simpl. xxh32_state_simpl. rewrite Hb2.
          split; [|dlia].
          splits; try easy_goal.
          rewrite <- Hfin.
          rewrite (finish_peel4 _ (skipn (Z.to_nat (XXHZero_Sum32_p s2)) data))
            by (rewrite skipn_length; unfold zlen in Hdl; lia).
          rewrite <- Base.skipn_add.
          replace (Z.to_nat (XXHZero_Sum32_p s2 + 4)) with (Z.to_nat (XXHZero_Sum32_p s2) + 4)%nat by lia.
          f_equal. apply step4_eq. unfold data.
          rewrite word_firstn by lia.
          rewrite <- (app_nil_r buf) at 1. apply wordZ_app; unfold zlen; fold buf in Hbl; lia.
      - unfold Inv2, same_x. xxh32_state_simpl.
        splits; try easy_goal; rewrite Hh; reflexivity.
      - xxh32_state_simpl. dlia. }
    destruct HL as (s2 & HL & (Hs2 & Hb2 & Hn2 & _ & Hp2 & Hfin2) & Hex2).
    rewrite (seq_Fall _ _ _ _ HL). clear HL Inv2.
    rewrite finish_short in Hfin2 by (rewrite skipn_length; unfold zlen in Hdl; lia).
    pose (Inv3 := fun s3 : state =>
      same_x s s3 /\ mem_XXHZero_Sum32_buf s3 = buf /\ XXHZero_Sum32_n s3 = n /\
      0 <= XXHZero_Sum32_p s3 <= n /\ n - 4 < XXHZero_Sum32_p s3 /\
      avalanche_i (tail1_i (XXHZero_Sum32_h32 s3) (skipn (Z.to_nat (XXHZero_Sum32_p s3)) data))
      = finish_impl h data).
    lazymatch goal with |- returns (seq (loop ?Xf ?Xc ?Xb ?Xp) _ ?Xs) _ =>
      assert (HL : exists s', loop Xf Xc Xb Xp Xs = Fall s' /\ (Inv3 s' /\ n <= XXHZero_Sum32_p s'))
    end.
    { apply (loop_falls Inv3 (fun s3 => Z.to_nat (n - XXHZero_Sum32_p s3))).
      - intros s3 Hi Hc. cbv beta in Hc. split; [exact Hi|].
        destruct Hi as (_ & _ & Hn3 & _). lia.
      - intros s3 ((Sv3 & Sb3 & St3 & Su3) & Hb3 & Hn3 & Hp & Hp' & Hfin) Hc. cbv beta in Hc.
        assert (Hp4 : XXHZero_Sum32_p s3 < n) by lia.
        eexists. eexists. split; [|split].
        + steps_g ltac:(cbv beta; slice_simpl; lia). reflexivity.
        + steps. reflexivity.
        + unfold Inv3, same_x in *. xxh32_state_simpl. rewrite wi64_id by lia.
          rewrite Hb3.
          split; [|lia].
          splits; try easy_goal.
          rewrite <- Hfin.
          assert (Hsk : skipn (Z.to_nat (XXHZero_Sum32_p s3)) data
                        = znth buf (XXHZero_Sum32_p s3) :: skipn (Z.to_nat (XXHZero_Sum32_p s3 + 1)) data).
          { unfold data. apply skipn_firstn_cons; [lia|]. unfold zlen; fold buf in Hbl; lia. }
          rewrite Hsk. cbn [tail1_i]. rewrite step1_eq. reflexivity.
      - unfold Inv3.
        splits; try easy_goal.
      - lia. }
    destruct HL as (s3 & HL & (Hs3 & Hb3 & Hn3 & Hp3 & _ & Hfin3) & Hex3).
    rewrite (seq_Fall _ _ _ _ HL). clear HL Inv3.
    rewrite skipn_all2 in Hfin3 by (unfold zlen in Hdl; lia). cbn [tail1_i] in Hfin3.
    steps. apply returns_Ret. unfold same_x in *. xxh32_state_simpl.
    split; [|assumption].
    rewrite <- Hfin3. apply avalanche_eq. }
  clearbody K.
  assert (Hsame : same_x s s) by (repeat split).
  unfold xsum32, xsum32_g, abs_x. cbn [xtotal xv xbuf]. fold buf. fold n. fold data.
  rewrite seq_ite. xxh32_state_simpl.
  destruct (16 <=? XXHZero_totalLen s) eqn:E16.
  - steps. apply Htail; [reflexivity|]. unfold same_x; xxh32_state_simpl; repeat split.
  - steps. apply Htail; [reflexivity|]. unfold same_x; xxh32_state_simpl; repeat split.
Qed.

(* ------------------------------------------------------------------------------------------ *)
(* 7. Reset                                                                                   *)
(* ------------------------------------------------------------------------------------------ *)
Definition reset_v : list Z := [606290984; 2246822519; 0; 1640531535].
Definition reset_state (s : state) : state :=
  set_XXHZero_bufused 0 (set_XXHZero_totalLen 0 (set_mem_XXHZero_v reset_v s)).

Lemma Reset_eq fuel s : length (mem_XXHZero_v s) = 4%nat ->
  xxh32_XXHZero_Reset fuel s = Fall (reset_state s).
Proof.
  intros Hv. destruct (length4 _ Hv) as (a & b & c & d & Hv4).
  unfold xxh32_XXHZero_Reset. steps.
  unfold reset_state, sset, sl_set, sl_array. cbn [s_loc s_off]. xxh32_state_simpl.
  rewrite Hv4. reflexivity.
Qed.

(* ------------------------------------------------------------------------------------------ *)
(* 8. updateGo / update (as called from Write)                                                *)
(* ------------------------------------------------------------------------------------------ *)
(* what Write still needs after the call *)
Definition frame_w (s s' : state) : Prop :=
  mem_XXHZero_buf s' = mem_XXHZero_buf s /\ XXHZero_totalLen s' = XXHZero_totalLen s /\
  XXHZero_bufused s' = XXHZero_bufused s /\ XXHZero_Write_input s' = XXHZero_Write_input s /\
  XXHZero_Write_n s' = XXHZero_Write_n s /\ mem_XXHZero_Write_input s' = mem_XXHZero_Write_input s.

Lemma is_word32_wu32 x : is_word32 (wu32 x).
Proof. unfold is_word32. change (2 ^ 32) with 4294967296. apply wu32_range. Qed.

Definition lanes_word32 (v : lanes) : Prop :=
  let '(a, b, c, d) := v in is_word32 a /\ is_word32 b /\ is_word32 c /\ is_word32 d.

Lemma lanes_word32_Forall a b c d : lanes_word32 (a, b, c, d) <-> Forall is_word32 [a; b; c; d].
Proof.
  split.
  - intros (W1 & W2 & W3 & W4). apply Forall_cons; [assumption|]. apply Forall_cons; [assumption|].
    apply Forall_cons; [assumption|]. apply Forall_cons; [assumption|]. apply Forall_nil.
  - intros H. inversion H as [|x1 l1 W1 H1]; subst. inversion H1 as [|x2 l2 W2 H2]; subst.
    inversion H2 as [|x3 l3 W3 H3]; subst. inversion H3 as [|x4 l4 W4 H4]; subst.
    split; [assumption|split; [assumption|split; assumption]].
Qed.

Lemma updateGo_model fuel s (usebuf : bool) a b c d o n cp mem :
  updateGo_v s = sl_array L_XXHZero_v 4 -> mem_XXHZero_v s = [a; b; c; d] ->
  updateGo_buf s = (if usebuf then sl_array L_XXHZero_buf 16 else nilv) ->
  (usebuf = true -> length (mem_XXHZero_buf s) = 16%nat) ->
  updateGo_input s = mkslice false L_XXHZero_Write_input o n cp ->
  mem_XXHZero_Write_input s = mem ->
  0 <= o -> 0 <= n <= cp -> o + cp <= zlen mem ->
  lanes_word32 (a, b, c, d) ->
  (Z.to_nat (n / 16) < fuel)%nat ->
  falls (xxh32_updateGo fuel s)
        (fun s' => exists a' b' c' d',
           mem_XXHZero_v s' = [a'; b'; c'; d'] /\
           (a', b', c', d') = lanes_of (if usebuf then stripe_i (a, b, c, d) (mem_XXHZero_buf s) else (a, b, c, d))
                                       (zsub mem o n) /\
           lanes_word32 (a', b', c', d') /\ frame_w s s').
Proof.
  intros Hv Hmv Hbuf Hbl Hin Hmem Ho Hn Hoc Hw Hfuel.
  set (data := zsub mem o n).
  assert (Hdl : zlen data = n) by (apply zsub_length; lia).
  set (V0 := if usebuf then stripe_i (a, b, c, d) (mem_XXHZero_buf s) else (a, b, c, d)).
  unfold xxh32_updateGo.
  rewrite seq_guard_ok by (cbv beta; rewrite Hv; reflexivity).
  steps.
  lazymatch goal with |- falls (seq (ite _ _ _) ?Xk _) _ => set (K := Xk) end.
  assert (Htail : forall s1,
    updateGo_v s1 = sl_array L_XXHZero_v 4 -> mem_XXHZero_v s1 = [a; b; c; d] ->
    updateGo_input s1 = mkslice false L_XXHZero_Write_input o n cp ->
    mem_XXHZero_Write_input s1 = mem -> frame_w s s1 ->
    (updateGo_v1 s1, updateGo_v2 s1, updateGo_v3 s1, updateGo_v4 s1) = V0 ->
    lanes_word32 V0 ->
    falls (K s1) (fun s' => exists a' b' c' d',
           mem_XXHZero_v s' = [a'; b'; c'; d'] /\ (a', b', c', d') = lanes_of V0 data /\
           lanes_word32 (a', b', c', d') /\ frame_w s s')).
  { clear Hv Hmv Hbuf Hin. intros s1 Hv Hmv Hin Hmem1 Hfr HV0 HW0. unfold K.
    pose (InvU := fun s2 : state =>
      updateGo_v s2 = sl_array L_XXHZero_v 4 /\ mem_XXHZero_v s2 = [a; b; c; d] /\
      mem_XXHZero_Write_input s2 = mem /\ frame_w s s2 /\
      lanes_word32 (updateGo_v1 s2, updateGo_v2 s2, updateGo_v3 s2, updateGo_v4 s2) /\
      exists p, 0 <= p <= n /\
        updateGo_input s2 = mkslice false L_XXHZero_Write_input (o + p) (n - p) (cp - p) /\
        lanes_of (updateGo_v1 s2, updateGo_v2 s2, updateGo_v3 s2, updateGo_v4 s2) (skipn (Z.to_nat p) data)
        = lanes_of V0 data).
    lazymatch goal with |- falls (seq (loop ?Xf ?Xc ?Xb ?Xp) _ ?Xs) _ =>
      assert (HL : exists s', loop Xf Xc Xb Xp Xs = Fall s' /\ (InvU s' /\ s_len (updateGo_input s') < 16))
    end.
    { apply (loop_falls InvU (fun s2 => Z.to_nat (s_len (updateGo_input s2) / 16))).
      - intros s2 Hi Hc. cbv beta in Hc. split; [exact Hi|]. lia.
      - intros s2 (Hv2 & Hmv2 & Hmem2 & Hfr2 & Hw2 & p & Hp & Hin2 & Hla) Hc. cbv beta in Hc.
        rewrite Hin2 in Hc. cbn [s_len] in Hc.
        assert (Hp16 : p + 16 <= n) by lia.
        eexists. eexists. split; [|split].
        + steps_g ltac:(cbv beta; xxh32_state_simpl; rewrite ?Hin2; slice_simpl; lia). reflexivity.
        + steps_g ltac:(cbv beta; xxh32_state_simpl; rewrite ?Hin2; slice_simpl; lia). reflexivity.
        + unfold InvU, frame_w in *. xxh32_state_simpl.
          rewrite !le32_wordZ, !Hin2. slice_simpl. xxh32_state_simpl.
          split; [|dlia].
          split; [assumption|]. split; [assumption|]. split; [assumption|]. split; [assumption|].
          rewrite !Hmem2.
          split; [repeat split; apply is_word32_wu32|].
          exists (p + 16). split; [lia|]. split; [f_equal; lia|].
          set (rest := skipn (Z.to_nat p) data) in *.
          assert (Hrl : (16 <= length rest)%nat)
            by (unfold rest; rewrite skipn_length; unfold zlen in Hdl; lia).
          replace (skipn (Z.to_nat (p + 16)) data) with (skipn 16 rest)
            by (unfold rest; rewrite <- Base.skipn_add; f_equal; lia).
          destruct (lanes_step (updateGo_v1 s2, updateGo_v2 s2, updateGo_v3 s2, updateGo_v4 s2) rest Hrl)
            as [Q1 _].
          rewrite <- Hla, <- Q1. f_equal.
          apply stripe_eq; apply (wordZ_zsub mem o n); lia.
      - unfold InvU. splits; try easy_goal.
        + rewrite HV0. exact HW0.
        + exists 0. splits; try easy_goal.
          * rewrite Hin. f_equal; lia.
          * rewrite HV0. reflexivity.
      - rewrite Hin. cbn [s_len]. exact Hfuel. }
    destruct HL as (s2 & HL & (Hv2 & Hmv2 & Hmem2 & Hfr2 & Hw2 & p & Hp & Hin2 & Hla) & Hex).
    rewrite (seq_Fall _ _ _ _ HL). clear HL InvU.
    rewrite Hin2 in Hex. cbn [s_len] in Hex.
    rewrite guard_ok by (cbv beta; rewrite Hv2; reflexivity).
    rewrite upd_eq. apply falls_Fall.
    exists (updateGo_v1 s2), (updateGo_v2 s2), (updateGo_v3 s2), (updateGo_v4 s2).
    split; [|split; [|split]].
    - unfold sset, sl_set. rewrite Hv2. unfold sl_array. cbn [s_loc s_off]. xxh32_state_simpl.
      rewrite Hmv2. reflexivity.
    - rewrite <- Hla. symmetry. apply lanes_short.
      rewrite skipn_length. unfold zlen in Hdl. lia.
    - exact Hw2.
    - unfold frame_w, sset, sl_set in *. rewrite Hv2. unfold sl_array. cbn [s_loc s_off].
      xxh32_state_simpl. exact Hfr2. }
  clearbody K.
  assert (Hfr0 : frame_w s s) by (repeat split).
  unfold sget, sl_get. rewrite Hv. unfold sl_array. cbn [s_loc s_off]. xxh32_state_simpl. rewrite Hmv.
  change (znth [a; b; c; d] (0 + 0)) with a. change (znth [a; b; c; d] (0 + 1)) with b.
  change (znth [a; b; c; d] (0 + 2)) with c. change (znth [a; b; c; d] (0 + 3)) with d.
  rewrite seq_ite. xxh32_state_simpl. rewrite Hbuf.
  destruct usebuf.
  - cbn [s_nil sl_array negb].
    steps_g ltac:(cbv beta; xxh32_state_simpl; rewrite ?Hbuf; reflexivity).
    apply Htail; unfold frame_w in *; xxh32_state_simpl; try assumption.
    + rewrite !le32_wordZ, Hbuf. slice_simpl. xxh32_state_simpl.
      unfold V0.
      apply stripe_eq; apply wordZ_self; unfold zlen; rewrite ?Hbl by reflexivity; lia.
    + unfold V0, stripe_i. repeat split; apply is_word32_wu32.
  - cbn [s_nil nilv sl_nilv negb]. steps.
    apply Htail; unfold frame_w in *; xxh32_state_simpl; try assumption; reflexivity.
Qed.

Lemma update_model fuel s (usebuf : bool) a b c d o n cp mem :
  update_v s = sl_array L_XXHZero_v 4 -> mem_XXHZero_v s = [a; b; c; d] ->
  update_buf s = (if usebuf then sl_array L_XXHZero_buf 16 else nilv) ->
  (usebuf = true -> length (mem_XXHZero_buf s) = 16%nat) ->
  update_input s = mkslice false L_XXHZero_Write_input o n cp ->
  mem_XXHZero_Write_input s = mem ->
  0 <= o -> 0 <= n <= cp -> o + cp <= zlen mem ->
  lanes_word32 (a, b, c, d) ->
  (Z.to_nat (n / 16) < fuel)%nat ->
  falls (xxh32_update fuel s)
        (fun s' => exists a' b' c' d',
           mem_XXHZero_v s' = [a'; b'; c'; d'] /\
           (a', b', c', d') = lanes_of (if usebuf then stripe_i (a, b, c, d) (mem_XXHZero_buf s) else (a, b, c, d))
                                       (zsub mem o n) /\
           lanes_word32 (a', b', c', d') /\ frame_w s s').
Proof.
  intros Hv Hmv Hbuf Hbl Hin Hmem Ho Hn Hoc Hw Hfuel.
  unfold xxh32_update. rewrite seq_upd.
  lazymatch goal with |- falls (call _ ?Xs) _ => set (s1 := Xs) end.
  destruct (updateGo_model fuel s1 usebuf a b c d o n cp mem) as (s' & He & Hpost);
    try assumption; try (unfold s1; xxh32_state_simpl; assumption).
  rewrite (call_Fall _ _ _ He). exists s'. split; [reflexivity|]. exact Hpost.
Qed.

(* ------------------------------------------------------------------------------------------ *)
(* 9. Write                                                                                   *)
(* ------------------------------------------------------------------------------------------ *)
Lemma bytes_zsplice l off d : bytes l -> bytes d -> bytes (zsplice l off d).
Proof.
  intros Hl Hd. unfold zsplice. apply bytes_app. split; [apply bytes_firstn, Hl|].
  apply bytes_app. split; [exact Hd|apply bytes_skipn, Hl].
Qed.
Lemma bytes_zsub l o n : bytes l -> bytes (zsub l o n).
Proof. intros H. unfold zsub. apply bytes_firstn, bytes_skipn, H. Qed.
Lemma firstn_zsplice l off d : 0 <= off -> off + zlen d <= zlen l ->
  firstn (Z.to_nat (off + zlen d)) (zsplice l off d) = firstn (Z.to_nat off) l ++ d.
Proof.
  intros Ho Hl. unfold zsplice, zlen in *.
  assert (Hf : length (firstn (Z.to_nat off) l) = Z.to_nat off) by (rewrite firstn_length; lia).
  rewrite firstn_app, Hf.
  rewrite firstn_all2 by lia. f_equal.
  replace (Z.to_nat (off + Z.of_nat (length d)) - Z.to_nat off)%nat with (length d) by lia.
  rewrite firstn_app, Nat.sub_diag, firstn_all. cbn [firstn]. apply app_nil_r.
Qed.
Lemma zsub_app_firstn (a b : list Z) r : 0 <= r <= zlen a -> zsub (a ++ b) 0 r = firstn (Z.to_nat r) a.
Proof.
  intros H. unfold zsub, zlen in *. cbn [Z.to_nat skipn]. rewrite firstn_app.
  replace (Z.to_nat r - length a)%nat with O by lia. cbn [firstn]. apply app_nil_r.
Qed.
Lemma zsub_app_l (a b : list Z) o n : 0 <= o -> 0 <= n -> o + n <= zlen a ->
  zsub (a ++ b) o n = zsub a o n.
Proof.
  intros Ho Hn Hl. unfold zsub, zlen in *. rewrite skipn_app, firstn_app.
  rewrite skipn_length.
  replace (Z.to_nat n - (length a - Z.to_nat o))%nat with O by lia. cbn [firstn]. apply app_nil_r.
Qed.
Lemma zsplice_fill (buf inp sp : list Z) m r :
  length buf = 16%nat -> 0 <= m -> 0 <= r -> m + r = 16 -> r <= zlen inp ->
  zsplice buf m (zsub (inp ++ sp) 0 r) = firstn (Z.to_nat m) buf ++ firstn (Z.to_nat r) inp.
Proof.
  intros Hb Hm Hr Hmr Hl. rewrite zsub_app_firstn by lia. unfold zsplice.
  rewrite skipn_all2; [rewrite app_nil_r; reflexivity|].
  rewrite firstn_length. unfold zlen in Hl. lia.
Qed.
Lemma tail_of_zsub (mem : list Z) o n : 0 <= o -> 0 <= n -> o + n <= zlen mem ->
  tail_of (zsub mem o n) = zsub mem (o + (n - n mod 16)) (n mod 16).
Proof.
  intros Ho Hn Hl. unfold tail_of, nfull.
  assert (Hdl : zlen (zsub mem o n) = n) by (apply zsub_length; lia).
  unfold zlen in Hdl.
  pose proof (Nat2Z.inj_div (length (zsub mem o n)) 16) as Hdiv. change (Z.of_nat 16) with 16 in Hdiv.
  rewrite Hdl in Hdiv.
  replace (16 * (length (zsub mem o n) / 16))%nat with (Z.to_nat (n - n mod 16)) by dlia.
  rewrite zsub_skipn by dlia. f_equal. lia.
Qed.

(* xwrite with the reset decision taken *)
Definition xwrite_core (v0 : lanes) (b0 : list Z) (t : Z) (inp : list Z) : xst :=
  let n := length inp in let m := length b0 in
  let t := w64 (t + Z.of_nat n) in
  if (n <? 16 - m)%nat then mkx v0 t (b0 ++ inp)
  else
    let '(v1, inp1) := if (m =? 0)%nat then (v0, inp)
                       else (stripe_i v0 (b0 ++ firstn (16 - m) inp), skipn (16 - m) inp) in
    let '(v2, r) := stripes_loop (length inp1) v1 inp1 in
    mkx v2 t r.
Lemma xwrite_eq st inp :
  xwrite st inp = xwrite_core (if xtotal st =? 0 then reset_lanes else xv st)
                              (if xtotal st =? 0 then [] else xbuf st) (xtotal st) inp.
Proof. reflexivity. Qed.
Lemma xwrite_core_small v0 b0 t inp : (length inp < 16 - length b0)%nat ->
  xwrite_core v0 b0 t inp = mkx v0 (w64 (t + len inp)) (b0 ++ inp).
Proof. intros H. unfold xwrite_core. apply Nat.ltb_lt in H. rewrite H. reflexivity. Qed.
Lemma xwrite_core_big0 v0 t inp : (16 <= length inp)%nat ->
  xwrite_core v0 [] t inp = mkx (lanes_of v0 inp) (w64 (t + len inp)) (tail_of inp).
Proof.
  intros H. unfold xwrite_core. cbn [length Nat.eqb].
  replace (length inp <? 16 - 0)%nat with false by (symmetry; apply Nat.ltb_ge; lia).
  rewrite stripes_loop_spec by lia. reflexivity.
Qed.
Lemma xwrite_core_bigm v0 b0 t inp : (0 < length b0 <= 16)%nat -> (16 - length b0 <= length inp)%nat ->
  xwrite_core v0 b0 t inp =
  mkx (lanes_of (stripe_i v0 (b0 ++ firstn (16 - length b0) inp)) (skipn (16 - length b0) inp))
      (w64 (t + len inp)) (tail_of (skipn (16 - length b0) inp)).
Proof.
  intros Hm H. unfold xwrite_core.
  replace (length inp <? 16 - length b0)%nat with false by (symmetry; apply Nat.ltb_ge; lia).
  replace (length b0 =? 0)%nat with false by (symmetry; apply Nat.eqb_neq; lia).
  rewrite stripes_loop_spec by lia. reflexivity.
Qed.


Section Write.
  Variables (input spare : list Z).
  Let N := zlen input.
  Let mem := input ++ spare.
  Let C := zlen input + zlen spare.

  Lemma Write_model fuel s0 :
    wf_x s0 -> bytes input -> len input < 2 ^ 63 -> (length input / 16 < fuel)%nat ->
    returns (xxh32_XXHZero_Write fuel (init_xxh32_XXHZero_Write_fresh input spare s0))
            (fun s' => wf_x s' /\ abs_x s' = xwrite (abs_x s0) input /\
                       XXHZero_Write_ret0 s' = write_ret s0 (len input)).
  Proof.
    intros Hwf Hbytes Hlen Hfuel.
    assert (HN0 : 0 <= N) by apply zlen_nonneg.
    assert (HNlen : N = len input) by reflexivity.
    assert (HS0 : 0 <= zlen spare) by apply zlen_nonneg.
    assert (Hmemlen : zlen mem = C) by apply zlen_app.
    assert (Hfuel' : N / 16 < Z.of_nat fuel).
    { pose proof (Nat2Z.inj_div (length input) 16) as Hdiv. change (Z.of_nat 16) with 16 in Hdiv.
      unfold N, zlen. lia. }
    unfold xxh32_XXHZero_Write, init_xxh32_XXHZero_Write_fresh. fold N. fold C. fold mem.
    lazymatch goal with |- returns (seq (ite _ _ _) ?Xk _) _ => set (K := Xk) end.
    assert (Hrest : forall s1 a b c d buf m t,
      XXHZero_Write_input s1 = mkslice false L_XXHZero_Write_input 0 N C ->
      mem_XXHZero_Write_input s1 = mem ->
      mem_XXHZero_v s1 = [a; b; c; d] -> lanes_word32 (a, b, c, d) ->
      mem_XXHZero_buf s1 = buf -> length buf = 16%nat -> bytes buf ->
      XXHZero_bufused s1 = m -> 0 <= m < 16 -> XXHZero_totalLen s1 = t -> 0 <= t < 2 ^ 64 ->
      returns (K s1) (fun s' => wf_x s' /\
         abs_x s' = xwrite_core (a, b, c, d) (firstn (Z.to_nat m) buf) t input /\
         XXHZero_Write_ret0 s' = (if (N <? 16 - m) || (m =? 0) then N else N - (16 - m)))).
    { clear s0 Hwf. intros s1 a b c d buf m t Hin Hmem Hv Hvw Hbuf Hbl Hbb Hm Hm16 Ht Ht64.
      unfold K. steps. rewrite Hin, Hm, Ht. cbn [s_len].
      rewrite (wu64_id N) by lia. rewrite (wi64_id (16 - m)) by lia.
      lazymatch goal with |- returns (seq (ite _ _ _) ?Xk _) _ => set (K2 := Xk) end.
      rewrite seq_ite. xxh32_state_simpl.
      destruct (N <? 16 - m) eqn:Er.
      - (* everything fits into the pending buffer *)
        apply Z.ltb_lt in Er.
        repeat (first [rewrite seq_assoc
                      | rewrite seq_guard_ok by (cbv beta; norm; lia)
                      | rewrite guard_ok by (cbv beta; norm; lia)
                      | got_step];
                norm; rewrite ?Hin, ?Hm, ?Hmem, ?Hbuf; norm).
        apply returns_Ret.
        unfold wf_x, wf_arrays, abs_x. xxh32_state_simpl. rewrite !Hv.
        rewrite !Z.min_r by lia. rewrite (wi64_id (m + N)) by lia.
        change (0 + m) with m.
        unfold mem, N. rewrite zsub_app_all. fold N.
        assert (Hzl : zlen (zsplice buf m input) = zlen buf)
          by (apply zsplice_length; unfold zlen; fold (zlen input); fold N; lia).
        splits; try easy_goal.
        + apply lanes_word32_Forall, Hvw.
        + unfold zlen in Hzl. lia.
        + apply bytes_zsplice; assumption.
        + apply Z.mod_pos_bound. lia.
        + apply Z.mod_pos_bound. lia.
        + rewrite xwrite_core_small
            by (rewrite firstn_length; unfold N, zlen in Er; lia).
          f_equal.
          unfold N. rewrite firstn_zsplice by (unfold zlen; fold (zlen input); fold N; lia).
          reflexivity.
      - (* at least one stripe gets completed *)
        apply Z.ltb_ge in Er. unfold K2. steps.
        lazymatch goal with |- returns (seq (ite _ _ _) ?Xk _) _ => set (K3 := Xk) end.
        assert (Hk3 : forall s2 (usebuf : bool) buf2 o n cp,
          XXHZero_Write_buf s2 = (if usebuf then sl_array L_XXHZero_buf 16 else nilv) ->
          XXHZero_Write_input s2 = mkslice false L_XXHZero_Write_input o n cp ->
          XXHZero_Write_n s2 = n -> mem_XXHZero_Write_input s2 = mem ->
          mem_XXHZero_v s2 = [a; b; c; d] ->
          mem_XXHZero_buf s2 = buf2 -> length buf2 = 16%nat -> bytes buf2 ->
          XXHZero_totalLen s2 = wu64 (t + N) ->
          0 <= o -> 0 <= n <= cp -> o + cp <= zlen mem -> o + n <= N -> n <= N ->
          returns (K3 s2) (fun s' => wf_x s' /\
            abs_x s' = mkx (lanes_of (if usebuf then stripe_i (a, b, c, d) buf2 else (a, b, c, d)) (zsub mem o n))
                           (wu64 (t + N)) (tail_of (zsub mem o n)) /\
            XXHZero_Write_ret0 s' = n)).
        { clear Hin Hbuf Hm Ht Hv. intros s2 usebuf buf2 o n cp Hwb Hin Hwn Hmem2 Hv Hbuf Hbl2 Hbb2 Ht Ho Hn Hoc Hon HnN.
          unfold K3. rewrite seq_upd.
          lazymatch goal with |- returns (seq (call _) _ ?Xs) _ => set (s3 := Xs) end.
          destruct (update_model fuel s3 usebuf a b c d o n cp mem) as (s4 & He & Hpost);
            try assumption; try (unfold s3; xxh32_state_simpl; assumption).
          { unfold s3; xxh32_state_simpl. reflexivity. }
          { intros _. unfold s3; xxh32_state_simpl. rewrite Hbuf. exact Hbl2. }
          { dlia. }
          rewrite (seq_call_Fall _ _ _ _ He).
          destruct Hpost as (a' & b' & c' & d' & Hv4 & Hlan & Hw4 & (F1 & F2 & F3 & F4 & F5 & F6)).
          assert (G1 : mem_XXHZero_buf s4 = buf2) by (rewrite F1; unfold s3; xxh32_state_simpl; exact Hbuf).
          assert (G2 : XXHZero_totalLen s4 = wu64 (t + N)) by (rewrite F2; unfold s3; xxh32_state_simpl; exact Ht).
          assert (G4 : XXHZero_Write_input s4 = mkslice false L_XXHZero_Write_input o n cp)
            by (rewrite F4; unfold s3; xxh32_state_simpl; exact Hin).
          assert (G5 : XXHZero_Write_n s4 = n) by (rewrite F5; unfold s3; xxh32_state_simpl; exact Hwn).
          assert (G6 : mem_XXHZero_Write_input s4 = mem) by (rewrite F6; unfold s3; xxh32_state_simpl; exact Hmem2).
          assert (Glan : (a', b', c', d') =
                         lanes_of (if usebuf then stripe_i (a, b, c, d) buf2 else (a, b, c, d)) (zsub mem o n))
            by (rewrite Hlan; unfold s3; xxh32_state_simpl; rewrite Hbuf; reflexivity).
          clear F1 F2 F3 F4 F5 F6 Hlan He. clearbody s3.
          assert (Hrem : Z.rem n 16 = n mod 16) by (apply Z.rem_mod_nonneg; lia).
          steps_g ltac:(cbv beta; xxh32_state_simpl; rewrite ?G4, ?G5, ?Hrem; slice_simpl;
                        rewrite ?wi64_id by dlia; dlia).
          apply returns_Ret.
          unfold wf_x, wf_arrays, abs_x, scopy, sl_copy. slice_simpl. xxh32_state_simpl.
          rewrite !G4, !G5. slice_simpl. xxh32_state_simpl. rewrite !Hrem, !G1, !G2, !G6, !Hv4.
          rewrite (wi64_id (n - n mod 16)) by dlia.
          replace (Z.min (16 - 0) (n - (n - n mod 16))) with (n mod 16) by dlia.
          change (0 + 0) with 0.
          set (tl := zsub mem (o + (n - n mod 16)) (n mod 16)).
          assert (Htl : zlen tl = n mod 16) by (apply zsub_length; dlia).
          assert (Hzl : zlen (zsplice buf2 0 tl) = zlen buf2)
            by (apply zsplice_length; [lia|]; rewrite Htl; unfold zlen; rewrite Hbl2; dlia).
          assert (Hmod16 : 0 <= n mod 16 < 16) by dlia.
          splits; try easy_goal.
          + apply lanes_word32_Forall, Hw4.
          + unfold zlen in Hzl. lia.
          + apply bytes_zsplice; [assumption|]. unfold tl, mem.
            rewrite zsub_app_l by (fold N; dlia). apply bytes_zsub, Hbytes.
          + apply Z.mod_pos_bound. lia.
          + apply Z.mod_pos_bound. lia.
          + f_equal.
            * exact Glan.
            * rewrite tail_of_zsub by lia. fold tl.
              replace (Z.to_nat (n mod 16)) with (Z.to_nat (0 + zlen tl)) by (rewrite Htl; reflexivity).
              rewrite (firstn_zsplice buf2 0 tl) by (rewrite ?Htl; unfold zlen; rewrite ?Hbl2; dlia).
              reflexivity. }
        clearbody K3. rewrite seq_ite. xxh32_state_simpl. cbn [orb].
        destruct (m =? 0) eqn:Em; cbn [negb].
        + (* nothing pending *)
          apply Z.eqb_eq in Em. rewrite Em in *. steps.
          eapply returns_impl.
          * eapply (Hk3 _ false buf 0 N C); xxh32_state_simpl; first [assumption | reflexivity | lia].
          * cbv beta. intros s' (W & A & R). splits; try easy_goal. rewrite A.
            cbn [Z.to_nat firstn]. rewrite xwrite_core_big0 by (unfold N, zlen in Er; lia).
            unfold mem, N. rewrite zsub_app_all. reflexivity.
        + (* complete the pending stripe first *)
          apply Z.eqb_neq in Em.
          repeat (first [rewrite seq_assoc
                        | rewrite seq_guard_ok by (cbv beta; norm; rewrite ?Hin; norm; lia)
                        | rewrite guard_ok by (cbv beta; norm; rewrite ?Hin; norm; lia)
                        | got_step];
                  norm; rewrite ?Hin, ?Hmem, ?Hbuf; norm).
          rewrite !Z.min_l by lia. change (0 + m) with m.
          rewrite (wi64_id (N - (16 - m))) by lia.
          set (r := 16 - m) in *.
          assert (Hfill : zsplice buf m (zsub mem 0 r) = firstn (Z.to_nat m) buf ++ firstn (Z.to_nat r) input)
            by (apply zsplice_fill; fold N; lia).
          assert (Hb0 : length (firstn (Z.to_nat m) buf) = Z.to_nat m) by (rewrite firstn_length; lia).
          assert (Hskip : zsub mem (0 + r) (N - r) = skipn (Z.to_nat r) input).
          { rewrite <- (zsub_app_all input spare) at 1. fold mem. fold N. rewrite zsub_skipn by lia. reflexivity. }
          eapply returns_impl.
          * eapply (Hk3 _ true (zsplice buf m (zsub mem 0 r)) (0 + r) (N - r) (C - r)); xxh32_state_simpl;
              try first [assumption | reflexivity | lia].
            -- rewrite Hfill, app_length, Hb0, firstn_length. unfold N, zlen in Er. lia.
            -- apply bytes_zsplice; [assumption|]. unfold mem. rewrite zsub_app_l by (fold N; lia).
               apply bytes_zsub, Hbytes.
          * cbv beta. intros s' (W & A & R). splits; try easy_goal. rewrite A.
            rewrite xwrite_core_bigm by (rewrite Hb0; unfold N, zlen in Er; lia).
            rewrite Hb0, Hfill, Hskip.
            replace (16 - Z.to_nat m)%nat with (Z.to_nat r) by lia. reflexivity. }
    clearbody K.
    destruct Hwf as ((Hvl & Hvw & Hbl & Hbb) & Hbu & Htl).
    destruct (length4 _ Hvl) as (a & b & c & d & Hv4).
    rewrite seq_ite. xxh32_state_simpl. rewrite xwrite_eq. unfold write_ret. cbn [abs_x xtotal xv xbuf].
    destruct (XXHZero_totalLen s0 =? 0) eqn:Et.
    - (* first write: Reset *)
      apply Z.eqb_eq in Et.
      lazymatch goal with |- returns (seq (call _) _ ?Xs) _ =>
        rewrite (seq_call_Fall _ _ Xs _ (Reset_eq fuel Xs ltac:(xxh32_state_simpl; exact Hvl)))
      end.
      eapply returns_impl.
      + eapply (Hrest _ 606290984 2246822519 0 1640531535 (mem_XXHZero_buf s0) 0 0);
          unfold reset_state, reset_v; xxh32_state_simpl;
          try first [assumption | reflexivity | lia].
        unfold lanes_word32, is_word32. lia.
      + cbv beta. intros s' (W & A & R). splits; try easy_goal.
        rewrite A, Et. reflexivity.
    - (* later writes *)
      got_step.
      eapply returns_impl.
      + eapply (Hrest _ a b c d (mem_XXHZero_buf s0) (XXHZero_bufused s0) (XXHZero_totalLen s0));
          xxh32_state_simpl; try first [assumption | reflexivity | lia].
        apply lanes_word32_Forall. rewrite <- Hv4. exact Hvw.
      + cbv beta. intros s' (W & A & R). splits; try easy_goal.
        rewrite A, Hv4. reflexivity.
  Qed.
End Write.

(* ------------------------------------------------------------------------------------------ *)
(* 10. The theorems                                                                           *)
(* ------------------------------------------------------------------------------------------ *)

(* ---- 1. one-shot ---- *)
Theorem checksumZeroGo_correct (input spare : list Z) (s0 : state) (fuel : nat) :
  len input < 2 ^ 63 -> (length input / 16 + 4 <= fuel)%nat ->
  exists s', xxh32_checksumZeroGo fuel (init_xxh32_checksumZeroGo_fresh input spare s0) = Ret s'
             /\ checksumZeroGo_ret0 s' = checksum_zero input.
Proof. intros Hl Hf. exact (checksumZeroGo_model input spare fuel s0 Hl Hf). Qed.

Corollary checksumZeroGo_ref (input spare : list Z) (s0 : state) (fuel : nat) :
  len input < 2 ^ 63 -> (length input / 16 + 4 <= fuel)%nat ->
  exists s', xxh32_checksumZeroGo fuel (init_xxh32_checksumZeroGo_fresh input spare s0) = Ret s'
             /\ checksumZeroGo_ret0 s' = xxh32_ref input.
Proof.
  intros Hl Hf. destruct (checksumZeroGo_correct input spare s0 fuel Hl Hf) as (s' & He & Hr).
  exists s'. split; [exact He|]. rewrite Hr. apply oneshot_eq_ref.
Qed.

(* the same with the coarser fuel bound *)
Corollary checksumZeroGo_ref_simple (input spare : list Z) (s0 : state) (fuel : nat) :
  bytes input -> len input < 2 ^ 63 -> (length input + 4 <= fuel)%nat ->
  exists s', xxh32_checksumZeroGo fuel (init_xxh32_checksumZeroGo_fresh input spare s0) = Ret s'
             /\ checksumZeroGo_ret0 s' = xxh32_ref input.
Proof.
  intros _ Hl Hf. apply checksumZeroGo_ref; [exact Hl|].
  pose proof (Nat.div_le_upper_bound (length input) 16 (length input) ltac:(lia) ltac:(lia)). lia.
Qed.

(* ---- 2. streaming: the three methods ---- *)
Theorem XXHZero_Write_correct (input spare : list Z) (s : state) (fuel : nat) :
  wf_x s -> bytes input -> len input < 2 ^ 63 -> (length input / 16 < fuel)%nat ->
  exists s', xxh32_XXHZero_Write fuel (init_xxh32_XXHZero_Write_fresh input spare s) = Ret s'
             /\ XXHZero_Write_ret0 s' = write_ret s (len input)
             /\ wf_x s' /\ abs_x s' = xwrite (abs_x s) input.
Proof.
  intros Hwf Hb Hl Hf. destruct (Write_model input spare fuel s Hwf Hb Hl Hf) as (s' & He & W & A & R).
  exists s'. split; [exact He|]. split; [exact R|]. split; [exact W|exact A].
Qed.

(* what Write returns: len input, EXCEPT when a pending stripe is completed — then the bytes that
   went into the pending buffer are not counted (the Go code returns n after n -= c) *)
Lemma write_ret_full s N : XXHZero_totalLen s = 0 \/ XXHZero_bufused s = 0 \/ N < 16 - XXHZero_bufused s ->
  write_ret s N = N.
Proof.
  intros H. unfold write_ret.
  destruct (XXHZero_totalLen s =? 0) eqn:Et;
    [change (0 =? 0) with true; rewrite orb_true_r; reflexivity|].
  apply Z.eqb_neq in Et.
  destruct (N <? 16 - XXHZero_bufused s) eqn:E1; [reflexivity|].
  destruct (XXHZero_bufused s =? 0) eqn:E2; [reflexivity|]. lia.
Qed.
Lemma write_ret_short s N : XXHZero_totalLen s <> 0 -> 0 < XXHZero_bufused s -> 16 - XXHZero_bufused s <= N ->
  write_ret s N = N - (16 - XXHZero_bufused s).
Proof.
  intros Ht Hm HN. unfold write_ret.
  replace (XXHZero_totalLen s =? 0) with false by lia.
  replace (N <? 16 - XXHZero_bufused s) with false by lia.
  replace (XXHZero_bufused s =? 0) with false by lia. reflexivity.
Qed.

Theorem XXHZero_Sum32_correct (s : state) (fuel : nat) :
  wf_x s -> (4 <= fuel)%nat ->
  exists s', xxh32_XXHZero_Sum32 fuel s = Ret s'
             /\ XXHZero_Sum32_ret0 s' = xsum32 (abs_x s)
             /\ abs_x s' = abs_x s /\ wf_x s'.
Proof.
  intros Hwf Hf. destruct (Sum32_model fuel s Hwf Hf) as (s' & He & Hr & Hs).
  exists s'. split; [exact He|]. split; [exact Hr|].
  split; [apply same_x_abs, Hs|apply (same_x_wf s s' Hs Hwf)].
Qed.

Theorem XXHZero_Reset_correct (s : state) (fuel : nat) :
  wf_arrays s ->
  exists s', xxh32_XXHZero_Reset fuel s = Fall s'
             /\ wf_x s' /\ abs_x s' = mkx reset_lanes 0 [] /\ repr (abs_x s') [].
Proof.
  intros (Hvl & Hvw & Hbl & Hbb). exists (reset_state s).
  split; [apply Reset_eq, Hvl|].
  assert (Habs : abs_x (reset_state s) = mkx reset_lanes 0 []) by reflexivity.
  split; [|split; [exact Habs|]].
  - unfold wf_x, wf_arrays, reset_state, reset_v. xxh32_state_simpl.
    splits; try easy_goal.
    repeat (apply Forall_cons; [unfold is_word32; lia|]). apply Forall_nil.
  - rewrite Habs. split; [reflexivity|]. split; [reflexivity|]. intros H; contradiction.
Qed.

(* ---- 3. end to end: any chunking of any input below 2^64 bytes ---- *)


Lemma zero_XXHZero_wf s0 : wf_x (zero_XXHZero s0).
Proof.
  unfold wf_x, wf_arrays, zero_XXHZero, init_xxh32_XXHZero. xxh32_state_simpl. cbn [repeat].
  splits; try easy_goal.
  - repeat (apply Forall_cons; [unfold is_word32; lia|]). apply Forall_nil.
  - repeat (apply Forall_cons; [unfold is_byte; lia|]). apply Forall_nil.
Qed.
Lemma zero_XXHZero_abs s0 : abs_x (zero_XXHZero s0) = xzero.
Proof. reflexivity. Qed.


Lemma run_writes_model fuel : forall chunks s,
  wf_x s -> Forall (chunk_ok fuel) chunks ->
  exists s', run_writes fuel chunks s = Ret s' /\ wf_x s'
             /\ abs_x s' = fold_left xwrite (map fst chunks) (abs_x s).
Proof.
  induction chunks as [|c cs IH]; intros s Hwf Hok.
  - exists s. split; [reflexivity|]. split; [exact Hwf|reflexivity].
  - inversion Hok as [|c' cs' (Hb & Hl & Hf) Hok']; subst.
    destruct (XXHZero_Write_correct (fst c) (snd c) s fuel Hwf Hb Hl Hf) as (s1 & He & _ & Hwf1 & Ha1).
    destruct (IH s1 Hwf1 Hok') as (s2 & He2 & Hwf2 & Ha2).
    exists s2. cbn [run_writes map fold_left]. rewrite He. split; [exact He2|].
    split; [exact Hwf2|]. rewrite Ha2, Ha1. reflexivity.
Qed.

Theorem stream_correct (fuel : nat) (chunks : list (list Z * list Z)) (s0 : state) :
  Forall (chunk_ok fuel) chunks -> (4 <= fuel)%nat ->
  len (concat (map fst chunks)) < 2 ^ 64 ->
  exists s1 s2,
    run_writes fuel chunks (zero_XXHZero s0) = Ret s1 /\
    xxh32_XXHZero_Sum32 fuel s1 = Ret s2 /\
    XXHZero_Sum32_ret0 s2 = xxh32_ref (concat (map fst chunks)).
Proof.
  intros Hok Hf Hlen.
  destruct (run_writes_model fuel chunks (zero_XXHZero s0) (zero_XXHZero_wf s0) Hok) as (s1 & He1 & Hwf1 & Ha1).
  destruct (XXHZero_Sum32_correct s1 fuel Hwf1 Hf) as (s2 & He2 & Hr2 & _).
  exists s1, s2. split; [exact He1|]. split; [exact He2|].
  rewrite Hr2, Ha1, zero_XXHZero_abs.
  apply (stream_eq_ref (map fst chunks) xzero [] repr_zero). rewrite len_nil. lia.
Qed.

(* the same for plain chunks (no spare capacity) and one fuel bound for the whole session *)
Corollary stream_correct_simple (fuel : nat) (chunks : list (list Z)) (s0 : state) :
  Forall bytes chunks -> Forall (fun c => len c < 2 ^ 63) chunks ->
  len (concat chunks) < 2 ^ 64 -> (length (concat chunks) / 16 + 4 <= fuel)%nat ->
  exists s1 s2,
    run_writes fuel (map (fun c => (c, [])) chunks) (zero_XXHZero s0) = Ret s1 /\
    xxh32_XXHZero_Sum32 fuel s1 = Ret s2 /\
    XXHZero_Sum32_ret0 s2 = xxh32_ref (concat chunks).
Proof.
  intros Hb Hl Hlen Hf.
  assert (Hmap : map fst (map (fun c : list Z => (c, @nil Z)) chunks) = chunks).
  { rewrite map_map. cbn [fst]. apply map_id. }
  pose proof (stream_correct fuel (map (fun c : list Z => (c, @nil Z)) chunks) s0) as HS.
  rewrite Hmap in HS. apply HS; [|lia|exact Hlen].
  clear Hmap Hlen HS.
  induction chunks as [|c cs IH]; [apply Forall_nil|].
  inversion Hb as [|? ? Hb1 Hb2]; inversion Hl as [|? ? Hl1 Hl2]; subst.
  cbn [concat] in Hf. rewrite app_length in Hf.
  assert (Hd1 : (length c / 16 <= (length c + length (concat cs)) / 16)%nat)
    by (apply Nat.div_le_mono; lia).
  assert (Hd2 : (length (concat cs) / 16 <= (length c + length (concat cs)) / 16)%nat)
    by (apply Nat.div_le_mono; lia).
  cbn [map]. apply Forall_cons.
  - unfold chunk_ok. cbn [fst]. repeat split; try assumption. lia.
  - apply IH; try assumption. lia.
Qed.

(* ------------------------------------------------------------------------------------------ *)
(* 11. Non-vacuity: the translated functions, evaluated                                       *)
(* ------------------------------------------------------------------------------------------ *)
Definition ex_input : list Z := map Z.of_nat (List.seq 0 100).   (* bytes 0, 1, ..., 99 *)
Definition ex_chunks : list (list Z * list Z) :=
  [ (firstn 7 ex_input, []); (firstn 16 (skipn 7 ex_input), [1; 2; 3]); (skipn 23 ex_input, []) ].

Definition ret_of (f : state -> Z) (o : outcome state) : Z :=
  match o with Ret s => f s | Fall _ => -1 | Hang => -2 | _ => -3 end.

(* XXH32 (seed 0) of "abc" is the published test vector 0x32D153FF *)
Example ex_ref_abc : xxh32_ref [97; 98; 99] = 852579327.
Proof. vm_compute. reflexivity. Qed.
Example ex_ref_100 : xxh32_ref ex_input = 2139732548.
Proof. vm_compute. reflexivity. Qed.

(* one-shot, with spare capacity behind the input; fuel = 100/16 + 4 *)
Example ex_oneshot :
  ret_of checksumZeroGo_ret0
         (xxh32_checksumZeroGo 10 (init_xxh32_checksumZeroGo_fresh ex_input [7; 7; 7] zero_state))
  = 2139732548.
Proof. vm_compute. reflexivity. Qed.
(* 100/16 = 6 stripes need fuel 7: with 6 the translated function hangs *)
Example ex_oneshot_fuel :
  ret_of checksumZeroGo_ret0
         (xxh32_checksumZeroGo 6 (init_xxh32_checksumZeroGo_fresh ex_input [] zero_state)) = -2.
Proof. vm_compute. reflexivity. Qed.

(* streaming, split 7 + 16 + 77 *)
Example ex_stream_split : concat (map fst ex_chunks) = ex_input.
Proof. vm_compute. reflexivity. Qed.
Example ex_stream :
  match run_writes 10 ex_chunks (zero_XXHZero zero_state) with
  | Ret s1 => ret_of XXHZero_Sum32_ret0 (xxh32_XXHZero_Sum32 10 s1)
  | _ => -4
  end = 2139732548.
Proof. vm_compute. reflexivity. Qed.
(* the hypotheses of stream_correct hold for this session *)
Example ex_stream_hyps : Forall (chunk_ok 10) ex_chunks /\ len (concat (map fst ex_chunks)) < 2 ^ 64.
Proof.
  split; [|vm_compute; reflexivity].
  repeat (apply Forall_cons;
          [split; [apply bytesb_bytes; vm_compute; reflexivity|split; [vm_compute; reflexivity|vm_compute; lia]]|]).
  apply Forall_nil.
Qed.

(* Write's result: 7 bytes pending, a 16-byte chunk completes the stripe with its first 9 bytes:
   the Go code (and its translation) returns 7, not 16 *)
Example ex_write_short :
  match run_writes 10 [(firstn 7 ex_input, [])] (zero_XXHZero zero_state) with
  | Ret s1 =>
    ret_of XXHZero_Write_ret0
           (xxh32_XXHZero_Write 10 (init_xxh32_XXHZero_Write_fresh (firstn 16 (skipn 7 ex_input)) [] s1))
  | _ => -4
  end = 7.
Proof. vm_compute. reflexivity. Qed.

(* ------------------------------------------------------------------------------------------ *)
(* 12. The statements of GenXXHBodySpec.v                                                     *)
(* ------------------------------------------------------------------------------------------ *)
Theorem checksumZeroGo_correct_ok : checksumZeroGo_correct_stmt.
Proof. exact checksumZeroGo_correct. Qed.
Theorem checksumZeroGo_ref_ok : checksumZeroGo_ref_stmt.
Proof. exact checksumZeroGo_ref. Qed.
Theorem XXHZero_Write_correct_ok : XXHZero_Write_correct_stmt.
Proof. exact XXHZero_Write_correct. Qed.
Theorem XXHZero_Sum32_correct_ok : XXHZero_Sum32_correct_stmt.
Proof. exact XXHZero_Sum32_correct. Qed.
Theorem XXHZero_Reset_correct_ok : XXHZero_Reset_correct_stmt.
Proof. exact XXHZero_Reset_correct. Qed.
Theorem stream_correct_ok : stream_correct_stmt.
Proof. exact stream_correct. Qed.
Theorem stream_correct_simple_ok : stream_correct_simple_stmt.
Proof. exact stream_correct_simple. Qed.
