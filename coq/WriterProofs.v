(* WriterProofs.v — proofs of the Writer statements of FrameTheoremsSpec.v (W1..W4). *)
From Coq Require Import ZifyBool.
From LZ4V Require Import Base GenBlock GenStream GenLz4 XXH32 BlockFormat BlockExec CompressFast FrameSpec FrameImpl Writer Reader CReader FrameTheoremsSpec.

(* ------------------------------------------------------------------ *)
(* Part 1: pure list facts: full blocks / remainder, chunks, blocks_of *)

Lemma len_firstn_le {A} (n : Z) (l : list A) : 0 <= n <= len l -> len (firstn (Z.to_nat n) l) = n.
Proof. unfold len. intros H. rewrite firstn_length. lia. Qed.
Lemma len_skipn {A} (n : Z) (l : list A) : 0 <= n <= len l -> len (skipn (Z.to_nat n) l) = len l - n.
Proof. unfold len. intros H. rewrite skipn_length. lia. Qed.
Lemma length_len {A} (l : list A) : Z.of_nat (length l) = len l.
Proof. reflexivity. Qed.

(* the full blocks of [all] and the remainder (shorter than a block) *)
Fixpoint fulls (fuel : nat) (bsz : Z) (all : list Z) : list (list Z) * list Z :=
  match fuel with
  | O => ([], all)
  | S f => if len all <? bsz then ([], all)
           else let '(bs, r) := fulls f bsz (skipn (Z.to_nat bsz) all) in
                (firstn (Z.to_nat bsz) all :: bs, r)
  end.

Lemma fulls_small fuel bsz all : len all < bsz -> fulls fuel bsz all = ([], all).
Proof. intros H. destruct fuel as [|f]; [reflexivity|]. cbn [fulls]. destruct (len all <? bsz) eqn:E; [reflexivity|lia]. Qed.

Lemma fulls_big f bsz all : bsz <= len all ->
  fulls (S f) bsz all = (firstn (Z.to_nat bsz) all :: fst (fulls f bsz (skipn (Z.to_nat bsz) all)),
                         snd (fulls f bsz (skipn (Z.to_nat bsz) all))).
Proof.
  intros H. cbn [fulls]. destruct (len all <? bsz) eqn:E; [lia|].
  destruct (fulls f bsz (skipn (Z.to_nat bsz) all)) as [bs r]. reflexivity.
Qed.

Lemma fulls_fuel bsz : 0 < bsz -> forall F1 F2 all, (length all <= F1)%nat -> (length all <= F2)%nat ->
  fulls F1 bsz all = fulls F2 bsz all.
Proof.
  intros Hb. induction F1 as [|F1 IH]; intros F2 all H1 H2.
  - destruct all; [|cbn [length] in H1; lia]. rewrite !fulls_small by (rewrite len_nil; lia). reflexivity.
  - destruct (Z.ltb_spec (len all) bsz) as [Hs|Hs].
    + rewrite !fulls_small by lia. reflexivity.
    + destruct F2 as [|F2].
      { destruct all; [rewrite len_nil in Hs; lia|cbn [length] in H2; lia]. }
      rewrite !fulls_big by lia.
      assert (Hl : (length (skipn (Z.to_nat bsz) all) <= F1 /\ length (skipn (Z.to_nat bsz) all) <= F2)%nat).
      { rewrite skipn_length. unfold len in Hs. lia. }
      rewrite (IH F2) by lia. reflexivity.
Qed.

Definition fullsW (bsz : Z) (all : list Z) := fulls (length all) bsz all.
Lemma fullsW_eq bsz F all : 0 < bsz -> (length all <= F)%nat -> fulls F bsz all = fullsW bsz all.
Proof. intros Hb H. unfold fullsW. apply fulls_fuel; [exact Hb|exact H|lia]. Qed.
Lemma fullsW_small bsz all : len all < bsz -> fullsW bsz all = ([], all).
Proof. apply fulls_small. Qed.
Lemma fullsW_big bsz all : 0 < bsz -> bsz <= len all ->
  fullsW bsz all = (firstn (Z.to_nat bsz) all :: fst (fullsW bsz (skipn (Z.to_nat bsz) all)),
                    snd (fullsW bsz (skipn (Z.to_nat bsz) all))).
Proof.
  intros Hb H. unfold fullsW at 1. destruct (length all) as [|n] eqn:E.
  - unfold len in H. lia.
  - rewrite fulls_big by exact H. rewrite (fullsW_eq bsz n) ; [reflexivity|exact Hb|].
    rewrite skipn_length. lia.
Qed.

(* induction principle on the length *)
Lemma fullsW_ind (bsz : Z) (P : list Z -> Prop) : 0 < bsz ->
  (forall all, len all < bsz -> P all) ->
  (forall all, bsz <= len all -> P (skipn (Z.to_nat bsz) all) -> P all) ->
  forall all, P all.
Proof.
  intros Hb Hs Hg all. remember (length all) as n eqn:En.
  revert all En. induction n as [n IH] using lt_wf_ind. intros all En.
  destruct (Z.ltb_spec (len all) bsz) as [H|H]; [apply Hs; exact H|].
  apply Hg; [exact H|]. eapply IH; [|reflexivity]. rewrite skipn_length. unfold len in H. lia.
Qed.

Lemma fullsW_concat bsz all : 0 < bsz -> concat (fst (fullsW bsz all)) ++ snd (fullsW bsz all) = all.
Proof.
  intros Hb. pattern all. apply (fullsW_ind bsz); [exact Hb| |]; clear all.
  - intros all H. rewrite fullsW_small by exact H. reflexivity.
  - intros all H IH. rewrite fullsW_big by assumption. cbn [fst snd concat].
    rewrite <- app_assoc, IH. apply firstn_skipn.
Qed.
Lemma fullsW_rest_small bsz all : 0 < bsz -> len (snd (fullsW bsz all)) < bsz.
Proof.
  intros Hb. pattern all. apply (fullsW_ind bsz); [exact Hb| |]; clear all.
  - intros all H. rewrite fullsW_small by exact H. exact H.
  - intros all H IH. rewrite fullsW_big by assumption. exact IH.
Qed.
Lemma fullsW_full bsz all : 0 < bsz -> Forall (fun c => len c = bsz) (fst (fullsW bsz all)).
Proof.
  intros Hb. pattern all. apply (fullsW_ind bsz); [exact Hb| |]; clear all.
  - intros all H. rewrite fullsW_small by exact H. constructor.
  - intros all H IH. rewrite fullsW_big by assumption. cbn [fst]. constructor; [|exact IH].
    apply len_firstn_le. lia.
Qed.

(* appending data to the remainder *)
Lemma fullsW_app bsz all d : 0 < bsz ->
  fullsW bsz (all ++ d) =
  (fst (fullsW bsz all) ++ fst (fullsW bsz (snd (fullsW bsz all) ++ d)), snd (fullsW bsz (snd (fullsW bsz all) ++ d))).
Proof.
  intros Hb. pattern all. apply (fullsW_ind bsz); [exact Hb| |]; clear all.
  - intros all H. rewrite (fullsW_small bsz all) by exact H. cbn [fst snd app]. apply surjective_pairing.
  - intros all H IH. rewrite (fullsW_big bsz all) by assumption. cbn [fst snd].
    rewrite (fullsW_big bsz (all ++ d)); [|exact Hb|rewrite len_app; pose proof (len_nonneg d); lia].
    assert (Hn : (Z.to_nat bsz <= length all)%nat) by (unfold len in H; lia).
    rewrite firstn_app, skipn_app.
    replace (Z.to_nat bsz - length all)%nat with 0%nat by lia. cbn [firstn skipn]. rewrite app_nil_r.
    rewrite IH. cbn [fst snd app]. reflexivity.
Qed.

Definition tail_block (r : list Z) : list (list Z) := match r with [] => [] | _ => [r] end.

Lemma chunks_fulls bsz : 0 < bsz -> forall all f, (length all <= f)%nat ->
  chunks (S f) bsz all = fst (fullsW bsz all) ++ tail_block (snd (fullsW bsz all)).
Proof.
  intros Hb all. pattern all. apply (fullsW_ind bsz); [exact Hb| |]; clear all.
  - intros all H f Hf. rewrite fullsW_small by exact H. cbn [fst snd app chunks].
    destruct all as [|x l]; [reflexivity|]. destruct (len (x :: l) <=? bsz) eqn:E; [reflexivity|lia].
  - intros all H IH f Hf. rewrite fullsW_big by assumption. cbn [fst snd chunks].
    destruct all as [|x l] eqn:Eall; [rewrite len_nil in H; lia|]. rewrite <- Eall in *.
    destruct (Z.eqb_spec (len all) bsz) as [He|He].
    + destruct (len all <=? bsz) eqn:E; [|lia].
      assert (Hsk : skipn (Z.to_nat bsz) all = []).
      { apply len_zero_nil. rewrite len_skipn by lia. lia. }
      rewrite Hsk. rewrite (fullsW_small bsz []) by (rewrite len_nil; lia). cbn [fst snd tail_block app].
      rewrite firstn_all2; [reflexivity|]. unfold len in He. lia.
    + destruct (len all <=? bsz) eqn:E; [lia|].
      destruct f as [|f]; [subst all; cbn [length] in Hf; lia|].
      rewrite IH; [reflexivity|]. rewrite skipn_length. subst all. cbn [length] in *. lia.
Qed.

Definition emit_of (bsz : Z) (full : list (list Z)) := filter (fun c => len c =? bsz) full.
Definition rest_of (bsz : Z) (full : list (list Z)) : list Z :=
  match rev full with c :: _ => if len c =? bsz then [] else c | [] => [] end.

Lemma emit_rest_fulls bsz all f : 0 < bsz -> (length all <= f)%nat ->
  emit_of bsz (chunks (S f) bsz all) = fst (fullsW bsz all) /\
  rest_of bsz (chunks (S f) bsz all) = snd (fullsW bsz all).
Proof.
  intros Hb Hf. rewrite chunks_fulls by assumption.
  pose proof (fullsW_full bsz all Hb) as Hfull. pose proof (fullsW_rest_small bsz all Hb) as Hr.
  destruct (fullsW bsz all) as [bs r]. cbn [fst snd] in *.
  assert (Hfil : filter (fun c => len c =? bsz) bs = bs).
  { clear -Hfull. induction Hfull as [|c l Hc _ IH]; [reflexivity|]. cbn [filter].
    destruct (len c =? bsz) eqn:E; [|lia]. rewrite IH. reflexivity. }
  unfold emit_of, rest_of. rewrite filter_app, Hfil, rev_app_distr. split.
  - destruct r as [|x r]; cbn [tail_block filter]; [apply app_nil_r|].
    destruct (len (x :: r) =? bsz) eqn:E; [lia|]. apply app_nil_r.
  - destruct r as [|x r]; cbn [tail_block rev app].
    + destruct (rev bs) as [|c l] eqn:Erev; [reflexivity|].
      assert (Hin : In c bs) by (apply in_rev; rewrite Erev; left; reflexivity).
      rewrite Forall_forall in Hfull. apply Hfull in Hin. destruct (len c =? bsz) eqn:E; [reflexivity|lia].
    + destruct (len (x :: r) =? bsz) eqn:E; [lia|reflexivity].
Qed.

(* blocks_of, one step per item, through fullsW *)
Lemma blocks_of_write bsz d r pend : 0 < bsz ->
  blocks_of bsz (IWrite d :: r) pend =
  fst (fullsW bsz (pend ++ d)) ++ blocks_of bsz r (snd (fullsW bsz (pend ++ d))).
Proof.
  intros Hb. cbn [blocks_of].
  destruct (emit_rest_fulls bsz (pend ++ d) (length (pend ++ d)) Hb (le_n _)) as [He Hr].
  unfold emit_of in He. unfold rest_of in Hr. rewrite He, Hr. reflexivity.
Qed.
Lemma blocks_of_flush bsz r pend : blocks_of bsz (IFlush :: r) pend = tail_block pend ++ blocks_of bsz r [].
Proof. destruct pend; reflexivity. Qed.
Lemma blocks_of_nil bsz pend : blocks_of bsz [] pend = tail_block pend.
Proof. destruct pend; reflexivity. Qed.

Definition wdata (items : list item) : list Z :=
  flat_map (fun i => match i with IWrite d => d | IFlush => [] end) items.
Lemma segs_concat items : forall cur, concat (segs_of items cur) = cur ++ wdata items.
Proof.
  induction items as [|[d|] r IH]; intros cur; cbn [segs_of wdata flat_map concat].
  - reflexivity.
  - rewrite IH. fold (wdata r). rewrite app_assoc. reflexivity.
  - rewrite IH. reflexivity.
Qed.
Lemma data_of_wdata items : data_of items = wdata items.
Proof. unfold data_of. apply segs_concat. Qed.
Lemma tail_block_concat r : concat (tail_block r) = r.
Proof. destruct r; [reflexivity|]. cbn [tail_block concat]. apply app_nil_r. Qed.
Lemma blocks_of_concat bsz : 0 < bsz -> forall items pend, concat (blocks_of bsz items pend) = pend ++ wdata items.
Proof.
  intros Hb. induction items as [|[d|] r IH]; intros pend.
  - rewrite blocks_of_nil, tail_block_concat. cbn [wdata flat_map]. symmetry; apply app_nil_r.
  - rewrite blocks_of_write by exact Hb. rewrite concat_app, IH. cbn [wdata flat_map]. fold (wdata r).
    rewrite !app_assoc. f_equal. apply fullsW_concat. exact Hb.
  - rewrite blocks_of_flush, concat_app, tail_block_concat, IH. reflexivity.
Qed.

(* without Flush: the blocks are the chunks of the concatenation *)
Lemma blocks_of_writes bsz : 0 < bsz -> forall ds pend, len pend < bsz ->
  blocks_of bsz (map IWrite ds) pend =
  fst (fullsW bsz (pend ++ concat ds)) ++ tail_block (snd (fullsW bsz (pend ++ concat ds))).
Proof.
  intros Hb. induction ds as [|d ds IH]; intros pend Hp.
  - cbn [map concat]. rewrite app_nil_r, blocks_of_nil, fullsW_small by exact Hp. reflexivity.
  - cbn [map concat]. rewrite blocks_of_write by exact Hb. rewrite IH by (apply fullsW_rest_small; exact Hb).
    rewrite (app_assoc pend d (concat ds)). rewrite (fullsW_app bsz (pend ++ d) (concat ds)) by exact Hb. cbn [fst snd].
    rewrite <- app_assoc. reflexivity.
Qed.

(* ------------------------------------------------------------------ *)
(* Part 2: options: the block-size index stays valid, Apply is independent of the sink *)

Definition bidx (x : Z) : Z := Z.land (Z.shiftr x 12) 7.
Lemma bidx_range x : 0 <= bidx x <= 7.
Proof.
  unfold bidx. replace (Z.land (Z.shiftr x 12) 7) with (Z.shiftr x 12 mod 8).
  2:{ change 7 with (Z.ones 3). rewrite Z.land_ones by lia. reflexivity. }
  pose proof (Z.mod_pos_bound (Z.shiftr x 12) 8 eq_refl) as H. lia.
Qed.
Lemma bsi_bidx x : lz4stream_DescriptorFlags_BlockSizeIndex x = bidx x.
Proof. unfold lz4stream_DescriptorFlags_BlockSizeIndex. fold (bidx x). pose proof (bidx_range x). apply Z.mod_small. lia. Qed.

Lemma bidx_bit x n : 0 <= n -> Z.testbit (bidx x) n = Z.testbit x (n + 12) && Z.testbit 7 n.
Proof. intros Hn. unfold bidx. rewrite Z.land_spec, Z.shiftr_spec by lia. reflexivity. Qed.

Lemma bidx_keep x a b : bidx a = 0 -> bidx b = 0 -> bidx (Z.lor (Z.ldiff x a) b) = bidx x.
Proof.
  intros Ha Hb. apply Z.bits_inj'. intros n Hn.
  assert (Ha' := bidx_bit a n Hn). assert (Hb' := bidx_bit b n Hn).
  rewrite Ha in Ha'. rewrite Hb in Hb'. rewrite Z.bits_0 in Ha', Hb'.
  rewrite !bidx_bit by exact Hn. rewrite Z.lor_spec, Z.ldiff_spec.
  destruct (Z.testbit 7 n), (Z.testbit a (n + 12)), (Z.testbit b (n + 12)), (Z.testbit x (n + 12)); cbn in *; congruence.
Qed.
Lemma bidx_keep0 x a : bidx a = 0 -> bidx (Z.ldiff x a) = bidx x.
Proof. intros Ha. rewrite <- (Z.lor_0_r (Z.ldiff x a)). apply bidx_keep; [exact Ha|reflexivity]. Qed.
Lemma bidx_set x a c : bidx a = 7 -> bidx (Z.lor (Z.ldiff x a) c) = bidx c.
Proof.
  intros Ha. apply Z.bits_inj'. intros n Hn.
  assert (Ha' := bidx_bit a n Hn). rewrite Ha in Ha'.
  rewrite !bidx_bit by exact Hn. rewrite Z.lor_spec, Z.ldiff_spec.
  destruct (Z.testbit 7 n), (Z.testbit a (n + 12)), (Z.testbit c (n + 12)), (Z.testbit x (n + 12)); cbn in *; congruence.
Qed.

Definition goodidx (fl : Z) : Prop := 3 <= bidx fl <= 7.

Lemma bidx_ccs x b : bidx (lz4stream_DescriptorFlags_ContentChecksumSet x b) = bidx x.
Proof. destruct b; cbv beta delta [lz4stream_DescriptorFlags_ContentChecksumSet] iota zeta; [apply bidx_keep|apply bidx_keep0]; reflexivity. Qed.
Lemma bidx_bcs x b : bidx (lz4stream_DescriptorFlags_BlockChecksumSet x b) = bidx x.
Proof. destruct b; cbv beta delta [lz4stream_DescriptorFlags_BlockChecksumSet] iota zeta; [apply bidx_keep|apply bidx_keep0]; reflexivity. Qed.
Lemma bidx_szs x b : bidx (lz4stream_DescriptorFlags_SizeSet x b) = bidx x.
Proof. destruct b; cbv beta delta [lz4stream_DescriptorFlags_SizeSet] iota zeta; [apply bidx_keep|apply bidx_keep0]; reflexivity. Qed.
Lemma bidx_bis x b : bidx (lz4stream_DescriptorFlags_BlockIndependenceSet x b) = bidx x.
Proof. destruct b; cbv beta delta [lz4stream_DescriptorFlags_BlockIndependenceSet] iota zeta; [apply bidx_keep|apply bidx_keep0]; reflexivity. Qed.
Lemma bidx_vs x : bidx (lz4stream_DescriptorFlags_VersionSet x 1) = bidx x.
Proof. cbv beta delta [lz4stream_DescriptorFlags_VersionSet] iota zeta. apply bidx_keep; reflexivity. Qed.
Lemma bidx_bss x v : 0 <= v <= 7 -> bidx (lz4stream_DescriptorFlags_BlockSizeIndexSet x v) = v.
Proof.
  intros Hv. cbv beta delta [lz4stream_DescriptorFlags_BlockSizeIndexSet] iota zeta.
  rewrite bidx_set by reflexivity.
  assert (Hc : v = 0 \/ v = 1 \/ v = 2 \/ v = 3 \/ v = 4 \/ v = 5 \/ v = 6 \/ v = 7) by lia.
  destruct Hc as [H|[H|[H|[H|[H|[H|[H|H]]]]]]]; subst v; reflexivity.
Qed.
Lemma index_range size : lz4block_Index size = 0 \/ 3 <= lz4block_Index size <= 7.
Proof. unfold lz4block_Index. repeat match goal with |- context [if ?c then _ else _] => destruct c end; lia. Qed.

Lemma bsz_of_pos o : goodidx (fo_flags o) -> 0 < bsz_of o.
Proof.
  intros Hg. unfold bsz_of. rewrite bsi_bidx.
  assert (Hi : 3 <= bidx (initw_flags o) <= 7).
  { unfold initw_flags. destruct (fo_legacy o).
    - rewrite bidx_bss; change (lz4block_Index lz4block_Block8Mb) with 3; lia.
    - rewrite bidx_bis, bidx_vs. exact Hg. }
  set (i := bidx (initw_flags o)) in *.
  assert (Hc : i = 3 \/ i = 4 \/ i = 5 \/ i = 6 \/ i = 7) by lia.
  destruct Hc as [H|[H|[H|[H|H]]]]; rewrite H; reflexivity.
Qed.

Fixpoint apply_opts (w : writer) (os : list wopt) : writer * ecls :=
  match os with
  | [] => (w, ENil)
  | o :: r => let '(w1, e) := apply_opt w o in match e with ENil => apply_opts w1 r | _ => (w1, e) end
  end.

Lemma wstep_apply_new w os fresh : w_state w = lz4_newState ->
  wstep w (WApply os) fresh = let '(w1, e) := apply_opts (w_reset w (w_sink w) false) os in (st_check w1 e, RE e).
Proof. intros H. cbn [wstep]. rewrite H. reflexivity. Qed.

Lemma apply_opt_props w o w1 e : apply_opt w o = (w1, e) ->
  w_state w1 = w_state w /\ w_sink w1 = w_sink w /\
  (goodidx (fo_flags (w_opts w)) -> goodidx (fo_flags (w_opts w1))) /\
  (forall s, apply_opt (set_sink w s) o = (set_sink w1 s, e)).
Proof.
  intros H. unfold goodidx. destruct o as [size|b|b|n|l|n|b]; cbn [apply_opt] in *.
  - destruct (lz4block_BlockSizeIndex_IsValid (lz4block_Index size)) eqn:E; inversion H; subst; cbn [w_state w_sink w_opts fo_flags set_sink];
      (split; [reflexivity|split; [reflexivity|split; [|intros s; reflexivity]]]); [|tauto].
    intros _. destruct (index_range size) as [H0|Hr]; [rewrite H0 in E; discriminate E|].
    rewrite bidx_bss by lia. lia.
  - inversion H; subst; cbn [w_state w_sink w_opts fo_flags set_sink]. rewrite bidx_bcs.
    split; [reflexivity|split; [reflexivity|split; [tauto|intros s; reflexivity]]].
  - inversion H; subst; cbn [w_state w_sink w_opts fo_flags set_sink]. rewrite bidx_ccs.
    split; [reflexivity|split; [reflexivity|split; [tauto|intros s; reflexivity]]].
  - inversion H; subst; cbn [w_state w_sink w_opts fo_flags set_sink]. rewrite bidx_szs.
    split; [reflexivity|split; [reflexivity|split; [tauto|intros s; reflexivity]]].
  - destruct (valid_level l); inversion H; subst; cbn [w_state w_sink w_opts fo_flags set_sink];
    (split; [reflexivity|split; [reflexivity|split; [tauto|intros s; reflexivity]]]).
  - inversion H; subst; cbn [w_state w_sink w_opts fo_flags set_sink].
    split; [reflexivity|split; [reflexivity|split; [tauto|intros s; reflexivity]]].
  - inversion H; subst; cbn [w_state w_sink w_opts fo_flags set_sink].
    split; [reflexivity|split; [reflexivity|split; [tauto|intros s; reflexivity]]].
Qed.

Lemma apply_opts_props os : forall w w1 e, apply_opts w os = (w1, e) ->
  w_state w1 = w_state w /\ w_sink w1 = w_sink w /\
  (goodidx (fo_flags (w_opts w)) -> goodidx (fo_flags (w_opts w1))) /\
  (forall s, apply_opts (set_sink w s) os = (set_sink w1 s, e)).
Proof.
  induction os as [|o r IH]; intros w w1 e H; cbn [apply_opts] in *.
  - inversion H; subst. split; [reflexivity|split; [reflexivity|split; [tauto|intros s; reflexivity]]].
  - destruct (apply_opt w o) as [w2 e2] eqn:E2. destruct (apply_opt_props _ _ _ _ E2) as (Hs & Hk & Hg & Hc).
    assert (Hcase : (e2 = ENil /\ apply_opts w2 r = (w1, e)) \/ (e2 <> ENil /\ w1 = w2 /\ e = e2)).
    { destruct e2; try (right; split; [discriminate|inversion H; split; reflexivity]). left. split; [reflexivity|exact H]. }
    destruct Hcase as [[He Hr]|[He [Hw Hee]]].
    + subst e2. destruct (IH _ _ _ Hr) as (Hs' & Hk' & Hg' & Hc').
      split; [congruence|split; [congruence|split; [tauto|]]]. intros s. rewrite Hc. apply Hc'.
    + subst. split; [exact Hs|split; [exact Hk|split; [exact Hg|]]]. intros s. rewrite Hc. destruct e2; congruence.
Qed.

Lemma new_writer_eq s : new_writer s = mkw lz4_newState ENil (mkfo 28676 0 0 false) 1 0 [] [] s [].
Proof. reflexivity. Qed.

Lemma st_check_nil w : st_check w ENil = w.
Proof. unfold st_check. destruct (w_state w =? lz4_errorState); reflexivity. Qed.

(* the Apply step of a session, for any sink *)
Lemma apply_ok os o : opts_after os = Some o -> forall s fresh,
  exists wa, wstep (new_writer s) (WApply os) fresh = (wa, RE ENil) /\
             w_state wa = lz4_newState /\ w_opts wa = o /\ w_sink wa = s /\ 0 < bsz_of o.
Proof.
  unfold opts_after. intros H s fresh.
  rewrite wstep_apply_new in H by reflexivity. rewrite wstep_apply_new by reflexivity.
  change (w_reset (new_writer s0) (w_sink (new_writer s0)) false) with (new_writer s0) in H.
  change (w_reset (new_writer s) (w_sink (new_writer s)) false) with (set_sink (new_writer s0) s).
  destruct (apply_opts (new_writer s0) os) as [w1 e] eqn:E.
  destruct (apply_opts_props _ _ _ _ E) as (Hs & Hk & Hg & Hc).
  rewrite (Hc s). destruct e; try discriminate H. inversion H as [Ho]. rewrite !st_check_nil in *.
  exists (set_sink w1 s). split; [reflexivity|]. cbn [set_sink w_state w_opts w_sink].
  split; [exact Hs|split; [reflexivity|split; [reflexivity|]]].
  apply bsz_of_pos. apply Hg. unfold goodidx. change (bidx (fo_flags (w_opts (new_writer s0)))) with 7. lia.
Qed.

(* ------------------------------------------------------------------ *)
(* Part 3: sinks (alive / dead) *)

Definition slist (s : sink) : list (list Z) := rev (sk_chunks s).
Lemma sink_bytes_slist s : sink_bytes s = concat (slist s).
Proof. unfold sink_bytes, slist. rewrite <- rev_alt. reflexivity. Qed.

(* no failure so far: the sink holds exactly the chunks [outc], one per call *)
Definition SAlive (k : Z) (s : sink) (outc : list (list Z)) : Prop :=
  sk_fail s = k /\ slist s = outc /\ sk_calls s = len outc /\ (0 < k -> len outc < k).
(* a call has failed: every later call fails too *)
Definition SDead (k : Z) (s : sink) (outc : list (list Z)) : Prop :=
  sk_fail s = k /\ slist s = outc /\ 0 < k /\ k <= sk_calls s.

Lemma sink_write_alive k s outc p s' ok : SAlive k s outc -> sink_write s p = (s', ok) ->
  (ok = true /\ SAlive k s' (outc ++ [p])) \/ (ok = false /\ SDead k s' outc).
Proof.
  intros (Hf & Hl & Hc & Hk) H. unfold sink_write in H.
  destruct ((0 <? sk_fail s) && (sk_fail s <=? sk_calls s + 1)) eqn:E; inversion H; subst s' ok; clear H.
  - right. split; [reflexivity|]. unfold SDead, slist in *. cbn [sk_fail sk_chunks sk_calls]. repeat split; try assumption; lia.
  - left. split; [reflexivity|]. unfold SAlive, slist in *. cbn [sk_fail sk_chunks sk_calls rev].
    rewrite Hl, len_app, len_cons, len_nil. repeat split; try assumption; lia.
Qed.
Lemma sink_write_dead k s outc p s' ok : SDead k s outc -> sink_write s p = (s', ok) -> ok = false /\ SDead k s' outc.
Proof.
  intros (Hf & Hl & Hk & Hc) H. unfold sink_write in H.
  destruct ((0 <? sk_fail s) && (sk_fail s <=? sk_calls s + 1)) eqn:E; [|lia]. inversion H; subst s' ok.
  split; [reflexivity|]. unfold SDead, slist in *. cbn [sk_fail sk_chunks sk_calls]. repeat split; try assumption; lia.
Qed.
Lemma sink_writes_dead k ps : forall s outc s' ok, SDead k s outc -> sink_writes s ps = (s', ok) -> SDead k s' outc.
Proof.
  induction ps as [|p r IH]; intros s outc s' ok Hd H; cbn [sink_writes] in H.
  - inversion H; subst; exact Hd.
  - destruct (sink_write s p) as [s1 ok1] eqn:E1. destruct (sink_write_dead _ _ _ _ _ _ Hd E1) as [Hok Hd1].
    subst ok1. inversion H; subst; exact Hd1.
Qed.
Lemma sink_writes_alive k ps : forall s outc s' ok, SAlive k s outc -> sink_writes s ps = (s', ok) ->
  (ok = true /\ SAlive k s' (outc ++ ps)) \/ (ok = false /\ exists p q, ps = p ++ q /\ SDead k s' (outc ++ p)).
Proof.
  induction ps as [|x r IH]; intros s outc s' ok Ha H; cbn [sink_writes] in H.
  - inversion H; subst. left. rewrite app_nil_r. split; [reflexivity|exact Ha].
  - destruct (sink_write s x) as [s1 ok1] eqn:E1. destruct (sink_write_alive _ _ _ _ _ _ Ha E1) as [[Hok Ha1]|[Hok Hd1]]; subst ok1.
    + destruct (IH _ _ _ _ Ha1 H) as [[Hok Ha2]|[Hok (p & q & Hpq & Hd2)]].
      * left. split; [exact Hok|]. rewrite <- app_assoc in Ha2. exact Ha2.
      * right. split; [exact Hok|]. exists (x :: p), q. split; [rewrite Hpq; reflexivity|].
        rewrite <- app_assoc in Hd2. exact Hd2.
    + inversion H; subst. right. split; [reflexivity|]. exists [], (x :: r). split; [reflexivity|]. rewrite app_nil_r. exact Hd1.
Qed.
Lemma SDead_not0 s outc : ~ SDead 0 s outc.
Proof. intros (_ & _ & H & _). lia. Qed.

(* ------------------------------------------------------------------ *)
(* Part 4: the writer in writeState *)

Definition addc (o : fopts) (content src : list Z) : list Z :=
  if lz4stream_DescriptorFlags_ContentChecksum (initw_flags o) then content ++ src else content.
Lemma addc_nil o c : addc o c [] = c.
Proof. unfold addc. destruct (lz4stream_DescriptorFlags_ContentChecksum _); [apply app_nil_r|reflexivity]. Qed.
Lemma addc_app o c a b : addc o (addc o c a) b = addc o c (a ++ b).
Proof. unfold addc. destruct (lz4stream_DescriptorFlags_ContentChecksum _); [symmetry; apply app_assoc|reflexivity]. Qed.
Lemma close_writes_addc o x : close_writes o (addc o [] x) = close_writes o x.
Proof. unfold close_writes, addc. destruct (fo_legacy o); [reflexivity|]. destruct (lz4stream_DescriptorFlags_ContentChecksum _); reflexivity. Qed.

Definition Inv (k : Z) (o : fopts) (w : writer) (pend content : list Z) (outc : list (list Z)) : Prop :=
  w_state w = lz4_writeState /\ w_opts w = o /\ w_bsz w = bsz_of o /\ w_pend w = pend /\ w_content w = content /\
  SAlive k (w_sink w) outc.

Definition isinj (r : wres) : Prop := r = RE EInjected \/ exists n, r = RNE n EInjected.

Lemma w_block_alive k o w pend content outc src w' e : Inv k o w pend content outc -> w_block w src = (w', e) ->
  (e = ENil /\ Inv k o w' pend (addc o content src) (outc ++ block_writes o src)) \/
  (e = EInjected /\ exists p q, block_writes o src = p ++ q /\ SDead k (w_sink w') (outc ++ p)).
Proof.
  intros (Hst & Ho & Hb & Hp & Hc & Ha) H. unfold w_block in H. rewrite Ho in H.
  destruct (sink_writes (w_sink w) (block_writes o src)) as [s ok] eqn:Es. inversion H; subst w' e; clear H.
  destruct (sink_writes_alive _ _ _ _ _ _ Ha Es) as [[Hok Ha1]|[Hok (p & q & Hpq & Hd)]]; subst ok.
  - left. split; [reflexivity|]. unfold Inv, addc. cbn [w_state w_opts w_bsz w_pend w_content w_sink]. rewrite Hc. tauto.
  - right. split; [reflexivity|]. exists p, q. split; [exact Hpq|exact Hd].
Qed.
Lemma w_block_dead k w outc src w' e : SDead k (w_sink w) outc -> w_block w src = (w', e) -> SDead k (w_sink w') outc.
Proof.
  intros Hd H. unfold w_block in H. destruct (sink_writes (w_sink w) (block_writes (w_opts w) src)) as [s ok] eqn:Es.
  inversion H; subst w' e. cbn [w_sink]. eapply sink_writes_dead; eassumption.
Qed.

Lemma Inv_set_pend k o w pend content outc p : Inv k o w pend content outc -> Inv k o (set_pend w p) p content outc.
Proof. unfold Inv, set_pend. cbn [w_state w_opts w_bsz w_pend w_content w_sink]. tauto. Qed.

Lemma wwl_unfold f w buf n : buf <> [] -> w_write_loop (S f) w buf n =
    let zn := w_bsz w in
    if (len (w_pend w) =? 0) && (zn <=? len buf) then
      let '(w1, e) := w_block w (firstn (Z.to_nat zn) buf) in
      match e with
      | ENil => w_write_loop f w1 (skipn (Z.to_nat zn) buf) (n + zn)
      | _ => (w1, n, e)
      end
    else
      let room := zn - len (w_pend w) in
      let m := Z.min room (len buf) in
      let w1 := set_pend w (w_pend w ++ firstn (Z.to_nat m) buf) in
      let rest := skipn (Z.to_nat m) buf in
      if len (w_pend w1) <? zn then (w1, n + m, ENil)
      else
        let '(w2, e) := w_block w1 (w_pend w1) in
        match e with
        | ENil => w_write_loop f (set_pend w2 []) rest (n + m)
        | _ => (w2, n + m, e)
        end.
Proof. intros H. destruct buf; [congruence|reflexivity]. Qed.

Lemma flat_map_cons_app {A B} (f : A -> list B) x l : flat_map f (x :: l) = f x ++ flat_map f l.
Proof. reflexivity. Qed.

Lemma w_write_loop_alive k o : 0 < bsz_of o -> forall fuel buf w pend content outc n w' n' e,
  Inv k o w pend content outc -> len pend < bsz_of o -> (length buf < fuel)%nat ->
  w_write_loop fuel w buf n = (w', n', e) ->
  (e = ENil /\ n' = n + len buf /\
   Inv k o w' (snd (fullsW (bsz_of o) (pend ++ buf))) (addc o content (concat (fst (fullsW (bsz_of o) (pend ++ buf)))))
       (outc ++ flat_map (block_writes o) (fst (fullsW (bsz_of o) (pend ++ buf))))) \/
  (e = EInjected /\ exists p q, flat_map (block_writes o) (fst (fullsW (bsz_of o) (pend ++ buf))) = p ++ q /\
                                 SDead k (w_sink w') (outc ++ p)).
Proof.
  intros Hbz. set (bsz := bsz_of o) in *.
  induction fuel as [|f IH]; intros buf w pend content outc n w' n' e HI Hp Hf H; [lia|].
  destruct buf as [|b0 buf0] eqn:Ebuf.
  { cbn [w_write_loop] in H. inversion H; subst w' n' e. left. rewrite app_nil_r, fullsW_small by exact Hp.
    cbn [fst snd concat flat_map]. rewrite addc_nil, app_nil_r, len_nil. split; [reflexivity|split; [lia|exact HI]]. }
  rewrite <- Ebuf in *. assert (Hne : buf <> []) by (rewrite Ebuf; discriminate). clear Ebuf b0 buf0.
  rewrite wwl_unfold in H by exact Hne. cbv zeta in H.
  pose proof HI as (Hst & Ho & Hb & Hpe & Hc & Ha). rewrite Hb, Hpe in H. fold bsz in H. clear Hpe.
  destruct ((len pend =? 0) && (bsz <=? len buf)) eqn:Edir.
  - (* direct path *)
    assert (Hp0 : pend = []) by (apply len_zero_nil; lia). subst pend. cbn [app].
    assert (Hlb : bsz <= len buf) by lia.
    rewrite (fullsW_big bsz buf) by assumption. cbn [fst snd concat]. rewrite flat_map_cons_app.
    destruct (w_block w (firstn (Z.to_nat bsz) buf)) as [w1 e1] eqn:Eb.
    destruct (w_block_alive _ _ _ _ _ _ _ _ _ HI Eb) as [[He1 HI1]|[He1 (p & q & Hpq & Hd)]]; subst e1.
    + assert (Hf1 : (length (skipn (Z.to_nat bsz) buf) < f)%nat) by (rewrite skipn_length; unfold len in Hlb; lia).
      destruct (IH _ _ _ _ _ _ _ _ _ HI1 Hp Hf1 H) as [(He & Hn & HI2)|(He & p & q & Hpq & Hd)].
      * left. split; [exact He|]. split; [rewrite Hn, len_skipn by lia; lia|].
        cbn [app] in HI2. rewrite addc_app, <- app_assoc in HI2. exact HI2.
      * right. split; [exact He|]. cbn [app] in Hpq. exists (block_writes o (firstn (Z.to_nat bsz) buf) ++ p), q.
        split; [rewrite Hpq; apply app_assoc|]. rewrite <- app_assoc in Hd. exact Hd.
    + inversion H; subst w' n' e. right. split; [reflexivity|]. exists p, (q ++ flat_map (block_writes o) (fst (fullsW bsz (skipn (Z.to_nat bsz) buf)))).
      split; [rewrite Hpq; symmetry; apply app_assoc|exact Hd].
  - (* accumulate *)
    cbn [set_pend w_pend] in H.
    set (m := Z.min (bsz - len pend) (len buf)) in *.
    assert (Hm : 0 <= m <= len buf) by (pose proof (len_nonneg buf); lia).
    rewrite len_app, len_firstn_le in H by exact Hm.
    destruct (len pend + m <? bsz) eqn:Esm.
    + (* everything stays pending *)
      assert (Hmb : m = len buf) by lia.
      assert (Hfn : firstn (Z.to_nat m) buf = buf) by (apply firstn_all2; unfold len in Hmb; lia).
      inversion H; subst w' n' e. left. rewrite Hfn.
      rewrite fullsW_small by (rewrite len_app; lia). cbn [fst snd concat flat_map].
      rewrite addc_nil, app_nil_r. split; [reflexivity|split; [lia|]]. eapply Inv_set_pend; exact HI.
    + (* the pending block is complete *)
      assert (Hmr : m = bsz - len pend) by lia.
      assert (Hlb : bsz <= len (pend ++ buf)) by (rewrite len_app; lia).
      assert (Hfirst : firstn (Z.to_nat bsz) (pend ++ buf) = pend ++ firstn (Z.to_nat m) buf).
      { rewrite firstn_app. rewrite firstn_all2 by (unfold len in Hp; lia). f_equal. f_equal. unfold len in Hmr. lia. }
      assert (Hskip : skipn (Z.to_nat bsz) (pend ++ buf) = skipn (Z.to_nat m) buf).
      { rewrite skipn_app. rewrite skipn_all2 by (unfold len in Hp; lia). cbn [app]. f_equal. unfold len in Hmr. lia. }
      rewrite (fullsW_big bsz (pend ++ buf)) by assumption. cbn [fst snd concat]. rewrite flat_map_cons_app, Hfirst, Hskip.
      set (p1 := pend ++ firstn (Z.to_nat m) buf) in *.
      pose proof (Inv_set_pend _ _ _ _ _ _ p1 HI) as HI0.
      destruct (w_block (set_pend w p1) p1) as [w2 e2] eqn:Eb.
      destruct (w_block_alive _ _ _ _ _ _ _ _ _ HI0 Eb) as [[He2 HI2]|[He2 (p & q & Hpq & Hd)]]; subst e2.
      * pose proof (Inv_set_pend _ _ _ _ _ _ [] HI2) as HI3.
        assert (Hf1 : (length (skipn (Z.to_nat m) buf) < f)%nat).
        { rewrite skipn_length. pose proof (len_nonneg pend). unfold len in *. lia. }
        assert (Hp3 : len (@nil Z) < bsz) by (rewrite len_nil; lia).
        destruct (IH _ _ _ _ _ _ _ _ _ HI3 Hp3 Hf1 H) as [(He & Hn & HI4)|(He & p & q & Hpq & Hd)].
        -- left. split; [exact He|]. split; [rewrite Hn, len_skipn by lia; lia|].
           cbn [app] in HI4. rewrite addc_app, <- app_assoc in HI4. exact HI4.
        -- right. split; [exact He|]. cbn [app] in Hpq. exists (block_writes o p1 ++ p), q.
           split; [rewrite Hpq; apply app_assoc|]. rewrite <- app_assoc in Hd. exact Hd.
      * inversion H; subst w' n' e. right. split; [reflexivity|].
        exists p, (q ++ flat_map (block_writes o) (fst (fullsW bsz (skipn (Z.to_nat m) buf)))).
        split; [rewrite Hpq; symmetry; apply app_assoc|exact Hd].
Qed.

Lemma w_write_loop_dead k outc : forall fuel buf w n w' n' e, SDead k (w_sink w) outc ->
  w_write_loop fuel w buf n = (w', n', e) -> SDead k (w_sink w') outc.
Proof.
  induction fuel as [|f IH]; intros buf w n w' n' e Hd H.
  - cbn [w_write_loop] in H. inversion H; subst; exact Hd.
  - destruct buf as [|b0 buf0] eqn:Ebuf.
    { cbn [w_write_loop] in H. inversion H; subst; exact Hd. }
    rewrite <- Ebuf in *. assert (Hne : buf <> []) by (rewrite Ebuf; discriminate). clear Ebuf b0 buf0.
    rewrite wwl_unfold in H by exact Hne. cbv zeta in H.
    destruct ((len (w_pend w) =? 0) && (w_bsz w <=? len buf)).
    + destruct (w_block w _) as [w1 e1] eqn:Eb. pose proof (w_block_dead _ _ _ _ _ _ Hd Eb) as Hd1.
      destruct e1; try (inversion H; subst; exact Hd1). eapply IH; eassumption.
    + match type of H with (if ?c then _ else _) = _ => destruct c end.
      { inversion H; subst. exact Hd. }
      match type of H with context [w_block ?a ?b] => destruct (w_block a b) as [w2 e2] eqn:Eb end.
      assert (Hd0 : SDead k (w_sink (set_pend w (w_pend w ++ firstn (Z.to_nat (Z.min (w_bsz w - len (w_pend w)) (len buf))) buf))) outc) by exact Hd.
      pose proof (w_block_dead _ _ _ _ _ _ Hd0 Eb) as Hd2.
      destruct e2; try (inversion H; subst; exact Hd2). eapply IH; [|exact H]. exact Hd2.
Qed.

(* Flush *)
Lemma w_flush_write w : w_state w = lz4_writeState ->
  w_flush w = match w_pend w with
              | [] => (w, ENil)
              | _ => let '(w1, e) := w_block w (w_pend w) in
                     match e with ENil => (set_pend w1 [], ENil) | _ => (w1, e) end
              end.
Proof. intros H. unfold w_flush. rewrite H. reflexivity. Qed.

Lemma w_flush_alive k o w pend content outc w' e : Inv k o w pend content outc -> w_flush w = (w', e) ->
  (e = ENil /\ Inv k o w' [] (addc o content (concat (tail_block pend))) (outc ++ flat_map (block_writes o) (tail_block pend))) \/
  (e = EInjected /\ exists p q, flat_map (block_writes o) (tail_block pend) = p ++ q /\ SDead k (w_sink w') (outc ++ p)).
Proof.
  intros HI H. pose proof HI as (Hst & Ho & Hb & Hpe & Hc & Ha). rewrite w_flush_write in H by exact Hst.
  rewrite Hpe in H. destruct pend as [|x pd] eqn:Ep.
  - inversion H; subst w' e. left. cbn [tail_block concat flat_map]. rewrite addc_nil, app_nil_r. split; [reflexivity|exact HI].
  - rewrite <- Ep in *. assert (Htb : tail_block pend = [pend]) by (rewrite Ep; reflexivity). rewrite Htb. clear Ep x pd.
    cbn [concat flat_map]. rewrite !app_nil_r.
    destruct (w_block w pend) as [w1 e1] eqn:Eb.
    destruct (w_block_alive _ _ _ _ _ _ _ _ _ HI Eb) as [[He1 HI1]|[He1 (p & q & Hpq & Hd)]]; subst e1.
    + inversion H; subst w' e. left. split; [reflexivity|]. eapply Inv_set_pend; exact HI1.
    + inversion H; subst w' e. right. split; [reflexivity|]. exists p, q. split; assumption.
Qed.

Lemma st_next_sink w e : w_sink (st_next w e) = w_sink w.
Proof. destruct e; reflexivity. Qed.
Lemma st_check_sink w e : w_sink (st_check w e) = w_sink w.
Proof. unfold st_check. destruct (w_state w =? lz4_errorState); [reflexivity|]. destruct e; reflexivity. Qed.

Lemma w_init_dead k w outc w1 e : SDead k (w_sink w) outc -> w_init w = (w1, e) -> SDead k (w_sink w1) outc.
Proof.
  intros Hd H. unfold w_init in H. destruct (sink_write (w_sink w) (header_bytes (w_opts w))) as [s ok] eqn:Es.
  inversion H; subst w1 e. cbn [w_sink]. eapply sink_write_dead; eassumption.
Qed.

Lemma w_flush_dead k w outc w' e : SDead k (w_sink w) outc -> w_flush w = (w', e) -> SDead k (w_sink w') outc.
Proof.
  intros Hd H. unfold w_flush in H.
  assert (Hgo : forall w0 w0' e0, SDead k (w_sink w0) outc ->
      match w_pend w0 with
      | [] => (w0, ENil)
      | _ => let '(w1, e) := w_block w0 (w_pend w0) in match e with ENil => (set_pend w1 [], ENil) | _ => (w1, e) end
      end = (w0', e0) -> SDead k (w_sink w0') outc).
  { intros w0 w0' e0 Hd0 H0. destruct (w_pend w0) as [|x pd] eqn:Ep.
    - inversion H0; subst; exact Hd0.
    - rewrite <- Ep in H0. destruct (w_block w0 (w_pend w0)) as [w1 e1] eqn:Eb.
      pose proof (w_block_dead _ _ _ _ _ _ Hd0 Eb) as Hd1. destruct e1; inversion H0; subst; exact Hd1. }
  destruct (w_state w =? lz4_writeState); [eapply Hgo; eassumption|].
  destruct (w_state w =? lz4_errorState); [inversion H; subst; exact Hd|].
  destruct (w_state w =? lz4_newState); [|inversion H; subst; exact Hd].
  destruct (w_init w) as [w1 e1] eqn:Ei. pose proof (w_init_dead _ _ _ _ _ Hd Ei) as Hd1.
  assert (Hd2 : SDead k (w_sink (st_next w1 e1)) outc) by (rewrite st_next_sink; exact Hd1).
  destruct e1; try (inversion H; subst; exact Hd2). eapply Hgo; eassumption.
Qed.

Definition is_wfc (op : wop) : Prop := match op with WWrite _ | WFlush | WClose => True | _ => False end.

Lemma wstep_dead k w outc op fresh w' r : is_wfc op -> SDead k (w_sink w) outc -> wstep w op fresh = (w', r) ->
  SDead k (w_sink w') outc.
Proof.
  intros Hop Hd H. destruct op as [os|buf|data| | |]; try contradiction; cbn [wstep] in H.
  - (* Write *)
    assert (Hrun : forall w0 w0' r0, SDead k (w_sink w0) outc ->
       (let '(w1, n, e) := w_write_loop (S (length buf)) w0 buf 0 in (st_check w1 e, RNE n e)) = (w0', r0) ->
       SDead k (w_sink w0') outc).
    { intros w0 w0' r0 Hd0 H0. destruct (w_write_loop (S (length buf)) w0 buf 0) as [[w1 n1] e1] eqn:El.
      inversion H0; subst. rewrite st_check_sink. eapply w_write_loop_dead; eassumption. }
    destruct (w_state w =? lz4_writeState); [eapply Hrun; eassumption|].
    destruct ((w_state w =? lz4_closedState) || (w_state w =? lz4_errorState)).
    { inversion H; subst. rewrite st_check_sink. exact Hd. }
    destruct (w_state w =? lz4_newState); [|inversion H; subst; exact Hd].
    destruct (w_init w) as [w1 e1] eqn:Ei. pose proof (w_init_dead _ _ _ _ _ Hd Ei) as Hd1.
    assert (Hd2 : SDead k (w_sink (st_next w1 e1)) outc) by (rewrite st_next_sink; exact Hd1).
    destruct e1; try (inversion H; subst; rewrite st_check_sink; exact Hd2). eapply Hrun; eassumption.
  - (* Flush *)
    destruct (w_flush w) as [w1 e1] eqn:Ef. inversion H; subst. eapply w_flush_dead; eassumption.
  - (* Close *)
    destruct (w_state w =? lz4_closedState); [inversion H; subst; exact Hd|].
    destruct (w_flush w) as [w1 e1] eqn:Ef. pose proof (w_flush_dead _ _ _ _ _ Hd Ef) as Hd1.
    destruct e1; try (inversion H; subst; exact Hd1).
    destruct (sink_writes (w_sink w1) (close_writes (w_opts w1) (w_content w1))) as [s ok] eqn:Es.
    pose proof (sink_writes_dead _ _ _ _ _ _ Hd1 Es) as Hd2.
    inversion H; subst. destruct ok; cbn [w_sink set_state]; rewrite st_next_sink; exact Hd2.
Qed.

Lemma run_dead k fresh ops : forall w outc w' res, Forall is_wfc ops -> SDead k (w_sink w) outc ->
  run_writer w ops fresh = (w', res) -> SDead k (w_sink w') outc.
Proof.
  induction ops as [|op r IH]; intros w outc w' res Hops Hd H; cbn [run_writer] in H.
  - inversion H; subst; exact Hd.
  - inversion Hops as [|? ? Hop Hr]; subst.
    destruct (wstep w op fresh) as [w1 r1] eqn:E1. destruct (run_writer w1 r fresh) as [w2 rs] eqn:E2.
    inversion H; subst. eapply IH; [exact Hr| |exact E2]. eapply wstep_dead; eassumption.
Qed.

Lemma items_wfc items : Forall is_wfc (map item_op items ++ [WClose]).
Proof.
  apply Forall_app. split; [|repeat constructor].
  induction items as [|[d|] r IH]; constructor; try exact IH; exact I.
Qed.

(* Close in writeState *)
Lemma wclose_alive k o w pend content outc fresh w' r : Inv k o w pend content outc -> wstep w WClose fresh = (w', r) ->
  let X := flat_map (block_writes o) (tail_block pend) ++ close_writes o (addc o content (concat (tail_block pend))) in
  (r = RE ENil /\ w_state w' = lz4_closedState /\ SAlive k (w_sink w') (outc ++ X)) \/
  (isinj r /\ exists p q, X = p ++ q /\ SDead k (w_sink w') (outc ++ p)).
Proof.
  intros HI H X. pose proof HI as (Hst & _). cbn [wstep] in H. rewrite Hst in H.
  change (lz4_writeState =? lz4_closedState) with false in H. cbv iota in H.
  destruct (w_flush w) as [w1 e1] eqn:Ef.
  destruct (w_flush_alive _ _ _ _ _ _ _ _ HI Ef) as [[He1 HI1]|[He1 (p & q & Hpq & Hd)]]; subst e1.
  - destruct HI1 as (Hst1 & Ho1 & Hb1 & Hpe1 & Hc1 & Ha1). rewrite Ho1, Hc1 in H.
    destruct (sink_writes (w_sink w1) (close_writes o (addc o content (concat (tail_block pend))))) as [s ok] eqn:Es.
    destruct (sink_writes_alive _ _ _ _ _ _ Ha1 Es) as [[Hok Ha2]|[Hok (p & q & Hpq & Hd)]]; subst ok.
    + left. inversion H; subst w' r. split; [reflexivity|].
      cbn [st_next set_sink set_state w_state w_sink]. rewrite Hst1. split; [reflexivity|].
      unfold X. rewrite app_assoc. exact Ha2.
    + right. inversion H; subst w' r. split; [left; reflexivity|].
      exists (flat_map (block_writes o) (tail_block pend) ++ p), q. unfold X. split; [rewrite Hpq; apply app_assoc|].
      cbn [st_next set_sink set_state w_state w_sink]. rewrite app_assoc. exact Hd.
  - right. inversion H; subst w' r. split; [left; reflexivity|].
    exists p, (q ++ close_writes o (addc o content (concat (tail_block pend)))). unfold X.
    split; [rewrite Hpq; symmetry; apply app_assoc|exact Hd].
Qed.

(* one item: blocks emitted and the new pending data *)
Definition item_blocks (bsz : Z) (i : item) (pend : list Z) : list (list Z) * list Z :=
  match i with IWrite d => fullsW bsz (pend ++ d) | IFlush => (tail_block pend, []) end.
Lemma blocks_of_cons bsz i r pend : 0 < bsz ->
  blocks_of bsz (i :: r) pend = fst (item_blocks bsz i pend) ++ blocks_of bsz r (snd (item_blocks bsz i pend)).
Proof. intros Hb. destruct i as [d|]; [apply blocks_of_write; exact Hb|apply blocks_of_flush]. Qed.

Lemma step_item k o i fresh w pend content outc w1 r : 0 < bsz_of o ->
  Inv k o w pend content outc -> len pend < bsz_of o -> wstep w (item_op i) fresh = (w1, r) ->
  (r = item_res i /\ len (snd (item_blocks (bsz_of o) i pend)) < bsz_of o /\
   Inv k o w1 (snd (item_blocks (bsz_of o) i pend)) (addc o content (concat (fst (item_blocks (bsz_of o) i pend))))
       (outc ++ flat_map (block_writes o) (fst (item_blocks (bsz_of o) i pend)))) \/
  (isinj r /\ exists p q, flat_map (block_writes o) (fst (item_blocks (bsz_of o) i pend)) = p ++ q /\
                          SDead k (w_sink w1) (outc ++ p)).
Proof.
  intros Hbz HI Hp H. pose proof HI as (Hst & _). destruct i as [d|]; cbn [item_op item_blocks item_res] in *.
  - cbn [wstep] in H. rewrite Hst in H. change (lz4_writeState =? lz4_writeState) with true in H. cbv iota in H.
    destruct (w_write_loop (S (length d)) w d 0) as [[w2 n2] e2] eqn:El.
    destruct (w_write_loop_alive k o Hbz _ _ _ _ _ _ _ _ _ _ HI Hp (Nat.lt_succ_diag_r _) El) as [(He & Hn & HI2)|(He & p & q & Hpq & Hd)]; subst e2.
    + left. inversion H; subst w1 r. rewrite st_check_nil. split; [f_equal; lia|].
      split; [apply fullsW_rest_small; exact Hbz|exact HI2].
    + right. inversion H; subst w1 r. split; [right; eexists; reflexivity|]. exists p, q. rewrite st_check_sink. split; assumption.
  - cbn [wstep] in H. destruct (w_flush w) as [w2 e2] eqn:Ef. inversion H; subst w1 r.
    destruct (w_flush_alive _ _ _ _ _ _ _ _ HI Ef) as [[He HI2]|[He (p & q & Hpq & Hd)]]; subst e2.
    + left. cbn [fst snd]. split; [reflexivity|]. split; [rewrite len_nil; lia|exact HI2].
    + right. split; [left; reflexivity|]. exists p, q. split; assumption.
Qed.

(* the remaining items and Close, from writeState *)
Lemma run_items k o fresh : 0 < bsz_of o -> forall items w pend content outc w' res,
  Inv k o w pend content outc -> len pend < bsz_of o ->
  run_writer w (map item_op items ++ [WClose]) fresh = (w', res) ->
  let B := blocks_of (bsz_of o) items pend in
  let W := flat_map (block_writes o) B ++ close_writes o (addc o content (concat B)) in
  (res = map item_res items ++ [RE ENil] /\ w_state w' = lz4_closedState /\ SAlive k (w_sink w') (outc ++ W)) \/
  ((exists r, In r res /\ isinj r) /\ exists p q, W = p ++ q /\ SDead k (w_sink w') (outc ++ p)).
Proof.
  intros Hbz. induction items as [|i items IH]; intros w pend content outc w' res HI Hp H.
  - cbn [map app run_writer] in H. destruct (wstep w WClose fresh) as [w1 r1] eqn:E1. inversion H; subst w' res.
    rewrite blocks_of_nil. cbv zeta.
    destruct (wclose_alive _ _ _ _ _ _ _ _ _ HI E1) as [(Hr & Hs & Ha)|(Hr & p & q & Hpq & Hd)].
    + left. subst r1. split; [reflexivity|split; assumption].
    + right. split; [exists r1; split; [left; reflexivity|exact Hr]|]. exists p, q. split; assumption.
  - cbn [map app run_writer] in H. destruct (wstep w (item_op i) fresh) as [w1 r1] eqn:E1.
    destruct (run_writer w1 (map item_op items ++ [WClose]) fresh) as [w2 rs] eqn:E2. inversion H; subst w' res.
    rewrite blocks_of_cons by exact Hbz. cbv zeta.
    set (Bi := fst (item_blocks (bsz_of o) i pend)) in *. set (p1 := snd (item_blocks (bsz_of o) i pend)) in *.
    rewrite flat_map_app, concat_app, <- addc_app, <- app_assoc.
    destruct (step_item _ _ _ _ _ _ _ _ _ _ Hbz HI Hp E1) as [(Hr & Hp1 & HI1)|(Hr & p & q & Hpq & Hd)].
    + fold Bi p1 in HI1, Hp1. destruct (IH _ _ _ _ _ _ HI1 Hp1 E2) as [(Hres & Hs & Ha)|(Hres & p & q & Hpq & Hd)].
      * left. subst r1. split; [cbn [map app]; rewrite Hres; reflexivity|]. split; [exact Hs|]. rewrite <- app_assoc in Ha. exact Ha.
      * right. destruct Hres as (r & Hin & Hr'). split; [exists r; split; [right; exact Hin|exact Hr']|].
        exists (flat_map (block_writes o) Bi ++ p), q. split; [rewrite Hpq; apply app_assoc|]. rewrite <- app_assoc in Hd. exact Hd.
    + fold Bi in Hpq. right. split; [exists r1; split; [left; reflexivity|exact Hr]|].
      exists p, (q ++ flat_map (block_writes o) (blocks_of (bsz_of o) items p1) ++
                  close_writes o (addc o (addc o content (concat Bi)) (concat (blocks_of (bsz_of o) items p1)))).
      split; [rewrite Hpq; symmetry; apply app_assoc|]. eapply run_dead; [apply items_wfc|exact Hd|exact E2].
Qed.

(* ------------------------------------------------------------------ *)
(* Part 5: the first operation (Writer.init) and whole sessions *)

Lemma w_init_state w w1 e : w_init w = (w1, e) -> w_state w1 = w_state w.
Proof. unfold w_init. destruct (sink_write _ _) as [s ok]. intros H; inversion H; reflexivity. Qed.

Lemma w_init_alive k o w outc w1 e : w_state w = lz4_newState -> w_opts w = o -> SAlive k (w_sink w) outc ->
  w_init w = (w1, e) ->
  (e = ENil /\ Inv k o (st_next w1 ENil) [] [] (outc ++ [header_bytes o])) \/ (e = EInjected /\ SDead k (w_sink w1) outc).
Proof.
  intros Hst Ho Ha H. unfold w_init in H. rewrite Ho in H.
  destruct (sink_write (w_sink w) (header_bytes o)) as [s ok] eqn:Es. inversion H; subst w1 e; clear H.
  destruct (sink_write_alive _ _ _ _ _ _ Ha Es) as [[Hok Ha1]|[Hok Hd]]; subst ok.
  - left. split; [reflexivity|]. unfold Inv. cbn [st_next set_state w_state w_opts w_bsz w_pend w_content w_sink].
    rewrite Hst. repeat split; try reflexivity; apply Ha1.
  - right. split; [reflexivity|exact Hd].
Qed.

Lemma st_next_new_state w1 : w_state w1 = lz4_newState -> w_state (st_next w1 ENil) = lz4_writeState.
Proof. intros H. cbn [st_next set_state w_state]. rewrite H. reflexivity. Qed.

Lemma w_flush_first w w1 : w_state w = lz4_newState -> w_init w = (w1, ENil) -> w_flush w = w_flush (st_next w1 ENil).
Proof.
  intros Hst Hi. pose proof (st_next_new_state w1 (eq_trans (w_init_state _ _ _ Hi) Hst)) as Hst2.
  unfold w_flush at 1. rewrite Hst, Hi.
  change (lz4_newState =? lz4_writeState) with false. change (lz4_newState =? lz4_errorState) with false.
  change (lz4_newState =? lz4_newState) with true. cbv iota zeta.
  unfold w_flush. rewrite Hst2. reflexivity.
Qed.

Lemma wstep_first_ok w w1 op fresh : is_wfc op -> w_state w = lz4_newState -> w_init w = (w1, ENil) ->
  wstep w op fresh = wstep (st_next w1 ENil) op fresh.
Proof.
  intros Hop Hst Hi. pose proof (st_next_new_state w1 (eq_trans (w_init_state _ _ _ Hi) Hst)) as Hst2.
  destruct op as [os|buf|data| | |]; try contradiction; cbn [wstep].
  - rewrite Hst, Hst2, Hi.
    change (lz4_newState =? lz4_writeState) with false. change (lz4_newState =? lz4_errorState) with false.
    change (lz4_newState =? lz4_closedState) with false.
    change (lz4_newState =? lz4_newState) with true. change (lz4_writeState =? lz4_writeState) with true.
    reflexivity.
  - rewrite (w_flush_first w w1 Hst Hi). reflexivity.
  - rewrite Hst, Hst2, (w_flush_first w w1 Hst Hi).
    change (lz4_newState =? lz4_closedState) with false. change (lz4_writeState =? lz4_closedState) with false.
    reflexivity.
Qed.

Lemma wstep_first_fail w w1 op fresh w' r : is_wfc op -> w_state w = lz4_newState -> w_init w = (w1, EInjected) ->
  wstep w op fresh = (w', r) -> isinj r /\ w_sink w' = w_sink w1.
Proof.
  intros Hop Hst Hi H.
  assert (Hfl : w_flush w = (st_next w1 EInjected, EInjected)).
  { unfold w_flush. rewrite Hst, Hi. reflexivity. }
  destruct op as [os|buf|data| | |]; try contradiction; cbn [wstep] in H.
  - rewrite Hst, Hi in H.
    change (lz4_newState =? lz4_writeState) with false in H. change (lz4_newState =? lz4_errorState) with false in H.
    change (lz4_newState =? lz4_closedState) with false in H. change (lz4_newState =? lz4_newState) with true in H.
    cbv iota zeta in H. cbn [orb] in H. inversion H; subst w' r. split; [right; eexists; reflexivity|].
    rewrite st_check_sink. reflexivity.
  - rewrite Hfl in H. inversion H; subst w' r. split; [left; reflexivity|reflexivity].
  - rewrite Hst, Hfl in H. change (lz4_newState =? lz4_closedState) with false in H. cbv iota in H.
    inversion H; subst w' r. split; [left; reflexivity|reflexivity].
Qed.

Lemma run_first k o fresh ops w outc w' res : ops <> [] -> Forall is_wfc ops ->
  w_state w = lz4_newState -> w_opts w = o -> SAlive k (w_sink w) outc ->
  run_writer w ops fresh = (w', res) ->
  (exists wi, Inv k o wi [] [] (outc ++ [header_bytes o]) /\ run_writer wi ops fresh = (w', res)) \/
  ((exists r, In r res /\ isinj r) /\ SDead k (w_sink w') outc).
Proof.
  intros Hne Hops Hst Ho Ha H. destruct ops as [|op rest]; [congruence|].
  pose proof (Forall_inv Hops) as Hop. pose proof (Forall_inv_tail Hops) as Hrest.
  destruct (w_init w) as [w1 e1] eqn:Ei.
  destruct (w_init_alive _ _ _ _ _ _ Hst Ho Ha Ei) as [[He HI]|[He Hd]]; subst e1.
  - left. exists (st_next w1 ENil). split; [exact HI|]. cbn [run_writer] in *.
    rewrite <- (wstep_first_ok w w1 op fresh Hop Hst Ei). exact H.
  - right. cbn [run_writer] in H. destruct (wstep w op fresh) as [w2 r2] eqn:E2.
    destruct (run_writer w2 rest fresh) as [w3 rs] eqn:E3. inversion H; subst w' res.
    destruct (wstep_first_fail _ _ _ _ _ _ Hop Hst Ei E2) as [Hr Hsk].
    split; [exists r2; split; [left; reflexivity|exact Hr]|].
    eapply run_dead; [exact Hrest| |exact E3]. rewrite Hsk. exact Hd.
Qed.

Definition session_writes (o : fopts) (items : list item) : list (list Z) :=
  [header_bytes o] ++ flat_map (block_writes o) (blocks_of (bsz_of o) items []) ++ close_writes o (data_of items).
Lemma session_writes_concat o items : concat (session_writes o items) = frame_of_items o items.
Proof. unfold session_writes, frame_of_items. rewrite !concat_app. cbn [concat]. rewrite app_nil_r. reflexivity. Qed.

(* a whole session on a sink failing at call k (k = 0: never) *)
Lemma session_gen k os o items fresh w res : opts_after os = Some o ->
  run_writer (new_writer (mksink [] 0 k)) (WApply os :: map item_op items ++ [WClose]) fresh = (w, res) ->
  (res = RE ENil :: map item_res items ++ [RE ENil] /\ w_state w = lz4_closedState /\
   SAlive k (w_sink w) (session_writes o items)) \/
  ((exists r, In r res /\ isinj r) /\ exists p q, session_writes o items = p ++ q /\ SDead k (w_sink w) p).
Proof.
  intros Hopt H. destruct (apply_ok os o Hopt (mksink [] 0 k) fresh) as (wa & Hstep & Hst & Ho & Hsk & Hbz).
  cbn [run_writer] in H. rewrite Hstep in H.
  destruct (run_writer wa (map item_op items ++ [WClose]) fresh) as [w2 rs] eqn:E2. inversion H; subst w res; clear H.
  assert (Ha : SAlive k (w_sink wa) []).
  { rewrite Hsk. unfold SAlive, slist. cbn [sk_fail sk_chunks sk_calls rev]. change (len (@nil (list Z))) with 0. repeat split; lia. }
  assert (Hne : map item_op items ++ [WClose] <> []) by (destruct (map item_op items); discriminate).
  destruct (run_first k o fresh _ _ _ _ _ Hne (items_wfc items) Hst Ho Ha E2) as [(wi & HI & Hrun)|(Hr & Hd)].
  - assert (Hp : len (@nil Z) < bsz_of o) by (rewrite len_nil; exact Hbz).
    pose proof (run_items k o fresh Hbz items wi [] [] _ w2 rs HI Hp Hrun) as Hres. cbv zeta in Hres.
    rewrite (blocks_of_concat _ Hbz), close_writes_addc in Hres. cbn [app] in Hres. rewrite <- data_of_wdata in Hres.
    destruct Hres as [(Hres & Hs & Hal)|((r & Hin & Hr) & p & q & Hpq & Hd)].
    + left. split; [rewrite Hres; reflexivity|]. split; [exact Hs|exact Hal].
    + right. split; [exists r; split; [right; exact Hin|exact Hr]|].
      exists ([header_bytes o] ++ p), q. split; [unfold session_writes; rewrite Hpq; apply app_assoc|exact Hd].
  - right. destruct Hr as (r & Hin & Hr). split; [exists r; split; [right; exact Hin|exact Hr]|].
    exists [], (session_writes o items). split; [reflexivity|exact Hd].
Qed.

(* ------------------------------------------------------------------ *)
(* W1 *)
Theorem writer_session : writer_session_stmt.
Proof.
  unfold writer_session_stmt. intros os items o Hopt _.
  destruct (run_writer (new_writer s0) (WApply os :: map item_op items ++ [WClose]) s0) as [w res] eqn:E.
  destruct (session_gen 0 os o items s0 w res Hopt E) as [(Hres & Hs & Ha)|(_ & p & q & _ & Hd)].
  - split; [exact Hres|]. split; [|exact Hs]. destruct Ha as (_ & Hl & _).
    rewrite sink_bytes_slist, Hl. apply session_writes_concat.
  - exfalso. eapply SDead_not0; exact Hd.
Qed.

(* ------------------------------------------------------------------ *)
(* W2: as stated, writer_chunking_stmt quantifies over ALL option records, including those whose
   block-size index is invalid (bsz_of o = 0), for which both sides degenerate differently.
   It holds whenever the block size is positive, in particular for all options a Writer accepts. *)
Lemma wdata_writes ds : wdata (map IWrite ds) = concat ds.
Proof. induction ds as [|d r IH]; [reflexivity|]. cbn [map wdata flat_map concat]. fold (wdata (map IWrite r)). rewrite IH. reflexivity. Qed.

Theorem writer_chunking_fixed : forall o ds, 0 < bsz_of o ->
  frame_of_items o (map IWrite ds) = frame_encode o (concat ds).
Proof.
  intros o ds Hbz. unfold frame_of_items, frame_encode, frame_of_segments.
  assert (Hp : len (@nil Z) < bsz_of o) by (rewrite len_nil; exact Hbz).
  rewrite (blocks_of_writes _ Hbz ds [] Hp). cbn [app flat_map concat]. rewrite !app_nil_r.
  rewrite (chunks_fulls _ Hbz (concat ds) (length (concat ds)) (le_n _)).
  rewrite data_of_wdata, wdata_writes. reflexivity.
Qed.
Corollary writer_chunking_opts : forall os o ds, opts_after os = Some o ->
  frame_of_items o (map IWrite ds) = frame_encode o (concat ds).
Proof.
  intros os o ds Hopt. apply writer_chunking_fixed.
  destruct (apply_ok os o Hopt s0 s0) as (wa & _ & _ & _ & _ & Hbz). exact Hbz.
Qed.
(* the original statement fails for an option record with an invalid block-size index *)
Theorem writer_chunking_stmt_false : ~ writer_chunking_stmt.
Proof.
  intros H. specialize (H (mkfo 0 0 0 false) [[1]; [2]]). vm_compute in H. discriminate H.
Qed.

(* ------------------------------------------------------------------ *)
(* W3: ReadFrom *)
Lemma w_block_ok o w pend content outc src w' e : Inv 0 o w pend content outc -> w_block w src = (w', e) ->
  e = ENil /\ Inv 0 o w' pend (addc o content src) (outc ++ block_writes o src).
Proof.
  intros HI H. destruct (w_block_alive _ _ _ _ _ _ _ _ _ HI H) as [[He HI1]|[_ (p & q & _ & Hd)]].
  - split; assumption.
  - exfalso. eapply SDead_not0; exact Hd.
Qed.

Lemma w_readfrom_loop_ok o : 0 < bsz_of o -> forall fuel data w pend content outc n w' n' e,
  Inv 0 o w pend content outc -> (length data < fuel)%nat ->
  w_readfrom_loop fuel w data n = (w', n', e) ->
  e = ENil /\ n' = n + len data /\
  Inv 0 o w' pend (addc o content data)
      (outc ++ flat_map (block_writes o) (fst (fullsW (bsz_of o) data) ++ tail_block (snd (fullsW (bsz_of o) data)))).
Proof.
  intros Hbz. set (bsz := bsz_of o) in *.
  induction fuel as [|f IH]; intros data w pend content outc n w' n' e HI Hf H; [lia|].
  cbn [w_readfrom_loop] in H. pose proof HI as (_ & _ & Hb & _). rewrite Hb in H. fold bsz in H.
  destruct (bsz <=? len data) eqn:Ebig.
  - assert (Hlb : bsz <= len data) by lia.
    destruct (w_block w (firstn (Z.to_nat bsz) data)) as [w1 e1] eqn:Eb.
    destruct (w_block_ok _ _ _ _ _ _ _ _ HI Eb) as [He1 HI1]. subst e1.
    assert (Hf1 : (length (skipn (Z.to_nat bsz) data) < f)%nat) by (rewrite skipn_length; unfold len in Hlb; lia).
    destruct (IH _ _ _ _ _ _ _ _ _ HI1 Hf1 H) as (He & Hn & HI2).
    split; [exact He|]. split; [rewrite Hn, len_skipn by lia; lia|].
    rewrite (fullsW_big bsz data) by assumption. cbn [fst snd app]. rewrite flat_map_cons_app.
    rewrite addc_app, firstn_skipn, <- app_assoc in HI2. exact HI2.
  - rewrite fullsW_small by lia. cbn [fst snd app]. destruct data as [|x data0] eqn:Ed.
    + inversion H; subst w' n' e. cbn [tail_block flat_map]. rewrite addc_nil, app_nil_r, len_nil.
      split; [reflexivity|split; [lia|exact HI]].
    + rewrite <- Ed in *. assert (Htb : tail_block data = [data]) by (rewrite Ed; reflexivity). rewrite Htb.
      cbn [flat_map]. rewrite app_nil_r. clear Ed x data0.
      destruct (w_block w data) as [w1 e1] eqn:Eb. destruct (w_block_ok _ _ _ _ _ _ _ _ HI Eb) as [He1 HI1]. subst e1.
      inversion H; subst w' n' e. split; [reflexivity|split; [reflexivity|exact HI1]].
Qed.

Theorem writer_readfrom : writer_readfrom_stmt.
Proof.
  unfold writer_readfrom_stmt. intros os o data Hopt _.
  destruct (apply_ok os o Hopt s0 s0) as (wa & Hstep & Hst & Ho & Hsk & Hbz).
  cbn [run_writer]. rewrite Hstep.
  assert (Ha : SAlive 0 (w_sink wa) []).
  { rewrite Hsk. unfold SAlive, slist, s0. cbn [sk_fail sk_chunks sk_calls rev]. change (len (@nil (list Z))) with 0. repeat split; lia. }
  (* ReadFrom *)
  destruct (wstep wa (WReadFrom data) s0) as [w2 r2] eqn:E2.
  cbn [wstep] in E2. rewrite Hst in E2.
  change (lz4_newState =? lz4_closedState) with false in E2. change (lz4_newState =? lz4_errorState) with false in E2.
  change (lz4_newState =? lz4_newState) with true in E2. cbn [orb] in E2. cbv iota in E2.
  destruct (w_init wa) as [w1 e1] eqn:Ei.
  destruct (w_init_alive _ _ _ _ _ _ Hst Ho Ha Ei) as [[He HI]|[_ Hd]]; [|exfalso; eapply SDead_not0; exact Hd].
  subst e1. cbv zeta iota in E2.
  destruct (w_readfrom_loop (S (length data)) (st_next w1 ENil) data 0) as [[w3 n3] e3] eqn:El.
  destruct (w_readfrom_loop_ok o Hbz _ _ _ _ _ _ _ _ _ _ HI (Nat.lt_succ_diag_r _) El) as (He3 & Hn3 & HI3).
  subst e3. rewrite st_check_nil in E2. inversion E2; subst w2 r2; clear E2.
  (* Close *)
  destruct (wstep w3 WClose s0) as [w4 r4] eqn:E4.
  destruct (wclose_alive _ _ _ _ _ _ _ _ _ HI3 E4) as [(Hr & Hs & Hal)|(_ & p & q & _ & Hd)];
    [|exfalso; eapply SDead_not0; exact Hd].
  subst r4 n3. split; [reflexivity|].
  destruct Hal as (_ & Hl & _). rewrite sink_bytes_slist, Hl.
  cbn [tail_block flat_map concat app]. rewrite !addc_nil, close_writes_addc.
  unfold frame_encode, frame_of_segments. cbn [flat_map concat]. rewrite !app_nil_r.
  rewrite (chunks_fulls _ Hbz data (length data) (le_n _)).
  rewrite !concat_app. reflexivity.
Qed.

(* ------------------------------------------------------------------ *)
(* W4: a sink failing at call k *)
Theorem writer_fault : writer_fault_stmt.
Proof.
  unfold writer_fault_stmt. intros os items o k Hopt Hk. cbv zeta.
  destruct (run_writer (new_writer (mksink [] 0 k)) (WApply os :: map item_op items ++ [WClose]) s0) as [w res] eqn:E.
  destruct (run_writer (new_writer s0) (WApply os :: map item_op items ++ [WClose]) s0) as [w' res'] eqn:E'.
  destruct (session_gen 0 os o items s0 w' res' Hopt E') as [(_ & _ & Ha')|(_ & p & q & _ & Hd)];
    [|exfalso; eapply SDead_not0; exact Hd].
  destruct Ha' as (_ & Hl' & Hc' & _). rewrite !sink_bytes_slist, Hl', Hc'.
  destruct (session_gen k os o items s0 w res Hopt E) as [(_ & _ & Ha)|((r & Hin & Hr) & p & q & Hpq & Hd)].
  - destruct Ha as (_ & Hl & _ & Hlt). rewrite Hl. split; [exists []; symmetry; apply app_nil_r|].
    intros Hge. specialize (Hlt Hk). lia.
  - destruct Hd as (_ & Hl & _ & _). rewrite Hl, Hpq. split; [exists (concat q); apply concat_app|].
    intros _. exists r. split; [exact Hin|exact Hr].
Qed.

(* the fault run in more detail: either nothing failed and the whole frame was written (fewer than k
   calls), or the sink holds exactly the chunks written before the first failing call, some operation
   reported the injected error, and at least k calls were attempted *)
Theorem writer_fault_detail : forall os items o k w res, opts_after os = Some o -> 0 < k ->
  run_writer (new_writer (mksink [] 0 k)) (WApply os :: map item_op items ++ [WClose]) s0 = (w, res) ->
  (res = RE ENil :: map item_res items ++ [RE ENil] /\ w_state w = lz4_closedState /\
   sink_bytes (w_sink w) = frame_of_items o items /\ sk_calls (w_sink w) = len (session_writes o items) /\
   len (session_writes o items) < k) \/
  ((exists r, In r res /\ isinj r) /\ k <= sk_calls (w_sink w) /\
   exists p q, session_writes o items = p ++ q /\ sink_bytes (w_sink w) = concat p).
Proof.
  intros os items o k w res Hopt Hk E.
  destruct (session_gen k os o items s0 w res Hopt E) as [(Hres & Hs & Ha)|(Hr & p & q & Hpq & Hd)].
  - left. destruct Ha as (_ & Hl & Hc & Hlt). split; [exact Hres|]. split; [exact Hs|].
    rewrite sink_bytes_slist, Hl, session_writes_concat. split; [reflexivity|]. split; [exact Hc|exact (Hlt Hk)].
  - right. destruct Hd as (_ & Hl & _ & Hc). split; [exact Hr|]. split; [exact Hc|].
    exists p, q. split; [exact Hpq|]. rewrite sink_bytes_slist, Hl. reflexivity.
Qed.

Print Assumptions writer_session.
Print Assumptions writer_chunking_fixed.
Print Assumptions writer_chunking_opts.
Print Assumptions writer_chunking_stmt_false.
Print Assumptions writer_readfrom.
Print Assumptions writer_fault.
Print Assumptions writer_fault_detail.
