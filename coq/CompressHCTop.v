(* CompressHCTop.v — executable instance of the HC model on a byte list. *)
From Coq Require Import FMapPositive.
From LZ4V Require Import Base GenBlock BlockFormat CompressFast CompressFastTable CompressHC.

Definition compress_hc_list (src : list Z) (depth dstlen : Z) : cres :=
  let m := load_src src 1%positive (PositiveMap.empty Z) in
  compress_hc (src_get m) (len src) depth (Z.to_nat 131073) dstlen.
