(* Lz4cSpec.v — statements for C20 (the lz4c command). Proofs: Lz4cProofs.v *)
From LZ4V Require Import Base GenBlock GenStream GenLz4 GenLz4c XXH32 BlockFormat FrameSpec FrameImpl Writer Reader FrameTheoremsSpec Lz4c.

Definition valid_size (n : Z) : Prop := n = 65536 \/ n = 262144 \/ n = 1048576 \/ n = 4194304.

(* each flag does what its usage text says: the option list is exactly this one *)
Definition lz4c_flags_stmt : Prop :=
  forall fl, options_of fl =
    [ OBlockChecksum (f_bc fl);                 (* -bc  "enable block checksum" *)
      OBlockSize (f_size fl);                   (* -size "block max size" *)
      OChecksum (negb (f_sc fl));               (* -sc  "disable stream checksum" *)
      OLevel (level_of (f_level fl));           (* -l   "compression level" *)
      OConcurrency (if f_conc fl <=? 0 then 16 else f_conc fl) ].
(* and the usage strings really say so (facts read off compress.go by the translator) *)
Definition lz4c_usage_stmt : Prop :=
  lz4c_flag_sc_usage_says_disable = true /\ lz4c_flag_bc_usage_says_enable = true /\
  lz4c_flag_size_declared = true /\ lz4c_flag_l_declared = true /\ lz4c_level_switch_in_handler = true.

(* the options the command ends up with *)
Definition lz4c_opts (fl : cflags) : option fopts := opts_after (options_of fl).

(* compressing any list of files succeeds and every .lz4 file is the frame of its file for the
   options the flags promise *)
Definition lz4c_compress_stmt : Prop :=
  forall fl files o, valid_size (f_size fl) -> Forall bytes files -> lz4c_opts fl = Some o ->
  cmd_compress fl files = CmdOk (map (frame_encode o) files).
Definition lz4c_stdio_stmt : Prop :=
  forall fl data o, valid_size (f_size fl) -> bytes data -> lz4c_opts fl = Some o ->
  cmd_compress_stdio fl data = CmdOk [frame_encode o data].
(* the options reflect the flags: block checksum bit, content checksum bit, block size, level *)
Definition lz4c_opts_stmt : Prop :=
  forall fl o, valid_size (f_size fl) -> lz4c_opts fl = Some o ->
  lz4stream_DescriptorFlags_BlockChecksum (fo_flags o) = f_bc fl /\
  lz4stream_DescriptorFlags_ContentChecksum (fo_flags o) = negb (f_sc fl) /\
  bsz_of o = f_size fl /\ fo_level o = level_of (f_level fl) /\ fo_legacy o = false /\ fo_csize o = 0.
