(* CReaderFaultProofs.v — C18, failing-source clause: proof of creader_fault_stmt (CReaderFaultSpec.v).

   Method: a simulation.  `ff s` is the source s with its fault index erased, `ffc c` the compressing
   reader c over `ff (c_src c)`.  As long as the source has made fewer than K calls (K = its fault
   index), one io.ReadFull / one reading loop / one Read either
     - makes the K-th call: the result is (nothing, EInjected) and s_calls = K exactly, or
     - does not: it returns exactly what the fault-free reader returns, the two readers stay related
       by ffc, and still fewer than K calls have been made.
   The fault-free side is then handled by the invariant Inv / cr_read_spec of CReaderProofs.v. *)
From Coq Require Import ZifyBool.
From LZ4V Require Import Base GenBlock GenStream GenLz4 XXH32 BlockFormat BlockExec CompressFast FrameSpec FrameImpl Writer Reader CReader FrameTheoremsSpec ReaderSpec2 CReaderProofs CReaderFaultSpec.

(* ---------- part 1: erasing the fault index ---------- *)

Definition ff (s : source) : source := mksrc (s_rem s) (s_calls s) 0 (s_consumed s).
Definition ffc (c : CReader.creader) : CReader.creader := mkcr (c_st c) (c_fo c) (ff (c_src c)) (c_content c) (c_ov c).

(* one io.ReadFull on a source that has made fewer than K calls and fails at the K-th *)
Lemma read_full_sim s n K : 0 < K -> s_fail s = K -> s_calls s < K ->
  (exists got s1, read_full s n = (got, EInjected, s1) /\ s_calls s1 = K /\ s_fail s1 = K) \/
  (exists got e s1, read_full s n = (got, e, s1) /\ e <> EInjected /\
     read_full (ff s) n = (got, e, ff s1) /\ s_fail s1 = K /\ s_calls s1 < K).
Proof.
  intros HK Hf Hc. destruct s as [rem calls fail cons]. cbn [s_fail s_calls] in Hf, Hc. subst fail.
  unfold read_full, ff. cbn [s_rem s_calls s_fail s_consumed].
  change (0 <? 0) with false. cbn [andb].
  destruct (n <=? 0) eqn:En.
  - right. eexists _, _, _. split; [reflexivity|]. split; [discriminate|].
    split; [reflexivity|]. cbn [s_fail s_calls]. split; [reflexivity|exact Hc].
  - destruct ((0 <? K) && (K <=? calls + 1)) eqn:E1.
    + left. eexists _, _. split; [reflexivity|]. cbn [s_fail s_calls]. split; [lia|reflexivity].
    + destruct rem as [|x r].
      * right. eexists _, _, _. split; [reflexivity|]. split; [discriminate|].
        split; [reflexivity|]. cbn [s_fail s_calls]. split; [reflexivity|lia].
      * destruct (take_upto n (x :: r) []) as [got rest].
        destruct (len got =? n) eqn:Eg.
        -- right. eexists _, _, _. split; [reflexivity|]. split; [discriminate|].
           split; [reflexivity|]. cbn [s_fail s_calls]. split; [reflexivity|lia].
        -- destruct ((0 <? K) && (K <=? calls + 1 + 1)) eqn:E2.
           ++ left. eexists _, _. split; [reflexivity|]. cbn [s_fail s_calls]. split; [lia|reflexivity].
           ++ right. eexists _, _, _. split; [reflexivity|]. split; [discriminate|].
              split; [reflexivity|]. cbn [s_fail s_calls]. split; [reflexivity|lia].
Qed.

(* ---------- part 2: the reading loop and one Read ---------- *)

Lemma cr_loop_sim K k : 0 < K -> forall fuel c pbuf ov,
  s_fail (c_src c) = K -> s_calls (c_src c) < K ->
  (exists c', cr_loop fuel c k pbuf ov = (c', [], EInjected) /\ s_calls (c_src c') = K) \/
  (exists c' b e, cr_loop fuel c k pbuf ov = (c', b, e) /\ e <> EInjected /\
     cr_loop fuel (ffc c) k pbuf ov = (ffc c', b, e) /\
     s_fail (c_src c') = K /\ s_calls (c_src c') < K).
Proof.
  intros HK. induction fuel as [|f IH]; intros c pbuf ov Hf Hc.
  - right. exists c, [], EOther. cbn [cr_loop]. split; [reflexivity|]. split; [discriminate|].
    split; [reflexivity|]. split; assumption.
  - destruct c as [st fo s ct cov].
    change (ffc (mkcr st fo s ct cov)) with (mkcr st fo (ff s) ct cov).
    rewrite !cr_loop_S. cbn [c_st c_fo c_src c_content c_ov] in *.
    destruct (read_full_sim s (bsz_of fo) K HK Hf Hc) as [[got [s1 [Hrd [Hc1 Hf1]]]]|[got [e [s1 [Hrd [Hne [Hrd' [Hf1 Hc1]]]]]]]].
    + left. rewrite Hrd. cbv beta iota zeta. eexists. split; [reflexivity|]. cbn [c_src]. exact Hc1.
    + rewrite Hrd, Hrd'. cbv beta iota zeta. cbn [c_st c_fo c_src c_content c_ov].
      destruct e; try (exfalso; apply Hne; reflexivity);
        try (right; eexists _, _, _; split; [reflexivity|]; split; [discriminate|];
             split; [reflexivity|]; cbn [c_src]; split; assumption).
      * (* ENil: a full block *)
        destruct (ov_writes k pbuf ov (block_writes fo got)) as [p1 o1].
        destruct (len p1 =? k).
        -- right. eexists _, _, _. split; [reflexivity|]. split; [discriminate|].
           split; [reflexivity|]. cbn [c_src]. split; assumption.
        -- exact (IH (mkcr st fo s1 (if lz4stream_DescriptorFlags_ContentChecksum (initw_flags fo) then ct ++ got else ct) cov) p1 o1 Hf1 Hc1).
      * (* EEOF *)
        destruct got as [|g gs].
        -- cbn [c_fo c_content c_src].
           destruct (ov_writes k pbuf ov (close_writes fo ct)) as [p2 o2].
           right. eexists _, _, _. split; [reflexivity|]. split; [discriminate|].
           split; [reflexivity|]. cbn [c_src]. split; assumption.
        -- destruct (ov_writes k pbuf ov (block_writes fo (g :: gs))) as [p1 o1]. cbn [c_fo c_content c_src].
           destruct (ov_writes k p1 o1 _) as [p2 o2].
           right. eexists _, _, _. split; [reflexivity|]. split; [discriminate|].
           split; [reflexivity|]. cbn [c_src]. split; assumption.
      * (* EUEOF *)
        destruct got as [|g gs].
        -- cbn [c_fo c_content c_src].
           destruct (ov_writes k pbuf ov (close_writes fo ct)) as [p2 o2].
           right. eexists _, _, _. split; [reflexivity|]. split; [discriminate|].
           split; [reflexivity|]. cbn [c_src]. split; assumption.
        -- destruct (ov_writes k pbuf ov (block_writes fo (g :: gs))) as [p1 o1]. cbn [c_fo c_content c_src].
           destruct (ov_writes k p1 o1 _) as [p2 o2].
           right. eexists _, _, _. split; [reflexivity|]. split; [discriminate|].
           split; [reflexivity|]. cbn [c_src]. split; assumption.
Qed.

Lemma cr_read_sim K k c : 0 < K -> s_fail (c_src c) = K -> s_calls (c_src c) < K ->
  (exists c', cr_read c k = (c', [], EInjected) /\ s_calls (c_src c') = K) \/
  (exists c' b e, cr_read c k = (c', b, e) /\ e <> EInjected /\
     cr_read (ffc c) k = (ffc c', b, e) /\
     s_fail (c_src c') = K /\ s_calls (c_src c') < K).
Proof.
  intros HK Hf Hc. destruct c as [st fo s ct cov].
  change (ffc (mkcr st fo s ct cov)) with (mkcr st fo (ff s) ct cov).
  unfold cr_read. cbn [c_st c_fo c_src c_content c_ov] in *.
  assert (Hrem : s_rem (ff s) = s_rem s) by reflexivity. rewrite Hrem.
  destruct (k <=? len cov).
  - destruct (take_upto k cov []) as [now later].
    right. eexists _, _, _. split; [reflexivity|]. split; [discriminate|].
    split; [reflexivity|]. cbn [c_src]. split; assumption.
  - destruct st.
    + destruct (ov_write k cov [] (header_bytes fo)) as [p1 o1].
      exact (cr_loop_sim K k HK (S (length (s_rem s))) (mkcr CrReading fo s [] []) p1 o1 Hf Hc).
    + exact (cr_loop_sim K k HK (S (length (s_rem s))) (mkcr CrReading fo s ct []) cov [] Hf Hc).
    + destruct cov as [|y r].
      * right. eexists _, _, _. split; [reflexivity|]. split; [discriminate|].
        split; [reflexivity|]. cbn [c_src]. split; assumption.
      * right. eexists _, _, _. split; [reflexivity|]. split; [discriminate|].
        split; [reflexivity|]. cbn [c_src]. split; assumption.
    + right. eexists _, _, _. split; [reflexivity|]. split; [discriminate|].
      split; [reflexivity|]. cbn [c_src]. split; assumption.
Qed.

(* a Read into a buffer of negative length (not a Go value) is a Read into an empty buffer *)
Lemma cr_read_neg c k : k <= 0 -> cr_read c k = cr_read c 0.
Proof.
  intros Hk. unfold cr_read.
  assert (E1 : k <=? len (c_ov c) = true) by (pose proof (len_nonneg (c_ov c)); lia).
  assert (E2 : 0 <=? len (c_ov c) = true) by (pose proof (len_nonneg (c_ov c)); lia).
  rewrite E1, E2, !take_upto_spec. replace (Z.to_nat k) with (Z.to_nat 0) by lia. reflexivity.
Qed.

(* ---------- part 3: sequences of Read calls ---------- *)

Lemma run_fault_spec fo data FE K : 0 < bsz_of fo -> 0 < K -> forall sizes c del c' rs out,
  Inv fo data FE (ffc c) del -> s_fail (c_src c) = K -> s_calls (c_src c) < K ->
  run_creader c sizes = (c', rs, out) ->
  is_prefix (del ++ out) FE /\
  Forall (fun r => snd r = ENil \/ snd r = EInjected \/ (snd r = EEOF /\ del ++ out = FE)) rs /\
  (K <= s_calls (c_src c') -> exists n, In (n, EInjected) rs) /\
  s_calls (c_src c') <= K.
Proof.
  intros Hb HK. induction sizes as [|k0 r IH]; intros c del c' rs out HI Hf Hc Hrun.
  - cbn [run_creader] in Hrun. injection Hrun as <- <- <-. rewrite app_nil_r.
    split; [exact (inv_prefix _ _ _ _ _ HI)|]. split; [constructor|]. split; [lia|lia].
  - cbn [run_creader] in Hrun.
    set (k := Z.max 0 k0).
    assert (Hk : 0 <= k) by (unfold k; lia).
    assert (Hkk : cr_read c k0 = cr_read c k).
    { unfold k. destruct (Z.max_spec 0 k0) as [[_ ->]|[Hle ->]]; [reflexivity|]. apply cr_read_neg. exact Hle. }
    rewrite Hkk in Hrun. clear Hkk.
    destruct (cr_read_sim K k c HK Hf Hc) as [[c1 [Hrd Hc1]]|[c1 [b [e [Hrd [Hne [Hrd' [Hf1 Hc1]]]]]]]].
    + (* the K-th call is made during this Read *)
      rewrite Hrd in Hrun. injection Hrun as <- <- <-. rewrite app_nil_r.
      split; [exact (inv_prefix _ _ _ _ _ HI)|].
      split; [constructor; [cbn [snd]; right; left; reflexivity|constructor]|].
      split; [intros _; exists (len (@nil Z)); left; reflexivity|lia].
    + rewrite Hrd in Hrun.
      destruct (cr_read_spec fo data FE (ffc c) del k Hb Hk HI) as [c2 [b2 [e2 [Hrd2 [_ Hcase]]]]].
      rewrite Hrd' in Hrd2. injection Hrd2 as <- <- <-.
      destruct Hcase as [[-> [HI1 _]]|[-> [-> [-> _]]]].
      * destruct (run_creader c1 r) as [[c3 rs'] all] eqn:Erun.
        injection Hrun as <- <- <-.
        destruct (IH c1 (del ++ b) c3 rs' all HI1 Hf1 Hc1 Erun) as [P1 [P2 [P3 P4]]].
        rewrite <- app_assoc in P1.
        split; [exact P1|]. split; [|split; [|exact P4]].
        -- constructor; [cbn [snd]; left; reflexivity|].
           apply (Forall_impl _ (P := fun r0 => snd r0 = ENil \/ snd r0 = EInjected \/ snd r0 = EEOF /\ (del ++ b) ++ all = FE)); [|exact P2].
           intros a Ha. rewrite <- app_assoc in Ha. exact Ha.
        -- intros Hge. destruct (P3 Hge) as [n Hin]. exists n. right. exact Hin.
      * injection Hrun as <- <- <-. rewrite app_nil_r.
        split; [exists []; rewrite app_nil_r; reflexivity|].
        split; [constructor; [cbn [snd]; right; right; split; reflexivity|constructor]|].
        split; [lia|lia].
Qed.

(* ---------- part 4: NewCompressingReader does not look at its source ---------- *)

Lemma new_creader_src s s' os c e : new_creader s os = (c, e) ->
  c_src c = s /\ new_creader s' os = (mkcr (c_st c) (c_fo c) s' (c_content c) (c_ov c), e).
Proof.
  rewrite !new_creader_eq.
  destruct (match os with [] => (cr_w1, ENil) | _ :: _ => apply_go cr_w1' os end) as [w2 e2].
  intros H. injection H as <- <-. cbn [c_st c_fo c_src c_content c_ov]. split; reflexivity.
Qed.

Theorem creader_fault : creader_fault_stmt.
Proof.
  intros os c data K sizes _ HK Hnew.
  destruct (new_creader_src _ (src_of data) os c ENil Hnew) as [Hsrc Hnew'].
  assert (Hffc : mkcr (c_st c) (c_fo c) (src_of data) (c_content c) (c_ov c) = ffc c)
    by (unfold ffc; rewrite Hsrc; reflexivity).
  rewrite Hffc in Hnew'.
  destruct (inv_init data os (ffc c) Hnew') as [Hb HI].
  change (c_fo (ffc c)) with (c_fo c) in Hb, HI.
  destruct (run_creader c sizes) as [[c' rs] out] eqn:Erun.
  assert (Hf : s_fail (c_src c) = K) by (rewrite Hsrc; reflexivity).
  assert (Hc : s_calls (c_src c) < K) by (rewrite Hsrc; cbn [s_calls]; lia).
  exact (run_fault_spec _ _ _ K Hb HK sizes c [] c' rs out HI Hf Hc Erun).
Qed.

Print Assumptions creader_fault.
