(* C19 — Frame header acceptance is exact and fields are reported faithfully. *)
From LZ4V Require Import Base GenBlock GenStream GenLz4 XXH32 FrameImpl Writer Reader HeaderSpec HeaderProofs.
(* for EVERY descriptor (two bytes), EVERY 8-byte size field (present iff the size bit is set), EVERY
   checksum byte and EVERY continuation: accepted iff the checksum byte is right and the block-size
   code is one of 4..7; the two failures are distinct errors; flags, content size and the remaining
   input are reported unchanged.  Unbounded statement, proved by case analysis, not enumeration *)
Theorem C19_exact : header_exact_stmt.         Proof. exact header_exact. Qed.
Print Assumptions C19_exact.
(* a non-magic first word is an invalid frame (ValidFrameHeader maps exactly this error to (false, nil)) *)
Theorem C19_badmagic : header_badmagic_stmt.   Proof. exact header_badmagic. Qed.
Print Assumptions C19_badmagic.
(* exactly the sixteen skippable magics skip exactly the announced number of bytes (also C07) *)
Theorem C19_skippable : header_skippable_stmt. Proof. exact header_skippable. Qed.
Print Assumptions C19_skippable.
(* Size exposes the 64-bit content size unchanged (as a Go int) *)
Theorem C19_size : size_exposed_stmt.          Proof. exact size_exposed. Qed.
Print Assumptions C19_size.
