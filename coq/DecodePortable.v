(* DecodePortable.v — model of internal/lz4block/decode_other.go (the portable decoder, which is
   also what every build with the noasm tag and every architecture without assembly gets).

   The destination is a zipper: [rout] = dst[0:di] reversed, [rest] = dst[di:len(dst)] with its
   CURRENT contents (initially arbitrary: whatever the caller's buffer held).  The wide copies of
   the code (16 bytes on behalf of up to 14 literals, 18 bytes on behalf of a short match, the
   doubling copy of long overlapping matches) are performed literally on [rest], so the bytes the
   code leaves beyond di are part of the model.  A Go panic is recovered by the code into the
   error result; here every such panic is DErr.  Capacities are clipped to lengths on entry, so
   no slice expression can reach beyond len(dst) / len(src). *)
From LZ4V Require Import Base GenBlock BlockFormat BlockExec.

Inductive dres := DOk (n : Z) (dst : list Z) | DErr.

(* overwrite the first min(|src|,|rest|) cells of rest with src: Go's copy(dst[di:], src) *)
Fixpoint overwrite (src rest : list Z) : list Z :=
  match src, rest with
  | x :: s, _ :: r => x :: overwrite s r
  | _, _ => rest
  end.

(* length l > n *)
Fixpoint longer_than (n : nat) (l : list Z) : bool :=
  match l with
  | [] => false
  | _ :: r => match n with O => true | S k => longer_than k r end
  end.

(* w cells continuing the periodic pattern P (cur = what is left of the current period) *)
Fixpoint cyc (w : nat) (cur P : list Z) : list Z :=
  match w with
  | O => []
  | S k => match cur with
           | x :: t => x :: cyc k t P
           | [] => match P with [] => [] | x :: t => x :: cyc k t P end
           end
  end.

(* `for n := offset; n <= bytesToCopy+offset; n *= 2` : the last n for which the body ran *)
Fixpoint dbl_last (fuel : nat) (n lim : Z) : Z :=
  match fuel with O => n | S f => if 2 * n <=? lim then dbl_last f (2 * n) lim else n end.

(* the 18 bytes dst[i:i+18] (i = di - offset) as they are before the copy *)
Definition window18 (rout rest : list Z) (offset : Z) : list Z :=
  let k := Z.min offset 18 in
  rrev (firstn (Z.to_nat k) (skipn (Z.to_nat (offset - k)) rout)) ++ firstn (Z.to_nat (18 - k)) rest.

(* the general match copy (after the shortcuts): returns the zipper after advancing by mLen.
   dlen = len(dict), room = len(dst) - di = length of rest *)
Definition copy_match_p (dict : list Z) (dlen : Z) (rout rest : list Z) (di room offset mLen : Z)
  : option (list Z * list Z) :=
  (* `if di < offset { fromDict := dict[len(dict)+di-offset:]; n := copy(dst[di:di+mLen], fromDict); ... }` *)
  let st :=
    if di <? offset then
      let need := offset - di in
      if dlen <? need then None                          (* slice start beyond len(dict): panic *)
      else if room <? mLen then None                     (* dst[di:di+mLen] beyond len(dst): panic *)
      else
        let n := Z.min mLen need in
        let from := firstn (Z.to_nat n) (skipn (Z.to_nat (dlen - need)) dict) in
        match take_rev (overwrite from rest) n rout with
        | Some (r1, t1) => Some (r1, t1, mLen - n, room - n)
        | None => None
        end
    else Some (rout, rest, mLen, room) in
  match st with
  | None => None
  | Some (rout1, rest1, mLen1, room1) =>
    if mLen1 =? 0 then Some (rout1, rest1) else
    if room1 <? mLen1 then None                          (* the match does not fit: a slice expression panics *)
    else if offset <? mLen1 then
      (* doubling copy: afterwards the region written is the periodic continuation *)
      let bytesToCopy := offset * (mLen1 / offset) in
      let nl := dbl_last 64 offset (bytesToCopy + offset) in
      let w := Z.max (2 * nl - offset) mLen1 in
      let P := rrev (firstn (Z.to_nat offset) rout1) in
      let rest2 := overwrite (cyc (Z.to_nat (Z.min w room1)) P P) rest1 in
      take_rev rest2 mLen1 rout1
    else
      (* copy(dst[di:di+mLen], expanded[:mLen]) with mLen <= offset: no overlap *)
      let from := rrev (firstn (Z.to_nat mLen1) (skipn (Z.to_nat (offset - mLen1)) rout1)) in
      take_rev (overwrite from rest1) mLen1 rout1
  end.

Section Decode.
Variable dict : list Z.
Variable dlen : Z.          (* len(dict) *)
Variable dstlen : Z.        (* len(dst) *)

Fixpoint dec_p (fuel : nat) (s rout rest : list Z) (di : Z) : dres :=
  match fuel with O => DErr | S f =>
  match s with
  | [] => DOk di (rev_append rout rest)                  (* loop condition si < len(src) fails *)
  | b :: s1 =>
    let lLen := b / 16 in
    let mnib := b mod 16 in
    (* from `mLen := b & 0xF` to the end of the loop body *)
    let general (s2 rout2 rest2 : list Z) (di2 : Z) : dres :=
      match s2 with
      | [] => if mnib =? 0 then DOk di2 (rev_append rout2 rest2) else DErr
      | [_] => DErr                                      (* u16(src[si:]) panics *)
      | o1 :: o2 :: s3 =>
        let offset := o1 + 256 * o2 in
        if offset =? 0 then DErr else
        match read_len mnib s3 with
        | None => DErr                                   (* src[si] panics inside the length loop *)
        | Some (ml, s4) =>
          let mLen := ml + lz4block_minMatch in
          match copy_match_p dict dlen rout2 rest2 di2 (dstlen - di2) offset mLen with
          | None => DErr
          | Some (rout3, rest3) => dec_p f s4 rout3 rest3 (di2 + mLen)
          end
        end
      end in
    if lLen =? 0 then general s1 rout rest di
    else if (lLen <? 15) && longer_than 16 s1 then
      (* shortcut 1: copy(dst[di:], src[si:si+16]) whatever lLen is *)
      let rest1 := overwrite (firstn 16 s1) rest in
      match take_rev rest1 lLen rout with
      | None => DErr     (* di would pass len(dst): every continuation of the code panics *)
      | Some (rout2, rest2) =>
        let s2 := skipn (Z.to_nat lLen) s1 in
        let di2 := di + lLen in
        if mnib <? 15 then
          match s2 with
          | o1 :: o2 :: s3 =>
            let offset := o1 + 256 * o2 in
            let mLen := mnib + 4 in
            if (mLen <=? offset) && (offset <? di2) && (di2 - offset + 18 <=? dstlen) && (di2 + mLen <=? dstlen) then
              (* shortcut 2: copy(dst[di:], dst[i:i+18]), memmove semantics *)
              let rest3 := overwrite (window18 rout2 rest2 offset) rest2 in
              match take_rev rest3 mLen rout2 with
              | None => DErr
              | Some (rout4, rest4) => dec_p f s3 rout4 rest4 (di2 + mLen)
              end
            else general s2 rout2 rest2 di2
          | _ => DErr                                    (* unreachable: more than 16 bytes are left *)
          end
        else general s2 rout2 rest2 di2
      end
    else
      match (if lLen =? 15 then read_ext s1 15 else Some (lLen, s1)) with
      | None => DErr
      | Some (ll, s2) =>
        (* copy(dst[di:di+lLen], src[si:si+lLen]): both slice expressions are bounds-checked *)
        match take_rev s2 ll rout with
        | None => DErr
        | Some (rout2, s3) =>
          match take_rev rest ll [] with
          | None => DErr
          | Some (_, rest2) => general s3 rout2 rest2 (di + ll)
          end
        end
      end
  end end.
End Decode.

(* decodeBlock(dst, src, dict): dst0 = the destination's prior contents *)
Definition decode_portable (src dst0 dict : list Z) : dres :=
  match src with
  | [] => DErr
  | _ => dec_p dict (len dict) (len dst0) (S (length src)) src [] dst0 0
  end.
