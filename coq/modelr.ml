
(** val negb : bool -> bool **)

let negb = function
| true -> false
| false -> true

type nat =
| O
| S of nat



module Nat =
 struct
  (** val eqb : nat -> nat -> bool **)

  let rec eqb n m =
    match n with
    | O -> (match m with
            | O -> true
            | S _ -> false)
    | S n' -> (match m with
               | O -> false
               | S m' -> eqb n' m')

  (** val leb : nat -> nat -> bool **)

  let rec leb n m =
    match n with
    | O -> true
    | S n' -> (match m with
               | O -> false
               | S m' -> leb n' m')

  (** val ltb : nat -> nat -> bool **)

  let ltb n m =
    leb (S n) m
 end

(** val existsb : ('a1 -> bool) -> 'a1 list -> bool **)

let rec existsb f = function
| [] -> false
| a :: l0 -> (||) (f a) (existsb f l0)

(** val forallb : ('a1 -> bool) -> 'a1 list -> bool **)

let rec forallb f = function
| [] -> true
| a :: l0 -> (&&) (f a) (forallb f l0)

(** val seq : nat -> nat -> nat list **)

let rec seq start = function
| O -> []
| S len0 -> start :: (seq (S start) len0)

type cid =
| CJob of nat
| CSentinel

(** val cid_eqb : cid -> cid -> bool **)

let cid_eqb a b =
  match a with
  | CJob i -> (match b with
               | CJob j -> Nat.eqb i j
               | CSentinel -> false)
  | CSentinel -> (match b with
                  | CJob _ -> false
                  | CSentinel -> true)

type event =
| EvEnq of cid
| EvWkStart of cid
| EvWkDecoded of cid
| EvTake of cid
| EvRecv of cid
| EvDeliver of cid

(** val index_of : (event -> bool) -> event list -> nat -> nat option **)

let rec index_of e l i =
  match l with
  | [] -> None
  | x :: r -> if e x then Some i else index_of e r (S i)

(** val ev_eqb : event -> event -> bool **)

let ev_eqb a b =
  match a with
  | EvEnq c -> (match b with
                | EvEnq d -> cid_eqb c d
                | _ -> false)
  | EvWkStart c -> (match b with
                    | EvWkStart d -> cid_eqb c d
                    | _ -> false)
  | EvWkDecoded c -> (match b with
                      | EvWkDecoded d -> cid_eqb c d
                      | _ -> false)
  | EvTake c -> (match b with
                 | EvTake d -> cid_eqb c d
                 | _ -> false)
  | EvRecv c -> (match b with
                 | EvRecv d -> cid_eqb c d
                 | _ -> false)
  | EvDeliver c -> (match b with
                    | EvDeliver d -> cid_eqb c d
                    | _ -> false)

(** val pos : event list -> event -> nat option **)

let pos l e =
  index_of (ev_eqb e) l O

(** val before : event list -> event -> event -> bool **)

let before l a b =
  match pos l a with
  | Some i -> (match pos l b with
               | Some j -> Nat.ltb i j
               | None -> true)
  | None -> (match pos l b with
             | Some _ -> false
             | None -> true)

(** val before_if : event list -> event -> event -> bool **)

let before_if l a b =
  match pos l a with
  | Some i -> (match pos l b with
               | Some j -> Nat.ltb i j
               | None -> true)
  | None -> true

(** val happened : event list -> event -> bool **)

let happened l a =
  match pos l a with
  | Some _ -> true
  | None -> false

(** val job_ok : event list -> nat -> bool **)

let job_ok l j =
  let c = CJob j in
  (&&)
    ((&&)
      ((&&)
        ((&&)
          ((&&)
            ((&&)
              ((&&)
                ((&&)
                  ((&&)
                    ((&&) (before l (EvEnq c) (EvTake c))
                      (before l (EvTake c) (EvRecv c)))
                    (before l (EvRecv c) (EvDeliver c)))
                  (before l (EvEnq c) (EvWkStart c)))
                (before l (EvWkStart c) (EvWkDecoded c)))
              (before l (EvWkDecoded c) (EvDeliver c)))
            (before l (EvEnq c) (EvEnq (CJob (S j)))))
          (before l (EvRecv c) (EvTake (CJob (S j)))))
        (before_if l (EvDeliver c) (EvTake (CJob (S j)))))
      (before l (EvDeliver c) (EvDeliver (CJob (S j)))))
    ((||) (negb (happened l (EvEnq c)))
      ((&&) (before l (EvTake c) (EvTake CSentinel))
        (before l (EvRecv c) (EvTake CSentinel))))

(** val noDup_b : event list -> bool **)

let rec noDup_b = function
| [] -> true
| x :: r -> (&&) (negb (existsb (ev_eqb x) r)) (noDup_b r)

(** val trace_ok : nat -> event list -> bool **)

let trace_ok nblk l =
  (&&)
    ((&&) (forallb (job_ok l) (seq O nblk))
      (before l (EvTake CSentinel) (EvRecv CSentinel))) (noDup_b l)
