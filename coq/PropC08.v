(* C08 — The concurrent pipelines are race-free, ordered, deadlock-free and leak-free.
   Theorems about the Writer pipeline LTS (PipeW.v), for EVERY interleaving, every concurrency level
   num >= 1, every number of blocks and every set of failing sink writes. *)
From LZ4V Require Import Base PipeW PipeWSpec PipeWProofs.
Theorem C08_order : pw_order_stmt.            Proof. exact pw_order. Qed.
Print Assumptions C08_order.
(* buffers: the ordering goroutine reads a block only while its worker is blocked and has not released
   it; a buffer reaches the pool only from its finished worker; the producer never touches it after
   submission *)
Theorem C08_ownership : pw_owner_stmt.        Proof. exact pw_owner. Qed.
Print Assumptions C08_ownership.
Theorem C08_no_deadlock : pw_progress_stmt.   Proof. exact pw_progress. Qed.
Print Assumptions C08_no_deadlock.
Theorem C08_terminates : pw_terminates_stmt.  Proof. exact pw_terminates. Qed.
Print Assumptions C08_terminates.
(* once Close has returned: the ordering goroutine has exited, nothing is queued, every job's channel
   is closed and no worker is blocked (a worker not yet finished can always step) *)
Theorem C08_no_leak : pw_noleak_fixed_stmt.   Proof. exact pw_noleak_fixed. Qed.
Print Assumptions C08_no_leak.
(* the statement first written (every worker already past its wake-up when Close returns) is false:
   the last worker may not have been scheduled yet *)
Theorem C08_no_leak_first_statement_refuted : ~ pw_noleak_stmt.  Proof. exact pw_noleak_false. Qed.
Print Assumptions C08_no_leak_first_statement_refuted.
(* the checker applied to traces recorded from the instrumented code accepts every run of the model *)
Theorem C08_checker_sound : pw_checker_stmt.  Proof. exact pw_checker. Qed.
Print Assumptions C08_checker_sound.

(* ---- the Reader pipeline LTS (PipeR.v): reading goroutine, one worker per block, collector,
   consumer; for EVERY interleaving, every queue capacity num >= 1, every number of blocks and every
   set of undecodable blocks ---- *)
From LZ4V Require Import PipeR PipeRSpec PipeRProofs.
(* the consumer receives the blocks 0,1,2,... in order, exactly those before the first undecodable
   one, and then the error of an undecodable block if there is one, the source's verdict otherwise *)
Theorem C08_reader_order : pr_order_stmt.             Proof. exact pr_order. Qed.
Print Assumptions C08_reader_order.
(* decoded buffers: worker -> collector (hashes it) -> consumer -> pool, never two parties at once *)
Theorem C08_reader_ownership : pr_owner_stmt.         Proof. exact pr_owner. Qed.
Print Assumptions C08_reader_ownership.
Theorem C08_reader_no_deadlock : pr_progress_stmt.    Proof. exact pr_progress. Qed.
Print Assumptions C08_reader_no_deadlock.
Theorem C08_reader_terminates : pr_terminates_stmt.   Proof. exact pr_terminates. Qed.
Print Assumptions C08_reader_terminates.
(* once the Reader has reported the end of the stream or an error: the reading goroutine and the
   collector have exited, nothing is queued and no worker is blocked *)
Theorem C08_reader_no_leak : pr_noleak_stmt.          Proof. exact pr_noleak. Qed.
Print Assumptions C08_reader_no_leak.
Theorem C08_reader_no_leak_enabled : pr_noleak_enabled_stmt.  Proof. exact pr_noleak_enabled. Qed.
Print Assumptions C08_reader_no_leak_enabled.
(* the checker applied to traces recorded from the instrumented Reader accepts every run of the model *)
Theorem C08_reader_checker_sound : pr_checker_stmt.   Proof. exact pr_checker. Qed.
Print Assumptions C08_reader_checker_sound.
