(* C08 — The concurrent pipelines are race-free, ordered, deadlock-free and leak-free.
   Theorems about the Writer pipeline LTS (PipeW.v), for EVERY interleaving, every concurrency level
   num >= 1, every number of blocks and every set of failing sink writes. *)
From LZ4V Require Import Base PipeW PipeWSpec PipeWProofs.
Theorem C08_order : pw_order_stmt.            Proof. exact pw_order. Qed.
Print Assumptions C08_order.
(* buffers: the ordering goroutine reads a block only while its worker is blocked and has not released
   it; a buffer reaches the pool only from its finished worker; the producer never touches it after
   submission *)
Theorem C08_ownership : pw_owner_stmt.        Proof. exact pw_owner. Qed.
Print Assumptions C08_ownership.
Theorem C08_no_deadlock : pw_progress_stmt.   Proof. exact pw_progress. Qed.
Print Assumptions C08_no_deadlock.
Theorem C08_terminates : pw_terminates_stmt.  Proof. exact pw_terminates. Qed.
Print Assumptions C08_terminates.
(* once Close has returned: the ordering goroutine has exited, nothing is queued, every job's channel
   is closed and no worker is blocked (a worker not yet finished can always step) *)
Theorem C08_no_leak : pw_noleak_fixed_stmt.   Proof. exact pw_noleak_fixed. Qed.
Print Assumptions C08_no_leak.
(* the statement first written (every worker already past its wake-up when Close returns) is false:
   the last worker may not have been scheduled yet *)
Theorem C08_no_leak_first_statement_refuted : ~ pw_noleak_stmt.  Proof. exact pw_noleak_false. Qed.
Print Assumptions C08_no_leak_first_statement_refuted.
(* the checker applied to traces recorded from the instrumented code accepts every run of the model *)
Theorem C08_checker_sound : pw_checker_stmt.  Proof. exact pw_checker. Qed.
Print Assumptions C08_checker_sound.
