(* DecodeAsmProofs.v — the model of the amd64 assembly block decoder (DecodeAsm.dec_a) refines the
   executable block-format specification (BlockExec.sdecx): same accept/reject decision, same
   decoded bytes, destination length unchanged.  The bytes the wide moves leave beyond di are
   shown to be irrelevant (they are existentially quantified "junk" in the result relation). *)
From LZ4V Require Import Base GenBlock BlockFormat BlockFormatProofs BlockExec DecodePortable DecodeAsm.
From Coq Require Import ZifyBool.

(* ------------------------------------------------------------------ *)
(* lengths                                                              *)
(* ------------------------------------------------------------------ *)

Lemma overwrite_length s : forall r, length (overwrite s r) = length r.
Proof.
  induction s as [|x s IH]; intros r; [reflexivity|].
  destruct r as [|y r]; [reflexivity|]. cbn [overwrite length]. now rewrite IH.
Qed.

Lemma rev_append_length {A} (a b : list A) : length (rev_append a b) = (length a + length b)%nat.
Proof. rewrite rev_append_rev, app_length, rev_length. reflexivity. Qed.

Lemma rrev_length {A} (l : list A) : length (rrev l) = length l.
Proof. rewrite rrev_rev. apply rev_length. Qed.

Global Hint Rewrite @app_length @firstn_length @skipn_length @rev_length @rev_append_length
  @rrev_length overwrite_length @repeat_length : lens.

(* every length to nat, then lia *)
Ltac lens := unfold len in *; autorewrite with lens in *; cbn [length] in *; lia.

Lemma len_rev {A} (l : list A) : len (rev l) = len l.
Proof. lens. Qed.

(* ------------------------------------------------------------------ *)
(* overwrite                                                            *)
(* ------------------------------------------------------------------ *)

Lemma overwrite_app s : forall r, (length s <= length r)%nat ->
  overwrite s r = s ++ skipn (length s) r.
Proof.
  induction s as [|x s IH]; intros r H; [reflexivity|].
  destruct r as [|y r]; [cbn in H; lia|].
  cbn [overwrite length skipn app]. rewrite IH by (cbn in H; lia). reflexivity.
Qed.

Lemma firstn_overwrite k s r : (k <= length s)%nat -> (length s <= length r)%nat ->
  firstn k (overwrite s r) = firstn k s.
Proof.
  intros Hk Hs. rewrite overwrite_app by assumption.
  rewrite firstn_app. replace (k - length s)%nat with O by lia.
  cbn [firstn]. apply app_nil_r.
Qed.

(* the literal moves: n source bytes are moved on behalf of k <= n literals *)
Lemma firstn_overwrite_firstn k n s r :
  (k <= n)%nat -> (n <= length s)%nat -> (n <= length r)%nat ->
  firstn k (overwrite (firstn n s) r) = firstn k s.
Proof.
  intros Hkn Hns Hnr.
  rewrite firstn_overwrite by (rewrite firstn_length; lia).
  rewrite firstn_firstn. f_equal. lia.
Qed.

(* ------------------------------------------------------------------ *)
(* take_rev                                                             *)
(* ------------------------------------------------------------------ *)

Lemma take_rev_ok : forall l n acc, 0 <= n <= len l ->
  take_rev l n acc = Some (rev_append (firstn (Z.to_nat n) l) acc, skipn (Z.to_nat n) l).
Proof.
  induction l as [|x l IH]; intros n acc Hn.
  - cbn [take_rev]. assert (n = 0) by lens. subst n. reflexivity.
  - cbn [take_rev]. destruct (n <=? 0) eqn:E.
    + assert (n = 0) by lia. subst n. reflexivity.
    + rewrite IH by lens.
      replace (Z.to_nat n) with (S (Z.to_nat (n - 1))) by lia.
      reflexivity.
Qed.

Lemma take_rev_short : forall l n acc, len l < n -> take_rev l n acc = None.
Proof.
  induction l as [|x l IH]; intros n acc Hn.
  - cbn [take_rev]. destruct (n <=? 0) eqn:E; [lens|reflexivity].
  - cbn [take_rev]. destruct (n <=? 0) eqn:E; [lens|]. apply IH. lens.
Qed.

(* ------------------------------------------------------------------ *)
(* longer_than                                                          *)
(* ------------------------------------------------------------------ *)

Lemma longer_than_spec : forall n l, longer_than n l = (n <? length l)%nat.
Proof.
  induction n as [|n IH]; intros l; destruct l as [|x l]; try reflexivity.
  cbn [longer_than length]. rewrite IH. reflexivity.
Qed.

(* ------------------------------------------------------------------ *)
(* reading lengths                                                      *)
(* ------------------------------------------------------------------ *)

Lemma read_ext_ok : forall s acc v s', bytes s -> 0 <= acc ->
  read_ext s acc = Some (v, s') -> 0 <= v /\ bytes s'.
Proof.
  induction s as [|x s IH]; intros acc v s' Hb Ha H; [discriminate|].
  inversion Hb as [|? ? Hx Hs]; subst. cbn [read_ext] in H.
  destruct (x =? 255).
  - eapply IH; [exact Hs| |exact H]. lia.
  - inversion H; subst. unfold is_byte in Hx. split; [lia|exact Hs].
Qed.

Lemma read_len_ok nibble s v s' : bytes s -> 0 <= nibble ->
  read_len nibble s = Some (v, s') -> 0 <= v /\ bytes s'.
Proof.
  unfold read_len. intros Hb Hn H. destruct (nibble =? 15).
  - eapply read_ext_ok; [exact Hb| |exact H]. lia.
  - inversion H; subst. split; assumption.
Qed.

(* ------------------------------------------------------------------ *)
(* history copies                                                       *)
(* ------------------------------------------------------------------ *)

Lemma rev_firstn_rev {A} m (l : list A) : rev (firstn m (rev l)) = skipn (length l - m) l.
Proof. rewrite firstn_rev. apply rev_involutive. Qed.

(* m bytes read forwards out of the k-byte window that starts o bytes back *)
Lemma hist_copy {A} (rout : list A) (o k m : nat) :
  (m <= k)%nat -> (k <= o)%nat -> (o <= length rout)%nat ->
  rev (firstn m (rev (firstn k (skipn (o - k) rout)))) = firstn m (skipn (o - m) rout).
Proof.
  intros Hmk Hko Hol. rewrite rev_firstn_rev.
  rewrite firstn_length, skipn_length.
  replace (Nat.min k (length rout - (o - k)) - m)%nat with (k - m)%nat by lia.
  rewrite skipn_firstn_comm. rewrite <- skipn_add.
  f_equal; [lia|]. f_equal. lia.
Qed.

(* ------------------------------------------------------------------ *)
(* cyc: periodic continuation                                           *)
(* ------------------------------------------------------------------ *)

Lemma cyc_nilcur w P : cyc w [] P = cyc w P P.
Proof. destruct w as [|w]; [reflexivity|]. destruct P; reflexivity. Qed.

Lemma cyc_firstn : forall w cur P, (w <= length cur)%nat -> cyc w cur P = firstn w cur.
Proof.
  induction w as [|w IH]; intros cur P H; [reflexivity|].
  destruct cur as [|x cur]; [cbn in H; lia|].
  cbn [cyc firstn]. f_equal. apply IH. cbn in H; lia.
Qed.

Lemma cyc_app : forall cur w P, cyc (length cur + w) cur P = cur ++ cyc w P P.
Proof.
  induction cur as [|x cur IH]; intros w P.
  - cbn [length Nat.add app]. apply cyc_nilcur.
  - cbn [length Nat.add app cyc]. f_equal. apply IH.
Qed.

Lemma firstn_cyc : forall m w cur P, (m <= w)%nat -> firstn m (cyc w cur P) = cyc m cur P.
Proof.
  induction m as [|m IH]; intros w cur P H; [reflexivity|].
  destruct w as [|w]; [lia|].
  destruct cur as [|x cur]; [destruct P as [|y P]; [reflexivity|]|];
    cbn [cyc firstn]; f_equal; apply IH; lia.
Qed.

Lemma cyc_length : forall w cur P, P <> [] -> length (cyc w cur P) = w.
Proof.
  induction w as [|w IH]; intros cur P HP; [reflexivity|].
  destruct cur as [|x cur]; [destruct P as [|y P]; [congruence|]|];
    cbn [cyc length]; f_equal; apply IH; assumption.
Qed.

Lemma cyc_periods : forall q r P, (r <= length P)%nat ->
  cyc (q * length P + r) P P = app_n q P (firstn r P).
Proof.
  induction q as [|q IH]; intros r P Hr.
  - cbn [Nat.mul Nat.add app_n]. apply cyc_firstn. exact Hr.
  - replace (S q * length P + r)%nat with (length P + (q * length P + r))%nat by lia.
    rewrite cyc_app. cbn [app_n]. f_equal. apply IH. exact Hr.
Qed.

Lemma app_n_comm : forall k R rout, app_n k R (R ++ rout) = R ++ app_n k R rout.
Proof.
  induction k as [|k IH]; intros R rout; [reflexivity|].
  cbn [app_n]. rewrite IH. reflexivity.
Qed.

Lemma rev_app_n : forall q P X rout,
  rev (app_n q P X) ++ rout = rev X ++ app_n q (rev P) rout.
Proof.
  induction q as [|q IH]; intros P X rout; [reflexivity|].
  cbn [app_n]. rewrite rev_app_distr, <- app_assoc, IH, app_n_comm. reflexivity.
Qed.

Lemma app_n_length : forall q R rout,
  length (app_n q R rout) = (q * length R + length rout)%nat.
Proof.
  induction q as [|q IH]; intros R rout; [reflexivity|].
  cbn [app_n]. rewrite app_length, IH. lia.
Qed.

(* ------------------------------------------------------------------ *)
(* copy_fast                                                            *)
(* ------------------------------------------------------------------ *)

(* a match that lies in the produced output and does not overlap itself *)
Lemma copy_fast_hist rdict rout klen m o :
  0 <= klen -> 0 < o -> m <= o -> o <= len rout ->
  copy_fast m rdict rout klen (len rout) o =
  Some (firstn (Z.to_nat m) (skipn (Z.to_nat (o - m)) rout) ++ rout).
Proof.
  intros Hk Ho Hm Hl. unfold copy_fast.
  replace (o <=? 0) with false by lia.
  replace (len rout + klen <? o) with false by lia.
  replace (len rout <? o) with false by lia.
  replace (m <=? o) with true by lia. reflexivity.
Qed.

Lemma divmod_nat m o : 0 < o -> 0 <= m ->
  Z.to_nat m = (Z.to_nat (m / o) * Z.to_nat o + Z.to_nat (m mod o))%nat.
Proof.
  intros Ho Hm.
  pose proof (Z.div_mod m o ltac:(lia)) as E.
  pose proof (Z.mod_pos_bound m o Ho) as Hr.
  pose proof (Z.div_pos m o Hm Ho) as Hq.
  rewrite <- Z2Nat.inj_mul, <- Z2Nat.inj_add by nia.
  f_equal. lia.
Qed.

(* a match that lies in the produced output: the periodic continuation of the last o bytes *)
Lemma copy_fast_cyc rdict rout klen m o :
  0 <= klen -> 0 < o -> o <= len rout -> 0 <= m ->
  let P := rev (firstn (Z.to_nat o) rout) in
  copy_fast m rdict rout klen (len rout) o = Some (rev (cyc (Z.to_nat m) P P) ++ rout).
Proof.
  intros Hk Ho Hl Hm P.
  assert (HP : length P = Z.to_nat o) by (subst P; lens).
  destruct (m <=? o) eqn:E.
  - rewrite copy_fast_hist by lia. f_equal. f_equal.
    rewrite cyc_firstn by lia. subst P.
    pose proof (@hist_copy Z rout (Z.to_nat o) (Z.to_nat o) (Z.to_nat m)
                  ltac:(lia) ltac:(lia) ltac:(lens)) as H.
    rewrite Nat.sub_diag in H. cbn [skipn] in H. rewrite H.
    f_equal. f_equal. lia.
  - unfold copy_fast.
    replace (o <=? 0) with false by lia.
    replace (len rout + klen <? o) with false by lia.
    replace (len rout <? o) with false by lia.
    rewrite E. f_equal.
    pose proof (Z.mod_pos_bound m o Ho) as Hr.
    assert (Hd : Z.to_nat m = (Z.to_nat (m / o) * length P + Z.to_nat (m mod o))%nat)
      by (rewrite HP; apply divmod_nat; lia).
    rewrite Hd. rewrite cyc_periods by lia.
    rewrite rev_app_n. subst P. rewrite rev_involutive, rev_firstn_rev.
    f_equal. f_equal. lens.
Qed.

Lemma copy_fast_len rdict rout klen m o rout' :
  klen = len rdict -> 0 <= m ->
  copy_fast m rdict rout klen (len rout) o = Some rout' -> len rout' = len rout + m.
Proof.
  intros Hk Hm. unfold copy_fast.
  destruct (o <=? 0) eqn:E0; [discriminate|].
  destruct (len rout + klen <? o) eqn:E1; [discriminate|].
  set (V := if len rout <? o then rout ++ rdict else rout).
  assert (HV : o <= len V) by (subst V; destruct (len rout <? o) eqn:E3; lens).
  destruct (m <=? o) eqn:E2; intros H; inversion H; subst rout'; clear H.
  - lens.
  - assert (Ho : 0 < o) by lia.
    pose proof (Z.mod_pos_bound m o Ho) as Hr.
    pose proof (divmod_nat m o Ho Hm) as Hd.
    assert (HR : length (firstn (Z.to_nat o) V) = Z.to_nat o) by lens.
    unfold len. rewrite app_length, skipn_length, app_n_length, HR. lia.
Qed.

(* ------------------------------------------------------------------ *)
(* the wide moves                                                       *)
(* ------------------------------------------------------------------ *)

(* copy_interior_match: 16 bytes are moved on behalf of m <= 16 < ... ; since m < o the first m
   bytes of the window are all history, whatever [rest] holds *)
Lemma interior_ok rout rest m o :
  0 <= m -> m < o -> o <= len rout -> m <= 16 -> 16 <= len rest ->
  exists rest',
    take_rev (overwrite (window 16 rout rest o) rest) m rout =
      Some (firstn (Z.to_nat m) (skipn (Z.to_nat (o - m)) rout) ++ rout, rest')
    /\ len rest' = len rest - m.
Proof.
  intros Hm Hmo Hol Hm16 Hr.
  unfold window. set (k := Z.min o 16).
  set (A := firstn (Z.to_nat k) (skipn (Z.to_nat (o - k)) rout)).
  assert (HA : length (rrev A) = Z.to_nat k) by (subst A k; lens).
  set (W := rrev A ++ firstn (Z.to_nat (16 - k)) rest).
  assert (HW : length W = 16%nat) by (subst W k; rewrite app_length, HA; lens).
  rewrite take_rev_ok by lens.
  eexists; split; [f_equal; f_equal|lens].
  rewrite rev_append_rev. f_equal.
  rewrite firstn_overwrite by lens.
  subst W. rewrite firstn_app, HA.
  replace (Z.to_nat m - Z.to_nat k)%nat with O by lia.
  cbn [firstn]. rewrite app_nil_r, rrev_rev. subst A.
  replace (Z.to_nat (o - k)) with (Z.to_nat o - Z.to_nat k)%nat by lia.
  rewrite hist_copy by lens. do 2 f_equal. lia.
Qed.

(* the 8+8+2-byte move on behalf of a match of m <= 18 bytes at distance o >= 8: the 18 bytes
   written are the periodic continuation (the model's cyc 18 P P), of which m are kept *)
Lemma short_match_ok rdict klen rout rest m o :
  0 <= klen -> 0 < o -> o <= len rout -> 0 <= m <= 18 -> 18 <= len rest ->
  let P := rrev (firstn (Z.to_nat o) rout) in
  exists rout' rest',
    take_rev (overwrite (cyc 18 P P) rest) m rout = Some (rout', rest')
    /\ copy_fast m rdict rout klen (len rout) o = Some rout'
    /\ len rest' = len rest - m.
Proof.
  intros Hk Ho Hol Hm Hr P.
  assert (HP : P <> []).
  { intros E. assert (H : length P = O) by (rewrite E; reflexivity). subst P. lens. }
  pose proof (cyc_length 18 P P HP) as HC.
  rewrite take_rev_ok by lens.
  do 2 eexists; split; [reflexivity|]. split; [|lens].
  rewrite (copy_fast_cyc rdict rout klen m o) by lia. cbn zeta.
  f_equal. rewrite rev_append_rev. f_equal. f_equal.
  rewrite firstn_overwrite by lens.
  rewrite firstn_cyc by lia. subst P. rewrite rrev_rev. reflexivity.
Qed.

(* ------------------------------------------------------------------ *)
(* simulation                                                           *)
(* ------------------------------------------------------------------ *)

Section Sim.
Variable rdict : list Z.
Variables klen dstlen : Z.
Hypothesis Hklen : klen = len rdict.

(* result relation: same decision; the decoded bytes, then junk up to the destination's length *)
Definition Rres (d : dres) (o : option (list Z)) : Prop :=
  match d, o with
  | DOk n dst', Some r => n = len r /\ exists junk, dst' = rev r ++ junk /\ len r + len junk = dstlen
  | DErr, None => True
  | _, _ => False
  end.

(* loop-head invariant of the zipper *)
Definition Inv (rout rest : list Z) (di : Z) : Prop := di = len rout /\ len rout + len rest = dstlen.

Definition SimAt (f : nat) : Prop := forall s rout rest di, bytes s -> Inv rout rest di ->
  Rres (dec_a rdict klen dstlen f s rout rest di) (sdecx f s rdict rout klen di dstlen).

Lemma Rres_end rout rest di : Inv rout rest di -> Rres (DOk di (rev_append rout rest)) (Some rout).
Proof.
  intros [Hd Hl]. cbn [Rres]. split; [exact Hd|].
  exists rest. split; [apply rev_append_rev|exact Hl].
Qed.

Lemma klen_nonneg : 0 <= klen.
Proof. rewrite Hklen. apply len_nonneg. Qed.

(* match_len_loop_pre .. loopcheck, against the specification's handling of the match *)
Lemma match_tail f : SimAt f -> forall s3 rout2 rest2 di2 mnib offset,
  bytes s3 -> Inv rout2 rest2 di2 -> 0 <= mnib -> 0 < offset ->
  Rres
    (match match_a rdict klen dstlen s3 rout2 rest2 di2 mnib offset with
     | None => DErr
     | Some (s4, rout3, rest3, di3) => dec_a rdict klen dstlen f s4 rout3 rest3 di3
     end)
    (match read_len mnib s3 with
     | None => None
     | Some (ml, r4) =>
       if dstlen <? di2 + (ml + 4) then None else
       match copy_fast (ml + 4) rdict rout2 klen di2 offset with
       | None => None
       | Some rout3 => sdecx f r4 rdict rout3 klen (di2 + (ml + 4)) dstlen
       end
     end).
Proof.
  intros IH s3 rout2 rest2 di2 mnib offset Hb [Hdi Hlen] Hmn Hoff.
  pose proof klen_nonneg as Hk0.
  unfold match_a, lz4block_minMatch.
  destruct (read_len mnib s3) as [[ml s4]|] eqn:Erl; [|exact I].
  destruct (read_len_ok _ _ _ _ Hb Hmn Erl) as [Hml Hb4].
  cbn zeta.
  destruct (dstlen <? di2 + (ml + 4)) eqn:E1; [exact I|].
  assert (Hexact : Rres
    (match
       match copy_fast (ml + 4) rdict rout2 klen di2 offset with
       | None => None
       | Some rout' => Some (s4, rout', skipn (Z.to_nat (ml + 4)) rest2, di2 + (ml + 4))
       end
     with
     | None => DErr
     | Some (s5, rout3, rest3, di3) => dec_a rdict klen dstlen f s5 rout3 rest3 di3
     end)
    (match copy_fast (ml + 4) rdict rout2 klen di2 offset with
     | None => None
     | Some rout3 => sdecx f s4 rdict rout3 klen (di2 + (ml + 4)) dstlen
     end)).
  { destruct (copy_fast (ml + 4) rdict rout2 klen di2 offset) as [rout'|] eqn:Ecf; [|exact I].
    apply IH; [exact Hb4|]. subst di2.
    pose proof (copy_fast_len rdict rout2 klen (ml + 4) offset rout' Hklen ltac:(lia) Ecf) as Hl'.
    split; [lia|]. rewrite Hl'. lens. }
  destruct ((di2 <=? offset) || (offset <=? ml + 4)) eqn:E2; [exact Hexact|].
  destruct ((ml + 4 <=? 16) && (16 <=? dstlen - di2)) eqn:E3; [|exact Hexact].
  clear Hexact. subst di2.
  destruct (interior_ok rout2 rest2 (ml + 4) offset) as (rest' & Htr & Hlr); try lia.
  rewrite Htr. rewrite copy_fast_hist by lia.
  apply IH; [exact Hb4|]. split; lens.
Qed.

Lemma bytes_cons2 o1 o2 s : bytes (o1 :: o2 :: s) -> 0 <= o1 + 256 * o2 /\ bytes s.
Proof.
  intros H. inversion H as [|? ? H1 H']; subst. inversion H' as [|? ? H2 H'']; subst.
  unfold is_byte in *. split; [lia|assumption].
Qed.

(* one round of the loop *)
Lemma sim_step f : SimAt f -> SimAt (S f).
Proof.
  intros IH s rout rest di Hb [Hdi Hlen].
  pose proof klen_nonneg as Hk0.
  destruct s as [|tok s1].
  { cbn [dec_a sdecx]. apply Rres_end. split; assumption. }
  inversion Hb as [|? ? Htok Hb1]. subst x l.
  unfold is_byte in Htok.
  assert (Hlit : 0 <= tok / 16 <= 15) by (Z.div_mod_to_equations; lia).
  assert (Hmn : 0 <= tok mod 16 <= 15) by (Z.div_mod_to_equations; lia).
  cbn [dec_a sdecx].
  set (lit := tok / 16) in *. set (mnib := tok mod 16) in *.
  clearbody lit mnib.
  destruct (negb (lit =? 15) && (di + 32 <? dstlen) && longer_than 16 s1) eqn:Esc.
  - (* shortcut: 0..14 literals, 16-byte move *)
    rewrite longer_than_spec in Esc.
    assert (Hl15 : lit <> 15) by lia.
    assert (Hroom : di + 32 < dstlen) by lia.
    assert (Hs1 : (16 < length s1)%nat) by lia.
    unfold read_len at 1. replace (lit =? 15) with false by lia.
    replace (dstlen <? di + lit) with false by lia.
    rewrite (take_rev_ok s1 lit rout) by lens.
    rewrite (take_rev_ok (overwrite (firstn 16 s1) rest) lit rout) by lens.
    rewrite firstn_overwrite_firstn by lens.
    set (rout2 := rev_append (firstn (Z.to_nat lit) s1) rout).
    set (rest2 := skipn (Z.to_nat lit) (overwrite (firstn 16 s1) rest)).
    assert (Hinv2 : Inv rout2 rest2 (di + lit)) by (subst rout2 rest2; split; lens).
    pose proof (bytes_skipn (Z.to_nat lit) s1 Hb1) as Hbs.
    destruct (skipn (Z.to_nat lit) s1) as [|o1 [|o2 s3]] eqn:Esk;
      [exfalso; apply (f_equal (@length Z)) in Esk; lens
      |exfalso; apply (f_equal (@length Z)) in Esk; lens|].
    destruct (bytes_cons2 _ _ _ Hbs) as [Hoff0 Hb3].
    set (offset := o1 + 256 * o2) in *. clearbody offset.
    destruct (offset =? 0) eqn:E0; [exact I|].
    destruct ((mnib =? 15) || (offset <? 8) || (di + lit <? offset)) eqn:Em.
    + apply match_tail; [exact IH|exact Hb3|exact Hinv2|lia|lia].
    + (* 8+8+2-byte move *)
      unfold read_len. replace (mnib =? 15) with false by lia.
      unfold lz4block_minMatch.
      replace (dstlen <? di + lit + (mnib + 4)) with false by lia.
      destruct Hinv2 as [Hdi2 Hlen2].
      destruct (short_match_ok rdict klen rout2 rest2 (mnib + 4) offset)
        as (rout3 & rest3 & Htr & Hcf & Hl3); try lia.
      rewrite Htr. rewrite Hdi2, Hcf.
      replace (len rout2 + mnib + 4) with (len rout2 + (mnib + 4)) by lia.
      apply IH; [exact Hb3|].
      pose proof (copy_fast_len rdict rout2 klen (mnib + 4) offset rout3 Hklen ltac:(lia) Hcf).
      split; lia.
  - (* general path *)
    clear Esc.
    change (if lit =? 15 then read_ext s1 15 else Some (lit, s1)) with (read_len lit s1).
    destruct (read_len lit s1) as [[ll s2]|] eqn:Erl; [|exact I].
    destruct (read_len_ok lit s1 ll s2 Hb1 ltac:(lia) Erl) as [Hll Hb2].
    destruct (dstlen <? di + ll) eqn:Ecap; [exact I|].
    destruct (Z_lt_le_dec (len s2) ll) as [Hshort|Hfit].
    { rewrite !take_rev_short by assumption. exact I. }
    rewrite (take_rev_ok s2 ll []), (take_rev_ok s2 ll rout) by lia.
    set (src' := if (ll <=? 48) && (48 <=? dstlen - di) && longer_than 47 s2
                 then firstn 48 s2 else firstn (Z.to_nat ll) s2).
    assert (Hsrc : firstn (Z.to_nat ll) (overwrite src' rest) = firstn (Z.to_nat ll) s2).
    { subst src'.
      destruct ((ll <=? 48) && (48 <=? dstlen - di) && longer_than 47 s2) eqn:Ew.
      - rewrite longer_than_spec in Ew. apply firstn_overwrite_firstn; lens.
      - apply firstn_overwrite_firstn; lens. }
    rewrite (take_rev_ok (overwrite src' rest) ll rout) by lens.
    rewrite Hsrc.
    set (rout2 := rev_append (firstn (Z.to_nat ll) s2) rout).
    set (rest2 := skipn (Z.to_nat ll) (overwrite src' rest)).
    assert (Hinv2 : Inv rout2 rest2 (di + ll)) by (subst rout2 rest2; split; lens).
    pose proof (bytes_skipn (Z.to_nat ll) s2 Hb2) as Hbs.
    destruct (skipn (Z.to_nat ll) s2) as [|o1 [|o2 s4]] eqn:Esk.
    + destruct (mnib =? 0); [apply Rres_end; exact Hinv2|exact I].
    + exact I.
    + destruct (bytes_cons2 _ _ _ Hbs) as [Hoff0 Hb4].
      set (offset := o1 + 256 * o2) in *. clearbody offset.
      destruct (offset =? 0) eqn:E0; [exact I|].
      apply match_tail; [exact IH|exact Hb4|exact Hinv2|lia|lia].
Qed.

Lemma sim : forall f, SimAt f.
Proof.
  induction f as [|f IH]; [|apply sim_step; exact IH].
  intros s rout rest di _ _. exact I.
Qed.

End Sim.

(* ------------------------------------------------------------------ *)
(* the assembly decoder model refines the block-format specification    *)
(* ------------------------------------------------------------------ *)

Theorem asm_refines_spec : forall src dst0 dict, bytes src ->
  match decode_asm src dst0 dict, spec_decode_x src dict (len dst0) with
  | DOk n dst', Some out => n = len out /\ firstn (length out) dst' = out /\ length dst' = length dst0
  | DErr, None => True
  | _, _ => False
  end.
Proof.
  intros src dst0 dict Hb.
  unfold decode_asm, spec_decode_x.
  destruct src as [|tok s1]; [exact I|].
  set (src := tok :: s1) in *.
  assert (Hk : len dict = len (rrev dict)) by lens.
  assert (Hinv : Inv (len dst0) [] dst0 0) by (split; lens).
  pose proof (sim (rrev dict) (len dict) (len dst0) Hk (S (length src)) src [] dst0 0 Hb Hinv) as H.
  destruct (dec_a (rrev dict) (len dict) (len dst0) (S (length src)) src [] dst0 0) as [n dst'|];
    destruct (sdecx (S (length src)) src (rrev dict) [] (len dict) 0 (len dst0)) as [r|];
    cbn [Rres option_map] in *; try contradiction; try exact I.
  destruct H as (Hn & junk & Hdst & Hlen).
  rewrite rrev_rev. subst dst' n.
  split; [lens|]. split.
  - rewrite firstn_app, Nat.sub_diag, firstn_all. cbn [firstn]. apply app_nil_r.
  - lens.
Qed.

Print Assumptions asm_refines_spec.
