(* CReaderProofs.v — proofs of the CompressingReader statements of FrameTheoremsSpec.v (C18).

   Main results (all closed under the global context):
   - creader : creader_stmt                              (as stated)
   - creader_complete : creader_complete_stmt            (as stated)
   - creader_fixed : creader_fixed_stmt                  (creader_stmt for ANY legacy flag, with the progress
       clause guarded by ~ (fo_legacy (c_fo c) = true /\ data <> [] /\ len data mod bsz_of (c_fo c) = 0))
   - creader_modern : the five clauses under fo_legacy (c_fo c) = false.
   new_creader never yields a legacy frame (LegacyOption is not applicable to a CompressingReader:
   new_creader_props), so creader follows from creader_modern.  The guard in creader_fixed records
   why this matters: with a legacy frame (no end mark) whose data is a positive whole number of
   blocks, a Read whose buffer ends exactly at the last block leaves the state Reading with nothing
   left, and the next Read would return (0, nil).
   0 < bsz_of (c_fo c) is derived from new_creader (not assumed): part 1. *)
From Coq Require Import ZifyBool.
From LZ4V Require Import Base GenBlock GenStream GenLz4 XXH32 BlockFormat BlockExec CompressFast FrameSpec FrameImpl Writer Reader CReader FrameTheoremsSpec.

Ltac Zify.zify_post_hook ::= Z.div_mod_to_equations.

(* ---------- part 1: the block size selected by NewCompressingReader's options is positive ---------- *)

Definition bidx (x : Z) : Z := lz4stream_DescriptorFlags_BlockSizeIndex x.
Definition inr (x : Z) : bool := (0 <=? x) && (x <? 65536).
Definition vidx (v : Z) : bool := (3 <=? v) && (v <=? 7).

(* one flags word: every setter keeps the word in 16 bits and leaves the block-size index alone
   (or sets it); checked exhaustively over the 65536 words *)
Definition flags_check (x : Z) : bool :=
  forallb (fun b =>
    inr (lz4stream_DescriptorFlags_BlockChecksumSet x b) && (bidx (lz4stream_DescriptorFlags_BlockChecksumSet x b) =? bidx x) &&
    inr (lz4stream_DescriptorFlags_ContentChecksumSet x b) && (bidx (lz4stream_DescriptorFlags_ContentChecksumSet x b) =? bidx x) &&
    inr (lz4stream_DescriptorFlags_SizeSet x b) && (bidx (lz4stream_DescriptorFlags_SizeSet x b) =? bidx x)) [true; false] &&
  forallb (fun v =>
    inr (lz4stream_DescriptorFlags_BlockSizeIndexSet x v) && (bidx (lz4stream_DescriptorFlags_BlockSizeIndexSet x v) =? v)) [3; 4; 5; 6; 7] &&
  (bidx (lz4stream_DescriptorFlags_BlockIndependenceSet (lz4stream_DescriptorFlags_VersionSet x 1) true) =? bidx x).

Fixpoint allz (n : nat) (x : Z) (f : Z -> bool) : bool :=
  match n with O => true | S m => f x && allz m (x + 1) f end.
Lemma allz_ok f : forall n x, allz n x f = true -> forall y, x <= y < x + Z.of_nat n -> f y = true.
Proof.
  induction n as [|n IH]; intros x H y Hy; [lia|].
  cbn [allz] in H. apply andb_prop in H. destruct H as [H1 H2].
  destruct (Z.eq_dec y x) as [->|Hne]; [exact H1|].
  apply (IH (x + 1) H2). lia.
Qed.

Lemma flags_check_all : allz (Z.to_nat 65536) 0 flags_check = true.
Proof. vm_cast_no_check (eq_refl true). Qed.

Lemma flags_check_ok x : inr x = true -> flags_check x = true.
Proof.
  intros Hx. unfold inr in Hx.
  apply (allz_ok _ _ _ flags_check_all). rewrite Z2Nat.id; lia.
Qed.

Definition fl_ok (x : Z) : Prop := inr x = true /\ vidx (bidx x) = true.

Lemma index_valid size : lz4block_BlockSizeIndex_IsValid (lz4block_Index size) = true -> In (lz4block_Index size) [3; 4; 5; 6; 7].
Proof.
  unfold lz4block_Index. intros H.
  destruct (size =? 65536); [cbn; tauto|].
  destruct (size =? 262144); [cbn; tauto|].
  destruct (size =? 1048576); [cbn; tauto|].
  destruct (size =? 4194304); [cbn; tauto|].
  destruct (size =? 8388608); [cbn; tauto|]. discriminate H.
Qed.

Lemma apply_opt_fl_ok w o w1 : fl_ok (fo_flags (w_opts w)) -> apply_opt w o = (w1, ENil) -> fl_ok (fo_flags (w_opts w1)).
Proof.
  intros [Hr Hi] H. pose proof (flags_check_ok _ Hr) as Hc.
  unfold flags_check in Hc. rewrite !andb_true_iff in Hc. destruct Hc as [[Hb Hv] _].
  rewrite forallb_forall in Hb, Hv.
  destruct o as [size|b|b|n|l|n|b]; cbn [apply_opt] in H.
  - destruct (lz4block_BlockSizeIndex_IsValid (lz4block_Index size)) eqn:Ev; [|discriminate H].
    injection H as <-. cbn [w_opts fo_flags].
    specialize (Hv _ (index_valid _ Ev)). rewrite !andb_true_iff in Hv. destruct Hv as [Hv1 Hv2].
    split; [exact Hv1|]. apply Z.eqb_eq in Hv2. rewrite Hv2.
    pose proof (index_valid _ Ev) as Hin. cbn [In] in Hin. unfold vidx. lia.
  - injection H as <-. cbn [w_opts fo_flags].
    assert (Hin : In b [true; false]) by (destruct b; cbn; tauto).
    specialize (Hb _ Hin). rewrite !andb_true_iff in Hb.
    destruct Hb as [[[[[H1 H2] H3] H4] H5] H6].
    split; [exact H1|]. apply Z.eqb_eq in H2. rewrite H2. exact Hi.
  - injection H as <-. cbn [w_opts fo_flags].
    assert (Hin : In b [true; false]) by (destruct b; cbn; tauto).
    specialize (Hb _ Hin). rewrite !andb_true_iff in Hb.
    destruct Hb as [[[[[H1 H2] H3] H4] H5] H6].
    split; [exact H3|]. apply Z.eqb_eq in H4. rewrite H4. exact Hi.
  - injection H as <-. cbn [w_opts fo_flags].
    assert (Hin : In (0 <? n) [true; false]) by (destruct (0 <? n); cbn; tauto).
    specialize (Hb _ Hin). rewrite !andb_true_iff in Hb.
    destruct Hb as [[[[[H1 H2] H3] H4] H5] H6].
    split; [exact H5|]. apply Z.eqb_eq in H6. rewrite H6. exact Hi.
  - destruct (valid_level l); [|discriminate H]. injection H as <-. cbn [w_opts fo_flags]. split; assumption.
  - injection H as <-. cbn [w_opts fo_flags]. split; assumption.
  - injection H as <-. cbn [w_opts fo_flags]. split; assumption.
Qed.

(* only LegacyOption touches the legacy flag *)
Lemma apply_opt_legacy w o w1 e : (forall b, o <> OLegacy b) -> apply_opt w o = (w1, e) ->
  fo_legacy (w_opts w1) = fo_legacy (w_opts w).
Proof.
  intros Hno H. destruct o as [size|b|b|n|l|n|b]; cbn [apply_opt] in H.
  - destruct (lz4block_BlockSizeIndex_IsValid (lz4block_Index size)); injection H as <- <-; reflexivity.
  - injection H as <- <-; reflexivity.
  - injection H as <- <-; reflexivity.
  - injection H as <- <-; reflexivity.
  - destruct (valid_level l); injection H as <- <-; reflexivity.
  - injection H as <- <-; reflexivity.
  - exfalso. exact (Hno b eq_refl).
Qed.

(* the option loop of the CompressingReader's Apply: LegacyOption and ConcurrencyOption are not applicable *)
Fixpoint apply_go (w : writer) (os : list wopt) : writer * ecls :=
  match os with
  | [] => (w, ENil)
  | OLegacy _ :: _ | OConcurrency _ :: _ => (w, ENotApp)
  | o :: r => let '(w1, e) := apply_opt w o in match e with ENil => apply_go w1 r | _ => (w1, e) end
  end.

Lemma apply_go_fl_ok os : forall w w1, fl_ok (fo_flags (w_opts w)) -> apply_go w os = (w1, ENil) ->
  fl_ok (fo_flags (w_opts w1)) /\ fo_legacy (w_opts w1) = fo_legacy (w_opts w).
Proof.
  induction os as [|o r IH]; intros w w1 Hok H.
  - cbn [apply_go] in H. injection H as <-. split; [exact Hok|reflexivity].
  - assert (Hstep : forall (Hno : forall b, o <> OLegacy b),
              (let '(w', e) := apply_opt w o in match e with ENil => apply_go w' r | _ => (w', e) end) = (w1, ENil) ->
              fl_ok (fo_flags (w_opts w1)) /\ fo_legacy (w_opts w1) = fo_legacy (w_opts w)).
    { intros Hno H'. destruct (apply_opt w o) as [w' e] eqn:Ea. destruct e; try discriminate H'.
      destruct (IH w' w1 (apply_opt_fl_ok w o w' Hok Ea) H') as [H1 H2].
      split; [exact H1|]. rewrite H2. exact (apply_opt_legacy w o w' ENil Hno Ea). }
    destruct o as [size|b|b|n|l|n|b]; cbn [apply_go] in H; try discriminate H;
      apply Hstep; try exact H; intros b'; discriminate.
Qed.

Lemma bsize_pos v : vidx v = true -> 0 < bsize_of_idx v.
Proof.
  unfold vidx. intros H.
  assert (Hc : v = 3 \/ v = 4 \/ v = 5 \/ v = 6 \/ v = 7) by lia.
  destruct Hc as [->|[->|[->|[->| ->]]]]; vm_compute; reflexivity.
Qed.

Lemma bsz_of_pos o : fl_ok (fo_flags o) -> 0 < bsz_of o.
Proof.
  intros [Hr Hi]. unfold bsz_of. apply bsize_pos.
  pose proof (flags_check_ok _ Hr) as Hc.
  unfold flags_check in Hc. rewrite !andb_true_iff in Hc. destruct Hc as [[Hb Hv] Hw].
  unfold initw_flags. destruct (fo_legacy o).
  - rewrite forallb_forall in Hv. specialize (Hv 3). rewrite !andb_true_iff in Hv.
    destruct Hv as [_ Hv]; [cbn; tauto|]. apply Z.eqb_eq in Hv.
    change (lz4block_Index lz4block_Block8Mb) with 3. fold (bidx (lz4stream_DescriptorFlags_BlockSizeIndexSet (fo_flags o) 3)).
    rewrite Hv. reflexivity.
  - apply Z.eqb_eq in Hw. unfold bidx in Hw at 1. rewrite Hw. exact Hi.
Qed.

Definition cr_w1 : writer := fst (apply_go (mkw lz4_newState ENil (mkfo 0 0 lz4_Fast false) 0 0 [] [] (mksink [] 0 0) []) [OBlockSize lz4_Block4Mb; OChecksum true]).
Definition cr_w1' : writer :=
  mkw (w_state cr_w1) (w_serr cr_w1) (mkfo (lz4stream_DescriptorFlags_SizeSet (fo_flags (w_opts cr_w1)) false) 0 (fo_level (w_opts cr_w1)) (fo_legacy (w_opts cr_w1))) 0 0 [] [] (mksink [] 0 0) [].
Lemma new_creader_eq s os : new_creader s os =
  let '(w2, e) := match os with [] => (cr_w1, ENil) | _ => apply_go cr_w1' os end in
  (mkcr CrInitial (w_opts w2) s [] [], e).
Proof. reflexivity. Qed.

Lemma new_creader_props data os c : new_creader (src_of data) os = (c, ENil) ->
  c_st c = CrInitial /\ c_src c = src_of data /\ c_ov c = [] /\ fl_ok (fo_flags (c_fo c)) /\ fo_legacy (c_fo c) = false.
Proof.
  rewrite new_creader_eq.
  destruct os as [|o r].
  - intros H. injection H as <-. cbn [c_st c_src c_ov c_fo w_opts fo_flags]. repeat split; vm_compute; reflexivity.
  - destruct (apply_go _ (o :: r)) as [w2 e] eqn:E2.
    intros H. injection H as <- ->. cbn [c_st c_src c_ov c_fo].
    split; [reflexivity|split; [reflexivity|split; [reflexivity|]]].
    apply (apply_go_fl_ok (o :: r) cr_w1' w2); [|exact E2]. split; vm_compute; reflexivity.
Qed.

(* ---------- part 2: lists, the overflow writer, the source ---------- *)

Lemma take_upto_spec : forall l n acc,
  take_upto n l acc = (rev acc ++ firstn (Z.to_nat n) l, skipn (Z.to_nat n) l).
Proof.
  induction l as [|x l IH]; intros n acc.
  - cbn [take_upto]. rewrite firstn_nil, skipn_nil, app_nil_r, rrev_rev. destruct (n <=? 0); reflexivity.
  - cbn [take_upto]. destruct (n <=? 0) eqn:En.
    + replace (Z.to_nat n) with 0%nat by lia. cbn [firstn skipn]. rewrite app_nil_r, rrev_rev. reflexivity.
    + rewrite IH. replace (Z.to_nat n) with (S (Z.to_nat (n - 1))) by lia.
      cbn [firstn skipn rev]. rewrite <- app_assoc. reflexivity.
Qed.

Lemma len_firstn {A} n (l : list A) : len (firstn n l) = Z.min (Z.of_nat n) (len l).
Proof. unfold len. rewrite firstn_length. lia. Qed.
Lemma len_skipn {A} n (l : list A) : len (skipn n l) = Z.max 0 (len l - Z.of_nat n).
Proof. unfold len. rewrite skipn_length. lia. Qed.

Lemma skipn_app' {A} n (l1 l2 : list A) : skipn n (l1 ++ l2) = skipn n l1 ++ skipn (n - length l1) l2.
Proof. apply skipn_app. Qed.

(* the caller's buffer and the overflow are the two parts of everything written so far, cut at k *)
Lemma ov_write_cut k l w : 0 <= k ->
  ov_write k (firstn (Z.to_nat k) l) (skipn (Z.to_nat k) l) w =
  (firstn (Z.to_nat k) (l ++ w), skipn (Z.to_nat k) (l ++ w)).
Proof.
  intros Hk. unfold ov_write. rewrite take_upto_spec. cbn [rev app].
  rewrite firstn_app, skipn_app.
  replace (Z.to_nat (k - len (firstn (Z.to_nat k) l))) with (Z.to_nat k - length l)%nat
    by (rewrite len_firstn; unfold len; lia).
  reflexivity.
Qed.

Lemma ov_writes_cut k ws : 0 <= k -> forall l,
  ov_writes k (firstn (Z.to_nat k) l) (skipn (Z.to_nat k) l) ws =
  (firstn (Z.to_nat k) (l ++ concat ws), skipn (Z.to_nat k) (l ++ concat ws)).
Proof.
  intros Hk. induction ws as [|w r IH]; intros l; cbn [ov_writes concat].
  - rewrite app_nil_r. reflexivity.
  - rewrite ov_write_cut by exact Hk. rewrite IH. rewrite <- app_assoc. reflexivity.
Qed.

(* io.ReadFull on a fault-free source *)
Lemma read_full_ff s n : s_fail s = 0 -> 0 < n -> exists s1, s_fail s1 = 0 /\
  ((s_rem s = [] /\ read_full s n = ([], EEOF, s1) /\ s_rem s1 = []) \/
   (n <= len (s_rem s) /\ read_full s n = (firstn (Z.to_nat n) (s_rem s), ENil, s1) /\ s_rem s1 = skipn (Z.to_nat n) (s_rem s)) \/
   (0 < len (s_rem s) < n /\ read_full s n = (s_rem s, EUEOF, s1) /\ s_rem s1 = [])).
Proof.
  intros Hf Hn. unfold read_full. rewrite Hf.
  destruct (n <=? 0) eqn:En; [lia|]. change (0 <? 0) with false. cbn [andb].
  destruct (s_rem s) as [|x r] eqn:Er.
  - eexists. split; [|left; split; [reflexivity|split; [reflexivity|]]]; reflexivity.
  - rewrite take_upto_spec. cbn [rev app].
    destruct (len (firstn (Z.to_nat n) (x :: r)) =? n) eqn:Eg.
    + eexists. split; [|right; left; split; [|split; [reflexivity|]]]; [reflexivity| |reflexivity].
      rewrite len_firstn in Eg. lia.
    + rewrite len_firstn in Eg.
      assert (Hlt : len (x :: r) < n) by lia.
      assert (Hfn : firstn (Z.to_nat n) (x :: r) = x :: r) by (apply firstn_all2; unfold len in Hlt; lia).
      assert (Hsn : skipn (Z.to_nat n) (x :: r) = []) by (apply skipn_all2; unfold len in Hlt; lia).
      rewrite Hfn, Hsn.
      eexists. split; [|right; right; split; [|split; [reflexivity|]]]; [reflexivity| |reflexivity].
      rewrite len_cons in *. pose proof (len_nonneg r). lia.
Qed.

(* ---------- part 3: the frame as a function of what remains in the source ---------- *)

Lemma chunks_nil f bsz : chunks f bsz [] = [].
Proof. destruct f; reflexivity. Qed.

Lemma chunks_fuel bsz : 0 < bsz -> forall f1 f2 l, (length l <= f1)%nat -> (length l <= f2)%nat ->
  chunks f1 bsz l = chunks f2 bsz l.
Proof.
  intros Hb. induction f1 as [|f1 IH]; intros f2 l H1 H2.
  - destruct l; [|cbn [length] in H1; lia]. rewrite !chunks_nil. reflexivity.
  - destruct f2 as [|f2]; [destruct l; [|cbn [length] in H2; lia]; rewrite !chunks_nil; reflexivity|].
    destruct l as [|x l]; [reflexivity|].
    cbn [chunks]. destruct (len (x :: l) <=? bsz); [reflexivity|].
    f_equal. apply IH; rewrite skipn_length; cbn [length] in *; lia.
Qed.

Definition blocks (fo : fopts) (ds : list (list Z)) : list Z := concat (flat_map (block_writes fo) ds).
Lemma blocks_cons fo d ds : blocks fo (d :: ds) = concat (block_writes fo d) ++ blocks fo ds.
Proof. unfold blocks. cbn [flat_map]. apply concat_app. Qed.
Lemma blocks_nil fo : blocks fo [] = [].
Proof. reflexivity. Qed.

(* blocks and end of frame for a source holding rem after pre has been consumed *)
Definition tailf (fo : fopts) (pre rem : list Z) : list Z :=
  blocks fo (chunks (S (length rem)) (bsz_of fo) rem) ++ concat (close_writes fo (pre ++ rem)).

Lemma frame_encode_tailf fo data : frame_encode fo data = header_bytes fo ++ tailf fo [] data.
Proof.
  unfold frame_encode, frame_of_segments, tailf, blocks. cbn [flat_map concat app]. rewrite !app_nil_r. reflexivity.
Qed.

Lemma tailf_nil fo pre : tailf fo pre [] = concat (close_writes fo pre).
Proof. unfold tailf. cbn [length chunks]. rewrite blocks_nil, app_nil_r. reflexivity. Qed.

Lemma tailf_short fo pre rem : 0 < len rem <= bsz_of fo ->
  tailf fo pre rem = concat (block_writes fo rem) ++ concat (close_writes fo (pre ++ rem)).
Proof.
  intros H. unfold tailf. destruct rem as [|x r]; [unfold len in H; cbn [length] in H; lia|].
  cbn [chunks]. destruct (len (x :: r) <=? bsz_of fo) eqn:E; [|lia].
  rewrite blocks_cons, blocks_nil, app_nil_r. reflexivity.
Qed.

Lemma tailf_full fo pre rem : 0 < bsz_of fo -> bsz_of fo <= len rem ->
  tailf fo pre rem = concat (block_writes fo (firstn (Z.to_nat (bsz_of fo)) rem)) ++
                     tailf fo (pre ++ firstn (Z.to_nat (bsz_of fo)) rem) (skipn (Z.to_nat (bsz_of fo)) rem).
Proof.
  intros Hb H.
  assert (Hc : pre ++ rem = (pre ++ firstn (Z.to_nat (bsz_of fo)) rem) ++ skipn (Z.to_nat (bsz_of fo)) rem)
    by (rewrite <- app_assoc, firstn_skipn; reflexivity).
  destruct (Z.eq_dec (len rem) (bsz_of fo)) as [He|Hne].
  - rewrite tailf_short by lia.
    assert (Hfn : firstn (Z.to_nat (bsz_of fo)) rem = rem) by (apply firstn_all2; unfold len in He; lia).
    assert (Hsn : skipn (Z.to_nat (bsz_of fo)) rem = []) by (apply skipn_all2; unfold len in He; lia).
    rewrite Hfn, Hsn, tailf_nil. reflexivity.
  - unfold tailf at 1. destruct rem as [|x r]; [rewrite len_nil in H; lia|].
    cbn [chunks]. destruct (len (x :: r) <=? bsz_of fo) eqn:E; [lia|].
    rewrite blocks_cons, <- app_assoc. f_equal. unfold tailf. rewrite <- Hc. f_equal. f_equal.
    apply chunks_fuel; [exact Hb| |lia].
    rewrite skipn_length. cbn [length]. lia.
Qed.

Definition ccflag (fo : fopts) : bool := lz4stream_DescriptorFlags_ContentChecksum (initw_flags fo).
Definition cont (fo : fopts) (d : list Z) : list Z := if ccflag fo then d else [].

Lemma close_cont fo d : close_writes fo (cont fo d) = close_writes fo d.
Proof.
  unfold close_writes, cont, ccflag. destruct (fo_legacy fo); [reflexivity|].
  destruct (lz4stream_DescriptorFlags_ContentChecksum (initw_flags fo)); reflexivity.
Qed.
Lemma cont_app fo pre got :
  (if lz4stream_DescriptorFlags_ContentChecksum (initw_flags fo) then cont fo pre ++ got else cont fo pre) = cont fo (pre ++ got).
Proof. unfold cont, ccflag. destruct (lz4stream_DescriptorFlags_ContentChecksum (initw_flags fo)); reflexivity. Qed.
Lemma cont_nil fo : cont fo [] = [].
Proof. unfold cont. destruct (ccflag fo); reflexivity. Qed.

Lemma block_nonempty fo d : concat (block_writes fo d) <> [].
Proof.
  unfold block_writes.
  destruct (match compress_level (fo_level fo) d _ with COk b => _ | _ => _ end) as [word dat].
  cbn [app concat le32_bytes]. discriminate.
Qed.
Lemma close_nonempty fo d : fo_legacy fo = false -> concat (close_writes fo d) <> [].
Proof. intros Hl. unfold close_writes. rewrite Hl. cbn [concat app]. discriminate. Qed.
Lemma header_nonempty fo : header_bytes fo <> [].
Proof. unfold header_bytes, le32_bytes. cbn [app]. discriminate. Qed.

(* ---------- part 4: the reading loop ---------- *)

Definition rest_of (fo : fopts) (c : creader) (pre : list Z) : list Z :=
  match c_st c with
  | CrInitial => header_bytes fo ++ tailf fo [] (s_rem (c_src c))
  | CrReading => tailf fo pre (s_rem (c_src c))
  | _ => []
  end.

Lemma cr_loop_S f c k pbuf ov : cr_loop (S f) c k pbuf ov =
  let '(got, e, s1) := read_full (c_src c) (bsz_of (c_fo c)) in
  let add_block (c : creader) (pbuf ov : list Z) :=
    let content := if lz4stream_DescriptorFlags_ContentChecksum (initw_flags (c_fo c)) then c_content c ++ got else c_content c in
    let '(p1, o1) := ov_writes k pbuf ov (block_writes (c_fo c) got) in
    (mkcr (c_st c) (c_fo c) s1 content (c_ov c), p1, o1) in
  match e with
  | ENil =>
    let '(c1, p1, o1) := add_block c pbuf ov in
    if len p1 =? k then (mkcr (c_st c1) (c_fo c1) (c_src c1) (c_content c1) o1, p1, ENil)
    else cr_loop f c1 k p1 o1
  | EEOF | EUEOF =>
    let '(c1, p1, o1) := match got with [] => (mkcr (c_st c) (c_fo c) s1 (c_content c) (c_ov c), pbuf, ov) | _ => add_block c pbuf ov end in
    let '(p2, o2) := ov_writes k p1 o1 (close_writes (c_fo c1) (c_content c1)) in
    (mkcr CrFlushing (c_fo c1) (c_src c1) (c_content c1) o2, p2, ENil)
  | _ => (mkcr CrDone (c_fo c) s1 (c_content c) ov, [], e)
  end.
Proof. reflexivity. Qed.

Opaque block_writes close_writes header_bytes bsz_of.

Lemma cr_loop_spec fo k data : 0 < bsz_of fo -> 0 <= k -> forall fuel c acc pre,
  c_fo c = fo -> s_fail (c_src c) = 0 -> (length (s_rem (c_src c)) < fuel)%nat ->
  c_content c = cont fo pre -> c_st c = CrReading ->
  data = pre ++ s_rem (c_src c) -> len pre mod bsz_of fo = 0 ->
  exists c' x pre',
    cr_loop fuel c k (firstn (Z.to_nat k) acc) (skipn (Z.to_nat k) acc) = (c', firstn (Z.to_nat k) (acc ++ x), ENil) /\
    c_ov c' = skipn (Z.to_nat k) (acc ++ x) /\ c_fo c' = fo /\ s_fail (c_src c') = 0 /\
    x ++ rest_of fo c' pre' = tailf fo pre (s_rem (c_src c)) /\
    ((c_st c' = CrReading /\ c_content c' = cont fo pre' /\ x <> [] /\
      data = pre' ++ s_rem (c_src c') /\ len pre' mod bsz_of fo = 0 /\ pre' <> []) \/
     (c_st c' = CrFlushing /\ (x <> [] \/ (fo_legacy fo = true /\ s_rem (c_src c) = [])))).
Proof.
  intros Hb Hk. induction fuel as [|f IH]; intros c acc pre Hfo Hff Hfuel Hcont Hst Hdata Hal; [lia|].
  rewrite cr_loop_S. rewrite Hfo.
  destruct (read_full_ff (c_src c) (bsz_of fo) Hff Hb) as [s1 [Hf1 [[Hrem [Hrd Hr1]]|[[Hlen [Hrd Hr1]]|[Hlen [Hrd Hr1]]]]]];
    rewrite Hrd; cbv beta iota zeta.
  - (* end of source, nothing read *)
    cbn [c_fo c_content c_src c_st c_ov]. rewrite Hcont, close_cont.
    rewrite ov_writes_cut by exact Hk.
    eexists. exists (concat (close_writes fo pre)), pre.
    split; [reflexivity|]. cbn [c_ov c_fo c_src c_st c_content].
    split; [reflexivity|]. split; [reflexivity|]. split; [exact Hf1|].
    split.
    + unfold rest_of. cbn [c_st]. rewrite Hrem, tailf_nil, app_nil_r. reflexivity.
    + right. split; [reflexivity|].
      destruct (fo_legacy fo) eqn:El; [right; split; [reflexivity|exact Hrem]|left; apply close_nonempty; exact El].
  - (* a full block *)
    rewrite ov_writes_cut by exact Hk. cbv beta iota zeta. cbn [c_st c_fo c_src c_content c_ov].
    rewrite Hfo, Hst, Hcont, cont_app.
    set (got := firstn (Z.to_nat (bsz_of fo)) (s_rem (c_src c))) in *.
    assert (Hgot : len got = bsz_of fo) by (unfold got; rewrite len_firstn; lia).
    assert (Hd1 : data = (pre ++ got) ++ s_rem s1).
    { rewrite Hr1, <- app_assoc. unfold got. rewrite firstn_skipn. exact Hdata. }
    assert (Ha1 : len (pre ++ got) mod bsz_of fo = 0).
    { rewrite len_app, Hgot. rewrite <- Z.add_mod_idemp_l by lia. rewrite Hal. cbn [Z.add]. apply Z_mod_same_full. }
    assert (Hn1 : pre ++ got <> []).
    { intros Habs. apply app_eq_nil in Habs. destruct Habs as [_ Habs]. rewrite Habs in Hgot. unfold len in Hgot. cbn [length] in Hgot. lia. }
    destruct (len (firstn (Z.to_nat k) (acc ++ concat (block_writes fo got))) =? k) eqn:Efull.
    + eexists. exists (concat (block_writes fo got)), (pre ++ got).
      split; [reflexivity|]. cbn [c_ov c_fo c_src c_st c_content].
      split; [reflexivity|]. split; [reflexivity|]. split; [exact Hf1|].
      split.
      * unfold rest_of. cbn [c_st c_src]. rewrite Hr1. symmetry. apply tailf_full; assumption.
      * left. split; [reflexivity|]. split; [reflexivity|]. split; [apply block_nonempty|].
        split; [exact Hd1|]. split; [exact Ha1|exact Hn1].
    + specialize (IH (mkcr CrReading fo s1 (cont fo (pre ++ got)) (c_ov c)) (acc ++ concat (block_writes fo got)) (pre ++ got)).
      cbn [c_fo c_src c_content c_st] in IH.
      destruct IH as [c' [x [pre' [Hl [Hov [Hfo' [Hff' [Hrest Hcase]]]]]]]]; try reflexivity; try assumption.
      { rewrite Hr1, skipn_length. unfold len in Hlen. lia. }
      exists c', (concat (block_writes fo got) ++ x), pre'.
      rewrite app_assoc. split; [exact Hl|]. split; [exact Hov|]. split; [exact Hfo'|]. split; [exact Hff'|].
      split.
      * rewrite <- app_assoc, Hrest, Hr1. symmetry. apply tailf_full; assumption.
      * assert (Hne : concat (block_writes fo got) ++ x <> []).
        { intros Habs. apply app_eq_nil in Habs. destruct Habs as [Habs _]. exact (block_nonempty _ _ Habs). }
        destruct Hcase as [[H1 [H2 [H3 H4]]]|[H1 H2]]; [left|right]; repeat split; tauto.
  - (* a last short block *)
    destruct (s_rem (c_src c)) as [|y r] eqn:Erem; [unfold len in Hlen; cbn [length] in Hlen; lia|]. rewrite <- Erem in *.
    rewrite ov_writes_cut by exact Hk. cbv beta iota zeta. cbn [c_st c_fo c_src c_content c_ov].
    rewrite Hfo, Hcont, cont_app, close_cont.
    rewrite ov_writes_cut by exact Hk.
    eexists. exists (concat (block_writes fo (s_rem (c_src c))) ++ concat (close_writes fo (pre ++ s_rem (c_src c)))), (pre ++ s_rem (c_src c)).
    rewrite <- app_assoc.
    split; [reflexivity|]. cbn [c_ov c_fo c_src c_st c_content].
    split; [reflexivity|]. split; [reflexivity|]. split; [exact Hf1|].
    split.
    + unfold rest_of. cbn [c_st]. rewrite app_nil_r. symmetry. apply tailf_short. lia.
    + right. split; [reflexivity|]. left.
      intros Habs. apply app_eq_nil in Habs. destruct Habs as [Habs _]. exact (block_nonempty _ _ Habs).
Qed.

(* ---------- part 5: one Read call ---------- *)

Definition wt (c : creader) : Z :=
  match c_st c with CrInitial => 1 | CrReading => 1 | _ => 0 end.

(* delivered so far ++ overflow ++ what the frame writer will still emit = the frame; in the
   Reading state a positive whole number of blocks has been consumed *)
Definition Inv (fo : fopts) (data FE : list Z) (c : creader) (del : list Z) : Prop :=
  c_fo c = fo /\ s_fail (c_src c) = 0 /\ c_st c <> CrDone /\
  (c_st c = CrInitial -> s_rem (c_src c) = data) /\
  exists pre,
    (c_st c = CrReading -> c_content c = cont fo pre /\ data = pre ++ s_rem (c_src c) /\
                           len pre mod bsz_of fo = 0 /\ pre <> []) /\
    del ++ c_ov c ++ rest_of fo c pre = FE.

(* the only way a Read into a non-empty buffer returns (0, nil) *)
Definition corner (fo : fopts) (data : list Z) : Prop :=
  fo_legacy fo = true /\ data <> [] /\ len data mod bsz_of fo = 0.

Lemma firstn_nonempty {A} n (l : list A) : (0 < n)%nat -> l <> [] -> firstn n l <> [].
Proof. intros Hn Hl. destruct n; [lia|]. destruct l; [congruence|]. cbn [firstn]. discriminate. Qed.

Lemma cr_read_spec fo data FE c del k : 0 < bsz_of fo -> 0 <= k -> Inv fo data FE c del ->
  exists c' b e, cr_read c k = (c', b, e) /\ 0 <= len b <= k /\
    ((e = ENil /\ Inv fo data FE c' (del ++ b) /\ wt c' <= wt c /\
      (0 < k -> b <> [] \/ (corner fo data /\ wt c' < wt c))) \/
     (e = EEOF /\ b = [] /\ del = FE /\ 0 < k)).
Proof.
  intros Hb Hk [Hfo [Hff [Hnd [Hini [pre [Hcont Heq]]]]]].
  unfold cr_read. destruct (k <=? len (c_ov c)) eqn:Ek.
  - (* served from the overflow *)
    rewrite take_upto_spec. cbn [rev app].
    eexists _, _, _. split; [reflexivity|].
    split; [rewrite len_firstn; lia|].
    left. split; [reflexivity|]. split; [|split; [unfold wt; cbn [c_st]; lia|]].
    + unfold Inv. cbn [c_fo c_src c_st c_ov c_content]. split; [exact Hfo|]. split; [exact Hff|]. split; [exact Hnd|].
      split; [exact Hini|].
      exists pre. split; [exact Hcont|].
      rewrite <- Heq. unfold rest_of. cbn [c_st c_src]. rewrite <- !app_assoc. f_equal.
      rewrite app_assoc, firstn_skipn. reflexivity.
    + intros Hk0. left. apply firstn_nonempty; [lia|]. intros Habs. rewrite Habs in Ek. unfold len in Ek. cbn [length] in Ek. lia.
  - assert (Hcut1 : firstn (Z.to_nat k) (c_ov c) = c_ov c) by (apply firstn_all2; unfold len in Ek; lia).
    assert (Hcut2 : skipn (Z.to_nat k) (c_ov c) = []) by (apply skipn_all2; unfold len in Ek; lia).
    assert (Hk0 : 0 < k) by (pose proof (len_nonneg (c_ov c)); lia).
    destruct (c_st c) eqn:Est.
    + (* Initial *)
      assert (Hw : ov_write k (c_ov c) [] (header_bytes (c_fo c)) =
                   (firstn (Z.to_nat k) (c_ov c ++ header_bytes (c_fo c)), skipn (Z.to_nat k) (c_ov c ++ header_bytes (c_fo c))))
        by (rewrite <- ov_write_cut by exact Hk; rewrite Hcut1, Hcut2; reflexivity).
      rewrite Hw.
      assert (Hz : len (@nil Z) mod bsz_of fo = 0) by (unfold len; cbn [length]; apply Z.mod_0_l; lia).
      assert (Hd0 : data = [] ++ s_rem (c_src c)) by (symmetry; apply Hini; reflexivity).
      destruct (cr_loop_spec fo k data Hb Hk (S (length (s_rem (c_src c)))) (mkcr CrReading (c_fo c) (c_src c) [] []) (c_ov c ++ header_bytes (c_fo c)) []
                  Hfo Hff (Nat.lt_succ_diag_r _) (eq_sym (cont_nil fo)) eq_refl Hd0 Hz)
        as [c' [x [pre' [Hl [Hov [Hfo' [Hff' [Hrest Hcase]]]]]]]].
      cbn [c_src] in Hrest. rewrite Hl.
      eexists _, _, _. split; [reflexivity|].
      split; [rewrite len_firstn; pose proof (len_nonneg ((c_ov c ++ header_bytes (c_fo c)) ++ x)); lia|].
      left. split; [reflexivity|]. split; [|split].
      * unfold Inv. split; [exact Hfo'|]. split; [exact Hff'|].
        split; [destruct Hcase as [[H1 _]|[H1 _]]; rewrite H1; discriminate|].
        split; [destruct Hcase as [[H1 _]|[H1 _]]; rewrite H1; discriminate|].
        exists pre'. split; [destruct Hcase as [[H1 [H2 [_ H4]]]|[H1 _]]; [intros _; tauto|rewrite H1; discriminate]|].
        rewrite Hov. rewrite <- Heq. unfold rest_of at 2. rewrite Est, <- Hrest, Hfo.
        rewrite <- !app_assoc. f_equal. rewrite (app_assoc (firstn _ _)), firstn_skipn.
        rewrite <- !app_assoc. reflexivity.
      * unfold wt. rewrite Est. destruct Hcase as [[H1 _]|[H1 _]]; rewrite H1; lia.
      * intros _. left. apply firstn_nonempty; [lia|].
        intros Habs. apply app_eq_nil in Habs. destruct Habs as [Habs _].
        apply app_eq_nil in Habs. destruct Habs as [_ Habs]. exact (header_nonempty _ Habs).
    + (* Reading *)
      destruct (Hcont eq_refl) as [Hc1 [Hc2 [Hc3 Hc4]]].
      destruct (cr_loop_spec fo k data Hb Hk (S (length (s_rem (c_src c)))) (mkcr CrReading (c_fo c) (c_src c) (c_content c) []) (c_ov c) pre
                  Hfo Hff (Nat.lt_succ_diag_r _) Hc1 eq_refl Hc2 Hc3)
        as [c' [x [pre' [Hl [Hov [Hfo' [Hff' [Hrest Hcase]]]]]]]].
      cbn [c_src] in Hrest. rewrite Hcut1, Hcut2 in Hl. rewrite Hl.
      eexists _, _, _. split; [reflexivity|].
      split; [rewrite len_firstn; pose proof (len_nonneg (c_ov c ++ x)); lia|].
      left. split; [reflexivity|]. split; [|split].
      * unfold Inv. split; [exact Hfo'|]. split; [exact Hff'|].
        split; [destruct Hcase as [[H1 _]|[H1 _]]; rewrite H1; discriminate|].
        split; [destruct Hcase as [[H1 _]|[H1 _]]; rewrite H1; discriminate|].
        exists pre'. split; [destruct Hcase as [[H1 [H2 [_ H4]]]|[H1 _]]; [intros _; tauto|rewrite H1; discriminate]|].
        rewrite Hov. rewrite <- Heq. unfold rest_of at 2. rewrite Est, <- Hrest.
        rewrite <- !app_assoc. f_equal. rewrite (app_assoc (firstn _ _)), firstn_skipn.
        rewrite <- !app_assoc. reflexivity.
      * unfold wt. rewrite Est. destruct Hcase as [[H1 _]|[H1 _]]; rewrite H1; lia.
      * intros _. unfold wt. rewrite Est.
        destruct Hcase as [[H1 [_ [H3 _]]]|[H1 [H3|[H3 H4]]]].
        -- left. apply firstn_nonempty; [lia|]. intros Habs. apply app_eq_nil in Habs. tauto.
        -- left. apply firstn_nonempty; [lia|]. intros Habs. apply app_eq_nil in Habs. tauto.
        -- right. rewrite H1. split; [|lia]. cbn [c_src] in H4. rewrite H4, app_nil_r in Hc2.
           unfold corner. rewrite Hc2. tauto.
    + (* Flushing *)
      unfold rest_of in Heq. rewrite Est in Heq. rewrite app_nil_r in Heq.
      destruct (c_ov c) as [|y r] eqn:Eov.
      * eexists _, _, _. split; [reflexivity|]. split; [unfold len; cbn [length]; lia|].
        right. rewrite app_nil_r in Heq. repeat split; assumption.
      * eexists _, _, _. split; [reflexivity|]. split; [pose proof (len_nonneg (y :: r)); lia|].
        left. split; [reflexivity|]. split; [|split].
        -- unfold Inv. cbn [c_fo c_src c_st c_ov c_content]. split; [exact Hfo|]. split; [exact Hff|].
           split; [try rewrite Est; discriminate|]. split; [try rewrite Est; discriminate|].
           exists pre. split; [try rewrite Est; discriminate|].
           unfold rest_of. cbn [c_st]. try rewrite Est. cbn [app]. rewrite app_nil_r. exact Heq.
        -- unfold wt. cbn [c_st]. rewrite Est. lia.
        -- intros _. left. discriminate.
    + congruence.
Qed.

(* ---------- part 6: sequences of Read calls ---------- *)

Lemma inv_prefix fo data FE c del : Inv fo data FE c del -> is_prefix del FE.
Proof. intros [_ [_ [_ [_ [pre [_ Heq]]]]]]. eexists. symmetry. exact Heq. Qed.

Lemma run_spec fo data FE : 0 < bsz_of fo -> forall sizes c del c' rs out,
  Inv fo data FE c del -> Forall (fun k => 0 <= k) sizes -> run_creader c sizes = (c', rs, out) ->
  is_prefix (del ++ out) FE /\
  Forall2 (fun k r => 0 <= fst r <= k) (firstn (length rs) sizes) rs /\
  (~ corner fo data -> forall i k n e, nth_error sizes i = Some k -> nth_error rs i = Some (n, e) -> 0 < k -> 0 < n \/ e <> ENil) /\
  (forall n, In (n, EEOF) rs -> del ++ out = FE) /\
  (forall n e, In (n, e) rs -> e = ENil \/ e = EEOF).
Proof.
  intros Hb. induction sizes as [|k r IH]; intros c del c' rs out HI Hs Hrun.
  - cbn [run_creader] in Hrun. injection Hrun as <- <- <-.
    rewrite app_nil_r. split; [exact (inv_prefix _ _ _ _ _ HI)|].
    split; [constructor|]. split; [intros _ i k n e _ H; destruct i; discriminate H|].
    split; intros; contradiction.
  - inversion Hs as [|k' r' Hk Hr]; subst k' r'.
    cbn [run_creader] in Hrun.
    destruct (cr_read_spec fo data FE c del k Hb Hk HI) as [c1 [b [e [Hrd [Hlen Hcase]]]]].
    rewrite Hrd in Hrun.
    destruct Hcase as [[-> [HI1 [_ Hprog]]]|[-> [-> [-> Hk0]]]].
    + destruct (run_creader c1 r) as [[c2 rs'] all] eqn:Erun.
      injection Hrun as <- <- <-.
      destruct (IH c1 (del ++ b) c2 rs' all HI1 Hr Erun) as [P1 [P2 [P3 [P4 P5]]]].
      rewrite <- app_assoc in P1, P4.
      split; [exact P1|]. split; [|split; [|split]].
      * cbn [length firstn]. constructor; [cbn [fst]; exact Hlen|exact P2].
      * intros Hl i k0 n e Hi1 Hi2 Hk0. destruct i as [|i].
        -- cbn [nth_error] in Hi1, Hi2. injection Hi1 as <-. injection Hi2 as <- <-.
           left. destruct (Hprog Hk0) as [Hne|[Habs _]]; [|contradiction].
           destruct b; [congruence|]. rewrite len_cons. pose proof (len_nonneg b). lia.
        -- cbn [nth_error] in Hi1, Hi2. exact (P3 Hl i k0 n e Hi1 Hi2 Hk0).
      * intros n [Hin|Hin]; [discriminate Hin|]. exact (P4 n Hin).
      * intros n e [Hin|Hin]; [injection Hin as <- <-; left; reflexivity|]. exact (P5 n e Hin).
    + injection Hrun as <- <- <-. rewrite app_nil_r.
      split; [exists []; rewrite app_nil_r; reflexivity|]. split; [|split; [|split]].
      * cbn [length firstn]. constructor; [cbn [fst]; exact Hlen|constructor].
      * intros _ i k0 n e Hi1 Hi2 _. destruct i as [|i]; [|destruct i; discriminate Hi2].
        cbn [nth_error] in Hi2. injection Hi2 as <- <-. right. discriminate.
      * intros; reflexivity.
      * intros n e [Hin|[]]. injection Hin as <- <-. right. reflexivity.
Qed.

Lemma inv_init data os c : new_creader (src_of data) os = (c, ENil) ->
  0 < bsz_of (c_fo c) /\ Inv (c_fo c) data (frame_encode (c_fo c) data) c [].
Proof.
  intros Hnew. destruct (new_creader_props data os c Hnew) as [Hst [Hsrc [Hov [Hfl _]]]].
  split; [apply bsz_of_pos; exact Hfl|].
  unfold Inv. split; [reflexivity|]. split; [rewrite Hsrc; reflexivity|]. split; [rewrite Hst; discriminate|].
  split; [intros _; rewrite Hsrc; reflexivity|].
  exists []. split; [rewrite Hst; discriminate|].
  unfold rest_of. rewrite Hst, Hov, Hsrc. cbn [app src_of s_rem]. symmetry. apply frame_encode_tailf.
Qed.

(* creader_stmt with the progress clause restricted: it holds for every frame except a legacy frame
   whose data is a positive whole number of 8 MiB blocks (a state new_creader never produces: see
   Theorem creader) *)
Definition creader_fixed_stmt : Prop :=
  forall os c data sizes, bytes data -> Forall (fun k => 0 <= k) sizes ->
  new_creader (src_of data) os = (c, ENil) ->
  let '(c', rs, out) := run_creader c sizes in
  is_prefix out (frame_encode (c_fo c) data) /\
  Forall2 (fun k r => 0 <= fst r <= k) (firstn (length rs) sizes) rs /\
  (~ (fo_legacy (c_fo c) = true /\ data <> [] /\ len data mod bsz_of (c_fo c) = 0) ->
   forall i k n e, nth_error sizes i = Some k -> nth_error rs i = Some (n, e) -> 0 < k -> 0 < n \/ e <> ENil) /\
  (forall n, In (n, EEOF) rs -> out = frame_encode (c_fo c) data) /\
  (forall n e, In (n, e) rs -> e = ENil \/ e = EEOF).

Theorem creader_fixed : creader_fixed_stmt.
Proof.
  intros os c data sizes _ Hs Hnew.
  destruct (inv_init data os c Hnew) as [Hb HI].
  destruct (run_creader c sizes) as [[c' rs] out] eqn:Erun.
  exact (run_spec _ _ _ Hb sizes c [] c' rs out HI Hs Erun).
Qed.

(* in particular for every non-legacy frame *)
Corollary creader_modern : forall os c data sizes, bytes data -> Forall (fun k => 0 <= k) sizes ->
  new_creader (src_of data) os = (c, ENil) -> fo_legacy (c_fo c) = false ->
  let '(c', rs, out) := run_creader c sizes in
  is_prefix out (frame_encode (c_fo c) data) /\
  Forall2 (fun k r => 0 <= fst r <= k) (firstn (length rs) sizes) rs /\
  (forall i k n e, nth_error sizes i = Some k -> nth_error rs i = Some (n, e) -> 0 < k -> 0 < n \/ e <> ENil) /\
  (forall n, In (n, EEOF) rs -> out = frame_encode (c_fo c) data) /\
  (forall n e, In (n, e) rs -> e = ENil \/ e = EEOF).
Proof.
  intros os c data sizes Hd Hs Hnew Hl.
  pose proof (creader_fixed os c data sizes Hd Hs Hnew) as H.
  destruct (run_creader c sizes) as [[c' rs] out].
  destruct H as [P1 [P2 [P3 [P4 P5]]]].
  split; [exact P1|]. split; [exact P2|]. split; [|split; [exact P4|exact P5]].
  apply P3. intros [Habs _]. congruence.
Qed.

Lemma read_all_spec fo data FE k : 0 < bsz_of fo -> 0 < k -> forall fuel c del,
  Inv fo data FE c del -> len FE - len del + wt c < Z.of_nat fuel ->
  cr_read_all fuel c k del = (FE, EEOF).
Proof.
  intros Hb Hk. induction fuel as [|f IH]; intros c del HI Hm.
  - destruct (inv_prefix _ _ _ _ _ HI) as [t Ht]. rewrite Ht, len_app in Hm.
    pose proof (len_nonneg t). unfold wt in Hm. destruct (c_st c); lia.
  - cbn [cr_read_all].
    destruct (cr_read_spec fo data FE c del k Hb (Z.lt_le_incl _ _ Hk) HI) as [c1 [b [e [Hrd [Hlen Hcase]]]]].
    rewrite Hrd.
    destruct Hcase as [[-> [HI1 [Hwt Hprog]]]|[-> [-> [-> _]]]].
    + apply IH; [exact HI1|]. rewrite len_app.
      destruct (Hprog Hk) as [Hne|[_ Hlt]]; [|lia].
      destruct b; [congruence|]. rewrite len_cons. pose proof (len_nonneg b). lia.
    + rewrite app_nil_r. reflexivity.
Qed.

Theorem creader_complete : creader_complete_stmt.
Proof.
  intros os c data k _ Hk Hnew.
  destruct (inv_init data os c Hnew) as [Hb HI].
  apply (read_all_spec _ data _ k Hb Hk); [exact HI|].
  unfold wt. destruct (new_creader_props data os c Hnew) as [Hst _]. rewrite Hst.
  unfold len. cbn [length]. lia.
Qed.

(* ---------- part 7: a compressing reader is never legacy, hence the statement as written ---------- *)

Theorem creader : creader_stmt.
Proof.
  intros os c data sizes Hd Hs Hnew.
  destruct (new_creader_props data os c Hnew) as [_ [_ [_ [_ Hl]]]].
  exact (creader_modern os c data sizes Hd Hs Hnew Hl).
Qed.

Print Assumptions creader.
Print Assumptions creader_fixed.
Print Assumptions creader_modern.
Print Assumptions creader_complete.
