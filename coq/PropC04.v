(* C04 — Block decoding implements the LZ4 block format exactly, including dictionaries.
   Only property theorems here, each closed by a lemma proved elsewhere. *)
From LZ4V Require Import Base BlockFormat BlockFormatProofs DecodePortable DecodeAsm BlockTheoremsSpec BlockTheorems.

(* both decoder models return exactly what the format defines — bytes AND error/success — for every
   source, every destination length, every dictionary *)
Theorem C04_asm : exact_stmt decode_asm.            Proof. exact asm_exact. Qed.
Print Assumptions C04_asm.
Theorem C04_portable : exact_stmt decode_portable.  Proof. exact portable_exact. Qed.
Print Assumptions C04_portable.
(* every well-formed block whose decoded size fits is decoded to the bytes the format defines,
   offsets before the start of the output resolved against the end of the dictionary *)
Theorem C04_wellformed_asm : wellformed_stmt decode_asm.            Proof. exact asm_wellformed. Qed.
Print Assumptions C04_wellformed_asm.
Theorem C04_wellformed_portable : wellformed_stmt decode_portable.  Proof. exact portable_wellformed. Qed.
Print Assumptions C04_wellformed_portable.
(* the result never depends on the destination's prior contents *)
Theorem C04_independent_asm : independent_stmt decode_asm.            Proof. exact asm_independent. Qed.
Print Assumptions C04_independent_asm.
Theorem C04_independent_portable : independent_stmt decode_portable.  Proof. exact portable_independent'. Qed.
Print Assumptions C04_independent_portable.
(* error clauses (format level; they reach both decoders through C04_asm / C04_portable) *)
Theorem C04_err_zero_offset : err_zero_offset_stmt.  Proof. exact err_zero_offset. Qed.
Print Assumptions C04_err_zero_offset.
Theorem C04_err_before_dict : err_before_dict_stmt.  Proof. exact err_before_dict. Qed.
Print Assumptions C04_err_before_dict.
Theorem C04_err_overflow : err_overflow_stmt.        Proof. exact err_overflow. Qed.
Print Assumptions C04_err_overflow.
Theorem C04_err_truncated : err_truncated_stmt.      Proof. exact err_truncated. Qed.
Print Assumptions C04_err_truncated.
(* the specification decodes its own encoder's output: the format is consistent *)
Theorem C04_spec_roundtrip : forall p dict cap, wf_parse p ->
  spec_decode (encode p) dict cap = option_map (@rev Z) (expand_parse (rev dict) cap [] p).
Proof. exact spec_decode_encode. Qed.
Print Assumptions C04_spec_roundtrip.
(* non-vacuity: a two-sequence block with an overlapping match and a dictionary reference *)
Example C04_nonvacuous :
  obs (decode_asm (encode ([mkseq [97] 1 4; mkseq [66] 9 5], [101; 110; 100])) (repeat 0 14%nat) [1;2;3])
  = Some (14, [97;97;97;97;97;66;1;2;3;97;97;101;110;100]).
Proof. vm_compute. reflexivity. Qed.
