(* C04 — Block decoding implements the LZ4 block format exactly, including dictionaries.
   Only property theorems here, each closed by a lemma proved elsewhere. *)
From LZ4V Require Import Base BlockFormat BlockFormatProofs DecodePortable DecodeAsm BlockTheoremsSpec BlockTheorems.

(* both decoder models return exactly what the format defines — bytes AND error/success — for every
   source, every destination length, every dictionary *)
Theorem C04_asm : exact_stmt decode_asm.            Proof. exact asm_exact. Qed.
Print Assumptions C04_asm.
Theorem C04_portable : exact_stmt decode_portable.  Proof. exact portable_exact. Qed.
Print Assumptions C04_portable.
(* every well-formed block whose decoded size fits is decoded to the bytes the format defines,
   offsets before the start of the output resolved against the end of the dictionary *)
Theorem C04_wellformed_asm : wellformed_stmt decode_asm.            Proof. exact asm_wellformed. Qed.
Print Assumptions C04_wellformed_asm.
Theorem C04_wellformed_portable : wellformed_stmt decode_portable.  Proof. exact portable_wellformed. Qed.
Print Assumptions C04_wellformed_portable.
(* the result never depends on the destination's prior contents *)
Theorem C04_independent_asm : independent_stmt decode_asm.            Proof. exact asm_independent. Qed.
Print Assumptions C04_independent_asm.
Theorem C04_independent_portable : independent_stmt decode_portable.  Proof. exact portable_independent'. Qed.
Print Assumptions C04_independent_portable.
(* error clauses (format level; they reach both decoders through C04_asm / C04_portable) *)
Theorem C04_err_zero_offset : err_zero_offset_stmt.  Proof. exact err_zero_offset. Qed.
Print Assumptions C04_err_zero_offset.
Theorem C04_err_before_dict : err_before_dict_stmt.  Proof. exact err_before_dict. Qed.
Print Assumptions C04_err_before_dict.
Theorem C04_err_overflow : err_overflow_stmt.        Proof. exact err_overflow. Qed.
Print Assumptions C04_err_overflow.
Theorem C04_err_truncated : err_truncated_stmt.      Proof. exact err_truncated. Qed.
Print Assumptions C04_err_truncated.
(* the specification decodes its own encoder's output: the format is consistent *)
Theorem C04_spec_roundtrip : forall p dict cap, wf_parse p ->
  spec_decode (encode p) dict cap = option_map (@rev Z) (expand_parse (rev dict) cap [] p).
Proof. exact spec_decode_encode. Qed.
Print Assumptions C04_spec_roundtrip.
(* non-vacuity: a two-sequence block with an overlapping match and a dictionary reference *)
Example C04_nonvacuous :
  obs (decode_asm (encode ([mkseq [97] 1 4; mkseq [66] 9 5], [101; 110; 100])) (repeat 0 14%nat) [1;2;3])
  = Some (14, [97;97;97;97;97;66;1;2;3;97;97;101;110;100]).
Proof. vm_compute. reflexivity. Qed.

(* ==== the portable decoder AS TRANSLATED from internal/lz4block/decode_other.go on this run (GenDecodeBody.v) ====
   for every byte source, destination length and dictionary the translated decodeBlock returns exactly what the
   block format defines: hasError iff the format rejects, otherwise the count and the bytes *)
From LZ4V Require Import GoT GenDecodeBody GenDecodeBodyProofs GenDecodeBodyCorollaries.
Theorem C04_portable_translated : forall src dst0 dict src_spare dst_spare dict_spare s0 fuel,
  bytes src -> sized src dst0 dict -> (length src + 65 <= fuel)%nat ->
  exists s', run_decodeBlock fuel dst0 dst_spare src src_spare dict dict_spare s0 = Ret s'
    /\ match spec_decode src dict (len dst0) with
       | Some out => decodeBlock_ret s' = len out /\ firstn (length out) (mem_decodeBlock_dst s') = out
       | None => decodeBlock_ret s' = -2
       end.
Proof. exact C04_translated. Qed.
Print Assumptions C04_portable_translated.
Theorem C04_wellformed_portable_translated : forall p dict dst0 r src_spare dst_spare dict_spare s0 fuel,
  wf_parse p -> expand_parse (rev dict) (len dst0) [] p = Some r ->
  sized (encode p) dst0 dict -> (length (encode p) + 65 <= fuel)%nat ->
  exists s', run_decodeBlock fuel dst0 dst_spare (encode p) src_spare dict dict_spare s0 = Ret s'
    /\ decodeBlock_ret s' = len r /\ firstn (length r) (mem_decodeBlock_dst s') = rev r.
Proof. exact C04_wellformed_translated. Qed.
Print Assumptions C04_wellformed_portable_translated.
