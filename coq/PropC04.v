(* C04 — Block decoding implements the LZ4 block format exactly (placeholder header; theorems added below) *)
From LZ4V Require Import Base BlockFormat BlockFormatProofs.

(* the format specification decodes what its own encoder produces, for every well-formed parse,
   every dictionary and every capacity: spec_decode (encode p) = meaning of p *)
Theorem C04_spec_roundtrip : forall p dict cap, wf_parse p ->
  spec_decode (encode p) dict cap = option_map (@rev Z) (expand_parse (rev dict) cap [] p).
Proof. exact spec_decode_encode. Qed.
Print Assumptions C04_spec_roundtrip.
