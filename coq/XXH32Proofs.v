(* XXH32Proofs.v — the implementation models of XXH32.v equal the reference, for every input,
   every chunking and every total length below 2^64.  Purely structural: no lemma unfolds
   round / rol / merge / avalanche. *)
From LZ4V Require Import Base GenXXH XXH32.

Lemma seeds_reset : reset_lanes = ref_init.
Proof. reflexivity. Qed.
Lemma seeds_oneshot : oneshot_lanes = ref_init.
Proof. reflexivity. Qed.
Lemma seed_small : xxh32_checksumZeroGo_h32 = P5.
Proof. reflexivity. Qed.
Lemma prime5_eq : xxh32_prime5 = P5.
Proof. reflexivity. Qed.
(* the translated primes and rotations are the specification's (by computation: these are the
   obligations that break when a prime or a rotation amount changes in the source) *)
Lemma stripe_i_eq v l : stripe_i v l = stripe v l.
Proof. destruct v as [[[a b] c] d]. reflexivity. Qed.
Lemma merge_i_eq v : merge_i v = merge v.
Proof. destruct v as [[[a b] c] d]. reflexivity. Qed.
Lemma step4_i_eq h l : step4_i h l = step4 h l.
Proof. reflexivity. Qed.
Lemma step1_i_eq h b : step1_i h b = step1 h b.
Proof. reflexivity. Qed.
Lemma avalanche_i_eq h : avalanche_i h = avalanche h.
Proof. reflexivity. Qed.
Lemma tail1_i_eq l : forall h, tail1_i h l = tail1 h l.
Proof. induction l as [|b r IH]; intros h; [reflexivity|]. cbn [tail1_i tail1]. rewrite step1_i_eq. apply IH. Qed.

Lemma stripe_firstn v l k : (16 <= k)%nat -> stripe v (firstn k l) = stripe v l.
Proof.
  intros Hk. destruct v as [[[a b] c] d]. unfold stripe, word.
  rewrite !nth_firstn by lia. reflexivity.
Qed.

Lemma stripe_app v a b : (16 <= length a)%nat -> stripe v (a ++ b) = stripe v a.
Proof.
  intros H. rewrite <- (stripe_firstn v (a ++ b) (length a)) by assumption.
  rewrite firstn_app, Nat.sub_diag, firstn_all. cbn [firstn]. rewrite app_nil_r. reflexivity.
Qed.

Lemma stripes_n_app k : forall v a b, length a = (16 * k)%nat ->
  stripes_n k v (a ++ b) = stripes_n k v a.
Proof.
  induction k as [|k IH]; intros v a b Ha; [reflexivity|].
  cbn [stripes_n].
  assert (Hs : skipn 16 (a ++ b) = skipn 16 a ++ b).
  { rewrite skipn_app. replace (16 - length a)%nat with O by lia. reflexivity. }
  rewrite Hs, stripe_app by lia.
  apply IH. rewrite skipn_length. lia.
Qed.

Lemma stripes_n_add j : forall k v l,
  stripes_n (j + k) v l = stripes_n k (stripes_n j v l) (skipn (16 * j) l).
Proof.
  induction j as [|j IH]; intros k v l; [reflexivity|].
  cbn [Nat.add stripes_n]. rewrite IH.
  replace (16 * S j)%nat with (16 + 16 * j)%nat by lia. rewrite skipn_add. reflexivity.
Qed.

Lemma nfull_spec (l : list Z) :
  (length l = 16 * nfull l + length (tail_of l) /\ length (tail_of l) < 16)%nat.
Proof.
  unfold tail_of, nfull. rewrite skipn_length.
  pose proof (Nat.div_mod (length l) 16 ltac:(lia)).
  pose proof (Nat.mod_upper_bound (length l) 16 ltac:(lia)). lia.
Qed.

Lemma split_full (l : list Z) : l = firstn (16 * nfull l) l ++ tail_of l.
Proof. unfold tail_of. symmetry. apply firstn_skipn. Qed.

Lemma lanes_tail_app v l x :
  lanes_of v (l ++ x) = lanes_of (lanes_of v l) (tail_of l ++ x) /\
  tail_of (l ++ x) = tail_of (tail_of l ++ x).
Proof.
  destruct (nfull_spec l) as [Hl Ht].
  set (k := nfull l) in *. set (t := tail_of l) in *.
  assert (Hf : length (firstn (16 * k) l) = (16 * k)%nat) by (rewrite firstn_length; lia).
  assert (Hn : nfull (l ++ x) = (k + nfull (t ++ x))%nat).
  { unfold nfull. rewrite !app_length. rewrite Hl.
    replace (16 * k + length t + length x)%nat with ((length t + length x) + k * 16)%nat by lia.
    rewrite Nat.div_add by lia. lia. }
  assert (Hsk : skipn (16 * k) (l ++ x) = t ++ x).
  { rewrite skipn_app. replace (16 * k - length l)%nat with O by lia. reflexivity. }
  split.
  - unfold lanes_of at 1. rewrite Hn, stripes_n_add, Hsk.
    unfold lanes_of. f_equal.
    rewrite (split_full l) at 1. fold k. fold t. rewrite <- app_assoc.
    rewrite stripes_n_app by assumption.
    rewrite (split_full l) at 2. fold k. fold t.
    rewrite stripes_n_app by assumption. reflexivity.
  - unfold tail_of at 1. rewrite Hn.
    replace (16 * (k + nfull (t ++ x)))%nat with (16 * k + 16 * nfull (t ++ x))%nat by lia.
    rewrite skipn_add, Hsk. reflexivity.
Qed.

Lemma lanes_short v l : (length l < 16)%nat -> lanes_of v l = v /\ tail_of l = l.
Proof.
  intros H. unfold lanes_of, tail_of, nfull. rewrite Nat.div_small by assumption.
  split; reflexivity.
Qed.

Lemma lanes_peel v l : (16 <= length l)%nat ->
  lanes_of v l = lanes_of (stripe v l) (skipn 16 l) /\ tail_of l = tail_of (skipn 16 l).
Proof.
  intros H.
  assert (Hn : nfull l = S (nfull (skipn 16 l))).
  { unfold nfull. rewrite skipn_length.
    replace (length l) with ((length l - 16) + 1 * 16)%nat at 1 by lia.
    rewrite Nat.div_add by lia. lia. }
  split.
  - unfold lanes_of. rewrite Hn. reflexivity.
  - unfold tail_of. rewrite Hn.
    replace (16 * S (nfull (skipn 16 l)))%nat with (16 + 16 * nfull (skipn 16 l))%nat by lia.
    apply skipn_add.
Qed.

(* the Go loops compute the count-shaped reference quantities *)
Lemma stripes_loop_spec fuel : forall v l, (length l <= fuel)%nat ->
  stripes_loop fuel v l = (lanes_of v l, tail_of l).
Proof.
  induction fuel as [|f IH]; intros v l Hl.
  - destruct l; [|cbn in Hl; lia]. reflexivity.
  - cbn [stripes_loop]. rewrite stripe_i_eq. destruct (16 <=? length l)%nat eqn:E.
    + apply Nat.leb_le in E. destruct (lanes_peel v l E) as [Q1 Q2].
      rewrite IH by (rewrite skipn_length; lia). rewrite Q1, Q2. reflexivity.
    + apply Nat.leb_gt in E. destruct (lanes_short v l E) as [Q1 Q2]. rewrite Q1, Q2. reflexivity.
Qed.

Lemma tail4_loop_spec fuel : forall h l, (length l <= fuel)%nat ->
  tail4_loop fuel h l = (tail4_n (length l / 4) h l, skipn (4 * (length l / 4)) l).
Proof.
  induction fuel as [|f IH]; intros h l Hl.
  - destruct l; [|cbn in Hl; lia]. reflexivity.
  - cbn [tail4_loop]. rewrite step4_i_eq. destruct (4 <=? length l)%nat eqn:E.
    + apply Nat.leb_le in E.
      assert (Hn : (length l / 4 = S (length (skipn 4 l) / 4))%nat).
      { rewrite skipn_length.
        replace (length l) with ((length l - 4) + 1 * 4)%nat at 1 by lia.
        rewrite Nat.div_add by lia. lia. }
      rewrite IH by (rewrite skipn_length; lia). rewrite Hn. cbn [tail4_n].
      replace (4 * S (length (skipn 4 l) / 4))%nat with (4 + 4 * (length (skipn 4 l) / 4))%nat by lia.
      rewrite skipn_add. reflexivity.
    + apply Nat.leb_gt in E. rewrite Nat.div_small by assumption. reflexivity.
Qed.

Lemma finish_impl_spec h l : finish_impl h l = finish h l.
Proof.
  unfold finish_impl, finish. rewrite tail4_loop_spec by lia.
  rewrite avalanche_i_eq, tail1_i_eq. reflexivity.
Qed.

Lemma w32_w32_add a b : w32 (w32 a + b) = w32 (a + b).
Proof. unfold w32. rewrite Zplus_mod_idemp_l. reflexivity. Qed.

(* ---- one-shot ---- *)
Theorem oneshot_eq_ref : forall l, checksum_zero l = xxh32_ref l.
Proof.
  intros l. unfold checksum_zero, xxh32_ref.
  pose proof (len_nonneg l) as H0.
  destruct (len l <? 16) eqn:E.
  - rewrite finish_impl_spec, w32_w32_add, seed_small.
    assert (Hs : (length l < 16)%nat) by (unfold len in E; lia).
    destruct (lanes_short ref_init l Hs) as [_ Q2]. rewrite Q2.
    f_equal. f_equal. lia.
  - rewrite stripes_loop_spec by lia. rewrite finish_impl_spec, merge_i_eq, w32_w32_add, seeds_oneshot.
    f_equal. f_equal. lia.
Qed.

(* ---- streaming ---- *)
Definition repr (st : xst) (l : list Z) : Prop :=
  xtotal st = len l /\ xbuf st = tail_of l /\ (l <> [] -> xv st = lanes_of ref_init l).

Lemma repr_zero : repr xzero [].
Proof. split; [reflexivity|]. split; [reflexivity|]. intros H; contradiction. Qed.

Lemma xwrite_repr st l inp :
  len l + len inp < 2 ^ 64 -> repr st l -> repr (xwrite st inp) (l ++ inp).
Proof.
  intros Hlen (Ht & Hb & Hr).
  pose proof (len_nonneg l) as Hlen0. pose proof (len_nonneg inp) as Hlen1.
  set (v0 := if xtotal st =? 0 then reset_lanes else xv st).
  set (b0 := if xtotal st =? 0 then [] else xbuf st).
  assert (Hv0 : v0 = lanes_of ref_init l /\ b0 = tail_of l).
  { unfold v0, b0. destruct (xtotal st =? 0) eqn:E.
    - assert (l = []) as -> by (apply len_zero_nil; lia).
      split; reflexivity.
    - split; [|exact Hb]. apply Hr. intros ->. rewrite len_nil in Ht. lia. }
  destruct Hv0 as [Hv0 Hb0].
  destruct (nfull_spec l) as [Hl Hm]. rewrite <- Hb0 in Hl, Hm.
  destruct (lanes_tail_app ref_init l inp) as [EL ET].
  rewrite <- Hv0 in EL. rewrite <- Hb0 in EL, ET.
  unfold xwrite. fold v0. fold b0. rewrite stripe_i_eq.
  assert (Htot : w64 (xtotal st + Z.of_nat (length inp)) = len (l ++ inp)).
  { rewrite Ht, len_app. unfold w64. apply Z.mod_small. unfold len in *. lia. }
  rewrite Htot.
  destruct (length inp <? 16 - length b0)%nat eqn:Esh.
  - apply Nat.ltb_lt in Esh.
    destruct (lanes_short v0 (b0 ++ inp)) as [S1 S2]; [rewrite app_length; lia|].
    split; [reflexivity|]. cbn [xv xbuf]. rewrite EL, ET, S1, S2.
    split; [reflexivity|]. intros _; reflexivity.
  - apply Nat.ltb_ge in Esh.
    destruct (length b0 =? 0)%nat eqn:Em.
    + apply Nat.eqb_eq in Em. destruct b0; [|cbn in Em; lia].
      cbn [app] in EL, ET. rewrite stripes_loop_spec by lia.
      split; [reflexivity|]. cbn [xv xbuf]. rewrite EL, ET.
      split; [reflexivity|]. intros _; reflexivity.
    + apply Nat.eqb_neq in Em.
      destruct (lanes_peel v0 (b0 ++ inp)) as [Q1 Q2]; [rewrite app_length; lia|].
      assert (Hsk : skipn 16 (b0 ++ inp) = skipn (16 - length b0) inp).
      { rewrite skipn_app. rewrite skipn_all2 by lia. reflexivity. }
      assert (Hst : stripe v0 (b0 ++ inp) = stripe v0 (b0 ++ firstn (16 - length b0) inp)).
      { rewrite <- (stripe_firstn v0 (b0 ++ inp) 16) by lia.
        rewrite firstn_app. rewrite (firstn_all2 b0) by lia. reflexivity. }
      rewrite stripes_loop_spec by lia.
      split; [reflexivity|]. cbn [xv xbuf]. rewrite EL, ET, Q1, Q2, Hsk, Hst.
      split; [reflexivity|]. intros _; reflexivity.
Qed.

Lemma xsum32_repr st l : repr st l -> xsum32 st = xxh32_ref l.
Proof.
  intros (Ht & Hb & Hr). unfold xsum32, xsum32_g, xxh32_ref.
  rewrite finish_impl_spec, merge_i_eq, prime5_eq, Ht, Hb.
  pose proof (len_nonneg l) as H0.
  destruct (16 <=? len l) eqn:E1; destruct (len l <? 16) eqn:E2; try lia.
  - rewrite w32_w32_add. rewrite Hr.
    + f_equal. f_equal. lia.
    + intros ->. rewrite len_nil in E1. lia.
  - rewrite w32_w32_add. f_equal. f_equal. lia.
Qed.

Theorem stream_eq_ref : forall chunks st l,
  repr st l -> len l + len (concat chunks) < 2 ^ 64 ->
  xsum32 (fold_left xwrite chunks st) = xxh32_ref (l ++ concat chunks).
Proof.
  induction chunks as [|c cs IH]; intros st l Hr Hlen.
  - cbn [fold_left concat]. rewrite app_nil_r. apply xsum32_repr; assumption.
  - cbn [fold_left concat]. cbn [concat] in Hlen.
    pose proof (len_nonneg (concat cs)) as Hc. rewrite len_app in Hlen.
    rewrite app_assoc. apply IH.
    + apply xwrite_repr; [lia|assumption].
    + rewrite len_app. lia.
Qed.

(* The state after any history of writes is determined by the concatenation (representation). *)
Theorem stream_state : forall chunks, len (concat chunks) < 2 ^ 64 ->
  repr (fold_left xwrite chunks xzero) (concat chunks).
Proof.
  intros cs.
  assert (G : forall ds st l, repr st l -> len l + len (concat ds) < 2 ^ 64 ->
              repr (fold_left xwrite ds st) (l ++ concat ds)).
  { induction ds as [|c cs0 IH]; intros st l Hr Hlen.
    - cbn [fold_left concat]. rewrite app_nil_r. exact Hr.
    - cbn [fold_left concat]. cbn [concat] in Hlen. rewrite len_app in Hlen.
      pose proof (len_nonneg (concat cs0)). rewrite app_assoc. apply IH.
      + apply xwrite_repr; [lia|assumption].
      + rewrite len_app. lia. }
  intros H. apply (G cs xzero []); [apply repr_zero|rewrite len_nil; lia].
Qed.

(* F5, kept as a theorem about the guard the tree was first found with: the truncated guard
   gives a different value on a *state* that a 2^32+5-byte stream of zeros reaches. *)
Definition f5_state : xst :=
  mkx (1, 2, 3, 4) (2 ^ 32 + 5) [0; 0; 0; 0; 0].
Lemma truncated_guard_differs : xsum32_g true f5_state <> xsum32_g false f5_state.
Proof. vm_compute. discriminate. Qed.
