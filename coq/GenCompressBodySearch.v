(* GenCompressBodySearch.v — the three-probe search of the fast compressor's loop body equals one pstep of
   the model: search_exec : search_stmt (the statement is in GenCompressBodyLoop.v).  One lemma per
   candidate level, each about an abstract state, so that every Qed is small.
   The three program pieces are COPIED from GenCompressBody.v (L1 is the part of `search` after the two
   gets and the two puts; the composition checks by conversion that `search` ends with it). *)
From Coq Require Import ZArith List Lia Bool FMapPositive.
From LZ4V Require Import Base GoT GenBlock GenCompressBody BlockFormat CompressFast CompressFastTable
  Bound CompressFastProofs BlockTheorems GenCompressBodyProofs GenCompressBodyLoop.
Import ListNotations.
Open Scope Z_scope.
Open Scope got_scope.
(* L1, L2, L3 are NOTATIONS, not definitions: folding a defined constant applied to a state makes the
   kernel evaluate the guard on the symbolic state at Qed (observed: > 10 min). *)

Notation L3 K := (
        guard (fun s => orb (((Compressor_CompressBlock_offset s) <=? 0) || (65536 <=? (Compressor_CompressBlock_offset s))) (sl_slice_ok (Compressor_CompressBlock_src s) (Compressor_CompressBlock_ref3 s) (s_len (Compressor_CompressBlock_src s)) (s_cap (Compressor_CompressBlock_src s)) && sl_le32_ok (sl_slice (Compressor_CompressBlock_src s) (Compressor_CompressBlock_ref3 s) (s_len (Compressor_CompressBlock_src s)) (s_cap (Compressor_CompressBlock_src s))))) (
        ite (fun s => ((((Compressor_CompressBlock_offset s) <=? 0) || (65536 <=? (Compressor_CompressBlock_offset s))) || (negb ((wu32 (Z.shiftr (Compressor_CompressBlock_match s) 16)) =? (le32 (sl_slice (Compressor_CompressBlock_src s) (Compressor_CompressBlock_ref3 s) (s_len (Compressor_CompressBlock_src s)) (s_cap (Compressor_CompressBlock_src s))) s))))) (
          upd (fun s => (set_Compressor_CompressBlock_si (wi64 ((Compressor_CompressBlock_si s) + (wi64 (2 + (Z.shiftr (wi64 ((Compressor_CompressBlock_si s) - (Compressor_CompressBlock_anchor s))) 7))))) s)) ;;
          cont) skip) ;;
    K) (only parsing).

Notation L2 fuel K := (
      guard (fun s => orb (((Compressor_CompressBlock_offset s) <=? 0) || (65536 <=? (Compressor_CompressBlock_offset s))) (sl_slice_ok (Compressor_CompressBlock_src s) (Compressor_CompressBlock_ref2 s) (s_len (Compressor_CompressBlock_src s)) (s_cap (Compressor_CompressBlock_src s)) && sl_le32_ok (sl_slice (Compressor_CompressBlock_src s) (Compressor_CompressBlock_ref2 s) (s_len (Compressor_CompressBlock_src s)) (s_cap (Compressor_CompressBlock_src s))))) (
      ite (fun s => ((((Compressor_CompressBlock_offset s) <=? 0) || (65536 <=? (Compressor_CompressBlock_offset s))) || (negb ((wu32 (Z.shiftr (Compressor_CompressBlock_match s) 8)) =? (le32 (sl_slice (Compressor_CompressBlock_src s) (Compressor_CompressBlock_ref2 s) (s_len (Compressor_CompressBlock_src s)) (s_cap (Compressor_CompressBlock_src s))) s))))) (
        upd (fun s => (set_Compressor_CompressBlock_si (wi64 ((Compressor_CompressBlock_si s) + 1)) s)) ;;
        upd (fun s => (set_Compressor_CompressBlock_offset (wi64 ((Compressor_CompressBlock_si s) - (Compressor_CompressBlock_ref3 s))) s)) ;;
        upd (fun s => set_Compressor_put_h (Compressor_CompressBlock_h s) (set_Compressor_put_si (Compressor_CompressBlock_si s) s)) ;;
        call (lz4block_Compressor_put fuel) ;;
        guard (fun s => orb (((Compressor_CompressBlock_offset s) <=? 0) || (65536 <=? (Compressor_CompressBlock_offset s))) (sl_slice_ok (Compressor_CompressBlock_src s) (Compressor_CompressBlock_ref3 s) (s_len (Compressor_CompressBlock_src s)) (s_cap (Compressor_CompressBlock_src s)) && sl_le32_ok (sl_slice (Compressor_CompressBlock_src s) (Compressor_CompressBlock_ref3 s) (s_len (Compressor_CompressBlock_src s)) (s_cap (Compressor_CompressBlock_src s))))) (
        ite (fun s => ((((Compressor_CompressBlock_offset s) <=? 0) || (65536 <=? (Compressor_CompressBlock_offset s))) || (negb ((wu32 (Z.shiftr (Compressor_CompressBlock_match s) 16)) =? (le32 (sl_slice (Compressor_CompressBlock_src s) (Compressor_CompressBlock_ref3 s) (s_len (Compressor_CompressBlock_src s)) (s_cap (Compressor_CompressBlock_src s))) s))))) (
          upd (fun s => (set_Compressor_CompressBlock_si (wi64 ((Compressor_CompressBlock_si s) + (wi64 (2 + (Z.shiftr (wi64 ((Compressor_CompressBlock_si s) - (Compressor_CompressBlock_anchor s))) 7))))) s)) ;;
          cont) skip)) skip) ;;
    K) (only parsing).

Notation L1 fuel K := (
    guard (fun s => orb (((Compressor_CompressBlock_offset s) <=? 0) || (65536 <=? (Compressor_CompressBlock_offset s))) (sl_slice_ok (Compressor_CompressBlock_src s) (Compressor_CompressBlock_ref s) (s_len (Compressor_CompressBlock_src s)) (s_cap (Compressor_CompressBlock_src s)) && sl_le32_ok (sl_slice (Compressor_CompressBlock_src s) (Compressor_CompressBlock_ref s) (s_len (Compressor_CompressBlock_src s)) (s_cap (Compressor_CompressBlock_src s))))) (
    ite (fun s => ((((Compressor_CompressBlock_offset s) <=? 0) || (65536 <=? (Compressor_CompressBlock_offset s))) || (negb ((wu32 (Compressor_CompressBlock_match s)) =? (le32 (sl_slice (Compressor_CompressBlock_src s) (Compressor_CompressBlock_ref s) (s_len (Compressor_CompressBlock_src s)) (s_cap (Compressor_CompressBlock_src s))) s))))) (
      upd (fun s => (set_Compressor_CompressBlock_h (lz4block_blockHash (Z.shiftr (Compressor_CompressBlock_match s) 16)) s)) ;;
      upd (fun s => set_Compressor_get_h (Compressor_CompressBlock_h s) (set_Compressor_get_si (wi64 ((Compressor_CompressBlock_si s) + 2)) s)) ;;
      call (lz4block_Compressor_get fuel) ;;
      upd (fun s => (set_Compressor_CompressBlock_ref3 (Compressor_get_ret0 s) s)) ;;
      upd (fun s => (set_Compressor_CompressBlock_si (wi64 ((Compressor_CompressBlock_si s) + 1)) s)) ;;
      upd (fun s => (set_Compressor_CompressBlock_offset (wi64 ((Compressor_CompressBlock_si s) - (Compressor_CompressBlock_ref2 s))) s)) ;;
      guard (fun s => orb (((Compressor_CompressBlock_offset s) <=? 0) || (65536 <=? (Compressor_CompressBlock_offset s))) (sl_slice_ok (Compressor_CompressBlock_src s) (Compressor_CompressBlock_ref2 s) (s_len (Compressor_CompressBlock_src s)) (s_cap (Compressor_CompressBlock_src s)) && sl_le32_ok (sl_slice (Compressor_CompressBlock_src s) (Compressor_CompressBlock_ref2 s) (s_len (Compressor_CompressBlock_src s)) (s_cap (Compressor_CompressBlock_src s))))) (
      ite (fun s => ((((Compressor_CompressBlock_offset s) <=? 0) || (65536 <=? (Compressor_CompressBlock_offset s))) || (negb ((wu32 (Z.shiftr (Compressor_CompressBlock_match s) 8)) =? (le32 (sl_slice (Compressor_CompressBlock_src s) (Compressor_CompressBlock_ref2 s) (s_len (Compressor_CompressBlock_src s)) (s_cap (Compressor_CompressBlock_src s))) s))))) (
        upd (fun s => (set_Compressor_CompressBlock_si (wi64 ((Compressor_CompressBlock_si s) + 1)) s)) ;;
        upd (fun s => (set_Compressor_CompressBlock_offset (wi64 ((Compressor_CompressBlock_si s) - (Compressor_CompressBlock_ref3 s))) s)) ;;
        upd (fun s => set_Compressor_put_h (Compressor_CompressBlock_h s) (set_Compressor_put_si (Compressor_CompressBlock_si s) s)) ;;
        call (lz4block_Compressor_put fuel) ;;
        guard (fun s => orb (((Compressor_CompressBlock_offset s) <=? 0) || (65536 <=? (Compressor_CompressBlock_offset s))) (sl_slice_ok (Compressor_CompressBlock_src s) (Compressor_CompressBlock_ref3 s) (s_len (Compressor_CompressBlock_src s)) (s_cap (Compressor_CompressBlock_src s)) && sl_le32_ok (sl_slice (Compressor_CompressBlock_src s) (Compressor_CompressBlock_ref3 s) (s_len (Compressor_CompressBlock_src s)) (s_cap (Compressor_CompressBlock_src s))))) (
        ite (fun s => ((((Compressor_CompressBlock_offset s) <=? 0) || (65536 <=? (Compressor_CompressBlock_offset s))) || (negb ((wu32 (Z.shiftr (Compressor_CompressBlock_match s) 16)) =? (le32 (sl_slice (Compressor_CompressBlock_src s) (Compressor_CompressBlock_ref3 s) (s_len (Compressor_CompressBlock_src s)) (s_cap (Compressor_CompressBlock_src s))) s))))) (
          upd (fun s => (set_Compressor_CompressBlock_si (wi64 ((Compressor_CompressBlock_si s) + (wi64 (2 + (Z.shiftr (wi64 ((Compressor_CompressBlock_si s) - (Compressor_CompressBlock_anchor s))) 7))))) s)) ;;
          cont) skip)) skip)) skip) ;;
    K) (only parsing).

Notation f_ref := Compressor_CompressBlock_ref.
Notation f_ref2 := Compressor_CompressBlock_ref2.
Notation f_ref3 := Compressor_CompressBlock_ref3.
Notation f_match := Compressor_CompressBlock_match.
Notation f_h := Compressor_CompressBlock_h.
Notation bh := GenCompressBody.lz4block_blockHash.

Section Levels.
Variables (src ssp : list Z) (dl dsp : Z) (get : Z -> Z).
Let n := zlen src.
Hypothesis Hget : forall i, 0 <= i < n -> get i = znth src i.
Hypothesis Hsmall : n < 2 ^ 61.

Definition step_post (st : step ftable) (K : stmt) (s : state) (o : outcome state) : Prop :=
  match st with
  | SPanic _ => exists s', o = Pan s'
  | SFound _ p r tb' =>
    exists s', o = K s' /\ frame src ssp dl dsp s' /\ keepsS s s' /\ f_si s' = p /\ f_off s' = p - r /\
               table_rel (mem_Compressor_table s') (mem_Compressor_inUse s') tb'
  | SSkip _ si' tb' =>
    exists s', o = Cont s' /\ frame src ssp dl dsp s' /\ keepsS s s' /\ f_si s' = si' /\
               table_rel (mem_Compressor_table s') (mem_Compressor_inUse s') tb'
  end.

Definition pstep3 (si a : Z) (tb3 : ftable) (r3 m : Z) : step ftable :=
  match accept get (si + 2) r3 (wu32 (Z.shiftr m 16)) with
  | None => SPanic _
  | Some true => SFound _ (si + 2) r3 tb3
  | Some false => SSkip _ (si + 2 + 2 + Z.shiftr (si + 2 - a) 7) tb3
  end.
Definition pstep2 (si a : Z) (tb2 : ftable) (r2 r3 m : Z) : step ftable :=
  match accept get (si + 1) r2 (wu32 (Z.shiftr m 8)) with
  | None => SPanic _
  | Some true => SFound _ (si + 1) r2 tb2
  | Some false => pstep3 si a (ft_put tb2 (bh (Z.shiftr m 16)) (si + 2)) r3 m
  end.
Definition pstep1 (si a : Z) (tb2 : ftable) (r1 r2 m : Z) : step ftable :=
  match accept get si r1 (wu32 m) with
  | None => SPanic _
  | Some true => SFound _ si r1 tb2
  | Some false => pstep2 si a tb2 r2 (ft_get tb2 (bh (Z.shiftr m 16)) (si + 2)) m
  end.

Lemma L3_exec K s S2 si a r3 m tb3 :
  frame src ssp dl dsp S2 -> keepsS s S2 -> f_si S2 = si + 2 -> f_off S2 = si + 2 - r3 ->
  f_ref3 S2 = r3 -> f_match S2 = m -> f_anchor S2 = a ->
  table_rel (mem_Compressor_table S2) (mem_Compressor_inUse S2) tb3 ->
  0 <= a <= si -> si + 14 < n -> - 65536 <= r3 < si + 2 ->
  step_post (pstep3 si a tb3 r3 m) K s (L3 K S2).
Proof.
  intros (U1 & U2 & U3) KS2 Si2 Of2 Rf3 Mt2 An2 Rel2 Ha Hsi B3.
  change (2 ^ 61) with 2305843009213693952 in *.
  pose proof (zlen_nonneg src) as Hn0. fold n in Hn0.
  unfold pstep3.
  rewrite seq_guard; lz4block_state_simpl. rewrite U1, Of2, Rf3. cbn [s_len s_cap].
  pose proof (probe_accept src ssp get (si + 2) r3 (wu32 (Z.shiftr m 16)) Hget ltac:(lia) ltac:(fold n; lia)) as PA.
  cbv zeta in PA.
  destruct (accept get (si + 2) r3 (wu32 (Z.shiftr m 16))) as [[|]|]; cbn [step_post].
  - destruct PA as [PG PC]. rewrite PG.
    rewrite seq_ite; lz4block_state_simpl. rewrite U1, Of2, Rf3, Mt2. cbn [s_len s_cap].
    rewrite (le32_slice src ssp S2 r3 U2). rewrite PC. cbn [negb]. rewrite seq_skip_l.
    exists S2. split; [reflexivity|]. split; [exact (conj U1 (conj U2 U3))|]. split; [exact KS2|].
    split; [exact Si2|]. split; [exact Of2|]. exact Rel2.
  - destruct PA as [PG PC]. rewrite PG.
    rewrite seq_ite; lz4block_state_simpl. rewrite U1, Of2, Rf3, Mt2. cbn [s_len s_cap].
    rewrite (le32_slice src ssp S2 r3 U2). rewrite PC. cbn [negb].
    stp. rewrite Si2, An2.
    assert (Hsh : 0 <= Z.shiftr (si + 2 - a) 7 <= si + 2 - a).
    { rewrite Z.shiftr_div_pow2 by lia. change (2 ^ 7) with 128. split; [apply Z.div_pos; lia|].
      apply Z.div_le_upper_bound; lia. }
    rewrite (wi64_id (si + 2 - a)) by lia. rewrite (wi64_id (2 + Z.shiftr (si + 2 - a) 7)) by lia.
    rewrite (wi64_id (si + 2 + (2 + Z.shiftr (si + 2 - a) 7))) by lia.
    eexists; split; [reflexivity|]. unfold frame, keepsS. lz4block_state_simpl.
    split; [exact (conj U1 (conj U2 U3))|]. split; [exact KS2|]. split; [lia|]. exact Rel2.
  - rewrite PA. exists S2. reflexivity.
Qed.

Lemma L2_exec fuel K s S1 si a r2 r3 m tb2 :
  frame src ssp dl dsp S1 -> keepsS s S1 -> f_si S1 = si + 1 -> f_off S1 = si + 1 - r2 ->
  f_ref2 S1 = r2 -> f_ref3 S1 = r3 -> f_match S1 = m -> f_h S1 = bh (Z.shiftr m 16) -> f_anchor S1 = a ->
  table_rel (mem_Compressor_table S1) (mem_Compressor_inUse S1) tb2 ->
  0 <= a <= si -> si + 14 < n -> - 65536 <= r2 < si + 1 -> - 65536 <= r3 < si + 2 ->
  step_post (pstep2 si a tb2 r2 r3 m) K s (L2 fuel K S1).
Proof.
  intros (U1 & U2 & U3) KS1 Si1 Of1 Rf2 Rf3 Mt1 Hh1 An1 Rel1 Ha Hsi B2 B3.
  change (2 ^ 61) with 2305843009213693952 in *.
  pose proof (zlen_nonneg src) as Hn0. fold n in Hn0.
  unfold pstep2.
  rewrite seq_guard; lz4block_state_simpl. rewrite U1, Of1, Rf2. cbn [s_len s_cap].
  pose proof (probe_accept src ssp get (si + 1) r2 (wu32 (Z.shiftr m 8)) Hget ltac:(lia) ltac:(fold n; lia)) as PA.
  cbv zeta in PA.
  destruct (accept get (si + 1) r2 (wu32 (Z.shiftr m 8))) as [[|]|].
  - cbn [step_post]. destruct PA as [PG PC]. rewrite PG.
    rewrite seq_ite; lz4block_state_simpl. rewrite U1, Of1, Rf2, Mt1. cbn [s_len s_cap].
    rewrite (le32_slice src ssp S1 r2 U2). rewrite PC. cbn [negb]. rewrite seq_skip_l.
    exists S1. split; [reflexivity|]. split; [exact (conj U1 (conj U2 U3))|]. split; [exact KS1|].
    split; [exact Si1|]. split; [exact Of1|]. exact Rel1.
  - destruct PA as [PG PC]. rewrite PG.
    rewrite seq_ite; lz4block_state_simpl. rewrite U1, Of1, Rf2, Mt1. cbn [s_len s_cap].
    rewrite (le32_slice src ssp S1 r2 U2). rewrite PC. cbn [negb]. clear PG PC.
    stp. rewrite Si1, Rf3, Hh1. rewrite (wi64_id (si + 1 + 1)) by lia.
    replace (si + 1 + 1) with (si + 2) by lia.
    do_put tb2 R3; [exact Rel1|apply bh_nonneg|].
    rewrite (wi64_id (si + 2 - r3)) by lia.
    cbv iota.
    apply L3_exec; try assumption; unfold frame, keepsS; lz4block_state_simpl; try assumption.
    + exact (conj U1 (conj U2 U3)).
    + reflexivity.
    + reflexivity.
  - cbn [step_post]. rewrite PA. exists S1. reflexivity.
Qed.

Lemma L1_exec fuel K s S0 si a r1 r2 m tb2 :
  frame src ssp dl dsp S0 -> keepsS s S0 -> f_si S0 = si -> f_off S0 = si - r1 ->
  f_ref S0 = r1 -> f_ref2 S0 = r2 -> f_match S0 = m -> f_anchor S0 = a ->
  table_rel (mem_Compressor_table S0) (mem_Compressor_inUse S0) tb2 ->
  0 <= a <= si -> si + 14 < n -> - 65536 <= r1 < si -> - 65536 <= r2 < si + 1 ->
  step_post (pstep1 si a tb2 r1 r2 m) K s (L1 fuel K S0).
Proof.
  intros (U1 & U2 & U3) KS0 Si0 Of0 Rf1 Rf2 Mt0 An0 Rel0 Ha Hsi B1 B2.
  change (2 ^ 61) with 2305843009213693952 in *.
  pose proof (zlen_nonneg src) as Hn0. fold n in Hn0.
  unfold pstep1.
  rewrite seq_guard; lz4block_state_simpl. rewrite U1, Of0, Rf1. cbn [s_len s_cap].
  pose proof (probe_accept src ssp get si r1 (wu32 m) Hget ltac:(lia) ltac:(fold n; lia)) as PA.
  cbv zeta in PA.
  destruct (accept get si r1 (wu32 m)) as [[|]|].
  - cbn [step_post]. destruct PA as [PG PC]. rewrite PG.
    rewrite seq_ite; lz4block_state_simpl. rewrite U1, Of0, Rf1, Mt0. cbn [s_len s_cap].
    rewrite (le32_slice src ssp S0 r1 U2). rewrite PC. cbn [negb]. rewrite seq_skip_l.
    exists S0. split; [reflexivity|]. split; [exact (conj U1 (conj U2 U3))|]. split; [exact KS0|].
    split; [exact Si0|]. split; [exact Of0|]. exact Rel0.
  - destruct PA as [PG PC]. rewrite PG.
    rewrite seq_ite; lz4block_state_simpl. rewrite U1, Of0, Rf1, Mt0. cbn [s_len s_cap].
    rewrite (le32_slice src ssp S0 r1 U2). rewrite PC. cbn [negb]. clear PG PC.
    stp. rewrite Mt0, Si0. rewrite (wi64_id (si + 2)) by lia.
    do_get tb2; [exact Rel0|apply bh_nonneg|lia|].
    stp. rewrite Si0, Rf2. rewrite (wi64_id (si + 1)) by lia.
    set (r3 := ft_get tb2 (bh (Z.shiftr m 16)) (si + 2)).
    assert (B3 : - 65536 <= r3 < si + 2) by (apply (ft_get_bounds _ _ _ _ _ Rel0); [apply bh_nonneg|lia]).
    rewrite (wi64_id (si + 1 - r2)) by lia.
    cbv iota.
    apply (L2_exec fuel K s _ si a r2 r3 m tb2); try assumption; unfold frame, keepsS; lz4block_state_simpl; try assumption.
    + exact (conj U1 (conj U2 U3)).
    + reflexivity.
    + reflexivity.
    + reflexivity.
    + reflexivity.
  - cbn [step_post]. rewrite PA. exists S0. reflexivity.
Qed.

Lemma pstep_levels si a tb :
  pstep get ftable ft_get ft_put si a tb =
  let m := load64 get si in
  let h1 := bh m in let h2 := bh (Z.shiftr m 8) in
  pstep1 si a (ft_put (ft_put tb h1 si) h2 (si + 1)) (ft_get tb h1 si) (ft_get tb h2 (si + 1)) m.
Proof. reflexivity. Qed.

Theorem search_exec : search_stmt src ssp dl dsp get.
Proof.
  unfold search_stmt. intros fuel K s si a tb (S1 & S2 & S3) Ss As Hrel Ha Hsi.
  change (2 ^ 61) with 2305843009213693952 in *.
  pose proof (zlen_nonneg src) as Hn0. fold n in Hn0. pose proof (zlen_nonneg ssp) as Hs0.
  change (step_post (pstep get ftable ft_get ft_put si a tb) K s (search fuel K s)).
  rewrite pstep_levels. cbv zeta.
  set (m := load64 get si).
  unfold search.
  rewrite seq_guard; lz4block_state_simpl. rewrite S1, Ss. cbn [s_len s_cap].
  match goal with |- context [if ?g then _ else Pan _] => replace g with true end.
  2:{ unfold sl_slice_ok, sl_le64_ok, sl_slice; cbn [s_len s_cap]. fold n. btrue. }
  stp. rewrite S1, Ss. cbn [s_len s_cap]. rewrite (le64_load64 src ssp get Hget s si S2) by (fold n; lia). fold m.
  do_get tb; [exact Hrel|apply bh_nonneg|lia|].
  stp. rewrite Ss. rewrite (wi64_id (si + 1)) by lia.
  do_get tb; [exact Hrel|apply bh_nonneg|lia|].
  stp. rewrite Ss.
  do_put tb R1; [exact Hrel|apply bh_nonneg|].
  stp. rewrite Ss. rewrite (wi64_id (si + 1)) by lia.
  do_put (ft_put tb (bh m) si) R2; [exact R1|apply bh_nonneg|].
  stp. rewrite Ss.
  assert (B1 : - 65536 <= ft_get tb (bh m) si < si) by (apply (ft_get_bounds _ _ _ _ _ Hrel); [apply bh_nonneg|lia]).
  assert (B2 : - 65536 <= ft_get tb (bh (Z.shiftr m 8)) (si + 1) < si + 1)
    by (apply (ft_get_bounds _ _ _ _ _ Hrel); [apply bh_nonneg|lia]).
  rewrite (wi64_id (si - ft_get tb (bh m) si)) by lia.
  apply (L1_exec fuel K s _ si a); try assumption; unfold frame, keepsS; lz4block_state_simpl; try assumption.
  all: try reflexivity.
  - rewrite S1, S2, S3. repeat split; reflexivity.
  - repeat split; reflexivity.
Qed.

End Levels.

(* ------------------------------------------------------------------------------------------ *)
(* "Match found": lLen/mLen/tOff, the backward loop, si/mLen, the forward loop, mLen = si - mLen (block.go:166-195,
   COPIED from GenCompressBody.v as a notation), then the emission: together they are the model's fseq.   *)
(* ------------------------------------------------------------------------------------------ *)
Notation FOUNDP fuel K := (
    upd (fun s => (set_Compressor_CompressBlock_lLen (wi64 ((Compressor_CompressBlock_si s) - (Compressor_CompressBlock_anchor s))) s)) ;;
    upd (fun s => (set_Compressor_CompressBlock_mLen 4 s)) ;;
    upd (fun s => (set_Compressor_CompressBlock_tOff (wi64 ((wi64 ((Compressor_CompressBlock_si s) - (Compressor_CompressBlock_offset s))) - 1)) s)) ;;
    loop fuel (fun _ => true) (
      guard (fun s => implb ((0 <? (Compressor_CompressBlock_lLen s)) && (0 <=? (Compressor_CompressBlock_tOff s))) (sl_idx_ok (Compressor_CompressBlock_src s) (wi64 ((Compressor_CompressBlock_si s) - 1)) && sl_idx_ok (Compressor_CompressBlock_src s) (Compressor_CompressBlock_tOff s))) (
      ite (fun s => (((0 <? (Compressor_CompressBlock_lLen s)) && (0 <=? (Compressor_CompressBlock_tOff s))) && ((sget (Compressor_CompressBlock_src s) (wi64 ((Compressor_CompressBlock_si s) - 1)) s) =? (sget (Compressor_CompressBlock_src s) (Compressor_CompressBlock_tOff s) s)))) skip brk) ;;
      upd (fun s => (set_Compressor_CompressBlock_si (wi64 ((Compressor_CompressBlock_si s) - 1)) s)) ;;
      upd (fun s => (set_Compressor_CompressBlock_tOff (wi64 ((Compressor_CompressBlock_tOff s) - 1)) s)) ;;
      upd (fun s => (set_Compressor_CompressBlock_lLen (wi64 ((Compressor_CompressBlock_lLen s) - 1)) s)) ;;
      upd (fun s => (set_Compressor_CompressBlock_mLen (wi64 ((Compressor_CompressBlock_mLen s) + 1)) s))) skip ;;
    upd (fun s =>
      let t0 := (wi64 ((Compressor_CompressBlock_si s) + (Compressor_CompressBlock_mLen s))) in
      let t1 := (wi64 ((Compressor_CompressBlock_si s) + 4)) in
      let s1 := (set_Compressor_CompressBlock_si t0 s) in
      let s2 := (set_Compressor_CompressBlock_mLen t1 s1) in
      s2) ;;
    loop fuel (fun s => ((wi64 ((Compressor_CompressBlock_si s) + 8)) <=? (Compressor_CompressBlock_sn s))) (
      guard (fun s => (sl_slice_ok (Compressor_CompressBlock_src s) (Compressor_CompressBlock_si s) (s_len (Compressor_CompressBlock_src s)) (s_cap (Compressor_CompressBlock_src s)) && sl_le64_ok (sl_slice (Compressor_CompressBlock_src s) (Compressor_CompressBlock_si s) (s_len (Compressor_CompressBlock_src s)) (s_cap (Compressor_CompressBlock_src s))) && sl_slice_ok (Compressor_CompressBlock_src s) (wi64 ((Compressor_CompressBlock_si s) - (Compressor_CompressBlock_offset s))) (s_len (Compressor_CompressBlock_src s)) (s_cap (Compressor_CompressBlock_src s)) && sl_le64_ok (sl_slice (Compressor_CompressBlock_src s) (wi64 ((Compressor_CompressBlock_si s) - (Compressor_CompressBlock_offset s))) (s_len (Compressor_CompressBlock_src s)) (s_cap (Compressor_CompressBlock_src s))))) (
      upd (fun s => (set_Compressor_CompressBlock_x (Z.lxor (le64 (sl_slice (Compressor_CompressBlock_src s) (Compressor_CompressBlock_si s) (s_len (Compressor_CompressBlock_src s)) (s_cap (Compressor_CompressBlock_src s))) s) (le64 (sl_slice (Compressor_CompressBlock_src s) (wi64 ((Compressor_CompressBlock_si s) - (Compressor_CompressBlock_offset s))) (s_len (Compressor_CompressBlock_src s)) (s_cap (Compressor_CompressBlock_src s))) s)) s))) ;;
      ite (fun s => ((Compressor_CompressBlock_x s) =? 0)) (
        upd (fun s => (set_Compressor_CompressBlock_si (wi64 ((Compressor_CompressBlock_si s) + 8)) s))) (
        upd (fun s => (set_Compressor_CompressBlock_si (wi64 ((Compressor_CompressBlock_si s) + (Z.shiftr (ctz64 (Compressor_CompressBlock_x s)) 3))) s)) ;;
        brk)) skip ;;
    upd (fun s => (set_Compressor_CompressBlock_mLen (wi64 ((Compressor_CompressBlock_si s) - (Compressor_CompressBlock_mLen s))) s)) ;;
    K) (only parsing).

Lemma sub_zsub (src : list Z) (get : Z -> Z) a l :
  (forall i, 0 <= i < zlen src -> get i = znth src i) -> 0 <= a -> 0 <= l -> a + l <= zlen src ->
  sub get a l = zsub src a l.
Proof.
  intros Hget Ha Hl Hle. unfold sub.
  assert (Hlen : length (zsub src a l) = Z.to_nat l)
    by (unfold zsub, zlen in *; rewrite firstn_length, skipn_length; lia).
  rewrite <- Hlen. apply sub_from_ext. intros i Hi. rewrite Hlen in Hi.
  rewrite Hget by (unfold zlen in *; lia). unfold zsub, znth.
  rewrite nth_firstn_lt by lia. rewrite nth_skipn_add. f_equal. lia.
Qed.

Section Found.
Variables (src ssp : list Z) (dl dsp : Z) (get : Z -> Z).
Let n := zlen src.
Hypothesis Hget : forall i, 0 <= i < n -> get i = znth src i.
Hypothesis Hbytes : forall i, 0 <= i < n -> 0 <= get i < 256.
Hypothesis Hsmall : n + dl + dsp < 2 ^ 61.
Hypothesis Hdsp : 0 <= dsp.
Hypothesis Hdl : 0 <= dl.

Definition found_ok (M : list Z) (di0 : Z) (sq : BlockFormat.seq) (send : Z) (s s' : state) : Prop :=
  frame src ssp dl dsp s' /\ m_dst s' = img M di0 (enc_seq sq) /\ f_di s' = di0 + seq_size sq /\
  f_anchor s' = send /\ f_si s' = send /\ f_sn s' = f_sn s /\ f_notc s' = f_notc s /\
  mem_Compressor_table s' = mem_Compressor_table s /\ mem_Compressor_inUse s' = mem_Compressor_inUse s.

Lemma found_exec fuel K s M p a off di0 F :
  frame src ssp dl dsp s -> f_si s = p -> f_anchor s = a -> f_off s = off -> f_sn s = n - 14 ->
  f_di s = di0 -> m_dst s = M -> zlen M = dl + dsp ->
  0 <= a <= p -> p + 4 <= n -> 1 <= off <= p -> off < 65536 -> 0 <= di0 ->
  (Z.to_nat n < fuel)%nat -> (Z.to_nat dl < fuel)%nat -> enough n F (p + 4) ->
  let sq := fst (fseq get n F a p (p - off)) in
  let send := snd (fseq get n F a p (p - off)) in
  if dl <? di0 + seq_size sq then err_exit (FOUNDP fuel (emit fuel K) s)
  else exists s', FOUNDP fuel (emit fuel K) s = K s' /\ found_ok M di0 sq send s s'.
Proof.
  intros (S1 & S2 & S3) Ps As Os SNs Ds Ms HM Ha Hp Hoff Hoff2 Hdi0 Hfuel Hfuel2 HF.
  change (2 ^ 61) with 2305843009213693952 in *.
  pose proof (zlen_nonneg src) as Hn0. fold n in Hn0.
  unfold fseq. cbv zeta. cbn [fst snd]. change lz4block_minMatch with 4.
  replace (p - (p - off)) with off by lia.
  set (lL0 := p - a). set (b := bwd get (Z.to_nat lL0) p (p - off - 1) lL0).
  set (send := fwd get n F (p + 4) off).
  stp. rewrite Ps, As, Os.
  rewrite (wi64_id (p - a)), (wi64_id (p - off)), (wi64_id (p - off - 1)) by lia. fold lL0.
  (* the backward loop *)
  match goal with |- context [GoT.seq (loop fuel (fun _ => true) _ _) _ ?S] => set (Sa := S) end.
  destruct (bwd_exec src ssp dl dsp get Hget ltac:(fold n; lia) fuel Sa p (p - off - 1) lL0 4)
    as (t1 & Hl1 & (T1 & T2 & T3) & P1); subst Sa; unfold frame; lz4block_state_simpl; try (fold n; unfold lL0; lia); auto.
  unfold bwd_loop in Hl1. rewrite (seq_Fall _ _ _ _ Hl1). clear Hl1.
  unfold bwd_post in P1. cbv zeta in P1. fold b in P1.
  destruct P1 as (Q1 & Q2 & Q3 & Q4 & (k1 & k2 & k3 & k4 & k5 & k6 & k7 & k8)).
  revert k1 k2 k3 k4 k5 k6 k7 k8. lz4block_state_simpl. intros k1 k2 k3 k4 k5 k6 k7 k8.
  destruct (bwd_spec get (Z.to_nat lL0) p (p - off - 1) lL0) as (Hb0 & Hb1 & _). fold b in Hb0, Hb1.
  specialize (Hb1 ltac:(unfold lL0; lia)). unfold lL0 in Hb1.
  stp. rewrite Q1, Q4.
  rewrite (wi64_id (p - b + (4 + b))), (wi64_id (p - b + 4)) by lia.
  replace (p - b + (4 + b)) with (p + 4) by lia.
  (* the forward loop *)
  match goal with |- context [GoT.seq (loop fuel _ _ _) _ ?S] => set (Sb := S) end.
  destruct (fwd_exec src ssp dl dsp get Hget Hbytes ltac:(fold n; lia) fuel Sb (p + 4) off)
    as (t2 & Hl2 & (V1 & V2 & V3) & KF & HS); subst Sb; unfold frame; lz4block_state_simpl;
    try (fold n; lia); auto; try congruence.
  unfold fwd_loop in Hl2. rewrite (seq_Fall _ _ _ _ Hl2). clear Hl2.
  specialize (HS F HF). fold send in HS.
  destruct (fwd_spec get n off F (p + 4)) as (Hs1 & Hs2 & _). fold send in Hs1, Hs2.
  assert (Hsn : send <= n) by (unfold sn in Hs2; change lz4block_mfLimit with 14 in Hs2; fold n in Hs2; lia).
  destruct KF as ((g1 & g2 & g3 & g4 & g5 & g6 & g7 & g8) & g9 & g10 & g11).
  revert g1 g2 g3 g4 g5 g6 g7 g8 g9 g10 g11. lz4block_state_simpl. intros g1 g2 g3 g4 g5 g6 g7 g8 g9 g10 g11.
  stp. rewrite HS, g9. fold n. fold send. rewrite (wi64_id (send - (p - b + 4))) by lia.
  match goal with |- context [emit fuel K ?S] => set (Sc := S) end.
  pose proof (emit_exec src ssp dl dsp Hdsp Hsmall Hdl fuel K Sc M a (p - b - a) off (send - (p - b + 4)) di0 send) as E.
  assert (Hseq : the_seq src a (p - b - a) off (send - (p - b + 4)) =
                 {| lits := sub get a (p - b - a); off := off; mlen := send - (p - b) |}).
  { unfold the_seq. rewrite (sub_zsub src get a (p - b - a) Hget) by (fold n; lia).
    f_equal. lia. }
  rewrite Hseq in E.
  assert (PE : if dl <? di0 + seq_size {| lits := sub get a (p - b - a); off := off; mlen := send - (p - b) |}
               then err_exit (emit fuel K Sc)
               else exists s', emit fuel K Sc = K s' /\ frame src ssp dl dsp s' /\ keeps Sc s' /\
                      emit_ok src M a (p - b - a) off (send - (p - b + 4)) di0 send s').
  { apply E; subst Sc; unfold frame; lz4block_state_simpl; try (fold n; lia); auto; try congruence. }
  clear E.
  destruct (dl <? di0 + seq_size {| lits := sub get a (p - b - a); off := off; mlen := send - (p - b) |}); [exact PE|].
  destruct PE as (s' & Es & Fs' & (e1 & e2 & e3 & e4 & e5 & e6 & e7) & (o1 & o2 & o3)).
  revert e1 e2 e3 e4 e5 e6 e7. subst Sc. lz4block_state_simpl. intros e1 e2 e3 e4 e5 e6 e7.
  exists s'. split; [exact Es|]. unfold found_ok.
  split; [exact Fs'|]. split; [rewrite o1, Hseq; reflexivity|]. split; [rewrite o2, Hseq; reflexivity|].
  split; [exact o3|]. split; [rewrite e1, HS; reflexivity|]. repeat split; congruence.
Qed.

End Found.
