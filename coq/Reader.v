(* Reader.v — model of the sequential Reader (reader.go, internal/lz4stream frame.go/block.go
   read side, state.go) over the operations Apply / Read n / WriteTo / Size / Reset, reading from
   a source given as the remaining bytes plus a call counter and a fault oracle (the k-th Read
   call on the source fails); the source delivers what is asked when it can (fragmentation is
   shown irrelevant separately: io.ReadFull).  Block decoding is the block-format specification
   (the decoders refine it: DecodeAsmProofs / DecodePortableProofs). *)
From LZ4V Require Import Base GenBlock GenStream GenLz4 XXH32 BlockFormat BlockExec FrameImpl Writer.

Record source := mksrc { s_rem : list Z; s_calls : Z; s_fail : Z; s_consumed : Z }.

(* n bytes from the front, or fewer when the list is shorter *)
Fixpoint take_upto (n : Z) (l : list Z) (acc : list Z) {struct l} : list Z * list Z :=
  if n <=? 0 then (rrev acc, l) else
  match l with [] => (rrev acc, []) | x :: r => take_upto (n - 1) r (x :: acc) end.

(* io.ReadFull(src, buf) with len(buf) = n: bytes read, error class, source afterwards *)
Definition read_full (s : source) (n : Z) : list Z * ecls * source :=
  if n <=? 0 then ([], ENil, s) else
  let c1 := s_calls s + 1 in
  if (0 <? s_fail s) && (s_fail s <=? c1) then ([], EInjected, mksrc (s_rem s) c1 (s_fail s) (s_consumed s)) else
  match s_rem s with
  | [] => ([], EEOF, mksrc [] c1 (s_fail s) (s_consumed s))
  | _ =>
    let '(got, rest) := take_upto n (s_rem s) [] in
    let s1 := mksrc rest c1 (s_fail s) (s_consumed s + len got) in
    if len got =? n then (got, ENil, s1)
    else
      let c2 := c1 + 1 in
      if (0 <? s_fail s) && (s_fail s <=? c2) then (got, EInjected, mksrc rest c2 (s_fail s) (s_consumed s1))
      else (got, EUEOF, mksrc rest c2 (s_fail s) (s_consumed s1))
  end.

Definition u32_of (l : list Z) : Z := le32 (nth 0 l 0) (nth 1 l 0) (nth 2 l 0) (nth 3 l 0).
Definition read_u32 (s : source) : Z * ecls * source :=
  let '(b, e, s1) := read_full s 4 in (u32_of b, e, s1).

(* the repaired mapping: a source that ends inside a frame is io.ErrUnexpectedEOF *)
Definition unexpected (e : ecls) : ecls := match e with EEOF => EUEOF | _ => e end.

Record reader := mkr {
  r_state : Z; r_serr : ecls; r_num : Z;
  r_src : source;
  r_magic : Z; r_flags : Z; r_csize : Z;
  r_content : list Z;       (* bytes fed to the content checksum *)
  r_data : list Z;          (* r.data[r.idx:] — decoded bytes not yet delivered *)
  r_dict : list Z; r_cum : Z
}.

Definition rset_state (r : reader) (st : Z) (e : ecls) : reader :=
  mkr st e (r_num r) (r_src r) (r_magic r) (r_flags r) (r_csize r) (r_content r) (r_data r) (r_dict r) (r_cum r).
Definition rset_src (r : reader) (s : source) : reader :=
  mkr (r_state r) (r_serr r) (r_num r) s (r_magic r) (r_flags r) (r_csize r) (r_content r) (r_data r) (r_dict r) (r_cum r).
Definition rst_next (r : reader) (e : ecls) : reader :=
  match e with
  | ENil => rset_state r (state_next lz4_readerStates (r_state r)) (r_serr r)
  | _ => rset_state r lz4_errorState e
  end.
Definition rst_check (r : reader) (e : ecls) : reader :=
  if r_state r =? lz4_errorState then r else
  match e with
  | ENil => r
  | EEOF => rset_state r (r_state r) e
  | _ => rset_state r lz4_errorState e
  end.

Definition FrameSpec_u64 (l : list Z) : option Z :=
  match l with
  | a :: b :: c :: d :: e :: f :: g :: h :: _ =>
    Some (le32 a b c d + 4294967296 * le32 e f g h)
  | _ => None
  end.

(* Frame.ParseHeaders + FrameDescriptor.initR; fuel bounds the number of skippable frames *)
Fixpoint parse_headers (fuel : nat) (s : source) : ecls * source * (Z * Z * Z) :=
  match fuel with O => (EOther, s, (0, 0, 0)) | S f =>
  let '(m, e, s1) := read_u32 s in
  match e with
  | ENil =>
    if (m =? lz4stream_frameMagic) || (m =? lz4stream_frameMagicLegacy) then
      if m =? lz4stream_frameMagicLegacy then
        (ENil, s1, (m, lz4stream_DescriptorFlags_BlockSizeIndexSet 0 (lz4block_Index lz4block_Block8Mb), 0))
      else
        let '(b3, e3, s2) := read_full s1 3 in
        match e3 with
        | ENil =>
          let fl := nth 0 b3 0 + 256 * nth 1 b3 0 in
          if lz4stream_DescriptorFlags_Size fl then
            let '(b8, e8, s3) := read_full s2 8 in
            match e8 with
            | ENil =>
              let all := b3 ++ b8 in             (* flags(2) x(1) size bytes... : buf[2:10] is the size *)
              let csize := match FrameSpec_u64 (skipn 2 all) with Some v => v | None => 0 end in
              let cks := nth 10 all 0 in
              let desc := firstn 10 all in
              if cks =? (Z.shiftr (checksum_zero desc) 8) mod 256
              then if lz4block_BlockSizeIndex_IsValid (lz4stream_DescriptorFlags_BlockSizeIndex fl)
                   then (ENil, s3, (m, fl, csize)) else (EBlkSize, s3, (m, fl, csize))
              else (EHdrSum, s3, (m, fl, csize))
            | _ => (unexpected e8, s3, (m, fl, 0))
            end
          else
            let cks := nth 2 b3 0 in
            if cks =? (Z.shiftr (checksum_zero (firstn 2 b3)) 8) mod 256
            then if lz4block_BlockSizeIndex_IsValid (lz4stream_DescriptorFlags_BlockSizeIndex fl)
                 then (ENil, s2, (m, fl, 0)) else (EBlkSize, s2, (m, fl, 0))
            else (EHdrSum, s2, (m, fl, 0))
        | _ => (unexpected e3, s2, (m, 0, 0))
        end
    else if Z.shiftr m 4 =? Z.shiftr lz4stream_frameSkipMagic 4 then
      let '(skip, e2, s2) := read_u32 s1 in
      match e2 with
      | ENil =>
        (* io.CopyN(ioutil.Discard, src, skip) *)
        let '(got, rest) := take_upto skip (s_rem s2) [] in
        let s3 := mksrc rest (s_calls s2 + 1) (s_fail s2) (s_consumed s2 + len got) in
        if len got =? skip then parse_headers f s3 else (EUEOF, s3, (m, 0, 0))
      | _ => (unexpected e2, s2, (m, 0, 0))
      end
    else (EBadFrame, s1, (m, 0, 0))
  | _ => (e, s1, (0, 0, 0))
  end end.

Definition is_legacy (r : reader) : bool := r_magic r =? lz4stream_frameMagicLegacy.
Definition r_bsz (r : reader) : Z := bsize_of_idx (lz4stream_DescriptorFlags_BlockSizeIndex (r_flags r)).

(* Reader.init *)
Definition r_init (r : reader) : reader * ecls :=
  let '(e, s1, (m, fl, cs)) :=
    if 0 <? r_magic r then (ENil, r_src r, (r_magic r, r_flags r, r_csize r))
    else parse_headers (S (length (s_rem (r_src r)))) (r_src r) in
  let num := if lz4stream_DescriptorFlags_BlockIndependence fl then r_num r else 1 in
  match e with
  | ENil => (mkr (r_state r) (r_serr r) num s1 m fl cs [] [] (r_dict r) 0, ENil)
  | _ => (mkr (r_state r) (r_serr r) (r_num r) s1 m (if m =? lz4stream_frameMagic then fl else r_flags r) cs (r_content r) (r_data r) (r_dict r) (r_cum r), e)
  end.

(* skip repeated legacy magics (a loop in the repaired code) *)
Fixpoint skip_legacy_magic (fuel : nat) (s : source) (x : Z) (e : ecls) : Z * ecls * source :=
  match fuel with O => (x, e, s) | S f =>
    match e with
    | ENil => if x =? lz4stream_frameMagicLegacy then let '(x', e', s') := read_u32 s in skip_legacy_magic f s' x' e'
              else (x, e, s)
    | _ => (x, e, s)
    end
  end.

(* FrameDataBlock.Read then Uncompress, as Reader.read drives them.
   cap = how many bytes the destination may take (the block size, also when decoding directly into
   the caller's buffer).  Result: decoded bytes or the error. *)
Definition r_read_block (r : reader) : reader * ecls * list Z :=
  let legacy := is_legacy r in
  let '(x0, e0, s0) := read_u32 (r_src r) in
  let '(x, e, s1) := if legacy then skip_legacy_magic (S (length (s_rem (r_src r)))) s0 x0 e0 else (x0, e0, s0) in
  let r1 := rset_src r s1 in
  match e with
  | ENil =>
    if (if legacy then x =? r_cum r else x =? 0) then (r1, EEOF, [])
    else
      let size := lz4stream_DataBlockSize_size x in
      if r_bsz r <? size then (r1, EBlkSize, [])
      else
        let '(stored, e2, s2) := read_full s1 size in
        match e2 with
        | ENil =>
          let '(cks, e3, s3) := if lz4stream_DescriptorFlags_BlockChecksum (r_flags r) then read_u32 s2 else (0, ENil, s2) in
          match e3 with
          | ENil =>
            let r2 := rset_src r s3 in
            let dec := if lz4stream_DataBlockSize_Uncompressed x then Some stored
                       else match stored with [] => Some [] | _ => spec_decode_x stored (r_dict r) (r_bsz r) end in
            match dec with
            | None => (r2, EShort, [])
            | Some d =>
              if lz4stream_DescriptorFlags_BlockChecksum (r_flags r) && negb (cks =? checksum_zero d) then (r2, EBlkSum, [])
              else
                let content := if lz4stream_DescriptorFlags_ContentChecksum (r_flags r) then r_content r ++ d else r_content r in
                let dict :=
                  if lz4stream_DescriptorFlags_BlockIndependence (r_flags r) then r_dict r
                  else
                    let dk := r_dict r in
                    let dk := if 131072 <? len dk + len d
                              then let keep := Z.max 0 (65536 - len d) in skipn (Z.to_nat (len dk - keep)) dk
                              else dk in
                    dk ++ d in
                (mkr (r_state r) (r_serr r) (r_num r) s3 (r_magic r) (r_flags r) (r_csize r) content (r_data r) dict
                     ((r_cum r + len d) mod 4294967296), ENil, d)
            end
          | _ => (rset_src r s3, unexpected e3, [])
          end
        | _ => (rset_src r s2, unexpected e2, [])
        end
  | _ => (r1, if legacy then e else unexpected e, [])
  end.

(* Frame.CloseR *)
Definition r_close (r : reader) : reader * ecls :=
  if is_legacy r || negb (lz4stream_DescriptorFlags_ContentChecksum (r_flags r)) then (r, ENil)
  else
    let '(c, e, s1) := read_u32 (r_src r) in
    match e with
    | ENil => (rset_src r s1, if c =? xsum32 (xwrite xzero (r_content r)) then ENil else EFrmSum)
    | _ => (rset_src r s1, unexpected e)
    end.

Definition rset_data (r : reader) (d : list Z) : reader :=
  mkr (r_state r) (r_serr r) (r_num r) (r_src r) (r_magic r) (r_flags r) (r_csize r) (r_content r) d (r_dict r) (r_cum r).

(* the loop of Reader.Read: want = len(buf) still to fill; out = bytes delivered so far (reversed chunks) *)
Fixpoint r_read_loop (fuel : nat) (r : reader) (want : Z) (out : list Z) : reader * list Z * ecls :=
  match fuel with O => (r, out, EOther) | S f =>
  if want <=? 0 then (r, out, ENil) else
  match r_data r with
  | [] =>
    let '(r1, e, d) := r_read_block r in
    match e with
    | ENil =>
      let '(now, later) := take_upto want d [] in
      r_read_loop f (rset_data r1 later) (want - len now) (out ++ now)
    | EEOF =>
      let '(r2, e2) := r_close r1 in
      (match e2 with ENil => rst_next (rset_data r2 []) ENil | _ => rset_data r2 [] end, out, match e2 with ENil => EEOF | _ => e2 end)
    | _ => (r1, out, e)
    end
  | d =>
    let '(now, later) := take_upto want d [] in
    r_read_loop f (rset_data r later) (want - len now) (out ++ now)
  end end.

Inductive rop := RApply (conc : option Z) (other : bool) | RRead (n : Z) | RWriteTo | RSize | RReset (data : list Z).
Inductive rres := RRes (n : Z) (e : ecls) (data : list Z) | RErr (e : ecls) | RSz (n : Z) | RNone.

(* WriteTo: every block is decoded and written to the sink (never failing here) *)
Fixpoint r_writeto_loop (fuel : nat) (r : reader) (out : list Z) : reader * list Z * ecls :=
  match fuel with O => (r, out, EOther) | S f =>
  let '(r1, e, d) := r_read_block r in
  match e with
  | ENil => r_writeto_loop f r1 (out ++ d)
  | EEOF => let '(r2, e2) := r_close r1 in (r2, out, e2)
  | _ => (r1, out, e)
  end end.

Definition rstep (r : reader) (op : rop) : reader * rres :=
  match op with
  | RApply conc other =>
    if r_state r =? lz4_newState then
      if other then (rst_check r ENotApp, RErr ENotApp)
      else (match conc with
            | Some n => mkr (r_state r) (r_serr r) n (r_src r) (r_magic r) (r_flags r) (r_csize r) (r_content r) (r_data r) (r_dict r) (r_cum r)
            | None => r end, RErr ENil)
    else if r_state r =? lz4_errorState then (r, RErr (r_serr r))
    else (rst_check r EClosed, RErr EClosed)
  | RRead n =>
    let fuel := S (length (s_rem (r_src r)) + length (r_data r)) in
    let run (r : reader) :=
      let '(r1, out, e) := r_read_loop fuel r n [] in (rst_check r1 e, RRes (len out) e out) in
    if r_state r =? lz4_readState then run r
    else if r_state r =? lz4_closedState then (rst_check r EEOF, RRes 0 EEOF [])
    else if r_state r =? lz4_errorState then (r, RRes 0 (r_serr r) [])
    else if r_state r =? lz4_newState then
      let '(r1, e) := r_init r in
      let r2 := rst_next r1 e in
      match e with ENil => run r2 | _ => (r2, RRes 0 e []) end
    else (rset_state r lz4_errorState EUnhandled, RRes 0 EUnhandled [])
  | RWriteTo =>
    let fuel := S (length (s_rem (r_src r))) in
    let run (r : reader) :=
      let '(r1, out, e) := r_writeto_loop fuel (rset_data r []) [] in (rst_next r1 e, RRes (len out) e out) in
    if r_state r =? lz4_closedState then (r, RRes 0 ENil [])
    else if r_state r =? lz4_errorState then (r, RRes 0 (r_serr r) [])
    else if r_state r =? lz4_newState then
      let '(r1, e) := r_init r in
      let r2 := rst_next r1 e in
      match e with ENil => run r2 | _ => (r2, RRes 0 e []) end
    else (rset_state r lz4_errorState EUnhandled, RRes 0 EUnhandled [])
  | RSize =>
    (r, RSz (if ((r_state r =? lz4_readState) || (r_state r =? lz4_closedState)) && lz4stream_DescriptorFlags_Size (r_flags r)
             then (if r_csize r <? 9223372036854775808 then r_csize r else r_csize r - 18446744073709551616) else 0))
  | RReset data =>
    (mkr lz4_newState ENil (r_num r) (mksrc data 0 0 0) 0 (r_flags r) 0 [] [] [] (r_cum r), RNone)
  end.

Definition new_reader (s : source) : reader := mkr lz4_newState ENil 1 s 0 0 0 [] [] [] 0.

Fixpoint run_reader (r : reader) (ops : list rop) : reader * list rres :=
  match ops with
  | [] => (r, [])
  | op :: tl => let '(r1, res) := rstep r op in let '(r2, rs) := run_reader r1 tl in (r2, res :: rs)
  end.
