(* XXH32.v — reference XXH32 (seed 0) and the models of internal/xxh32/xxh32zero.go.
   Constants and the rotations come from GenXXH.v (translated from the source on every run). *)
From LZ4V Require Import Base GenXXH.

(* ---- specification primitives: XXH32's own constants, written out (never taken from the code) ---- *)
Definition P1 : Z := 2654435761.
Definition P2 : Z := 2246822519.
Definition P3 : Z := 3266489917.
Definition P4 : Z := 668265263.
Definition P5 : Z := 374761393.
(* rotate-left of a 32-bit word *)
Definition rol (r x : Z) : Z := Z.lor (w32 (Z.shiftl x r)) (Z.shiftr x (32 - r)).

Definition round (v x : Z) : Z := w32 (rol 13 (w32 (v + w32 (x * P2))) * P1).
Definition lanes := (Z * Z * Z * Z)%type.
Definition stripe (v : lanes) (l : list Z) : lanes :=
  let '(a, b, c, d) := v in
  (round a (word l 0), round b (word l 4), round c (word l 8), round d (word l 12)).
Definition merge (v : lanes) : Z :=
  let '(a, b, c, d) := v in
  w32 (w32 (w32 (rol 1 a + rol 7 b) + rol 12 c) + rol 18 d).
Definition step4 (h : Z) (l : list Z) : Z := w32 (rol 17 (w32 (h + w32 (word l 0 * P3))) * P4).
Definition step1 (h b : Z) : Z := w32 (rol 11 (w32 (h + w32 (b * P5))) * P1).
Definition avalanche (h : Z) : Z :=
  let h := Z.lxor h (Z.shiftr h 15) in let h := w32 (h * P2) in
  let h := Z.lxor h (Z.shiftr h 13) in let h := w32 (h * P3) in
  Z.lxor h (Z.shiftr h 16).

(* ==== reference: XXH32 with seed 0, count-shaped ==== *)
Definition ref_init : lanes := (w32 (P1 + P2), P2, 0, w32 (- P1)).

Fixpoint stripes_n (k : nat) (v : lanes) (l : list Z) : lanes :=
  match k with O => v | S k' => stripes_n k' (stripe v l) (skipn 16 l) end.
Definition nfull (l : list Z) : nat := (length l / 16)%nat.
Definition lanes_of (v : lanes) (l : list Z) : lanes := stripes_n (nfull l) v l.
Definition tail_of (l : list Z) : list Z := skipn (16 * nfull l) l.

Fixpoint tail4_n (k : nat) (h : Z) (l : list Z) : Z :=
  match k with O => h | S k' => tail4_n k' (step4 h l) (skipn 4 l) end.
Fixpoint tail1 (h : Z) (l : list Z) : Z :=
  match l with [] => h | b :: r => tail1 (step1 h b) r end.
Definition finish (h : Z) (l : list Z) : Z :=
  let k := (length l / 4)%nat in avalanche (tail1 (tail4_n k h l) (skipn (4 * k) l)).

Definition xxh32_ref (l : list Z) : Z :=
  let n := len l in
  let h0 := if n <? 16 then P5 else merge (lanes_of ref_init l) in
  finish (w32 (h0 + n)) (tail_of l).

(* ==== implementation models (loop-shaped, as the Go code) ==== *)

(* implementation primitives: primes and rotations as translated from the source (GenXXH.v) *)
Definition round_i (v x : Z) : Z :=
  w32 (xxh32_rol13 (w32 (v + w32 (x * xxh32_prime2))) * xxh32_prime1).
Definition stripe_i (v : lanes) (l : list Z) : lanes :=
  let '(a, b, c, d) := v in
  (round_i a (word l 0), round_i b (word l 4), round_i c (word l 8), round_i d (word l 12)).
Definition merge_i (v : lanes) : Z :=
  let '(a, b, c, d) := v in
  w32 (w32 (w32 (xxh32_rol1 a + xxh32_rol7 b) + xxh32_rol12 c) + xxh32_rol18 d).
Definition step4_i (h : Z) (l : list Z) : Z :=
  w32 (xxh32_rol17 (w32 (h + w32 (word l 0 * xxh32_prime3))) * xxh32_prime4).
Definition step1_i (h b : Z) : Z :=
  w32 (xxh32_rol11 (w32 (h + w32 (b * xxh32_prime5))) * xxh32_prime1).
Definition avalanche_i (h : Z) : Z :=
  let h := Z.lxor h (Z.shiftr h 15) in let h := w32 (h * xxh32_prime2) in
  let h := Z.lxor h (Z.shiftr h 13) in let h := w32 (h * xxh32_prime3) in
  Z.lxor h (Z.shiftr h 16).
Fixpoint tail1_i (h : Z) (l : list Z) : Z :=
  match l with [] => h | b :: r => tail1_i (step1_i h b) r end.

(* seeds as assigned by the code *)
Definition reset_lanes : lanes :=
  (xxh32_XXHZero_Reset_xxh_v_0, xxh32_XXHZero_Reset_xxh_v_1,
   xxh32_XXHZero_Reset_xxh_v_2, xxh32_XXHZero_Reset_xxh_v_3).
Definition oneshot_lanes : lanes :=
  (xxh32_checksumZeroGo_v1, xxh32_checksumZeroGo_v2, xxh32_checksumZeroGo_v3, xxh32_checksumZeroGo_v4).

(* `for ; len(input) >= 16; input = input[16:]` *)
Fixpoint stripes_loop (fuel : nat) (v : lanes) (l : list Z) : lanes * list Z :=
  match fuel with
  | O => (v, l)
  | S f => if (16 <=? length l)%nat then stripes_loop f (stripe_i v l) (skipn 16 l) else (v, l)
  end.
(* `for n := n - 4; p <= n; p += 4` *)
Fixpoint tail4_loop (fuel : nat) (h : Z) (l : list Z) : Z * list Z :=
  match fuel with
  | O => (h, l)
  | S f => if (4 <=? length l)%nat then tail4_loop f (step4_i h l) (skipn 4 l) else (h, l)
  end.
Definition finish_impl (h : Z) (l : list Z) : Z :=
  let '(h, r) := tail4_loop (length l) h l in avalanche_i (tail1_i h r).

(* checksumZeroGo *)
Definition checksum_zero (l : list Z) : Z :=
  let n := len l in
  let h32 := w32 n in
  if n <? 16 then finish_impl (w32 (h32 + xxh32_checksumZeroGo_h32)) l
  else let '(v, r) := stripes_loop (length l) oneshot_lanes l in
       finish_impl (w32 (h32 + merge_i v)) r.

(* XXHZero: v, totalLen (uint64), buf[:bufused] *)
Record xst := mkx { xv : lanes; xtotal : Z; xbuf : list Z }.
Definition xzero : xst := mkx (0, 0, 0, 0) 0 [].

(* Write: `if totalLen == 0 { Reset() }`, buffer while fewer than 16 pending,
   else complete the pending stripe, run the full stripes, keep the tail. *)
Definition xwrite (st : xst) (inp : list Z) : xst :=
  let v0 := if xtotal st =? 0 then reset_lanes else xv st in
  let b0 := if xtotal st =? 0 then [] else xbuf st in
  let n := length inp in let m := length b0 in
  let t := w64 (xtotal st + Z.of_nat n) in
  if (n <? 16 - m)%nat then mkx v0 t (b0 ++ inp)
  else
    let '(v1, inp1) := if (m =? 0)%nat then (v0, inp)
                       else (stripe_i v0 (b0 ++ firstn (16 - m) inp), skipn (16 - m) inp) in
    let '(v2, r) := stripes_loop (length inp1) v1 inp1 in
    mkx v2 t r.

(* Sum32.  [trunc] selects the guard: false = `totalLen >= 16` (the repaired code),
   true = `uint32(totalLen) >= 16` (the tree as first found, finding F5). *)
Definition xsum32_g (trunc : bool) (st : xst) : Z :=
  let h32 := w32 (xtotal st) in
  let g := if trunc then 16 <=? h32 else 16 <=? xtotal st in
  let h := if g then w32 (h32 + merge_i (xv st)) else w32 (h32 + xxh32_prime5) in
  finish_impl h (xbuf st).
Definition xsum32 := xsum32_g false.
