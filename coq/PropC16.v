(* C16 — Frames with dependent blocks decode exactly across the 64 KiB window. *)
From LZ4V Require Import Base GenBlock GenStream GenLz4 XXH32 BlockFormat FrameSpec FrameImpl Writer Reader FrameTheoremsSpec ReaderProofs.
(* the frame specification decodes each block of a dependent-block frame against the last 64 KiB of
   ALL previous output (window64k), whatever the sizes of the previous blocks, raw or compressed.  For
   every input the specification accepts — in particular every dependent-block frame of any encoder —
   the Reader model delivers exactly the specification's content (its trimmed dictionary and the
   specification's window decode identically: offsets never exceed 65535), through WriteTo ... *)
Theorem C16_dependent_frames : forall input out k, bytes input -> not_legacy input -> len input < 2 ^ 42 ->
  frame_spec Decoded false input = Some (out, k) ->
  exists r', rstep (new_reader (src_of input)) RWriteTo = (r', RRes (len out) ENil out) /\ s_consumed (r_src r') = k
             /\ r_state r' = lz4_closedState.
Proof. exact reader_complete_fixed_small. Qed.
Print Assumptions C16_dependent_frames.
(* ... and through Read with every buffer size *)
Theorem C16_read : reader_read_eq_writeto_stmt.   Proof. exact reader_read_eq_writeto. Qed.
Print Assumptions C16_read.
