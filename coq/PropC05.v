(* C05 — Reader acceptance is sound: integrity fields are always enforced. *)
From LZ4V Require Import Base GenBlock GenStream GenLz4 XXH32 BlockFormat FrameSpec FrameImpl Writer Reader FrameTheoremsSpec ReaderProofs HeaderSpec HeaderProofs.
(* for EVERY byte string whose first frame is not a legacy frame: whenever the Reader model completes
   without error, the frame specification (an independent parser: header checksum, block-size code,
   every block within the declared maximum and decoding under the block-format specification, every
   declared block checksum, end mark, content checksum) accepts the same input, yields the same
   output and has consumed the same number of bytes.  Checksum domain: decoded bytes (finding F10);
   non-strict descriptor reading (the Reader ignores version/reserved bits and the declared size) *)
Theorem C05_sound : forall input r' n out, bytes input -> not_legacy input -> len input < 2 ^ 42 ->
  rstep (new_reader (src_of input)) RWriteTo = (r', RRes n ENil out) ->
  frame_spec Decoded false input = Some (out, s_consumed (r_src r')) /\ n = len out.
Proof. exact reader_sound_fixed_small. Qed.
Print Assumptions C05_sound.
(* and conversely: nothing the specification accepts is refused or altered *)
Theorem C05_complete : forall input out k, bytes input -> not_legacy input -> len input < 2 ^ 42 ->
  frame_spec Decoded false input = Some (out, k) ->
  exists r', rstep (new_reader (src_of input)) RWriteTo = (r', RRes (len out) ENil out) /\ s_consumed (r_src r') = k
             /\ r_state r' = lz4_closedState.
Proof. exact reader_complete_fixed_small. Qed.
Print Assumptions C05_complete.
(* the same through Read with any buffer size *)
Theorem C05_read : reader_read_eq_writeto_stmt.   Proof. exact reader_read_eq_writeto. Qed.
Print Assumptions C05_read.
(* legacy frames have no integrity fields; the full statement including them is FALSE of the model
   (and of the code): a size word equal to the number of bytes decoded so far ends a legacy stream
   (Linux-kernel trailer convention), which the format does not know *)
Theorem C05_legacy_refuted : ~ reader_sound_stmt. Proof. exact reader_sound_refuted. Qed.
Print Assumptions C05_legacy_refuted.
(* header checksum and block-size code: exact for every header *)
Theorem C05_header_exact : header_exact_stmt.     Proof. exact header_exact. Qed.
Print Assumptions C05_header_exact.
