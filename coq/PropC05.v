(* C05 — provisional property file: the Reader-side theorems are being proved in ReaderProofs.v /
   LifecycleProofs.v; until they are integrated this file carries the header-level facts already closed. *)
From LZ4V Require Import Base GenBlock GenStream GenLz4 XXH32 FrameImpl Writer Reader HeaderSpec HeaderProofs.
Theorem C05_header_exact : header_exact_stmt.         Proof. exact header_exact. Qed.
Print Assumptions C05_header_exact.
Theorem C05_skippable_exact : header_skippable_stmt.  Proof. exact header_skippable. Qed.
Print Assumptions C05_skippable_exact.
Theorem C05_badmagic : header_badmagic_stmt.          Proof. exact header_badmagic. Qed.
Print Assumptions C05_badmagic.
