(* LegacyProofs.v — proofs of the statements of LegacySpec.v (legacy frames: Writer -> Reader).

   Refutation (vm_compute on a 3-byte session, identical bytes on the Go code):
     legacy_witness, legacy_witness2, legacy_roundtrip_refuted
   The round trip, for EVERY accepted option list with LegacyOption, every session of writes and
   flushes, any content length (no 2^32 / 2^64 bound), blocks stored raw included:
     legacy_roundtrip            under legacy_unambiguous o items = true
     legacy_ambiguous_truncates  the converse: otherwise a clean end on a strict prefix
     legacy_roundtrip_iff        hence the side condition is exact
     legacy_magic_clause_redundant, legacy_word   the side condition in closed form
   Sessions unambiguous by construction:
     legacy_one_block, legacy_small_noflush (writes without Flush, at most 8 MiB), legacy_empty
   Sessions without Flush:
     legacy_noflush_char               the two possible clashes (block k = 1 mod 512 compressed to
                                       exactly 8 MiB; block k = 257 mod 512 full and stored raw)
     legacy_noflush_below_2056MiB      round trip below 258 blocks
     legacy_incompressible_truncates   a 258th block that does not compress ends the stream

   How it is proved.  Nothing of ReaderProofs' frame-specification correspondence is used (it needs
   not_legacy); the legacy block loop is followed directly: [linv] (legacy magic and flags, a
   fault-free source, r_cum = running total mod 2^32) is kept by r_read_block on one emitted block
   (legacy_read_block_accept), a word equal to the total ends the stream (legacy_read_block_stop),
   so does the end of the source (legacy_read_block_end); legacy_loop folds them over the blocks.
   The Reader decodes a legacy block against the preceding blocks (its flags say "dependent");
   a block of the legacy Writer never refers to them: spec_decode_nodict (a block that decodes with
   the empty dictionary decodes alike with any dictionary and any larger capacity).
   Reused: WriterProofs.writer_session (sink = frame_of_items, any options), the compressor
   contract (FrameEncodeProofs.compress_level_contract), ReaderProofs.reader_read_eq_writeto
   (Read = WriteTo, any input), ReaderProofs.r_read_block_eq / rstep_writeto_new / read_full_exact. *)
From Coq Require Import ZifyBool.
From LZ4V Require Import Base GenBlock GenStream GenLz4 XXH32 BlockFormat BlockExec CompressFast
  FrameSpec FrameImpl Writer Reader FrameTheoremsSpec Lifecycle ReaderSpec2 LegacySpec.
From LZ4V Require BlockFormatProofs BlockExecProofs BlockTheorems BlockTheoremsSpec WriterProofs FrameEncodeProofs
  FrameEncodeItems ReaderProofs ReaderProofs2.

Ltac Zify.zify_post_hook ::= Z.div_mod_to_equations.

(* ====================================================================== *)
(* 1. the witness: the naive legacy round trip is false                   *)
(* ====================================================================== *)

Theorem legacy_witness : legacy_witness_stmt.
Proof.
  unfold legacy_witness_stmt.
  split; [vm_compute; reflexivity|].
  split; [vm_compute; split; reflexivity|].
  split; [vm_compute; reflexivity|].
  split; [eexists; vm_compute; split; [reflexivity|split; reflexivity]|].
  split; eexists; vm_compute; reflexivity.
Qed.
Print Assumptions legacy_witness.

Theorem legacy_witness2 : legacy_witness2_stmt.
Proof.
  unfold legacy_witness2_stmt. cbv zeta.
  split; [vm_compute; reflexivity|].
  split; [vm_compute; reflexivity|].
  eexists; vm_compute; split; reflexivity.
Qed.
Print Assumptions legacy_witness2.

Theorem legacy_roundtrip_refuted : legacy_roundtrip_refuted_stmt.
Proof.
  intros H.
  assert (Hopt : opts_after lw_os = Some (mkfo 28676 0 0 true)) by (vm_compute; reflexivity).
  assert (Hit : Forall (fun i => match i with IWrite d => bytes d | IFlush => True end) lw_items).
  { unfold lw_items. repeat constructor; unfold is_byte; lia. }
  assert (Hcs : fo_csize (mkfo 28676 0 0 true) <= 0 \/ fo_csize (mkfo 28676 0 0 true) = len (data_of lw_items))
    by (left; cbn [fo_csize]; lia).
  assert (Hlen : len (data_of lw_items) < 2 ^ 64) by (vm_compute; reflexivity).
  specialize (H lw_os _ lw_items 1 Hopt eq_refl Hit Hcs Hlen ltac:(lia)).
  cbv zeta in H. destruct H as [(r' & Hr & _) _].
  vm_compute in Hr. discriminate Hr.
Qed.
Print Assumptions legacy_roundtrip_refuted.

(* ====================================================================== *)
(* 2. blocks: a block that decodes without a dictionary decodes alike with any *)
(* ====================================================================== *)

Lemma byte_at_nodict rd rout o b : byte_at [] rout o = Some b -> byte_at rd rout o = Some b.
Proof.
  unfold byte_at. destruct (o <=? 0); [discriminate|].
  destruct (o <=? len rout); [trivial|].
  destruct (Z.to_nat (o - 1 - len rout)); discriminate.
Qed.

Lemma copy_match_nodict rd n : forall rout o r, copy_match n [] rout o = Some r -> copy_match n rd rout o = Some r.
Proof.
  induction n as [|n IH]; intros rout o r H; cbn [copy_match] in *; [exact H|].
  destruct (byte_at [] rout o) as [b|] eqn:E; [|discriminate].
  rewrite (byte_at_nodict rd _ _ _ E). apply IH. exact H.
Qed.

Lemma exec_seq_nodict rd cap rout s r : exec_seq [] cap rout s = Some r -> exec_seq rd cap rout s = Some r.
Proof.
  unfold exec_seq. destruct (cap <? _); [discriminate|].
  destruct (copy_match _ [] _ _) as [x|] eqn:E; [|discriminate].
  rewrite (copy_match_nodict rd _ _ _ _ E). trivial.
Qed.

Lemma expand_nodict rd cap : forall ss rout r, expand [] cap rout ss = Some r -> expand rd cap rout ss = Some r.
Proof.
  induction ss as [|s ss IH]; intros rout r H; cbn [expand] in *; [exact H|].
  destruct (exec_seq [] cap rout s) as [x|] eqn:E; [|discriminate].
  rewrite (exec_seq_nodict rd _ _ _ _ E). apply IH. exact H.
Qed.

Lemma expand_parse_nodict rd cap rout p r : expand_parse [] cap rout p = Some r -> expand_parse rd cap rout p = Some r.
Proof.
  unfold expand_parse. destruct (expand [] cap rout (fst p)) as [x|] eqn:E; [|discriminate].
  rewrite (expand_nodict rd _ _ _ _ E). trivial.
Qed.

(* decoding an encoded parse: success without a dictionary is success, with the same output, with
   any dictionary and any larger capacity *)
Lemma spec_decode_nodict p dict c1 c2 out : wf_parse p -> c1 <= c2 ->
  spec_decode (encode p) [] c1 = Some out -> spec_decode (encode p) dict c2 = Some out.
Proof.
  intros Hwf Hc H.
  apply (FrameEncodeProofs.spec_decode_cap_mono p [] c1 c2 out Hwf Hc) in H.
  rewrite BlockFormatProofs.spec_decode_encode in * by exact Hwf.
  destruct (expand_parse (rev []) c2 [] p) as [r|] eqn:E; [|discriminate].
  cbn [rev] in E. rewrite (expand_parse_nodict (rev dict) _ _ _ _ E). exact H.
Qed.

Definition level_ok (l : Z) : Prop := l = lz4block_Fast \/ 0 < l <= 131072.

(* what the legacy Writer's compressor call yields for a chunk of at most 8 MiB, seen from the Reader *)
Lemma legacy_compressed_block level c b dict : level_ok level -> bytes c -> len c <= 8388608 ->
  compress_level level c 8388608 = COk b ->
  bytes b /\ 0 < len b <= 8388608 /\ spec_decode_x b dict 8388608 = Some c.
Proof.
  intros Hlev Hb Hle E.
  pose proof (FrameEncodeProofs.compress_level_contract level Hlev c 8388608 Hb) as Hc. rewrite E in Hc.
  destruct Hc as (p & _ & Hbp & Hwf & _ & Hdec & Hfit).
  assert (Hbb : bytes b) by (rewrite Hbp; apply BlockTheorems.encode_bytes; exact Hwf).
  split; [exact Hbb|]. split; [exact Hfit|].
  rewrite BlockExecProofs.spec_decode_x_eq by exact Hbb. rewrite Hbp in *.
  exact (spec_decode_nodict p dict (len c) 8388608 c Hwf Hle Hdec).
Qed.

(* ====================================================================== *)
(* 3. what the legacy Writer emits for one chunk                           *)
(* ====================================================================== *)

Definition lg_word (o : fopts) (c : list Z) : Z :=
  match compress_level (fo_level o) c 8388608 with COk b => len b | _ => 2147483648 + len c end.
Definition lg_payload (o : fopts) (c : list Z) : list Z :=
  match compress_level (fo_level o) c 8388608 with COk b => b | _ => c end.

Lemma legacy_idx fl : lz4stream_DescriptorFlags_BlockSizeIndex
    (lz4stream_DescriptorFlags_BlockSizeIndexSet fl (lz4block_Index lz4block_Block8Mb)) = 3.
Proof.
  rewrite WriterProofs.bsi_bidx. change (lz4block_Index lz4block_Block8Mb) with 3.
  apply WriterProofs.bidx_bss. lia.
Qed.

Lemma bsz_of_legacy o : fo_legacy o = true -> bsz_of o = 8388608.
Proof. intros Hl. unfold bsz_of, initw_flags. rewrite Hl, legacy_idx. reflexivity. Qed.

Lemma header_bytes_legacy o : fo_legacy o = true -> header_bytes o = le32_bytes MAGIC_LEGACY.
Proof. intros Hl. unfold header_bytes, magic_of. rewrite Hl. apply app_nil_r. Qed.

Lemma close_writes_legacy o x : fo_legacy o = true -> close_writes o x = [].
Proof. intros Hl. unfold close_writes. rewrite Hl. reflexivity. Qed.

Definition good8 (c : list Z) : Prop := FrameEncodeProofs.good_chunk 8388608 c.

Lemma good8_pos c : good8 c -> 0 < len c <= 8388608.
Proof.
  intros (_ & Hne & Hle). split; [|exact Hle].
  destruct c as [|x c]; [congruence|]. rewrite len_cons. pose proof (len_nonneg c). lia.
Qed.

Lemma block_writes_legacy o c : fo_legacy o = true -> level_ok (fo_level o) -> good8 c ->
  block_writes o c = [le32_bytes (lg_word o c); lg_payload o c].
Proof.
  intros Hl Hlev Hg. pose proof (good8_pos c Hg) as Hpos. destruct Hg as (Hb & _ & _).
  unfold block_writes, lg_word, lg_payload. cbv zeta. rewrite Hl. unfold initw_flags. rewrite Hl, legacy_idx.
  change (bsize_of_idx 3) with 8388608. rewrite Bool.andb_false_r.
  destruct (compress_level (fo_level o) c 8388608) as [| | | |b] eqn:E;
    try (rewrite FrameEncodeProofs.word_raw by lia; reflexivity).
  destruct (legacy_compressed_block _ _ _ [] Hlev Hb (proj2 Hpos) E) as (_ & Hfit & _).
  rewrite FrameEncodeProofs.word_compressed by lia. reflexivity.
Qed.

(* everything the Reader needs to know of a block *)
Lemma lg_facts o c : level_ok (fo_level o) -> good8 c ->
  let w := lg_word o c in let s := lg_payload o c in
  0 < w < 4294967296 /\ w <> MAGIC_LEGACY /\ w mod 2147483648 = len s /\ 0 < len s <= 8388608 /\ bytes s /\
  forall dict, (if 2147483648 <=? w then Some s
                else match s with [] => Some [] | _ => spec_decode_x s dict 8388608 end) = Some c.
Proof.
  intros Hlev Hg. pose proof (good8_pos c Hg) as Hpos. destruct Hg as (Hb & _ & _).
  cbv zeta. unfold lg_word, lg_payload, MAGIC_LEGACY.
  assert (Hraw : let w := 2147483648 + len c in
     0 < w < 4294967296 /\ w <> 407642370 /\ w mod 2147483648 = len c /\ 0 < len c <= 8388608 /\ bytes c /\
     forall dict : list Z, (if 2147483648 <=? w then Some c
                else match c with [] => Some [] | _ => spec_decode_x c dict 8388608 end) = Some c).
  { cbv zeta. destruct (2147483648 <=? 2147483648 + len c) eqn:E; [|lia]. repeat split; try lia; assumption. }
  destruct (compress_level (fo_level o) c 8388608) as [| | | |b] eqn:E; try exact Hraw.
  destruct (legacy_compressed_block _ _ _ [] Hlev Hb (proj2 Hpos) E) as (Hbb & Hfit & _).
  destruct (2147483648 <=? len b) eqn:E2; [lia|].
  repeat split; try lia; try assumption.
  intros dict. destruct (legacy_compressed_block _ _ _ dict Hlev Hb (proj2 Hpos) E) as (_ & _ & Hd).
  destruct b as [|x b]; [unfold len in Hfit; cbn [length] in Hfit; lia|]. exact Hd.
Qed.

Lemma u32_of_le32_bytes w : 0 <= w < 4294967296 -> u32_of (le32_bytes w) = w.
Proof. intros Hw. unfold u32_of, le32_bytes. cbn [nth]. apply FrameEncodeProofs.le32_roundtrip. exact Hw. Qed.

Lemma block_word_legacy o c : fo_legacy o = true -> level_ok (fo_level o) -> good8 c ->
  block_word o c = lg_word o c.
Proof.
  intros Hl Hlev Hg. unfold block_word. rewrite block_writes_legacy by assumption. cbn [hd].
  apply u32_of_le32_bytes. pose proof (lg_facts o c Hlev Hg) as H. cbv zeta in H. lia.
Qed.

(* ====================================================================== *)
(* 4. the Reader on a legacy frame body: one block                         *)
(* ====================================================================== *)

Import ReaderProofs.
Local Opaque spec_decode_x.
Local Transparent r_accept.

Record linv (r : reader) (cum : Z) : Prop := mk_linv {
  li_magic : r_magic r = lz4stream_frameMagicLegacy;
  li_flags : r_flags r = legacy_flags;
  li_ok : oksrc (r_src r);
  li_cum : r_cum r = cum mod 4294967296
}.

Lemma r_accept_cum r s d : r_cum (r_accept r s d) = (r_cum r + len d) mod 4294967296.
Proof. reflexivity. Qed.

Lemma skip_legacy_no f s x : x <> MAGIC_LEGACY -> skip_legacy_magic (S f) s x ENil = (x, ENil, s).
Proof.
  intros Hx. cbn [skip_legacy_magic]. change lz4stream_frameMagicLegacy with MAGIC_LEGACY.
  destruct (x =? MAGIC_LEGACY) eqn:E; [lia|reflexivity].
Qed.

Lemma legacy_read_word r cum w tl : linv r cum -> s_rem (r_src r) = le32_bytes w ++ tl ->
  0 <= w < 4294967296 -> w <> MAGIC_LEGACY ->
  exists s1, read_u32 (r_src r) = (w, ENil, s1) /\
             skip_legacy_magic (S (length (s_rem (r_src r)))) s1 w ENil = (w, ENil, s1) /\
             s_rem s1 = tl /\ oksrc s1 /\ s_consumed s1 = s_consumed (r_src r) + 4.
Proof.
  intros [Hmag Hfl Hok Hcum] Hrem Hw Hnm.
  pose proof (read_u32_spec (r_src r) Hok) as Hu. rewrite Hrem in Hu.
  rewrite FrameEncodeProofs.u32le_le32_bytes in Hu by exact Hw.
  destruct Hu as (s1 & Hrd & Hr1 & Hok1 & Hc1). exists s1.
  split; [exact Hrd|]. split; [apply skip_legacy_no; exact Hnm|]. repeat split; assumption.
Qed.

Lemma legacy_read_block_accept r cum w s c rest :
  linv r cum -> s_rem (r_src r) = le32_bytes w ++ s ++ rest ->
  0 < w < 4294967296 -> w <> MAGIC_LEGACY -> w mod 2147483648 = len s -> 0 < len s <= 8388608 ->
  (forall dict, (if 2147483648 <=? w then Some s
                 else match s with [] => Some [] | _ => spec_decode_x s dict 8388608 end) = Some c) ->
  w <> cum mod 4294967296 ->
  exists r1, r_read_block r = (r1, ENil, c) /\ linv r1 (cum + len c) /\ s_rem (r_src r1) = rest /\
             s_consumed (r_src r1) = s_consumed (r_src r) + 4 + len s /\ r_state r1 = r_state r.
Proof.
  intros Hinv Hrem Hw Hnm Hsz Hls Hdec Hamb.
  destruct (legacy_read_word r cum w (s ++ rest) Hinv Hrem ltac:(lia) Hnm) as (s1 & Hrd & Hsk & Hr1 & Hok1 & Hc1).
  destruct Hinv as [Hmag Hfl Hok Hcum].
  assert (Hleg : is_legacy r = true) by (unfold is_legacy; rewrite Hmag; reflexivity).
  assert (Hbsz : r_bsz r = 8388608) by (unfold r_bsz; rewrite Hfl; reflexivity).
  assert (Hbc : lz4stream_DescriptorFlags_BlockChecksum (r_flags r) = false) by (rewrite Hfl; reflexivity).
  destruct (read_full_exact s1 (len s) s rest Hok1 ltac:(lia) Hr1 eq_refl) as (s2 & Hrf & Hr2 & Hok2 & Hc2).
  rewrite r_read_block_eq. cbv zeta. rewrite Hleg, Hrd, Hsk. cbv beta iota.
  rewrite Hcum. destruct (w =? cum mod 4294967296) eqn:E; [lia|].
  rewrite dbs_size by lia. rewrite Hsz, Hbsz.
  destruct (8388608 <? len s) eqn:E2; [lia|].
  rewrite Hrf. cbv beta iota. rewrite Hbc. cbv beta iota.
  rewrite dbs_raw by lia. rewrite (Hdec (r_dict r)). cbn [andb].
  eexists. split; [reflexivity|].
  split; [|split; [rewrite r_accept_src; exact Hr2|split; [rewrite r_accept_src; lia|apply r_accept_state]]].
  constructor.
  - rewrite r_accept_magic. exact Hmag.
  - rewrite r_accept_flags. exact Hfl.
  - rewrite r_accept_src. exact Hok2.
  - rewrite r_accept_cum, Hcum. pose proof (len_nonneg c). lia.
Qed.

(* a size word equal to the bytes decoded so far: clean end of stream, whatever follows *)
Lemma legacy_read_block_stop r cum w tl :
  linv r cum -> s_rem (r_src r) = le32_bytes w ++ tl -> 0 <= w < 4294967296 -> w <> MAGIC_LEGACY ->
  w = cum mod 4294967296 ->
  exists s1, r_read_block r = (rset_src r s1, EEOF, []) /\ s_consumed s1 = s_consumed (r_src r) + 4.
Proof.
  intros Hinv Hrem Hw Hnm Hamb.
  destruct (legacy_read_word r cum w tl Hinv Hrem Hw Hnm) as (s1 & Hrd & Hsk & Hr1 & Hok1 & Hc1).
  destruct Hinv as [Hmag Hfl Hok Hcum].
  assert (Hleg : is_legacy r = true) by (unfold is_legacy; rewrite Hmag; reflexivity).
  rewrite r_read_block_eq. cbv zeta. rewrite Hleg, Hrd, Hsk. cbv beta iota.
  rewrite Hcum. destruct (w =? cum mod 4294967296) eqn:E; [|lia].
  exists s1. split; [reflexivity|exact Hc1].
Qed.

(* the source is exhausted: clean end of stream *)
Lemma legacy_read_block_end r cum : linv r cum -> s_rem (r_src r) = [] ->
  exists s1, r_read_block r = (rset_src r s1, EEOF, []) /\ s_consumed s1 = s_consumed (r_src r).
Proof.
  intros [Hmag Hfl Hok Hcum] Hrem.
  assert (Hleg : is_legacy r = true) by (unfold is_legacy; rewrite Hmag; reflexivity).
  rewrite r_read_block_eq. cbv zeta. rewrite Hleg.
  unfold read_u32, read_full. change (4 <=? 0) with false. unfold oksrc in Hok. rewrite Hok, Hrem.
  change (0 <? 0) with false. cbn [andb length skip_legacy_magic].
  eexists. split; reflexivity.
Qed.

(* ====================================================================== *)
(* 5. the block loop of WriteTo on a legacy body                           *)
(* ====================================================================== *)

Definition lbody (o : fopts) (blocks : list (list Z)) : list Z := concat (flat_map (block_writes o) blocks).

Lemma lbody_cons o c bs : fo_legacy o = true -> level_ok (fo_level o) -> good8 c ->
  lbody o (c :: bs) = le32_bytes (lg_word o c) ++ lg_payload o c ++ lbody o bs.
Proof.
  intros Hl Hlev Hg. unfold lbody. cbn [flat_map]. rewrite concat_app.
  rewrite block_writes_legacy by assumption. cbn [concat]. rewrite app_nil_r, <- app_assoc. reflexivity.
Qed.

(* the blocks the Reader delivers: those before the first one whose size word equals the running total *)
Fixpoint delivered (o : fopts) (cum : Z) (blocks : list (list Z)) : list (list Z) :=
  match blocks with
  | [] => []
  | c :: r => if block_word o c =? cum mod 4294967296 then [] else c :: delivered o (cum + len c) r
  end.

Lemma delivered_clash_free o : forall blocks cum, cum_clash_free o cum blocks = true -> delivered o cum blocks = blocks.
Proof.
  induction blocks as [|c bs IH]; intros cum H; [reflexivity|]. cbn [cum_clash_free delivered] in *.
  destruct (block_word o c =? cum mod 4294967296); [discriminate|]. cbn [negb andb] in H. rewrite IH by exact H. reflexivity.
Qed.

Lemma delivered_clash o : forall blocks cum, cum_clash_free o cum blocks = false ->
  exists c rest, blocks = delivered o cum blocks ++ c :: rest.
Proof.
  induction blocks as [|c bs IH]; intros cum H; [discriminate|]. cbn [cum_clash_free delivered] in *.
  destruct (block_word o c =? cum mod 4294967296).
  - exists c, bs. reflexivity.
  - cbn [negb andb] in H. destruct (IH _ H) as (c' & rest & E). exists c', rest. cbn [app]. rewrite <- E. reflexivity.
Qed.

Lemma is_legacy_rset_src r s : is_legacy (rset_src r s) = is_legacy r.
Proof. reflexivity. Qed.

Lemma r_close_legacy r : is_legacy r = true -> r_close r = (r, ENil).
Proof. intros H. unfold r_close. rewrite H. reflexivity. Qed.

Lemma len_lbody_nonneg o bs : 0 <= len (lbody o bs).
Proof. apply len_nonneg. Qed.

Lemma legacy_loop o : fo_legacy o = true -> level_ok (fo_level o) ->
  forall blocks r cum out f, linv r cum -> Forall good8 blocks -> s_rem (r_src r) = lbody o blocks ->
  (length blocks < f)%nat ->
  exists r', r_writeto_loop f r out = (r', out ++ concat (delivered o cum blocks), ENil) /\ r_state r' = r_state r /\
    (cum_clash_free o cum blocks = true -> s_consumed (r_src r') = s_consumed (r_src r) + len (lbody o blocks)) /\
    (cum_clash_free o cum blocks = false -> s_consumed (r_src r') < s_consumed (r_src r) + len (lbody o blocks)).
Proof.
  intros Hl Hlev. induction blocks as [|c bs IH]; intros r cum out f Hinv Hg Hrem Hf.
  - destruct f as [|f]; [cbn [length] in Hf; lia|]. rewrite r_writeto_loop_S.
    destruct (legacy_read_block_end r cum Hinv Hrem) as (s1 & Hrb & Hc1). rewrite Hrb.
    assert (Hleg : is_legacy r = true) by (unfold is_legacy; rewrite (li_magic _ _ Hinv); reflexivity).
    rewrite r_close_legacy by (rewrite is_legacy_rset_src; exact Hleg).
    exists (rset_src r s1). cbn [delivered concat]. rewrite app_nil_r. split; [reflexivity|].
    split; [reflexivity|]. cbn [rset_src r_src cum_clash_free]. unfold lbody. cbn [flat_map concat].
    rewrite len_nil. split; [intros _; lia|discriminate].
  - destruct f as [|f]; [cbn [length] in Hf; lia|]. rewrite r_writeto_loop_S.
    inversion Hg as [|? ? Hgc Hgbs]; subst.
    rewrite lbody_cons in Hrem by assumption.
    pose proof (lg_facts o c Hlev Hgc) as Hfacts. cbv zeta in Hfacts.
    destruct Hfacts as (Hw & Hnm & Hsz & Hls & Hbs & Hdec).
    cbn [delivered cum_clash_free]. rewrite (block_word_legacy o c Hl Hlev Hgc).
    destruct (lg_word o c =? cum mod 4294967296) eqn:E.
    + (* the ambiguity: clean end *)
      destruct (legacy_read_block_stop r cum (lg_word o c) _ Hinv Hrem ltac:(lia) Hnm ltac:(lia)) as (s1 & Hrb & Hc1).
      rewrite Hrb.
      assert (Hleg : is_legacy r = true) by (unfold is_legacy; rewrite (li_magic _ _ Hinv); reflexivity).
      rewrite r_close_legacy by (rewrite is_legacy_rset_src; exact Hleg).
      exists (rset_src r s1). cbn [concat]. rewrite app_nil_r. split; [reflexivity|]. split; [reflexivity|].
      cbn [negb andb rset_src r_src]. split; [discriminate|]. intros _.
      rewrite lbody_cons by assumption. rewrite !len_app, FrameEncodeProofs.len_le32_bytes.
      pose proof (len_lbody_nonneg o bs). lia.
    + destruct (legacy_read_block_accept r cum (lg_word o c) (lg_payload o c) c (lbody o bs) Hinv Hrem Hw Hnm Hsz Hls Hdec ltac:(lia))
        as (r1 & Hrb & Hinv1 & Hr1 & Hc1 & Hst1).
      rewrite Hrb.
      destruct (IH r1 (cum + len c) (out ++ c) f Hinv1 Hgbs Hr1 ltac:(cbn [length] in Hf; lia)) as (r' & Hloop & Hst & Hfree & Hclash).
      exists r'. cbn [concat]. rewrite app_assoc. split; [exact Hloop|]. split; [congruence|].
      cbn [negb andb]. rewrite lbody_cons by assumption. rewrite !len_app, FrameEncodeProofs.len_le32_bytes.
      split; intros Hx; [specialize (Hfree Hx)|specialize (Hclash Hx)]; lia.
Qed.

(* ====================================================================== *)
(* 6. WriteTo / Read on a whole legacy frame                               *)
(* ====================================================================== *)

Definition lframe (o : fopts) (blocks : list (list Z)) : list Z := le32_bytes MAGIC_LEGACY ++ lbody o blocks.

Lemma lbody_blocks_le o : fo_legacy o = true -> level_ok (fo_level o) ->
  forall blocks, Forall good8 blocks -> len blocks <= len (lbody o blocks).
Proof.
  intros Hl Hlev. induction blocks as [|c bs IH]; intros Hg; [unfold lbody, len; cbn [flat_map concat length]; lia|].
  inversion Hg as [|? ? Hgc Hgbs]; subst. rewrite lbody_cons by assumption.
  rewrite len_cons, !len_app, FrameEncodeProofs.len_le32_bytes. specialize (IH Hgbs).
  pose proof (len_nonneg (lg_payload o c)). lia.
Qed.

Lemma legacy_writeto o blocks : fo_legacy o = true -> level_ok (fo_level o) -> Forall good8 blocks ->
  let f := lframe o blocks in
  let out := concat (delivered o 0 blocks) in
  exists r', rstep (new_reader (src_of f)) RWriteTo = (r', RRes (len out) ENil out) /\ r_state r' = lz4_closedState /\
    (cum_clash_free o 0 blocks = true -> s_consumed (r_src r') = len f) /\
    (cum_clash_free o 0 blocks = false -> s_consumed (r_src r') < len f).
Proof.
  intros Hl Hlev Hg f out. rewrite rstep_writeto_new. rewrite parse_headers_S'.
  assert (Hok0 : oksrc (src_of f)) by reflexivity.
  pose proof (read_u32_spec (src_of f) Hok0) as Hu. change (s_rem (src_of f)) with f in Hu.
  unfold f, lframe in Hu. rewrite FrameEncodeProofs.u32le_le32_bytes in Hu by (unfold MAGIC_LEGACY; lia).
  destruct Hu as (s1 & Hrd & Hr1 & Hok1 & Hc1). fold (lframe o blocks) in Hrd. fold f in Hrd. rewrite Hrd.
  cbv beta iota.
  change ((MAGIC_LEGACY =? lz4stream_frameMagic) || (MAGIC_LEGACY =? lz4stream_frameMagicLegacy)) with true.
  change (MAGIC_LEGACY =? lz4stream_frameMagicLegacy) with true. cbv beta iota.
  assert (Hinv : linv (reader_after_init s1 MAGIC_LEGACY legacy_flags 0) 0).
  { constructor; [reflexivity|reflexivity|exact Hok1|reflexivity]. }
  assert (Hfuel : (length blocks < S (length f))%nat).
  { pose proof (lbody_blocks_le o Hl Hlev blocks Hg) as H. unfold f, lframe. rewrite app_length. unfold len in H. lia. }
  destruct (legacy_loop o Hl Hlev blocks _ 0 [] (S (length f)) Hinv Hg Hr1 Hfuel) as (r' & Hloop & Hst & Hfree & Hclash).
  rewrite Hloop. cbn [app]. fold out.
  exists (rst_next r' ENil). split; [reflexivity|].
  split; [unfold rst_next, rset_state; cbn [r_state]; rewrite Hst; reflexivity|].
  rewrite rst_next_nil_fields. cbn [reader_after_init r_src] in Hfree, Hclash.
  change (s_consumed (src_of (le32_bytes MAGIC_LEGACY ++ lbody o blocks))) with 0 in Hc1.
  assert (Hlf : len f = 4 + len (lbody o blocks)) by (unfold f, lframe; rewrite len_app; reflexivity).
  split; intros Hx; [specialize (Hfree Hx)|specialize (Hclash Hx)]; lia.
Qed.

Lemma bytes_le32 x : bytes (le32_bytes x).
Proof. apply ReaderProofs2.bytes_le32. Qed.

Lemma bytes_lbody o : fo_legacy o = true -> level_ok (fo_level o) ->
  forall blocks, Forall good8 blocks -> bytes (lbody o blocks).
Proof.
  intros Hl Hlev. induction blocks as [|c bs IH]; intros Hg; [constructor|].
  inversion Hg as [|? ? Hgc Hgbs]; subst. rewrite lbody_cons by assumption.
  pose proof (lg_facts o c Hlev Hgc) as Hfacts. cbv zeta in Hfacts. destruct Hfacts as (_ & _ & _ & _ & Hbs & _).
  apply bytes_app. split; [apply bytes_le32|]. apply bytes_app. split; [exact Hbs|exact (IH Hgbs)].
Qed.

Lemma bytes_lframe o blocks : fo_legacy o = true -> level_ok (fo_level o) -> Forall good8 blocks -> bytes (lframe o blocks).
Proof. intros Hl Hlev Hg. apply bytes_app. split; [apply bytes_le32|apply bytes_lbody; assumption]. Qed.

(* ====================================================================== *)
(* 7. sessions                                                             *)
(* ====================================================================== *)

Lemma opts_level_ok os o : opts_after os = Some o -> level_ok (fo_level o).
Proof.
  intros Hopt. destruct (FrameEncodeProofs.opts_after_inv os o Hopt) as (_ & _ & Hlv & _).
  exact (FrameEncodeProofs.valid_level_range _ Hlv).
Qed.

Definition sblocks (items : list item) : list (list Z) := blocks_of 8388608 items [].

Lemma frame_of_items_legacy o items : fo_legacy o = true -> frame_of_items o items = lframe o (sblocks items).
Proof.
  intros Hl. unfold frame_of_items, lframe, lbody, sblocks.
  rewrite header_bytes_legacy, close_writes_legacy, bsz_of_legacy by exact Hl.
  cbn [concat]. rewrite app_nil_r. reflexivity.
Qed.

Lemma sblocks_good items : Forall item_ok items -> Forall good8 (sblocks items).
Proof.
  intros Hit. apply FrameEncodeItems.blocks_of_good; [lia|exact Hit|constructor|rewrite len_nil; lia].
Qed.

Lemma sblocks_data items : concat (sblocks items) = data_of items.
Proof. apply FrameEncodeItems.blocks_of_data. lia. Qed.

Lemma unamb_clash_free o : fo_legacy o = true -> level_ok (fo_level o) ->
  forall blocks cum, Forall good8 blocks -> unamb_from o cum blocks = cum_clash_free o cum blocks.
Proof.
  intros Hl Hlev. induction blocks as [|c bs IH]; intros cum Hg; [reflexivity|].
  inversion Hg as [|? ? Hgc Hgbs]; subst. cbn [unamb_from cum_clash_free]. rewrite IH by exact Hgbs.
  rewrite (block_word_legacy o c Hl Hlev Hgc).
  pose proof (lg_facts o c Hlev Hgc) as Hfacts. cbv zeta in Hfacts. destruct Hfacts as (_ & Hnm & _).
  change lz4stream_frameMagicLegacy with MAGIC_LEGACY.
  destruct (lg_word o c =? MAGIC_LEGACY) eqn:E; [lia|]. cbn [negb]. rewrite Bool.andb_true_r. reflexivity.
Qed.

Theorem legacy_magic_clause_redundant : legacy_magic_clause_redundant_stmt.
Proof.
  intros os o items Hopt Hl Hit. unfold legacy_unambiguous. rewrite bsz_of_legacy by exact Hl.
  apply unamb_clash_free; [exact Hl|exact (opts_level_ok os o Hopt)|exact (sblocks_good items Hit)].
Qed.
Print Assumptions legacy_magic_clause_redundant.

Theorem legacy_word : legacy_word_stmt.
Proof.
  intros os o c Hopt Hl Hb Hne Hle.
  exact (block_word_legacy o c Hl (opts_level_ok os o Hopt) (conj Hb (conj Hne Hle))).
Qed.
Print Assumptions legacy_word.

(* the session, reduced to the frame of its blocks *)
Lemma session_frame os o items : opts_after os = Some o -> fo_legacy o = true -> Forall item_ok items ->
  sink_bytes (w_sink (fst (run_writer (new_writer s0) (WApply os :: map item_op items ++ [WClose]) s0)))
  = lframe o (sblocks items).
Proof.
  intros Hopt Hl Hit. pose proof (WriterProofs.writer_session os items o Hopt Hit) as Hw.
  destruct (run_writer (new_writer s0) (WApply os :: map item_op items ++ [WClose]) s0) as [w res].
  destruct Hw as (_ & Hsink & _). cbn [fst]. rewrite Hsink. apply frame_of_items_legacy. exact Hl.
Qed.

Theorem legacy_roundtrip : legacy_roundtrip_stmt.
Proof.
  intros os o items n Hopt Hl Hit Hun Hn w f.
  pose proof (opts_level_ok os o Hopt) as Hlev. pose proof (sblocks_good items Hit) as Hg.
  assert (Hf : f = lframe o (sblocks items)) by (apply (session_frame os o items Hopt Hl Hit)).
  clearbody f. clear w. subst f.
  rewrite (legacy_magic_clause_redundant os o items Hopt Hl Hit), bsz_of_legacy in Hun by exact Hl.
  fold (sblocks items) in Hun.
  destruct (legacy_writeto o (sblocks items) Hl Hlev Hg) as (r' & Hr & Hst & Hfree & _). cbv zeta in Hr.
  rewrite (delivered_clash_free o _ _ Hun), sblocks_data in Hr.
  split.
  - exists r'. split; [exact Hr|]. split; [exact Hst|exact (Hfree Hun)].
  - apply (reader_read_eq_writeto _ n _ _ _ _ (bytes_lframe o _ Hl Hlev Hg) Hn Hr). discriminate.
Qed.
Print Assumptions legacy_roundtrip.

Theorem legacy_ambiguous_truncates : legacy_ambiguous_truncates_stmt.
Proof.
  intros os o items n Hopt Hl Hit Hun Hn w f.
  pose proof (opts_level_ok os o Hopt) as Hlev. pose proof (sblocks_good items Hit) as Hg.
  assert (Hf : f = lframe o (sblocks items)) by (apply (session_frame os o items Hopt Hl Hit)).
  clearbody f. clear w. subst f.
  rewrite (legacy_magic_clause_redundant os o items Hopt Hl Hit), bsz_of_legacy in Hun by exact Hl.
  fold (sblocks items) in Hun.
  destruct (legacy_writeto o (sblocks items) Hl Hlev Hg) as (r' & Hr & Hst & _ & Hclash). cbv zeta in Hr.
  destruct (delivered_clash o _ _ Hun) as (c & rest & Hsplit).
  exists (concat (delivered o 0 (sblocks items))), (c ++ concat rest).
  split; [|split; [|split]].
  - rewrite <- sblocks_data. rewrite Hsplit at 1. rewrite concat_app. reflexivity.
  - assert (Hc : good8 c).
    { rewrite Forall_forall in Hg. apply Hg. rewrite Hsplit. apply in_or_app. right. left. reflexivity. }
    destruct Hc as (_ & Hne & _). destruct c; [congruence|discriminate].
  - exists r'. split; [exact Hr|]. split; [exact Hst|exact (Hclash Hun)].
  - apply (reader_read_eq_writeto _ n _ _ _ _ (bytes_lframe o _ Hl Hlev Hg) Hn Hr). discriminate.
Qed.
Print Assumptions legacy_ambiguous_truncates.

Theorem legacy_roundtrip_iff : legacy_roundtrip_iff_stmt.
Proof.
  intros os o items Hopt Hl Hit w f. split.
  - intros Hun. destruct (legacy_roundtrip os o items 1 Hopt Hl Hit Hun ltac:(lia)) as ((r' & Hr & _) & _).
    exists r'. exact Hr.
  - intros (r' & Hr). destruct (legacy_unambiguous o items) eqn:Hun; [reflexivity|exfalso].
    destruct (legacy_ambiguous_truncates os o items 1 Hopt Hl Hit Hun ltac:(lia)) as (out & rest & Hd & Hne & (r2 & Hr2 & _) & _).
    fold w in Hr2. fold f in Hr2. rewrite Hr in Hr2. injection Hr2 as _ Hlen _.
    rewrite Hd, len_app in Hlen. destruct rest as [|x rest]; [congruence|]. rewrite len_cons in Hlen.
    pose proof (len_nonneg rest). lia.
Qed.
Print Assumptions legacy_roundtrip_iff.

(* ====================================================================== *)
(* 8. sessions that are unambiguous whatever the compressor does           *)
(* ====================================================================== *)

Theorem legacy_one_block : legacy_one_block_stmt.
Proof.
  intros os o items Hopt Hl Hit Hlen.
  pose proof (opts_level_ok os o Hopt) as Hlev. pose proof (sblocks_good items Hit) as Hg.
  rewrite (legacy_magic_clause_redundant os o items Hopt Hl Hit). rewrite bsz_of_legacy in * by exact Hl.
  fold (sblocks items) in *. destruct (sblocks items) as [|c [|c2 bs]]; [reflexivity| |cbn [length] in Hlen; lia].
  inversion Hg as [|? ? Hgc _]; subst. cbn [cum_clash_free]. rewrite (block_word_legacy o c Hl Hlev Hgc).
  pose proof (lg_facts o c Hlev Hgc) as Hfacts. cbv zeta in Hfacts. destruct Hfacts as (Hw & _).
  change (0 mod 4294967296) with 0. destruct (lg_word o c =? 0) eqn:E; [lia|reflexivity].
Qed.
Print Assumptions legacy_one_block.

Lemma small_writes_one_block ds : len (concat ds) <= 8388608 -> (length (sblocks (map IWrite ds)) <= 1)%nat.
Proof.
  intros Hle. unfold sblocks. rewrite WriterProofs.blocks_of_writes by (rewrite ?len_nil; lia). cbn [app].
  destruct (Z.ltb_spec (len (concat ds)) 8388608) as [Hlt|Hge].
  - rewrite WriterProofs.fullsW_small by exact Hlt. cbn [fst snd app]. destruct (concat ds); cbn; lia.
  - rewrite WriterProofs.fullsW_big by lia.
    assert (Hsk : skipn (Z.to_nat 8388608) (concat ds) = []).
    { apply len_zero_nil. rewrite WriterProofs.len_skipn by lia. lia. }
    rewrite Hsk. rewrite WriterProofs.fullsW_small by (rewrite len_nil; lia). cbn [fst snd WriterProofs.tail_block app length]. lia.
Qed.

Theorem legacy_small_noflush : legacy_small_noflush_stmt.
Proof.
  intros os o ds n Hopt Hl Hds Hle Hn items.
  assert (Hit : Forall item_ok items).
  { unfold items. rewrite Forall_forall in *. intros i Hi. apply in_map_iff in Hi. destruct Hi as (d & <- & Hd). exact (Hds d Hd). }
  assert (Hun : legacy_unambiguous o items = true).
  { apply (legacy_one_block os o items Hopt Hl Hit). rewrite bsz_of_legacy by exact Hl. apply small_writes_one_block. exact Hle. }
  assert (Hd : data_of items = concat ds).
  { unfold items. rewrite WriterProofs.data_of_wdata. apply WriterProofs.wdata_writes. }
  pose proof (legacy_roundtrip os o items n Hopt Hl Hit Hun Hn) as H. cbv zeta in H. rewrite Hd in H. exact H.
Qed.
Print Assumptions legacy_small_noflush.

Lemma legacy_empty_read : exists r', rstep (new_reader (src_of [2; 33; 76; 24])) RWriteTo = (r', RRes 0 ENil [])
             /\ r_state r' = lz4_closedState /\ s_consumed (r_src r') = 4.
Proof. eexists. vm_compute. split; [reflexivity|split; reflexivity]. Qed.

Theorem legacy_empty : legacy_empty_stmt.
Proof.
  intros os o Hopt Hl w.
  pose proof (session_frame os o [] Hopt Hl (Forall_nil _)) as Hf. cbn [map app] in Hf. fold w in Hf.
  change (lframe o (sblocks [])) with [2; 33; 76; 24] in Hf. split; [exact Hf|exact legacy_empty_read].
Qed.
Print Assumptions legacy_empty.

(* the side condition holds on a session with four blocks, one of them with matches
   (blocks 1 2 3 | 4 5 6 | 7 x 100 | 9: size words 4 4 20 2 against running totals 0 3 6 106) *)
Definition ex_items : list item :=
  [IWrite [1; 2; 3]; IFlush; IWrite [4; 5]; IWrite [6]; IFlush; IFlush; IWrite (repeat 7 100); IFlush; IWrite [9]].
Example legacy_unambiguous_ex : legacy_unambiguous (mkfo 28676 0 0 true) ex_items = true.
Proof. vm_compute. reflexivity. Qed.
Print Assumptions legacy_unambiguous_ex.
Example legacy_ambiguous_ex : legacy_unambiguous (mkfo 28676 0 0 true) lw_items = false.
Proof. vm_compute. reflexivity. Qed.
Print Assumptions legacy_ambiguous_ex.

(* legacy_roundtrip applied to it; the frame and the result computed by the models agree *)
Example legacy_roundtrip_ex :
  let w := fst (run_writer (new_writer s0) (WApply lw_os :: map item_op ex_items ++ [WClose]) s0) in
  let f := sink_bytes (w_sink w) in
  exists r', rstep (new_reader (src_of f)) RWriteTo = (r', RRes 107 ENil ([1; 2; 3; 4; 5; 6] ++ repeat 7 100 ++ [9])).
Proof.
  assert (Hit : Forall item_ok ex_items).
  { apply Forall_forall. intros i Hi.
    assert (Hb : forallb (fun i => match i with IWrite d => bytesb d | IFlush => true end) ex_items = true)
      by (vm_compute; reflexivity).
    rewrite forallb_forall in Hb. specialize (Hb i Hi).
    destruct i as [d|]; [apply bytesb_bytes; exact Hb|exact I]. }
  destruct (legacy_roundtrip lw_os (mkfo 28676 0 0 true) ex_items 1 ltac:(vm_compute; reflexivity) eq_refl Hit
              legacy_unambiguous_ex ltac:(lia)) as ((r' & Hr & _) & _).
  exists r'. exact Hr.
Qed.
Print Assumptions legacy_roundtrip_ex.

(* ====================================================================== *)
(* 9. sessions without Flush                                               *)
(* ====================================================================== *)

Lemma clash_free_char o : forall blocks cum,
  cum_clash_free o cum blocks = true <->
  forall pre c rest, blocks = pre ++ c :: rest -> block_word o c <> (cum + len (concat pre)) mod 4294967296.
Proof.
  induction blocks as [|c0 bs IH]; intros cum.
  - split; [|reflexivity]. intros _ pre c rest E. destruct pre; discriminate E.
  - cbn [cum_clash_free]. split.
    + intros H pre c rest E. apply Bool.andb_true_iff in H. destruct H as [H0 H1].
      destruct pre as [|p pre].
      * cbn [app] in E. injection E as <- <-. cbn [concat]. rewrite len_nil, Z.add_0_r.
        destruct (block_word o c0 =? cum mod 4294967296) eqn:Eq; [discriminate|lia].
      * cbn [app] in E. injection E as <- ->. cbn [concat]. rewrite len_app, Z.add_assoc.
        apply (proj1 (IH (cum + len c0)) H1 pre c rest eq_refl).
    + intros H. apply Bool.andb_true_iff. split.
      * specialize (H [] c0 bs eq_refl). cbn [concat] in H. rewrite len_nil, Z.add_0_r in H.
        destruct (block_word o c0 =? cum mod 4294967296) eqn:Eq; [lia|reflexivity].
      * apply (proj2 (IH (cum + len c0))). intros pre c rest ->.
        specialize (H (c0 :: pre) c rest eq_refl). cbn [concat] in H. rewrite len_app, Z.add_assoc in H. exact H.
Qed.

Lemma delivered_stop o : forall pre cum c rest, block_word o c = (cum + len (concat pre)) mod 4294967296 ->
  exists p2 p3, pre = p2 ++ p3 /\ delivered o cum (pre ++ c :: rest) = p2.
Proof.
  induction pre as [|p pre IH]; intros cum c rest H.
  - exists [], []. split; [reflexivity|]. cbn [app delivered]. cbn [concat] in H. rewrite len_nil, Z.add_0_r in H.
    rewrite H, Z.eqb_refl. reflexivity.
  - cbn [app delivered]. destruct (block_word o p =? cum mod 4294967296).
    + exists [], (p :: pre). split; reflexivity.
    + cbn [concat] in H. rewrite len_app, Z.add_assoc in H.
      destruct (IH (cum + len p) c rest H) as (p2 & p3 & -> & Hd).
      exists (p :: p2), p3. split; [reflexivity|]. rewrite Hd. reflexivity.
Qed.

Definition full8 (c : list Z) : Prop := len c = 8388608.

Lemma noflush_prefix_full ds pre c rest : sblocks (map IWrite ds) = pre ++ c :: rest -> Forall full8 pre.
Proof.
  unfold sblocks. rewrite WriterProofs.blocks_of_writes by (rewrite ?len_nil; lia). cbn [app].
  pose proof (WriterProofs.fullsW_full 8388608 (concat ds) ltac:(lia)) as Hfull.
  destruct (WriterProofs.fullsW 8388608 (concat ds)) as [fulls r]. cbn [fst snd] in *.
  intros E. destruct r as [|x r]; cbn [WriterProofs.tail_block] in E.
  - rewrite app_nil_r in E. rewrite E in Hfull. apply Forall_app in Hfull. exact (proj1 Hfull).
  - destruct (@exists_last _ (c :: rest) ltac:(discriminate)) as (rest' & y & Er).
    rewrite Er, app_assoc in E. apply app_inj_tail in E. destruct E as [E _].
    destruct rest' as [|c' rest'].
    + rewrite app_nil_r in E. rewrite E in Hfull. exact Hfull.
    + cbn [app] in Er. injection Er as <- _.
      rewrite E in Hfull. apply Forall_app in Hfull. exact (proj1 Hfull).
Qed.

Lemma len_concat_full pre : Forall full8 pre -> len (concat pre) = len pre * 8388608.
Proof.
  induction pre as [|p pre IH]; intros H; [reflexivity|].
  inversion H as [|? ? Hp Hpre]; subst. cbn [concat]. rewrite len_app, len_cons, (IH Hpre). unfold full8 in Hp. lia.
Qed.

Lemma word_range o c : fo_legacy o = true -> level_ok (fo_level o) -> good8 c ->
  0 < block_word o c <= 8388608 \/ 2147483648 < block_word o c <= 2147483648 + 8388608.
Proof.
  intros Hl Hlev Hg. rewrite (block_word_legacy o c Hl Hlev Hg).
  pose proof (lg_facts o c Hlev Hg) as H. cbv zeta in H. lia.
Qed.

Lemma nth_error_mid {A} (pre : list A) c rest : nth_error (pre ++ c :: rest) (length pre) = Some c.
Proof. rewrite nth_error_app2 by lia. rewrite Nat.sub_diag. reflexivity. Qed.

Theorem legacy_noflush_char : legacy_noflush_char_stmt.
Proof.
  intros os o ds Hopt Hl Hds blocks.
  assert (Hit : Forall item_ok (map IWrite ds)).
  { rewrite Forall_forall in *. intros i Hi. apply in_map_iff in Hi. destruct Hi as (d & <- & Hd). exact (Hds d Hd). }
  pose proof (opts_level_ok os o Hopt) as Hlev. pose proof (sblocks_good _ Hit) as Hg.
  rewrite (legacy_magic_clause_redundant os o _ Hopt Hl Hit). subst blocks. rewrite bsz_of_legacy by exact Hl.
  fold (sblocks (map IWrite ds)). rewrite clash_free_char. split.
  - intros H k c Hk. destruct (nth_error_split _ _ Hk) as (pre & rest & E & Hlen).
    specialize (H pre c rest E). rewrite (len_concat_full pre (noflush_prefix_full ds pre c rest E)) in H.
    unfold len in H. rewrite Hlen in H. split; intros [Hm Hw]; rewrite Hw in H; lia.
  - intros H pre c rest E. pose proof (nth_error_mid pre c rest) as Hk. rewrite <- E in Hk.
    specialize (H _ _ Hk). rewrite (len_concat_full pre (noflush_prefix_full ds pre c rest E)).
    assert (Hgc : good8 c).
    { rewrite Forall_forall in Hg. apply Hg. rewrite E. apply in_or_app. right. left. reflexivity. }
    pose proof (word_range o c Hl Hlev Hgc) as Hr. unfold len. destruct H as [H1 H2]. intros Heq.
    destruct Hr as [Hr|Hr]; [apply H1|apply H2]; lia.
Qed.
Print Assumptions legacy_noflush_char.

(* what the Reader makes of any legacy session: the blocks before the first clash *)
Lemma legacy_session_delivered os o items n : opts_after os = Some o -> fo_legacy o = true -> Forall item_ok items -> 0 < n ->
  let f := sink_bytes (w_sink (fst (run_writer (new_writer s0) (WApply os :: map item_op items ++ [WClose]) s0))) in
  let out := concat (delivered o 0 (sblocks items)) in
  (exists r', rstep (new_reader (src_of f)) RWriteTo = (r', RRes (len out) ENil out) /\ r_state r' = lz4_closedState /\
     (cum_clash_free o 0 (sblocks items) = true -> s_consumed (r_src r') = len f) /\
     (cum_clash_free o 0 (sblocks items) = false -> s_consumed (r_src r') < len f)) /\
  (exists r'', read_until (S (length f) + S (length out)) (new_reader (src_of f)) n [] = (r'', out, EEOF)).
Proof.
  intros Hopt Hl Hit Hn f out.
  pose proof (opts_level_ok os o Hopt) as Hlev. pose proof (sblocks_good items Hit) as Hg.
  assert (Hf : f = lframe o (sblocks items)) by (apply (session_frame os o items Hopt Hl Hit)).
  clearbody f. subst f.
  destruct (legacy_writeto o (sblocks items) Hl Hlev Hg) as (r' & Hr & Hst & Hfree & Hclash). cbv zeta in Hr. fold out in Hr.
  split.
  - exists r'. repeat split; assumption.
  - apply (reader_read_eq_writeto _ n _ _ _ _ (bytes_lframe o _ Hl Hlev Hg) Hn Hr). discriminate.
Qed.

Lemma writes_ok ds : Forall bytes ds -> Forall item_ok (map IWrite ds).
Proof. intros Hds. rewrite Forall_forall in *. intros i Hi. apply in_map_iff in Hi. destruct Hi as (d & <- & Hd). exact (Hds d Hd). Qed.

Lemma data_of_writes ds : data_of (map IWrite ds) = concat ds.
Proof. rewrite WriterProofs.data_of_wdata. apply WriterProofs.wdata_writes. Qed.

Theorem legacy_noflush_below_2056MiB : legacy_noflush_below_2056MiB_stmt.
Proof.
  intros os o ds n Hopt Hl Hds Hn Hle H1. cbv zeta.
  pose proof (writes_ok ds Hds) as Hit.
  pose proof (opts_level_ok os o Hopt) as Hlev. pose proof (sblocks_good _ Hit) as Hg.
  assert (Hun : legacy_unambiguous o (map IWrite ds) = true).
  { apply (proj2 (legacy_noflush_char os o ds Hopt Hl Hds)). intros k c Hk.
    rewrite bsz_of_legacy in * by exact Hl. fold (sblocks (map IWrite ds)) in *.
    destruct (nth_error_split _ _ Hk) as (pre & rest & E & Hlen).
    pose proof (len_concat_full pre (noflush_prefix_full ds pre c rest E)) as Hpre.
    assert (Hgc : good8 c).
    { rewrite Forall_forall in Hg. apply Hg. rewrite E. apply in_or_app. right. left. reflexivity. }
    pose proof (good8_pos c Hgc) as Hc.
    assert (Hsum : len (concat ds) = len (concat pre) + len c + len (concat rest)).
    { rewrite <- data_of_writes. rewrite <- sblocks_data, E, concat_app. cbn [concat]. rewrite !len_app. lia. }
    pose proof (len_nonneg (concat rest)). unfold len in Hpre at 2. rewrite Hlen in Hpre.
    assert (Hk256 : Z.of_nat k <= 256) by lia.
    split; intros [Hm Hw]; [|lia].
    assert (Hk1 : k = 1%nat) by lia. rewrite Hk1 in Hk. exact (H1 c Hk Hw). }
  pose proof (legacy_roundtrip os o (map IWrite ds) n Hopt Hl Hit Hun Hn) as H. cbv zeta in H.
  rewrite data_of_writes in H. exact H.
Qed.
Print Assumptions legacy_noflush_below_2056MiB.

Theorem legacy_incompressible_truncates : legacy_incompressible_truncates_stmt.
Proof.
  intros os o ds c n Hopt Hl Hds Hn Hk Hfull Hnc. cbv zeta.
  pose proof (writes_ok ds Hds) as Hit.
  pose proof (opts_level_ok os o Hopt) as Hlev. pose proof (sblocks_good _ Hit) as Hg.
  rewrite bsz_of_legacy in Hk by exact Hl. fold (sblocks (map IWrite ds)) in Hk.
  destruct (nth_error_split _ _ Hk) as (pre & rest & E & Hlen).
  pose proof (len_concat_full pre (noflush_prefix_full ds pre c rest E)) as Hpre.
  unfold len in Hpre at 2. rewrite Hlen in Hpre.
  assert (Hgc : good8 c).
  { rewrite Forall_forall in Hg. apply Hg. rewrite E. apply in_or_app. right. left. reflexivity. }
  assert (Hw : block_word o c = (0 + len (concat pre)) mod 4294967296).
  { rewrite (block_word_legacy o c Hl Hlev Hgc). unfold lg_word.
    destruct (compress_level (fo_level o) c 8388608) as [| | | |b] eqn:Ec; try (rewrite Hpre, Hfull; reflexivity).
    exfalso. exact (Hnc b eq_refl). }
  destruct (delivered_stop o pre 0 c rest Hw) as (p2 & p3 & Hp & Hd).
  assert (Hclash : cum_clash_free o 0 (sblocks (map IWrite ds)) = false).
  { destruct (cum_clash_free o 0 (sblocks (map IWrite ds))) eqn:Ef; [exfalso|reflexivity].
    exact (proj1 (clash_free_char o _ 0) Ef pre c rest E Hw). }
  destruct (legacy_session_delivered os o (map IWrite ds) n Hopt Hl Hit Hn) as ((r' & Hr & Hst & _ & Hcons) & Hread).
  rewrite E, Hd in Hr, Hread.
  exists (concat p2), (concat p3 ++ c ++ concat rest).
  split; [|split; [|split; [|split]]].
  - rewrite <- data_of_writes, <- sblocks_data, E, Hp, !concat_app. cbn [concat]. rewrite <- !app_assoc. reflexivity.
  - destruct c as [|x c]; [rewrite len_nil in Hfull; lia|]. destruct (concat p3); discriminate.
  - rewrite Hp, concat_app, len_app in Hpre. pose proof (len_nonneg (concat p3)). lia.
  - exists r'. split; [exact Hr|]. split; [exact Hst|exact (Hcons Hclash)].
  - exact Hread.
Qed.
Print Assumptions legacy_incompressible_truncates.
