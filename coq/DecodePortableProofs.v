(* DecodePortableProofs.v — the model of the portable decoder (DecodePortable.dec_p) refines the
   block-format specification in its executable form (BlockExec.sdecx / spec_decode_x). *)
From Coq Require Import ZifyBool.
From LZ4V Require Import Base GenBlock BlockFormat BlockFormatProofs BlockExec DecodePortable.
Ltac Zify.zify_post_hook ::= Z.div_mod_to_equations.

(* ---------------------------------------------------------------------------------------- *)
(* lists                                                                                      *)
(* ---------------------------------------------------------------------------------------- *)

Ltac llen := unfold len in *;
  repeat (rewrite ?app_length, ?rev_length, ?firstn_length, ?skipn_length in * ); cbn [length] in *.

Lemma len_rev {A} (l : list A) : len (rev l) = len l.
Proof. unfold len. now rewrite rev_length. Qed.

Lemma take_rev_spec l : forall n acc,
  take_rev l n acc =
    if len l <? n then None
    else Some (rev (firstn (Z.to_nat n) l) ++ acc, skipn (Z.to_nat n) l).
Proof.
  induction l as [|x l IH]; intros n acc; cbn [take_rev].
  - destruct (n <=? 0) eqn:E.
    + replace (len (@nil Z) <? n) with false by (cbn; lia).
      now rewrite firstn_nil, skipn_nil.
    + replace (len (@nil Z) <? n) with true by (cbn; lia). reflexivity.
  - destruct (n <=? 0) eqn:E.
    + replace (len (x :: l) <? n) with false by (pose proof (len_nonneg (x :: l)); lia).
      replace (Z.to_nat n) with O by lia. reflexivity.
    + rewrite IH. rewrite len_cons.
      replace (Z.to_nat n) with (S (Z.to_nat (n - 1))) by lia.
      replace (1 + len l <? n) with (len l <? n - 1) by lia.
      destruct (len l <? n - 1); [reflexivity|].
      cbn [firstn skipn rev]. now rewrite <- app_assoc.
Qed.

Lemma overwrite_eq s : forall r, overwrite s r = firstn (length r) s ++ skipn (length s) r.
Proof.
  induction s as [|x s IH]; intros [|y r]; cbn [overwrite length firstn skipn app]; try reflexivity.
  now rewrite IH.
Qed.

Lemma overwrite_length s r : length (overwrite s r) = length r.
Proof. rewrite overwrite_eq. llen. lia. Qed.

Lemma firstn_overwrite k s r : (k <= length s)%nat -> (k <= length r)%nat ->
  firstn k (overwrite s r) = firstn k s.
Proof.
  intros Hs Hr. rewrite overwrite_eq, firstn_app, firstn_firstn.
  replace (Nat.min k (length r)) with k by lia.
  rewrite firstn_length. replace (k - Nat.min (length r) (length s))%nat with O by lia.
  cbn [firstn]. apply app_nil_r.
Qed.

(* a wide copy of [from] over [rest], of which n cells are kept *)
Lemma take_rev_overwrite from rest n rout : n <= len from ->
  take_rev (overwrite from rest) n rout =
    if len rest <? n then None
    else Some (rev (firstn (Z.to_nat n) from) ++ rout, skipn (Z.to_nat n) (overwrite from rest)).
Proof.
  intros Hn. rewrite take_rev_spec.
  replace (len (overwrite from rest)) with (len rest) by (unfold len; now rewrite overwrite_length).
  destruct (len rest <? n) eqn:E; [reflexivity|].
  rewrite firstn_overwrite by (unfold len in *; lia). reflexivity.
Qed.

Lemma len_skipn_overwrite from rest n : 0 <= n <= len rest ->
  len (skipn (Z.to_nat n) (overwrite from rest)) = len rest - n.
Proof. intros H. unfold len in *. rewrite skipn_length, overwrite_length. lia. Qed.

Lemma longer_than_spec l : forall n, longer_than n l = (n <? length l)%nat.
Proof.
  induction l as [|x l IH]; intros n.
  - destruct n; reflexivity.
  - destruct n as [|n]; [reflexivity|]. cbn [longer_than length]. rewrite IH. reflexivity.
Qed.

(* ---------------------------------------------------------------------------------------- *)
(* the periodic continuation                                                                  *)
(* ---------------------------------------------------------------------------------------- *)

Lemma cyc_nil_cur k P : cyc k [] P = cyc k P P.
Proof. destruct k as [|k]; [reflexivity|]. destruct P; reflexivity. Qed.

Lemma cyc_app c : forall k d P, cyc (length c + k) (c ++ d) P = c ++ cyc k d P.
Proof.
  induction c as [|x c IH]; intros k d P; [reflexivity|].
  cbn [length Nat.add app cyc]. now rewrite IH.
Qed.

Lemma cyc_small k : forall c P, (k <= length c)%nat -> cyc k c P = firstn k c.
Proof.
  induction k as [|k IH]; intros c P H; [reflexivity|].
  destruct c as [|x c]; [cbn in H; lia|]. cbn [cyc firstn]. rewrite IH; [reflexivity|cbn in H; lia].
Qed.

Lemma cyc_length w : forall c P, P <> [] -> length (cyc w c P) = w.
Proof.
  induction w as [|w IH]; intros c P HP; [reflexivity|].
  cbn [cyc]. destruct c as [|x c].
  - destruct P as [|y P]; [congruence|]. cbn [length]. now rewrite IH.
  - cbn [length]. now rewrite IH.
Qed.

Lemma firstn_cyc m : forall w c P, (m <= w)%nat -> firstn m (cyc w c P) = cyc m c P.
Proof.
  induction m as [|m IH]; intros w c P H; [reflexivity|].
  destruct w as [|w]; [lia|]. cbn [cyc].
  destruct c as [|x c].
  - destruct P as [|y P]; [reflexivity|]. cbn [firstn]. rewrite IH by lia. reflexivity.
  - cbn [firstn]. rewrite IH by lia. reflexivity.
Qed.

(* rotating the period *)
Lemma cyc_rot k : forall A B, cyc k B (A ++ B) = cyc k (B ++ A) (B ++ A).
Proof.
  induction k as [k IH] using lt_wf_ind. intros A B.
  destruct B as [|b B'].
  - rewrite app_nil_r. cbn [app]. apply cyc_nil_cur.
  - remember (b :: B') as B eqn:EB.
    destruct (Nat.le_gt_cases k (length B)) as [Hk|Hk].
    + rewrite !cyc_small by (rewrite ?app_length; lia).
      rewrite firstn_app. replace (k - length B)%nat with O by lia. cbn [firstn]. now rewrite app_nil_r.
    + assert (exists k', k = (length B + k')%nat /\ (k' < k)%nat) as (k' & Ek & Hlt).
      { exists (k - length B)%nat. subst B. cbn [length] in *. lia. }
      rewrite Ek.
      pose proof (cyc_app B k' [] (A ++ B)) as H1. rewrite app_nil_r in H1. rewrite H1.
      rewrite (cyc_app B k' A (B ++ A)).
      f_equal. rewrite cyc_nil_cur. symmetry. apply IH. exact Hlt.
Qed.

Lemma cyc_periods q : forall P r, (r <= length P)%nat ->
  cyc (q * length P + r) P P = app_n q P (firstn r P).
Proof.
  induction q as [|q IH]; intros P r Hr.
  - cbn [Nat.mul Nat.add app_n]. apply cyc_small. exact Hr.
  - cbn [Nat.mul app_n]. rewrite <- Nat.add_assoc.
    pose proof (cyc_app P (q * length P + r) [] P) as H1. rewrite app_nil_r in H1.
    rewrite H1, cyc_nil_cur. now rewrite IH.
Qed.

Lemma app_n_shift q : forall (R t : list Z), app_n q R (R ++ t) = R ++ app_n q R t.
Proof. induction q as [|q IH]; intros R t; [reflexivity|]. cbn [app_n]. now rewrite IH. Qed.

Lemma rev_app_n q : forall (P X t : list Z), rev (app_n q P X) ++ t = rev X ++ app_n q (rev P) t.
Proof.
  induction q as [|q IH]; intros P X t; [reflexivity|].
  cbn [app_n]. rewrite rev_app_distr, <- app_assoc, IH, app_n_shift. reflexivity.
Qed.

(* the period of a match at distance o in the history V (most recent first), in output order,
   and the history after the match *)
Definition period (o : Z) (V : list Z) : list Z := rev (firstn (Z.to_nat o) V).
Definition mres (m o : Z) (V rout : list Z) : list Z :=
  rev (cyc (Z.to_nat m) (period o V) (period o V)) ++ rout.

Lemma period_length o V : 0 <= o <= len V -> length (period o V) = Z.to_nat o.
Proof. intros H. unfold period. llen. lia. Qed.

Lemma period_app o V W : o <= len V -> period o (V ++ W) = period o V.
Proof.
  intros H. unfold period. rewrite firstn_app.
  replace (Z.to_nat o - length V)%nat with O by (unfold len in *; lia).
  cbn [firstn]. now rewrite app_nil_r.
Qed.

Lemma len_mres m o V rout : 0 <= m -> 0 < o <= len V -> len (mres m o V rout) = m + len rout.
Proof.
  intros Hm Ho. unfold mres. rewrite len_app, len_rev. unfold len at 1.
  rewrite cyc_length; [lia|].
  intros E. apply (f_equal (@length Z)) in E. rewrite period_length in E by lia. cbn in E. lia.
Qed.

(* m <= o: the match lies inside the history *)
Lemma rev_cyc_small m o V : 0 <= m <= o -> o <= len V ->
  rev (cyc (Z.to_nat m) (period o V) (period o V)) =
  firstn (Z.to_nat m) (skipn (Z.to_nat (o - m)) V).
Proof.
  intros Hm Ho. rewrite cyc_small by (rewrite period_length; lia).
  unfold period. rewrite firstn_rev, rev_involutive.
  rewrite firstn_length. replace (Nat.min (Z.to_nat o) (length V)) with (Z.to_nat o) by (unfold len in *; lia).
  rewrite firstn_skipn_comm. f_equal; [lia|]. f_equal. lia.
Qed.

Lemma copy_fast_cyc m rdict rout klen dlen o :
  0 < o -> 0 <= m -> len rout = dlen -> len rdict = klen ->
  copy_fast m rdict rout klen dlen o =
    if dlen + klen <? o then None else Some (mres m o (rout ++ rdict) rout).
Proof.
  intros Ho Hm Hd Hk. unfold copy_fast.
  destruct (o <=? 0) eqn:E0; [lia|].
  destruct (dlen + klen <? o) eqn:E1; [reflexivity|].
  set (V := if dlen <? o then rout ++ rdict else rout).
  assert (HV : len V >= o /\ period o V = period o (rout ++ rdict)).
  { subst V. destruct (dlen <? o) eqn:E2.
    - split; [rewrite len_app; lia|reflexivity].
    - split; [lia|]. rewrite period_app by lia. reflexivity. }
  destruct HV as [HVl HVp].
  unfold mres. rewrite <- HVp.
  destruct (m <=? o) eqn:E3.
  - rewrite rev_cyc_small by lia. reflexivity.
  - f_equal.
    assert (HPl : length (period o V) = Z.to_nat o) by (apply period_length; lia).
    replace (Z.to_nat m) with (Z.to_nat (m / o) * length (period o V) + Z.to_nat (m mod o))%nat
      by (rewrite HPl; nia).
    rewrite cyc_periods by (rewrite HPl; lia).
    rewrite rev_app_n. f_equal.
    + unfold period. rewrite firstn_rev, rev_involutive. f_equal.
      rewrite firstn_length. unfold len in *. lia.
    + unfold period. now rewrite rev_involutive.
Qed.

(* ---------------------------------------------------------------------------------------- *)
(* the match copy of the code                                                                 *)
(* ---------------------------------------------------------------------------------------- *)

Definition phase2 (rout1 rest1 : list Z) (room1 offset mLen1 : Z) : option (list Z * list Z) :=
  if mLen1 =? 0 then Some (rout1, rest1) else
  if room1 <? mLen1 then None
  else if offset <? mLen1 then
    let bytesToCopy := offset * (mLen1 / offset) in
    let nl := dbl_last 64 offset (bytesToCopy + offset) in
    let w := Z.max (2 * nl - offset) mLen1 in
    let P := rrev (firstn (Z.to_nat offset) rout1) in
    let rest2 := overwrite (cyc (Z.to_nat (Z.min w room1)) P P) rest1 in
    take_rev rest2 mLen1 rout1
  else
    let from := rrev (firstn (Z.to_nat mLen1) (skipn (Z.to_nat (offset - mLen1)) rout1)) in
    take_rev (overwrite from rest1) mLen1 rout1.

Definition phase1 (dict : list Z) (dlen : Z) (rout rest : list Z) (di room offset mLen : Z)
  : option (list Z * list Z * Z * Z) :=
  if di <? offset then
    let need := offset - di in
    if dlen <? need then None
    else if room <? mLen then None
    else
      let n := Z.min mLen need in
      let from := firstn (Z.to_nat n) (skipn (Z.to_nat (dlen - need)) dict) in
      match take_rev (overwrite from rest) n rout with
      | Some (r1, t1) => Some (r1, t1, mLen - n, room - n)
      | None => None
      end
  else Some (rout, rest, mLen, room).

Lemma copy_match_p_unfold dict dlen rout rest di room offset mLen :
  copy_match_p dict dlen rout rest di room offset mLen =
  match phase1 dict dlen rout rest di room offset mLen with
  | None => None
  | Some (rout1, rest1, mLen1, room1) => phase2 rout1 rest1 room1 offset mLen1
  end.
Proof. reflexivity. Qed.

Lemma period_nonnil o V : 0 < o <= len V -> period o V <> [].
Proof.
  intros H E. apply (f_equal (@length Z)) in E. rewrite period_length in E by lia. cbn in E. lia.
Qed.

Lemma phase2_ok rout1 rest1 offset mLen1 : 0 < offset <= len rout1 -> 0 <= mLen1 ->
  match phase2 rout1 rest1 (len rest1) offset mLen1 with
  | None => len rest1 < mLen1
  | Some (r, t) => mLen1 <= len rest1 /\ r = mres mLen1 offset rout1 rout1 /\ len t = len rest1 - mLen1
  end.
Proof.
  intros Ho Hm. unfold phase2.
  pose proof (len_nonneg rest1) as Hr.
  destruct (mLen1 =? 0) eqn:E0.
  { split; [lia|]. split; [|lia]. unfold mres. replace (Z.to_nat mLen1) with O by lia. reflexivity. }
  destruct (len rest1 <? mLen1) eqn:E1; [lia|].
  destruct (offset <? mLen1) eqn:E2.
  - cbv zeta. generalize (dbl_last 64 offset (offset * (mLen1 / offset) + offset)). intros nl.
    rewrite rrev_rev. fold (period offset rout1).
    set (W := Z.to_nat (Z.min (Z.max (2 * nl - offset) mLen1) (len rest1))).
    assert (HW : (Z.to_nat mLen1 <= W)%nat) by (subst W; lia).
    assert (HC : length (cyc W (period offset rout1) (period offset rout1)) = W)
      by (apply cyc_length, period_nonnil; lia).
    rewrite take_rev_overwrite by (unfold len; rewrite HC; lia).
    rewrite E1. split; [lia|]. split.
    + unfold mres. rewrite firstn_cyc by exact HW. reflexivity.
    + apply len_skipn_overwrite. lia.
  - cbv zeta. rewrite rrev_rev.
    set (from := rev (firstn (Z.to_nat mLen1) (skipn (Z.to_nat (offset - mLen1)) rout1))).
    assert (HF : length from = Z.to_nat mLen1) by (subst from; llen; lia).
    rewrite take_rev_overwrite by (unfold len; lia).
    rewrite E1. split; [lia|]. split.
    + unfold mres. rewrite rev_cyc_small by lia.
      rewrite firstn_all2 by lia. subst from. now rewrite rev_involutive.
    + apply len_skipn_overwrite. lia.
Qed.

Lemma period_dict o rout dict : len rout < o <= len rout + len dict ->
  period o (rout ++ rev dict) =
  skipn (Z.to_nat (len dict - (o - len rout))) dict ++ rev rout.
Proof.
  intros H. unfold period. rewrite firstn_app.
  rewrite (@firstn_all2 _ _ rout) by (unfold len in *; lia).
  rewrite firstn_rev, rev_app_distr, rev_involutive.
  f_equal. f_equal. unfold len in *. lia.
Qed.

Lemma copy_match_p_ok dict rout rest offset mLen : 0 < offset -> 0 < mLen ->
  match copy_match_p dict (len dict) rout rest (len rout) (len rest) offset mLen with
  | None => len rout + len dict < offset \/ len rest < mLen
  | Some (r, t) => offset <= len rout + len dict /\ mLen <= len rest /\
                   r = mres mLen offset (rout ++ rev dict) rout /\ len t = len rest - mLen
  end.
Proof.
  intros Ho Hm. rewrite copy_match_p_unfold. unfold phase1.
  pose proof (len_nonneg rest) as Hr. pose proof (len_nonneg rout) as Hro.
  pose proof (len_nonneg dict) as Hdi.
  destruct (len rout <? offset) eqn:E0.
  - (* the match starts in the dictionary *)
    destruct (len dict <? offset - len rout) eqn:E1; [left; lia|].
    destruct (len rest <? mLen) eqn:E2; [right; lia|].
    cbv zeta.
    set (need := offset - len rout).
    set (A := skipn (Z.to_nat (len dict - need)) dict).
    assert (HA : length A = Z.to_nat need) by (subst A need; llen; lia).
    assert (HP : period offset (rout ++ rev dict) = A ++ rev rout)
      by (subst A need; apply period_dict; lia).
    set (n := Z.min mLen need).
    set (from := firstn (Z.to_nat n) A).
    assert (HF : length from = Z.to_nat n) by (subst from n; llen; lia).
    rewrite take_rev_overwrite by (unfold len; lia).
    replace (len rest <? n) with false by lia.
    rewrite <- (len_skipn_overwrite from rest n) by lia.
    set (t1 := skipn (Z.to_nat n) (overwrite from rest)).
    assert (Ht1 : len t1 = len rest - n) by (subst t1; apply len_skipn_overwrite; lia).
    rewrite (@firstn_all2 _ _ from) by lia.
    destruct (mLen <=? need) eqn:E3.
    + (* entirely inside the dictionary *)
      unfold phase2. replace (mLen - n =? 0) with true by lia.
      split; [lia|]. split; [lia|]. split; [|lia].
      unfold mres. rewrite HP. rewrite cyc_small by (rewrite app_length; lia).
      rewrite firstn_app. replace (Z.to_nat mLen - length A)%nat with O by lia.
      cbn [firstn]. rewrite app_nil_r. subst from. f_equal. f_equal. f_equal. lia.
    + (* dictionary, then the output *)
      assert (Efrom : from = A) by (subst from; apply firstn_all2; lia).
      rewrite Efrom.
      pose proof (phase2_ok (rev A ++ rout) t1 offset (mLen - n)) as H2.
      assert (Hlen1 : len (rev A ++ rout) = offset) by (rewrite len_app, len_rev; unfold len in *; lia).
      specialize (H2 ltac:(lia) ltac:(lia)).
      destruct (phase2 (rev A ++ rout) t1 (len t1) offset (mLen - n)) as [[r t]|]; [|lia].
      destruct H2 as (H2a & H2b & H2c).
      split; [lia|]. split; [lia|]. split; [|lia].
      rewrite H2b. unfold mres. rewrite HP.
      assert (HP1 : period offset (rev A ++ rout) = rev rout ++ A).
      { unfold period. rewrite firstn_all2 by (unfold len in *; lia).
        now rewrite rev_app_distr, rev_involutive. }
      rewrite HP1.
      replace (Z.to_nat mLen) with (length A + Z.to_nat (mLen - n))%nat by lia.
      rewrite cyc_app, cyc_rot, rev_app_distr, <- app_assoc. reflexivity.
  - (* the match lies in the output *)
    pose proof (phase2_ok rout rest offset mLen ltac:(lia) ltac:(lia)) as H2.
    destruct (phase2 rout rest (len rest) offset mLen) as [[r t]|]; [|right; exact H2].
    destruct H2 as (H2a & H2b & H2c).
    split; [lia|]. split; [lia|]. split; [|lia].
    rewrite H2b. unfold mres. rewrite period_app by lia. reflexivity.
Qed.

(* the 18-byte window of shortcut 2: its first m cells are history when m <= offset *)
Lemma firstn_window18 rout rest o m : 0 <= m -> m <= o -> m <= 18 -> o <= len rout ->
  firstn (Z.to_nat m) (window18 rout rest o) = firstn (Z.to_nat m) (period o rout).
Proof.
  intros Hm Hmo Hm18 Ho. unfold window18, period. rewrite rrev_rev.
  set (k := Z.min o 18).
  rewrite firstn_app.
  replace (Z.to_nat m - length (rev (firstn (Z.to_nat k) (skipn (Z.to_nat (o - k)) rout))))%nat with O
    by (subst k; llen; lia).
  cbn [firstn]. rewrite app_nil_r.
  rewrite !firstn_rev. f_equal.
  rewrite !skipn_firstn_comm, <- skipn_add.
  subst k. llen. f_equal; [lia|]. f_equal. lia.
Qed.

(* ---------------------------------------------------------------------------------------- *)
(* input stays a byte list; lengths read are non-negative                                     *)
(* ---------------------------------------------------------------------------------------- *)

Lemma read_ext_ok s : forall acc v s', bytes s -> read_ext s acc = Some (v, s') -> acc <= v /\ bytes s'.
Proof.
  induction s as [|x s IH]; intros acc v s' Hb H; cbn [read_ext] in H; [discriminate|].
  pose proof (Forall_inv Hb) as Hx. pose proof (Forall_inv_tail Hb) as Hs. unfold is_byte in Hx.
  destruct (x =? 255).
  - destruct (IH _ _ _ Hs H) as [H1 H2]. split; [lia|exact H2].
  - inversion H; subst. split; [lia|exact Hs].
Qed.

Lemma read_len_ok nb s v s' : bytes s -> 0 <= nb -> read_len nb s = Some (v, s') -> 0 <= v /\ bytes s'.
Proof.
  intros Hb Hn H. unfold read_len in H. destruct (nb =? 15).
  - destruct (read_ext_ok _ _ _ _ Hb H) as [H1 H2]. split; [lia|exact H2].
  - inversion H; subst. split; assumption.
Qed.

(* ---------------------------------------------------------------------------------------- *)
(* the loop                                                                                   *)
(* ---------------------------------------------------------------------------------------- *)

Section Sim.
Variable dict : list Z.
Variable dstlen : Z.

(* from `mLen := b & 0xF` to the end of the loop body *)
Definition general_p (f : nat) (mnib : Z) (s2 rout2 rest2 : list Z) (di2 : Z) : dres :=
  match s2 with
  | [] => if mnib =? 0 then DOk di2 (rev_append rout2 rest2) else DErr
  | [_] => DErr
  | o1 :: o2 :: s3 =>
    let offset := o1 + 256 * o2 in
    if offset =? 0 then DErr else
    match read_len mnib s3 with
    | None => DErr
    | Some (ml, s4) =>
      let mLen := ml + 4 in
      match copy_match_p dict (len dict) rout2 rest2 di2 (dstlen - di2) offset mLen with
      | None => DErr
      | Some (rout3, rest3) => dec_p dict (len dict) dstlen f s4 rout3 rest3 (di2 + mLen)
      end
    end
  end.

(* after the literals of shortcut 1 *)
Definition sc2_p (f : nat) (mnib : Z) (s2 rout2 rest2 : list Z) (di2 : Z) : dres :=
  if mnib <? 15 then
    match s2 with
    | o1 :: o2 :: s3 =>
      let offset := o1 + 256 * o2 in
      let mLen := mnib + 4 in
      if (mLen <=? offset) && (offset <? di2) && (di2 - offset + 18 <=? dstlen) && (di2 + mLen <=? dstlen) then
        match take_rev (overwrite (window18 rout2 rest2 offset) rest2) mLen rout2 with
        | None => DErr
        | Some (rout4, rest4) => dec_p dict (len dict) dstlen f s3 rout4 rest4 (di2 + mLen)
        end
      else general_p f mnib s2 rout2 rest2 di2
    | _ => DErr
    end
  else general_p f mnib s2 rout2 rest2 di2.

Lemma dec_p_unfold f b s1 rout rest di :
  dec_p dict (len dict) dstlen (S f) (b :: s1) rout rest di =
  let lLen := b / 16 in
  let mnib := b mod 16 in
  if lLen =? 0 then general_p f mnib s1 rout rest di
  else if (lLen <? 15) && longer_than 16 s1 then
    match take_rev (overwrite (firstn 16 s1) rest) lLen rout with
    | None => DErr
    | Some (rout2, rest2) => sc2_p f mnib (skipn (Z.to_nat lLen) s1) rout2 rest2 (di + lLen)
    end
  else
    match read_len lLen s1 with
    | None => DErr
    | Some (ll, s2) =>
      match take_rev s2 ll rout with
      | None => DErr
      | Some (rout2, s3) =>
        match take_rev rest ll [] with
        | None => DErr
        | Some (_, rest2) => general_p f mnib s3 rout2 rest2 (di + ll)
        end
      end
    end.
Proof. reflexivity. Qed.

(* the specification after the literals *)
Definition spec_tail (f : nat) (mnib : Z) (r2 rout1 : list Z) (di1 : Z) : option (list Z) :=
  match r2 with
  | [] => if mnib =? 0 then Some rout1 else None
  | [_] => None
  | o1 :: o2 :: r3 =>
    let o := o1 + 256 * o2 in
    if o =? 0 then None else
    match read_len mnib r3 with None => None | Some (ml, r4) =>
    let m := ml + 4 in
    if dstlen <? di1 + m then None else
    match copy_fast m (rrev dict) rout1 (len dict) di1 o with None => None | Some rout2 =>
    sdecx f r4 (rrev dict) rout2 (len dict) (di1 + m) dstlen end end
  end.

Lemma sdecx_unfold f tok r0 rout di :
  sdecx (S f) (tok :: r0) (rrev dict) rout (len dict) di dstlen =
  match read_len (tok / 16) r0 with None => None | Some (ll, r1) =>
  if dstlen <? di + ll then None else
  match take_rev r1 ll rout with None => None | Some (rout1, r2) =>
  spec_tail f (tok mod 16) r2 rout1 (di + ll) end end.
Proof. reflexivity. Qed.

Definition Rel (x : dres) (y : option (list Z)) : Prop :=
  match x, y with
  | DOk n d, Some r => n = len r /\ exists j, d = rev r ++ j /\ len r + len j = dstlen
  | DErr, None => True
  | _, _ => False
  end.

Definition Hyp (f : nat) : Prop := forall s rout rest di,
  bytes s -> di = len rout -> len rout + len rest = dstlen ->
  Rel (dec_p dict (len dict) dstlen f s rout rest di)
      (sdecx f s (rrev dict) rout (len dict) di dstlen).

Lemma len_rrev (l : list Z) : len (rrev l) = len l.
Proof. rewrite rrev_rev. apply len_rev. Qed.

Lemma general_sim f : Hyp f -> forall mnib s2 rout2 rest2 di2,
  bytes s2 -> 0 <= mnib -> di2 = len rout2 -> len rout2 + len rest2 = dstlen ->
  Rel (general_p f mnib s2 rout2 rest2 di2) (spec_tail f mnib s2 rout2 di2).
Proof.
  intros IH mnib s2 rout2 rest2 di2 Hb Hm Hdi Hlen. subst di2.
  pose proof (len_nonneg rout2) as Hr2. pose proof (len_nonneg rest2) as Ht2.
  pose proof (len_nonneg dict) as Hd.
  unfold general_p, spec_tail.
  destruct s2 as [|o1 [|o2 s3]].
  - destruct (mnib =? 0); [|exact I]. cbn [Rel]. split; [reflexivity|].
    exists rest2. rewrite rev_append_rev. split; [reflexivity|lia].
  - exact I.
  - pose proof (Forall_inv Hb) as Ho1. pose proof (Forall_inv_tail Hb) as Hb1.
    pose proof (Forall_inv Hb1) as Ho2. pose proof (Forall_inv_tail Hb1) as Hb3.
    unfold is_byte in Ho1, Ho2. cbv zeta.
    set (o := o1 + 256 * o2). assert (Ho : 0 <= o) by (subst o; lia).
    destruct (o =? 0) eqn:E0; [exact I|].
    destruct (read_len mnib s3) as [[ml s4]|] eqn:ERL; [|exact I].
    destruct (read_len_ok _ _ _ _ Hb3 Hm ERL) as [Hml Hb4].
    replace (dstlen - len rout2) with (len rest2) by lia.
    pose proof (copy_match_p_ok dict rout2 rest2 o (ml + 4) ltac:(lia) ltac:(lia)) as HC.
    rewrite (copy_fast_cyc (ml + 4) (rrev dict) rout2 (len dict) (len rout2) o)
      by (try apply len_rrev; try reflexivity; lia).
    destruct (copy_match_p dict (len dict) rout2 rest2 (len rout2) (len rest2) o (ml + 4)) as [[r t]|].
    + destruct HC as (H1 & H2 & H3 & H4). rewrite <- rrev_rev in H3.
      replace (dstlen <? len rout2 + (ml + 4)) with false by lia.
      replace (len rout2 + len dict <? o) with false by lia.
      assert (Hlr : len r = ml + 4 + len rout2).
      { rewrite H3, len_mres; [lia|lia|]. rewrite len_app, len_rrev. lia. }
      rewrite <- H3. apply IH; [exact Hb4|lia|lia].
    + destruct (dstlen <? len rout2 + (ml + 4)) eqn:E1; [exact I|].
      replace (len rout2 + len dict <? o) with true by lia. exact I.
Qed.

Lemma sc2_sim f : Hyp f -> forall mnib s2 rout2 rest2 di2,
  bytes s2 -> (3 <= length s2)%nat -> 0 <= mnib <= 15 ->
  di2 = len rout2 -> len rout2 + len rest2 = dstlen ->
  Rel (sc2_p f mnib s2 rout2 rest2 di2) (spec_tail f mnib s2 rout2 di2).
Proof.
  intros IH mnib s2 rout2 rest2 di2 Hb Hl Hm Hdi Hlen.
  unfold sc2_p.
  destruct (mnib <? 15) eqn:EM; [|apply general_sim; (assumption || lia)].
  destruct s2 as [|o1 [|o2 s3]]; [cbn in Hl; lia|cbn in Hl; lia|].
  cbv zeta.
  set (o := o1 + 256 * o2).
  destruct ((mnib + 4 <=? o) && (o <? di2) && (di2 - o + 18 <=? dstlen) && (di2 + (mnib + 4) <=? dstlen)) eqn:EC;
    [|apply general_sim; (assumption || lia)].
  subst di2.
  pose proof (len_nonneg rout2) as Hr2. pose proof (len_nonneg rest2) as Ht2.
  pose proof (Forall_inv_tail (Forall_inv_tail Hb)) as Hb3.
  assert (HW : mnib + 4 <= len (window18 rout2 rest2 o)).
  { unfold window18. rewrite len_app, rrev_rev. llen. lia. }
  rewrite take_rev_overwrite by exact HW.
  replace (len rest2 <? mnib + 4) with false by lia.
  rewrite firstn_window18 by lia.
  unfold spec_tail. cbv zeta. fold o.
  replace (o =? 0) with false by lia.
  unfold read_len. replace (mnib =? 15) with false by lia.
  replace (dstlen <? len rout2 + (mnib + 4)) with false by lia.
  rewrite (copy_fast_cyc (mnib + 4) (rrev dict) rout2 (len dict) (len rout2) o)
    by (try apply len_rrev; try reflexivity; lia).
  pose proof (len_nonneg dict) as Hd.
  replace (len rout2 + len dict <? o) with false by lia.
  assert (E : mres (mnib + 4) o (rout2 ++ rrev dict) rout2 =
              rev (firstn (Z.to_nat (mnib + 4)) (period o rout2)) ++ rout2).
  { unfold mres. rewrite period_app by lia.
    rewrite cyc_small by (rewrite period_length; lia). reflexivity. }
  rewrite E. apply IH; [exact Hb3| |].
  - rewrite <- E. rewrite len_mres; [lia|lia|]. rewrite len_app, len_rrev. lia.
  - rewrite <- E. rewrite len_mres; [|lia|rewrite len_app, len_rrev; lia].
    rewrite len_skipn_overwrite by lia. lia.
Qed.

Lemma dec_p_sim : forall f, Hyp f.
Proof.
  induction f as [|f IH]; intros s rout rest di Hb Hdi Hlen; [exact I|].
  pose proof (len_nonneg rout) as Hr. pose proof (len_nonneg rest) as Ht.
  destruct s as [|b s1].
  { cbn [dec_p sdecx Rel]. split; [exact Hdi|]. exists rest. rewrite rev_append_rev.
    split; [reflexivity|lia]. }
  pose proof (Forall_inv Hb) as Hbb. pose proof (Forall_inv_tail Hb) as Hb1. unfold is_byte in Hbb.
  rewrite dec_p_unfold, sdecx_unfold. cbv zeta.
  assert (HL : 0 <= b / 16 <= 15) by lia.
  assert (HM : 0 <= b mod 16 <= 15) by lia.
  revert HL HM. generalize (b / 16) (b mod 16). intros lLen mnib HL HM.
  pose proof (len_nonneg s1) as Hs1.
  destruct (lLen =? 0) eqn:EL0.
  { (* no literals *)
    replace lLen with 0 by lia. unfold read_len. change (0 =? 15) with false. cbv iota.
    rewrite Z.add_0_r. replace (dstlen <? di) with false by lia.
    rewrite take_rev_spec. replace (len s1 <? 0) with false by lia.
    change (Z.to_nat 0) with O. cbn [firstn skipn rev app].
    apply general_sim; (assumption || lia). }
  destruct ((lLen <? 15) && longer_than 16 s1) eqn:ESC.
  - (* shortcut 1 *)
    rewrite longer_than_spec in ESC.
    assert (HS : (16 < length s1)%nat) by lia.
    unfold read_len. replace (lLen =? 15) with false by lia.
    rewrite take_rev_overwrite by (llen; lia).
    rewrite take_rev_spec. replace (len s1 <? lLen) with false by (unfold len; lia).
    destruct (len rest <? lLen) eqn:ER.
    + replace (dstlen <? di + lLen) with true by lia. exact I.
    + replace (dstlen <? di + lLen) with false by lia.
      rewrite firstn_firstn. replace (Nat.min (Z.to_nat lLen) 16) with (Z.to_nat lLen) by lia.
      apply sc2_sim.
      * exact IH.
      * apply bytes_skipn. exact Hb1.
      * rewrite skipn_length. lia.
      * lia.
      * rewrite len_app, len_rev. llen. lia.
      * rewrite len_app, len_rev, len_skipn_overwrite by lia. llen. lia.
  - (* bounds-checked literal copy *)
    destruct (read_len lLen s1) as [[ll s2]|] eqn:ERL; [|exact I].
    destruct (read_len_ok lLen _ _ _ Hb1 (proj1 HL) ERL) as [Hll Hb2].
    rewrite !take_rev_spec.
    destruct (dstlen <? di + ll) eqn:EC.
    + destruct (len s2 <? ll); [exact I|]. replace (len rest <? ll) with true by lia. exact I.
    + destruct (len s2 <? ll) eqn:ES; [exact I|].
      replace (len rest <? ll) with false by lia.
      apply general_sim.
      * exact IH.
      * apply bytes_skipn. exact Hb2.
      * lia.
      * rewrite len_app, len_rev. llen. lia.
      * rewrite len_app, len_rev. llen. lia.
Qed.

End Sim.

(* ---------------------------------------------------------------------------------------- *)
(* the theorem                                                                                *)
(* ---------------------------------------------------------------------------------------- *)

Theorem portable_refines_spec : forall src dst0 dict, bytes src ->
  match decode_portable src dst0 dict, spec_decode_x src dict (len dst0) with
  | DOk n dst', Some out => n = len out /\ firstn (length out) dst' = out /\ length dst' = length dst0
  | DErr, None => True
  | _, _ => False
  end.
Proof.
  intros src dst0 dict Hb. unfold decode_portable, spec_decode_x.
  destruct src as [|b s]; [exact I|].
  pose proof (dec_p_sim dict (len dst0) (S (length (b :: s))) (b :: s) [] dst0 0 Hb eq_refl) as H.
  specialize (H ltac:(rewrite len_nil; lia)). unfold Rel in H.
  destruct (dec_p dict (len dict) (len dst0) (S (length (b :: s))) (b :: s) [] dst0 0) as [n d|];
    destruct (sdecx (S (length (b :: s))) (b :: s) (rrev dict) [] (len dict) 0 (len dst0)) as [r|];
    cbn [option_map]; try exact H.
  destruct H as (Hn & j & Hd & Hj). rewrite rrev_rev. subst d.
  split; [rewrite len_rev; exact Hn|]. split.
  - rewrite firstn_app, Nat.sub_diag, firstn_all. cbn [firstn]. apply app_nil_r.
  - llen. lia.
Qed.

(* consequences: the count is within the destination, the destination keeps its length, and the
   bytes returned do not depend on what the destination held before *)
Corollary portable_bounds : forall src dst0 dict n dst', bytes src ->
  decode_portable src dst0 dict = DOk n dst' -> 0 <= n <= len dst0 /\ length dst' = length dst0.
Proof.
  intros src dst0 dict n dst' Hb E. pose proof (portable_refines_spec src dst0 dict Hb) as H.
  rewrite E in H. destruct (spec_decode_x src dict (len dst0)) as [out|]; [|contradiction].
  destruct H as (Hn & Hf & Hl). split; [|exact Hl].
  apply (f_equal (@length Z)) in Hf. rewrite firstn_length in Hf. unfold len in *. lia.
Qed.

Corollary portable_independent : forall src dstA dstB dict nA nB dA dB, bytes src ->
  length dstA = length dstB ->
  decode_portable src dstA dict = DOk nA dA -> decode_portable src dstB dict = DOk nB dB ->
  nA = nB /\ firstn (Z.to_nat nA) dA = firstn (Z.to_nat nB) dB.
Proof.
  intros src dstA dstB dict nA nB dA dB Hb El EA EB.
  pose proof (portable_refines_spec src dstA dict Hb) as HA.
  pose proof (portable_refines_spec src dstB dict Hb) as HB.
  rewrite EA in HA. rewrite EB in HB.
  replace (len dstB) with (len dstA) in HB by (unfold len; now rewrite El).
  destruct (spec_decode_x src dict (len dstA)) as [out|]; [|contradiction].
  destruct HA as (-> & HfA & _). destruct HB as (-> & HfB & _).
  split; [reflexivity|]. unfold len. rewrite Nat2Z.id. now rewrite HfA, HfB.
Qed.

Print Assumptions portable_refines_spec.
Print Assumptions portable_bounds.
Print Assumptions portable_independent.
