(* GenCompressBodyProofs.v — theorems about the fast block compressor AS TRANSLATED from the source on
   every run (GenCompressBody.v: Compressor.CompressBlock, get, put, reset, blockHash, CompressBlockBound).

   1. blockHash and CompressBlockBound as translated by the body translator equal the one-line
      translations of GenBlock.v that the hand model (CompressFast.v) is built from.
   2. The translated get / put / reset, which work on the two array locations (table, inUse), refine
      the model's table operations ft_get / ft_put / ft_reset (CompressFastTable.v) under the relation
      table_rel; abs_table is an explicit abstraction function satisfying it.
   3. refines_stmt: the statement that the whole translated method equals compress_fast_list.
      It is NOT proved in general; it is tested with vm_compute on a few inputs (and by gen/bodytest
      on thousands, against the real Go code).
   4. short_src_refines / refines_stmt_short: refines_stmt PROVED for every source of at most 14
      bytes (the `goto lastLiterals` path): any destination, spare capacities, prior state, fuel.

   No axioms, nothing admitted.  See notes/translator3_report.md. *)
From Coq Require Import ZArith List Lia Bool FMapPositive.
From LZ4V Require Import Base GoT GenBlock GenCompressBody BlockFormat CompressFast CompressFastTable BlockTheorems.
Import ListNotations.
Open Scope Z_scope.
Open Scope got_scope.

(* ------------------------------------------------------------------------------------------ *)
(* 1. The two pure functions                                                                  *)
(* ------------------------------------------------------------------------------------------ *)
Theorem blockHash_eq x : GenCompressBody.lz4block_blockHash x = GenBlock.lz4block_blockHash x.
Proof. reflexivity. Qed.

(* the body translator wraps every int operation at 64 bits; GenBlock.v does not *)
Theorem CompressBlockBound_eq n : - 2 ^ 61 <= n <= 2 ^ 61 ->
  GenCompressBody.lz4block_CompressBlockBound n = GenBlock.lz4block_CompressBlockBound n.
Proof.
  intros H. unfold GenCompressBody.lz4block_CompressBlockBound, GenBlock.lz4block_CompressBlockBound.
  change (2 ^ 61) with 2305843009213693952 in *.
  assert (Hq : - 2305843009213693952 <= Z.quot n 255 <= 2305843009213693952).
  { Z.quot_rem_to_equations.
    destruct (Z_le_gt_dec 0 n); [specialize (H1 ltac:(lia) ltac:(lia)) | specialize (H2 ltac:(lia) ltac:(lia))]; lia. }
  rewrite (wi64_id (Z.quot n 255)) by lia. rewrite (wi64_id (n + _)) by lia. rewrite wi64_id by lia.
  reflexivity.
Qed.

(* ------------------------------------------------------------------------------------------ *)
(* 2. get / put / reset                                                                       *)
(* ------------------------------------------------------------------------------------------ *)
Lemma land_pow2_eqb a j : 0 <= j -> (Z.land a (2 ^ j) =? 0) = negb (Z.testbit a j).
Proof.
  intros Hj. destruct (Z.testbit a j) eqn:E; cbn [negb].
  - apply Z.eqb_neq. intros H0.
    assert (Ht : Z.testbit (Z.land a (2 ^ j)) j = true)
      by (rewrite Z.land_spec, E, Z.pow2_bits_true by lia; reflexivity).
    rewrite H0, Z.bits_0 in Ht. discriminate.
  - apply Z.eqb_eq. apply Z.bits_inj'. intros n Hn.
    rewrite Z.land_spec, Z.bits_0, Z.pow2_bits_eqb by lia.
    destruct (Z.eqb_spec j n) as [->|]; [rewrite E; reflexivity|apply andb_false_r].
Qed.

Lemma znth_zupd_same l i v : 0 <= i < zlen l -> znth (zupd l i v) i = v.
Proof.
  intros H. unfold zupd. rewrite znth_zsplice_in; unfold zlen in *; cbn [length]; try lia.
  replace (i - i) with 0 by lia. reflexivity.
Qed.
Lemma znth_zupd_other l i v j : 0 <= i < zlen l -> 0 <= j -> j <> i -> znth (zupd l i v) j = znth l j.
Proof.
  intros H Hj Hn. unfold zupd. apply znth_zsplice_out; unfold zlen in *; cbn [length]; lia.
Qed.

(* ---- the table: two list locations vs. the model's ftable ---- *)
Definition bit_used (inUse : list Z) (h : Z) : bool :=
  negb (Z.land (znth inUse (h / 32)) (wu32 (Z.shiftl 1 (h mod 32))) =? 0).
Definition entry (table inUse : list Z) (h : Z) : Z :=
  if bit_used inUse h then znth table h else 0.
(* what get reads in the model: the inner expression of ft_get *)
Definition ft_entry (tb : ftable) (h : Z) : Z :=
  let k := fkey h in
  if PositiveMap.mem k (used tb)
  then match PositiveMap.find k (vals tb) with
       | Some v => v
       | None => stale tb (Z.land h (lz4block_htSize - 1)) mod 65536
       end
  else 0.
Lemma ft_get_entry tb h si :
  ft_get tb h si =
  let i := ft_entry tb h + Z.ldiff si lz4block_winMask in
  if si <=? i then i - lz4block_winSize else i.
Proof. reflexivity. Qed.

Definition table_rel (table inUse : list Z) (tb : ftable) : Prop :=
  zlen table = 65536 /\ zlen inUse = 2048 /\
  forall h, 0 <= h < 65536 -> entry table inUse h = ft_entry tb h /\ 0 <= ft_entry tb h < 65536.

Lemma land_mask_range h : 0 <= h -> 0 <= Z.land h 65535 < 65536.
Proof.
  intros H. change 65535 with (Z.ones 16). rewrite Z.land_ones by lia.
  apply Z.mod_pos_bound. lia.
Qed.
Lemma ft_entry_mask tb h : ft_entry tb (Z.land h 65535) = ft_entry tb h.
Proof.
  unfold ft_entry, fkey. change (lz4block_htSize - 1) with 65535.
  rewrite <- !Z.land_assoc. change (Z.land 65535 65535) with 65535. reflexivity.
Qed.

(* the function computed by the translated get *)
Definition get_fun (table inUse : list Z) (h si : Z) : Z :=
  let h' := Z.land h 65535 in
  let i := if bit_used inUse h' then znth table h' else 0 in
  let i := wi64 (i + Z.ldiff si 65535) in
  if si <=? i then wi64 (i - 65536) else i.

Lemma div32_range h : 0 <= h < 65536 -> 0 <= h / 32 < 2048.
Proof. intros H. split; [apply Z.div_pos; lia|apply Z.div_lt_upper_bound; lia]. Qed.

Lemma get_exec fuel s :
  0 <= Compressor_get_h s ->
  exists i,
  lz4block_Compressor_get fuel s =
  Ret (set_Compressor_get_ret0 (get_fun (mem_Compressor_table s) (mem_Compressor_inUse s) (Compressor_get_h s) (Compressor_get_si s))
        (set_Compressor_get_i i (set_Compressor_get_h (Z.land (Compressor_get_h s) 65535) s))).
Proof.
  intros Hh. pose proof (land_mask_range _ Hh) as Hm. pose proof (div32_range _ Hm) as Hd.
  unfold lz4block_Compressor_get.
  lz4block_steps.
  rewrite seq_guard; lz4block_state_simpl.
  replace (arr_idx_ok 2048 _) with true
    by (symmetry; unfold arr_idx_ok; apply andb_true_intro; split; [apply Z.leb_le|apply Z.ltb_lt]; lia).
  rewrite seq_ite; lz4block_state_simpl.
  unfold get_fun. fold (bit_used (mem_Compressor_inUse s) (Z.land (Compressor_get_h s) 65535)).
  destruct (bit_used (mem_Compressor_inUse s) (Z.land (Compressor_get_h s) 65535)) eqn:Eb.
  - rewrite seq_guard; lz4block_state_simpl.
    replace (arr_idx_ok 65536 _) with true
      by (symmetry; unfold arr_idx_ok; apply andb_true_intro; split; [apply Z.leb_le|apply Z.ltb_lt]; lia).
    lz4block_steps.
    rewrite seq_ite; lz4block_state_simpl.
    cbv zeta.
    destruct (Compressor_get_si s <=? _) eqn:Ec; lz4block_steps; eexists; reflexivity.
  - lz4block_steps.
    rewrite seq_ite; lz4block_state_simpl.
    cbv zeta.
    destruct (Compressor_get_si s <=? _) eqn:Ec; lz4block_steps; eexists; reflexivity.
Qed.

Lemma get_fun_refines table inUse tb h si :
  table_rel table inUse tb -> 0 <= h -> 0 <= si < 2 ^ 62 ->
  get_fun table inUse h si = ft_get tb h si.
Proof.
  intros (Hlt & Hlu & Hrel) Hh Hsi. pose proof (land_mask_range _ Hh) as Hm.
  destruct (Hrel _ Hm) as [He Hr]. rewrite ft_entry_mask in He, Hr.
  rewrite ft_get_entry. unfold get_fun. fold (entry table inUse (Z.land h 65535)). rewrite He.
  change lz4block_winMask with 65535. change lz4block_winSize with 65536.
  assert (Hl : 0 <= Z.ldiff si 65535 <= si).
  { change 65535 with (Z.ones 16). rewrite Z.ldiff_ones_r by lia.
    rewrite Z.shiftr_div_pow2, Z.shiftl_mul_pow2 by lia.
    pose proof (Z.div_mod si (2 ^ 16) ltac:(lia)). pose proof (Z.mod_pos_bound si (2 ^ 16) ltac:(lia)).
    pose proof (Z.div_pos si (2 ^ 16) ltac:(lia) ltac:(lia)). lia. }
  change (2 ^ 62) with 4611686018427387904 in Hsi.
  cbv zeta. rewrite (wi64_id (ft_entry tb h + _)) by lia.
  destruct (si <=? _); [rewrite wi64_id by lia|]; reflexivity.
Qed.

Theorem get_refines fuel s tb :
  table_rel (mem_Compressor_table s) (mem_Compressor_inUse s) tb ->
  0 <= Compressor_get_h s -> 0 <= Compressor_get_si s < 2 ^ 62 ->
  exists s', lz4block_Compressor_get fuel s = Ret s'
    /\ Compressor_get_ret0 s' = ft_get tb (Compressor_get_h s) (Compressor_get_si s)
    /\ mem_Compressor_table s' = mem_Compressor_table s
    /\ mem_Compressor_inUse s' = mem_Compressor_inUse s.
Proof.
  intros Hrel Hh Hsi. destruct (get_exec fuel s Hh) as [i ->].
  eexists; split; [reflexivity|]. lz4block_state_simpl.
  repeat split. apply get_fun_refines; assumption.
Qed.

(* ---- put ---- *)
Definition put_table (table : list Z) (h si : Z) : list Z := zupd table (Z.land h 65535) (wu16 si).
Definition put_inUse (inUse : list Z) (h : Z) : list Z :=
  let h' := Z.land h 65535 in
  zupd inUse (h' / 32) (Z.lor (znth inUse (h' / 32)) (wu32 (Z.shiftl 1 (h' mod 32)))).

Lemma put_exec fuel s :
  0 <= Compressor_put_h s ->
  zlen (mem_Compressor_table s) = 65536 -> zlen (mem_Compressor_inUse s) = 2048 ->
  lz4block_Compressor_put fuel s =
  Fall (set_mem_Compressor_inUse (put_inUse (mem_Compressor_inUse s) (Compressor_put_h s))
         (set_mem_Compressor_table (put_table (mem_Compressor_table s) (Compressor_put_h s) (Compressor_put_si s))
           (set_Compressor_put_h (Z.land (Compressor_put_h s) 65535) s))).
Proof.
  intros Hh Hlt Hlu. pose proof (land_mask_range _ Hh) as Hm. pose proof (div32_range _ Hm) as Hd.
  unfold lz4block_Compressor_put.
  lz4block_steps.
  rewrite seq_guard; lz4block_state_simpl.
  replace (arr_idx_ok 65536 _) with true
    by (symmetry; unfold arr_idx_ok; apply andb_true_intro; split; [apply Z.leb_le|apply Z.ltb_lt]; lia).
  lz4block_steps.
  unfold guard, upd, sset, sget, sl_set, sl_get, sl_array; cbn [s_loc s_off]; lz4block_state_simpl.
  replace (arr_idx_ok 2048 _) with true
    by (symmetry; unfold arr_idx_ok; apply andb_true_intro; split; [apply Z.leb_le|apply Z.ltb_lt]; lia).
  unfold put_table, put_inUse. cbv zeta. rewrite !Z.add_0_l. reflexivity.
Qed.

Lemma bit_used_testbit l x : bit_used l x = Z.testbit (znth l (x / 32)) (x mod 32).
Proof.
  unfold bit_used. pose proof (Z.mod_pos_bound x 32 ltac:(lia)) as Hj.
  rewrite Z.shiftl_1_l, wu32_id.
  - rewrite land_pow2_eqb by lia. apply negb_involutive.
  - split; [apply Z.pow_nonneg; lia|]. change 4294967296 with (2 ^ 32). apply Z.pow_lt_mono_r; lia.
Qed.

Lemma fkey_small x : 0 <= x < 65536 -> fkey x = Z.to_pos (x + 1).
Proof.
  intros H. unfold fkey. change (lz4block_htSize - 1) with (Z.ones 16).
  rewrite Z.land_ones by lia. rewrite Z.mod_small by (change (2 ^ 16) with 65536; lia). reflexivity.
Qed.
Lemma fkey_mask h : fkey (Z.land h 65535) = fkey h.
Proof.
  unfold fkey. change (lz4block_htSize - 1) with 65535.
  rewrite <- Z.land_assoc. reflexivity.
Qed.

Lemma ft_entry_put_same tb h si : ft_entry (ft_put tb h si) h = si mod 65536.
Proof.
  unfold ft_entry, ft_put; cbn [used vals stale].
  rewrite PositiveMap.mem_find, !PositiveMap.gss. reflexivity.
Qed.
Lemma ft_entry_put_other tb h si x : fkey x <> fkey h -> ft_entry (ft_put tb h si) x = ft_entry tb x.
Proof.
  intros Hn. unfold ft_entry, ft_put; cbn [used vals stale].
  rewrite !PositiveMap.mem_find, !PositiveMap.gso by assumption. reflexivity.
Qed.

Theorem put_refines table inUse tb h si :
  table_rel table inUse tb -> 0 <= h ->
  table_rel (put_table table h si) (put_inUse inUse h) (ft_put tb h si).
Proof.
  intros (Hlt & Hlu & Hrel) Hh. pose proof (land_mask_range _ Hh) as Hm. pose proof (div32_range _ Hm) as Hd.
  unfold put_table, put_inUse. cbv zeta. set (h' := Z.land h 65535) in *.
  split; [rewrite zupd_length; lia|]. split; [rewrite zupd_length; lia|].
  intros x Hx. pose proof (div32_range _ Hx) as Hdx.
  destruct (Z.eq_dec x h') as [->|Hne].
  - assert (Hs : ft_entry (ft_put tb h si) h' = si mod 65536)
      by (unfold h'; rewrite ft_entry_mask; apply ft_entry_put_same).
    rewrite Hs. split; [|apply Z.mod_pos_bound; lia].
    unfold entry. rewrite bit_used_testbit, znth_zupd_same by lia.
    rewrite Z.lor_spec.
    replace (Z.testbit (wu32 (Z.shiftl 1 (h' mod 32))) (h' mod 32)) with true.
    + rewrite orb_true_r. rewrite znth_zupd_same by lia. reflexivity.
    + pose proof (Z.mod_pos_bound h' 32 ltac:(lia)) as Hj.
      rewrite Z.shiftl_1_l, wu32_id.
      * symmetry; apply Z.pow2_bits_true; lia.
      * split; [apply Z.pow_nonneg; lia|]. change 4294967296 with (2 ^ 32). apply Z.pow_lt_mono_r; lia.
  - assert (Hk : fkey x <> fkey h).
    { rewrite <- (fkey_mask h). fold h'. rewrite !fkey_small by lia. intros He.
      apply Z2Pos.inj in He; lia. }
    rewrite ft_entry_put_other by assumption.
    destruct (Hrel x Hx) as [He Hr]. split; [|assumption]. rewrite <- He.
    unfold entry. rewrite !bit_used_testbit, (znth_zupd_other table) by lia.
    destruct (Z.eq_dec (x / 32) (h' / 32)) as [Hq|Hq].
    + rewrite Hq, znth_zupd_same by lia. rewrite Z.lor_spec.
      pose proof (Z.mod_pos_bound h' 32 ltac:(lia)) as Hj.
      pose proof (Z.mod_pos_bound x 32 ltac:(lia)) as Hjx.
      rewrite Z.shiftl_1_l, wu32_id
        by (split; [apply Z.pow_nonneg; lia|]; change 4294967296 with (2 ^ 32); apply Z.pow_lt_mono_r; lia).
      rewrite Z.pow2_bits_false, orb_false_r; [reflexivity|].
      intros Hmod. apply Hne.
      rewrite (Z.div_mod x 32), (Z.div_mod h' 32) by lia. lia.
    + rewrite znth_zupd_other by lia. reflexivity.
Qed.

(* put as executed by the translated code, in the relational form *)
Theorem put_refines_exec fuel s tb :
  table_rel (mem_Compressor_table s) (mem_Compressor_inUse s) tb -> 0 <= Compressor_put_h s ->
  exists s', lz4block_Compressor_put fuel s = Fall s'
    /\ table_rel (mem_Compressor_table s') (mem_Compressor_inUse s')
                 (ft_put tb (Compressor_put_h s) (Compressor_put_si s)).
Proof.
  intros Hrel Hh. destruct Hrel as (Hlt & Hlu & Hr).
  rewrite (put_exec fuel s Hh Hlt Hlu). eexists; split; [reflexivity|].
  lz4block_state_simpl. apply put_refines; [exact (conj Hlt (conj Hlu Hr))|assumption].
Qed.

(* ---- reset ---- *)
Lemma reset_exec fuel s :
  lz4block_Compressor_reset fuel s = Fall (set_mem_Compressor_inUse (zeros 2048) s).
Proof. reflexivity. Qed.

Theorem reset_refines table st : zlen table = 65536 -> table_rel table (zeros 2048) (ft_reset st).
Proof.
  intros Hlt. split; [assumption|]. split; [apply zlen_zeros; lia|].
  intros h Hh. unfold entry. rewrite bit_used_testbit, znth_zeros, Z.bits_0.
  unfold ft_entry, ft_reset; cbn [used vals stale].
  rewrite PositiveMap.mem_find, PositiveMap.gempty. split; [reflexivity|lia].
Qed.

Theorem reset_refines_exec fuel s st :
  zlen (mem_Compressor_table s) = 65536 ->
  exists s', lz4block_Compressor_reset fuel s = Fall s'
    /\ table_rel (mem_Compressor_table s') (mem_Compressor_inUse s') (ft_reset st).
Proof.
  intros Hlt. rewrite reset_exec. eexists; split; [reflexivity|].
  lz4block_state_simpl. apply reset_refines; assumption.
Qed.

(* ---- an explicit abstraction FUNCTION from the two arrays to the model's table ----
   vals is empty (nothing written during "this call"), the bitmap becomes the key set [used], and the
   array contents are the stale entries.  It satisfies table_rel, so get/put/reset on the arrays
   refine ft_get/ft_put/ft_reset starting from abs_table of ANY well-formed pair of arrays. *)
Definition abs_step (inUse : list Z) (m : PositiveMap.t unit) (h : Z) : PositiveMap.t unit :=
  if bit_used inUse h then PositiveMap.add (fkey h) tt m else m.
Definition all_hashes : list Z := map Z.of_nat (List.seq 0 (Z.to_nat 65536)).
Definition abs_used (inUse : list Z) : PositiveMap.t unit :=
  fold_left (abs_step inUse) all_hashes (PositiveMap.empty unit).
Definition abs_table (table inUse : list Z) : ftable :=
  mkft (PositiveMap.empty Z) (abs_used inUse) (fun h => znth table h).

Lemma fold_used_mem inUse ks : forall m k,
  PositiveMap.mem k (fold_left (abs_step inUse) ks m)
  = PositiveMap.mem k m || existsb (fun h => Pos.eqb (fkey h) k && bit_used inUse h) ks.
Proof.
  induction ks as [|a ks IH]; intros m k; cbn [fold_left existsb].
  - rewrite orb_false_r. reflexivity.
  - rewrite IH. unfold abs_step. destruct (bit_used inUse a).
    + rewrite andb_true_r. destruct (Pos.eqb_spec (fkey a) k) as [->|Hn].
      * rewrite PositiveMap.mem_find, PositiveMap.gss. rewrite orb_true_r. reflexivity.
      * rewrite !PositiveMap.mem_find, PositiveMap.gso by congruence. reflexivity.
    + rewrite andb_false_r. reflexivity.
Qed.

Lemma in_all_hashes x : In x all_hashes <-> 0 <= x < 65536.
Proof.
  unfold all_hashes. rewrite in_map_iff. split.
  - intros (n & <- & Hn). apply in_seq in Hn. lia.
  - intros H. exists (Z.to_nat x). split; [lia|]. apply in_seq. lia.
Qed.

Lemma abs_used_mem inUse x : 0 <= x < 65536 ->
  PositiveMap.mem (fkey x) (abs_used inUse) = bit_used inUse x.
Proof.
  intros Hx. unfold abs_used. rewrite fold_used_mem.
  rewrite PositiveMap.mem_find, PositiveMap.gempty. cbn [orb].
  destruct (existsb _ all_hashes) eqn:E.
  - apply existsb_exists in E. destruct E as (h & Hin & Hp).
    apply in_all_hashes in Hin. apply andb_true_iff in Hp. destruct Hp as [Hk Hb].
    apply Pos.eqb_eq in Hk. rewrite !fkey_small in Hk by lia. apply Z2Pos.inj in Hk; try lia.
    assert (h = x) by lia. subst. symmetry; assumption.
  - destruct (bit_used inUse x) eqn:Eb; [|reflexivity].
    assert (Hex : existsb (fun h => (fkey h =? fkey x)%positive && bit_used inUse h) all_hashes = true).
    { apply existsb_exists. exists x. split; [apply in_all_hashes; assumption|].
      rewrite Pos.eqb_refl, Eb. reflexivity. }
    congruence.
Qed.

Theorem abs_table_rel table inUse :
  zlen table = 65536 -> zlen inUse = 2048 ->
  (forall h, 0 <= h < 65536 -> 0 <= znth table h < 65536) ->
  table_rel table inUse (abs_table table inUse).
Proof.
  intros Hlt Hlu Hr. split; [assumption|]. split; [assumption|].
  intros x Hx. unfold ft_entry, abs_table; cbn [used vals stale].
  rewrite abs_used_mem by assumption. rewrite PositiveMap.gempty.
  change (lz4block_htSize - 1) with (Z.ones 16). rewrite Z.land_ones by lia.
  rewrite (Z.mod_small x) by (change (2 ^ 16) with 65536; lia).
  rewrite (Z.mod_small (znth table x)) by (apply Hr; assumption).
  unfold entry. destruct (bit_used inUse x); [split; [reflexivity|apply Hr; assumption]|split; [reflexivity|lia]].
Qed.

(* ------------------------------------------------------------------------------------------ *)
(* 3. The whole function against the hand model: STATEMENT (tested below, not proved)         *)
(* ------------------------------------------------------------------------------------------ *)
Fixpoint list_eqb (a b : list Z) : bool :=
  match a, b with
  | [], [] => true
  | x :: a', y :: b' => (x =? y) && list_eqb a' b'
  | _, _ => false
  end.

(* the translated method on an object whose arrays hold table / inUse; src and dst in fresh
   locations, with spare capacity *)
Definition run_translated (fuel : nat) (table inUse src src_spare dst dst_spare : list Z) : outcome state :=
  lz4block_Compressor_CompressBlock fuel
    (init_lz4block_Compressor_CompressBlock_fresh src src_spare dst dst_spare
       (init_lz4block_Compressor table inUse zero_state)).

(* the model on the same input: the stale entries are the table's contents *)
Definition run_model (table src dst : list Z) : cres :=
  compress_fast_list src (fun h => znth table h) (zlen dst).

(* COk block: n = |block|, err = nil, dst's array = block followed by its old contents;
   CErr: (0, ErrInvalidSourceShortBuffer); CZero: (0, nil); CPanic: a run-time panic.
   (On the two (0, _) exits dst may have been partially written: nothing is claimed about it.) *)
Definition agrees (r : cres) (o : outcome state) (dst dst_spare : list Z) : bool :=
  match r, o with
  | COk block, Ret s' =>
    (Compressor_CompressBlock_ret0 s' =? zlen block) && (Compressor_CompressBlock_ret1 s' =? 0)
    && list_eqb (mem_Compressor_CompressBlock_dst s') (block ++ skipn (length block) (dst ++ dst_spare))
  | CErr, Ret s' => (Compressor_CompressBlock_ret0 s' =? 0) && (Compressor_CompressBlock_ret1 s' =? 1)
  | CZero, Ret s' => (Compressor_CompressBlock_ret0 s' =? 0) && (Compressor_CompressBlock_ret1 s' =? 0)
  | CPanic, Pan _ => true
  | _, _ => false
  end.

Definition refines_check (fuel : nat) (table inUse src src_spare dst dst_spare : list Z) : bool :=
  agrees (run_model table src dst) (run_translated fuel table inUse src src_spare dst dst_spare) dst dst_spare.

(* NOT PROVED.  The translated CompressBlock equals the hand model compress_fast_list, for every
   source, destination (any length, any prior contents, any spare capacity), and every prior state
   of the object's table and bitmap. *)
Definition refines_stmt : Prop :=
  forall fuel table inUse src src_spare dst dst_spare,
    zlen table = 65536 -> Forall (fun v => 0 <= v < 65536) table ->
    zlen inUse = 2048 -> Forall (fun v => 0 <= v < 4294967296) inUse ->
    bytes src -> bytes src_spare -> bytes dst -> bytes dst_spare ->
    zlen src + zlen dst + zlen dst_spare < 2 ^ 61 ->
    (Z.to_nat (zlen src + zlen dst) + 2 <= fuel)%nat ->
    refines_check fuel table inUse src src_spare dst dst_spare = true.

(* ---- tests of the statement (vm_compute) ---- *)
Definition text33 : list Z := map Z.of_nat
  [97;98;99;97;98;99;97;98;99;97;98;99;97;98;99;97;98;99;97;98;99;97;98;99;97;98;99;97;98;99;100;101;102]%nat.
Definition rnd24 : list Z :=
  [211;17;94;203;8;151;66;240;39;122;185;73;5;250;131;58;176;29;224;101;147;12;88;199].
Definition junk (n : nat) : list Z := map (fun i => Z.of_nat (i * 37 + 11) mod 256) (List.seq 0 n).
Definition fuel0 : nat := 200.

(* fresh object, dst at the bound (33 + 0 + 16 = 49): compressed *)
Example test_ok : refines_check fuel0 (zeros 65536) (zeros 2048) text33 [] (junk 49) (junk 3) = true.
Proof. vm_compute. reflexivity. Qed.
Example test_ok_result :
  match run_model (zeros 65536) text33 (junk 49) with COk b => zlen b <? 33 | _ => false end = true.
Proof. vm_compute. reflexivity. Qed.
(* destination too short for the sequences: the error *)
Example test_err : refines_check fuel0 (zeros 65536) (zeros 2048) text33 [] (junk 7) [] = true
  /\ run_model (zeros 65536) text33 (junk 7) = CErr.
Proof. vm_compute. split; reflexivity. Qed.
(* incompressible source, destination below the bound: (0, nil) *)
Example test_zero : refines_check fuel0 (zeros 65536) (zeros 2048) rnd24 [0] (junk 30) [] = true
  /\ run_model (zeros 65536) rnd24 (junk 30) = CZero.
Proof. vm_compute. split; reflexivity. Qed.
(* reused object: every table entry holds 3 and every bitmap word is all ones; reset() must hide them *)
Example test_stale :
  refines_check fuel0 (repeat 3 (Z.to_nat 65536)) (repeat 4294967295 (Z.to_nat 2048)) text33 [] (junk 49) [] = true.
Proof. vm_compute. reflexivity. Qed.
(* short sources: the goto path *)
Example test_short : refines_check fuel0 (zeros 65536) (zeros 2048) (firstn 13 rnd24) [] (junk 29) [] = true
  /\ refines_check fuel0 (zeros 65536) (zeros 2048) [] [] (junk 16) [] = true
  /\ refines_check fuel0 (zeros 65536) (zeros 2048) [] [] [] [] = true.
Proof. vm_compute. repeat split; reflexivity. Qed.

(* ------------------------------------------------------------------------------------------ *)
(* 4. Sources of at most 14 bytes: the goto path, proved                                      *)
(* ------------------------------------------------------------------------------------------ *)
Lemma bound_small n : 0 <= n <= 14 -> GenCompressBody.lz4block_CompressBlockBound n = n + 16.
Proof.
  intros H. rewrite CompressBlockBound_eq by lia. unfold GenBlock.lz4block_CompressBlockBound.
  rewrite Z.quot_small by lia. lia.
Qed.

Lemma model_short table src dst : zlen src <= 14 ->
  run_model table src dst =
  if zlen dst <? zlen src + 16 then CZero else COk (16 * zlen src :: src).
Proof.
  intros Hn. pose proof (zlen_nonneg src) as Hn0.
  unfold run_model, compress_fast_list. cbv zeta.
  set (g := src_get _). unfold compress_fast, parse_fast.
  change (len src) with (zlen src).
  replace (sn (zlen src) <=? 0) with true by (symmetry; apply Z.leb_le; unfold sn; change lz4block_mfLimit with 14; lia).
  unfold finish_fast. cbn [ser_seqs].
  replace (GenBlock.lz4block_CompressBlockBound (zlen src)) with (zlen src + 16)
    by (unfold GenBlock.lz4block_CompressBlockBound; rewrite Z.quot_small by lia; lia).
  destruct (zlen dst <? zlen src + 16) eqn:E; cbn [andb Z.eqb].
  - reflexivity.
  - apply Z.ltb_ge in E.
    replace (zlen dst <=? 0) with false by (symmetry; apply Z.leb_gt; lia).
    rewrite Z.sub_0_r. unfold extl. replace (zlen src <? 15) with true by (symmetry; apply Z.ltb_lt; lia).
    change (len []) with 0. rewrite !Z.add_0_l, Z.add_0_r.
    replace (zlen dst <? 1) with false by (symmetry; apply Z.ltb_ge; lia).
    replace (zlen dst <? 1 + zlen src) with false by (symmetry; apply Z.ltb_ge; lia).
    unfold encode; cbn [fst snd flat_map app]. unfold enc_last.
    unfold g. change (zlen src) with (len src). rewrite sub_load.
    unfold extl, nib. change (len src) with (zlen src).
    replace (zlen src <? 15) with true by (symmetry; apply Z.ltb_lt; lia). reflexivity.
Qed.

Lemma list_eqb_refl l : list_eqb l l = true.
Proof. induction l as [|x l IH]; cbn [list_eqb]; [reflexivity|]. rewrite Z.eqb_refl, IH. reflexivity. Qed.

Lemma short_mem (D src sp : list Z) t :
  (length src < length D)%nat ->
  zsplice (zupd D 0 t) 1 (zsub (src ++ sp) 0 (zlen src)) = (t :: src) ++ skipn (length (t :: src)) D.
Proof.
  intros Hl. destruct D as [|d0 D']; [cbn in Hl; lia|].
  unfold zupd, zsplice, zsub, zlen. rewrite Nat2Z.id.
  change (Z.to_nat 0) with 0%nat. change (Z.to_nat 1) with 1%nat.
  cbn [firstn skipn app length Nat.add].
  rewrite firstn_app, Nat.sub_diag, firstn_all, firstn_O, app_nil_r.
  cbn [firstn skipn app length Nat.add]. reflexivity.
Qed.

Definition tail_name := lz4block_Compressor_CompressBlock_at_lastLiterals.

(* "the outcome is Ret s' and P s'" without an existential: instantiating an existential with the final
   state makes the kernel compare two copies of that (large) term at Qed *)
Definition ret_sat (o : outcome state) (P : state -> Prop) : Prop :=
  match o with Ret s' => P s' | _ => False end.
Lemma ret_sat_ex o P : ret_sat o P -> exists s', o = Ret s' /\ P s'.
Proof. destruct o; cbn [ret_sat]; try contradiction. intros H; eexists; split; [reflexivity|exact H]. Qed.

Definition short_post (src dst dst_spare : list Z) (s' : state) : Prop :=
  if zlen dst <? zlen src + 16
  then Compressor_CompressBlock_ret0 s' = 0 /\ Compressor_CompressBlock_ret1 s' = 0
  else Compressor_CompressBlock_ret0 s' = zlen src + 1 /\ Compressor_CompressBlock_ret1 s' = 0 /\
       mem_Compressor_CompressBlock_dst s' =
       (16 * zlen src :: src) ++ skipn (length (16 * zlen src :: src)) (dst ++ dst_spare).

Lemma short_src_exec0 fuel s0 src src_spare dst dst_spare :
  zlen src <= 14 ->
  ret_sat (lz4block_Compressor_CompressBlock fuel
             (init_lz4block_Compressor_CompressBlock_fresh src src_spare dst dst_spare s0))
          (short_post src dst dst_spare).
Proof.
  intros Hn. pose proof (zlen_nonneg src) as Hn0. pose proof (zlen_nonneg dst) as Hd0.
  pose proof (zlen_nonneg dst_spare) as Hds0. pose proof (zlen_nonneg src_spare) as Hss0.
  unfold lz4block_Compressor_CompressBlock, init_lz4block_Compressor_CompressBlock_fresh.
  rewrite (seq_call_Fall _ _ _ _ (reset_exec _ _)).
  lz4block_steps.
  rewrite seq_ite; lz4block_state_simpl. cbn [s_len].
  replace (wi64 (zlen src - 14) <=? 0) with true
    by (symmetry; rewrite wi64_id by lia; apply Z.leb_le; lia).
  rewrite seq_jump.
  unfold lz4block_Compressor_CompressBlock_at_lastLiterals.
  rewrite bound_small by lia.
  unfold jump, ret_sat, short_post.
  rewrite seq_ite; lz4block_state_simpl. cbn [s_len]. rewrite Z.eqb_refl, andb_true_r.
  destruct (zlen dst <? zlen src + 16) eqn:E.
  - rewrite seq_ret_with. cbv beta iota. lz4block_state_simpl. split; reflexivity.
  - apply Z.ltb_ge in E. lz4block_steps.
    rewrite seq_ite; lz4block_state_simpl. cbn [s_len].
    replace (zlen dst <=? 0) with false by (symmetry; apply Z.leb_gt; lia).
    lz4block_steps. cbn [s_len].
    rewrite seq_ite; lz4block_state_simpl.
    rewrite Z.sub_0_r, (wi64_id (zlen src)) by lia.
    replace (zlen src <? 15) with true by (symmetry; apply Z.ltb_lt; lia).
    rewrite seq_guard; lz4block_state_simpl.
    replace (sl_idx_ok _ 0) with true
      by (symmetry; unfold sl_idx_ok; cbn [s_len]; apply andb_true_intro; split; [reflexivity|apply Z.ltb_lt; lia]).
    unfold sset, sl_set.
    lz4block_steps. cbn [s_loc s_off]. lz4block_state_simpl.
    rewrite seq_ite; lz4block_state_simpl. cbn [andb].
    lz4block_steps.
    rewrite seq_ite; lz4block_state_simpl. cbn [s_len].
    change (wi64 (0 + 1)) with 1.
    rewrite (wi64_id (1 + zlen src)), Z.sub_0_r, (wi64_id (1 + zlen src)) by lia.
    replace (zlen dst <? 1 + zlen src) with false by (symmetry; apply Z.ltb_ge; lia).
    lz4block_steps.
    rewrite seq_guard; lz4block_state_simpl. cbn [s_len s_cap].
    rewrite (wi64_id (1 + zlen src)), Z.sub_0_r, (wi64_id (1 + zlen src)) by lia.
    replace (sl_slice_ok _ 1 (1 + zlen src) _ && sl_slice_ok _ 0 (zlen src) _) with true
      by (symmetry; unfold sl_slice_ok; cbn [s_cap]; repeat (apply andb_true_intro; split); apply Z.leb_le; lia).
    (* the last two statements read the state some 25 times: name it, and rewrite its projections
       one by one instead of simplifying the whole goal (the kernel re-checks every conversion) *)
    match goal with |- context [GoT.seq (upd ?F) ?K ?S] => set (S1 := S) end.
    assert (H1 : Compressor_CompressBlock_dst S1 =
                 mkslice false L_Compressor_CompressBlock_dst 0 (zlen dst) (zlen dst + zlen dst_spare)) by reflexivity.
    assert (H2 : Compressor_CompressBlock_src S1 =
                 mkslice false L_Compressor_CompressBlock_src 0 (zlen src) (zlen src + zlen src_spare)) by reflexivity.
    assert (H3 : Compressor_CompressBlock_di S1 = 1) by reflexivity.
    assert (H4 : Compressor_CompressBlock_anchor S1 = 0) by reflexivity.
    assert (H5 : mem_Compressor_CompressBlock_dst S1 =
                 zupd (dst ++ dst_spare) (0 + 0) (wu8 (wi64 (Z.shiftl (zlen src) 4)))) by reflexivity.
    assert (H6 : mem_Compressor_CompressBlock_src S1 = src ++ src_spare) by reflexivity.
    clearbody S1.
    cbv iota. rewrite seq_upd, ret_with_eq. cbv beta iota.
    rewrite !H1, !H2, !H3, !H4. cbn [s_len s_cap].
    rewrite (wi64_id (1 + zlen src)), Z.sub_0_r, (wi64_id (1 + zlen src)) by lia.
    unfold scopy, sl_copy, sl_copy_n, sl_slice; cbn [s_loc s_off s_len]; lz4block_state_simpl.
    rewrite H5, H6.
    replace (1 + zlen src - 1) with (zlen src) by lia. rewrite Z.sub_0_r, Z.min_id.
    split; [rewrite wi64_id by lia; lia|]. split; [reflexivity|].
    assert (Ht : wu8 (wi64 (Z.shiftl (zlen src) 4)) = 16 * zlen src).
    { rewrite Z.shiftl_mul_pow2 by lia. change (2 ^ 4) with 16.
      rewrite wi64_id by lia. rewrite wu8_id by lia. lia. }
    rewrite Ht. rewrite !Z.add_0_l.
    apply short_mem. rewrite app_length. unfold zlen in *. lia.
Qed.

Theorem short_src_exec fuel s0 src src_spare dst dst_spare :
  zlen src <= 14 ->
  exists s',
    lz4block_Compressor_CompressBlock fuel
      (init_lz4block_Compressor_CompressBlock_fresh src src_spare dst dst_spare s0) = Ret s' /\
    short_post src dst dst_spare s'.
Proof. intros H. apply ret_sat_ex. apply short_src_exec0; assumption. Qed.

(* the statement refines_stmt restricted to sources of at most 14 bytes — PROVED, for every prior
   state of the object (not only table / inUse), every dst, every spare capacity, every fuel *)
Theorem short_src_refines fuel s0 table src src_spare dst dst_spare :
  zlen src <= 14 ->
  agrees (run_model table src dst)
         (lz4block_Compressor_CompressBlock fuel
            (init_lz4block_Compressor_CompressBlock_fresh src src_spare dst dst_spare s0))
         dst dst_spare = true.
Proof.
  intros Hn. rewrite model_short by assumption.
  destruct (short_src_exec fuel s0 src src_spare dst dst_spare Hn) as (s' & -> & H).
  unfold short_post in H.
  destruct (zlen dst <? zlen src + 16); cbn [agrees].
  - destruct H as [-> ->]. reflexivity.
  - destruct H as (-> & -> & ->).
    change (zlen (16 * zlen src :: src)) with (Z.of_nat (S (length src))).
    replace (zlen src + 1 =? Z.of_nat (S (length src))) with true
      by (symmetry; apply Z.eqb_eq; unfold zlen; lia).
    rewrite list_eqb_refl. reflexivity.
Qed.

Corollary refines_stmt_short fuel table inUse src src_spare dst dst_spare :
  zlen src <= 14 -> refines_check fuel table inUse src src_spare dst dst_spare = true.
Proof. intros H. unfold refines_check, run_translated. apply short_src_refines; assumption. Qed.
