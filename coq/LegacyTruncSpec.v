(* LegacyTruncSpec.v — statements of the legacy half of the truncation property (C06):
   "For legacy frames, which have no end mark, a cut is reported for every cut that does not fall
    exactly on a block boundary: reading ends with an error other than a clean end of stream, and
    the bytes delivered before the error are a prefix of the original content."
   Proofs: LegacyTruncProofs.v.

   f = the frame a legacy Writer session emits = magic (4 bytes) ++ blocks, a block being a 4-byte
   size word followed by the stored bytes.  Block boundaries: position 4 (right after the magic)
   and every position right after a complete block; the last one is len f itself.
   What the Reader does on firstn k f (1 <= k < len f), proved below:
     k < 4                         the magic is cut            -> io.ErrUnexpectedEOF, nothing delivered
     k on a boundary               (after j complete blocks)   -> CLEAN end, exactly the first j chunks
     1..3 bytes of a size word     readUint32 fails            -> io.ErrUnexpectedEOF (io.ReadFull's own)
     right after a size word       empty payload read: io.EOF mapped by unexpectedEOF -> io.ErrUnexpectedEOF
     inside a payload              io.ReadFull                 -> io.ErrUnexpectedEOF
   No truncated block is ever decoded (the payload is read in full first), so no side condition
   beyond [legacy_unambiguous] is needed; that one IS needed (legacy_truncation_needs_unambiguous):
   after an ambiguous size word the Reader has stopped cleanly and never sees the cut. *)
From LZ4V Require Import Base GenBlock GenStream GenLz4 XXH32 BlockFormat BlockExec CompressFast FrameSpec FrameImpl
  Writer Reader FrameTheoremsSpec Lifecycle ReaderSpec2 LegacySpec.

(* bytes one block occupies in the frame: 4 + stored length *)
Definition block_len (o : fopts) (c : list Z) : Z := len (concat (block_writes o c)).

(* positions of the block boundaries, starting at [pos] before the first block of [blocks] *)
Fixpoint boundaries_from (o : fopts) (pos : Z) (blocks : list (list Z)) : list Z :=
  pos :: match blocks with [] => [] | c :: r => boundaries_from o (pos + block_len o c) r end.
(* 4, 4 + |block 0|, 4 + |block 0| + |block 1|, ..., len f *)
Definition legacy_boundaries (o : fopts) (items : list item) : list Z :=
  boundaries_from o 4 (blocks_of (bsz_of o) items []).
Definition legacy_boundary (o : fopts) (items : list item) (k : Z) : bool :=
  existsb (Z.eqb k) (legacy_boundaries o items).

Definition session_frame_of (os : list wopt) (items : list item) : list Z :=
  sink_bytes (w_sink (fst (run_writer (new_writer s0) (WApply os :: map item_op items ++ [WClose]) s0))).

(* the boundary list is what its comment says: one more entry than blocks, the j-th is 4 + the
   bytes of the first j blocks, the last is len f *)
Definition legacy_boundaries_spec_stmt : Prop :=
  forall os o items, opts_after os = Some o -> fo_legacy o = true -> Forall item_ok items ->
  let blocks := blocks_of (bsz_of o) items [] in
  let f := session_frame_of os items in
  length (legacy_boundaries o items) = S (length blocks) /\
  (forall j, (j <= length blocks)%nat ->
     nth j (legacy_boundaries o items) 0 = 4 + len (concat (flat_map (block_writes o) (firstn j blocks)))) /\
  nth (length blocks) (legacy_boundaries o items) 0 = len f.

(* ---------------------------------------------------------------------------------------- *)
(* 1. cuts off the block boundaries are reported (WriteTo), as in truncation2_stmt            *)
(* ---------------------------------------------------------------------------------------- *)
Definition legacy_truncation_stmt : Prop :=
  forall os o items k r' m e out, opts_after os = Some o -> fo_legacy o = true ->
  Forall (fun i => match i with IWrite d => bytes d | IFlush => True end) items ->
  legacy_unambiguous o items = true ->
  let f := session_frame_of os items in
  (1 <= k < length f)%nat -> legacy_boundary o items (Z.of_nat k) = false ->
  rstep (new_reader (src_of (firstn k f))) RWriteTo = (r', RRes m e out) ->
  e <> ENil /\ e <> EEOF /\ is_prefix out (data_of items).

(* the same, saying what is returned: io.ErrUnexpectedEOF after exactly the chunks of the blocks
   that are complete in the cut frame; the Reader is left in the error state *)
Definition legacy_truncation_exact_stmt : Prop :=
  forall os o items k, opts_after os = Some o -> fo_legacy o = true ->
  Forall (fun i => match i with IWrite d => bytes d | IFlush => True end) items ->
  legacy_unambiguous o items = true ->
  let f := session_frame_of os items in
  let blocks := blocks_of (bsz_of o) items [] in
  (1 <= k < length f)%nat -> legacy_boundary o items (Z.of_nat k) = false ->
  exists j r', (j <= length blocks)%nat /\
    (k < 4 -> j = 0)%nat /\
    ((4 <= k)%nat -> (j < length blocks)%nat /\
                     nth j (legacy_boundaries o items) 0 < Z.of_nat k < nth (S j) (legacy_boundaries o items) 0) /\
    let out := concat (firstn j blocks) in
    rstep (new_reader (src_of (firstn k f))) RWriteTo = (r', RRes (len out) EUEOF out) /\
    r_state r' = lz4_errorState /\ is_prefix out (data_of items).

(* through Read, any positive buffer size: the data of the complete blocks, then io.ErrUnexpectedEOF *)
Definition legacy_truncation_read_stmt : Prop :=
  forall os o items k n, opts_after os = Some o -> fo_legacy o = true ->
  Forall (fun i => match i with IWrite d => bytes d | IFlush => True end) items ->
  legacy_unambiguous o items = true -> 0 < n ->
  let f := session_frame_of os items in
  (1 <= k < length f)%nat -> legacy_boundary o items (Z.of_nat k) = false ->
  exists r'' out e, read_until (S (length (firstn k f)) + S (length out)) (new_reader (src_of (firstn k f))) n [] = (r'', out, e) /\
    e <> ENil /\ e <> EEOF /\ e <> EOther /\ is_prefix out (data_of items).

(* ---------------------------------------------------------------------------------------- *)
(* 2. the exclusion is exact: a cut ON a boundary reads as a clean, complete stream           *)
(* ---------------------------------------------------------------------------------------- *)
(* (legitimate for a format without end mark: the cut frame IS the frame of the first j blocks) *)
Definition legacy_cut_on_boundary_stmt : Prop :=
  forall os o items k n, opts_after os = Some o -> fo_legacy o = true ->
  Forall (fun i => match i with IWrite d => bytes d | IFlush => True end) items ->
  legacy_unambiguous o items = true -> 0 < n ->
  let f := session_frame_of os items in
  let blocks := blocks_of (bsz_of o) items [] in
  legacy_boundary o items (Z.of_nat k) = true ->
  exists j, (j <= length blocks)%nat /\ Z.of_nat k = nth j (legacy_boundaries o items) 0 /\
    let out := concat (firstn j blocks) in
    is_prefix out (data_of items) /\
    (exists r', rstep (new_reader (src_of (firstn k f))) RWriteTo = (r', RRes (len out) ENil out)
                /\ r_state r' = lz4_closedState /\ s_consumed (r_src r') = Z.of_nat k) /\
    (exists r'', read_until (S (length (firstn k f)) + S (length out)) (new_reader (src_of (firstn k f))) n [] = (r'', out, EEOF)).

(* both together: for 1 <= k < len f, the cut is reported iff k is not a block boundary *)
Definition legacy_truncation_iff_stmt : Prop :=
  forall os o items k r' m e out, opts_after os = Some o -> fo_legacy o = true ->
  Forall (fun i => match i with IWrite d => bytes d | IFlush => True end) items ->
  legacy_unambiguous o items = true ->
  let f := session_frame_of os items in
  (1 <= k < length f)%nat ->
  rstep (new_reader (src_of (firstn k f))) RWriteTo = (r', RRes m e out) ->
  (legacy_boundary o items (Z.of_nat k) = false <-> e <> ENil) /\ e <> EEOF /\ is_prefix out (data_of items).

(* ---------------------------------------------------------------------------------------- *)
(* 3. the side condition cannot be dropped                                                    *)
(* ---------------------------------------------------------------------------------------- *)
(* legacy_truncation_stmt without [legacy_unambiguous]: false.  Witness: the session of
   LegacySpec.lw_items (Write {1,2}; Flush; Write {3}), frame of 17 bytes, boundaries 4 11 17;
   k = 16 cuts the last payload byte, yet the Reader has already taken the size word 2 for the
   kernel trailer: nil error, [1;2] delivered. *)
Definition legacy_truncation_naive_stmt : Prop :=
  forall os o items k r' m e out, opts_after os = Some o -> fo_legacy o = true ->
  Forall (fun i => match i with IWrite d => bytes d | IFlush => True end) items ->
  let f := session_frame_of os items in
  (1 <= k < length f)%nat -> legacy_boundary o items (Z.of_nat k) = false ->
  rstep (new_reader (src_of (firstn k f))) RWriteTo = (r', RRes m e out) ->
  e <> ENil /\ e <> EEOF /\ is_prefix out (data_of items).
Definition legacy_truncation_needs_unambiguous_stmt : Prop := ~ legacy_truncation_naive_stmt.
