(* C07 — The Reader terminates safely on arbitrary input. *)
From LZ4V Require Import Base GenBlock GenStream GenLz4 XXH32 BlockFormat FrameSpec FrameImpl Writer Reader FrameTheoremsSpec ReaderProofs HeaderSpec HeaderProofs.
(* totality: on EVERY byte string every operation of the Reader model returns (the model's loops are
   fuelled; running out of fuel is the distinguished result EOther, which never occurs): no hang, and
   the model has no panic; repeated legacy magics are consumed by a loop (no recursion) *)
Theorem C07_total : reader_total_stmt.            Proof. exact reader_total. Qed.
Print Assumptions C07_total.
(* a first word that is not a frame magic is an invalid frame *)
Theorem C07_badmagic : header_badmagic_stmt.      Proof. exact header_badmagic. Qed.
Print Assumptions C07_badmagic.
(* exactly the sixteen skippable magics cause exactly the announced number of bytes to be skipped *)
Theorem C07_skippable : header_skippable_stmt.    Proof. exact header_skippable. Qed.
Print Assumptions C07_skippable.
(* a block is never accepted beyond the declared maximum: by C05_sound every accepted block satisfies
   the specification's bound (fd_max) *)
Theorem C07_bounded_blocks : forall input r' n out, bytes input -> not_legacy input -> len input < 2 ^ 42 ->
  rstep (new_reader (src_of input)) RWriteTo = (r', RRes n ENil out) ->
  frame_spec Decoded false input = Some (out, s_consumed (r_src r')) /\ n = len out.
Proof. exact reader_sound_fixed_small. Qed.
Print Assumptions C07_bounded_blocks.
