(* Writer.v — model of the sequential Writer (writer.go, state.go) as a state machine over the
   operations Apply / Write / ReadFrom / Flush / Close / Reset, including the underlying writer's
   call pattern and a fault oracle (the k-th Write call on the sink fails).
   Concurrency (num > 1) is not modelled here: its observable results for fault-free sessions are
   the same (PipeW theorems); the field is carried because options plumbing sets it. *)
From LZ4V Require Import Base GenBlock GenStream GenLz4 XXH32 BlockFormat CompressFast FrameImpl.

Record sink := mksink { sk_chunks : list (list Z); (* reversed *) sk_calls : Z; sk_fail : Z }.
Definition sink_bytes (s : sink) : list Z := concat (rev_append (sk_chunks s) []).
(* one Write call on the underlying writer *)
Definition sink_write (s : sink) (p : list Z) : sink * bool :=
  let c := sk_calls s + 1 in
  if (0 <? sk_fail s) && (sk_fail s <=? c) then (mksink (sk_chunks s) c (sk_fail s), false)
  else (mksink (p :: sk_chunks s) c (sk_fail s), true).
Fixpoint sink_writes (s : sink) (ps : list (list Z)) : sink * bool :=
  match ps with
  | [] => (s, true)
  | p :: r => let '(s', ok) := sink_write s p in if ok then sink_writes s' r else (s', false)
  end.

Definition state_next (table : list (Z * Z)) (st : Z) : Z :=
  match find (fun kv => fst kv =? st) table with Some kv => snd kv | None => 0 end.

Record writer := mkw {
  w_state : Z;          (* aState *)
  w_serr : ecls;        (* class of state.err *)
  w_opts : fopts;
  w_num : Z;
  w_bsz : Z;            (* len(w.data) once initialised *)
  w_pend : list Z;      (* w.data[:w.idx] *)
  w_content : list Z;   (* bytes fed to the content checksum *)
  w_sink : sink;
  w_old : list sink     (* sinks of earlier epochs (before Reset), most recent first *)
}.

Inductive wopt := OBlockSize (size : Z) | OBlockChecksum (b : bool) | OChecksum (b : bool) | OSize (n : Z)
  | OLevel (l : Z) | OConcurrency (n : Z) | OLegacy (b : bool).
Inductive wop := WApply (os : list wopt) | WWrite (buf : list Z) | WReadFrom (data : list Z) | WFlush | WClose | WReset.

Definition valid_level (l : Z) : bool :=
  existsb (Z.eqb l) [lz4_Fast; lz4_Level1; lz4_Level2; lz4_Level3; lz4_Level4; lz4_Level5; lz4_Level6; lz4_Level7; lz4_Level8; lz4_Level9].

Definition apply_opt (w : writer) (o : wopt) : writer * ecls :=
  let fo := w_opts w in
  let setf f := mkw (w_state w) (w_serr w) (mkfo f (fo_csize fo) (fo_level fo) (fo_legacy fo)) (w_num w) (w_bsz w) (w_pend w) (w_content w) (w_sink w) (w_old w) in
  match o with
  | OBlockSize size =>
    if lz4block_BlockSizeIndex_IsValid (lz4block_Index size) then (setf (lz4stream_DescriptorFlags_BlockSizeIndexSet (fo_flags fo) (lz4block_Index size)), ENil)
    else (w, EBlkSize)
  | OBlockChecksum b => (setf (lz4stream_DescriptorFlags_BlockChecksumSet (fo_flags fo) b), ENil)
  | OChecksum b => (setf (lz4stream_DescriptorFlags_ContentChecksumSet (fo_flags fo) b), ENil)
  | OSize n =>
    (mkw (w_state w) (w_serr w) (mkfo (lz4stream_DescriptorFlags_SizeSet (fo_flags fo) (0 <? n)) n (fo_level fo) (fo_legacy fo))
         (w_num w) (w_bsz w) (w_pend w) (w_content w) (w_sink w) (w_old w), ENil)
  | OLevel l =>
    if valid_level l then
      (mkw (w_state w) (w_serr w) (mkfo (fo_flags fo) (fo_csize fo) l (fo_legacy fo)) (w_num w) (w_bsz w) (w_pend w) (w_content w) (w_sink w) (w_old w), ENil)
    else (w, EBadLevel)
  | OConcurrency n => (mkw (w_state w) (w_serr w) fo n (w_bsz w) (w_pend w) (w_content w) (w_sink w) (w_old w), ENil)
  | OLegacy b => (mkw (w_state w) (w_serr w) (mkfo (fo_flags fo) (fo_csize fo) (fo_level fo) b) (w_num w) (w_bsz w) (w_pend w) (w_content w) (w_sink w) (w_old w), ENil)
  end.

Definition set_state (w : writer) (st : Z) (e : ecls) : writer :=
  mkw st e (w_opts w) (w_num w) (w_bsz w) (w_pend w) (w_content w) (w_sink w) (w_old w).
Definition set_sink (w : writer) (s : sink) : writer :=
  mkw (w_state w) (w_serr w) (w_opts w) (w_num w) (w_bsz w) (w_pend w) (w_content w) s (w_old w).
Definition set_pend (w : writer) (p : list Z) : writer :=
  mkw (w_state w) (w_serr w) (w_opts w) (w_num w) (w_bsz w) p (w_content w) (w_sink w) (w_old w).

(* _State.next(err) / the deferred _State.check(&err) *)
Definition st_next (w : writer) (e : ecls) : writer :=
  match e with
  | ENil => set_state w (state_next lz4_writerStates (w_state w)) (w_serr w)
  | _ => set_state w lz4_errorState e
  end.
Definition st_check (w : writer) (e : ecls) : writer :=
  if w_state w =? lz4_errorState then w else
  match e with
  | ENil => w
  | EEOF => set_state w (w_state w) e
  | _ => set_state w lz4_errorState e
  end.

(* Frame.Reset + state.reset: ContentSize is zeroed and the Size flag cleared, the other flags stay *)
Definition w_reset (w : writer) (fresh : sink) (keep_old : bool) : writer :=
  let fo := w_opts w in
  mkw lz4_newState ENil (mkfo (lz4stream_DescriptorFlags_SizeSet (fo_flags fo) false) 0 (fo_level fo) (fo_legacy fo)) (w_num w) (w_bsz w) (w_pend w) (w_content w)
      fresh (if keep_old then w_sink w :: w_old w else w_old w).

(* Writer.init: buffers, header write *)
Definition w_init (w : writer) : writer * ecls :=
  let fo := w_opts w in
  let bsz := bsize_of_idx (lz4stream_DescriptorFlags_BlockSizeIndex (initw_flags fo)) in
  let '(s, ok) := sink_write (w_sink w) (header_bytes fo) in
  (mkw (w_state w) (w_serr w) fo (w_num w) bsz [] [] s (w_old w), if ok then ENil else EInjected).

(* Writer.write (sequential): compress one block and write it *)
Definition w_block (w : writer) (src : list Z) : writer * ecls :=
  let fo := w_opts w in
  let content := if lz4stream_DescriptorFlags_ContentChecksum (initw_flags fo) then w_content w ++ src else w_content w in
  let '(s, ok) := sink_writes (w_sink w) (block_writes fo src) in
  (mkw (w_state w) (w_serr w) fo (w_num w) (w_bsz w) (w_pend w) content s (w_old w), if ok then ENil else EInjected).

(* the loop of Writer.Write *)
Fixpoint w_write_loop (fuel : nat) (w : writer) (buf : list Z) (n : Z) : writer * Z * ecls :=
  match fuel with O => (w, n, EOther) | S f =>
  match buf with
  | [] => (w, n, ENil)
  | _ =>
    let zn := w_bsz w in
    if (len (w_pend w) =? 0) && (zn <=? len buf) then
      let '(w1, e) := w_block w (firstn (Z.to_nat zn) buf) in
      match e with
      | ENil => w_write_loop f w1 (skipn (Z.to_nat zn) buf) (n + zn)
      | _ => (w1, n, e)
      end
    else
      let room := zn - len (w_pend w) in
      let m := Z.min room (len buf) in
      let w1 := set_pend w (w_pend w ++ firstn (Z.to_nat m) buf) in
      let rest := skipn (Z.to_nat m) buf in
      if len (w_pend w1) <? zn then (w1, n + m, ENil)
      else
        let '(w2, e) := w_block w1 (w_pend w1) in
        match e with
        | ENil => w_write_loop f (set_pend w2 []) rest (n + m)
        | _ => (w2, n + m, e)
        end
  end end.

(* blocks of ReadFrom: full blocks while available, then the remainder; nothing for an empty rest *)
Fixpoint w_readfrom_loop (fuel : nat) (w : writer) (data : list Z) (n : Z) : writer * Z * ecls :=
  match fuel with O => (w, n, EOther) | S f =>
  let zn := w_bsz w in
  if zn <=? len data then
    let '(w1, e) := w_block w (firstn (Z.to_nat zn) data) in
    match e with
    | ENil => w_readfrom_loop f w1 (skipn (Z.to_nat zn) data) (n + zn)
    | _ => (w1, n + zn, e)
    end
  else
    match data with
    | [] => (w, n, ENil)
    | _ => let '(w1, e) := w_block w data in (w1, n + len data, e)
    end
  end.

Inductive wres := RNE (n : Z) (e : ecls) | RE (e : ecls) | RUnit.

Definition w_flush (w : writer) : writer * ecls :=
  (* returns the writer and the error; no deferred check in Flush *)
  let go (w : writer) : writer * ecls :=
    match w_pend w with
    | [] => (w, ENil)
    | _ => let '(w1, e) := w_block w (w_pend w) in
           match e with ENil => (set_pend w1 [], ENil) | _ => (w1, e) end
    end in
  if w_state w =? lz4_writeState then go w
  else if w_state w =? lz4_errorState then (w, w_serr w)
  else if w_state w =? lz4_newState then
    let '(w1, e) := w_init w in
    let w2 := st_next w1 e in
    match e with ENil => go w2 | _ => (w2, e) end
  else (w, ENil).

Definition wstep (w : writer) (op : wop) (fresh : sink) : writer * wres :=
  match op with
  | WApply os =>
    if w_state w =? lz4_newState then
      let w0 := w_reset w (w_sink w) false in
      let fix go (w : writer) (os : list wopt) : writer * ecls :=
        match os with
        | [] => (w, ENil)
        | o :: r => let '(w1, e) := apply_opt w o in match e with ENil => go w1 r | _ => (w1, e) end
        end in
      let '(w1, e) := go w0 os in (st_check w1 e, RE e)
    else if w_state w =? lz4_errorState then (w, RE (w_serr w))
    else (st_check w EClosed, RE EClosed)
  | WWrite buf =>
    let run (w : writer) :=
      let '(w1, n, e) := w_write_loop (S (length buf)) w buf 0 in (st_check w1 e, RNE n e) in
    if w_state w =? lz4_writeState then run w
    else if (w_state w =? lz4_closedState) || (w_state w =? lz4_errorState) then (st_check w (w_serr w), RNE 0 (w_serr w))
    else if w_state w =? lz4_newState then
      let '(w1, e) := w_init w in
      let w2 := st_next w1 e in
      match e with ENil => run w2 | _ => (st_check w2 e, RNE 0 e) end
    else (set_state w lz4_errorState EUnhandled, RNE 0 EUnhandled)
  | WReadFrom data =>
    if (w_state w =? lz4_closedState) || (w_state w =? lz4_errorState) then (w, RNE 0 (w_serr w))
    else if w_state w =? lz4_newState then
      let '(w1, e) := w_init w in
      let w2 := st_next w1 e in
      match e with
      | ENil => let '(w3, n, e3) := w_readfrom_loop (S (length data)) w2 data 0 in (st_check w3 e3, RNE n e3)
      | _ => (w2, RNE 0 e)
      end
    else (set_state w lz4_errorState EUnhandled, RNE 0 EUnhandled)
  | WFlush => let '(w1, e) := w_flush w in (w1, RE e)
  | WClose =>
    if w_state w =? lz4_closedState then (w, RE ENil)
    else
      let '(w1, e) := w_flush w in
      match e with
      | ENil =>
        let '(s, ok) := sink_writes (w_sink w1) (close_writes (w_opts w1) (w_content w1)) in
        let e2 := if ok then ENil else EInjected in
        let w2 := set_sink w1 s in
        let w3 := st_next w2 e2 in
        (match e2 with ENil => set_state w3 (w_state w3) EWClosed | _ => w3 end, RE e2)
      | _ => (w1, RE e)
      end
  | WReset => (w_reset w fresh true, RUnit)
  end.

(* NewWriter: Apply(BlockSizeOption(4Mb), ChecksumOption(true), ConcurrencyOption(1)), Reset *)
Definition new_writer (s : sink) : writer :=
  let w0 := mkw lz4_newState ENil (mkfo 0 0 lz4_Fast false) 0 0 [] [] s [] in
  let '(w1, _) := wstep w0 (WApply [OBlockSize lz4_Block4Mb; OChecksum true; OConcurrency 1]) s in w1.

Fixpoint run_writer (w : writer) (ops : list wop) (fresh : sink) : writer * list wres :=
  match ops with
  | [] => (w, [])
  | op :: r => let '(w1, res) := wstep w op fresh in
               let '(w2, rs) := run_writer w1 r fresh in (w2, res :: rs)
  end.
