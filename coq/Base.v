(* Base.v — shared vocabulary: lengths as Z, machine words, byte lists, list lemmas. *)
From Coq Require Export ZArith List Lia Bool Arith.
Export ListNotations.
Open Scope Z_scope.

Definition len {A} (l : list A) : Z := Z.of_nat (length l).

Lemma len_nonneg {A} (l : list A) : 0 <= len l.
Proof. unfold len; lia. Qed.
Lemma len_app {A} (a b : list A) : len (a ++ b) = len a + len b.
Proof. unfold len; rewrite app_length; lia. Qed.
Lemma len_nil {A} : len (@nil A) = 0.
Proof. reflexivity. Qed.
Lemma len_cons {A} (x : A) l : len (x :: l) = 1 + len l.
Proof. unfold len; cbn [length]; lia. Qed.
Lemma len_zero_nil {A} (l : list A) : len l = 0 -> l = [].
Proof. destruct l; [reflexivity|rewrite len_cons; pose proof (len_nonneg l); lia]. Qed.

Definition w8  (x : Z) : Z := x mod 256.
Definition w16 (x : Z) : Z := x mod 65536.
Definition w32 (x : Z) : Z := x mod 4294967296.
Definition w64 (x : Z) : Z := x mod 18446744073709551616.

Definition is_byte (b : Z) : Prop := 0 <= b < 256.
Definition bytes (l : list Z) : Prop := Forall is_byte l.
Definition is_byteb (b : Z) : bool := (0 <=? b) && (b <? 256).
Definition bytesb (l : list Z) : bool := forallb is_byteb l.

Lemma bytesb_bytes l : bytesb l = true <-> bytes l.
Proof.
  unfold bytesb, bytes. rewrite forallb_forall, Forall_forall.
  split; intros H x Hx; specialize (H x Hx); unfold is_byteb, is_byte in *; lia.
Qed.
Lemma bytes_app a b : bytes (a ++ b) <-> bytes a /\ bytes b.
Proof. unfold bytes. apply Forall_app. Qed.

(* little-endian words *)
Definition le32 (a b c d : Z) : Z := a + 256 * b + 65536 * c + 16777216 * d.
Definition le32_bytes (x : Z) : list Z :=
  [x mod 256; (x / 256) mod 256; (x / 65536) mod 256; (x / 16777216) mod 256].
Definition le64_bytes (x : Z) : list Z :=
  le32_bytes (x mod 4294967296) ++ le32_bytes (x / 4294967296).
Definition word (l : list Z) (i : nat) : Z :=
  le32 (nth i l 0) (nth (i + 1) l 0) (nth (i + 2) l 0) (nth (i + 3) l 0).

Lemma skipn_add {A} a b (l : list A) : skipn (a + b) l = skipn b (skipn a l).
Proof.
  revert l; induction a as [|a IH]; intros l; [reflexivity|].
  destruct l as [|x l]; [now rewrite !skipn_nil|]. cbn [Nat.add skipn]. apply IH.
Qed.
Lemma nth_firstn {A} n : forall (l : list A) i d, (i < n)%nat -> nth i (firstn n l) d = nth i l d.
Proof.
  induction n as [|n IH]; intros l i d Hi; [lia|].
  destruct l as [|x l]; [reflexivity|]. destruct i as [|i]; [reflexivity|].
  cbn [firstn nth]. apply IH. lia.
Qed.
Lemma bytes_firstn n l : bytes l -> bytes (firstn n l).
Proof.
  unfold bytes; rewrite !Forall_forall; intros H x Hx; apply H.
  rewrite <- (firstn_skipn n l). apply in_or_app; left; exact Hx.
Qed.
Lemma bytes_skipn n l : bytes l -> bytes (skipn n l).
Proof.
  unfold bytes; rewrite !Forall_forall; intros H x Hx; apply H.
  rewrite <- (firstn_skipn n l). apply in_or_app; right; exact Hx.
Qed.

(* linear-time reverse for the executable definitions (List.rev is quadratic) *)
Definition rrev {A} (l : list A) : list A := rev_append l [].
Lemma rrev_rev {A} (l : list A) : rrev l = rev l.
Proof. unfold rrev. symmetry. apply rev_alt. Qed.
