(* C01 — Block round-trip: decompress(compress(x)) == x for every input and compressor. *)
From LZ4V Require Import Base GenBlock BlockFormat CompressFast CompressFastTable CompressHC CompressHCTop BlockTheoremsSpec BlockTheorems.

(* fast compressor, any state of the object's table (fresh, reused, pooled: st is arbitrary) *)
Theorem C01_fast : forall st, roundtrip_stmt (fun src dstlen => compress_fast_list src st dstlen).
Proof. exact fast_roundtrip. Qed.
Print Assumptions C01_fast.
(* HC compressor, every search depth (0 = unlimited within the window); termination of the chain
   walk does not depend on the depth (CompressHCTermination.hc_nohang_all: the candidates strictly
   decrease inside the 64 KiB window) *)
Theorem C01_hc : forall depth, 0 <= depth -> roundtrip_stmt (fun src dstlen => compress_hc_list src depth dstlen).
Proof. exact hc_roundtrip. Qed.
Print Assumptions C01_hc.
(* any reachable HC object behaves as a fresh one *)
Theorem C01_hc_any_object : forall o src depth dstlen, hc_reachable o ->
  fst (compress_hc_obj o src depth dstlen) = compress_hc_list src depth dstlen /\ hc_reachable (snd (compress_hc_obj o src depth dstlen)).
Proof. exact hc_state_indep. Qed.
Print Assumptions C01_hc_any_object.
Example C01_nonvacuous :
  exists b, compress_fast_list (repeat 7 40%nat) (fun _ => 0) 56 = COk b /\ len b = 23.
Proof. eexists. vm_compute. split; reflexivity. Qed.
