(* C01 — Block round-trip: decompress(compress(x)) == x for every input and compressor. *)
From LZ4V Require Import Base GenBlock BlockFormat CompressFast CompressFastTable CompressHC CompressHCTop BlockTheoremsSpec BlockTheorems.

(* fast compressor, any state of the object's table (fresh, reused, pooled: st is arbitrary) *)
Theorem C01_fast : forall st, roundtrip_stmt (fun src dstlen => compress_fast_list src st dstlen).
Proof. exact fast_roundtrip. Qed.
Print Assumptions C01_fast.
(* HC compressor, every search depth (0 = unlimited within the window); termination of the chain
   walk does not depend on the depth (CompressHCTermination.hc_nohang_all: the candidates strictly
   decrease inside the 64 KiB window) *)
Theorem C01_hc : forall depth, 0 <= depth -> roundtrip_stmt (fun src dstlen => compress_hc_list src depth dstlen).
Proof. exact hc_roundtrip. Qed.
Print Assumptions C01_hc.
(* any reachable HC object behaves as a fresh one *)
Theorem C01_hc_any_object : forall o src depth dstlen, hc_reachable o ->
  fst (compress_hc_obj o src depth dstlen) = compress_hc_list src depth dstlen /\ hc_reachable (snd (compress_hc_obj o src depth dstlen)).
Proof. exact hc_state_indep. Qed.
Print Assumptions C01_hc_any_object.
Example C01_nonvacuous :
  exists b, compress_fast_list (repeat 7 40%nat) (fun _ => 0) 56 = COk b /\ len b = 23.
Proof. eexists. vm_compute. split; reflexivity. Qed.

(* ---- the match-extension loops of the translated fast compressor (GenCompressBodyLoop.v; the two loops
   occur literally in the function generated on this run: GenCompressBodyTie.v) ----
   the backward loop takes exactly the model's bwd steps, the 8-bytes-at-a-time forward loop stops exactly
   where the model's fwd does, and the bit trick it rests on is proved: for two 8-byte little-endian loads,
   TrailingZeros64(x ^ y) >> 3 is the number of equal leading bytes (8 when the xor is zero). *)
From LZ4V Require Import GoT GenCompressBody GenCompressBodyProofs GenCompressBodyLoop GenCompressBodyTie.
Theorem C01_translated_backward_extension :
  forall (src ssp : list Z) (dl dsp : Z) (get : Z -> Z),
    (forall i : Z, 0 <= i < zlen src -> get i = znth src i) -> zlen src < 2 ^ 61 ->
  forall (fuel : nat) (s : state) (p tf lL m : Z),
    frame src ssp dl dsp s -> f_si s = p -> f_tOff s = tf -> f_lLen s = lL -> f_mLen s = m ->
    0 <= lL <= p -> p <= zlen src -> - 2 ^ 61 <= tf < zlen src -> 0 <= m < 2 ^ 61 ->
    (Z.to_nat lL < fuel)%nat ->
    exists t : state, bwd_loop fuel s = Fall t /\ frame src ssp dl dsp t /\ bwd_post get p tf lL m s t.
Proof. exact bwd_exec. Qed.
Print Assumptions C01_translated_backward_extension.
Theorem C01_translated_forward_extension :
  forall (src ssp : list Z) (dl dsp : Z) (get : Z -> Z),
    (forall i : Z, 0 <= i < zlen src -> get i = znth src i) ->
    (forall i : Z, 0 <= i < zlen src -> 0 <= get i < 256) -> zlen src < 2 ^ 61 ->
  forall (fuel : nat) (s : state) (p off : Z),
    frame src ssp dl dsp s -> f_si s = p -> f_off s = off -> f_sn s = zlen src - 14 ->
    1 <= off <= p -> p <= zlen src -> (Z.to_nat (zlen src - p) < fuel)%nat ->
    exists t : state, fwd_loop fuel s = Fall t /\ frame src ssp dl dsp t /\ keepsF s t /\
      (forall F : nat, enough (zlen src) F p -> f_si t = fwd get (zlen src) F p off).
Proof. exact fwd_exec. Qed.
Print Assumptions C01_translated_forward_extension.
Theorem C01_trailing_zeros_of_xor_counts_equal_bytes : forall get a b,
  (forall i, 0 <= i < 8 -> 0 <= get (a + i) < 256 /\ 0 <= get (b + i) < 256) ->
  let x := Z.lxor (le_val (sub_from get a 8)) (le_val (sub_from get b 8)) in
  (x = 0 -> eq_run get 8 a b = 8) /\
  (x <> 0 -> Z.shiftr (ctz64 x) 3 = eq_run get 8 a b /\ eq_run get 8 a b < 8).
Proof. exact ctz_xor_eq_run. Qed.
Print Assumptions C01_trailing_zeros_of_xor_counts_equal_bytes.

(* the three-probe search of the translated main loop (candidates at si, si+1, si+2 through c.get / c.put,
   the panic guard of src[ref:], the window test, the 4-byte comparison, the skip step) is ONE step of the
   model's match finder (pstep): SPanic <-> a run-time panic, SFound p r tb' <-> the continuation entered with
   si = p, offset = p - r and the arrays related to tb', SSkip <-> `continue` with the model's next position
   (search_post); for any state related to a model table tb by table_rel. *)
From LZ4V Require Import GenCompressBodySearch.
Theorem C01_translated_search_step :
  forall (src ssp : list Z) (dl dsp : Z) (get : Z -> Z),
    (forall i : Z, 0 <= i < zlen src -> get i = znth src i) -> zlen src < 2 ^ 61 ->
    search_stmt src ssp dl dsp get.
Proof. exact search_exec. Qed.
Print Assumptions C01_translated_search_step.

(* with C11_translated_contract (PropC11.v): a positive result of the TRANSLATED fast compressor decodes, under
   the block specification, to exactly the source — the round trip for the code as translated on this run. *)
From LZ4V Require Import GenCompressBodyMain GenCompressBodyCorollaries.
Theorem C01_translated_fast_roundtrip : translated_contract_stmt.
Proof. exact translated_contract. Qed.
Print Assumptions C01_translated_fast_roundtrip.
