(* C01 — Block round-trip: decompress(compress(x)) == x for every input and compressor. *)
From LZ4V Require Import Base GenBlock BlockFormat CompressFast CompressFastTable CompressHC CompressHCTop BlockTheoremsSpec BlockTheorems.

(* fast compressor, any state of the object's table (fresh, reused, pooled: st is arbitrary) *)
Theorem C01_fast : forall st, roundtrip_stmt (fun src dstlen => compress_fast_list src st dstlen).
Proof. exact fast_roundtrip. Qed.
Print Assumptions C01_fast.
(* HC compressor, depth 0 (= unlimited within the window) and every depth up to 131072, which
   covers the nine named levels; see C01_hc_partial_note in DESIGN.md for depths above *)
Theorem C01_hc : forall depth, 0 <= depth <= 131072 -> roundtrip_stmt (fun src dstlen => compress_hc_list src depth dstlen).
Proof. exact hc_roundtrip. Qed.
Print Assumptions C01_hc.
(* any reachable HC object behaves as a fresh one *)
Theorem C01_hc_any_object : forall o src depth dstlen, hc_reachable o ->
  fst (compress_hc_obj o src depth dstlen) = compress_hc_list src depth dstlen /\ hc_reachable (snd (compress_hc_obj o src depth dstlen)).
Proof. exact hc_state_indep. Qed.
Print Assumptions C01_hc_any_object.
Example C01_nonvacuous :
  exists b, compress_fast_list (repeat 7 40%nat) (fun _ => 0) 56 = COk b /\ len b = 23.
Proof. eexists. vm_compute. split; reflexivity. Qed.
