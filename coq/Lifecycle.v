(* Lifecycle.v — the simple reference machines of C17 and the statements relating the concrete
   Writer / Reader models to them.  Proofs: LifecycleProofs.v.

   Abstract Writer: a phase, the options, and the data accepted in the current epoch (between a
   Reset and a Close).  It knows nothing about blocks, buffers, sinks or checksums. *)
From LZ4V Require Import Base GenBlock GenStream GenLz4 XXH32 BlockFormat FrameSpec FrameImpl Writer Reader FrameTheoremsSpec.

Inductive aphase := AFresh | AOpen | AClosed | AFailed (e : ecls).
Record awriter := mkaw { a_phase : aphase; a_opts : fopts; a_num : Z; a_acc : list Z }.

(* options applied in order to (opts, num): the first failing option stops *)
Fixpoint a_apply (o : fopts) (num : Z) (os : list wopt) : fopts * Z * ecls :=
  match os with
  | [] => (o, num, ENil)
  | op :: r =>
    let w := mkw lz4_newState ENil o num 0 [] [] (mksink [] 0 0) [] in
    let '(w1, e) := apply_opt w op in
    match e with ENil => a_apply (w_opts w1) (w_num w1) r | _ => (w_opts w1, w_num w1, e) end
  end.
(* what Reset does to the options: the content size is per stream *)
Definition a_reset_opts (o : fopts) : fopts :=
  mkfo (lz4stream_DescriptorFlags_SizeSet (fo_flags o) false) 0 (fo_level o) (fo_legacy o).

Definition awstep (a : awriter) (op : wop) : awriter * wres :=
  match a_phase a, op with
  | _, WReset => (mkaw AFresh (a_reset_opts (a_opts a)) (a_num a) [], RUnit)
  | AFailed e, WApply _ => (a, RE e)
  | AFailed e, WWrite _ => (a, RNE 0 e)
  | AFailed e, WReadFrom _ => (a, RNE 0 e)
  | AFailed e, WFlush => (a, RE e)
  | AFailed e, WClose => (a, RE e)
  | AFresh, WApply os =>
    let '(o, n, e) := a_apply (a_reset_opts (a_opts a)) (a_num a) os in
    (match e with ENil => mkaw AFresh o n [] | _ => mkaw (AFailed e) o n [] end, RE e)
  | AFresh, WWrite d => (mkaw AOpen (a_opts a) (a_num a) d, RNE (len d) ENil)
  | AFresh, WReadFrom d => (mkaw AOpen (a_opts a) (a_num a) d, RNE (len d) ENil)
  | AFresh, WFlush => (mkaw AOpen (a_opts a) (a_num a) [], RE ENil)
  | AFresh, WClose => (mkaw AClosed (a_opts a) (a_num a) [], RE ENil)
  | AOpen, WApply _ => (mkaw (AFailed EClosed) (a_opts a) (a_num a) (a_acc a), RE EClosed)
  | AOpen, WWrite d => (mkaw AOpen (a_opts a) (a_num a) (a_acc a ++ d), RNE (len d) ENil)
  | AOpen, WReadFrom _ => (mkaw (AFailed EUnhandled) (a_opts a) (a_num a) (a_acc a), RNE 0 EUnhandled)
  | AOpen, WFlush => (a, RE ENil)
  | AOpen, WClose => (mkaw AClosed (a_opts a) (a_num a) (a_acc a), RE ENil)
  | AClosed, WApply _ => (mkaw (AFailed EClosed) (a_opts a) (a_num a) (a_acc a), RE EClosed)
  | AClosed, WWrite _ => (mkaw (AFailed EWClosed) (a_opts a) (a_num a) (a_acc a), RNE 0 EWClosed)
  | AClosed, WReadFrom _ => (a, RNE 0 EWClosed)
  | AClosed, WFlush => (a, RE ENil)
  | AClosed, WClose => (a, RE ENil)
  end.

Fixpoint run_awriter (a : awriter) (ops : list wop) : awriter * list wres :=
  match ops with
  | [] => (a, [])
  | op :: r => let '(a1, res) := awstep a op in let '(a2, rs) := run_awriter a1 r in (a2, res :: rs)
  end.

Definition new_awriter : awriter :=
  fst (awstep (mkaw AFresh (mkfo 0 0 lz4_Fast false) 0 []) (WApply [OBlockSize lz4_Block4Mb; OChecksum true; OConcurrency 1])).

(* abstraction of a concrete Writer *)
Definition abs_phase (w : writer) : aphase :=
  if w_state w =? lz4_newState then AFresh else if w_state w =? lz4_writeState then AOpen
  else if w_state w =? lz4_closedState then AClosed else AFailed (w_serr w).

(* L1: for every sequence of calls on a Writer whose sink never fails, every call's result is the
   reference machine's *)
Definition writer_refines_stmt : Prop :=
  forall ops, Forall (fun op => match op with WWrite d | WReadFrom d => bytes d | _ => True end) ops ->
  snd (run_writer (new_writer s0) ops s0) = snd (run_awriter new_awriter ops).
(* L2: and the phase and options always agree *)
Definition writer_abs_stmt : Prop :=
  forall ops, let w := fst (run_writer (new_writer s0) ops s0) in let a := fst (run_awriter new_awriter ops) in
  abs_phase w = a_phase a /\ (a_phase a <> AFresh \/ True) /\ w_opts w = a_opts a /\ w_num w = a_num a.
(* L3: output.  Whenever the reference machine has just closed an epoch, the sink of that epoch is a
   frame of the strict specification whose content is exactly the data accepted in that epoch,
   provided the options are modern and no size was configured (or the configured size is right) *)
Definition writer_epoch_output_stmt : Prop :=
  forall ops, Forall (fun op => match op with WWrite d | WReadFrom d => bytes d | _ => True end) ops ->
  let w := fst (run_writer (new_writer s0) ops s0) in let a := fst (run_awriter new_awriter ops) in
  a_phase a = AClosed -> fo_legacy (a_opts a) = false ->
  (fo_csize (a_opts a) <= 0 \/ fo_csize (a_opts a) = len (a_acc a)) -> len (a_acc a) < 2 ^ 64 ->
  frame_spec Decoded true (sink_bytes (w_sink w)) = Some (a_acc a, len (sink_bytes (w_sink w))).
(* L4: a closed or failed Writer emits nothing more: the sink is unchanged by every call but Reset *)
Definition writer_quiet_stmt : Prop :=
  forall ops op, op <> WReset ->
  let w := fst (run_writer (new_writer s0) ops s0) in
  (w_state w = lz4_closedState \/ w_state w = lz4_errorState) ->
  sink_bytes (w_sink (fst (wstep w op s0))) = sink_bytes (w_sink w).
(* L5: Reset makes the object indistinguishable from a new one with the same options: from then
   on every sequence of calls yields the same results and the same output *)
Definition writer_reset_stmt : Prop :=
  forall ops ops' , let w := fst (wstep (fst (run_writer (new_writer s0) ops s0)) WReset s0) in
  let a := fst (run_awriter new_awriter (ops ++ [WReset])) in
  let fresh := mkw lz4_newState ENil (a_opts a) (a_num a) 0 [] [] s0 [] in
  snd (run_writer w ops' s0) = snd (run_writer fresh ops' s0) /\
  sink_bytes (w_sink (fst (run_writer w ops' s0))) = sink_bytes (w_sink (fst (run_writer fresh ops' s0))).
(* L6: after Flush on a sequential Writer the sink holds a decodable prefix containing everything
   written so far: appending the end mark (and content checksum) gives a frame of the specification *)
Definition writer_flush_stmt : Prop :=
  forall os o items, opts_after os = Some o -> modern o ->
  Forall (fun i => match i with IWrite d => bytes d | IFlush => True end) items ->
  (fo_csize o <= 0 \/ fo_csize o = len (data_of items)) -> len (data_of items) < 2 ^ 64 ->
  let w := fst (run_writer (new_writer s0) (WApply os :: map item_op items ++ [WFlush]) s0) in
  frame_spec Decoded true (sink_bytes (w_sink w) ++ concat (close_writes o (data_of items))) =
    Some (data_of items, len (sink_bytes (w_sink w) ++ concat (close_writes o (data_of items)))).

(* ---- Reader ---- *)
(* R-L1: after the end of the stream Read keeps returning io.EOF and WriteTo (0, nil), without
   consuming anything more from the source, whatever follows the frame in the source *)
Definition reader_ended_stmt : Prop :=
  forall input r' n out op, bytes input ->
  rstep (new_reader (src_of input)) RWriteTo = (r', RRes n ENil out) ->
  match op with
  | RRead k => rstep r' op = (fst (rstep r' op), RRes 0 EEOF []) /\ r_src (fst (rstep r' op)) = r_src r' /\ r_state (fst (rstep r' op)) = lz4_closedState
  | RWriteTo => rstep r' op = (r', RRes 0 ENil [])
  | _ => True
  end.
(* R-L2: the same after the end has been reached through Read *)
Definition reader_ended_read_stmt : Prop :=
  forall input n r' fuel out, bytes input -> 0 < n ->
  read_until fuel (new_reader (src_of input)) n [] = (r', out, EEOF) ->
  forall k, rstep r' (RRead k) = (fst (rstep r' (RRead k)), RRes 0 EEOF []) /\ r_src (fst (rstep r' (RRead k))) = r_src r'.
(* R-L3: Reset makes the Reader indistinguishable from a new one with the same concurrency setting *)
Definition reader_reset_stmt : Prop :=
  forall input ops data ops', bytes input ->
  let r := fst (rstep (fst (run_reader (new_reader (src_of input)) ops)) (RReset data)) in
  let fresh := mkr lz4_newState ENil (r_num r) (src_of data) 0 0 0 [] [] [] 0 in
  snd (run_reader r ops') = snd (run_reader fresh ops').
