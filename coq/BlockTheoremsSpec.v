(* BlockTheoremsSpec.v — statements of the block-level property theorems (C01 C03 C04 C10 C11 C12 C14),
   composed from the refinement theorems of the decoders, the compressor theorems and the format
   round trip.  Proofs: BlockTheorems.v. *)
From Coq Require Import FMapPositive.
From LZ4V Require Import Base GenBlock BlockFormat BlockFormatProofs BlockExec BlockExecProofs
  DecodePortable DecodeAsm CompressFast CompressFastTable CompressHC CompressHCTop CompressSpec.

(* what a caller observes of a decoder result: error, or (n, the first n bytes) *)
Definition obs (r : dres) : option (Z * list Z) :=
  match r with DErr => None | DOk n dst => Some (n, firstn (Z.to_nat n) dst) end.
Definition obs_spec (r : option (list Z)) : option (Z * list Z) :=
  match r with None => None | Some out => Some (len out, out) end.

Definition decoder := list Z -> list Z -> list Z -> dres.   (* src dst0 dict *)

(* C04 / C03: a decoder implements the format exactly, independently of the destination's prior
   contents, never reports more than len(dst) and preserves the destination's length *)
Definition exact_stmt (dec : decoder) : Prop :=
  forall src dst0 dict, bytes src ->
    obs (dec src dst0 dict) = obs_spec (spec_decode src dict (len dst0)).
Definition safe_stmt (dec : decoder) : Prop :=
  forall src dst0 dict n dst', bytes src -> dec src dst0 dict = DOk n dst' ->
    0 <= n <= len dst0 /\ length dst' = length dst0.
Definition wellformed_stmt (dec : decoder) : Prop :=
  forall p dict dst0 r, wf_parse p -> expand_parse (rev dict) (len dst0) [] p = Some r ->
    exists dst', dec (encode p) dst0 dict = DOk (len r) dst' /\ firstn (length r) dst' = rev r.
Definition independent_stmt (dec : decoder) : Prop :=
  forall src dstA dstB dict, bytes src -> length dstA = length dstB ->
    obs (dec src dstA dict) = obs (dec src dstB dict).

(* C12 *)
Definition equiv_stmt : Prop :=
  forall src dstA dstB dict, bytes src -> length dstA = length dstB ->
    obs (decode_asm src dstA dict) = obs (decode_portable src dstB dict).

(* error clauses of C04, at the level of the format (they transfer to both decoders by exact_stmt) *)
Definition err_zero_offset_stmt : Prop :=
  forall ss s rest dict cap, Forall wf_seq ss -> bytes (lits s) -> 4 <= mlen s -> off s = 0 ->
    spec_decode (flat_map enc_seq ss ++ enc_seq s ++ rest) dict cap = None.
Definition err_before_dict_stmt : Prop :=
  forall ss s rest dict cap r, Forall wf_seq ss -> wf_seq s ->
    expand (rev dict) cap [] ss = Some r -> len r + len (lits s) + len dict < off s ->
    spec_decode (flat_map enc_seq ss ++ enc_seq s ++ rest) dict cap = None.
Definition err_overflow_stmt : Prop :=
  forall p dict cap cap' r, wf_parse p -> expand_parse (rev dict) cap' [] p = Some r -> cap < len r ->
    spec_decode (encode p) dict cap = None.
(* truncation inside the last literal run (at least one literal byte missing) *)
Definition err_truncated_stmt : Prop :=
  forall ss last k dict cap, Forall wf_seq ss -> bytes last -> (0 < k <= length last)%nat ->
    spec_decode (firstn (length (encode (ss, last)) - k) (encode (ss, last))) dict cap = None.

(* ---- compressors ---- *)
Definition encode_bytes_stmt : Prop := forall p, wf_parse p -> bytes (encode p).
Definition parse_encode_stmt : Prop :=
  forall p, wf_parse p -> parse_block (S (length (encode p))) (encode p) [] = Some p.

(* C01: with a destination of at least CompressBlockBound(len) bytes compression succeeds and both
   decoders, given a buffer of exactly the original length (any prior contents), return the source *)
Definition roundtrip_stmt (compress : list Z -> Z -> cres) : Prop :=
  forall src dstlen dst0, bytes src -> lz4block_CompressBlockBound (len src) <= dstlen ->
    length dst0 = length src ->
    exists b, compress src dstlen = COk b /\ 0 < len b <= dstlen /\
      obs (decode_asm b dst0 []) = Some (len src, src) /\
      obs (decode_portable b dst0 []) = Some (len src, src).
(* C10 + C11: any destination size — a positive result is a complete strictly valid block that fits;
   zero/error only below the bound; never a panic, never a hang *)
Definition contract_stmt (compress : list Z -> Z -> cres) : Prop :=
  forall src dstlen, bytes src ->
    match compress src dstlen with
    | COk b => exists p, parse_block (S (length b)) b [] = Some p /\ b = encode p /\ wf_parse p /\
                         strict p = true /\ spec_decode b [] (len src) = Some src /\ 0 < len b <= dstlen
    | CZero | CErr => dstlen < lz4block_CompressBlockBound (len src)
    | CPanic | CHang => False
    end.

(* C14 (block level): the HC object.  Its state is the two tables and needsReset; the code zeroes
   the tables whenever needsReset is set, and a fresh object has zero tables and needsReset false *)
Record hc_obj := mk_hc_obj { ho_hash : tbl; ho_chain : tbl; ho_needs_reset : bool }.
Definition hc_fresh : hc_obj := mk_hc_obj (PositiveMap.empty Z) (PositiveMap.empty Z) false.
Definition hc_reachable (o : hc_obj) : Prop := o = hc_fresh \/ ho_needs_reset o = true.
