(* C03 — Block decoding is memory-safe on arbitrary input (assembly and portable). *)
From LZ4V Require Import Base BlockFormat BlockExec DecodePortable DecodeAsm DecodeAsmMonitor BlockTheoremsSpec BlockTheorems.

(* a result is an error or a count 0 <= n <= len(dst); the destination keeps its length (no write
   outside dst[0:len]): in the zipper models every access is inside src / dict / dst by construction,
   an access outside is the explicit error result *)
Theorem C03_asm : safe_stmt decode_asm.            Proof. exact asm_safe. Qed.
Print Assumptions C03_asm.
Theorem C03_portable : safe_stmt decode_portable.  Proof. exact portable_safe. Qed.
Print Assumptions C03_portable.
(* totality: the models are total functions (no panic, no divergence) and agree with the format on
   every input, in particular on adversarial ones *)
Theorem C03_total_asm : exact_stmt decode_asm.            Proof. exact asm_exact. Qed.
Print Assumptions C03_total_asm.
Theorem C03_total_portable : exact_stmt decode_portable.  Proof. exact portable_exact. Qed.
Print Assumptions C03_total_portable.
(* the wide moves of the assembly made explicit: in the monitored model every 16/48-byte literal move,
   the 8+8+2-byte match move, the 16-byte interior move and every exact copy carries the bounds of the
   load and of the store; a move that would leave src, dict or dst[0:len] is the result MFault.  For
   every byte source, every destination and every dictionary the monitored decoder never faults, and
   it is the same function as the unmonitored model *)
Theorem C03_asm_never_faults : forall src dst0 dict, bytes src -> decode_asm_m src dst0 dict <> MFault.
Proof. exact asm_never_faults. Qed.
Print Assumptions C03_asm_never_faults.
Theorem C03_asm_monitor_erase : forall src dst0 dict, decode_asm_m src dst0 dict <> MFault ->
  match decode_asm_m src dst0 dict with
  | MOk n d => decode_asm src dst0 dict = DOk n d | MErr => decode_asm src dst0 dict = DErr | MFault => False end.
Proof. exact asm_monitor_erase. Qed.
Print Assumptions C03_asm_monitor_erase.
Example C03_nonvacuous : decode_asm [16; 7; 1; 0] [0; 0] [] = DErr /\ decode_portable [16; 7; 1; 0] [0; 0] [] = DErr.
Proof. vm_compute. split; reflexivity. Qed.
