(* C03 — Block decoding is memory-safe on arbitrary input (assembly and portable). *)
From LZ4V Require Import Base BlockFormat DecodePortable DecodeAsm BlockTheoremsSpec BlockTheorems.

(* a result is an error or a count 0 <= n <= len(dst); the destination keeps its length (no write
   outside dst[0:len]): in the zipper models every access is inside src / dict / dst by construction,
   an access outside is the explicit error result *)
Theorem C03_asm : safe_stmt decode_asm.            Proof. exact asm_safe. Qed.
Print Assumptions C03_asm.
Theorem C03_portable : safe_stmt decode_portable.  Proof. exact portable_safe. Qed.
Print Assumptions C03_portable.
(* totality: the models are total functions (no panic, no divergence) and agree with the format on
   every input, in particular on adversarial ones *)
Theorem C03_total_asm : exact_stmt decode_asm.            Proof. exact asm_exact. Qed.
Print Assumptions C03_total_asm.
Theorem C03_total_portable : exact_stmt decode_portable.  Proof. exact portable_exact. Qed.
Print Assumptions C03_total_portable.
Example C03_nonvacuous : decode_asm [16; 7; 1; 0] [0; 0] [] = DErr /\ decode_portable [16; 7; 1; 0] [0; 0] [] = DErr.
Proof. vm_compute. split; reflexivity. Qed.
