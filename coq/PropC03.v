(* C03 — Block decoding is memory-safe on arbitrary input (assembly and portable). *)
From LZ4V Require Import Base BlockFormat BlockExec DecodePortable DecodeAsm DecodeAsmMonitor BlockTheoremsSpec BlockTheorems.

(* a result is an error or a count 0 <= n <= len(dst); the destination keeps its length (no write
   outside dst[0:len]): in the zipper models every access is inside src / dict / dst by construction,
   an access outside is the explicit error result *)
Theorem C03_asm : safe_stmt decode_asm.            Proof. exact asm_safe. Qed.
Print Assumptions C03_asm.
Theorem C03_portable : safe_stmt decode_portable.  Proof. exact portable_safe. Qed.
Print Assumptions C03_portable.
(* totality: the models are total functions (no panic, no divergence) and agree with the format on
   every input, in particular on adversarial ones *)
Theorem C03_total_asm : exact_stmt decode_asm.            Proof. exact asm_exact. Qed.
Print Assumptions C03_total_asm.
Theorem C03_total_portable : exact_stmt decode_portable.  Proof. exact portable_exact. Qed.
Print Assumptions C03_total_portable.
(* the wide moves of the assembly made explicit: in the monitored model every 16/48-byte literal move,
   the 8+8+2-byte match move, the 16-byte interior move and every exact copy carries the bounds of the
   load and of the store; a move that would leave src, dict or dst[0:len] is the result MFault.  For
   every byte source, every destination and every dictionary the monitored decoder never faults, and
   it is the same function as the unmonitored model *)
Theorem C03_asm_never_faults : forall src dst0 dict, bytes src -> decode_asm_m src dst0 dict <> MFault.
Proof. exact asm_never_faults. Qed.
Print Assumptions C03_asm_never_faults.
Theorem C03_asm_monitor_erase : forall src dst0 dict, decode_asm_m src dst0 dict <> MFault ->
  match decode_asm_m src dst0 dict with
  | MOk n d => decode_asm src dst0 dict = DOk n d | MErr => decode_asm src dst0 dict = DErr | MFault => False end.
Proof. exact asm_monitor_erase. Qed.
Print Assumptions C03_asm_monitor_erase.
Example C03_nonvacuous : decode_asm [16; 7; 1; 0] [0; 0] [] = DErr /\ decode_portable [16; 7; 1; 0] [0; 0] [] = DErr.
Proof. vm_compute. split; reflexivity. Qed.

(* ==== the portable decoder AS TRANSLATED from internal/lz4block/decode_other.go on this run ====
   GenDecodeBody.v is regenerated from the Go source by gen/body.go (statement by statement, over the Go
   semantics of GoT.v: slice bounds checks, copy, the recover idiom).  For every byte source, every
   destination (any length, any prior contents, any spare capacity behind it), every dictionary, every prior
   frame contents and enough fuel: the translated decodeBlock returns — no escaping panic, no hang —
   hasError (-2) or a count 0 <= n <= len(dst); the destination's array keeps its length, nothing beyond
   len(dst) is written, src and dict are not written *)
From LZ4V Require Import GoT GenDecodeBody GenDecodeBodyProofs GenDecodeBodyCorollaries.
Theorem C03_portable_translated : forall src dst0 dict src_spare dst_spare dict_spare s0 fuel,
  bytes src -> sized src dst0 dict -> (length src + 65 <= fuel)%nat ->
  exists s', run_decodeBlock fuel dst0 dst_spare src src_spare dict dict_spare s0 = Ret s'
    /\ (decodeBlock_ret s' = -2 \/ 0 <= decodeBlock_ret s' <= len dst0)
    /\ length (mem_decodeBlock_dst s') = length (dst0 ++ dst_spare)
    /\ skipn (length dst0) (mem_decodeBlock_dst s') = dst_spare
    /\ mem_decodeBlock_src s' = src ++ src_spare /\ mem_decodeBlock_dict s' = dict ++ dict_spare.
Proof. exact C03_translated. Qed.
Print Assumptions C03_portable_translated.
Theorem C03_portable_translated_no_panic_no_hang : forall src dst0 dict src_spare dst_spare dict_spare s0 fuel,
  bytes src -> sized src dst0 dict -> (length src + 65 <= fuel)%nat ->
  (forall s, run_decodeBlock fuel dst0 dst_spare src src_spare dict dict_spare s0 <> Pan s) /\
  run_decodeBlock fuel dst0 dst_spare src src_spare dict dict_spare s0 <> Hang.
Proof. exact C03_translated_no_panic_no_hang. Qed.
Print Assumptions C03_portable_translated_no_panic_no_hang.
(* and it is the hand-written model, result and destination contents (junk beyond n included) *)
Theorem C03_portable_translated_refines : forall (src dst0 dict src_spare dst_spare dict_spare : list Z) (s0 : state) (fuel : nat),
  bytes src -> len src < 2^62 -> len dst0 < 2^62 -> len dict < 2^62 ->
  (length src + 65 <= fuel)%nat ->
  exists s', lz4block_decodeBlock fuel (init_lz4block_decodeBlock_fresh dst0 dst_spare src src_spare dict dict_spare s0) = Ret s'
    /\ match decode_portable src dst0 dict with
       | DOk n d => decodeBlock_ret s' = n /\ firstn (length dst0) (mem_decodeBlock_dst s') = d
       | DErr => decodeBlock_ret s' = -2
       end
    /\ length (mem_decodeBlock_dst s') = (length dst0 + length dst_spare)%nat
    /\ skipn (length dst0) (mem_decodeBlock_dst s') = dst_spare
    /\ mem_decodeBlock_src s' = src ++ src_spare /\ mem_decodeBlock_dict s' = dict ++ dict_spare.
Proof. exact decodeBlock_refines_fuel. Qed.
Print Assumptions C03_portable_translated_refines.
