(* C09 — Emitted frames conform to the LZ4 frame specification (modern and legacy). *)
From LZ4V Require Import Base GenBlock GenStream GenLz4 XXH32 BlockFormat FrameSpec FrameImpl Writer Reader FrameTheoremsSpec WriterProofs FrameEncodeProofs FrameEncodeItems.

(* every fault-free session Apply os; (Write d | Flush)*; Close on a modern Writer: every call
   succeeds and the bytes in the sink are accepted by the STRICT frame specification (magic,
   version 01, reserved bits zero, correct header checksum, block-size code 4..7, every block no
   larger than the declared maximum and decoding under the block-format specification, block and
   content checksums equal to reference XXH32, end mark, configured content size) with exactly the
   written data as content and nothing after the frame *)
Theorem C09_sessions : forall os o items, opts_after os = Some o -> modern o ->
  Forall (fun i => match i with IWrite d => bytes d | IFlush => True end) items ->
  (fo_csize o <= 0 \/ fo_csize o = len (data_of items)) -> len (data_of items) < 2 ^ 64 ->
  let '(w, res) := run_writer (new_writer s0) (WApply os :: map item_op items ++ [WClose]) s0 in
  res = RE ENil :: map item_res items ++ [RE ENil] /\
  frame_spec Decoded true (sink_bytes (w_sink w)) = Some (data_of items, len (sink_bytes (w_sink w))).
Proof. exact sessions_meet_spec. Qed.
Print Assumptions C09_sessions.
(* the same for any list of blocks (each non-empty, at most the block size): what ReadFrom, the
   compressing reader and lz4c emit are instances *)
Theorem C09_frame : forall os o data, opts_after os = Some o -> modern o -> bytes data ->
  (fo_csize o <= 0 \/ fo_csize o = len data) -> len data < 2 ^ 64 ->
  frame_spec Decoded true (frame_encode o data) = Some (data, len (frame_encode o data)).
Proof. exact encode_spec_opts. Qed.
Print Assumptions C09_frame.
(* the header carries the configured content size *)
Theorem C09_size : forall os o data, opts_after os = Some o -> modern o -> 0 <= fo_csize o < 18446744073709551616 ->
  exists d rest, parse_desc true (skipn 4 (frame_encode o data)) = Some (d, rest) /\
                 fd_size d = (if 0 <? fo_csize o then Some (fo_csize o) else None).
Proof. exact encode_spec_size_opts_strong. Qed.
Print Assumptions C09_size.
(* F10, an open finding: with the format's own domain for block checksums (the STORED bytes) a
   frame emitted with block checksums and a compressed block is rejected *)
Theorem C09_stored_domain_refuted : exists o data,
  frame_spec Decoded true (frame_encode o data) = Some (data, len (frame_encode o data)) /\
  frame_spec Stored true (frame_encode o data) = None.
Proof.
  destruct encode_spec_stored_refuted as (o & data & H). exists o, data. tauto.
Qed.
Print Assumptions C09_stored_domain_refuted.

(* ---- legacy frames ---- *)
From LZ4V Require Import LegacySpec LegacyProofs LegacyTruncSpec LegacyFrameSpecSpec LegacyFrameSpecProofs.
(* shape: the legacy magic, no descriptor, then for each chunk of at most 8 MiB a size word and a block
   that decodes (specification decoder, empty dictionary) to exactly that chunk, or the chunk stored
   raw under a flagged size word (finding F17-raw) *)
Theorem C09_legacy_shape : legacy_frame_shape_stmt.  Proof. exact legacy_frame_shape. Qed.
Print Assumptions C09_legacy_shape.
(* the independent specification (which has no kernel-trailer rule) decodes every legacy session's
   frame to exactly the bytes written — no side condition, any length *)
Theorem C09_legacy_frame : legacy_encode_spec_stmt.  Proof. exact legacy_encode_spec. Qed.
Print Assumptions C09_legacy_frame.
(* the strict reading (no raw-flagged blocks) holds exactly when every chunk compresses, which is the
   case whenever no chunk exceeds 8355700 bytes *)
Theorem C09_legacy_frame_strict : legacy_encode_spec_strict_stmt.  Proof. exact legacy_encode_spec_strict. Qed.
Print Assumptions C09_legacy_frame_strict.
Theorem C09_legacy_strict_iff : legacy_strict_iff_stmt.  Proof. exact legacy_strict_iff. Qed.
Print Assumptions C09_legacy_strict_iff.
Theorem C09_legacy_raw_only_large : legacy_raw_only_large_stmt.  Proof. exact legacy_raw_only_large. Qed.
Print Assumptions C09_legacy_raw_only_large.
Theorem C09_legacy_frame_strict_small : legacy_encode_spec_strict_small_data_stmt.  Proof. exact legacy_encode_spec_strict_small_data. Qed.
Print Assumptions C09_legacy_frame_strict_small.
