(* C09 — Emitted frames conform to the LZ4 frame specification (modern and legacy). *)
From LZ4V Require Import Base GenBlock GenStream GenLz4 XXH32 BlockFormat FrameSpec FrameImpl Writer Reader FrameTheoremsSpec WriterProofs FrameEncodeProofs FrameEncodeItems.

(* every fault-free session Apply os; (Write d | Flush)*; Close on a modern Writer: every call
   succeeds and the bytes in the sink are accepted by the STRICT frame specification (magic,
   version 01, reserved bits zero, correct header checksum, block-size code 4..7, every block no
   larger than the declared maximum and decoding under the block-format specification, block and
   content checksums equal to reference XXH32, end mark, configured content size) with exactly the
   written data as content and nothing after the frame *)
Theorem C09_sessions : forall os o items, opts_after os = Some o -> modern o ->
  Forall (fun i => match i with IWrite d => bytes d | IFlush => True end) items ->
  (fo_csize o <= 0 \/ fo_csize o = len (data_of items)) -> len (data_of items) < 2 ^ 64 ->
  let '(w, res) := run_writer (new_writer s0) (WApply os :: map item_op items ++ [WClose]) s0 in
  res = RE ENil :: map item_res items ++ [RE ENil] /\
  frame_spec Decoded true (sink_bytes (w_sink w)) = Some (data_of items, len (sink_bytes (w_sink w))).
Proof. exact sessions_meet_spec. Qed.
Print Assumptions C09_sessions.
(* the same for any list of blocks (each non-empty, at most the block size): what ReadFrom, the
   compressing reader and lz4c emit are instances *)
Theorem C09_frame : forall os o data, opts_after os = Some o -> modern o -> bytes data ->
  (fo_csize o <= 0 \/ fo_csize o = len data) -> len data < 2 ^ 64 ->
  frame_spec Decoded true (frame_encode o data) = Some (data, len (frame_encode o data)).
Proof. exact encode_spec_opts. Qed.
Print Assumptions C09_frame.
(* the header carries the configured content size *)
Theorem C09_size : forall os o data, opts_after os = Some o -> modern o -> 0 <= fo_csize o < 18446744073709551616 ->
  exists d rest, parse_desc true (skipn 4 (frame_encode o data)) = Some (d, rest) /\
                 fd_size d = (if 0 <? fo_csize o then Some (fo_csize o) else None).
Proof. exact encode_spec_size_opts_strong. Qed.
Print Assumptions C09_size.
(* F10, an open finding: with the format's own domain for block checksums (the STORED bytes) a
   frame emitted with block checksums and a compressed block is rejected *)
Theorem C09_stored_domain_refuted : exists o data,
  frame_spec Decoded true (frame_encode o data) = Some (data, len (frame_encode o data)) /\
  frame_spec Stored true (frame_encode o data) = None.
Proof.
  destruct encode_spec_stored_refuted as (o & data & H). exists o, data. tauto.
Qed.
Print Assumptions C09_stored_domain_refuted.
