(* GenCompressBodyLoop.v — towards refines_stmt for sources longer than 14 bytes: the pieces of the
   translated Compressor.CompressBlock (GenCompressBody.v) against the pieces of the hand model
   (CompressFast.v), for ARBITRARY states described by their projections.
   See notes/translator3_report.md.  No axioms, nothing admitted. *)
From Coq Require Import ZArith List Lia Bool FMapPositive.
From LZ4V Require Import Base GoT GenBlock GenCompressBody BlockFormat CompressFast CompressFastTable
  Bound CompressFastProofs BlockTheorems GenCompressBodyProofs.
Import ListNotations.
Open Scope Z_scope.
Open Scope got_scope.

Notation L_src := L_Compressor_CompressBlock_src.
Notation L_dst := L_Compressor_CompressBlock_dst.
Notation f_src := Compressor_CompressBlock_src.
Notation f_dst := Compressor_CompressBlock_dst.
Notation f_di := Compressor_CompressBlock_di.
Notation f_si := Compressor_CompressBlock_si.
Notation f_anchor := Compressor_CompressBlock_anchor.
Notation f_notc := Compressor_CompressBlock_isNotCompressible.
Notation f_ret0 := Compressor_CompressBlock_ret0.
Notation f_ret1 := Compressor_CompressBlock_ret1.
Notation m_src := mem_Compressor_CompressBlock_src.
Notation m_dst := mem_Compressor_CompressBlock_dst.
Notation tailL := lz4block_Compressor_CompressBlock_at_lastLiterals.
Notation f_lLen := Compressor_CompressBlock_lLen.
Notation f_mLen := Compressor_CompressBlock_mLen.
Notation f_off := Compressor_CompressBlock_offset.
Notation f_l := Compressor_CompressBlock_l.
Notation f_sn := Compressor_CompressBlock_sn.

(* the part of the state the code never changes: the two slice headers and the source bytes *)
Definition frame (src ssp : list Z) (dl dsp : Z) (s : state) : Prop :=
  f_src s = mkslice false L_src 0 (zlen src) (zlen src + zlen ssp) /\
  m_src s = src ++ ssp /\
  f_dst s = mkslice false L_dst 0 dl (dl + dsp).

Definition zdrop (k : Z) (l : list Z) : list Z := skipn (Z.to_nat k) l.
Definition ztake (k : Z) (l : list Z) : list Z := firstn (Z.to_nat k) l.

(* ------------------------------------------------------------------------------------------ *)
(* 1. The epilogue (label lastLiterals) = the tail of finish_fast                             *)
(* ------------------------------------------------------------------------------------------ *)
Definition tail_post (src D : list Z) (dl a di : Z) (notc : bool) (s' : state) : Prop :=
  let n := zlen src in
  let lLen := n - a in
  let hdr := 1 + zlen (extl lLen) in
  if notc && (a =? 0) then f_ret0 s' = 0 /\ f_ret1 s' = 0
  else if dl <=? di then f_ret0 s' = 0 /\ f_ret1 s' = 1
  else if dl <? di + hdr then f_ret0 s' = 0 /\ f_ret1 s' = 1
  else if notc && (a <=? di + hdr) then f_ret0 s' = 0 /\ f_ret1 s' = 0
  else if dl <? di + hdr + lLen then f_ret0 s' = 0 /\ f_ret1 s' = 1
  else f_ret0 s' = di + hdr + lLen /\ f_ret1 s' = 0 /\
       m_dst s' = ztake di D ++ enc_last (zdrop a src) ++ zdrop (di + hdr + lLen) D.

(* finish_fast after ser_seqs succeeded with di, as a result *)
Definition tail_model (n dl a di : Z) (notc : bool) (ss : list BlockFormat.seq) (last : list Z) : cres :=
  let lLen := n - a in
  let hdr := 1 + len (extl lLen) in
  if notc && (a =? 0) then CZero
  else if dl <=? di then CErr
  else if dl <? di + hdr then CErr
  else if notc && (a <=? di + hdr) then CZero
  else if dl <? di + hdr + lLen then CErr
  else COk (encode (ss, last)).
Lemma finish_fast_tail n dl ss a last di :
  ser_seqs dl 0 ss = Some di ->
  finish_fast n dl ss a last = tail_model n dl a di (dl <? GenBlock.lz4block_CompressBlockBound n) ss last.
Proof. intros H. unfold finish_fast, tail_model. rewrite H. reflexivity. Qed.

(* tests of the statement on concrete states *)
Definition junkb (n : nat) : list Z := map (fun i => (Z.of_nat i * 37 + 11) mod 256) (List.seq 0 n).
Definition tstate (src D : list Z) (dl : Z) (a di : Z) (notc : bool) : state :=
  set_Compressor_CompressBlock_isNotCompressible notc
   (set_Compressor_CompressBlock_anchor a
     (set_Compressor_CompressBlock_di di
       (init_lz4block_Compressor_CompressBlock_fresh src [] (ztake dl D) (zdrop dl D) zero_state))).
Definition tail_test (nsrc nD : nat) (dl a di : Z) (notc : bool) : Prop :=
  ret_sat (tailL 1000 (tstate (junkb nsrc) (junkb nD) dl a di notc))
          (tail_post (junkb nsrc) (junkb nD) dl a di notc).
Example tail_t1 : tail_test 40 80 70 10 5 false. Proof. vm_compute. repeat split. Qed.
Example tail_t2 : tail_test 40 80 70 0 0 true. Proof. vm_compute. repeat split. Qed.
Example tail_t3 : tail_test 300 330 310 14 5 false /\ tail_test 300 330 5 14 5 false /\ tail_test 300 330 7 14 5 false.
Proof. vm_compute. repeat split. Qed.

Ltac btrue := symmetry; repeat (apply andb_true_intro; split);
  first [apply Z.leb_le; lia | apply Z.ltb_lt; lia | reflexivity].

Ltac stp := repeat (first [rewrite seq_assoc | got_step]; lz4block_state_simpl).

Lemma ret_sat_jump (k : stmt) s P : ret_sat (k s) P -> ret_sat (jump k s) P.
Proof. unfold jump, ret_sat. destruct (k s); auto; contradiction. Qed.

(* ---- the destination array as  old-prefix ++ bytes-written-from-di ++ old-tail ---- *)
Definition img (D : list Z) (di : Z) (H : list Z) : list Z :=
  ztake di D ++ H ++ zdrop (di + zlen H) D.

Lemma zlen_ztake k l : 0 <= k <= zlen l -> zlen (ztake k l) = k.
Proof. unfold zlen, ztake; intros. rewrite firstn_length. lia. Qed.
Lemma zlen_zdrop k l : 0 <= k <= zlen l -> zlen (zdrop k l) = zlen l - k.
Proof. unfold zlen, zdrop; intros. rewrite skipn_length. lia. Qed.
Lemma ztake_zdrop k l : ztake k l ++ zdrop k l = l.
Proof. apply firstn_skipn. Qed.
Lemma skipn_skipn_add {A} (b : nat) : forall (a : nat) (l : list A), skipn a (skipn b l) = skipn (b + a) l.
Proof.
  induction b as [|b IH]; intros a l; [reflexivity|].
  destruct l as [|x l]; [rewrite !skipn_nil; reflexivity|]. cbn [skipn Nat.add]. apply IH.
Qed.
Lemma zdrop_zdrop a b l : 0 <= a -> 0 <= b -> zdrop a (zdrop b l) = zdrop (b + a) l.
Proof. unfold zdrop; intros. rewrite skipn_skipn_add. f_equal. lia. Qed.

Lemma zsplice_app3 (A X B L : list Z) : zlen X = zlen L -> zsplice (A ++ X ++ B) (zlen A) L = A ++ L ++ B.
Proof.
  unfold zsplice, zlen. intros HX. rewrite Nat2Z.id.
  rewrite firstn_app, Nat.sub_diag, firstn_all, firstn_O, app_nil_r.
  rewrite skipn_app. rewrite skipn_all2 by lia. cbn [app].
  replace (length A + length L - length A)%nat with (length X) by lia.
  rewrite skipn_app, skipn_all, Nat.sub_diag. reflexivity.
Qed.

Lemma img_nil D di : img D di [] = D.
Proof. unfold img. cbn [app]. change (zlen []) with 0. rewrite Z.add_0_r. apply ztake_zdrop. Qed.
Lemma img_len D di H : 0 <= di -> di + zlen H <= zlen D -> zlen (img D di H) = zlen D.
Proof.
  intros. pose proof (zlen_nonneg H). unfold img. rewrite !zlen_app, zlen_ztake, zlen_zdrop by lia. lia.
Qed.
Lemma img_splice D di H L : 0 <= di -> di + zlen H + zlen L <= zlen D ->
  zsplice (img D di H) (di + zlen H) L = img D di (H ++ L).
Proof.
  intros Hdi Hle. pose proof (zlen_nonneg H). pose proof (zlen_nonneg L).
  unfold img. rewrite zlen_app.
  set (A := ztake di D ++ H).
  set (X := ztake (zlen L) (zdrop (di + zlen H) D)).
  set (B := zdrop (di + (zlen H + zlen L)) D).
  assert (HA : zlen A = di + zlen H) by (unfold A; rewrite zlen_app, zlen_ztake by lia; lia).
  assert (HX : zdrop (di + zlen H) D = X ++ B).
  { unfold X, B. rewrite <- (ztake_zdrop (zlen L) (zdrop (di + zlen H) D)) at 1.
    rewrite zdrop_zdrop by lia.
    replace (di + zlen H + zlen L) with (di + (zlen H + zlen L)) by lia. reflexivity. }
  rewrite HX. rewrite <- HA. rewrite (app_assoc (ztake di D) H). fold A.
  rewrite zsplice_app3.
  - unfold A. rewrite <- !app_assoc. reflexivity.
  - unfold X. rewrite zlen_ztake; [reflexivity|]. rewrite zlen_zdrop by lia. lia.
Qed.
Lemma img_upd D di H v : 0 <= di -> di + zlen H < zlen D ->
  zupd (img D di H) (di + zlen H) v = img D di (H ++ [v]).
Proof. intros. unfold zupd. apply img_splice; [assumption|]. change (zlen [v]) with 1. lia. Qed.
Lemma img_img D d0 E H : 0 <= d0 -> d0 + zlen E + zlen H <= zlen D ->
  img (img D d0 E) (d0 + zlen E) H = img D d0 (E ++ H).
Proof.
  intros Hd Hle. pose proof (zlen_nonneg E). pose proof (zlen_nonneg H).
  pose proof (img_splice (img D d0 E) (d0 + zlen E) [] H) as P.
  cbn [app] in P. change (zlen []) with 0 in P. rewrite Z.add_0_r, img_nil in P. rewrite ?Z.add_0_l in P.
  rewrite <- P by (rewrite ?img_len; lia). apply img_splice; lia.
Qed.
Lemma znth_img_last D di H v : 0 <= di -> di + zlen H < zlen D ->
  znth (img D di (H ++ [v])) (di + zlen H) = v.
Proof.
  intros Hd Hl. pose proof (zlen_nonneg H). rewrite <- img_upd by lia.
  apply znth_zupd_same. rewrite img_len by lia. lia.
Qed.
Lemma zsub_src (src ssp : list Z) a : 0 <= a <= zlen src -> zsub (src ++ ssp) a (zlen src - a) = zdrop a src.
Proof.
  intros Ha. unfold zsub, zdrop, zlen in *. rewrite skipn_app.
  rewrite firstn_app, skipn_length.
  replace (Z.to_nat (Z.of_nat (length src) - a) - (length src - Z.to_nat a))%nat with 0%nat by lia.
  rewrite firstn_O, app_nil_r. apply firstn_all2. rewrite skipn_length. lia.
Qed.

(* ---- small facts used by the emission ---- *)
Lemma ext_bytes v k : 0 <= k -> 0 <= v - 255 * k < 255 ->
  repeat 255 (Z.to_nat k) ++ [v - 255 * k] = ext v /\ zlen (ext v) = k + 1.
Proof.
  intros Hk Hr.
  assert (Hq : v / 255 = k) by (symmetry; apply (Z.div_unique v 255 k (v - 255 * k)); lia).
  assert (Hm : v mod 255 = v - 255 * k) by (symmetry; apply (Z.mod_unique v 255 k (v - 255 * k)); lia).
  split; [unfold ext; rewrite Hq, Hm; reflexivity|].
  change (zlen (ext v)) with (len (ext v)). rewrite len_ext by lia. lia.
Qed.

Lemma lor_nibbles x y : 0 <= x < 16 -> 0 <= y -> Z.lor x (16 * y) = 16 * y + x.
Proof.
  intros Hx Hy. assert (Hl : Z.land x (16 * y) = 0).
  { apply Z.bits_inj'. intros i Hi. rewrite Z.land_spec, Z.bits_0.
    destruct (Z_lt_dec i 4).
    - replace (16 * y) with (y * 2 ^ 4) by (change (2 ^ 4) with 16; lia).
      rewrite Z.mul_pow2_bits_low by lia. apply andb_false_r.
    - destruct (Z.eq_dec x 0) as [->|]; [rewrite Z.bits_0; reflexivity|].
      rewrite (Z.bits_above_log2 x i); [reflexivity|lia|].
      apply Z.log2_lt_pow2; [lia|]. apply Z.lt_le_trans with (2 ^ 4); [change (2 ^ 4) with 16; lia|].
      apply Z.pow_le_mono_r; lia. }
  rewrite <- Z.lxor_lor by assumption. rewrite <- Z.add_nocarry_lxor by assumption. lia.
Qed.

Lemma zupd_as_img l i v : 0 <= i < zlen l -> zupd l i v = img l i [v].
Proof.
  intros H. pose proof (img_upd l i [] v) as P. change (zlen []) with 0 in P.
  rewrite Z.add_0_r, img_nil in P. cbn [app] in P. apply P; lia.
Qed.
Lemma img_one_upd l i a b : 0 <= i < zlen l -> zupd (img l i [a]) i b = img l i [b].
Proof.
  intros H. unfold img, zupd. change (zlen [a]) with 1. change (zlen [b]) with 1.
  transitivity (zsplice (ztake i l ++ [a] ++ zdrop (i + 1) l) (zlen (ztake i l)) [b]);
    [rewrite zlen_ztake by lia; reflexivity|].
  rewrite zsplice_app3 by reflexivity. reflexivity.
Qed.
Lemma znth_img_one l i a : 0 <= i < zlen l -> znth (img l i [a]) i = a.
Proof.
  intros H. pose proof (znth_img_last l i [] a) as P. change (zlen []) with 0 in P.
  rewrite Z.add_0_r in P. cbn [app] in P. apply P; lia.
Qed.
Lemma zsub_app_l (src ssp : list Z) a l : 0 <= a -> 0 <= l -> a + l <= zlen src ->
  zsub (src ++ ssp) a l = zsub src a l /\ zlen (zsub src a l) = l.
Proof.
  intros Ha Hl Hle. unfold zsub, zlen in *. split.
  - rewrite skipn_app, firstn_app, skipn_length.
    replace (Z.to_nat l - (length src - Z.to_nat a))%nat with 0%nat by lia.
    rewrite firstn_O, app_nil_r. reflexivity.
  - rewrite firstn_length, skipn_length. lia.
Qed.

Lemma znth_app_l (l r : list Z) i : 0 <= i < zlen l -> znth (l ++ r) i = znth l i.
Proof. unfold znth, zlen. intros. apply app_nth1. lia. Qed.

(* ---- bits.TrailingZeros64(x) >> 3 of the xor of two 8-byte loads = number of equal leading bytes ---- *)
Fixpoint le_val (l : list Z) : Z := match l with [] => 0 | x :: r => x + 256 * le_val r end.

Lemma le_val_nonneg l : Forall (fun b => 0 <= b < 256) l -> 0 <= le_val l.
Proof. induction 1; cbn [le_val]; lia. Qed.

Lemma ctz64_double x : 0 < x -> ctz64 (2 * x) = 1 + ctz64 x.
Proof. destruct x as [|p|p]; try lia. intros _. change (2 * Z.pos p) with (Z.pos p~0). cbn [ctz64 pos_ctz]. lia. Qed.
Lemma ctz64_mul_pow2 k : 0 <= k -> forall x, 0 < x -> ctz64 (x * 2 ^ k) = k + ctz64 x.
Proof.
  intros Hk. pattern k. apply natlike_ind; [|clear k Hk|assumption].
  - intros x Hx. rewrite Z.pow_0_r, Z.mul_1_r. lia.
  - intros k Hk IH x Hx. rewrite Z.pow_succ_r by lia.
    replace (x * (2 * 2 ^ k)) with (2 * (x * 2 ^ k)) by ring.
    rewrite ctz64_double by (apply Z.mul_pos_pos; [lia|apply Z.pow_pos_nonneg; lia]).
    rewrite IH by lia. lia.
Qed.
Lemma ctz64_odd q : 0 <= q -> ctz64 (2 * q + 1) = 0.
Proof.
  intros Hq. destruct (2 * q + 1) as [|p|p] eqn:E; try lia.
  destruct p as [p|p|]; cbn [ctz64 pos_ctz]; try reflexivity. lia.
Qed.

(* the low byte decides, unless it is zero *)
Lemma ctz64_byte_cons c r : 0 <= c < 256 -> 0 <= r ->
  (c <> 0 -> 0 <= ctz64 (c + 256 * r) < 8) /\ (c = 0 -> 0 < r -> ctz64 (c + 256 * r) = 8 + ctz64 r).
Proof.
  intros Hc Hr. split.
  - intros Hn. destruct (ctz64_spec c ltac:(lia)) as (q & Hq & Hq0).
    set (k := ctz64 c) in *.
    assert (Hk0 : 0 <= k) by (unfold k; destruct c as [|p|p]; cbn [ctz64]; try lia; apply pos_ctz_nonneg).
    assert (Hk8 : k < 8).
    { destruct (Z_lt_dec k 8); [assumption|].
      assert (2 ^ 8 <= 2 ^ k) by (apply Z.pow_le_mono_r; lia).
      assert (2 ^ k <= c) by (rewrite Hq; nia). change (2 ^ 8) with 256 in *. lia. }
    replace (c + 256 * r) with ((2 * (q + 2 ^ (7 - k) * r) + 1) * 2 ^ k).
    + rewrite ctz64_mul_pow2 by (try lia; assert (0 <= 2 ^ (7 - k)) by (apply Z.pow_nonneg; lia); nia).
      rewrite ctz64_odd by (assert (0 <= 2 ^ (7 - k)) by (apply Z.pow_nonneg; lia); nia). lia.
    + rewrite Hq at 1. replace 256 with (2 ^ (7 - k) * 2 * 2 ^ k).
      * ring.
      * replace (2 ^ (7 - k) * 2) with (2 ^ (8 - k)) by (replace (8 - k) with (Z.succ (7 - k)) by lia; rewrite Z.pow_succ_r by lia; ring).
        rewrite <- Z.pow_add_r by lia. replace (8 - k + k) with 8 by lia. reflexivity.
  - intros -> Hr0. rewrite Z.add_0_l. replace (256 * r) with (r * 2 ^ 8) by (change (2 ^ 8) with 256; ring).
    apply ctz64_mul_pow2; lia.
Qed.

(* number of leading zero bytes *)
Fixpoint lead0 (l : list Z) : Z := match l with [] => 0 | x :: r => if x =? 0 then 1 + lead0 r else 0 end.

Lemma le_val_zero l : Forall (fun b => 0 <= b < 256) l -> le_val l = 0 -> lead0 l = zlen l.
Proof.
  induction 1 as [|x l Hx Hl IH]; cbn [le_val lead0]; [reflexivity|]. intros H0.
  pose proof (le_val_nonneg l Hl). assert (x = 0) by lia. assert (le_val l = 0) by lia. subst x.
  cbn [Z.eqb]. rewrite IH by assumption. change (zlen (0 :: l)) with (Z.of_nat (S (length l))). unfold zlen. lia.
Qed.
Lemma ctz_lead0 l : Forall (fun b => 0 <= b < 256) l -> le_val l <> 0 ->
  Z.shiftr (ctz64 (le_val l)) 3 = lead0 l /\ 0 <= ctz64 (le_val l).
Proof.
  induction 1 as [|x l Hx Hl IH]; cbn [le_val lead0]; [congruence|]. intros Hn.
  pose proof (le_val_nonneg l Hl) as Hr.
  destruct (ctz64_byte_cons x (le_val l) Hx Hr) as [H1 H2].
  destruct (Z.eqb_spec x 0) as [->|Hx0].
  - assert (Hr0 : le_val l <> 0) by lia. destruct (IH Hr0) as [IH1 IH2].
    rewrite H2 by lia. rewrite Z.add_0_l in *. split; [|lia].
    rewrite Z.shiftr_div_pow2 by lia. rewrite Z.shiftr_div_pow2 in IH1 by lia. change (2 ^ 3) with 8 in *.
    replace (8 + ctz64 (le_val l)) with (1 * 8 + ctz64 (le_val l)) by lia.
    rewrite Z.div_add_l by lia. lia.
  - specialize (H1 Hx0). split; [|lia]. rewrite Z.shiftr_div_pow2 by lia. apply Z.div_small. change (2 ^ 3) with 8. lia.
Qed.

Lemma testbit_byte_cons x r i : 0 <= x < 256 -> 0 <= i ->
  Z.testbit (x + 256 * r) i = if i <? 8 then Z.testbit x i else Z.testbit r (i - 8).
Proof.
  intros Hx Hi. destruct (i <? 8) eqn:E.
  - apply Z.ltb_lt in E. rewrite <- (Z.mod_pow2_bits_low (x + 256 * r) 8 i) by lia.
    change (2 ^ 8) with 256. replace (x + 256 * r) with (x + r * 256) by ring.
    rewrite Z_mod_plus_full, Z.mod_small by lia. reflexivity.
  - apply Z.ltb_ge in E. replace i with ((i - 8) + 8) at 1 by lia.
    rewrite <- Z.div_pow2_bits by lia. change (2 ^ 8) with 256.
    replace (x + 256 * r) with (x + r * 256) by ring.
    rewrite Z.div_add by lia. rewrite Z.div_small by lia. reflexivity.
Qed.
Lemma lxor_byte_range x y : 0 <= x < 256 -> 0 <= y < 256 -> 0 <= Z.lxor x y < 256.
Proof.
  intros Hx Hy. split; [apply Z.lxor_nonneg; lia|].
  destruct (Z.eq_dec (Z.lxor x y) 0) as [->|Hn]; [lia|].
  assert (0 < Z.lxor x y) by (assert (0 <= Z.lxor x y) by (apply Z.lxor_nonneg; lia); lia).
  change 256 with (2 ^ 8). apply Z.log2_lt_pow2; [assumption|].
  eapply Z.le_lt_trans; [apply Z.log2_lxor; lia|].
  apply Z.max_lub_lt.
  - destruct (Z.eq_dec x 0) as [->|]; [reflexivity|]. apply Z.log2_lt_pow2; [lia|]. change (2 ^ 8) with 256. lia.
  - destruct (Z.eq_dec y 0) as [->|]; [reflexivity|]. apply Z.log2_lt_pow2; [lia|]. change (2 ^ 8) with 256. lia.
Qed.
Lemma lxor_byte_cons x y ra rb : 0 <= x < 256 -> 0 <= y < 256 ->
  Z.lxor (x + 256 * ra) (y + 256 * rb) = Z.lxor x y + 256 * Z.lxor ra rb.
Proof.
  intros Hx Hy. apply Z.bits_inj'. intros i Hi.
  rewrite Z.lxor_spec, !testbit_byte_cons by (try assumption; apply lxor_byte_range; assumption).
  destruct (i <? 8); rewrite Z.lxor_spec; reflexivity.
Qed.

Definition xor_list (la lb : list Z) : list Z := map (fun p => Z.lxor (fst p) (snd p)) (combine la lb).
Lemma le_val_xor : forall la lb, Forall (fun b => 0 <= b < 256) la -> Forall (fun b => 0 <= b < 256) lb ->
  length la = length lb ->
  Z.lxor (le_val la) (le_val lb) = le_val (xor_list la lb) /\ Forall (fun b => 0 <= b < 256) (xor_list la lb).
Proof.
  induction la as [|x la IH]; intros [|y lb] Ha Hb Hl; try discriminate.
  - split; [reflexivity|constructor].
  - inversion Ha; inversion Hb; subst. destruct (IH lb) as [I1 I2]; try assumption; [cbn in Hl; lia|].
    unfold xor_list in *. cbn [combine map fst snd le_val]. split.
    + rewrite lxor_byte_cons by assumption. rewrite I1. reflexivity.
    + constructor; [apply lxor_byte_range; assumption|assumption].
Qed.

(* eq_run = leading zero bytes of the xor *)
Lemma eq_run_lead0 get : forall k a b,
  eq_run get k a b = lead0 (xor_list (sub_from get a k) (sub_from get b k)).
Proof.
  induction k as [|k IH]; intros a b; [reflexivity|].
  cbn [eq_run sub_from]. unfold xor_list. cbn [combine map fst snd lead0]. fold (xor_list (sub_from get (a + 1) k) (sub_from get (b + 1) k)).
  rewrite <- IH.
  destruct (Z.eqb_spec (get a) (get b)) as [->|Hn].
  - rewrite Z.lxor_nilpotent. reflexivity.
  - destruct (Z.eqb_spec (Z.lxor (get a) (get b)) 0) as [H0|]; [|reflexivity].
    apply Z.lxor_eq in H0. contradiction.
Qed.

Lemma sub_from_Forall get (P : Z -> Prop) : forall k c,
  (forall i, 0 <= i < Z.of_nat k -> P (get (c + i))) -> Forall P (sub_from get c k).
Proof.
  induction k as [|k IH]; intros c H; cbn [sub_from]; constructor.
  - replace c with (c + 0) by lia. apply H. lia.
  - apply IH. intros i Hi. replace (c + 1 + i) with (c + (1 + i)) by lia. apply H. lia.
Qed.

(* the final statement: for two runs of 8 bytes *)
Theorem ctz_xor_eq_run get a b :
  (forall i, 0 <= i < 8 -> 0 <= get (a + i) < 256 /\ 0 <= get (b + i) < 256) ->
  let x := Z.lxor (le_val (sub_from get a 8)) (le_val (sub_from get b 8)) in
  (x = 0 -> eq_run get 8 a b = 8) /\
  (x <> 0 -> Z.shiftr (ctz64 x) 3 = eq_run get 8 a b /\ eq_run get 8 a b < 8).
Proof.
  intros Hb. cbv zeta.
  assert (Fa : forall c, (forall i, 0 <= i < 8 -> 0 <= get (c + i) < 256) ->
                    Forall (fun v => 0 <= v < 256) (sub_from get c 8)).
  { intros c Hc. apply sub_from_Forall. intros i Hi. apply Hc. lia. }
  destruct (le_val_xor (sub_from get a 8) (sub_from get b 8)) as [Hx Hf];
    [apply Fa; intros; apply Hb; assumption|apply Fa; intros; apply Hb; assumption|reflexivity|].
  rewrite Hx, eq_run_lead0. split.
  - intros H0. rewrite (le_val_zero _ Hf H0). reflexivity.
  - intros Hn. destruct (ctz_lead0 _ Hf Hn) as [H1 _]. split; [exact H1|].
    (* not all eight bytes are zero *)
    set (l := xor_list (sub_from get a 8) (sub_from get b 8)) in *.
    assert (Hlen : zlen l = 8) by reflexivity.
    clearbody l. clear - Hn Hlen Hf.
    assert (G : forall l, Forall (fun v => 0 <= v < 256) l -> le_val l <> 0 -> lead0 l < zlen l).
    { clear. induction 1 as [|x l Hx Hl IH]; cbn [le_val lead0]; [congruence|]. intros Hn.
      change (zlen (x :: l)) with (Z.of_nat (S (length l))).
      destruct (Z.eqb_spec x 0) as [->|]; [|lia].
      assert (le_val l <> 0) by lia. specialize (IH H). unfold zlen in IH. lia. }
    rewrite <- Hlen. apply G; assumption.
Qed.

Section Tail.
Variables (src ssp : list Z) (dl dsp a : Z) (notc : bool).
Let n := zlen src.
Hypothesis Ha : 0 <= a <= n.
Hypothesis Hdsp : 0 <= dsp.
Hypothesis Hsmall : n + dl + dsp < 2 ^ 61.
Hypothesis Hdl : 0 <= dl.

(* the statements after the header bytes of the last literals: di++, the second (0, nil) exit, the
   size check, the copy, the return.  d1 = position of the last header byte. *)
Definition rest_post (M : list Z) (d1 : Z) (s' : state) : Prop :=
  if notc && (a <=? d1 + 1) then f_ret0 s' = 0 /\ f_ret1 s' = 0
  else if dl <? d1 + 1 + (n - a) then f_ret0 s' = 0 /\ f_ret1 s' = 1
  else f_ret0 s' = d1 + 1 + (n - a) /\ f_ret1 s' = 0 /\
       m_dst s' = zsplice M (d1 + 1) (zsub (src ++ ssp) a (n - a)).


Lemma ret_sat_weaken (o : outcome state) (P Q : state -> Prop) :
  ret_sat o P -> (forall s', P s' -> Q s') -> ret_sat o Q.
Proof. unfold ret_sat; destruct o; auto. Qed.

Lemma rest_to_tail D di s' :
  notc && (a =? 0) = false -> (dl <=? di) = false -> 0 <= di -> zlen D = dl + dsp ->
  di + (1 + zlen (extl (n - a))) <= dl ->
  rest_post (img D di (16 * nib (n - a) :: extl (n - a))) (di + zlen (extl (n - a))) s' ->
  tail_post src D dl a di notc s'.
Proof.
  intros E1 E2 Hdi HD Hle. unfold rest_post, tail_post. fold n. cbv zeta. rewrite E1, E2.
  pose proof (zlen_nonneg (extl (n - a))) as He.
  replace (dl <? di + (1 + zlen (extl (n - a)))) with false by (symmetry; apply Z.ltb_ge; lia).
  replace (di + zlen (extl (n - a)) + 1) with (di + (1 + zlen (extl (n - a)))) by lia.
  destruct (notc && (a <=? di + (1 + zlen (extl (n - a))))); [auto|].
  destruct (dl <? di + (1 + zlen (extl (n - a))) + (n - a)) eqn:E3; [auto|]. apply Z.ltb_ge in E3.
  intros (H0 & H1 & H2). split; [assumption|]. split; [assumption|]. rewrite H2.
  unfold n. rewrite zsub_src by (fold n; lia). fold n.
  assert (Hl : zlen (zdrop a src) = n - a) by (rewrite zlen_zdrop by (fold n; lia); reflexivity).
  replace (di + (1 + zlen (extl (n - a)))) with (di + zlen (16 * nib (n - a) :: extl (n - a)))
    by (change (zlen (?x :: ?l)) with (Z.of_nat (S (length l))); unfold zlen; lia).
  rewrite img_splice.
  - unfold img, enc_last. change (len (zdrop a src)) with (zlen (zdrop a src)). rewrite Hl.
    rewrite zlen_app, Hl. cbn [app]. rewrite <- !app_assoc. rewrite Z.add_assoc. reflexivity.
  - assumption.
  - rewrite Hl, HD. change (zlen (?x :: ?l)) with (Z.of_nat (S (length l))). unfold zlen in *. lia.
Qed.

Lemma tail_exec fuel s D di :
  frame src ssp dl dsp s -> m_dst s = D -> zlen D = dl + dsp ->
  f_anchor s = a -> f_di s = di -> f_notc s = notc -> 0 <= di ->
  (Z.to_nat dl < fuel)%nat ->
  ret_sat (tailL fuel s) (tail_post src D dl a di notc).
Proof.
  intros (Hs1 & Hs2 & Hs3) Hm HD Hfa Hfd Hfn Hdi Hfuel.
  pose proof (zlen_nonneg src) as Hn0. fold n in Hn0.
  change (2 ^ 61) with 2305843009213693952 in Hsmall.
  unfold tailL.
  match goal with |- context [GoT.seq (ite (fun s => _ <? 15) _ _) ?R] => set (Rest := R) end.
  assert (HR : forall s1 M d1, frame src ssp dl dsp s1 -> m_dst s1 = M -> zlen M = dl + dsp ->
             f_anchor s1 = a -> f_di s1 = d1 -> f_notc s1 = notc -> 0 <= d1 < dl ->
             ret_sat (Rest s1) (rest_post M d1)).
  { clear s Hs1 Hs2 Hs3 Hm Hfa Hfd Hfn. intros s M d1 (Hs1 & Hs2 & Hs3) Hm HM Hfa Hfd Hfn Hd1.
    subst Rest. unfold ret_sat, rest_post.
    lz4block_steps. rewrite Hfd.
    rewrite seq_ite; lz4block_state_simpl. rewrite Hfn, Hfa. rewrite (wi64_id (d1 + 1)) by lia.
    destruct (notc && (a <=? d1 + 1)) eqn:E1.
    { rewrite seq_ret_with. lz4block_state_simpl. split; reflexivity. }
    lz4block_steps.
    rewrite seq_ite; lz4block_state_simpl. rewrite Hs3, Hs1, Hfa. cbn [s_len]. fold n.
    rewrite (wi64_id (d1 + 1 + n)) by lia. rewrite (wi64_id (d1 + 1 + n - a)) by lia.
    replace (d1 + 1 + n - a) with (d1 + 1 + (n - a)) by lia.
    destruct (dl <? d1 + 1 + (n - a)) eqn:E2.
    { rewrite seq_ret_with. lz4block_state_simpl. split; reflexivity. }
    apply Z.ltb_ge in E2.
    lz4block_steps.
    rewrite seq_guard; lz4block_state_simpl. rewrite Hs3, Hs1, Hfa. cbn [s_len s_cap]. fold n.
    rewrite (wi64_id (d1 + 1 + n)) by lia. rewrite (wi64_id (d1 + 1 + n - a)) by lia.
    replace (sl_slice_ok _ _ _ _ && sl_slice_ok _ _ _ _) with true
      by (unfold sl_slice_ok; cbn [s_cap]; pose proof (zlen_nonneg ssp); btrue).
    lz4block_steps. rewrite Hs3, Hs1, Hfa. cbn [s_len s_cap]. fold n.
    rewrite (wi64_id (d1 + 1 + n)) by lia. rewrite (wi64_id (d1 + 1 + n - a)) by lia.
    unfold scopy, sl_copy, sl_copy_n, sl_slice; cbn [s_loc s_off s_len]; lz4block_state_simpl.
    rewrite Hm, Hs2.
    replace (d1 + 1 + n - a - (d1 + 1)) with (n - a) by lia. rewrite Z.min_id, !Z.add_0_l.
    split; [apply wi64_id; lia|split; reflexivity]. }
  clearbody Rest.
  rewrite seq_ite; lz4block_state_simpl. rewrite Hfn, Hfa.
  destruct (notc && (a =? 0)) eqn:E1.
  { rewrite seq_ret_with. unfold ret_sat, tail_post. rewrite E1. lz4block_state_simpl. split; reflexivity. }
  lz4block_steps.
  rewrite seq_ite; lz4block_state_simpl. rewrite Hs3, Hfd. cbn [s_len].
  destruct (dl <=? di) eqn:E2.
  { rewrite seq_ret_with. unfold ret_sat, tail_post. rewrite E1, E2. lz4block_state_simpl. split; reflexivity. }
  pose proof E2 as E2'. apply Z.leb_gt in E2'.
  lz4block_steps. rewrite Hs1, Hfa. cbn [s_len]. fold n. rewrite (wi64_id (n - a)) by lia.
  rewrite seq_ite; lz4block_state_simpl.
  destruct (n - a <? 15) eqn:E3.
  - (* lLen < 15: one token byte *)
    apply Z.ltb_lt in E3.
    rewrite seq_guard; lz4block_state_simpl. rewrite Hs3, Hfd.
    replace (sl_idx_ok _ di) with true by (unfold sl_idx_ok; cbn [s_len]; btrue).
    rewrite seq_upd. lz4block_state_simpl. rewrite Hs3, Hfd.
    assert (Hx : extl (n - a) = []) by (unfold extl; replace (n - a <? 15) with true by btrue; reflexivity).
    eapply ret_sat_weaken.
    + apply (HR _ (img D di (16 * nib (n - a) :: extl (n - a))) di).
      * unfold frame, sset, sl_set; lz4block_state_simpl; cbn [s_loc s_off]; lz4block_state_simpl. auto.
      * unfold sset, sl_set; lz4block_state_simpl; cbn [s_loc s_off]; lz4block_state_simpl.
        rewrite Hm, Hx, Z.add_0_l.
        pose proof (img_upd D di [] (16 * nib (n - a))) as P. change (zlen []) with 0 in P.
        rewrite Z.add_0_r, img_nil in P. cbn [app] in P. rewrite <- P by lia. f_equal.
        unfold nib. replace (n - a <? 15) with true by btrue.
        rewrite Z.shiftl_mul_pow2 by lia. change (2 ^ 4) with 16.
        rewrite wi64_id by lia. rewrite wu8_id by lia. lia.
      * rewrite img_len; [assumption|assumption|]. rewrite Hx. change (zlen [_]) with 1. lia.
      * unfold sset, sl_set; lz4block_state_simpl; cbn [s_loc s_off]; lz4block_state_simpl. assumption.
      * unfold sset, sl_set; lz4block_state_simpl; cbn [s_loc s_off]; lz4block_state_simpl. assumption.
      * unfold sset, sl_set; lz4block_state_simpl; cbn [s_loc s_off]; lz4block_state_simpl. assumption.
      * lia.
    + intros s' Hp. apply rest_to_tail; try assumption.
      * rewrite Hx. change (zlen []) with 0. lia.
      * rewrite Hx in *. change (zlen []) with 0. rewrite Z.add_0_r. exact Hp.
  - (* lLen >= 15: token 0xF0, the 255-bytes, the last length byte *)
    apply Z.ltb_ge in E3.
    rewrite !seq_assoc.
    rewrite seq_guard; lz4block_state_simpl. rewrite Hs3, Hfd.
    replace (sl_idx_ok _ di) with true by (unfold sl_idx_ok; cbn [s_len]; btrue).
    stp.
    match goal with |- ret_sat (_ ?S) _ => set (s2 := S) end.
    assert (F2 : frame src ssp dl dsp s2)
      by (subst s2; unfold frame, sset, sl_set; lz4block_state_simpl; rewrite ?Hs3; cbn [s_loc s_off]; lz4block_state_simpl; auto).
    assert (A2 : f_anchor s2 = a)
      by (subst s2; unfold sset, sl_set; lz4block_state_simpl; rewrite ?Hs3; cbn [s_loc s_off]; lz4block_state_simpl; auto).
    assert (N2 : f_notc s2 = notc)
      by (subst s2; unfold sset, sl_set; lz4block_state_simpl; rewrite ?Hs3; cbn [s_loc s_off]; lz4block_state_simpl; auto).
    assert (D2 : f_di s2 = di + 1).
    { subst s2; unfold sset, sl_set; lz4block_state_simpl; rewrite ?Hs3; cbn [s_loc s_off]; lz4block_state_simpl.
      rewrite Hfd. apply wi64_id. lia. }
    assert (L2 : Compressor_CompressBlock_lLen_1 s2 = n - a - 15).
    { subst s2; unfold sset, sl_set; lz4block_state_simpl; rewrite ?Hs3; cbn [s_loc s_off]; lz4block_state_simpl.
      apply wi64_id. lia. }
    assert (M2 : m_dst s2 = img D di [240]).
    { subst s2; unfold sset, sl_set; lz4block_state_simpl; rewrite ?Hs3; cbn [s_loc s_off]; lz4block_state_simpl.
      rewrite Hm, Hfd, Z.add_0_l.
      pose proof (img_upd D di [] 240) as P. change (zlen []) with 0 in P.
      rewrite Z.add_0_r, img_nil in P. cbn [app] in P. apply P; lia. }
    clearbody s2.
    pose (Inv := fun t : state =>
      frame src ssp dl dsp t /\ f_anchor t = a /\ f_notc t = notc /\
      exists k, 0 <= k /\ Compressor_CompressBlock_lLen_1 t = n - a - 15 - 255 * k /\
                0 <= Compressor_CompressBlock_lLen_1 t /\
                f_di t = di + 1 + k /\ di + 1 + k <= dl /\
                m_dst t = img D di (240 :: repeat 255 (Z.to_nat k))).
    pose (mu := fun t : state => Z.to_nat (dl - f_di t)).
    match goal with |- context [loop fuel ?c ?b ?p] =>
      assert (LI : loop fuel c b p s2 <> Hang /\
                   ((exists s', loop fuel c b p s2 = Fall s' /\ Inv s' /\ c s' = false) \/ False));
      [apply (loop_inv_total Inv (fun _ => False) mu c b p) | ] end.
    { (* one iteration *)
      intros t (Ft & At & Nt & k & Hk & HLt & HL0 & Dt & Dle & Mt) Hc.
      destruct Ft as (T1 & T2 & T3).
      cbv beta in Hc. rewrite T3, Dt, HLt in Hc. cbn [s_len] in Hc.
      apply andb_true_iff in Hc. destruct Hc as [Hc1 Hc2]. apply Z.leb_le in Hc1. apply Z.ltb_lt in Hc2.
      rewrite seq_guard; lz4block_state_simpl. rewrite T3, Dt.
      replace (sl_idx_ok _ _) with true by (unfold sl_idx_ok; cbn [s_len]; btrue).
      rewrite seq_upd, upd_eq. rewrite upd_eq.
      unfold sset, sl_set; lz4block_state_simpl. rewrite T3. cbn [s_loc s_off]. lz4block_state_simpl.
      rewrite Dt, HLt, Mt, Z.add_0_l.
      split.
      - unfold Inv, frame. lz4block_state_simpl. rewrite T1, T2, T3, At, Nt.
        split; [repeat split; reflexivity|]. split; [reflexivity|]. split; [reflexivity|]. exists (k + 1).
        rewrite (wi64_id (di + 1 + k + 1)) by lia. rewrite (wi64_id (n - a - 15 - 255 * k - 255)) by lia.
        repeat (split; [lia|]).
        replace (di + 1 + k) with (di + zlen (240 :: repeat 255 (Z.to_nat k)))
          by (change (zlen (?x :: ?l)) with (Z.of_nat (S (length l))); rewrite repeat_length; lia).
        rewrite img_upd.
        + f_equal. rewrite Z2Nat.inj_add by lia. change (Z.to_nat 1) with 1%nat.
          rewrite Nat.add_1_r. cbn [app]. f_equal. symmetry. apply repeat_cons.
        + lia.
        + change (zlen (?x :: ?l)) with (Z.of_nat (S (length l))). rewrite repeat_length. lia.
      - unfold mu. lz4block_state_simpl. rewrite Dt. rewrite (wi64_id (di + 1 + k + 1)) by lia. lia. }
    { (* the invariant holds initially *)
      unfold Inv. repeat (split; [assumption|]). exists 0. change (Z.to_nat 0) with 0%nat. cbn [repeat].
      rewrite L2, D2, M2. repeat split; try lia. }
    { unfold mu. rewrite D2. lia. }
    destruct LI as [_ [(t & Hloop & Hinv & Hcond) | []]].
    rewrite (seq_Fall _ _ _ _ Hloop).
    destruct Hinv as ((T1 & T2 & T3) & At & Nt & k & Hk & HLt & HL0 & Dt & Dle & Mt).
    cbv beta in Hcond. rewrite T3, Dt, HLt in Hcond. cbn [s_len] in Hcond.
    set (v := n - a - 15) in *.
    assert (Hxl : zlen (extl (n - a)) = v / 255 + 1).
    { unfold extl. replace (n - a <? 15) with false by (symmetry; apply Z.ltb_ge; lia).
      apply (len_ext v). lia. }
    assert (Hkq : k <= v / 255) by (apply Z.div_le_lower_bound; lia).
    rewrite ?seq_assoc. rewrite seq_ite; lz4block_state_simpl. rewrite T3, Dt. cbn [s_len].
    destruct (dl <=? di + 1 + k) eqn:E4.
    { apply Z.leb_le in E4. rewrite seq_ret_with. unfold ret_sat, tail_post. cbv zeta. fold n. rewrite E1, E2, Hxl.
      replace (dl <? di + (1 + (v / 255 + 1))) with true by btrue.
      lz4block_state_simpl. split; reflexivity. }
    apply Z.leb_gt in E4.
    replace (di + 1 + k <? dl) with true in Hcond by btrue. rewrite andb_true_r in Hcond.
    apply Z.leb_gt in Hcond.
    assert (Hq : v / 255 = k) by (symmetry; apply (Z.div_unique v 255 k (v - 255 * k)); lia).
    assert (Hr : v mod 255 = v - 255 * k) by (symmetry; apply (Z.mod_unique v 255 k (v - 255 * k)); lia).
    assert (Hx : 16 * nib (n - a) :: extl (n - a) = (240 :: repeat 255 (Z.to_nat k)) ++ [v - 255 * k]).
    { unfold nib, extl, ext. replace (n - a <? 15) with false by (symmetry; apply Z.ltb_ge; lia).
      fold v. rewrite Hq, Hr. reflexivity. }
    stp.
    rewrite seq_guard; lz4block_state_simpl. rewrite T3, Dt.
    replace (sl_idx_ok _ _) with true by (unfold sl_idx_ok; cbn [s_len]; btrue).
    rewrite seq_upd. lz4block_state_simpl. rewrite T3, Dt, HLt.
    assert (Hzl : zlen (240 :: repeat 255 (Z.to_nat k)) = 1 + k)
      by (change (zlen (?x :: ?l)) with (Z.of_nat (S (length l))); rewrite repeat_length; lia).
    eapply ret_sat_weaken.
    + apply (HR _ (img D di (16 * nib (n - a) :: extl (n - a))) (di + 1 + k)).
      * unfold frame, sset, sl_set; lz4block_state_simpl; cbn [s_loc s_off]; lz4block_state_simpl. auto.
      * unfold sset, sl_set; lz4block_state_simpl; cbn [s_loc s_off]; lz4block_state_simpl.
        rewrite Mt, Hx, Z.add_0_l. rewrite wu8_id by lia.
        replace (di + 1 + k) with (di + zlen (240 :: repeat 255 (Z.to_nat k))) by lia.
        apply img_upd; lia.
      * rewrite img_len; [assumption|assumption|]. rewrite Hx, zlen_app, Hzl. change (zlen [_]) with 1. lia.
      * unfold sset, sl_set; lz4block_state_simpl; cbn [s_loc s_off]; lz4block_state_simpl. assumption.
      * unfold sset, sl_set; lz4block_state_simpl; cbn [s_loc s_off]; lz4block_state_simpl. assumption.
      * unfold sset, sl_set; lz4block_state_simpl; cbn [s_loc s_off]; lz4block_state_simpl. assumption.
      * lia.
    + intros s' Hp. apply rest_to_tail; try assumption.
      * rewrite Hxl, Hq. lia.
      * rewrite Hxl, Hq. replace (di + (k + 1)) with (di + 1 + k) by lia. exact Hp.
Qed.

End Tail.

(* ------------------------------------------------------------------------------------------ *)
(* 2. Emission of one sequence                                                                *)
(* ------------------------------------------------------------------------------------------ *)
(* The statements of the loop body from `if di >= len(dst)` (block.go:196) to the end of "Encode match
   length part 2" (block.go:248), followed by a continuation K.  COPIED from GenCompressBody.v (a middle
   segment of a right-nested sequence is not a subterm of the generated function). *)
Definition emit (fuel : nat) (K : stmt) : stmt :=
    ite (fun s => ((s_len (Compressor_CompressBlock_dst s)) <=? (Compressor_CompressBlock_di s))) (
      ret_with (fun s => set_Compressor_CompressBlock_ret0 0 (set_Compressor_CompressBlock_ret1 1 s))) skip ;;
    ite (fun s => ((Compressor_CompressBlock_mLen s) <? 15)) (
      guard (fun s => sl_idx_ok (Compressor_CompressBlock_dst s) (Compressor_CompressBlock_di s)) (
      upd (fun s => (sset (Compressor_CompressBlock_dst s) (Compressor_CompressBlock_di s) (wu8 (Compressor_CompressBlock_mLen s)) s)))) (
      guard (fun s => sl_idx_ok (Compressor_CompressBlock_dst s) (Compressor_CompressBlock_di s)) (
      upd (fun s => (sset (Compressor_CompressBlock_dst s) (Compressor_CompressBlock_di s) 15 s)))) ;;
    ite (fun s => ((Compressor_CompressBlock_lLen s) <? 15)) (
      guard (fun s => sl_idx_ok (Compressor_CompressBlock_dst s) (Compressor_CompressBlock_di s)) (
      upd (fun s => (sset (Compressor_CompressBlock_dst s) (Compressor_CompressBlock_di s) (Z.lor (sget (Compressor_CompressBlock_dst s) (Compressor_CompressBlock_di s) s) (wu8 (wi64 (Z.shiftl (Compressor_CompressBlock_lLen s) 4)))) s)))) (
      guard (fun s => sl_idx_ok (Compressor_CompressBlock_dst s) (Compressor_CompressBlock_di s)) (
      upd (fun s => (sset (Compressor_CompressBlock_dst s) (Compressor_CompressBlock_di s) (Z.lor (sget (Compressor_CompressBlock_dst s) (Compressor_CompressBlock_di s) s) 240) s))) ;;
      upd (fun s => (set_Compressor_CompressBlock_di (wi64 ((Compressor_CompressBlock_di s) + 1)) s)) ;;
      upd (fun s => (set_Compressor_CompressBlock_l (wi64 ((Compressor_CompressBlock_lLen s) - 15)) s)) ;;
      loop fuel (fun s => ((255 <=? (Compressor_CompressBlock_l s)) && ((Compressor_CompressBlock_di s) <? (s_len (Compressor_CompressBlock_dst s))))) (
        guard (fun s => sl_idx_ok (Compressor_CompressBlock_dst s) (Compressor_CompressBlock_di s)) (
        upd (fun s => (sset (Compressor_CompressBlock_dst s) (Compressor_CompressBlock_di s) 255 s))) ;;
        upd (fun s => (set_Compressor_CompressBlock_di (wi64 ((Compressor_CompressBlock_di s) + 1)) s))) (
        upd (fun s => (set_Compressor_CompressBlock_l (wi64 ((Compressor_CompressBlock_l s) - 255)) s))) ;;
      ite (fun s => ((s_len (Compressor_CompressBlock_dst s)) <=? (Compressor_CompressBlock_di s))) (
        ret_with (fun s => set_Compressor_CompressBlock_ret0 0 (set_Compressor_CompressBlock_ret1 1 s))) skip ;;
      guard (fun s => sl_idx_ok (Compressor_CompressBlock_dst s) (Compressor_CompressBlock_di s)) (
      upd (fun s => (sset (Compressor_CompressBlock_dst s) (Compressor_CompressBlock_di s) (wu8 (Compressor_CompressBlock_l s)) s)))) ;;
    upd (fun s => (set_Compressor_CompressBlock_di (wi64 ((Compressor_CompressBlock_di s) + 1)) s)) ;;
    ite (fun s => ((s_len (Compressor_CompressBlock_dst s)) <? (wi64 ((Compressor_CompressBlock_di s) + (Compressor_CompressBlock_lLen s))))) (
      ret_with (fun s => set_Compressor_CompressBlock_ret0 0 (set_Compressor_CompressBlock_ret1 1 s))) skip ;;
    guard (fun s => (sl_slice_ok (Compressor_CompressBlock_dst s) (Compressor_CompressBlock_di s) (wi64 ((Compressor_CompressBlock_di s) + (Compressor_CompressBlock_lLen s))) (s_cap (Compressor_CompressBlock_dst s)) && sl_slice_ok (Compressor_CompressBlock_src s) (Compressor_CompressBlock_anchor s) (wi64 ((Compressor_CompressBlock_anchor s) + (Compressor_CompressBlock_lLen s))) (s_cap (Compressor_CompressBlock_src s)))) (
    upd (fun s => (scopy (sl_slice (Compressor_CompressBlock_dst s) (Compressor_CompressBlock_di s) (wi64 ((Compressor_CompressBlock_di s) + (Compressor_CompressBlock_lLen s))) (s_cap (Compressor_CompressBlock_dst s))) (sl_slice (Compressor_CompressBlock_src s) (Compressor_CompressBlock_anchor s) (wi64 ((Compressor_CompressBlock_anchor s) + (Compressor_CompressBlock_lLen s))) (s_cap (Compressor_CompressBlock_src s))) s))) ;;
    upd (fun s => (set_Compressor_CompressBlock_di (wi64 ((Compressor_CompressBlock_di s) + (wi64 ((Compressor_CompressBlock_lLen s) + 2)))) s)) ;;
    upd (fun s => (set_Compressor_CompressBlock_anchor (Compressor_CompressBlock_si s) s)) ;;
    ite (fun s => ((s_len (Compressor_CompressBlock_dst s)) <? (Compressor_CompressBlock_di s))) (
      ret_with (fun s => set_Compressor_CompressBlock_ret0 0 (set_Compressor_CompressBlock_ret1 1 s))) skip ;;
    guard (fun s => sl_idx_ok (Compressor_CompressBlock_dst s) (wi64 ((Compressor_CompressBlock_di s) - 2))) (
    guard_part (fun s => sl_idx_ok (Compressor_CompressBlock_dst s) (wi64 ((Compressor_CompressBlock_di s) - 1))) (fun s =>
      let t0 := (wu8 (Compressor_CompressBlock_offset s)) in
      let t1 := (wu8 (Z.shiftr (Compressor_CompressBlock_offset s) 8)) in
      let s1 := (sset (Compressor_CompressBlock_dst s) (wi64 ((Compressor_CompressBlock_di s) - 2)) t0 s) in
      s1) (
    upd (fun s =>
      let t0 := (wu8 (Compressor_CompressBlock_offset s)) in
      let t1 := (wu8 (Z.shiftr (Compressor_CompressBlock_offset s) 8)) in
      let s1 := (sset (Compressor_CompressBlock_dst s) (wi64 ((Compressor_CompressBlock_di s) - 2)) t0 s) in
      let s2 := (sset (Compressor_CompressBlock_dst s) (wi64 ((Compressor_CompressBlock_di s) - 1)) t1 s1) in
      s2))) ;;
    ite (fun s => (15 <=? (Compressor_CompressBlock_mLen s))) (
      upd (fun s => (set_Compressor_CompressBlock_mLen (wi64 ((Compressor_CompressBlock_mLen s) - 15)) s)) ;;
      loop fuel (fun s => ((255 <=? (Compressor_CompressBlock_mLen s)) && ((Compressor_CompressBlock_di s) <? (s_len (Compressor_CompressBlock_dst s))))) (
        guard (fun s => sl_idx_ok (Compressor_CompressBlock_dst s) (Compressor_CompressBlock_di s)) (
        upd (fun s => (sset (Compressor_CompressBlock_dst s) (Compressor_CompressBlock_di s) 255 s))) ;;
        upd (fun s => (set_Compressor_CompressBlock_di (wi64 ((Compressor_CompressBlock_di s) + 1)) s))) (
        upd (fun s => (set_Compressor_CompressBlock_mLen (wi64 ((Compressor_CompressBlock_mLen s) - 255)) s))) ;;
      ite (fun s => ((s_len (Compressor_CompressBlock_dst s)) <=? (Compressor_CompressBlock_di s))) (
        ret_with (fun s => set_Compressor_CompressBlock_ret0 0 (set_Compressor_CompressBlock_ret1 1 s))) skip ;;
      guard (fun s => sl_idx_ok (Compressor_CompressBlock_dst s) (Compressor_CompressBlock_di s)) (
      upd (fun s => (sset (Compressor_CompressBlock_dst s) (Compressor_CompressBlock_di s) (wu8 (Compressor_CompressBlock_mLen s)) s))) ;;
      upd (fun s => (set_Compressor_CompressBlock_di (wi64 ((Compressor_CompressBlock_di s) + 1)) s))) skip ;;
    K.


(* the sequence the code is about to write: literals src[anchor : anchor+lLen], the offset, match
   length mLen + 4 (the variable mLen holds the length minus minMatch at this point) *)
Definition the_seq (src : list Z) (a lLen off mL : Z) : BlockFormat.seq :=
  mkseq (zsub src a lLen) off (mL + 4).

Definition emit_ok (src M : list Z) (a lLen off mL di0 si : Z) (s' : state) : Prop :=
  m_dst s' = img M di0 (enc_seq (the_seq src a lLen off mL)) /\
  f_di s' = di0 + seq_size (the_seq src a lLen off mL) /\
  f_anchor s' = si.

Definition estate (src D : list Z) (dl a lLen off mL di0 si : Z) : state :=
  set_Compressor_CompressBlock_lLen lLen (set_Compressor_CompressBlock_mLen mL
   (set_Compressor_CompressBlock_offset off (set_Compressor_CompressBlock_si si
   (set_Compressor_CompressBlock_anchor a
     (set_Compressor_CompressBlock_di di0
       (init_lz4block_Compressor_CompressBlock_fresh src [] (ztake dl D) (zdrop dl D) zero_state)))))).
Definition emit_test (nsrc nD : nat) (dl a lLen off mL di0 si : Z) : Prop :=
  ret_sat (emit 1000 ret (estate (junkb nsrc) (junkb nD) dl a lLen off mL di0 si))
    (fun s' => if dl <? di0 + seq_size (the_seq (junkb nsrc) a lLen off mL)
               then f_ret0 s' = 0 /\ f_ret1 s' = 1
               else f_ret1 s' = 0 /\ emit_ok (junkb nsrc) (junkb nD) a lLen off mL di0 si s').
Example emit_t1 : emit_test 60 80 70 3 5 7 2 4 20. Proof. vm_compute. repeat split. Qed.
Example emit_t2 : emit_test 60 80 70 3 20 300 30 4 50. Proof. vm_compute. repeat split. Qed.
Example emit_t3 : emit_test 400 700 650 10 300 65535 600 9 350
  /\ emit_test 400 700 650 10 15 65535 15 9 350 /\ emit_test 400 700 650 10 14 256 14 9 350
  /\ emit_test 400 700 650 10 0 1 0 9 350 /\ emit_test 400 700 650 10 270 1 270 9 350
  /\ emit_test 400 700 650 10 269 1 269 9 350.
Proof. vm_compute. repeat split. Qed.
(* every destination length around the size of the sequence (1+2+300+2+3 = 308 from di0 = 9) *)
Example emit_t4 : emit_test 400 700 9 10 300 513 600 9 350 /\ emit_test 400 700 10 10 300 513 600 9 350
  /\ emit_test 400 700 11 10 300 513 600 9 350 /\ emit_test 400 700 12 10 300 513 600 9 350
  /\ emit_test 400 700 311 10 300 513 600 9 350 /\ emit_test 400 700 312 10 300 513 600 9 350
  /\ emit_test 400 700 313 10 300 513 600 9 350 /\ emit_test 400 700 314 10 300 513 600 9 350
  /\ emit_test 400 700 315 10 300 513 600 9 350 /\ emit_test 400 700 316 10 300 513 600 9 350
  /\ emit_test 400 700 317 10 300 513 600 9 350 /\ emit_test 400 700 318 10 300 513 600 9 350.
Proof. vm_compute. repeat split. Qed.

(* the projections the emission does not change *)
Definition keeps (s t : state) : Prop :=
  f_si t = f_si s /\ f_sn t = f_sn s /\ f_notc t = f_notc s /\
  mem_Compressor_table t = mem_Compressor_table s /\ mem_Compressor_inUse t = mem_Compressor_inUse s /\
  f_off t = f_off s /\ f_lLen t = f_lLen s.
Lemma keeps_trans s t u : keeps s t -> keeps t u -> keeps s u.
Proof. unfold keeps. intros (a1&a2&a3&a4&a5&a6&a7) (b1&b2&b3&b4&b5&b6&b7). repeat split; congruence. Qed.

Section Emit.
Variables (src ssp : list Z) (dl dsp : Z).
Let n := zlen src.
Hypothesis Hdsp : 0 <= dsp.
Hypothesis Hsmall : n + dl + dsp < 2 ^ 61.
Hypothesis Hdl : 0 <= dl.

(* the two loops that write the 255-bytes of a length (literal length: variable l; match length: mLen) *)

Lemma lenloop_l fuel s D0 d0 H v :
  frame src ssp dl dsp s -> f_di s = d0 + zlen H -> m_dst s = img D0 d0 H -> Compressor_CompressBlock_l s = v ->
  0 <= v < 2 ^ 61 -> 0 <= d0 -> d0 + zlen H <= dl -> zlen D0 = dl + dsp -> (Z.to_nat dl < fuel)%nat ->
  exists t k,
    loop fuel (fun s => ((255 <=? (Compressor_CompressBlock_l s)) && ((Compressor_CompressBlock_di s) <? (s_len (Compressor_CompressBlock_dst s)))))
      (guard (fun s => sl_idx_ok (Compressor_CompressBlock_dst s) (Compressor_CompressBlock_di s)) (
       upd (fun s => (sset (Compressor_CompressBlock_dst s) (Compressor_CompressBlock_di s) 255 s))) ;;
       upd (fun s => (set_Compressor_CompressBlock_di (wi64 ((Compressor_CompressBlock_di s) + 1)) s)))
      (upd (fun s => (set_Compressor_CompressBlock_l (wi64 ((Compressor_CompressBlock_l s) - 255)) s))) s = Fall t /\
    frame src ssp dl dsp t /\ keeps s t /\ f_anchor t = f_anchor s /\ Compressor_CompressBlock_mLen t = Compressor_CompressBlock_mLen s /\
    0 <= k /\ Compressor_CompressBlock_l t = v - 255 * k /\ 0 <= Compressor_CompressBlock_l t /\ f_di t = d0 + zlen H + k /\ d0 + zlen H + k <= dl /\
    m_dst t = img D0 d0 (H ++ repeat 255 (Z.to_nat k)) /\
    ((255 <=? Compressor_CompressBlock_l t) && (f_di t <? dl)) = false.
Proof.
  intros Fs Ds Ms Xs Hv Hd0 Hle HD0 Hfuel. change (2 ^ 61) with 2305843009213693952 in *.
  pose proof (zlen_nonneg H) as HH. pose proof (zlen_nonneg src) as Hn0. fold n in Hn0.
  pose (Inv := fun t : state =>
    frame src ssp dl dsp t /\ keeps s t /\ f_anchor t = f_anchor s /\ Compressor_CompressBlock_mLen t = Compressor_CompressBlock_mLen s /\
    exists k, 0 <= k /\ Compressor_CompressBlock_l t = v - 255 * k /\ 0 <= Compressor_CompressBlock_l t /\
              f_di t = d0 + zlen H + k /\ d0 + zlen H + k <= dl /\
              m_dst t = img D0 d0 (H ++ repeat 255 (Z.to_nat k))).
  pose (mu := fun t : state => Z.to_nat (dl - f_di t)).
  match goal with |- context [loop fuel ?c ?b ?p] =>
    assert (LI : loop fuel c b p s <> Hang /\
                 ((exists s', loop fuel c b p s = Fall s' /\ Inv s' /\ c s' = false) \/ False));
    [apply (loop_inv_total Inv (fun _ => False) mu c b p) | ] end.
  { intros t ((T1 & T2 & T3) & Kt & At & Ot & k & Hk & HLt & HL0 & Dt & Dle & Mt) Hc.
    cbv beta in Hc. rewrite T3, Dt, HLt in Hc. cbn [s_len] in Hc.
    apply andb_true_iff in Hc. destruct Hc as [Hc1 Hc2]. apply Z.leb_le in Hc1. apply Z.ltb_lt in Hc2.
    rewrite seq_guard; lz4block_state_simpl. rewrite T3, Dt.
    replace (sl_idx_ok _ _) with true by (unfold sl_idx_ok; cbn [s_len]; btrue).
    rewrite seq_upd, upd_eq. rewrite upd_eq.
    unfold sset, sl_set; lz4block_state_simpl. rewrite T3. cbn [s_loc s_off]. lz4block_state_simpl.
    rewrite Dt, HLt, Mt, Z.add_0_l.
    split.
    - unfold Inv, frame, keeps. lz4block_state_simpl. rewrite T1, T2, T3, At, Ot.
      split; [repeat split; reflexivity|]. split; [exact Kt|]. split; [reflexivity|]. split; [reflexivity|].
      exists (k + 1).
      rewrite (wi64_id (d0 + zlen H + k + 1)) by lia. rewrite (wi64_id (v - 255 * k - 255)) by lia.
      repeat (split; [lia|]).
      replace (d0 + zlen H + k) with (d0 + zlen (H ++ repeat 255 (Z.to_nat k)))
        by (rewrite zlen_app; unfold zlen at 2; rewrite repeat_length; lia).
      rewrite img_upd.
      + f_equal. rewrite <- app_assoc. f_equal. rewrite Z2Nat.inj_add by lia. change (Z.to_nat 1) with 1%nat.
        rewrite Nat.add_1_r. symmetry. apply repeat_cons.
      + lia.
      + rewrite zlen_app. unfold zlen at 2. rewrite repeat_length. lia.
    - unfold mu. lz4block_state_simpl. rewrite Dt. rewrite (wi64_id (d0 + zlen H + k + 1)) by lia. lia. }
  { unfold Inv. split; [assumption|]. split; [unfold keeps; repeat split; reflexivity|].
    split; [reflexivity|]. split; [reflexivity|].
    exists 0. change (Z.to_nat 0) with 0%nat. cbn [repeat]. rewrite app_nil_r, Z.add_0_r, Z.mul_0_r, Z.sub_0_r.
    repeat split; try assumption; lia. }
  { unfold mu. rewrite Ds. lia. }
  destruct LI as [_ [(t & Hloop & Hinv & Hcond) | []]].
  destruct Hinv as (Ft & Kt & At & Ot & k & Hk & HLt & HL0 & Dt & Dle & Mt).
  exists t, k. repeat (split; [assumption|]).
  cbv beta in Hcond. destruct Ft as (T1 & T2 & T3). rewrite T3 in Hcond. cbn [s_len] in Hcond. exact Hcond.
Qed.

Lemma lenloop_mLen fuel s D0 d0 H v :
  frame src ssp dl dsp s -> f_di s = d0 + zlen H -> m_dst s = img D0 d0 H -> Compressor_CompressBlock_mLen s = v ->
  0 <= v < 2 ^ 61 -> 0 <= d0 -> d0 + zlen H <= dl -> zlen D0 = dl + dsp -> (Z.to_nat dl < fuel)%nat ->
  exists t k,
    loop fuel (fun s => ((255 <=? (Compressor_CompressBlock_mLen s)) && ((Compressor_CompressBlock_di s) <? (s_len (Compressor_CompressBlock_dst s)))))
      (guard (fun s => sl_idx_ok (Compressor_CompressBlock_dst s) (Compressor_CompressBlock_di s)) (
       upd (fun s => (sset (Compressor_CompressBlock_dst s) (Compressor_CompressBlock_di s) 255 s))) ;;
       upd (fun s => (set_Compressor_CompressBlock_di (wi64 ((Compressor_CompressBlock_di s) + 1)) s)))
      (upd (fun s => (set_Compressor_CompressBlock_mLen (wi64 ((Compressor_CompressBlock_mLen s) - 255)) s))) s = Fall t /\
    frame src ssp dl dsp t /\ keeps s t /\ f_anchor t = f_anchor s /\ Compressor_CompressBlock_l t = Compressor_CompressBlock_l s /\
    0 <= k /\ Compressor_CompressBlock_mLen t = v - 255 * k /\ 0 <= Compressor_CompressBlock_mLen t /\ f_di t = d0 + zlen H + k /\ d0 + zlen H + k <= dl /\
    m_dst t = img D0 d0 (H ++ repeat 255 (Z.to_nat k)) /\
    ((255 <=? Compressor_CompressBlock_mLen t) && (f_di t <? dl)) = false.
Proof.
  intros Fs Ds Ms Xs Hv Hd0 Hle HD0 Hfuel. change (2 ^ 61) with 2305843009213693952 in *.
  pose proof (zlen_nonneg H) as HH. pose proof (zlen_nonneg src) as Hn0. fold n in Hn0.
  pose (Inv := fun t : state =>
    frame src ssp dl dsp t /\ keeps s t /\ f_anchor t = f_anchor s /\ Compressor_CompressBlock_l t = Compressor_CompressBlock_l s /\
    exists k, 0 <= k /\ Compressor_CompressBlock_mLen t = v - 255 * k /\ 0 <= Compressor_CompressBlock_mLen t /\
              f_di t = d0 + zlen H + k /\ d0 + zlen H + k <= dl /\
              m_dst t = img D0 d0 (H ++ repeat 255 (Z.to_nat k))).
  pose (mu := fun t : state => Z.to_nat (dl - f_di t)).
  match goal with |- context [loop fuel ?c ?b ?p] =>
    assert (LI : loop fuel c b p s <> Hang /\
                 ((exists s', loop fuel c b p s = Fall s' /\ Inv s' /\ c s' = false) \/ False));
    [apply (loop_inv_total Inv (fun _ => False) mu c b p) | ] end.
  { intros t ((T1 & T2 & T3) & Kt & At & Ot & k & Hk & HLt & HL0 & Dt & Dle & Mt) Hc.
    cbv beta in Hc. rewrite T3, Dt, HLt in Hc. cbn [s_len] in Hc.
    apply andb_true_iff in Hc. destruct Hc as [Hc1 Hc2]. apply Z.leb_le in Hc1. apply Z.ltb_lt in Hc2.
    rewrite seq_guard; lz4block_state_simpl. rewrite T3, Dt.
    replace (sl_idx_ok _ _) with true by (unfold sl_idx_ok; cbn [s_len]; btrue).
    rewrite seq_upd, upd_eq. rewrite upd_eq.
    unfold sset, sl_set; lz4block_state_simpl. rewrite T3. cbn [s_loc s_off]. lz4block_state_simpl.
    rewrite Dt, HLt, Mt, Z.add_0_l.
    split.
    - unfold Inv, frame, keeps. lz4block_state_simpl. rewrite T1, T2, T3, At, Ot.
      split; [repeat split; reflexivity|]. split; [exact Kt|]. split; [reflexivity|]. split; [reflexivity|].
      exists (k + 1).
      rewrite (wi64_id (d0 + zlen H + k + 1)) by lia. rewrite (wi64_id (v - 255 * k - 255)) by lia.
      repeat (split; [lia|]).
      replace (d0 + zlen H + k) with (d0 + zlen (H ++ repeat 255 (Z.to_nat k)))
        by (rewrite zlen_app; unfold zlen at 2; rewrite repeat_length; lia).
      rewrite img_upd.
      + f_equal. rewrite <- app_assoc. f_equal. rewrite Z2Nat.inj_add by lia. change (Z.to_nat 1) with 1%nat.
        rewrite Nat.add_1_r. symmetry. apply repeat_cons.
      + lia.
      + rewrite zlen_app. unfold zlen at 2. rewrite repeat_length. lia.
    - unfold mu. lz4block_state_simpl. rewrite Dt. rewrite (wi64_id (d0 + zlen H + k + 1)) by lia. lia. }
  { unfold Inv. split; [assumption|]. split; [unfold keeps; repeat split; reflexivity|].
    split; [reflexivity|]. split; [reflexivity|].
    exists 0. change (Z.to_nat 0) with 0%nat. cbn [repeat]. rewrite app_nil_r, Z.add_0_r, Z.mul_0_r, Z.sub_0_r.
    repeat split; try assumption; lia. }
  { unfold mu. rewrite Ds. lia. }
  destruct LI as [_ [(t & Hloop & Hinv & Hcond) | []]].
  destruct Hinv as (Ft & Kt & At & Ot & k & Hk & HLt & HL0 & Dt & Dle & Mt).
  exists t, k. repeat (split; [assumption|]).
  cbv beta in Hcond. destruct Ft as (T1 & T2 & T3). rewrite T3 in Hcond. cbn [s_len] in Hcond. exact Hcond.
Qed.

Definition err_exit (o : outcome state) : Prop :=
  exists s', o = Ret s' /\ f_ret0 s' = 0 /\ f_ret1 s' = 1.

Lemma extl_small v : v < 15 -> extl v = [].
Proof. intros. unfold extl. replace (v <? 15) with true by btrue. reflexivity. Qed.
Lemma extl_big v : 15 <= v -> extl v = ext (v - 15) /\ zlen (extl v) = (v - 15) / 255 + 1.
Proof.
  intros. unfold extl. replace (v <? 15) with false by (symmetry; apply Z.ltb_ge; lia).
  split; [reflexivity|]. apply (len_ext (v - 15)). lia.
Qed.

Lemma emit_exec fuel K s M a lL off mL di0 si :
  frame src ssp dl dsp s -> m_dst s = M -> zlen M = dl + dsp ->
  f_di s = di0 -> f_lLen s = lL -> f_mLen s = mL -> f_off s = off -> f_anchor s = a -> f_si s = si ->
  0 <= di0 -> 0 <= lL -> 0 <= mL < 2 ^ 61 -> 0 <= a -> a + lL <= n -> 0 <= off < 65536 ->
  (Z.to_nat dl < fuel)%nat ->
  if dl <? di0 + seq_size (the_seq src a lL off mL)
  then err_exit (emit fuel K s)
  else exists s', emit fuel K s = K s' /\ frame src ssp dl dsp s' /\ keeps s s' /\
                  emit_ok src M a lL off mL di0 si s'.
Proof.
  intros (S1 & S2 & S3) Ms HM Ds LLs MLs Os As Ss Hdi0 HlL HmL Ha HalL Hoff Hfuel.
  pose proof (zlen_nonneg src) as Hn0. fold n in Hn0.
  change (2 ^ 61) with 2305843009213693952 in *.
  unfold emit.
  (* ---- suffix 3: match length, part 2 ---- *)
  match goal with |- context [GoT.seq (ite (fun s => 15 <=? f_mLen s) ?A skip) K] =>
    set (P3 := GoT.seq (ite (fun s => 15 <=? f_mLen s) A skip) K) end.
  assert (H3 : forall s3 E, frame src ssp dl dsp s3 -> keeps s s3 -> f_anchor s3 = si ->
             f_di s3 = di0 + zlen E -> m_dst s3 = img M di0 E -> f_mLen s3 = mL -> di0 + zlen E <= dl ->
             if dl <? di0 + zlen E + zlen (extl mL) then err_exit (P3 s3)
             else exists s', P3 s3 = K s' /\ frame src ssp dl dsp s' /\ keeps s s' /\ f_anchor s' = si /\
                             f_di s' = di0 + zlen E + zlen (extl mL) /\ m_dst s' = img M di0 (E ++ extl mL)).
  { intros s3 E (T1 & T2 & T3) K3 A3 D3 M3 ML3 Hle. pose proof (zlen_nonneg E) as HE.
    subst P3. rewrite seq_ite; lz4block_state_simpl. rewrite ML3.
    destruct (15 <=? mL) eqn:E15.
    - apply Z.leb_le in E15. destruct (extl_big mL E15) as [Hx Hxl].
      stp. rewrite ML3.
      destruct (lenloop_mLen fuel (set_Compressor_CompressBlock_mLen (wi64 (mL - 15)) s3) M di0 E (mL - 15))
        as (t & k & Hloop & (U1 & U2 & U3) & Kt & At & _ & Hk & Xt & Xt0 & Dt & Dle & Mt & Hcond);
        try assumption; try lia.
      { unfold frame; lz4block_state_simpl; auto. }
      { lz4block_state_simpl. apply wi64_id. lia. }
      rewrite (seq_Fall _ _ _ _ Hloop). rewrite ?seq_assoc.
      rewrite seq_ite; lz4block_state_simpl. rewrite U3, Dt. cbn [s_len].
      assert (Hkq : k <= (mL - 15) / 255) by (apply Z.div_le_lower_bound; lia).
      destruct (dl <=? di0 + zlen E + k) eqn:E4.
      + apply Z.leb_le in E4. replace (dl <? di0 + zlen E + zlen (extl mL)) with true by btrue.
        rewrite seq_ret_with. eexists; split; [reflexivity|]. lz4block_state_simpl. split; reflexivity.
      + apply Z.leb_gt in E4.
        replace (f_di t <? dl) with true in Hcond by (rewrite Dt; btrue). rewrite andb_true_r in Hcond.
        apply Z.leb_gt in Hcond.
        destruct (ext_bytes (mL - 15) k Hk) as [Hb Hbl]; [lia|].
        replace (dl <? di0 + zlen E + zlen (extl mL)) with false
          by (symmetry; apply Z.ltb_ge; rewrite Hx; change (len (ext (mL - 15))) with (zlen (ext (mL - 15))); lia).
        stp. rewrite seq_guard; lz4block_state_simpl. rewrite U3, Dt.
        replace (sl_idx_ok _ _) with true by (unfold sl_idx_ok; cbn [s_len]; btrue).
        rewrite seq_upd. rewrite seq_upd.
        eexists; split; [reflexivity|].
        revert Kt At. unfold keeps at 1. lz4block_state_simpl. intros Kt At.
        assert (K3t : keeps s t) by (eapply keeps_trans; [exact K3|exact Kt]).
        unfold frame, keeps, sset, sl_set; lz4block_state_simpl; rewrite ?U3; cbn [s_loc s_off]; lz4block_state_simpl.
        rewrite U1, U2, U3, Dt, Mt, Xt, At, A3, Z.add_0_l.
        split; [repeat split; reflexivity|]. split; [exact K3t|].
        split; [reflexivity|]. split.
        { rewrite wi64_id by lia. rewrite Hx, Hbl. lia. }
        rewrite wu8_id by lia. rewrite Hx, <- Hb.
        replace (di0 + zlen E + k) with (di0 + zlen (E ++ repeat 255 (Z.to_nat k)))
          by (rewrite zlen_app; unfold zlen at 2; rewrite repeat_length; lia).
        rewrite img_upd; [rewrite <- app_assoc; reflexivity|lia|].
        rewrite zlen_app. unfold zlen at 2. rewrite repeat_length. lia.
    - apply Z.leb_gt in E15. rewrite (extl_small mL E15). change (zlen []) with 0. rewrite Z.add_0_r, app_nil_r.
      replace (dl <? di0 + zlen E) with false by (symmetry; apply Z.ltb_ge; lia).
      rewrite seq_skip_l. exists s3. split; [reflexivity|]. split; [exact (conj T1 (conj T2 T3))|].
      repeat (split; [assumption|]). assumption. }
  clearbody P3.
  (* ---- suffix 2: di++, the literals, the offset, then suffix 3 ---- *)
  match goal with |- context [GoT.seq (ite (fun s => f_lLen s <? 15) ?A ?B) ?R] => set (P2 := R) end.
  destruct (zsub_app_l src ssp a lL Ha HlL HalL) as [Hzs Hzl].
  set (lits := zsub src a lL) in *.
  assert (Ho1 : wu8 off = off mod 256) by reflexivity.
  assert (Ho2 : wu8 (Z.shiftr off 8) = off / 256).
  { rewrite Z.shiftr_div_pow2 by lia. change (2 ^ 8) with 256. apply wu8_id.
    split; [apply Z.div_pos; lia|apply Z.div_lt_upper_bound; lia]. }
  assert (H2 : forall s2 Hd, frame src ssp dl dsp s2 -> keeps s s2 -> f_anchor s2 = a -> f_mLen s2 = mL ->
             f_di s2 = di0 + zlen Hd - 1 -> m_dst s2 = img M di0 Hd -> 1 <= zlen Hd -> di0 + zlen Hd <= dl ->
             if dl <? di0 + zlen Hd + (lL + 2) + zlen (extl mL) then err_exit (P2 s2)
             else exists s', P2 s2 = K s' /\ frame src ssp dl dsp s' /\ keeps s s' /\ f_anchor s' = si /\
                    f_di s' = di0 + zlen Hd + (lL + 2) + zlen (extl mL) /\
                    m_dst s' = img M di0 ((Hd ++ lits ++ [off mod 256; off / 256]) ++ extl mL)).
  { intros s2 Hd (T1 & T2 & T3) K2 A2 ML2 D2 M2 Hd1 Hdle.
    pose proof (zlen_nonneg (extl mL)) as Hxe.
    pose proof K2 as (k1 & k2 & k3 & k4 & k5 & k6 & k7). rewrite Ss in k1. rewrite Os in k6. rewrite LLs in k7.
    subst P2. stp. rewrite D2. replace (di0 + zlen Hd - 1 + 1) with (di0 + zlen Hd) by lia.
    rewrite (wi64_id (di0 + zlen Hd)) by lia.
    rewrite seq_ite; lz4block_state_simpl. rewrite T3, k7. cbn [s_len]. rewrite (wi64_id (di0 + zlen Hd + lL)) by lia.
    destruct (dl <? di0 + zlen Hd + lL) eqn:E5.
    { apply Z.ltb_lt in E5. replace (dl <? di0 + zlen Hd + (lL + 2) + zlen (extl mL)) with true by btrue.
      rewrite seq_ret_with. eexists; split; [reflexivity|]. lz4block_state_simpl. split; reflexivity. }
    apply Z.ltb_ge in E5.
    stp. rewrite seq_guard; lz4block_state_simpl. rewrite T3, T1, k7, A2. cbn [s_len s_cap].
    rewrite (wi64_id (di0 + zlen Hd + lL)) by lia. rewrite (wi64_id (a + lL)) by lia.
    replace (sl_slice_ok _ _ _ _ && sl_slice_ok _ _ _ _) with true
      by (unfold sl_slice_ok; cbn [s_cap]; pose proof (zlen_nonneg ssp); fold n; btrue).
    stp.
    match goal with |- context [GoT.seq _ _ ?S] => set (s4 := S) end.
    assert (F4 : frame src ssp dl dsp s4 /\ keeps s s4 /\ f_anchor s4 = si /\ f_mLen s4 = mL /\
                 f_di s4 = di0 + zlen Hd + lL + 2 /\ m_dst s4 = img M di0 (Hd ++ lits)).
    { subst s4. unfold frame, keeps, scopy, sl_copy, sl_copy_n, sl_slice; lz4block_state_simpl.
      rewrite ?T3, ?T1; cbn [s_loc s_off s_len]; lz4block_state_simpl.
      rewrite T1, T2, T3, k1, k2, k3, k4, k5, k6, k7, A2, ML2, M2.
      rewrite (wi64_id (di0 + zlen Hd + lL)) by lia. rewrite (wi64_id (a + lL)) by lia.
      rewrite (wi64_id (lL + 2)) by lia. rewrite (wi64_id (di0 + zlen Hd + (lL + 2))) by lia.
      split; [repeat split; reflexivity|]. split; [rewrite Ss, Os, LLs; repeat split; reflexivity|].
      split; [reflexivity|]. split; [reflexivity|]. split; [lia|].
      replace (di0 + zlen Hd + lL - (di0 + zlen Hd)) with lL by lia.
      replace (a + lL - a) with lL by lia. rewrite Z.min_id, !Z.add_0_l. rewrite Hzs.
      apply img_splice; [assumption|]. rewrite Hzl. lia. }
    clearbody s4. destruct F4 as ((U1 & U2 & U3) & K4 & A4 & ML4 & D4 & M4).
    pose proof K4 as (q1 & q2 & q3 & q4 & q5 & q6 & q7). rewrite Os in q6.
    rewrite seq_ite; lz4block_state_simpl. rewrite U3, D4. cbn [s_len].
    destruct (dl <? di0 + zlen Hd + lL + 2) eqn:E6.
    { apply Z.ltb_lt in E6. replace (dl <? di0 + zlen Hd + (lL + 2) + zlen (extl mL)) with true by btrue.
      rewrite seq_ret_with. eexists; split; [reflexivity|]. lz4block_state_simpl. split; reflexivity. }
    apply Z.ltb_ge in E6.
    stp. rewrite seq_guard; lz4block_state_simpl. rewrite U3, D4.
    rewrite (wi64_id (di0 + zlen Hd + lL + 2 - 2)) by lia.
    replace (sl_idx_ok _ _) with true by (unfold sl_idx_ok; cbn [s_len]; btrue).
    rewrite seq_guard_part; lz4block_state_simpl. rewrite U3, D4.
    rewrite (wi64_id (di0 + zlen Hd + lL + 2 - 1)) by lia.
    replace (sl_idx_ok _ _) with true by (unfold sl_idx_ok; cbn [s_len]; btrue).
    rewrite seq_upd. lz4block_state_simpl. rewrite U3, D4, q6.
    rewrite (wi64_id (di0 + zlen Hd + lL + 2 - 2)) by lia.
    rewrite (wi64_id (di0 + zlen Hd + lL + 2 - 1)) by lia. rewrite Ho1, Ho2.
    set (E := ((Hd ++ lits) ++ [off mod 256]) ++ [off / 256]).
    assert (HzE : zlen E = zlen Hd + lL + 2)
      by (unfold E; rewrite !zlen_app, Hzl; change (zlen [_]) with 1; lia).
    match goal with |- context [P3 ?S] => pose proof (H3 S E) as R end.
    rewrite HzE in R.
    replace (di0 + (zlen Hd + lL + 2)) with (di0 + zlen Hd + (lL + 2)) in R by lia.
    replace ((Hd ++ lits ++ [off mod 256; off / 256]) ++ extl mL) with (E ++ extl mL)
      by (unfold E; rewrite <- !app_assoc; reflexivity).
    apply R; clear R.
    - unfold frame, sset, sl_set; lz4block_state_simpl; cbn [s_loc s_off]; lz4block_state_simpl. auto.
    - unfold keeps, sset, sl_set; lz4block_state_simpl; cbn [s_loc s_off]; lz4block_state_simpl. exact K4.
    - unfold sset, sl_set; lz4block_state_simpl; cbn [s_loc s_off]; lz4block_state_simpl. exact A4.
    - unfold sset, sl_set; lz4block_state_simpl; cbn [s_loc s_off]; lz4block_state_simpl. rewrite D4. lia.
    - unfold sset, sl_set; lz4block_state_simpl; cbn [s_loc s_off]; lz4block_state_simpl.
      rewrite M4, !Z.add_0_l. unfold E.
      replace (di0 + zlen Hd + lL + 2 - 2) with (di0 + zlen (Hd ++ lits)) by (rewrite zlen_app, Hzl; lia).
      rewrite img_upd by (rewrite ?zlen_app, ?Hzl; lia).
      replace (di0 + zlen Hd + lL + 2 - 1) with (di0 + zlen ((Hd ++ lits) ++ [off mod 256]))
        by (rewrite !zlen_app, Hzl; change (zlen [_]) with 1; lia).
      rewrite img_upd by (rewrite ?zlen_app, ?Hzl; change (zlen [_]) with 1; lia). reflexivity.
    - unfold sset, sl_set; lz4block_state_simpl; cbn [s_loc s_off]; lz4block_state_simpl. exact ML4.
    - lia. }
  clearbody P2.
  (* ---- suffix 1: the literal-length half of the token and its extension bytes, then suffix 2 ---- *)
  match goal with |- context [GoT.seq (ite (fun s => f_lLen s <? 15) ?A ?B) P2] =>
    set (P1 := GoT.seq (ite (fun s => f_lLen s <? 15) A B) P2) end.
  set (T := 16 * nib lL + nib mL).
  assert (Hnm : 0 <= nib mL < 16) by (unfold nib; destruct (mL <? 15) eqn:Q; [apply Z.ltb_lt in Q|]; lia).
  assert (H1 : forall s1, frame src ssp dl dsp s1 -> keeps s s1 -> f_anchor s1 = a -> f_mLen s1 = mL ->
             f_di s1 = di0 -> m_dst s1 = img M di0 [nib mL] -> di0 < dl ->
             if dl <? di0 + (1 + zlen (extl lL)) + (lL + 2) + zlen (extl mL) then err_exit (P1 s1)
             else exists s', P1 s1 = K s' /\ frame src ssp dl dsp s' /\ keeps s s' /\ f_anchor s' = si /\
                    f_di s' = di0 + (1 + zlen (extl lL)) + (lL + 2) + zlen (extl mL) /\
                    m_dst s' = img M di0 (((T :: extl lL) ++ lits ++ [off mod 256; off / 256]) ++ extl mL)).
  { intros s1 (T1 & T2 & T3) K1 A1 ML1 D1 M1 Hlt.
    pose proof (zlen_nonneg (extl mL)) as Hxe.
    pose proof K1 as (k1 & k2 & k3 & k4 & k5 & k6 & k7). rewrite LLs in k7.
    subst P1. rewrite seq_ite; lz4block_state_simpl. rewrite k7.
    destruct (lL <? 15) eqn:E7.
    - apply Z.ltb_lt in E7. pose proof (extl_small lL E7) as Hx.
      rewrite seq_guard; lz4block_state_simpl. rewrite T3, D1.
      replace (sl_idx_ok _ _) with true by (unfold sl_idx_ok; cbn [s_len]; btrue).
      rewrite seq_upd. lz4block_state_simpl. rewrite T3, D1, k7.
      match goal with |- context [P2 ?S] => pose proof (H2 S (T :: extl lL)) as R end.
      change (zlen (T :: extl lL)) with (Z.of_nat (S (length (extl lL)))) in R.
      replace (Z.of_nat (S (length (extl lL)))) with (1 + zlen (extl lL)) in R by (unfold zlen; lia).
      apply R; clear R.
      + unfold frame, sset, sl_set; lz4block_state_simpl; cbn [s_loc s_off]; lz4block_state_simpl. auto.
      + unfold keeps, sset, sl_set; lz4block_state_simpl; cbn [s_loc s_off]; lz4block_state_simpl. exact K1.
      + unfold sset, sl_set; lz4block_state_simpl; cbn [s_loc s_off]; lz4block_state_simpl. exact A1.
      + unfold sset, sl_set; lz4block_state_simpl; cbn [s_loc s_off]; lz4block_state_simpl. exact ML1.
      + unfold sset, sl_set; lz4block_state_simpl; cbn [s_loc s_off]; lz4block_state_simpl.
        rewrite D1, Hx. change (zlen []) with 0. lia.
      + unfold sset, sget, sl_set, sl_get; lz4block_state_simpl; cbn [s_loc s_off]; lz4block_state_simpl.
        rewrite M1, !Z.add_0_l, Hx. rewrite znth_img_one by lia. rewrite img_one_upd by lia. f_equal. f_equal.
        rewrite Z.shiftl_mul_pow2 by lia. change (2 ^ 4) with 16.
        rewrite wi64_id by lia. rewrite wu8_id by lia.
        replace (lL * 16) with (16 * lL) by lia. rewrite lor_nibbles by lia.
        unfold T. replace (nib lL) with lL; [reflexivity|]. unfold nib. replace (lL <? 15) with true by btrue. reflexivity.
      + rewrite Hx. change (zlen []) with 0. lia.
      + rewrite Hx. change (zlen []) with 0. lia.
    - apply Z.ltb_ge in E7. destruct (extl_big lL E7) as [Hx Hxl].
      assert (HT : T = 240 + nib mL)
        by (unfold T; replace (nib lL) with 15; [reflexivity|]; unfold nib;
            replace (lL <? 15) with false by (symmetry; apply Z.ltb_ge; lia); reflexivity).
      rewrite ?seq_assoc. rewrite seq_guard; lz4block_state_simpl. rewrite T3, D1.
      replace (sl_idx_ok _ _) with true by (unfold sl_idx_ok; cbn [s_len]; btrue).
      stp.
      match goal with |- context [GoT.seq _ _ ?S] => set (s1' := S) end.
      assert (F1 : frame src ssp dl dsp s1' /\ keeps s s1' /\ f_anchor s1' = a /\ f_mLen s1' = mL /\
                   f_di s1' = di0 + zlen [T] /\ f_l s1' = lL - 15 /\ m_dst s1' = img M di0 [T]).
      { subst s1'. unfold frame, keeps, sset, sget, sl_set, sl_get; lz4block_state_simpl.
        rewrite ?T3; cbn [s_loc s_off]; lz4block_state_simpl.
        rewrite T1, T2, T3, D1, M1, A1, ML1, k7, !Z.add_0_l.
        split; [repeat split; reflexivity|].
        split; [rewrite LLs; repeat split; try reflexivity; apply K1|].
        split; [reflexivity|]. split; [reflexivity|].
        split; [change (zlen [T]) with 1; apply wi64_id; lia|]. split; [apply wi64_id; lia|].
        rewrite znth_img_one by lia. rewrite img_one_upd by lia. f_equal. f_equal.
        replace 240 with (16 * 15) by reflexivity. rewrite lor_nibbles by lia. rewrite HT. lia. }
      clearbody s1'. destruct F1 as (Fa & Ka & Aa & MLa & Da & La & Ma).
      destruct (lenloop_l fuel s1' M di0 [T] (lL - 15))
        as (t & k & Hloop & (U1 & U2 & U3) & Kt & At & MLt & Hk & Xt & Xt0 & Dt & Dle & Mt & Hcond);
        try assumption; try lia.
      { change (zlen [T]) with 1. lia. }
      change (zlen [T]) with 1 in *.
      rewrite (seq_Fall _ _ _ _ Hloop). rewrite ?seq_assoc.
      rewrite seq_ite; lz4block_state_simpl. rewrite U3, Dt. cbn [s_len].
      assert (Hkq : k <= (lL - 15) / 255) by (apply Z.div_le_lower_bound; lia).
      destruct (dl <=? di0 + 1 + k) eqn:E8.
      + apply Z.leb_le in E8.
        replace (dl <? di0 + (1 + zlen (extl lL)) + (lL + 2) + zlen (extl mL)) with true by btrue.
        rewrite seq_ret_with. eexists; split; [reflexivity|]. lz4block_state_simpl. split; reflexivity.
      + apply Z.leb_gt in E8.
        replace (f_di t <? dl) with true in Hcond by (rewrite Dt; btrue). rewrite andb_true_r in Hcond.
        apply Z.leb_gt in Hcond.
        destruct (ext_bytes (lL - 15) k Hk) as [Hb Hbl]; [lia|].
        stp. rewrite seq_guard; lz4block_state_simpl. rewrite U3, Dt.
        replace (sl_idx_ok _ _) with true by (unfold sl_idx_ok; cbn [s_len]; btrue).
        rewrite seq_upd. lz4block_state_simpl. rewrite U3, Dt, Xt.
        match goal with |- context [P2 ?S] => pose proof (H2 S (T :: extl lL)) as R end.
        change (zlen (T :: extl lL)) with (Z.of_nat (S (length (extl lL)))) in R.
        replace (Z.of_nat (S (length (extl lL)))) with (1 + zlen (extl lL)) in R by (unfold zlen; lia).
        assert (Kst : keeps s t) by (eapply keeps_trans; [exact Ka|exact Kt]).
        apply R; clear R.
        * unfold frame, sset, sl_set; lz4block_state_simpl; cbn [s_loc s_off]; lz4block_state_simpl. auto.
        * unfold keeps, sset, sl_set; lz4block_state_simpl; cbn [s_loc s_off]; lz4block_state_simpl. exact Kst.
        * unfold sset, sl_set; lz4block_state_simpl; cbn [s_loc s_off]; lz4block_state_simpl. congruence.
        * unfold sset, sl_set; lz4block_state_simpl; cbn [s_loc s_off]; lz4block_state_simpl. congruence.
        * unfold sset, sl_set; lz4block_state_simpl; cbn [s_loc s_off]; lz4block_state_simpl.
          rewrite Dt, Hx. change (len (ext (lL - 15))) with (zlen (ext (lL - 15))). rewrite Hbl. lia.
        * unfold sset, sl_set; lz4block_state_simpl; cbn [s_loc s_off]; lz4block_state_simpl.
          rewrite Mt, !Z.add_0_l, Hx, <- Hb. rewrite wu8_id by lia.
          replace (di0 + 1 + k) with (di0 + zlen ([T] ++ repeat 255 (Z.to_nat k)))
            by (rewrite zlen_app; unfold zlen at 2; rewrite repeat_length; change (zlen [T]) with 1; lia).
          rewrite img_upd; [rewrite <- app_assoc; reflexivity|lia|].
          rewrite zlen_app. unfold zlen at 2. rewrite repeat_length. change (zlen [T]) with 1. lia.
        * lia.
        * rewrite Hx. change (len (ext (lL - 15))) with (zlen (ext (lL - 15))). rewrite Hbl. lia. }
  clearbody P1.
  (* ---- the size and the bytes of the sequence ---- *)
  assert (Hsz : seq_size (the_seq src a lL off mL) = di0 - di0 + (1 + zlen (extl lL)) + (lL + 2) + zlen (extl mL)).
  { unfold seq_size, the_seq, enc_seq. cbn [BlockFormat.lits BlockFormat.off BlockFormat.mlen]. fold lits.
    replace (mL + 4 - 4) with mL by lia.
    repeat match goal with |- context [len ?l] => change (len l) with (zlen l) end.
    rewrite Hzl. change (zlen (?x :: ?l)) with (Z.of_nat (S (length l))).
    rewrite !app_length. cbn [length]. unfold zlen in *. lia. }
  assert (Henc : enc_seq (the_seq src a lL off mL) =
                 ((T :: extl lL) ++ lits ++ [off mod 256; off / 256]) ++ extl mL).
  { unfold the_seq, enc_seq. cbn [BlockFormat.lits BlockFormat.off BlockFormat.mlen]. fold lits.
    replace (mL + 4 - 4) with mL by lia.
    repeat match goal with |- context [len ?l] => change (len l) with (zlen l) end.
    rewrite Hzl. fold T. cbn [app]. rewrite <- !app_assoc. reflexivity. }
  assert (HF : forall s1, frame src ssp dl dsp s1 -> keeps s s1 -> f_anchor s1 = a -> f_mLen s1 = mL ->
             f_di s1 = di0 -> m_dst s1 = img M di0 [nib mL] -> di0 < dl ->
             if dl <? di0 + seq_size (the_seq src a lL off mL) then err_exit (P1 s1)
             else exists s', P1 s1 = K s' /\ frame src ssp dl dsp s' /\ keeps s s' /\
                             emit_ok src M a lL off mL di0 si s').
  { intros s1 f1 f2 f3 f4 f5 f6 f7. pose proof (H1 s1 f1 f2 f3 f4 f5 f6 f7) as R.
    rewrite Hsz. replace (di0 + (di0 - di0 + (1 + zlen (extl lL)) + (lL + 2) + zlen (extl mL)))
      with (di0 + (1 + zlen (extl lL)) + (lL + 2) + zlen (extl mL)) by lia.
    destruct (dl <? di0 + (1 + zlen (extl lL)) + (lL + 2) + zlen (extl mL)); [exact R|].
    destruct R as (s' & e & F' & K' & A' & D' & M'). exists s'. split; [exact e|]. split; [exact F'|].
    split; [exact K'|]. unfold emit_ok. rewrite Henc, Hsz. repeat split; [exact M'|rewrite D'; lia|exact A']. }
  clear H1 H2 H3.
  assert (Hpos : 1 <= seq_size (the_seq src a lL off mL))
    by (rewrite Hsz; pose proof (zlen_nonneg (extl lL)); pose proof (zlen_nonneg (extl mL)); lia).
  rewrite seq_ite; lz4block_state_simpl. rewrite S3, Ds. cbn [s_len].
  destruct (dl <=? di0) eqn:E0.
  { apply Z.leb_le in E0. replace (dl <? di0 + seq_size (the_seq src a lL off mL)) with true by btrue.
    rewrite seq_ret_with. eexists; split; [reflexivity|]. lz4block_state_simpl. split; reflexivity. }
  apply Z.leb_gt in E0. stp.
  rewrite seq_ite; lz4block_state_simpl. rewrite MLs.
  assert (Kss : keeps s s) by (unfold keeps; repeat split; reflexivity).
  destruct (mL <? 15) eqn:E9.
  - apply Z.ltb_lt in E9.
    rewrite seq_guard; lz4block_state_simpl. rewrite S3, Ds.
    replace (sl_idx_ok _ _) with true by (unfold sl_idx_ok; cbn [s_len]; btrue).
    rewrite seq_upd. lz4block_state_simpl. rewrite S3, Ds, MLs.
    apply HF.
    + unfold frame, sset, sl_set; lz4block_state_simpl; cbn [s_loc s_off]; lz4block_state_simpl. auto.
    + unfold keeps, sset, sl_set; lz4block_state_simpl; cbn [s_loc s_off]; lz4block_state_simpl. exact Kss.
    + unfold sset, sl_set; lz4block_state_simpl; cbn [s_loc s_off]; lz4block_state_simpl. exact As.
    + unfold sset, sl_set; lz4block_state_simpl; cbn [s_loc s_off]; lz4block_state_simpl. exact MLs.
    + unfold sset, sl_set; lz4block_state_simpl; cbn [s_loc s_off]; lz4block_state_simpl. exact Ds.
    + unfold sset, sl_set; lz4block_state_simpl; cbn [s_loc s_off]; lz4block_state_simpl.
      rewrite Ms, Z.add_0_l. rewrite wu8_id by lia. rewrite zupd_as_img by lia.
      unfold nib. replace (mL <? 15) with true by btrue. reflexivity.
    + assumption.
  - apply Z.ltb_ge in E9.
    rewrite seq_guard; lz4block_state_simpl. rewrite S3, Ds.
    replace (sl_idx_ok _ _) with true by (unfold sl_idx_ok; cbn [s_len]; btrue).
    rewrite seq_upd. lz4block_state_simpl. rewrite S3, Ds.
    apply HF.
    + unfold frame, sset, sl_set; lz4block_state_simpl; cbn [s_loc s_off]; lz4block_state_simpl. auto.
    + unfold keeps, sset, sl_set; lz4block_state_simpl; cbn [s_loc s_off]; lz4block_state_simpl. exact Kss.
    + unfold sset, sl_set; lz4block_state_simpl; cbn [s_loc s_off]; lz4block_state_simpl. exact As.
    + unfold sset, sl_set; lz4block_state_simpl; cbn [s_loc s_off]; lz4block_state_simpl. exact MLs.
    + unfold sset, sl_set; lz4block_state_simpl; cbn [s_loc s_off]; lz4block_state_simpl. exact Ds.
    + unfold sset, sl_set; lz4block_state_simpl; cbn [s_loc s_off]; lz4block_state_simpl.
      rewrite Ms, Z.add_0_l. rewrite zupd_as_img by lia.
      unfold nib. replace (mL <? 15) with false by (symmetry; apply Z.ltb_ge; lia). reflexivity.
    + assumption.
Qed.

End Emit.

(* ------------------------------------------------------------------------------------------ *)
(* 3. The match extension loops                                                               *)
(* ------------------------------------------------------------------------------------------ *)
(* the backward loop (block.go:172), COPIED from GenCompressBody.v *)
Definition bwd_loop (fuel : nat) : stmt :=
    loop fuel (fun _ => true) (
      guard (fun s => implb ((0 <? (Compressor_CompressBlock_lLen s)) && (0 <=? (Compressor_CompressBlock_tOff s))) (sl_idx_ok (Compressor_CompressBlock_src s) (wi64 ((Compressor_CompressBlock_si s) - 1)) && sl_idx_ok (Compressor_CompressBlock_src s) (Compressor_CompressBlock_tOff s))) (
      ite (fun s => (((0 <? (Compressor_CompressBlock_lLen s)) && (0 <=? (Compressor_CompressBlock_tOff s))) && ((sget (Compressor_CompressBlock_src s) (wi64 ((Compressor_CompressBlock_si s) - 1)) s) =? (sget (Compressor_CompressBlock_src s) (Compressor_CompressBlock_tOff s) s)))) skip brk) ;;
      upd (fun s => (set_Compressor_CompressBlock_si (wi64 ((Compressor_CompressBlock_si s) - 1)) s)) ;;
      upd (fun s => (set_Compressor_CompressBlock_tOff (wi64 ((Compressor_CompressBlock_tOff s) - 1)) s)) ;;
      upd (fun s => (set_Compressor_CompressBlock_lLen (wi64 ((Compressor_CompressBlock_lLen s) - 1)) s)) ;;
      upd (fun s => (set_Compressor_CompressBlock_mLen (wi64 ((Compressor_CompressBlock_mLen s) + 1)) s))) skip.

Notation f_tOff := Compressor_CompressBlock_tOff.

(* projections the two extension loops do not change *)
Definition keepsB (s t : state) : Prop :=
  f_anchor t = f_anchor s /\ f_di t = f_di s /\ m_dst t = m_dst s /\ f_off t = f_off s /\
  f_sn t = f_sn s /\ f_notc t = f_notc s /\
  mem_Compressor_table t = mem_Compressor_table s /\ mem_Compressor_inUse t = mem_Compressor_inUse s.

Definition bwd_post (get : Z -> Z) (p tf lL m : Z) (s t : state) : Prop :=
  let b := bwd get (Z.to_nat lL) p tf lL in
  f_si t = p - b /\ f_tOff t = tf - b /\ f_lLen t = lL - b /\ f_mLen t = m + b /\ keepsB s t.

Definition bstate (src : list Z) (p tf lL m : Z) : state :=
  set_Compressor_CompressBlock_si p (set_Compressor_CompressBlock_tOff tf
   (set_Compressor_CompressBlock_lLen lL (set_Compressor_CompressBlock_mLen m
     (init_lz4block_Compressor_CompressBlock_fresh src [0;0] [] [] zero_state)))).
Definition bwd_test (src : list Z) (p tf lL m : Z) : Prop :=
  match bwd_loop 100 (bstate src p tf lL m) with
  | Fall t => bwd_post (znth src) p tf lL m (bstate src p tf lL m) t
  | _ => False
  end.
Definition bsrc : list Z := [1;2;3;4;5;9;9;3;4;5;7;7;7;7;7;7;7;7;8].
Example bwd_t1 : bwd_test bsrc 10 5 3 4 /\ bwd_test bsrc 10 5 2 4 /\ bwd_test bsrc 10 5 0 4
  /\ bwd_test bsrc 18 17 12 4 /\ bwd_test bsrc 18 17 3 4 /\ bwd_test bsrc 3 (-1) 3 4
  /\ bwd_test bsrc 12 2 9 4 /\ bwd_test bsrc 9 3 9 4.
Proof. vm_compute. repeat split. Qed.


Section Ext.
Variables (src ssp : list Z) (dl dsp : Z) (get : Z -> Z).
Let n := zlen src.
Hypothesis Hget : forall i, 0 <= i < n -> get i = znth src i.
Hypothesis Hsmall : n < 2 ^ 61.

Lemma bwd_exec fuel s p tf lL m :
  frame src ssp dl dsp s -> f_si s = p -> f_tOff s = tf -> f_lLen s = lL -> f_mLen s = m ->
  0 <= lL <= p -> p <= n -> - 2 ^ 61 <= tf < n -> 0 <= m < 2 ^ 61 -> (Z.to_nat lL < fuel)%nat ->
  exists t, bwd_loop fuel s = Fall t /\ frame src ssp dl dsp t /\ bwd_post get p tf lL m s t.
Proof.
  intros Fs Ps Ts Ls Mss HlL Hp Htf Hm Hfuel. change (2 ^ 61) with 2305843009213693952 in *.
  set (B := bwd get (Z.to_nat lL) p tf lL).
  pose (Inv := fun t : state =>
    frame src ssp dl dsp t /\ keepsB s t /\
    exists j, 0 <= j <= lL /\ f_si t = p - j /\ f_tOff t = tf - j /\ f_lLen t = lL - j /\ f_mLen t = m + j /\
              j + bwd get (Z.to_nat (lL - j)) (p - j) (tf - j) (lL - j) = B).
  pose (Q := fun o : outcome state =>
    exists t, o = Fall t /\ frame src ssp dl dsp t /\ bwd_post get p tf lL m s t).
  pose (mu := fun t : state => Z.to_nat (f_lLen t)).
  unfold bwd_loop.
  match goal with |- context [loop fuel ?c ?b ?q] =>
    change (Q (loop fuel c b q s)); apply (loop_inv Inv Q mu c b q) end.
  - intros t _ Hc. discriminate Hc.
  - intros t ((T1 & T2 & T3) & Kt & j & Hj & St & Tt & Lt' & Mt & HB) _.
    rewrite seq_guard; lz4block_state_simpl. rewrite T1, St, Tt, Lt'.
    rewrite (wi64_id (p - j - 1)) by lia.
    assert (HG : implb ((0 <? lL - j) && (0 <=? tf - j))
                   (sl_idx_ok {| s_nil := false; s_loc := L_src; s_off := 0; s_len := zlen src; s_cap := zlen src + zlen ssp |} (p - j - 1) &&
                    sl_idx_ok {| s_nil := false; s_loc := L_src; s_off := 0; s_len := zlen src; s_cap := zlen src + zlen ssp |} (tf - j)) = true).
    { destruct ((0 <? lL - j) && (0 <=? tf - j)) eqn:Eab; [|reflexivity]. cbn [implb].
      apply andb_true_iff in Eab. destruct Eab as [Ea Eb]. apply Z.ltb_lt in Ea. apply Z.leb_le in Eb.
      unfold sl_idx_ok; cbn [s_len]. fold n. symmetry; btrue. }
    rewrite HG.
    rewrite seq_ite; lz4block_state_simpl. rewrite T1, St, Tt, Lt'.
    rewrite (wi64_id (p - j - 1)) by lia.
    unfold sget, sl_get; cbn [s_loc s_off]; lz4block_state_simpl. rewrite T2, !Z.add_0_l.
    destruct ((0 <? lL - j) && (0 <=? tf - j) && (znth (src ++ ssp) (p - j - 1) =? znth (src ++ ssp) (tf - j))) eqn:Ec.
    + (* one more byte *)
      apply andb_true_iff in Ec. destruct Ec as [Eab Ee]. apply andb_true_iff in Eab. destruct Eab as [Ea Eb].
      pose proof Ea as Ea'. pose proof Eb as Eb'. apply Z.ltb_lt in Ea'. apply Z.leb_le in Eb'.
      rewrite !znth_app_l in Ee by (fold n; lia).
      stp. rewrite St, Tt, Lt', Mt.
      rewrite (wi64_id (p - j - 1)), (wi64_id (tf - j - 1)), (wi64_id (lL - j - 1)), (wi64_id (m + j + 1)) by lia.
      split.
      * unfold Inv, frame, keepsB. lz4block_state_simpl. rewrite T1, T2, T3.
        split; [repeat split; reflexivity|]. split; [exact Kt|]. exists (j + 1).
        repeat (split; [lia|]).
        rewrite <- HB. replace (Z.to_nat (lL - j)) with (S (Z.to_nat (lL - (j + 1)))) by lia.
        cbn [bwd]. rewrite Ea, Eb. rewrite !Hget by lia. rewrite Ee. cbn [andb].
        replace (p - (j + 1)) with (p - j - 1) by lia. replace (tf - (j + 1)) with (tf - j - 1) by lia.
        replace (lL - (j + 1)) with (lL - j - 1) by lia. lia.
      * unfold mu. lz4block_state_simpl. rewrite Lt'. lia.
    + (* stop *)
      rewrite seq_brk. unfold Q. eexists; split; [reflexivity|]. split; [exact (conj T1 (conj T2 T3))|].
      unfold bwd_post. cbv zeta. fold B.
      assert (Hz : bwd get (Z.to_nat (lL - j)) (p - j) (tf - j) (lL - j) = 0).
      { destruct (Z.to_nat (lL - j)) eqn:En; [reflexivity|]. cbn [bwd].
        destruct ((0 <? lL - j) && (0 <=? tf - j)) eqn:Eab.
        - apply andb_true_iff in Eab. destruct Eab as [Ea Eb]. apply Z.ltb_lt in Ea. apply Z.leb_le in Eb.
          rewrite !Hget by lia. rewrite !znth_app_l in Ec by (fold n; lia). cbn [andb] in *. rewrite Ec. reflexivity.
        - reflexivity. }
      rewrite Hz in HB. replace B with j by lia.
      split; [assumption|]. split; [assumption|]. split; [assumption|]. split; [assumption|]. exact Kt.
  - unfold Inv. split; [assumption|]. split; [unfold keepsB; repeat split; reflexivity|].
    exists 0. rewrite !Z.sub_0_r, Z.add_0_r. repeat split; try assumption; try lia. 
  - unfold mu. rewrite Ls. exact Hfuel.
Qed.

End Ext.

(* the forward loop (block.go:184), COPIED from GenCompressBody.v *)
Definition fwd_loop (fuel : nat) : stmt :=
    loop fuel (fun s => ((wi64 ((Compressor_CompressBlock_si s) + 8)) <=? (Compressor_CompressBlock_sn s))) (
      guard (fun s => (sl_slice_ok (Compressor_CompressBlock_src s) (Compressor_CompressBlock_si s) (s_len (Compressor_CompressBlock_src s)) (s_cap (Compressor_CompressBlock_src s)) && sl_le64_ok (sl_slice (Compressor_CompressBlock_src s) (Compressor_CompressBlock_si s) (s_len (Compressor_CompressBlock_src s)) (s_cap (Compressor_CompressBlock_src s))) && sl_slice_ok (Compressor_CompressBlock_src s) (wi64 ((Compressor_CompressBlock_si s) - (Compressor_CompressBlock_offset s))) (s_len (Compressor_CompressBlock_src s)) (s_cap (Compressor_CompressBlock_src s)) && sl_le64_ok (sl_slice (Compressor_CompressBlock_src s) (wi64 ((Compressor_CompressBlock_si s) - (Compressor_CompressBlock_offset s))) (s_len (Compressor_CompressBlock_src s)) (s_cap (Compressor_CompressBlock_src s))))) (
      upd (fun s => (set_Compressor_CompressBlock_x (Z.lxor (le64 (sl_slice (Compressor_CompressBlock_src s) (Compressor_CompressBlock_si s) (s_len (Compressor_CompressBlock_src s)) (s_cap (Compressor_CompressBlock_src s))) s) (le64 (sl_slice (Compressor_CompressBlock_src s) (wi64 ((Compressor_CompressBlock_si s) - (Compressor_CompressBlock_offset s))) (s_len (Compressor_CompressBlock_src s)) (s_cap (Compressor_CompressBlock_src s))) s)) s))) ;;
      ite (fun s => ((Compressor_CompressBlock_x s) =? 0)) (
        upd (fun s => (set_Compressor_CompressBlock_si (wi64 ((Compressor_CompressBlock_si s) + 8)) s))) (
        upd (fun s => (set_Compressor_CompressBlock_si (wi64 ((Compressor_CompressBlock_si s) + (Z.shiftr (ctz64 (Compressor_CompressBlock_x s)) 3))) s)) ;;
        brk)) skip.

Definition keepsF (s t : state) : Prop :=
  keepsB s t /\ f_mLen t = f_mLen s /\ f_lLen t = f_lLen s /\ f_tOff t = f_tOff s.

(* "the model's fuel F is enough at position si" *)
Definition enough (n : Z) (F : nat) (si : Z) : Prop := (Z.to_nat (n - si) <= F)%nat.

Definition fstate (src : list Z) (p off : Z) : state :=
  set_Compressor_CompressBlock_si p (set_Compressor_CompressBlock_offset off
   (set_Compressor_CompressBlock_sn (zlen src - 14)
     (init_lz4block_Compressor_CompressBlock_fresh src [0;0] [] [] zero_state))).
Definition fwd_test (src : list Z) (p off : Z) : Prop :=
  match fwd_loop 100 (fstate src p off) with
  | Fall t => f_si t = fwd (znth src) (zlen src) 100 p off /\ keepsF (fstate src p off) t
  | _ => False
  end.
Definition fsrc : list Z :=
  [1;2;3;4;5;6;7;8;9;10; 1;2;3;4;5;6;7;8;9;10; 1;2;3;4;5;6;7;8;9;10; 1;2;3;4;5;77;7;8;9;10;
   1;2;3;4;5;6;7;8;9;10; 1;2;3;4;5;6;7;8;9;10; 1;2;3;4].
Example fwd_t1 : fwd_test fsrc 14 10 /\ fwd_test fsrc 24 20 /\ fwd_test fsrc 12 2 /\ fwd_test fsrc 45 10
  /\ fwd_test fsrc 48 10 /\ fwd_test fsrc 60 10 /\ fwd_test fsrc 27 10 /\ fwd_test fsrc 28 10 /\ fwd_test fsrc 29 10.
Proof. vm_compute. repeat split. Qed.

Lemma le_val_sub8 g a :
  le_val (sub_from g a 8) =
  g a + 256 * g (a + 1) + 65536 * g (a + 2) + 16777216 * g (a + 3) + 4294967296 * g (a + 4)
  + 1099511627776 * g (a + 5) + 281474976710656 * g (a + 6) + 72057594037927936 * g (a + 7).
Proof.
  cbn [sub_from le_val].
  replace (a + 1 + 1) with (a + 2) by lia. replace (a + 2 + 1) with (a + 3) by lia.
  replace (a + 3 + 1) with (a + 4) by lia. replace (a + 4 + 1) with (a + 5) by lia.
  replace (a + 5 + 1) with (a + 6) by lia. replace (a + 6 + 1) with (a + 7) by lia. ring.
Qed.

Section Fwd.
Variables (src ssp : list Z) (dl dsp : Z) (get : Z -> Z).
Let n := zlen src.
Hypothesis Hget : forall i, 0 <= i < n -> get i = znth src i.
Hypothesis Hbytes : forall i, 0 <= i < n -> 0 <= get i < 256.
Hypothesis Hsmall : n < 2 ^ 61.

Lemma fwd_exec fuel s p off :
  frame src ssp dl dsp s -> f_si s = p -> f_off s = off -> f_sn s = n - 14 ->
  1 <= off <= p -> p <= n -> (Z.to_nat (n - p) < fuel)%nat ->
  exists t, fwd_loop fuel s = Fall t /\ frame src ssp dl dsp t /\ keepsF s t /\
            forall F, enough n F p -> f_si t = fwd get n F p off.
Proof.
  intros Fs Ps Os SNs Hoff Hp Hfuel. change (2 ^ 61) with 2305843009213693952 in *.
  pose proof (zlen_nonneg src) as Hn0. fold n in Hn0.
  pose (Inv := fun t : state =>
    frame src ssp dl dsp t /\ keepsF s t /\ p <= f_si t <= n /\
    forall F, enough n F p -> exists F', enough n F' (f_si t) /\ fwd get n F p off = fwd get n F' (f_si t) off).
  pose (Q := fun o : outcome state =>
    exists t, o = Fall t /\ frame src ssp dl dsp t /\ keepsF s t /\
              forall F, enough n F p -> f_si t = fwd get n F p off).
  pose (mu := fun t : state => Z.to_nat (n - f_si t)).
  assert (Hg : forall i, 0 <= i < n -> znth (src ++ ssp) i = get i)
    by (intros i Hi; rewrite znth_app_l by (fold n; lia); symmetry; apply Hget; assumption).
  unfold fwd_loop.
  match goal with |- context [loop fuel ?c ?b ?q] =>
    change (Q (loop fuel c b q s)); apply (loop_inv Inv Q mu c b q) end.
  - (* exit by the condition *)
    intros t ((T1 & T2 & T3) & Kt & Hb & HF) Hc. cbv beta in Hc.
    destruct Kt as (KB & KM & KL & KT). pose proof KB as (_ & _ & _ & ko & ks & _). rewrite SNs in ks. rewrite Os in ko.
    rewrite ks in Hc. rewrite (wi64_id (f_si t + 8)) in Hc by lia. apply Z.leb_gt in Hc.
    exists t. split; [reflexivity|]. split; [exact (conj T1 (conj T2 T3))|]. split; [exact (conj KB (conj KM (conj KL KT)))|].
    intros F HFe. destruct (HF F HFe) as (F' & _ & ->).
    destruct F' as [|f]; cbn [fwd]; [reflexivity|].
    replace (f_si t + 8 <=? sn n) with false by (symmetry; apply Z.leb_gt; unfold sn; change lz4block_mfLimit with 14; lia).
    reflexivity.
  - (* one iteration *)
    intros t ((T1 & T2 & T3) & Kt & Hb & HF) Hc. cbv beta in Hc.
    pose proof Kt as (KB & KM & KL & KT). pose proof KB as (_ & _ & _ & ko & ks & _). rewrite SNs in ks. rewrite Os in ko.
    rewrite ks in Hc. rewrite (wi64_id (f_si t + 8)) in Hc by lia. apply Z.leb_le in Hc.
    set (si := f_si t) in *.
    rewrite seq_guard; lz4block_state_simpl. rewrite T1, ko. fold si. cbn [s_len s_cap].
    rewrite (wi64_id (si - off)) by lia.
    match goal with |- context [if ?g then _ else _] => replace g with true end.
    2:{ unfold sl_slice_ok, sl_le64_ok, sl_slice; cbn [s_len s_cap]. fold n. pose proof (zlen_nonneg ssp). btrue. }
    rewrite seq_upd. lz4block_state_simpl. rewrite T1, ko. fold si. cbn [s_len s_cap].
    rewrite (wi64_id (si - off)) by lia.
    unfold le64, sl_le64, sl_get, sl_slice; cbn [s_loc s_off]; lz4block_state_simpl. rewrite T2.
    rewrite !Z.add_0_l, !Z.add_0_r.
    rewrite !Hg by lia.
    rewrite <- (le_val_sub8 get si), <- (le_val_sub8 get (si - off)).
    destruct (ctz_xor_eq_run get si (si - off)) as [X0 Xn].
    { intros i Hi. split; apply Hbytes; lia. }
    cbv zeta in X0, Xn.
    set (x := Z.lxor (le_val (sub_from get si 8)) (le_val (sub_from get (si - off) 8))) in *.
    unfold ite; lz4block_state_simpl.
    destruct (x =? 0) eqn:Ex.
    + (* eight equal bytes: continue *)
      apply Z.eqb_eq in Ex. specialize (X0 Ex).
      stp. fold si. rewrite (wi64_id (si + 8)) by lia.
      split.
      * unfold Inv, frame, keepsF, keepsB. lz4block_state_simpl.
        split; [exact (conj T1 (conj T2 T3))|]. split; [exact (conj KB (conj KM (conj KL KT)))|]. split; [lia|].
        intros F HFe. destruct (HF F HFe) as (F' & He' & ->). fold si in He' |- *.
        destruct F' as [|f]; [unfold enough in He'; lia|].
        exists f. split; [unfold enough in *; lia|].
        cbn [fwd]. replace (si + 8 <=? sn n) with true by (unfold sn; change lz4block_mfLimit with 14; btrue).
        rewrite X0. reflexivity.
      * unfold mu. lz4block_state_simpl. fold si. lia.
    + (* a difference within the eight bytes: advance and break *)
      apply Z.eqb_neq in Ex. destruct (Xn Ex) as [X1 X2].
      stp. unfold brk. fold si. rewrite X1.
      destruct (eq_run_spec get 8 si (si - off)) as [[Hr0 _] _].
      rewrite (wi64_id (si + eq_run get 8 si (si - off))) by lia.
      unfold Q. eexists; split; [reflexivity|].
      unfold frame, keepsF, keepsB. lz4block_state_simpl.
      split; [exact (conj T1 (conj T2 T3))|]. split; [exact (conj KB (conj KM (conj KL KT)))|].
      intros F HFe. destruct (HF F HFe) as (F' & He' & ->). fold si in He' |- *.
      destruct F' as [|f]; [unfold enough in He'; lia|].
      cbn [fwd]. replace (si + 8 <=? sn n) with true by (unfold sn; change lz4block_mfLimit with 14; btrue).
      replace (eq_run get 8 si (si - off) =? 8) with false by (symmetry; apply Z.eqb_neq; lia).
      reflexivity.
  - unfold Inv. split; [assumption|]. split; [unfold keepsF, keepsB; repeat split; reflexivity|].
    rewrite Ps. split; [lia|]. intros F HFe. exists F. split; [assumption|reflexivity].
  - unfold mu. rewrite Ps. exact Hfuel.
Qed.

End Fwd.

(* ------------------------------------------------------------------------------------------ *)
(* 4. Building blocks of the search step                                                      *)
(* ------------------------------------------------------------------------------------------ *)
(* c.get(h, si) / c.put(h, si) as called from CompressBlock: the callee's frame is in the same state *)
Lemma call_get_exec fuel (K : stmt) s tb :
  table_rel (mem_Compressor_table s) (mem_Compressor_inUse s) tb ->
  0 <= Compressor_get_h s -> 0 <= Compressor_get_si s < 2 ^ 62 ->
  exists i, GoT.seq (call (lz4block_Compressor_get fuel)) K s =
    K (set_Compressor_get_ret0 (ft_get tb (Compressor_get_h s) (Compressor_get_si s))
         (set_Compressor_get_i i (set_Compressor_get_h (Z.land (Compressor_get_h s) 65535) s))).
Proof.
  intros Hrel Hh Hsi. destruct (get_exec fuel s Hh) as [i Hi]. exists i.
  rewrite (seq_call_Ret _ _ _ _ Hi). rewrite (get_fun_refines _ _ tb) by assumption. reflexivity.
Qed.

Lemma call_put_exec fuel (K : stmt) s tb :
  table_rel (mem_Compressor_table s) (mem_Compressor_inUse s) tb -> 0 <= Compressor_put_h s ->
  GoT.seq (call (lz4block_Compressor_put fuel)) K s =
    K (set_mem_Compressor_inUse (put_inUse (mem_Compressor_inUse s) (Compressor_put_h s))
        (set_mem_Compressor_table (put_table (mem_Compressor_table s) (Compressor_put_h s) (Compressor_put_si s))
          (set_Compressor_put_h (Z.land (Compressor_put_h s) 65535) s))) /\
  table_rel (put_table (mem_Compressor_table s) (Compressor_put_h s) (Compressor_put_si s))
            (put_inUse (mem_Compressor_inUse s) (Compressor_put_h s))
            (ft_put tb (Compressor_put_h s) (Compressor_put_si s)).
Proof.
  intros Hrel Hh. pose proof Hrel as (Hlt & Hlu & _). split.
  - rewrite (seq_call_Fall _ _ _ _ (put_exec fuel s Hh Hlt Hlu)). reflexivity.
  - apply put_refines; assumption.
Qed.

(* the candidate test  offset <= 0 || offset >= winSize || w != le32(src[ref:])  and its panic guard,
   as the translator emits them, against the model's accept *)
Lemma probe_accept (src ssp : list Z) (get : Z -> Z) (si ref w : Z) :
  (forall i, 0 <= i < zlen src -> get i = znth src i) ->
  0 <= si -> si + 4 <= zlen src ->
  let S := mkslice false L_src 0 (zlen src) (zlen src + zlen ssp) in
  let off := si - ref in
  let win := (off <=? 0) || (65536 <=? off) in
  let G := orb win (sl_slice_ok S ref (zlen src) (zlen src + zlen ssp) &&
                    sl_le32_ok (sl_slice S ref (zlen src) (zlen src + zlen ssp))) in
  let L := znth (src ++ ssp) (0 + ref + 0) + 256 * znth (src ++ ssp) (0 + ref + 1)
           + 65536 * znth (src ++ ssp) (0 + ref + 2) + 16777216 * znth (src ++ ssp) (0 + ref + 3) in
  let C := win || negb (w =? L) in
  match accept get si ref w with
  | None => G = false
  | Some b => G = true /\ C = negb b
  end.
Proof.
  intros Hget Hsi Hn. cbv zeta. unfold accept. change lz4block_winSize with 65536.
  pose proof (zlen_nonneg ssp) as Hs.
  destruct ((si - ref <=? 0) || (65536 <=? si - ref)) eqn:Ew; [split; reflexivity|].
  apply orb_false_iff in Ew. destruct Ew as [E1 E2]. apply Z.leb_gt in E1. apply Z.leb_gt in E2.
  cbn [orb]. destruct (ref <? 0) eqn:Er.
  - apply Z.ltb_lt in Er. unfold sl_slice_ok. replace (0 <=? ref) with false by (symmetry; apply Z.leb_gt; lia).
    reflexivity.
  - apply Z.ltb_ge in Er. split.
    + unfold sl_slice_ok, sl_le32_ok, sl_slice; cbn [s_len s_cap]. symmetry; btrue.
    + rewrite !znth_app_l by lia. rewrite <- !Hget by lia. rewrite !Z.add_0_l, Z.add_0_r.
      unfold load32, le32. rewrite negb_involutive || idtac. reflexivity.
Qed.

(* the three-probe search at the head of the loop body (block.go:128-163), followed by a continuation K;
   COPIED from GenCompressBody.v *)
Definition search (fuel : nat) (K : stmt) : stmt :=
    guard (fun s => (sl_slice_ok (Compressor_CompressBlock_src s) (Compressor_CompressBlock_si s) (s_len (Compressor_CompressBlock_src s)) (s_cap (Compressor_CompressBlock_src s)) && sl_le64_ok (sl_slice (Compressor_CompressBlock_src s) (Compressor_CompressBlock_si s) (s_len (Compressor_CompressBlock_src s)) (s_cap (Compressor_CompressBlock_src s))))) (
    upd (fun s => (set_Compressor_CompressBlock_match (le64 (sl_slice (Compressor_CompressBlock_src s) (Compressor_CompressBlock_si s) (s_len (Compressor_CompressBlock_src s)) (s_cap (Compressor_CompressBlock_src s))) s) s))) ;;
    upd (fun s => (set_Compressor_CompressBlock_h (lz4block_blockHash (Compressor_CompressBlock_match s)) s)) ;;
    upd (fun s => (set_Compressor_CompressBlock_h2 (lz4block_blockHash (Z.shiftr (Compressor_CompressBlock_match s) 8)) s)) ;;
    upd (fun s => set_Compressor_get_h (Compressor_CompressBlock_h s) (set_Compressor_get_si (Compressor_CompressBlock_si s) s)) ;;
    call (lz4block_Compressor_get fuel) ;;
    upd (fun s => (set_Compressor_CompressBlock_ref (Compressor_get_ret0 s) s)) ;;
    upd (fun s => set_Compressor_get_h (Compressor_CompressBlock_h2 s) (set_Compressor_get_si (wi64 ((Compressor_CompressBlock_si s) + 1)) s)) ;;
    call (lz4block_Compressor_get fuel) ;;
    upd (fun s => (set_Compressor_CompressBlock_ref2 (Compressor_get_ret0 s) s)) ;;
    upd (fun s => set_Compressor_put_h (Compressor_CompressBlock_h s) (set_Compressor_put_si (Compressor_CompressBlock_si s) s)) ;;
    call (lz4block_Compressor_put fuel) ;;
    upd (fun s => set_Compressor_put_h (Compressor_CompressBlock_h2 s) (set_Compressor_put_si (wi64 ((Compressor_CompressBlock_si s) + 1)) s)) ;;
    call (lz4block_Compressor_put fuel) ;;
    upd (fun s => (set_Compressor_CompressBlock_offset (wi64 ((Compressor_CompressBlock_si s) - (Compressor_CompressBlock_ref s))) s)) ;;
    guard (fun s => orb (((Compressor_CompressBlock_offset s) <=? 0) || (65536 <=? (Compressor_CompressBlock_offset s))) (sl_slice_ok (Compressor_CompressBlock_src s) (Compressor_CompressBlock_ref s) (s_len (Compressor_CompressBlock_src s)) (s_cap (Compressor_CompressBlock_src s)) && sl_le32_ok (sl_slice (Compressor_CompressBlock_src s) (Compressor_CompressBlock_ref s) (s_len (Compressor_CompressBlock_src s)) (s_cap (Compressor_CompressBlock_src s))))) (
    ite (fun s => ((((Compressor_CompressBlock_offset s) <=? 0) || (65536 <=? (Compressor_CompressBlock_offset s))) || (negb ((wu32 (Compressor_CompressBlock_match s)) =? (le32 (sl_slice (Compressor_CompressBlock_src s) (Compressor_CompressBlock_ref s) (s_len (Compressor_CompressBlock_src s)) (s_cap (Compressor_CompressBlock_src s))) s))))) (
      upd (fun s => (set_Compressor_CompressBlock_h (lz4block_blockHash (Z.shiftr (Compressor_CompressBlock_match s) 16)) s)) ;;
      upd (fun s => set_Compressor_get_h (Compressor_CompressBlock_h s) (set_Compressor_get_si (wi64 ((Compressor_CompressBlock_si s) + 2)) s)) ;;
      call (lz4block_Compressor_get fuel) ;;
      upd (fun s => (set_Compressor_CompressBlock_ref3 (Compressor_get_ret0 s) s)) ;;
      upd (fun s => (set_Compressor_CompressBlock_si (wi64 ((Compressor_CompressBlock_si s) + 1)) s)) ;;
      upd (fun s => (set_Compressor_CompressBlock_offset (wi64 ((Compressor_CompressBlock_si s) - (Compressor_CompressBlock_ref2 s))) s)) ;;
      guard (fun s => orb (((Compressor_CompressBlock_offset s) <=? 0) || (65536 <=? (Compressor_CompressBlock_offset s))) (sl_slice_ok (Compressor_CompressBlock_src s) (Compressor_CompressBlock_ref2 s) (s_len (Compressor_CompressBlock_src s)) (s_cap (Compressor_CompressBlock_src s)) && sl_le32_ok (sl_slice (Compressor_CompressBlock_src s) (Compressor_CompressBlock_ref2 s) (s_len (Compressor_CompressBlock_src s)) (s_cap (Compressor_CompressBlock_src s))))) (
      ite (fun s => ((((Compressor_CompressBlock_offset s) <=? 0) || (65536 <=? (Compressor_CompressBlock_offset s))) || (negb ((wu32 (Z.shiftr (Compressor_CompressBlock_match s) 8)) =? (le32 (sl_slice (Compressor_CompressBlock_src s) (Compressor_CompressBlock_ref2 s) (s_len (Compressor_CompressBlock_src s)) (s_cap (Compressor_CompressBlock_src s))) s))))) (
        upd (fun s => (set_Compressor_CompressBlock_si (wi64 ((Compressor_CompressBlock_si s) + 1)) s)) ;;
        upd (fun s => (set_Compressor_CompressBlock_offset (wi64 ((Compressor_CompressBlock_si s) - (Compressor_CompressBlock_ref3 s))) s)) ;;
        upd (fun s => set_Compressor_put_h (Compressor_CompressBlock_h s) (set_Compressor_put_si (Compressor_CompressBlock_si s) s)) ;;
        call (lz4block_Compressor_put fuel) ;;
        guard (fun s => orb (((Compressor_CompressBlock_offset s) <=? 0) || (65536 <=? (Compressor_CompressBlock_offset s))) (sl_slice_ok (Compressor_CompressBlock_src s) (Compressor_CompressBlock_ref3 s) (s_len (Compressor_CompressBlock_src s)) (s_cap (Compressor_CompressBlock_src s)) && sl_le32_ok (sl_slice (Compressor_CompressBlock_src s) (Compressor_CompressBlock_ref3 s) (s_len (Compressor_CompressBlock_src s)) (s_cap (Compressor_CompressBlock_src s))))) (
        ite (fun s => ((((Compressor_CompressBlock_offset s) <=? 0) || (65536 <=? (Compressor_CompressBlock_offset s))) || (negb ((wu32 (Z.shiftr (Compressor_CompressBlock_match s) 16)) =? (le32 (sl_slice (Compressor_CompressBlock_src s) (Compressor_CompressBlock_ref3 s) (s_len (Compressor_CompressBlock_src s)) (s_cap (Compressor_CompressBlock_src s))) s))))) (
          upd (fun s => (set_Compressor_CompressBlock_si (wi64 ((Compressor_CompressBlock_si s) + (wi64 (2 + (Z.shiftr (wi64 ((Compressor_CompressBlock_si s) - (Compressor_CompressBlock_anchor s))) 7))))) s)) ;;
          cont) skip)) skip)) skip) ;;
    K.

Notation pstepT := (fun get => pstep get ftable ft_get ft_put).

Definition keepsS (s t : state) : Prop :=
  f_anchor t = f_anchor s /\ f_di t = f_di s /\ m_dst t = m_dst s /\ f_sn t = f_sn s /\ f_notc t = f_notc s.

Definition search_post (get : Z -> Z) (si a : Z) (tb : ftable) (src ssp : list Z) (dl dsp : Z)
    (K : stmt) (s : state) (o : outcome state) : Prop :=
  match pstep get ftable ft_get ft_put si a tb with
  | SPanic _ => exists s', o = Pan s'
  | SFound _ p r tb' =>
    exists s', o = K s' /\ frame src ssp dl dsp s' /\ keepsS s s' /\ f_si s' = p /\ f_off s' = p - r /\
               table_rel (mem_Compressor_table s') (mem_Compressor_inUse s') tb'
  | SSkip _ si' tb' =>
    exists s', o = Cont s' /\ frame src ssp dl dsp s' /\ keepsS s s' /\ f_si s' = si' /\
               table_rel (mem_Compressor_table s') (mem_Compressor_inUse s') tb'
  end.

(* light test of the statement: the kind of outcome, si and offset *)
Definition sstate (src : list Z) (table inUse : list Z) (si a : Z) : state :=
  set_Compressor_CompressBlock_si si (set_Compressor_CompressBlock_anchor a
    (init_lz4block_Compressor_CompressBlock_fresh src [0] [] []
       (init_lz4block_Compressor table inUse zero_state))).
Definition search_testb (src : list Z) (table inUse : list Z) (tb : ftable) (si a : Z) : bool :=
  match pstep (znth src) ftable ft_get ft_put si a tb, search 10 ret (sstate src table inUse si a) with
  | SPanic _, Pan _ => true
  | SFound _ p r _, Ret s' => (f_si s' =? p) && (f_off s' =? p - r)
  | SSkip _ si' _, Cont s' => f_si s' =? si'
  | _, _ => false
  end.
Definition ssrc : list Z :=
  [1;2;3;4;5;6;7;8;9;10; 1;2;3;4;5;6;7;8;9;10; 1;2;3;4;5;6;7;8;9;10; 1;2;3;4;5;77;7;8;9;10;
   1;2;3;4;5;6;7;8;9;10; 1;2;3;4;5;6;7;8;9;10; 1;2;3;4].
Definition h_at (src : list Z) (i : Z) : Z := GenBlock.lz4block_blockHash (load64 (znth src) i).
Example search_t1 : search_testb ssrc (zeros 65536) (zeros 2048) (ft_reset (fun _ => 0)) 3 0 = true.
Proof. vm_compute. reflexivity. Qed.
Example search_t2 :
  search_testb ssrc (put_table (zeros 65536) (h_at ssrc 2) 2) (put_inUse (zeros 2048) (h_at ssrc 2))
               (ft_put (ft_reset (fun _ => 0)) (h_at ssrc 2) 2) 12 5 = true
  /\ search_testb ssrc (put_table (zeros 65536) (h_at ssrc 3) 3) (put_inUse (zeros 2048) (h_at ssrc 3))
               (ft_put (ft_reset (fun _ => 0)) (h_at ssrc 3) 3) 12 5 = true
  /\ search_testb ssrc (put_table (zeros 65536) (h_at ssrc 4) 4) (put_inUse (zeros 2048) (h_at ssrc 4))
               (ft_put (ft_reset (fun _ => 0)) (h_at ssrc 4) 4) 12 5 = true.
Proof. vm_compute. repeat split; reflexivity. Qed.

Lemma bh_nonneg x : 0 <= GenCompressBody.lz4block_blockHash x.
Proof. unfold GenCompressBody.lz4block_blockHash. apply wu32_range. Qed.

Lemma ft_get_bounds table inUse tb h si : table_rel table inUse tb -> 0 <= h -> 0 <= si ->
  - 65536 <= ft_get tb h si < si.
Proof.
  intros (_ & _ & Hrel) Hh Hsi. rewrite ft_get_entry. cbv zeta.
  destruct (Hrel _ (land_mask_range h Hh)) as [_ Hr]. rewrite ft_entry_mask in Hr.
  change lz4block_winMask with 65535. change lz4block_winSize with 65536.
  assert (Hl : 0 <= Z.ldiff si 65535 <= si).
  { change 65535 with (Z.ones 16). rewrite Z.ldiff_ones_r by lia.
    rewrite Z.shiftr_div_pow2, Z.shiftl_mul_pow2 by lia.
    pose proof (Z.div_mod si (2 ^ 16) ltac:(lia)). pose proof (Z.mod_pos_bound si (2 ^ 16) ltac:(lia)).
    pose proof (Z.div_pos si (2 ^ 16) ltac:(lia) ltac:(lia)). lia. }
  destruct (si <=? ft_entry tb h + Z.ldiff si 65535) eqn:E; [apply Z.leb_le in E|apply Z.leb_gt in E]; lia.
Qed.

Ltac do_get tb :=
  match goal with |- context [GoT.seq (call (lz4block_Compressor_get ?fuel)) ?K ?S] =>
    let i := fresh "i" in let E := fresh "E" in
    destruct (call_get_exec fuel K S tb) as [i E];
    [ lz4block_state_simpl | lz4block_state_simpl | lz4block_state_simpl
    | rewrite E; clear E; lz4block_state_simpl ] end.
Ltac do_put tb R :=
  match goal with |- context [GoT.seq (call (lz4block_Compressor_put ?fuel)) ?K ?S] =>
    let E := fresh "E" in
    destruct (call_put_exec fuel K S tb) as [E R];
    [ lz4block_state_simpl | lz4block_state_simpl
    | rewrite E; clear E; revert R; lz4block_state_simpl; intros R ] end.

Lemma if_true_eq {A} (a b : A) : (if true then a else b) = a. Proof. reflexivity. Qed.
Lemma if_false_eq {A} (a b : A) : (if false then a else b) = b. Proof. reflexivity. Qed.

Lemma seq_ite_true (c : state -> bool) (a b k : stmt) s : c s = true -> GoT.seq (ite c a b) k s = GoT.seq a k s.
Proof. intros H. rewrite seq_ite, H. reflexivity. Qed.

Section Search.
Variables (src ssp : list Z) (dl dsp : Z) (get : Z -> Z).
Let n := zlen src.
Hypothesis Hget : forall i, 0 <= i < n -> get i = znth src i.
Hypothesis Hsmall : n < 2 ^ 61.

Lemma le64_load64 s i : m_src s = src ++ ssp -> 0 <= i -> i + 8 <= n ->
  le64 (sl_slice (mkslice false L_src 0 (zlen src) (zlen src + zlen ssp)) i (zlen src) (zlen src + zlen ssp)) s
  = load64 get i.
Proof.
  intros Hm Hi Hle. unfold le64, sl_le64, sl_get, sl_slice; cbn [s_loc s_off]. lz4block_state_simpl.
  rewrite Hm, !Z.add_0_l, Z.add_0_r. rewrite !znth_app_l by (fold n; lia). rewrite <- !Hget by lia.
  unfold load64, load32, Base.le32.
  replace (i + 4 + 1) with (i + 5) by lia. replace (i + 4 + 2) with (i + 6) by lia.
  replace (i + 4 + 3) with (i + 7) by lia. ring.
Qed.

Lemma le32_slice st r : m_src st = src ++ ssp ->
  le32 (sl_slice (mkslice false L_src 0 (zlen src) (zlen src + zlen ssp)) r (zlen src) (zlen src + zlen ssp)) st =
  znth (src ++ ssp) (0 + r + 0) + 256 * znth (src ++ ssp) (0 + r + 1)
  + 65536 * znth (src ++ ssp) (0 + r + 2) + 16777216 * znth (src ++ ssp) (0 + r + 3).
Proof.
  intros H. unfold le32, sl_le32, sl_get, sl_slice; cbn [s_loc s_off]; lz4block_state_simpl. rewrite H. reflexivity.
Qed.


(* NOT PROVED (see notes/search_exec_script.v.txt: the script runs, Qed does not finish in time):
   the three-probe search equals one pstep of the model. *)
Definition search_stmt : Prop :=
  forall fuel K s si a tb,
  frame src ssp dl dsp s -> f_si s = si -> f_anchor s = a ->
  table_rel (mem_Compressor_table s) (mem_Compressor_inUse s) tb ->
  0 <= a <= si -> si + 14 < n ->
  search_post get si a tb src ssp dl dsp K s (search fuel K s).

End Search.

(* ------------------------------------------------------------------------------------------ *)
(* 5. What remains for refines_stmt                                                           *)
(* ------------------------------------------------------------------------------------------ *)
(* refines_stmt for sources longer than 14 bytes: NOT PROVED.  Missing: search_stmt above; the composition
   "match found" = fseq (bwd_exec, fwd_exec, emit_exec are its three parts); the main loop by loop_inv with
   ploop_S; the assembly with tail_exec / finish_fast_tail and the model's ploop_nopanic / ploop_nohang. *)
Definition refines_long_stmt : Prop :=
  forall fuel table inUse src src_spare dst dst_spare,
    14 < zlen src ->
    zlen table = 65536 -> Forall (fun v => 0 <= v < 65536) table ->
    zlen inUse = 2048 -> Forall (fun v => 0 <= v < 4294967296) inUse ->
    bytes src -> bytes src_spare -> bytes dst -> bytes dst_spare ->
    zlen src + zlen dst + zlen dst_spare < 2 ^ 61 ->
    (Z.to_nat (zlen src + zlen dst) + 2 <= fuel)%nat ->
    refines_check fuel table inUse src src_spare dst dst_spare = true.

(* with the short sources already proved (GenCompressBodyProofs.refines_stmt_short), that is all of it *)
Theorem refines_partial : refines_long_stmt -> refines_stmt.
Proof.
  intros HL fuel table inUse src src_spare dst dst_spare H1 H2 H3 H4 H5 H6 H7 H8 H9 H10.
  destruct (Z_le_gt_dec (zlen src) 14) as [Hs|Hs].
  - apply refines_stmt_short. exact Hs.
  - apply HL; try assumption. lia.
Qed.
