(* CompressFast.v — model of the method Compressor.CompressBlock in internal/lz4block/block.go.

   The source is read through an accessor [get : Z -> Z] (src[i] for 0 <= i < n); theorems
   quantify over every accessor.  The hash table is ABSTRACT here: a type T with the code's two
   operations get(h, si) and put(h, si).  The round-trip and strict-validity theorems hold for
   EVERY table behaviour, because the code confirms each candidate by comparing source bytes
   (only memory safety of `src[ref:]` needs the table invariant).  CompressFastTable.v gives the
   concrete table (16-bit entries, in-use bitmap, stale contents) the executable instance uses.

   The model is factorised: [parse_fast] is the match finder (what the loop decides), and
   [finish_block] serialises the sequences into a destination of length dstlen with the code's
   size checks.  The code's early error returns happen during serialisation and never influence
   the match finder, so the factorisation is exact; the correspondence runs compare the result for
   all destination lengths. *)
From LZ4V Require Import Base GenBlock BlockFormat.

Section Fast.
Variable get : Z -> Z.
Variable n : Z.                     (* len(src) *)
Variable T : Type.
Variable tget : T -> Z -> Z -> Z.   (* c.get(h, si) *)
Variable tput : T -> Z -> Z -> T.   (* c.put(h, si) *)

Definition load32 (i : Z) : Z := le32 (get i) (get (i + 1)) (get (i + 2)) (get (i + 3)).
Definition load64 (i : Z) : Z := load32 i + 4294967296 * load32 (i + 4).

(* src[a : a+l] *)
Fixpoint sub_from (a : Z) (l : nat) : list Z :=
  match l with O => [] | S k => get a :: sub_from (a + 1) k end.
Definition sub (a l : Z) : list Z := sub_from a (Z.to_nat l).

Definition sn : Z := n - lz4block_mfLimit.

(* number of equal leading bytes among the 8 at a and b: bits.TrailingZeros64(x) >> 3 of the xor *)
Fixpoint eq_run (k : nat) (a b : Z) : Z :=
  match k with O => 0 | S k' => if get a =? get b then 1 + eq_run k' (a + 1) (b + 1) else 0 end.

(* `for si+8 <= sn { x := load64(si) ^ load64(si-offset); if x == 0 { si += 8 } else { si += tz>>3; break } }` *)
Fixpoint fwd (fuel : nat) (si offset : Z) : Z :=
  match fuel with O => si | S f =>
    if si + 8 <=? sn then
      let k := eq_run 8 si (si - offset) in
      if k =? 8 then fwd f (si + 8) offset else si + k
    else si
  end.

(* `for lLen > 0 && tOff >= 0 && src[si-1] == src[tOff] { si--; tOff--; lLen--; mLen++ }` : steps taken *)
Fixpoint bwd (fuel : nat) (si tOff lLen : Z) : Z :=
  match fuel with O => 0 | S f =>
    if (0 <? lLen) && (0 <=? tOff) && (get (si - 1) =? get tOff)
    then 1 + bwd f (si - 1) (tOff - 1) (lLen - 1) else 0
  end.

(* a candidate at position si with reference ref is accepted iff the offset is in the window and
   four bytes agree.  `src[ref:]` with a negative ref panics: None. *)
Definition accept (si ref w32v : Z) : option bool :=
  let offset := si - ref in
  if (offset <=? 0) || (lz4block_winSize <=? offset) then Some false
  else if ref <? 0 then None
  else Some (w32v =? load32 ref).

Inductive pres := PPanic | PHang | POk (seqs : list seq) (anchor : Z).

Definition adaptSkipLog := lz4block_Compressor_CompressBlock_adaptSkipLog.

Fixpoint ploop (fuel : nat) (si anchor : Z) (tb : T) (acc : list seq) : pres :=
  match fuel with O => PHang | S f =>
  if sn <=? si then POk (rev_append acc []) anchor else
  let m := load64 si in
  let h := lz4block_blockHash m in
  let h2 := lz4block_blockHash (Z.shiftr m 8) in
  let ref := tget tb h si in
  let ref2 := tget tb h2 (si + 1) in
  let tb := tput (tput tb h si) h2 (si + 1) in
  (* after a match at position p with reference r *)
  let found (p r : Z) (tb : T) : pres :=
    let offset := p - r in
    let lLen := p - anchor in
    let b := bwd (Z.to_nat lLen) p (p - offset - 1) lLen in
    let mstart := p - b in
    let send := fwd f (p + lz4block_minMatch) offset in
    let s := mkseq (sub anchor (mstart - anchor)) offset (send - mstart) in
    if sn <=? send then POk (rev_append (s :: acc) []) send
    else
      let tb := tput tb (lz4block_blockHash (load64 (send - 2))) (send - 2) in
      ploop f send send tb (s :: acc) in
  match accept si ref (m mod 4294967296) with
  | None => PPanic
  | Some true => found si ref tb
  | Some false =>
    let h3 := lz4block_blockHash (Z.shiftr m 16) in
    let ref3 := tget tb h3 (si + 2) in
    match accept (si + 1) ref2 (Z.shiftr m 8 mod 4294967296) with
    | None => PPanic
    | Some true => found (si + 1) ref2 tb
    | Some false =>
      let tb := tput tb h3 (si + 2) in
      match accept (si + 2) ref3 (Z.shiftr m 16 mod 4294967296) with
      | None => PPanic
      | Some true => found (si + 2) ref3 tb
      | Some false => ploop f (si + 2 + 2 + Z.shiftr (si + 2 - anchor) adaptSkipLog) anchor tb acc
      end
    end
  end
  end.

Definition parse_fast (tb0 : T) : pres :=
  if sn <=? 0 then POk [] 0 else ploop (Z.to_nat n + 1) 0 0 tb0 [].

End Fast.

(* ---- serialisation with the code's destination-size checks (shared with the HC model) ---- *)
Inductive cres := CPanic | CHang | CErr | CZero | COk (block : list Z).

Definition seq_size (s : seq) : Z := len (enc_seq s).

(* sequences are written while they fit; the first one that does not fit is the error return *)
Fixpoint ser_seqs (dstlen di : Z) (ss : list seq) : option Z :=
  match ss with
  | [] => Some di
  | s :: tl => if dstlen <? di + seq_size s then None else ser_seqs dstlen (di + seq_size s) tl
  end.

(* lastLiterals of the fast compressor *)
Definition finish_fast (n dstlen : Z) (ss : list seq) (anchor : Z) (last : list Z) : cres :=
  let notc := dstlen <? lz4block_CompressBlockBound n in
  match ser_seqs dstlen 0 ss with
  | None => CErr
  | Some di =>
    if notc && (anchor =? 0) then CZero
    else if dstlen <=? di then CErr
    else
      let lLen := n - anchor in
      let hdr := 1 + len (extl lLen) in          (* token + length bytes *)
      if dstlen <? di + hdr then CErr
      else if notc && (anchor <=? di + hdr) then CZero
      else if dstlen <? di + hdr + lLen then CErr
      else COk (encode (ss, last))
  end.

Section FastTop.
Variable get : Z -> Z.
Variable n : Z.
Variable T : Type.
Variable tget : T -> Z -> Z -> Z.
Variable tput : T -> Z -> Z -> T.

Definition compress_fast (tb0 : T) (dstlen : Z) : cres :=
  match parse_fast get n T tget tput tb0 with
  | PPanic => CPanic
  | PHang => CHang
  | POk ss anchor => finish_fast n dstlen ss anchor (sub get anchor (n - anchor))
  end.
End FastTop.
