(* LegacyTruncProofs.v — proofs of LegacyTruncSpec.v (truncated legacy frames, C06 legacy half). *)
From Coq Require Import ZifyBool.
From LZ4V Require Import Base GenBlock GenStream GenLz4 XXH32 BlockFormat BlockExec CompressFast
  FrameSpec FrameImpl Writer Reader FrameTheoremsSpec Lifecycle ReaderSpec2 LegacySpec LegacyProofs LegacyTruncSpec.
From LZ4V Require BlockFormatProofs WriterProofs FrameEncodeProofs ReaderProofs ReaderProofs2.
Import ReaderProofs.

Ltac Zify.zify_post_hook ::= Z.div_mod_to_equations.
Local Opaque spec_decode_x.

(* ====================================================================== *)
(* 1. a source that ends inside a read                                    *)
(* ====================================================================== *)

Lemma read_full_cut s n : oksrc s -> s_rem s <> [] -> len (s_rem s) < n ->
  exists g s', read_full s n = (g, EUEOF, s').
Proof.
  intros Hok Hne Hlt. unfold oksrc in Hok. unfold read_full.
  pose proof (len_nonneg (s_rem s)) as Hl0.
  destruct (n <=? 0) eqn:E0; [lia|]. rewrite Hok. change (0 <? 0) with false. cbn [andb].
  destruct (s_rem s) as [|x l] eqn:El; [congruence|].
  rewrite take_upto_spec. cbn [rrev rev_append app].
  assert (Hgot : len (firstn (Z.to_nat n) (x :: l)) = len (x :: l)).
  { unfold len in *. rewrite firstn_length. lia. }
  destruct (len (firstn (Z.to_nat n) (x :: l)) =? n) eqn:E1; [lia|].
  eexists _, _. reflexivity.
Qed.

Lemma read_u32_cut s : oksrc s -> s_rem s <> [] -> len (s_rem s) < 4 -> exists x s', read_u32 s = (x, EUEOF, s').
Proof.
  intros Hok Hne Hlt. destruct (read_full_cut s 4 Hok Hne Hlt) as (g & s' & H).
  unfold read_u32. rewrite H. eexists _, _. reflexivity.
Qed.

(* ====================================================================== *)
(* 2. one block, cut                                                       *)
(* ====================================================================== *)

Lemma prefix_ge4 (w : Z) (s t t2 : list Z) : le32_bytes w ++ s = t ++ t2 -> 4 <= len t ->
  exists t', t = le32_bytes w ++ t' /\ s = t' ++ t2.
Proof.
  intros E Hl. destruct t as [|a [|b [|c [|d t']]]]; try (rewrite ?len_cons, ?len_nil in Hl; lia).
  unfold le32_bytes in *. cbn [app] in E. injection E as <- <- <- <- E. exists t'. split; [reflexivity|exact E].
Qed.

Lemma legacy_read_block_cut r cum w s t t2 :
  linv r cum -> s_rem (r_src r) = t -> t <> [] -> t2 <> [] -> le32_bytes w ++ s = t ++ t2 ->
  0 < w < 4294967296 -> w <> MAGIC_LEGACY -> w mod 2147483648 = len s -> 0 < len s <= 8388608 ->
  w <> cum mod 4294967296 ->
  exists r1, r_read_block r = (r1, EUEOF, []) /\ r_state r1 = r_state r.
Proof.
  intros Hinv Hrem Hne Hne2 Hsplit Hw Hnm Hsz Hls Hamb.
  assert (Hleg : is_legacy r = true) by (unfold is_legacy; rewrite (li_magic _ _ Hinv); reflexivity).
  destruct (Z.ltb_spec (len t) 4) as [Hlt|Hge].
  - (* 1..3 bytes of the size word *)
    destruct (read_u32_cut (r_src r) (li_ok _ _ Hinv) ltac:(rewrite Hrem; exact Hne) ltac:(rewrite Hrem; exact Hlt)) as (x & s' & Hrd).
    rewrite r_read_block_eq. cbv zeta. rewrite Hleg, Hrd.
    rewrite ReaderProofs2.skip_legacy_err by discriminate. cbv beta iota.
    eexists. split; reflexivity.
  - (* the size word is there, the payload is not (empty or partial) *)
    destruct (prefix_ge4 w s t t2 Hsplit Hge) as (t' & Ht & Hs).
    assert (Hshort : len t' < len s).
    { rewrite Hs, len_app. destruct t2 as [|y t2]; [congruence|]. rewrite len_cons. pose proof (len_nonneg t2). lia. }
    rewrite Ht in Hrem.
    destruct (legacy_read_word r cum w t' Hinv Hrem ltac:(lia) Hnm) as (s1 & Hrd & Hsk & Hr1 & Hok1 & Hc1).
    destruct Hinv as [Hmag Hfl Hok Hcum].
    assert (Hbsz : r_bsz r = 8388608) by (unfold r_bsz; rewrite Hfl; reflexivity).
    destruct (read_full_short s1 (len s) Hok1 ltac:(lia) ltac:(rewrite Hr1; exact Hshort)) as (g & e2 & s2 & Hrf & He2).
    rewrite r_read_block_eq. cbv zeta. rewrite Hleg, Hrd, Hsk. cbv beta iota.
    rewrite Hcum. destruct (w =? cum mod 4294967296) eqn:E; [lia|].
    rewrite dbs_size by lia. rewrite Hsz, Hbsz.
    destruct (8388608 <? len s) eqn:E2; [lia|].
    rewrite Hrf. cbv beta iota.
    destruct He2 as [-> | ->]; eexists; split; reflexivity.
Qed.

(* ====================================================================== *)
(* 3. the loop on complete blocks followed by a cut block                  *)
(* ====================================================================== *)

Lemma lbody_nil o : lbody o [] = [].
Proof. reflexivity. Qed.

Lemma legacy_loop_cut o : fo_legacy o = true -> level_ok (fo_level o) ->
  forall pre r cum out f c t t2, linv r cum -> Forall good8 pre -> good8 c ->
  cum_clash_free o cum (pre ++ [c]) = true ->
  s_rem (r_src r) = lbody o pre ++ t -> t <> [] -> t2 <> [] ->
  le32_bytes (lg_word o c) ++ lg_payload o c = t ++ t2 -> (length pre < f)%nat ->
  exists r', r_writeto_loop f r out = (r', out ++ concat pre, EUEOF) /\ r_state r' = r_state r.
Proof.
  intros Hl Hlev. induction pre as [|p pre IH]; intros r cum out f c t t2 Hinv Hg Hgc Hfree Hrem Hne Hne2 Hsplit Hf.
  - destruct f as [|f]; [cbn [length] in Hf; lia|]. rewrite r_writeto_loop_S.
    rewrite lbody_nil in Hrem. cbn [app] in Hrem, Hfree. cbn [cum_clash_free] in Hfree.
    rewrite (block_word_legacy o c Hl Hlev Hgc) in Hfree.
    pose proof (lg_facts o c Hlev Hgc) as Hfacts. cbv zeta in Hfacts.
    destruct Hfacts as (Hw & Hnm & Hsz & Hls & _ & _).
    destruct (legacy_read_block_cut r cum _ _ t t2 Hinv Hrem Hne Hne2 Hsplit Hw Hnm Hsz Hls ltac:(lia)) as (r1 & Hrb & Hst).
    rewrite Hrb. exists r1. cbn [concat]. rewrite app_nil_r. split; [reflexivity|exact Hst].
  - destruct f as [|f]; [cbn [length] in Hf; lia|]. rewrite r_writeto_loop_S.
    inversion Hg as [|? ? Hgp Hgpre]; subst.
    rewrite lbody_cons in Hrem by assumption. rewrite <- !app_assoc in Hrem.
    pose proof (lg_facts o p Hlev Hgp) as Hfacts. cbv zeta in Hfacts.
    destruct Hfacts as (Hw & Hnm & Hsz & Hls & _ & Hdec).
    cbn [app cum_clash_free] in Hfree. rewrite (block_word_legacy o p Hl Hlev Hgp) in Hfree.
    apply Bool.andb_true_iff in Hfree. destruct Hfree as [Hp Hfree].
    destruct (legacy_read_block_accept r cum (lg_word o p) (lg_payload o p) p (lbody o pre ++ t) Hinv Hrem Hw Hnm Hsz Hls Hdec ltac:(lia))
      as (r1 & Hrb & Hinv1 & Hr1 & _ & Hst1).
    rewrite Hrb.
    destruct (IH r1 (cum + len p) (out ++ p) f c t t2 Hinv1 Hgpre Hgc Hfree Hr1 Hne Hne2 Hsplit ltac:(cbn [length] in Hf; lia))
      as (r' & Hloop & Hst).
    exists r'. cbn [concat]. rewrite app_assoc. split; [exact Hloop|congruence].
Qed.

(* ====================================================================== *)
(* 4. WriteTo on a cut frame                                               *)
(* ====================================================================== *)

Lemma rst_next_err_state r e : e <> ENil -> r_state (rst_next r e) = lz4_errorState.
Proof. intros H. destruct e; try reflexivity. contradiction. Qed.

(* the magic itself is cut *)
Lemma legacy_writeto_cut_magic fk : fk <> [] -> len fk < 4 ->
  exists r', rstep (new_reader (src_of fk)) RWriteTo = (r', RRes 0 EUEOF []) /\ r_state r' = lz4_errorState.
Proof.
  intros Hne Hlt. rewrite rstep_writeto_new, parse_headers_S'.
  destruct (read_u32_cut (src_of fk) eq_refl Hne Hlt) as (x & s' & Hrd). rewrite Hrd. cbv beta iota.
  eexists. split; reflexivity.
Qed.

(* complete blocks [pre], then a non-empty strict prefix [t] of the block of [c] *)
Lemma legacy_writeto_cut o pre c t t2 : fo_legacy o = true -> level_ok (fo_level o) ->
  Forall good8 pre -> good8 c -> cum_clash_free o 0 (pre ++ [c]) = true ->
  t <> [] -> t2 <> [] -> le32_bytes (lg_word o c) ++ lg_payload o c = t ++ t2 ->
  let fk := le32_bytes MAGIC_LEGACY ++ lbody o pre ++ t in
  let out := concat pre in
  exists r', rstep (new_reader (src_of fk)) RWriteTo = (r', RRes (len out) EUEOF out) /\ r_state r' = lz4_errorState.
Proof.
  intros Hl Hlev Hg Hgc Hfree Hne Hne2 Hsplit fk out. rewrite rstep_writeto_new. rewrite parse_headers_S'.
  assert (Hok0 : oksrc (src_of fk)) by reflexivity.
  pose proof (read_u32_spec (src_of fk) Hok0) as Hu. change (s_rem (src_of fk)) with fk in Hu.
  unfold fk in Hu at 1. rewrite FrameEncodeProofs.u32le_le32_bytes in Hu by (unfold MAGIC_LEGACY; lia).
  destruct Hu as (s1 & Hrd & Hr1 & Hok1 & Hc1). rewrite Hrd. cbv beta iota.
  change ((MAGIC_LEGACY =? lz4stream_frameMagic) || (MAGIC_LEGACY =? lz4stream_frameMagicLegacy)) with true.
  change (MAGIC_LEGACY =? lz4stream_frameMagicLegacy) with true. cbv beta iota.
  assert (Hinv : linv (reader_after_init s1 MAGIC_LEGACY legacy_flags 0) 0).
  { constructor; [reflexivity|reflexivity|exact Hok1|reflexivity]. }
  assert (Hfuel : (length pre < S (length fk))%nat).
  { pose proof (lbody_blocks_le o Hl Hlev pre Hg) as H. unfold fk. rewrite !app_length. unfold len in H. lia. }
  destruct (legacy_loop_cut o Hl Hlev pre _ 0 [] (S (length fk)) c t t2 Hinv Hg Hgc Hfree Hr1 Hne Hne2 Hsplit Hfuel) as (r' & Hloop & Hst).
  rewrite Hloop. cbn [app]. fold out.
  eexists. split; [reflexivity|]. apply rst_next_err_state. discriminate.
Qed.

(* ====================================================================== *)
(* 5. positions                                                            *)
(* ====================================================================== *)

Lemma lbody_cons_gen o c bs : lbody o (c :: bs) = concat (block_writes o c) ++ lbody o bs.
Proof. unfold lbody. cbn [flat_map]. apply concat_app. Qed.

Lemma lbody_app o a b : lbody o (a ++ b) = lbody o a ++ lbody o b.
Proof. unfold lbody. rewrite flat_map_app. apply concat_app. Qed.

Lemma block_len_pos o c : fo_legacy o = true -> level_ok (fo_level o) -> good8 c -> 4 < block_len o c.
Proof.
  intros Hl Hlev Hg. unfold block_len. rewrite block_writes_legacy by assumption. cbn [concat].
  rewrite app_nil_r, len_app, FrameEncodeProofs.len_le32_bytes.
  pose proof (lg_facts o c Hlev Hg) as H. cbv zeta in H. lia.
Qed.

(* the j-th boundary *)
Lemma nth_boundaries o : forall blocks pos j, (j <= length blocks)%nat ->
  nth j (boundaries_from o pos blocks) 0 = pos + len (lbody o (firstn j blocks)).
Proof.
  induction blocks as [|c bs IH]; intros pos j Hj.
  - cbn [length] in Hj. assert (j = 0%nat) by lia. subst j. cbn [boundaries_from nth firstn]. rewrite lbody_nil, len_nil. lia.
  - destruct j as [|j]; cbn [boundaries_from nth firstn].
    + rewrite lbody_nil, len_nil. lia.
    + rewrite IH by (cbn [length] in Hj; lia). rewrite lbody_cons_gen, len_app. unfold block_len. lia.
Qed.

Lemma length_boundaries o : forall blocks pos, length (boundaries_from o pos blocks) = S (length blocks).
Proof. induction blocks as [|c bs IH]; intros pos; cbn [boundaries_from length]; [reflexivity|]. rewrite IH. reflexivity. Qed.

(* a position strictly inside the body that is no boundary lies strictly inside one block *)
Lemma cut_split o : forall blocks pos k, pos < k < pos + len (lbody o blocks) ->
  existsb (Z.eqb k) (boundaries_from o pos blocks) = false ->
  exists pre c rest, blocks = pre ++ c :: rest /\
    pos + len (lbody o pre) < k < pos + len (lbody o pre) + block_len o c.
Proof.
  induction blocks as [|c bs IH]; intros pos k Hk Hnb.
  - rewrite lbody_nil, len_nil in Hk. lia.
  - cbn [boundaries_from existsb] in Hnb. apply Bool.orb_false_iff in Hnb. destruct Hnb as [_ Hnb].
    rewrite lbody_cons_gen, len_app in Hk. fold (block_len o c) in Hk.
    destruct (Z.ltb_spec k (pos + block_len o c)) as [Hlt|Hge].
    + exists [], c, bs. split; [reflexivity|]. rewrite lbody_nil, len_nil. lia.
    + assert (Hne : k <> pos + block_len o c).
      { intros ->. destruct bs; cbn [boundaries_from existsb] in Hnb; rewrite Z.eqb_refl in Hnb; discriminate. }
      destruct (IH (pos + block_len o c) k ltac:(lia) Hnb) as (pre & c' & rest & -> & Hin).
      exists (c :: pre), c', rest. split; [reflexivity|].
      rewrite lbody_cons_gen, len_app. fold (block_len o c). lia.
Qed.

Lemma firstn_mid (a b c : list Z) (d : nat) : (d <= length b)%nat ->
  firstn (length a + d) (a ++ b ++ c) = a ++ firstn d b.
Proof.
  intros Hd. rewrite firstn_app. rewrite firstn_all2 by lia. f_equal.
  replace (length a + d - length a)%nat with d by lia.
  rewrite firstn_app. replace (d - length b)%nat with 0%nat by lia. cbn [firstn]. apply app_nil_r.
Qed.

Lemma clash_free_app o : forall a b cum, cum_clash_free o cum (a ++ b) = true -> cum_clash_free o cum a = true.
Proof.
  induction a as [|x a IH]; intros b cum H; [reflexivity|]. cbn [app cum_clash_free] in *.
  apply Bool.andb_true_iff in H. destruct H as [H0 H1]. rewrite H0, (IH b _ H1). reflexivity.
Qed.

Lemma is_prefix_concat_firstn (blocks : list (list Z)) j : is_prefix (concat (firstn j blocks)) (concat blocks).
Proof. exists (concat (skipn j blocks)). rewrite <- concat_app, firstn_skipn. reflexivity. Qed.

(* ====================================================================== *)
(* 6. sessions                                                             *)
(* ====================================================================== *)

Lemma firstn_len_pre {A} (pre : list A) c rest : firstn (length pre) (pre ++ c :: rest) = pre.
Proof. rewrite firstn_app, Nat.sub_diag, firstn_all. cbn [firstn]. apply app_nil_r. Qed.
Lemma firstn_S_len_pre {A} (pre : list A) c rest : firstn (S (length pre)) (pre ++ c :: rest) = pre ++ [c].
Proof. induction pre as [|p pre IH]; [reflexivity|]. cbn [length app]. rewrite firstn_cons, IH. reflexivity. Qed.

Lemma boundaries_legacy o items : fo_legacy o = true -> legacy_boundaries o items = boundaries_from o 4 (sblocks items).
Proof. intros Hl. unfold legacy_boundaries. rewrite bsz_of_legacy by exact Hl. reflexivity. Qed.

Lemma unamb_sblocks os o items : opts_after os = Some o -> fo_legacy o = true -> Forall item_ok items ->
  legacy_unambiguous o items = true -> cum_clash_free o 0 (sblocks items) = true.
Proof.
  intros Hopt Hl Hit Hun. rewrite (legacy_magic_clause_redundant os o items Hopt Hl Hit), bsz_of_legacy in Hun by exact Hl.
  exact Hun.
Qed.

Lemma lframe_length o blocks : length (lframe o blocks) = (4 + length (lbody o blocks))%nat.
Proof. unfold lframe. rewrite app_length. reflexivity. Qed.

Theorem legacy_boundaries_spec : legacy_boundaries_spec_stmt.
Proof.
  intros os o items Hopt Hl Hit blocks f.
  assert (Hf : f = lframe o (sblocks items)) by (apply (session_frame os o items Hopt Hl Hit)).
  subst blocks. rewrite (boundaries_legacy o items Hl), bsz_of_legacy by exact Hl. fold (sblocks items).
  split; [apply length_boundaries|]. split.
  - intros j Hj. rewrite nth_boundaries by exact Hj. reflexivity.
  - rewrite nth_boundaries by lia. rewrite firstn_all, Hf. unfold lframe. rewrite len_app. reflexivity.
Qed.
Print Assumptions legacy_boundaries_spec.

Theorem legacy_truncation_exact : legacy_truncation_exact_stmt.
Proof.
  intros os o items k Hopt Hl Hit Hun. cbv zeta. unfold session_frame_of.
  rewrite (session_frame os o items Hopt Hl Hit). unfold legacy_boundary.
  rewrite (boundaries_legacy o items Hl), bsz_of_legacy by exact Hl. fold (sblocks items).
  pose proof (opts_level_ok os o Hopt) as Hlev. pose proof (sblocks_good items Hit) as Hg.
  pose proof (unamb_sblocks os o items Hopt Hl Hit Hun) as Hfree.
  set (blocks := sblocks items) in *. intros Hk Hnb. rewrite lframe_length in Hk.
  destruct (Nat.ltb_spec k 4) as [Hk4|Hk4].
  - (* inside the magic *)
    destruct (legacy_writeto_cut_magic (firstn k (lframe o blocks))) as (r' & Hr & Hst).
    { intros E. apply (f_equal (@length Z)) in E. rewrite firstn_length, lframe_length in E. cbn [length] in E. lia. }
    { unfold len. rewrite firstn_length, lframe_length. lia. }
    exists 0%nat, r'. split; [lia|]. split; [reflexivity|]. split; [lia|].
    cbn [firstn concat]. split; [exact Hr|]. split; [exact Hst|]. exists (data_of items). reflexivity.
  - assert (Hk4' : Z.of_nat k <> 4).
    { intros E. destruct blocks; cbn [boundaries_from existsb] in Hnb; rewrite E in Hnb; discriminate. }
    destruct (cut_split o blocks 4 (Z.of_nat k) ltac:(unfold len; lia) Hnb) as (pre & c & rest & Eb & Hin).
    assert (Hgpre : Forall good8 pre) by (rewrite Eb in Hg; apply Forall_app in Hg; exact (proj1 Hg)).
    assert (Hgc : good8 c).
    { rewrite Eb in Hg. apply Forall_app in Hg. destruct Hg as [_ Hg2]. inversion Hg2; assumption. }
    assert (Hfree1 : cum_clash_free o 0 (pre ++ [c]) = true).
    { apply (clash_free_app o (pre ++ [c]) rest). rewrite <- app_assoc. cbn [app]. rewrite <- Eb. exact Hfree. }
    set (B := le32_bytes (lg_word o c) ++ lg_payload o c).
    assert (HB : concat (block_writes o c) = B).
    { rewrite block_writes_legacy by assumption. cbn [concat]. rewrite app_nil_r. reflexivity. }
    unfold block_len in Hin. rewrite HB in Hin.
    set (a := le32_bytes MAGIC_LEGACY ++ lbody o pre).
    assert (Hla : len a = 4 + len (lbody o pre)) by (unfold a; rewrite len_app; reflexivity).
    set (d := (k - length a)%nat).
    assert (Hd : (0 < d < length B)%nat) by (unfold d, len in *; lia).
    assert (Hfk : firstn k (lframe o blocks) = le32_bytes MAGIC_LEGACY ++ lbody o pre ++ firstn d B).
    { replace k with (length a + d)%nat by (unfold d, len in *; lia).
      unfold lframe. rewrite Eb, lbody_app, lbody_cons_gen, HB. rewrite app_assoc. fold a.
      rewrite firstn_mid by lia. unfold a. rewrite <- app_assoc. reflexivity. }
    destruct (legacy_writeto_cut o pre c (firstn d B) (skipn d B) Hl Hlev Hgpre Hgc Hfree1) as (r' & Hr & Hst).
    { intros E. apply (f_equal (@length Z)) in E. rewrite firstn_length in E. cbn [length] in E. lia. }
    { intros E. apply (f_equal (@length Z)) in E. rewrite skipn_length in E. cbn [length] in E. lia. }
    { fold B. symmetry. apply firstn_skipn. }
    cbv zeta in Hr. rewrite <- Hfk in Hr.
    assert (Hfj : firstn (length pre) blocks = pre) by (rewrite Eb; apply firstn_len_pre).
    assert (Hfj1 : firstn (S (length pre)) blocks = pre ++ [c]) by (rewrite Eb; apply firstn_S_len_pre).
    assert (Hlb : length blocks = (length pre + S (length rest))%nat) by (rewrite Eb, app_length; reflexivity).
    exists (length pre), r'. rewrite Hfj.
    split; [lia|]. split; [lia|]. split.
    + intros _. split; [lia|].
      rewrite !nth_boundaries by lia. rewrite Hfj, Hfj1, lbody_app, lbody_cons_gen, HB, lbody_nil, app_nil_r, len_app. lia.
    + split; [exact Hr|]. split; [exact Hst|].
      rewrite <- sblocks_data. fold blocks. rewrite <- Hfj. apply is_prefix_concat_firstn.
Qed.
Print Assumptions legacy_truncation_exact.

Theorem legacy_truncation : legacy_truncation_stmt.
Proof.
  intros os o items k r' m e out Hopt Hl Hit Hun f Hk Hnb Hr.
  destruct (legacy_truncation_exact os o items k Hopt Hl Hit Hun Hk Hnb) as (j & r2 & _ & _ & _ & Hr2 & _ & Hpre).
  fold f in Hr2. rewrite Hr in Hr2. injection Hr2 as _ _ -> ->.
  split; [discriminate|]. split; [discriminate|exact Hpre].
Qed.
Print Assumptions legacy_truncation.

Lemma session_frame_bytes os o items : opts_after os = Some o -> fo_legacy o = true -> Forall item_ok items ->
  bytes (session_frame_of os items).
Proof.
  intros Hopt Hl Hit. unfold session_frame_of. rewrite (session_frame os o items Hopt Hl Hit).
  apply bytes_lframe; [exact Hl|exact (opts_level_ok os o Hopt)|exact (sblocks_good items Hit)].
Qed.

Theorem legacy_truncation_read : legacy_truncation_read_stmt.
Proof.
  intros os o items k n Hopt Hl Hit Hun Hn f Hk Hnb.
  destruct (legacy_truncation_exact os o items k Hopt Hl Hit Hun Hk Hnb) as (j & r2 & _ & _ & _ & Hr2 & _ & Hpre).
  fold f in Hr2. cbv zeta in Hr2.
  assert (Hb : bytes (firstn k f)) by (apply bytes_firstn; exact (session_frame_bytes os o items Hopt Hl Hit)).
  destruct (reader_read_eq_writeto _ n _ _ _ _ Hb Hn Hr2 ltac:(discriminate)) as (r'' & Hread).
  exists r'', (concat (firstn j (blocks_of (bsz_of o) items []))), EUEOF.
  split; [exact Hread|]. repeat split; try discriminate. exact Hpre.
Qed.
Print Assumptions legacy_truncation_read.

Theorem legacy_cut_on_boundary : legacy_cut_on_boundary_stmt.
Proof.
  intros os o items k n Hopt Hl Hit Hun Hn. cbv zeta. unfold session_frame_of.
  rewrite (session_frame os o items Hopt Hl Hit). unfold legacy_boundary.
  rewrite (boundaries_legacy o items Hl), bsz_of_legacy by exact Hl. fold (sblocks items).
  pose proof (opts_level_ok os o Hopt) as Hlev. pose proof (sblocks_good items Hit) as Hg.
  pose proof (unamb_sblocks os o items Hopt Hl Hit Hun) as Hfree.
  set (blocks := sblocks items) in *. intros Hb.
  apply existsb_exists in Hb. destruct Hb as (x & Hin & Hx). apply Z.eqb_eq in Hx. subst x.
  destruct (In_nth _ _ 0 Hin) as (j & Hj & Hnth). rewrite length_boundaries in Hj.
  exists j. split; [lia|]. split; [symmetry; exact Hnth|].
  rewrite nth_boundaries in Hnth by lia.
  set (pre := firstn j blocks) in *.
  assert (Hfk : firstn k (lframe o blocks) = lframe o pre).
  { unfold lframe. rewrite <- (firstn_skipn j blocks) at 1. fold pre. rewrite lbody_app, app_assoc.
    replace k with (Z.to_nat (len (le32_bytes MAGIC_LEGACY ++ lbody o pre))).
    - apply BlockFormatProofs.firstn_len_app.
    - rewrite len_app. change (len (le32_bytes MAGIC_LEGACY)) with 4. lia. }
  rewrite Hfk.
  assert (Hgpre : Forall good8 pre).
  { rewrite <- (firstn_skipn j blocks) in Hg. apply Forall_app in Hg. exact (proj1 Hg). }
  assert (Hfree1 : cum_clash_free o 0 pre = true).
  { apply (clash_free_app o pre (skipn j blocks)). unfold pre. rewrite firstn_skipn. exact Hfree. }
  destruct (legacy_writeto o pre Hl Hlev Hgpre) as (r' & Hr & Hst & Hcons & _). cbv zeta in Hr.
  rewrite (delivered_clash_free o _ _ Hfree1) in Hr.
  split; [rewrite <- sblocks_data; apply is_prefix_concat_firstn|]. split.
  - exists r'. split; [exact Hr|]. split; [exact Hst|]. rewrite (Hcons Hfree1).
    unfold lframe. rewrite len_app. change (len (le32_bytes MAGIC_LEGACY)) with 4. lia.
  - apply (reader_read_eq_writeto _ n _ _ _ _ (bytes_lframe o _ Hl Hlev Hgpre) Hn Hr). discriminate.
Qed.
Print Assumptions legacy_cut_on_boundary.

Theorem legacy_truncation_iff : legacy_truncation_iff_stmt.
Proof.
  intros os o items k r' m e out Hopt Hl Hit Hun f Hk Hr.
  destruct (legacy_boundary o items (Z.of_nat k)) eqn:Hb.
  - destruct (legacy_cut_on_boundary os o items k 1 Hopt Hl Hit Hun ltac:(lia) Hb) as (j & _ & _ & Hpre & (r2 & Hr2 & _) & _).
    fold f in Hr2. rewrite Hr in Hr2. injection Hr2 as _ _ -> ->.
    split; [split; [discriminate|intros H; exfalso; apply H; reflexivity]|]. split; [discriminate|exact Hpre].
  - destruct (legacy_truncation os o items k r' m e out Hopt Hl Hit Hun Hk Hb Hr) as (H1 & H2 & H3).
    split; [split; [intros _; exact H1|reflexivity]|]. split; assumption.
Qed.
Print Assumptions legacy_truncation_iff.

Theorem legacy_truncation_needs_unambiguous : legacy_truncation_needs_unambiguous_stmt.
Proof.
  intros H.
  assert (Hopt : opts_after lw_os = Some (mkfo 28676 0 0 true)) by (vm_compute; reflexivity).
  assert (Hit : Forall (fun i => match i with IWrite d => bytes d | IFlush => True end) lw_items).
  { unfold lw_items. repeat constructor; unfold is_byte; lia. }
  destruct (rstep (new_reader (src_of (firstn 16 (session_frame_of lw_os lw_items)))) RWriteTo) as [r' res] eqn:E.
  assert (Hres : res = RRes 2 ENil [1; 2]) by (vm_compute in E; injection E as _ <-; reflexivity).
  subst res.
  destruct (H lw_os _ lw_items 16%nat r' 2 ENil [1; 2] Hopt eq_refl Hit) as (Hne & _).
  - vm_compute. split; repeat constructor.
  - vm_compute. reflexivity.
  - exact E.
  - apply Hne. reflexivity.
Qed.
Print Assumptions legacy_truncation_needs_unambiguous.

(* the boundaries of the 4-block session LegacyProofs.ex_items (frame of 50 bytes) *)
Example legacy_boundaries_ex : legacy_boundaries (mkfo 28676 0 0 true) ex_items = [4; 12; 20; 44; 50].
Proof. vm_compute. reflexivity. Qed.
Print Assumptions legacy_boundaries_ex.
