(* ReaderSpec2.v — further Reader statements (C02 composition, C06, C15, C16, C17 reader side). *)
From LZ4V Require Import Base GenBlock GenStream GenLz4 XXH32 BlockFormat BlockExec FrameSpec FrameImpl Writer Reader FrameTheoremsSpec Lifecycle.

(* C02: what a well-formed Writer session emits is read back, through WriteTo and through Read with
   ANY positive buffer size, as exactly the input followed by a clean end of stream *)
Definition roundtrip_stmt : Prop :=
  forall os o items n, opts_after os = Some o -> modern o ->
  Forall (fun i => match i with IWrite d => bytes d | IFlush => True end) items ->
  (fo_csize o <= 0 \/ fo_csize o = len (data_of items)) -> len (data_of items) < 2 ^ 64 -> 0 < n ->
  let w := fst (run_writer (new_writer s0) (WApply os :: map item_op items ++ [WClose]) s0) in
  let f := sink_bytes (w_sink w) in
  (exists r', rstep (new_reader (src_of f)) RWriteTo = (r', RRes (len (data_of items)) ENil (data_of items))
              /\ r_state r' = lz4_closedState /\ s_consumed (r_src r') = len f) /\
  (exists r'', read_until (S (length f) + S (length (data_of items))) (new_reader (src_of f)) n [] = (r'', data_of items, EEOF)).

(* C06: every strict prefix of such a frame ends in an error that is not a clean end of stream, after
   delivering a prefix of the content (WriteTo and Read) *)
Definition truncation2_stmt : Prop :=
  forall os o items k r' m e out, opts_after os = Some o -> modern o ->
  Forall (fun i => match i with IWrite d => bytes d | IFlush => True end) items ->
  (fo_csize o <= 0 \/ fo_csize o = len (data_of items)) -> len (data_of items) < 2 ^ 64 ->
  let f := frame_of_items o items in
  (1 <= k < length f)%nat ->
  rstep (new_reader (src_of (firstn k f))) RWriteTo = (r', RRes m e out) ->
  e <> ENil /\ e <> EEOF /\ is_prefix out (data_of items).

(* C15: the source failing at its k-th call *)
Definition source_fault2_stmt : Prop :=
  forall input k r' n e out r0 n0 e0 out0, bytes input -> 0 < k ->
  rstep (new_reader (mksrc input 0 k 0)) RWriteTo = (r', RRes n e out) ->
  rstep (new_reader (src_of input)) RWriteTo = (r0, RRes n0 e0 out0) ->
  is_prefix out out0 /\ (e = EInjected \/ (e = e0 /\ out = out0)).
