(* GenXXHBodySpec.v — the STATEMENTS proved in GenXXHBodyProofs.v about the translated xxh32
   functions (GenXXHBody.v, generated from internal/xxh32/xxh32zero.go), with the definitions
   they need.  Nothing is proved here.

   Vocabulary: [checksum_zero], [xwrite], [xsum32], [xst] are the hand-written models of XXH32.v;
   [xxh32_ref] is the reference XXH32 (seed 0); [repr] (XXH32Proofs.v) relates a streaming state
   to the bytes written so far. *)
From Coq Require Import ZArith List Lia Bool Arith.
From LZ4V Require Import Base GoT GenXXH XXH32 XXH32Proofs GenXXHBody.
Import ListNotations.
Open Scope Z_scope.

(* ---- the streaming state: abstraction to the model's state, well-formedness ---- *)
Definition lanes_at (v : list Z) : lanes := (znth v 0, znth v 1, znth v 2, znth v 3).
Definition abs_x (s : state) : xst :=
  mkx (lanes_at (mem_XXHZero_v s)) (XXHZero_totalLen s)
      (firstn (Z.to_nat (XXHZero_bufused s)) (mem_XXHZero_buf s)).
Definition is_word32 (w : Z) : Prop := 0 <= w < 2 ^ 32.
(* the two arrays of the struct *)
Definition wf_arrays (s : state) : Prop :=
  length (mem_XXHZero_v s) = 4%nat /\ Forall is_word32 (mem_XXHZero_v s) /\
  length (mem_XXHZero_buf s) = 16%nat /\ bytes (mem_XXHZero_buf s).
Definition wf_x (s : state) : Prop :=
  wf_arrays s /\ 0 <= XXHZero_bufused s < 16 /\ 0 <= XXHZero_totalLen s < 2 ^ 64.

(* What Write returns for an input of N bytes written in state s: N, except when a pending
   stripe (m = bufused bytes, after the implicit Reset of a fresh state) is completed — then
   the 16 - m bytes that completed it are not counted (the Go code returns n after `n -= c`). *)
Definition write_ret (s : state) (N : Z) : Z :=
  let m := if XXHZero_totalLen s =? 0 then 0 else XXHZero_bufused s in
  if (N <? 16 - m) || (m =? 0) then N else N - (16 - m).

(* a chunk is given as (data, spare capacity of its backing array) *)
Fixpoint run_writes (fuel : nat) (chunks : list (list Z * list Z)) (s : state) : outcome state :=
  match chunks with
  | [] => Ret s
  | c :: cs =>
    match xxh32_XXHZero_Write fuel (init_xxh32_XXHZero_Write_fresh (fst c) (snd c) s) with
    | Ret s' => run_writes fuel cs s'
    | o => o
    end
  end.

(* the zero value of the struct, inside any state *)
Definition zero_XXHZero (s0 : state) : state := init_xxh32_XXHZero [0; 0; 0; 0] 0 (repeat 0 16) 0 s0.

Definition chunk_ok (fuel : nat) (c : list Z * list Z) : Prop :=
  bytes (fst c) /\ len (fst c) < 2 ^ 63 /\ (length (fst c) / 16 < fuel)%nat.

(* ---- 1. one-shot ---- *)
Definition checksumZeroGo_correct_stmt : Prop :=
  forall (input spare : list Z) (s0 : state) (fuel : nat),
  len input < 2 ^ 63 -> (length input / 16 + 4 <= fuel)%nat ->
  exists s', xxh32_checksumZeroGo fuel (init_xxh32_checksumZeroGo_fresh input spare s0) = Ret s'
             /\ checksumZeroGo_ret0 s' = checksum_zero input.

Definition checksumZeroGo_ref_stmt : Prop :=
  forall (input spare : list Z) (s0 : state) (fuel : nat),
  len input < 2 ^ 63 -> (length input / 16 + 4 <= fuel)%nat ->
  exists s', xxh32_checksumZeroGo fuel (init_xxh32_checksumZeroGo_fresh input spare s0) = Ret s'
             /\ checksumZeroGo_ret0 s' = xxh32_ref input.

(* ---- 2. the three methods ---- *)
Definition XXHZero_Write_correct_stmt : Prop :=
  forall (input spare : list Z) (s : state) (fuel : nat),
  wf_x s -> bytes input -> len input < 2 ^ 63 -> (length input / 16 < fuel)%nat ->
  exists s', xxh32_XXHZero_Write fuel (init_xxh32_XXHZero_Write_fresh input spare s) = Ret s'
             /\ XXHZero_Write_ret0 s' = write_ret s (len input)
             /\ wf_x s' /\ abs_x s' = xwrite (abs_x s) input.

Definition XXHZero_Sum32_correct_stmt : Prop :=
  forall (s : state) (fuel : nat),
  wf_x s -> (4 <= fuel)%nat ->
  exists s', xxh32_XXHZero_Sum32 fuel s = Ret s'
             /\ XXHZero_Sum32_ret0 s' = xsum32 (abs_x s)
             /\ abs_x s' = abs_x s /\ wf_x s'.

Definition XXHZero_Reset_correct_stmt : Prop :=
  forall (s : state) (fuel : nat),
  wf_arrays s ->
  exists s', xxh32_XXHZero_Reset fuel s = Fall s'
             /\ wf_x s' /\ abs_x s' = mkx reset_lanes 0 [] /\ repr (abs_x s') [].

(* ---- 3. end to end ---- *)
Definition stream_correct_stmt : Prop :=
  forall (fuel : nat) (chunks : list (list Z * list Z)) (s0 : state),
  Forall (chunk_ok fuel) chunks -> (4 <= fuel)%nat ->
  len (concat (map fst chunks)) < 2 ^ 64 ->
  exists s1 s2,
    run_writes fuel chunks (zero_XXHZero s0) = Ret s1 /\
    xxh32_XXHZero_Sum32 fuel s1 = Ret s2 /\
    XXHZero_Sum32_ret0 s2 = xxh32_ref (concat (map fst chunks)).

Definition stream_correct_simple_stmt : Prop :=
  forall (fuel : nat) (chunks : list (list Z)) (s0 : state),
  Forall bytes chunks -> Forall (fun c => len c < 2 ^ 63) chunks ->
  len (concat chunks) < 2 ^ 64 -> (length (concat chunks) / 16 + 4 <= fuel)%nat ->
  exists s1 s2,
    run_writes fuel (map (fun c => (c, [])) chunks) (zero_XXHZero s0) = Ret s1 /\
    xxh32_XXHZero_Sum32 fuel s1 = Ret s2 /\
    XXHZero_Sum32_ret0 s2 = xxh32_ref (concat chunks).
