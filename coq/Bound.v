(* Bound.v — the worst-case size of an LZ4 block encoding:
   |encode p| <= n + n/255 + 16 with n = total_len p, for every well-formed parse. *)
From LZ4V Require Import Base GenBlock BlockFormat BlockFormatProofs CompressFast CompressFastTable CompressHC CompressHCTop CompressSpec.

Local Ltac Zify.zify_post_hook ::= Z.div_mod_to_equations.

Lemma len_repeat {A} (x : A) n : len (repeat x n) = Z.of_nat n.
Proof. unfold len; rewrite repeat_length; reflexivity. Qed.

Lemma len_ext v : 0 <= v -> len (ext v) = v / 255 + 1.
Proof.
  intros Hv. unfold ext. rewrite len_app, len_repeat, len_cons, len_nil.
  rewrite Z2Nat.id by (apply Z.div_pos; lia). lia.
Qed.

(* the two facts about a length extension that the bound needs *)
Lemma len_extl v : 0 <= v ->
  0 <= len (extl v) /\ 255 * len (extl v) <= v + 240 /\ (v < 15 -> len (extl v) = 0).
Proof.
  intros Hv. unfold extl. destruct (v <? 15) eqn:E.
  - apply Z.ltb_lt in E. change (len (@nil Z)) with 0. lia.
  - apply Z.ltb_ge in E. rewrite len_ext by lia. lia.
Qed.

Definition seqs_len (ss : list seq) : Z :=
  fold_right (fun s a => len (lits s) + mlen s + a) 0 ss.

(* one sequence: its encoding exceeds what it decodes to by at most 1/255 of the latter *)
Lemma enc_seq_bound s : wf_seq s ->
  255 * (len (enc_seq s) - (len (lits s) + mlen s)) <= len (lits s) + mlen s.
Proof.
  intros (_ & _ & Hm). unfold enc_seq.
  rewrite len_cons, !len_app, !len_cons, len_nil.
  pose proof (len_nonneg (lits s)) as Hl.
  destruct (len_extl (len (lits s)) Hl) as (Ha0 & Ha1 & Ha2).
  destruct (len_extl (mlen s - 4) ltac:(lia)) as (Hb0 & Hb1 & Hb2).
  destruct (Z_lt_le_dec (len (lits s)) 15) as [L|L];
  destruct (Z_lt_le_dec (mlen s - 4) 15) as [M|M];
  try (specialize (Ha2 L)); try (specialize (Hb2 M)); lia.
Qed.

Lemma enc_seqs_bound ss : Forall wf_seq ss ->
  255 * (len (flat_map enc_seq ss) - seqs_len ss) <= seqs_len ss.
Proof.
  induction 1 as [|s tl Hs Htl IH].
  - cbn [flat_map seqs_len fold_right]. change (len (@nil Z)) with 0. lia.
  - cbn [flat_map seqs_len fold_right]. fold (seqs_len tl).
    rewrite len_app. pose proof (enc_seq_bound s Hs). lia.
Qed.

(* the final literals cost 1 + |extl l| on top of themselves *)
Lemma enc_last_bound l : 255 * (len (enc_last l) - len l) <= len l + 495.
Proof.
  unfold enc_last. rewrite len_cons, len_app.
  destruct (len_extl (len l) (len_nonneg l)) as (H0 & H1 & _). lia.
Qed.

Lemma encode_bound_mul p : wf_parse p ->
  255 * (len (encode p) - total_len p - 16) <= total_len p.
Proof.
  intros (Hss & _). unfold encode, total_len. fold (seqs_len (fst p)).
  rewrite len_app.
  pose proof (enc_seqs_bound (fst p) Hss). pose proof (enc_last_bound (snd p)).
  pose proof (len_nonneg (snd p)). lia.
Qed.

Theorem encode_bound : encode_bound_stmt.
Proof.
  intros p Hp. pose proof (encode_bound_mul p Hp) as H. lia.
Qed.

Lemma total_len_nonneg p : wf_parse p -> 0 <= total_len p.
Proof.
  intros (Hss & _). unfold total_len. fold (seqs_len (fst p)).
  pose proof (len_nonneg (snd p)).
  assert (0 <= seqs_len (fst p)); [|lia].
  induction Hss as [|s tl (_ & _ & Hm) Htl IH]; cbn [seqs_len fold_right]; [lia|].
  fold (seqs_len tl). pose proof (len_nonneg (lits s)). lia.
Qed.

Corollary encode_bound_go : forall p, wf_parse p ->
  len (encode p) <= lz4block_CompressBlockBound (total_len p).
Proof.
  intros p Hp. unfold lz4block_CompressBlockBound.
  rewrite Z.quot_div_nonneg by (try apply total_len_nonneg; auto; lia).
  apply encode_bound; assumption.
Qed.

Print Assumptions encode_bound.
Print Assumptions encode_bound_go.
