(* GenDecodeBodyTests.v — the statement of GenDecodeBodyProofs.decodeBlock_refines evaluated by vm_compute on
   small blocks (literal-only, short / overlapping / dictionary matches, the two shortcuts at their
   boundaries, truncated blocks, destinations of every length around the decoded size), with spare
   capacity behind dst / src / dict and a destination pre-filled with distinguishable bytes.  These
   were run BEFORE the proof to make sure the statement (in particular "the bytes the model leaves
   beyond the returned count are the bytes the code leaves") is true as stated. *)
From Coq Require Import ZArith List Lia Bool Arith.
From LZ4V Require Import Base GoT GenDecodeBody BlockFormat BlockExec DecodePortable.
Import ListNotations.
Open Scope Z_scope.

Definition list_eqb (a b : list Z) : bool :=
  (length a =? length b)%nat && forallb (fun p => fst p =? snd p) (combine a b).

(* the conclusion of decodeBlock_refines as a boolean *)
Definition ck (src dst0 dsp dict : list Z) : bool :=
  let fuel := (length src + 65)%nat in
  match lz4block_decodeBlock fuel (init_lz4block_decodeBlock_fresh dst0 dsp src [7;7] dict [9] zero_state) with
  | Ret s' =>
    let frame := list_eqb (skipn (length dst0) (mem_decodeBlock_dst s')) dsp
               && list_eqb (mem_decodeBlock_src s') (src ++ [7;7]) && list_eqb (mem_decodeBlock_dict s') (dict ++ [9]) in
    match decode_portable src dst0 dict with
    | DOk n d => (decodeBlock_ret s' =? n) && list_eqb (firstn (length dst0) (mem_decodeBlock_dst s')) d && frame
    | DErr => (decodeBlock_ret s' =? -2) && frame
    end
  | _ => false
  end.

Definition j (n : nat) : list Z := map Z.of_nat (List.seq 100%nat n).
Definition sweep (src dict : list Z) (lo n : nat) : bool :=
  forallb (fun k => ck src (j k) [55; 4] dict) (List.seq lo n).

Example literal_only : sweep [48;1;2;3] [] 0 8 = true.
Proof. vm_compute. reflexivity. Qed.
Example short_match : sweep [0x12;65;1;0; 0] [] 0 12 = true.
Proof. vm_compute. reflexivity. Qed.
Example overlapping_match : sweep [0x2F;65;66;2;0;20; 0] [] 30 20 = true.
Proof. vm_compute. reflexivity. Qed.
Example doubling_offset3 : sweep [0x3F;1;2;3;3;0;1;0] [] 0 40 = true.
Proof. vm_compute. reflexivity. Qed.
Example doubling_long : sweep [0x1F;1;1;0;100;0] [8;9;10;11] 100 40 = true
  /\ sweep [0x1F;1;2;0;100;0] [8;9;10;11] 100 40 = true
  /\ sweep [0x1F;1;3;0;100;0x10;3] [8;9;10;11] 100 40 = true.
Proof. vm_compute. repeat split; reflexivity. Qed.
Example dictionary_match : sweep [0x13;65;4;0; 0x10; 70] [1;2;3;4;5] 0 16 = true
  /\ sweep [0x13;65;6;0; 0x10; 70] [1;2;3;4;5] 0 16 = true
  /\ sweep [0x13;65;7;0; 0x10; 70] [1;2;3;4;5] 0 16 = true
  /\ sweep [0x3F;1;2;3;5;0;1;0] [8;9;10;11] 0 40 = true
  /\ sweep [0x3F;1;2;3;9;0;1;0] [8;9;10;11] 0 40 = true.
Proof. vm_compute. repeat split; reflexivity. Qed.
Example shortcut1 : sweep ([0x30;1;2;3;3;0] ++ [0x20;5;6;2;0] ++ [0xE0] ++ j 14) [] 0 45 = true
  /\ sweep ([0x54;1;2;3;4;5;5;0] ++ [0x20;5;6;2;0] ++ [0xE0] ++ j 14) [] 0 65 = true.
Proof. vm_compute. repeat split; reflexivity. Qed.
Example shortcut2 : sweep ([0x50;1;2;3;4;5;4;0] ++ [0x20;5;6;2;0] ++ [0xE0] ++ j 14) [] 0 65 = true
  /\ sweep ([0x5E;1;2;3;4;5;4;0] ++ [0x20;5;6;2;0] ++ [0xE0] ++ j 14) [] 0 65 = true.
Proof. vm_compute. repeat split; reflexivity. Qed.
Example truncated :
  forallb (fun n => ck (firstn n ([0x5E;1;2;3;4;5;4;0] ++ [0x20;5;6;2;0] ++ [0xE0] ++ j 14)) (j 50) [55] []) (List.seq 0 30) = true
  /\ forallb (fun s => ck s (j 10) [55] []) [[0x12;65;1]; [0x1F;65;1;0;255]; [0xF0;255]; []; [0]; [0x12;65;0;0;0]] = true.
Proof. vm_compute. repeat split; reflexivity. Qed.
