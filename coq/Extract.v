(* Extract.v — extraction of the executable models for the correspondence check.
   ExtrOcamlBasic only: bool/option/unit/list/prod/sumbool map to OCaml natives,
   Z / positive / N / nat stay as extracted inductives. *)
From Coq Require Extraction.
From Coq Require Import ExtrOcamlBasic.
From LZ4V Require Import Base GenXXH GenBlock GenStream GenLz4 XXH32 BlockFormat BlockExec DecodePortable DecodeAsm CompressFast CompressFastTable CompressHC CompressHCTop FrameSpec FrameImpl Writer Reader CReader PipeW GenLz4c Lz4c.

Extraction "model.ml"
  Z.add Z.mul Z.sub Z.div Z.modulo Z.of_nat Z.to_nat Z.eqb Z.ltb Z.leb
  checksum_zero xxh32_ref xzero xwrite xsum32_g mkx
  spec_decode spec_decode_x encode parse_block strict decode_portable decode_asm
  compress_fast_list compress_hc_list lz4block_CompressBlockBound
  frame_spec new_writer run_writer wstep sink_bytes new_reader rstep run_reader new_creader cr_read parse_headers trace_ok cmd_compress cmd_compress_stdio cmd_uncompress parse_desc.

(* the Reader pipeline checker is extracted to its own module: its names (cid, event, trace_ok)
   coincide with those of the Writer pipeline *)
From LZ4V Require PipeR.
Extraction "modelr.ml" PipeR.trace_ok.
