package main

import (
	"bytes"
	"fmt"
	"runtime/debug"
	"strconv"
	"syscall"

	lz4 "github.com/pierrec/lz4/v4"
	"github.com/pierrec/lz4/v4/internal/lz4block"
)

func init() {
	components["dec"] = compDec
	replayers = append(replayers, replayDec)
}

// ---- guarded memory: a buffer that ends exactly at an unmapped page ----
const pageSize = 4096

type guarded struct {
	region []byte
}

// allocGuard returns a slice of n bytes whose end coincides with a PROT_NONE page.
func allocGuard(n int) ([]byte, *guarded) {
	pages := (n+pageSize-1)/pageSize + 1
	reg, err := syscall.Mmap(-1, 0, (pages+1)*pageSize, syscall.PROT_READ|syscall.PROT_WRITE, syscall.MAP_ANON|syscall.MAP_PRIVATE)
	must(err)
	must(syscall.Mprotect(reg[pages*pageSize:], syscall.PROT_NONE))
	end := pages * pageSize
	return reg[end-n : end : end], &guarded{reg}
}
func (g *guarded) free() { syscall.Munmap(g.region) }

type decCase struct {
	src, dict []byte
	dstlen    int
	fa, fb    int
	mode      int // 0: guard pages (cap == len), 1: canaries (cap > len, sub-slice of a larger array), 2: nil dst when dstlen == 0
}

func (c *decCase) fields() string {
	return fmt.Sprintf("src=%s dict=%s dstlen=%d fa=%d fb=%d mode=%d", hx(c.src), hx(c.dict), c.dstlen, c.fa, c.fb, c.mode)
}

// runDec runs the build's decoder and reports the canonical observation.
func runDec(c *decCase) (obs string) {
	debug.SetPanicOnFault(true)
	var src, dst, dict []byte
	var frees []*guarded
	defer func() {
		for _, g := range frees {
			g.free()
		}
	}()
	const pad = 64
	var arena []byte
	switch c.mode {
	case 0:
		var g *guarded
		src, g = allocGuard(len(c.src))
		frees = append(frees, g)
		copy(src, c.src)
		dst, g = allocGuard(c.dstlen)
		frees = append(frees, g)
		if len(c.dict) > 0 {
			dict, g = allocGuard(len(c.dict))
			frees = append(frees, g)
			copy(dict, c.dict)
		}
	default:
		src = append([]byte(nil), c.src...)
		dict = append([]byte(nil), c.dict...)
		if len(c.dict) == 0 {
			dict = nil
		}
		arena = make([]byte, pad+c.dstlen+pad)
		for i := range arena {
			arena[i] = 0xA5
		}
		dst = arena[pad : pad+c.dstlen] // cap extends over the trailing canary
		if c.mode == 2 && c.dstlen == 0 {
			dst = nil
		}
	}
	for i := range dst {
		dst[i] = byte(i*c.fa + c.fb)
	}
	defer func() {
		if r := recover(); r != nil {
			obs = fmt.Sprintf("res=crash oracle_mem=fail:panic:%s", sanitizeMsg(fmt.Sprint(r)))
		}
	}()
	n := lz4block.VerifDecodeBlock(dst, src, dict)
	// the public entry points (UncompressBlock / UncompressBlockWithDict) around the same decoder:
	// an error exactly when the decoder reports one, else the same count and bytes; never a count
	// outside 0..len(dst) without an error (an empty source is their documented (0, nil))
	pub := "ok"
	if len(c.src) > 0 {
		d2 := make([]byte, c.dstlen)
		for i := range d2 {
			d2[i] = byte(i*c.fa + c.fb)
		}
		var n2 int
		var e2 error
		if len(c.dict) == 0 {
			n2, e2 = lz4.UncompressBlock(c.src, d2)
		} else {
			n2, e2 = lz4.UncompressBlockWithDict(c.src, d2, c.dict)
		}
		switch {
		case e2 == nil && (n2 < 0 || n2 > len(d2)):
			pub = fmt.Sprintf("fail:public-API-returns-n=%d-without-error-for-len(dst)=%d", n2, len(d2))
		case n < 0 && e2 == nil:
			pub = fmt.Sprintf("fail:public-API-returns-(%d,nil)-where-the-decoder-reports-%d", n2, n)
		case n >= 0 && n <= len(dst) && (e2 != nil || n2 != n || !bytes.Equal(d2[:n2], dst[:n])):
			pub = fmt.Sprintf("fail:public-API-returns-(%d,err=%v)-where-the-decoder-returns-%d", n2, e2 != nil, n)
		}
	}
	mem := "ok"
	if arena != nil {
		for i := 0; i < pad; i++ {
			if arena[i] != 0xA5 || arena[pad+c.dstlen+i] != 0xA5 {
				mem = fmt.Sprintf("fail:canary-at-%d", i)
				break
			}
		}
	}
	if !bytes.Equal(src, c.src) || !bytes.Equal(dict, c.dict) {
		mem = "fail:src-or-dict-modified"
	}
	if n < 0 {
		return fmt.Sprintf("res=err x_code=%d oracle_mem=%s oracle_pub=%s", n, mem, pub)
	}
	if n > len(dst) {
		return fmt.Sprintf("res=ok n=%d oracle_mem=%s oracle_n=fail:n=%d>len(dst)=%d", n, mem, n, len(dst))
	}
	return fmt.Sprintf("res=ok n=%d out=%s dst=%s oracle_mem=%s oracle_n=ok oracle_pub=%s", n, hx(dst[:n]), hx(dst), mem, pub)
}

func sanitizeMsg(s string) string {
	b := []byte(s)
	for i := range b {
		if b[i] == ' ' || b[i] == '=' {
			b[i] = '_'
		}
	}
	if len(b) > 80 {
		b = b[:80]
	}
	return string(b)
}

func replayDec(kind string, f map[string]string) (string, bool) {
	if kind != "dec" {
		return "", false
	}
	c := &decCase{src: unhex(f["src"]), dict: unhex(f["dict"])}
	c.dstlen, _ = strconv.Atoi(f["dstlen"])
	c.fa, _ = strconv.Atoi(f["fa"])
	c.fb, _ = strconv.Atoi(f["fb"])
	c.mode, _ = strconv.Atoi(f["mode"])
	return runDec(c), true
}

// ---- block grammar ----
type gseq struct {
	lits []byte
	off  int
	mlen int
}

func encLen(out []byte, v int) []byte { // v >= 15 already subtracted: 255-continued
	for v >= 255 {
		out = append(out, 255)
		v -= 255
	}
	return append(out, byte(v))
}

func encodeSeqs(seqs []gseq, last []byte, finalToken bool) []byte {
	var out []byte
	for _, s := range seqs {
		ln, mn := len(s.lits), s.mlen-4
		tok := 0
		if ln < 15 {
			tok = ln << 4
		} else {
			tok = 0xF0
		}
		if mn < 15 {
			tok |= mn
		} else {
			tok |= 0xF
		}
		out = append(out, byte(tok))
		if ln >= 15 {
			out = encLen(out, ln-15)
		}
		out = append(out, s.lits...)
		out = append(out, byte(s.off), byte(s.off>>8))
		if mn >= 15 {
			out = encLen(out, mn-15)
		}
	}
	if finalToken {
		ln := len(last)
		if ln < 15 {
			out = append(out, byte(ln<<4))
		} else {
			out = append(out, 0xF0)
			out = encLen(out, ln-15)
		}
		out = append(out, last...)
	}
	return out
}

var litClasses = []int{0, 0, 1, 1, 2, 3, 5, 8, 13, 14, 14, 15, 15, 16, 17, 30, 31, 32, 33, 47, 48, 49, 64, 100, 269, 270, 271, 300, 524, 525, 526, 1000}
var mlenClasses = []int{4, 4, 5, 6, 7, 8, 12, 15, 16, 17, 18, 18, 19, 19, 20, 21, 32, 33, 40, 64, 100, 272, 273, 274, 275, 300, 528, 529, 1000}

// genBlock builds a block from the sequence grammar; the offsets are chosen relative to the
// output position so that every class of C04's quantifier occurs (valid and invalid ones).
func genBlock(r *rng, dictLen int, maxSeqs int, wantValid bool) (seqs []gseq, last []byte, outLen int) {
	n := r.intn(maxSeqs + 1)
	di := 0
	for i := 0; i < n; i++ {
		ll := r.pick(litClasses)
		if r.intn(4) == 0 {
			ll = r.intn(20)
		}
		lits := r.bytes(ll)
		if r.intn(3) == 0 { // low-entropy literals make overlapping copies visible
			for j := range lits {
				lits[j] = byte('a' + j%7)
			}
		}
		di += ll
		ml := r.pick(mlenClasses)
		if r.intn(4) == 0 {
			ml = 4 + r.intn(30)
		}
		var off int
		cls := r.intn(22)
		cands := []int{1, 2, 3, 4, 7, 8, 9, 15, 16, 17, 18, 19, 20, 31, 32, di, di - 1, di + 1, di + dictLen, di + dictLen - 1, 65535, ml, ml - 1, ml + 1}
		if cls < len(cands) {
			off = cands[cls]
		}
		if cls >= len(cands) || off <= 0 || off > 65535 {
			if di+dictLen > 0 {
				off = 1 + r.intn(min(di+dictLen, 65535))
			} else {
				off = 1 + r.intn(8)
			}
		}
		if wantValid {
			lim := min(di+dictLen, 65535)
			if lim == 0 {
				// no history at all: make some by prepending a literal
				lits = append(lits, byte(r.next()))
				di++
				lim = 1
			}
			if off > lim {
				off = 1 + r.intn(lim)
			}
		} else if r.intn(8) == 0 {
			off = []int{0, di + dictLen + 1, di + dictLen + 2, 65535}[r.intn(4)]
		}
		seqs = append(seqs, gseq{lits, off, ml})
		di += ml
	}
	ll := r.pick(litClasses)
	if r.intn(3) == 0 {
		ll = r.intn(12)
	}
	last = r.bytes(ll)
	return seqs, last, di + ll
}

func min(a, b int) int {
	if a < b {
		return a
	}
	return b
}

func compDec(o *out, seed uint64, tier string) {
	r := newRng(seed, "dec")
	defer compDecBig(o, newRng(seed, "decbig"), tier)
	n := 2500
	if tier == "thorough" {
		n = 60000
	}
	emit := func(c *decCase, class string, multi bool) {
		obs := runDec(c)
		nt := multi
		o.emit("dec", c.fields(), obs, nt)
		o.count(class)
		if len(obs) >= 6 && obs[:6] == "res=ok" {
			o.count("outcome=ok")
		} else {
			o.count("outcome=err")
		}
	}
	for i := 0; i < n; i++ {
		dictLen := 0
		switch r.intn(6) {
		case 0:
			dictLen = 1 + r.intn(64)
		case 1:
			dictLen = []int{4, 16, 300, 65535, 65536, 70000}[r.intn(6)]
		}
		dict := r.bytes(dictLen)
		maxSeqs := 4
		if r.intn(10) == 0 {
			maxSeqs = 40
		}
		valid := r.intn(4) != 0
		seqs, last, outLen := genBlock(r, dictLen, maxSeqs, valid)
		finalTok := r.intn(12) != 0
		if !finalTok {
			outLen -= len(last)
		}
		src := encodeSeqs(seqs, last, finalTok)
		// destination size classes: exact, one short, a little more, much more, tiny
		var dl int
		cls := r.intn(10)
		switch {
		case cls < 3:
			dl = outLen
		case cls == 3:
			dl = outLen - 1
		case cls == 4:
			dl = outLen + 1 + r.intn(48)
		case cls == 5:
			dl = outLen + 64 + r.intn(200)
		case cls == 6:
			dl = r.intn(64)
		case cls == 7:
			dl = outLen - 1 - r.intn(40)
		default:
			dl = outLen + r.intn(33)
		}
		if dl < 0 {
			dl = 0
		}
		class := fmt.Sprintf("dstclass=%d", cls)
		// malformed stream: mutate the encoding
		mut := r.intn(5)
		switch mut {
		case 0:
			if len(src) > 1 {
				src = src[:1+r.intn(len(src)-1)] // truncation at any byte
				class = "mut=truncate"
			}
		case 1:
			if len(src) > 0 {
				src = append([]byte(nil), src...)
				src[r.intn(len(src))] ^= 1 << uint(r.intn(8))
				class = "mut=bitflip"
			}
		}
		c := &decCase{src: src, dict: dict, dstlen: dl, fa: 1 + 2*r.intn(100), fb: r.intn(256), mode: r.intn(2)}
		if dl == 0 && r.intn(2) == 0 {
			c.mode = 2
		}
		emit(c, class, len(seqs) >= 1)
	}
	// wide-copy shortcuts starting within 0..48 bytes of the end of src and dst: a few leading
	// sequences, then a short-literal/short-match sequence, then a tiny final literal run;
	// destination lengths around the exact output length
	for i := 0; i < n/3; i++ {
		dictLen := 0
		if r.intn(5) == 0 {
			dictLen = 1 + r.intn(40)
		}
		dict := r.bytes(dictLen)
		seqs, _, outLen := genBlock(r, dictLen, r.intn(3), true)
		ll := 8 + r.intn(7)  // 8..14 literals
		ml := 4 + r.intn(15) // 4..18
		di := outLen + ll
		off := ml + r.intn(8)
		if r.intn(3) == 0 {
			off = 1 + r.intn(20)
		}
		if off > di+dictLen {
			off = di + dictLen
		}
		seqs = append(seqs, gseq{r.bytes(ll), off, ml})
		last := r.bytes(r.intn(4))
		final := r.intn(8) != 0
		total := di + ml
		if final {
			total += len(last)
		}
		dl := total - 20 + r.intn(24)
		if r.intn(3) == 0 {
			dl = total + r.intn(50)
		}
		if dl < 0 {
			dl = 0
		}
		class := "tail-shortcut"
		if r.intn(4) == 0 {
			// the 18-byte match copy whose SOURCE fits but whose DESTINATION does not: 14 literals,
			// match 4..18, empty final literals, len(dst) in [di-off+18, di+ml)
			seqs = seqs[:len(seqs)-1]
			ll, last, final = 14, nil, true
			di = outLen + ll
			off = ml + r.intn(10)
			if off > di+dictLen {
				off = di + dictLen
			}
			seqs = append(seqs, gseq{r.bytes(ll), off, ml})
			lo, hi := di-off+18, di+ml-1
			if lo < 0 {
				lo = 0
			}
			if hi >= lo {
				dl = lo + r.intn(hi-lo+1)
			}
			class = "tail-match18-dst-short"
		}
		src := encodeSeqs(seqs, last, final)
		c := &decCase{src: src, dict: dict, dstlen: dl, fa: 1 + 2*r.intn(100), fb: r.intn(256), mode: r.intn(2)}
		emit(c, class, true)
	}
	// a block whose FIRST sequence has no literals and a small offset: the match starts in the last
	// bytes of the dictionary and runs over into the (still empty) output
	for i := 0; i < n/10; i++ {
		dictLen := []int{1, 2, 3, 4, 7, 16, 300, 65535, 70000}[r.intn(9)]
		dict := r.bytes(dictLen)
		off := 1 + r.intn(3)
		if off > dictLen {
			off = dictLen
		}
		ml := 4 + r.intn(40)
		seqs := []gseq{{nil, off, ml}}
		if r.intn(2) == 0 {
			seqs = append(seqs, gseq{r.bytes(r.intn(5)), 1 + r.intn(ml), 4 + r.intn(20)})
		}
		last := r.bytes(5 + r.intn(5))
		total := len(last)
		for _, q := range seqs {
			total += len(q.lits) + q.mlen
		}
		src := encodeSeqs(seqs, last, true)
		dl := total
		if r.intn(4) == 0 {
			dl = total + r.intn(40)
		}
		emit(&decCase{src: src, dict: dict, dstlen: dl, fa: 1 + 2*r.intn(100), fb: r.intn(256), mode: r.intn(2)}, "dict-first-seq-no-literals", true)
	}
	// nil / empty destinations with sources of every small length (F2)
	for l := 1; l <= 40; l++ {
		src := r.bytes(l)
		emit(&decCase{src: src, dstlen: 0, fa: 1, fb: 0, mode: 2}, "nil-dst", true)
		src2 := append([]byte{byte(r.intn(15) << 4)}, r.bytes(l)...)
		emit(&decCase{src: src2, dstlen: r.intn(40), fa: 3, fb: 1, mode: r.intn(2)}, "short-dst-random-src", true)
	}
	// pure random sources
	for i := 0; i < n/10; i++ {
		src := r.bytes(1 + r.intn(60))
		emit(&decCase{src: src, dict: r.bytes(r.intn(3) * 10), dstlen: r.intn(300), fa: 5, fb: 9, mode: r.intn(2)}, "random-src", false)
	}
}
