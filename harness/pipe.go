package main

import (
	"bytes"
	"fmt"
	"io"
	"runtime"
	"strconv"
	"strings"
	"time"

	lz4 "github.com/pierrec/lz4/v4"
	"github.com/pierrec/lz4/v4/internal/verifhook"
)

func init() {
	components["pipe"] = compPipe
	replayers = append(replayers, replayPipe)
}

// pipe cases: a concurrent Writer session (blocks of 64 KiB) run under the scheduling
// perturbation hooks with buffer poisoning, its trace recorded; then the frame is read back by a
// concurrent Reader under perturbation as well.
type pipeCase struct {
	conc   int
	nblk   int // full blocks
	tail   int // extra bytes
	kind   int
	seed   int
	pseed  uint64 // perturbation seed
	chunk  int    // write size (0: one Write)
	fault  int    // sink call that fails (0: none)
	reuse  bool   // Close; Reset; second frame
	rdconc int
	flush  int  // call Flush after every flush-th Write (0: never)
	once   bool // the sink fails at that call only
	legacy bool
}

func (c *pipeCase) fields() string {
	return fmt.Sprintf("conc=%d nblk=%d tail=%d kind=%d seed=%d pseed=%d chunk=%d fault=%d reuse=%d rdconc=%d flush=%d once=%d legacy=%d",
		c.conc, c.nblk, c.tail, c.kind, c.seed, c.pseed, c.chunk, c.fault, b2i(c.reuse), c.rdconc, c.flush, b2i(c.once), b2i(c.legacy))
}

func replayPipe(kind string, f map[string]string) (string, bool) {
	if kind != "pipe" {
		return "", false
	}
	ps, _ := strconv.ParseUint(f["pseed"], 10, 64)
	c := &pipeCase{conc: atoi(f["conc"]), nblk: atoi(f["nblk"]), tail: atoi(f["tail"]), kind: atoi(f["kind"]), seed: atoi(f["seed"]),
		pseed: ps, chunk: atoi(f["chunk"]), fault: atoi(f["fault"]), reuse: f["reuse"] == "1", rdconc: atoi(f["rdconc"]), flush: atoi(f["flush"]), once: f["once"] == "1", legacy: f["legacy"] == "1"}
	return runPipe(c), true
}

var evName = map[string]string{
	"w.enqueue": "enq", "w.submitted": "sub", "w.wk.offer": "off", "w.mgr.take": "take", "w.mgr.recv": "recv",
	"w.mgr.close": "close", "w.mgr.exit": "exit", "w.wk.woken": "woken", "w.wk.done": "done",
	"w.close.enqueue": "cenq", "w.close.offer": "coff", "w.close.done": "cdone",
}

func writeSession(w *lz4.Writer, data []byte, chunk int, flush int) error {
	if chunk <= 0 {
		chunk = len(data)
	}
	k := 0
	// the caller owns its buffer again as soon as Write returns: it is refilled at once
	scratch := make([]byte, chunk)
	for pos := 0; pos < len(data); pos += chunk {
		end := pos + chunk
		if end > len(data) {
			end = len(data)
		}
		nb := copy(scratch, data[pos:end])
		_, err := w.Write(scratch[:nb])
		for i := 0; i < nb; i++ {
			scratch[i] = 0xEE
		}
		if err != nil {
			w.Close() // the caller closes a failed Writer too: Close must release the pipeline
			return err
		}
		k++
		if flush > 0 && k%flush == 0 {
			if err := w.Flush(); err != nil {
				w.Close()
				return err
			}
		}
	}
	return w.Close()
}

func runPipe(c *pipeCase) string {
	return withWatchdog(20*time.Second, func() string {
		g0 := runtime.NumGoroutine()
		data := genData(c.kind, c.seed, c.nblk*65536+c.tail)
		// sequential reference output (determinism across concurrency levels and schedules, C14)
		var ref bytes.Buffer
		zr0 := lz4.NewWriter(&ref)
		zr0.Apply(lz4.BlockSizeOption(lz4.Block64Kb), lz4.BlockChecksumOption(!c.legacy), lz4.LegacyOption(c.legacy))
		writeSession(zr0, data, c.chunk, c.flush)
		// concurrent run under perturbation
		sk := &sink{failAt: c.fault, once: c.once}
		zw := lz4.NewWriter(sk)
		zw.Apply(lz4.BlockSizeOption(lz4.Block64Kb), lz4.BlockChecksumOption(!c.legacy), lz4.LegacyOption(c.legacy), lz4.ConcurrencyOption(c.conc))
		verifhook.Start(c.pseed, true)
		werr := writeSession(zw, data, c.chunk, c.flush)
		tr := verifhook.Stop()
		// renumber channels by order of enqueue; the sentinel is the close.enqueue object
		// channel addresses can be reused once a channel is garbage: the mapping is rebound at each enqueue
		ids := map[string]string{}
		nj := 0
		var evs []string
		for _, e := range tr {
			if e.Point == "w.enqueue" {
				ids[e.Obj] = strconv.Itoa(nj)
				nj++
			}
			if e.Point == "w.close.enqueue" {
				ids[e.Obj] = "s"
			}
			n, ok := evName[e.Point]
			if !ok {
				continue
			}
			id, known := ids[e.Obj]
			if !known {
				id = "?"
			}
			evs = append(evs, n+":"+id)
		}
		obs := fmt.Sprintf("njobs=%d tr=%s", nj, strings.Join(evs, ","))
		det := "ok"
		if c.fault == 0 {
			if werr != nil {
				det = "fail:error-without-fault:" + errClass(werr)
			} else if !bytes.Equal(sk.buf.Bytes(), ref.Bytes()) {
				det = fmt.Sprintf("fail:concurrent-output-differs-from-sequential(%d-vs-%d-bytes)", sk.buf.Len(), ref.Len())
			}
		} else {
			if sk.failed && werr == nil {
				det = "fail:sink-failure-not-reported"
			}
			if !c.once && !bytes.HasPrefix(ref.Bytes(), sk.buf.Bytes()) {
				det = "fail:sink-not-a-prefix-of-fault-free-output"
			}
		}
		obs += " oracle_deterministic=" + det
		// reuse: Close; Reset; a second frame on the same object
		if c.reuse && c.fault == 0 {
			var b2 bytes.Buffer
			zw.Reset(&b2)
			verifhook.Start(c.pseed+1, true)
			err2 := writeSession(zw, data, c.chunk, c.flush)
			verifhook.Stop()
			if err2 != nil || !bytes.Equal(b2.Bytes(), ref.Bytes()) {
				obs += " oracle_reuse=fail:second-frame-differs"
			} else {
				obs += " oracle_reuse=ok"
			}
		}
		// concurrent Reader under perturbation
		rd := "ok"
		if c.fault == 0 {
			zr := lz4.NewReader(bytes.NewReader(ref.Bytes()))
			zr.Apply(lz4.ConcurrencyOption(c.rdconc))
			verifhook.Start(c.pseed+2, true)
			var out bytes.Buffer
			var err error
			if c.seed%2 == 0 {
				_, err = zr.WriteTo(&out)
			} else {
				_, err = io.Copy(&out, struct{ io.Reader }{zr})
			}
			verifhook.Stop()
			if err != nil || !bytes.Equal(out.Bytes(), data) {
				rd = fmt.Sprintf("fail:concurrent-read-err=%s-got%d-want%d", errClass(err), out.Len(), len(data))
			}
			// a corrupted block in the middle: the error must surface, no goroutine may remain
			if len(ref.Bytes()) > 200 {
				bad := append([]byte{}, ref.Bytes()...)
				bad[len(bad)/2] ^= 0x55
				zr2 := lz4.NewReader(bytes.NewReader(bad))
				zr2.Apply(lz4.ConcurrencyOption(c.rdconc))
				verifhook.Start(c.pseed+3, true)
				var o2 bytes.Buffer
				_, e2 := zr2.WriteTo(&o2)
				verifhook.Stop()
				if e2 == nil && !bytes.Equal(o2.Bytes(), data) && !c.legacy {
					// (legacy frames carry no checksum: a flipped literal byte is simply other content)
					// (a flipped byte of a compressed block can leave its decoded bytes unchanged,
					// e.g. another offset into a run: then there is nothing to report)
					rd = "fail:corrupted-frame-read-without-error-and-other-content"
				} else if e2 != nil && !bytes.HasPrefix(data, o2.Bytes()) && !c.legacy {
					rd = "fail:corrupted-frame-delivered-non-prefix"
				}
			}
		}
		obs += " oracle_reader=" + rd
		leak := "ok"
		deadline := time.Now().Add(5 * time.Second) // a goroutine that is still winding down is not a leak: only one that never ends is
		for runtime.NumGoroutine() > g0 && time.Now().Before(deadline) {
			time.Sleep(2 * time.Millisecond)
		}
		if n := runtime.NumGoroutine(); n > g0 {
			leak = fmt.Sprintf("fail:%d-goroutines-remain", n-g0)
		}
		return obs + " oracle_noleak=" + leak
	})
}

func compPipe(o *out, seed uint64, tier string) {
	r := newRng(seed, "pipe")
	n := 120
	if tier == "thorough" {
		n = 1500
	}
	for i := 0; i < n; i++ {
		c := &pipeCase{conc: []int{2, 2, 3, 4, 8, 16}[r.intn(6)], nblk: r.intn(7), tail: []int{0, 1, 100, 65535}[r.intn(4)], kind: r.intn(4), seed: r.intn(1000),
			pseed: 1 + r.next()%1000000, chunk: []int{0, 1000, 65536, 65537, 100000}[r.intn(5)], reuse: r.intn(3) == 0, rdconc: []int{2, 4, 8}[r.intn(3)]}
		if r.intn(3) == 0 {
			c.flush = 1 + r.intn(3)
			c.chunk = []int{1000, 30000, 65537, 100000}[r.intn(4)]
		}
		if i%6 == 5 {
			// legacy frames written concurrently in many small blocks (Write; Flush per record): the
			// 8 MiB block buffers go back and forth between the producer, the workers and the pools
			c.legacy = true
			c.flush = 1
			c.chunk = []int{1000, 5000}[r.intn(2)]
			c.nblk, c.tail = r.intn(3), []int{100, 65535}[r.intn(2)]
			c.reuse = r.intn(2) == 0
		}
		if r.intn(5) == 0 {
			c.fault = 1 + r.intn(3*(c.nblk+1)+2)
			c.once = r.intn(2) == 0
			c.legacy = r.intn(3) == 0
			c.reuse = false
		}
		obs := iso("pipe", c.fields(), 30*time.Second)
		tr, nj := "", "0"
		for _, kv := range strings.Split(obs, " ") {
			if strings.HasPrefix(kv, "tr=") {
				tr = kv[3:]
			}
			if strings.HasPrefix(kv, "njobs=") {
				nj = kv[6:]
			}
		}
		// the trace goes to the model side (extracted checker); it is not compared field by field
		obs = strings.Replace(strings.Replace(obs, "tr=", "x_tr=", 1), "njobs=", "x_njobs=", 1)
		o.emit("pipe", c.fields()+" injobs="+nj+" itr="+tr, obs, c.nblk >= 2)
		o.count(fmt.Sprintf("conc=%d", c.conc))
		if c.fault > 0 {
			o.count("with-sink-fault")
		}
	}
}
