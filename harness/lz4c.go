package main

import (
	"bytes"
	"fmt"
	"os"
	"os/exec"
	"path/filepath"
	"strings"
	"time"

	lz4 "github.com/pierrec/lz4/v4"
)

func init() {
	components["lz4c"] = compLz4c
	replayers = append(replayers, replayLz4c)
}

// the lz4c binary is built by the check driver from /repo/cmd/lz4c against the working tree
func lz4cBin() string {
	if p := os.Getenv("VERIF_LZ4C"); p != "" {
		return p
	}
	// next to this runner (the driver builds both into the same bin directory)
	if exe, err := os.Executable(); err == nil {
		return filepath.Join(filepath.Dir(exe), "lz4c")
	}
	return "/verif/bin/lz4c"
}

type lz4cCase struct {
	data  string // dataspec
	data2 string // second file ("" = none)
	flags string // e.g. "-bc -size 64K -l 3"
	stdio bool
	mode  int
}

func (c *lz4cCase) fields() string {
	d2 := c.data2
	if d2 == "" {
		d2 = "-"
	}
	return fmt.Sprintf("data=%s data2=%s flags=%s stdio=%d mode=%o", c.data, d2, strings.ReplaceAll(c.flags, " ", "_"), b2i(c.stdio), c.mode)
}

func replayLz4c(kind string, f map[string]string) (string, bool) {
	if kind != "lz4c" {
		return "", false
	}
	var mode int
	fmt.Sscanf(f["mode"], "%o", &mode)
	d2 := f["data2"]
	if d2 == "-" {
		d2 = ""
	}
	c := &lz4cCase{data: f["data"], data2: d2, flags: strings.ReplaceAll(f["flags"], "_", " "), stdio: f["stdio"] == "1", mode: mode}
	return runLz4c(c), true
}

func runCmd(dir string, stdin []byte, args ...string) (stdout []byte, code int, err error) {
	cmd := exec.Command(lz4cBin(), args...)
	cmd.Dir = dir
	if stdin != nil {
		cmd.Stdin = bytes.NewReader(stdin)
	}
	var ob bytes.Buffer
	cmd.Stdout = &ob
	cmd.Stderr = nil
	done := make(chan error, 1)
	if err := cmd.Start(); err != nil {
		return nil, -1, err
	}
	go func() { done <- cmd.Wait() }()
	select {
	case e := <-done:
		code = 0
		if e != nil {
			code = 1
			if ee, ok := e.(*exec.ExitError); ok {
				code = ee.ExitCode()
			}
		}
		return ob.Bytes(), code, nil
	case <-time.After(30 * time.Second):
		cmd.Process.Kill()
		return ob.Bytes(), -2, fmt.Errorf("timeout")
	}
}

// expectedLz4: what the flags promise according to their usage strings, produced with the library
// directly: -size block max size, -bc ENABLE block checksum, -sc DISABLE stream checksum, -l level
func expectedLz4(flags string, data []byte) []byte {
	size, bc, sc, lvl := lz4.Block4Mb, false, false, 0
	t := strings.Fields(flags)
	for i := 0; i < len(t); i++ {
		switch t[i] {
		case "-size":
			i++
			size = map[string]lz4.BlockSize{"64K": lz4.Block64Kb, "256K": lz4.Block256Kb, "1M": lz4.Block1Mb, "4M": lz4.Block4Mb}[t[i]]
		case "-bc":
			bc = true
		case "-sc":
			sc = true
		case "-l":
			i++
			lvl = atoi(t[i])
		case "-c":
			i++
		}
	}
	levels := []lz4.CompressionLevel{lz4.Fast, lz4.Level1, lz4.Level2, lz4.Level3, lz4.Level4, lz4.Level5, lz4.Level6, lz4.Level7, lz4.Level8, lz4.Level9}
	var b bytes.Buffer
	zw := lz4.NewWriter(&b)
	if err := zw.Apply(lz4.BlockSizeOption(size), lz4.BlockChecksumOption(bc), lz4.ChecksumOption(!sc), lz4.CompressionLevelOption(levels[lvl%10])); err != nil {
		return nil
	}
	zw.Write(data)
	zw.Close()
	return b.Bytes()
}

func flagsVerdict(flags string, data, z []byte) string {
	want := expectedLz4(flags, data)
	if bytes.Equal(want, z) {
		return "ok"
	}
	if len(z) >= 6 && len(want) >= 6 && (z[4] != want[4] || z[5] != want[5]) {
		return fmt.Sprintf("fail:descriptor-%02x%02x-but-the-flags-promise-%02x%02x", z[4], z[5], want[4], want[5])
	}
	return fmt.Sprintf("fail:output-differs-from-a-Writer-with-the-promised-options(%d-vs-%d-bytes)", len(z), len(want))
}

func runLz4c(c *lz4cCase) string {
	dir, err := os.MkdirTemp("", "verif-lz4c-")
	must(err)
	defer os.RemoveAll(dir)
	d1 := parseData(c.data)
	args := []string{"compress"}
	if c.flags != "" {
		args = append(args, strings.Fields(c.flags)...)
	}
	if c.stdio {
		z, code, e := runCmd(dir, d1, args...)
		if e != nil || code != 0 {
			return fmt.Sprintf("res=compress-failed(code=%d) oracle_cli=fail:compress-exit-%d", code, code)
		}
		back, code2, e2 := runCmd(dir, z, "uncompress")
		rt := "ok"
		if e2 != nil || code2 != 0 || !bytes.Equal(back, d1) {
			rt = fmt.Sprintf("fail:stdio-roundtrip-code=%d-got%d-want%d", code2, len(back), len(d1))
		}
		return fmt.Sprintf("lz4=%s oracle_rt=%s oracle_flags=%s", hx(z), rt, flagsVerdict(c.flags, d1, z))
	}
	files := []struct {
		name string
		data []byte
	}{{"a.bin", d1}}
	if c.data2 != "" {
		files = append(files, struct {
			name string
			data []byte
		}{"b.bin", parseData(c.data2)})
	}
	for _, f := range files {
		must(os.WriteFile(filepath.Join(dir, f.name), f.data, os.FileMode(c.mode)))
		must(os.Chmod(filepath.Join(dir, f.name), os.FileMode(c.mode)))
		args = append(args, f.name)
	}
	_, code, e := runCmd(dir, nil, args...)
	var zs []string
	rt := "ok"
	for _, f := range files {
		z, rerr := os.ReadFile(filepath.Join(dir, f.name+".lz4"))
		if rerr != nil {
			zs = append(zs, "MISSING")
			rt = "fail:no-output-for-" + f.name
			continue
		}
		zs = append(zs, hx(z))
	}
	if e != nil || code != 0 {
		rt = fmt.Sprintf("fail:compress-exit-code-%d", code)
	}
	if rt == "ok" {
		// remove the originals, uncompress, compare bytes and permission bits
		var zargs []string
		for _, f := range files {
			os.Remove(filepath.Join(dir, f.name))
			zargs = append(zargs, f.name+".lz4")
		}
		_, code2, e2 := runCmd(dir, nil, append([]string{"uncompress"}, zargs...)...)
		if e2 != nil || code2 != 0 {
			rt = fmt.Sprintf("fail:uncompress-exit-code-%d", code2)
		}
		for _, f := range files {
			back, rerr := os.ReadFile(filepath.Join(dir, f.name))
			st, serr := os.Stat(filepath.Join(dir, f.name))
			if rerr != nil || !bytes.Equal(back, f.data) {
				rt = fmt.Sprintf("fail:%s-not-restored(got%d-want%d)", f.name, len(back), len(f.data))
			} else if serr != nil || int(st.Mode().Perm()) != c.mode {
				rt = fmt.Sprintf("fail:%s-mode-%o-want-%o", f.name, st.Mode().Perm(), c.mode)
			}
		}
	}
	if rt == "ok" && len(files) == 2 {
		// one `uncompress` over files written with DIFFERENT block sizes (the command reuses one
		// Reader for all its arguments): b.bin is compressed again with another -size
		other := "64K"
		for i, a := range args {
			if a == "-size" && i+1 < len(args) && args[i+1] == "64K" {
				other = "1M"
			}
		}
		os.Remove(filepath.Join(dir, "b.bin.lz4"))
		_, c3, e3 := runCmd(dir, nil, "compress", "-size", other, "b.bin")
		if e3 != nil || c3 != 0 {
			rt = fmt.Sprintf("fail:second-compress-exit-code-%d", c3)
		} else {
			for _, order := range [][]string{{"a.bin.lz4", "b.bin.lz4"}, {"b.bin.lz4", "a.bin.lz4"}} {
				os.Remove(filepath.Join(dir, "a.bin"))
				os.Remove(filepath.Join(dir, "b.bin"))
				runCmd(dir, nil, append([]string{"uncompress"}, order...)...)
				for _, f := range files {
					back, rerr := os.ReadFile(filepath.Join(dir, f.name))
					if rerr != nil || !bytes.Equal(back, f.data) {
						rt = fmt.Sprintf("fail:%s-not-restored-by-one-uncompress-over-files-of-different-block-sizes(%s)(got%d-want%d)", f.name, strings.Join(order, "+"), len(back), len(f.data))
					}
				}
			}
		}
	}
	fv := "ok"
	if z, rerr := os.ReadFile(filepath.Join(dir, "a.bin.lz4")); rerr == nil {
		fv = flagsVerdict(c.flags, d1, z)
	}
	return fmt.Sprintf("lz4=%s oracle_rt=%s oracle_flags=%s", strings.Join(zs, ","), rt, fv)
}

func compLz4c(o *out, seed uint64, tier string) {
	r := newRng(seed, "lz4c")
	// a file whose FIRST block is incompressible (stored raw) and whose later blocks compress, through the
	// sequential Writer (-c 1 keeps one block object for the whole frame) and the default concurrent one
	for i, fl := range []string{"-size 64K -c 1", "-size 64K -c 1 -sc -bc", "-size 64K"} {
		data := append(genData(0, 40+i, 65536), genData(1, 7, 20000+i)...)
		c := &lz4cCase{data: "h:" + hx(data), flags: fl, stdio: i == 1, mode: 0644}
		obs := runLz4c(c)
		ilz := ""
		for _, kv := range strings.Split(obs, " ") {
			if strings.HasPrefix(kv, "lz4=") {
				ilz = kv[4:]
			}
		}
		o.emit("lz4c", c.fields()+" ilz4="+ilz, obs, true)
		o.count("incompressible-then-compressible")
	}
	// a block that is incompressible except for a late first match: the block compressor, given a
	// destination of len(src) bytes by the frame layer, reports an error BY DESIGN and the block is stored
	for i, fl := range []string{"-size 64K -c 1", "-size 64K", "-size 64K -l 5 -c 2"} {
		// (kind 4, seeds 196..198: 236..238 zero bytes after incompressible bytes in a 64 KiB block, the narrow range
		// in which the fast compressor leaves through its error return rather than through (0, nil))
		c := &lz4cCase{data: fmt.Sprintf("g:4,%d,%d", 196+i, 65536), flags: fl, stdio: i == 2, mode: 0644}
		obs := runLz4c(c)
		ilz := ""
		for _, kv := range strings.Split(obs, " ") {
			if strings.HasPrefix(kv, "lz4=") {
				ilz = kv[4:]
			}
		}
		o.emit("lz4c", c.fields()+" ilz4="+ilz, obs, true)
		o.count("late-match-in-incompressible-block")
	}
	n := 40
	if tier == "thorough" {
		n = 400
	}
	sizes := []string{"64K", "256K", "1M", "4M"}
	for i := 0; i < n; i++ {
		var fl []string
		szi := r.intn(4)
		if r.intn(3) != 0 {
			fl = append(fl, "-size", sizes[szi])
		} else {
			szi = 3
		}
		if r.intn(2) == 0 {
			fl = append(fl, "-bc")
		}
		if r.intn(2) == 0 {
			fl = append(fl, "-sc")
		}
		lvl := 0
		if r.intn(2) == 0 {
			lvl = r.intn(10)
			fl = append(fl, "-l", fmt.Sprint(lvl))
		}
		if r.intn(3) == 0 {
			fl = append(fl, "-c", fmt.Sprint(1+r.intn(4)))
		}
		bs := 1 << (16 + 2*uint(szi))
		dn := []int{0, 1, 100, 5000, bs - 1, bs, bs + 1}[r.intn(7)]
		if dn > 300000 && tier != "thorough" {
			dn = 70000
		}
		c := &lz4cCase{data: fmt.Sprintf("g:%d,%d,%d", r.intn(4), r.intn(500), dn), flags: strings.Join(fl, " "), stdio: r.intn(4) == 0, mode: []int{0644, 0600, 0755, 0640, 0444, 0400, 0555}[r.intn(7)]}
		if !c.stdio && r.intn(4) == 0 {
			c.data2 = fmt.Sprintf("g:%d,%d,%d", r.intn(4), r.intn(500), r.intn(3000))
		}
		obs := runLz4c(c)
		ilz := ""
		for _, kv := range strings.Split(obs, " ") {
			if strings.HasPrefix(kv, "lz4=") {
				ilz = kv[4:]
			}
		}
		o.emit("lz4c", c.fields()+" ilz4="+ilz, obs, dn > 0)
		o.count("files")
		if c.stdio {
			o.count("stdio")
		}
		if c.data2 != "" {
			o.count("two-files")
		}
	}
}
