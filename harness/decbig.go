package main

import (
	"bytes"
	"fmt"
	"strconv"

	lz4 "github.com/pierrec/lz4/v4"
	"github.com/pierrec/lz4/v4/internal/lz4block"
)

// decbig: blocks with literal runs and matches of a megabyte and more (the bulk-copy paths of the
// decoders: runtime.memmove with its large-size variants in the assembly, copy in the portable code),
// judged by an implementation-side oracle: the block is BUILT here from its sequences, so the expected
// output is known by construction (the extracted decoder models are too slow for these sizes; the
// decoders' own correspondence covers the control flow on small blocks).
type decBigCase struct {
	lits  int // first literal run
	off   int // offset of the match that follows (0: no match, literals only)
	mlen  int // its length (>= 4)
	lits2 int // literals of a second sequence, followed by a second match (off2, mlen 100) when off2 > 0
	off2  int
	dict  int // dictionary length (the first match may reach into it when off > lits)
	seed  int
}

func (c *decBigCase) fields() string {
	return fmt.Sprintf("lits=%d off=%d mlen=%d lits2=%d off2=%d dict=%d seed=%d", c.lits, c.off, c.mlen, c.lits2, c.off2, c.dict, c.seed)
}

func init() { replayers = append(replayers, replayDecBig) }

func replayDecBig(kind string, f map[string]string) (string, bool) {
	if kind != "decbig" {
		return "", false
	}
	c := &decBigCase{}
	c.lits, _ = strconv.Atoi(f["lits"])
	c.off, _ = strconv.Atoi(f["off"])
	c.mlen, _ = strconv.Atoi(f["mlen"])
	c.lits2, _ = strconv.Atoi(f["lits2"])
	c.off2, _ = strconv.Atoi(f["off2"])
	c.dict, _ = strconv.Atoi(f["dict"])
	c.seed, _ = strconv.Atoi(f["seed"])
	return c.run(), true
}

func appendSeq(block, lits []byte, off, mlen int) []byte {
	tok := byte(0)
	if len(lits) >= 15 {
		tok = 0xF0
	} else {
		tok = byte(len(lits)) << 4
	}
	if off > 0 {
		if mlen-4 >= 15 {
			tok |= 0x0F
		} else {
			tok |= byte(mlen - 4)
		}
	}
	block = append(block, tok)
	if len(lits) >= 15 {
		block = encLen(block, len(lits)-15)
	}
	block = append(block, lits...)
	if off > 0 {
		block = append(block, byte(off), byte(off>>8))
		if mlen-4 >= 15 {
			block = encLen(block, mlen-4-15)
		}
	}
	return block
}

func (c *decBigCase) run() (obs string) {
	dict := genData(0, c.seed+1, c.dict)
	want := []byte{}
	hist := func(i int) byte { // byte at output position i (negative: dictionary)
		if i < 0 {
			return dict[len(dict)+i]
		}
		return want[i]
	}
	match := func(off, mlen int) {
		for k := 0; k < mlen; k++ {
			want = append(want, hist(len(want)-off))
		}
	}
	var block []byte
	l1 := genData(0, c.seed, c.lits)
	want = append(want, l1...)
	block = appendSeq(block, l1, c.off, c.mlen)
	if c.off > 0 {
		match(c.off, c.mlen)
		if c.off2 > 0 {
			l2 := genData(3, c.seed+2, c.lits2)
			want = append(want, l2...)
			block = appendSeq(block, l2, c.off2, 100)
			match(c.off2, 100)
		}
		last := genData(0, c.seed+3, 12)
		want = append(want, last...)
		block = appendSeq(block, last, 0, 0)
	}
	res := "ok"
	defer func() {
		if r := recover(); r != nil {
			obs = "x_res=panic oracle_big=fail:panic:" + sanitizeMsg(fmt.Sprint(r))
		}
	}()
	for _, extra := range []int{0, 1, 100} { // exact destination, and destinations with room to spare
		const pad = 64
		arena := bytes.Repeat([]byte{0x5A}, len(want)+extra+2*pad)
		dst := arena[pad : pad+len(want)+extra]
		n := lz4block.VerifDecodeBlock(dst, block, dict)
		if n != len(want) || !bytes.Equal(dst[:len(want)], want) {
			res = fmt.Sprintf("fail:raw-decoder-n=%d-want=%d-extra=%d-bytes-equal=%v", n, len(want), extra, n == len(want) && bytes.Equal(dst[:len(want)], want))
			break
		}
		for i := 0; i < pad; i++ {
			if arena[i] != 0x5A || arena[len(arena)-1-i] != 0x5A {
				res = "fail:write-outside-dst"
			}
		}
		out := make([]byte, len(want)+extra)
		var m int
		var err error
		if len(dict) > 0 {
			m, err = lz4.UncompressBlockWithDict(block, out, dict)
		} else {
			m, err = lz4.UncompressBlock(block, out)
		}
		if err != nil || m != len(want) || !bytes.Equal(out[:m], want) {
			res = fmt.Sprintf("fail:public-API-n=%d-err=%v-want=%d-extra=%d", m, err != nil, len(want), extra)
			break
		}
	}
	// one byte short: an error, never a count
	if len(want) > 0 {
		short := make([]byte, len(want)-1)
		if n := lz4block.VerifDecodeBlock(short, block, dict); n >= 0 {
			res = fmt.Sprintf("fail:destination-one-byte-short-accepted-n=%d", n)
		}
	}
	return fmt.Sprintf("x_res=done x_len=%d oracle_big=%s", len(want), res)
}

func compDecBig(o *out, r *rng, tier string) {
	M := 1 << 20
	cases := []*decBigCase{
		{lits: M, off: 5, mlen: 40},                         // 1 MiB literals exactly, then an overlapping match
		{lits: M + 7, off: 70000 % 65536, mlen: 300},        // just above, non-overlapping match
		{lits: M - 1, off: 1, mlen: 4},                      // just below
		{lits: 3*M + 123, off: 65535, mlen: 2 * M},          // 3 MiB literals, a 2 MiB match at the window's edge
		{lits: 2 * M, off: 0},                               // literals only
		{lits: 20, off: 3, mlen: M + 50, lits2: M, off2: 9}, // a 1 MiB overlapping match, 1 MiB literals, another match
		{lits: 20, off: 20 + 300, mlen: 2000, dict: 70000, lits2: 2 * M, off2: 60000}, // first match starts 300 bytes inside the dictionary
		{lits: M, off: 40000, mlen: 100000, lits2: 30, off2: 65535, dict: 65536},
	}
	if tier == "thorough" {
		for i := 0; i < 12; i++ {
			cases = append(cases, &decBigCase{lits: M - 2 + r.intn(5) + r.intn(3)*M, off: 1 + r.intn(65535), mlen: 4 + r.intn(3*M), lits2: r.intn(2 * M), off2: r.intn(65536), dict: []int{0, 65536, 1000}[r.intn(3)]})
		}
	}
	for i, c := range cases {
		c.seed = i + r.intn(1000)
		if c.off > c.lits+c.dict {
			c.off = c.lits + c.dict
		}
		o.emit("decbig", c.fields(), c.run(), true)
		o.count("megabyte-literals-and-matches")
	}
}
