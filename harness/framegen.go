package main

import (
	"bytes"
	"encoding/binary"
	"fmt"
	"strconv"
	"strings"
	"time"

	lz4 "github.com/pierrec/lz4/v4"
	"github.com/pierrec/lz4/v4/internal/xxh32"
)

func init() {
	components["ws"] = compWS
	components["rs"] = compRS
	components["cr"] = compCR
	replayers = append(replayers, replayFrame)
}

func atoi(s string) int { n, _ := strconv.Atoi(s); return n }

func replayFrame(kind string, f map[string]string) (string, bool) {
	switch kind {
	case "ws":
		c := &wsCase{ops: strings.Split(f["ops"], ";"), fault: atoi(f["fault"]), once: f["once"] == "1", wf: f["wf"] == "1", rdconc: atoi(f["rdconc"]), pre: atoi(f["pre"])}
		return runWS(c), true
	case "rs":
		c := &rsCase{in: unhex(f["in"]), ops: strings.Split(f["ops"], ";"), frag: atoi(f["frag"]), fault: atoi(f["fault"]), conc: atoi(f["conc"])}
		return runRSo(c, f["cls"], unhex(f["want"])), true
	case "cr":
		var sizes []int
		for _, s := range strings.Split(f["sizes"], ",") {
			sizes = append(sizes, atoi(s))
		}
		c := &crCase{data: f["data"], opts: f["opts"], sizes: sizes, frag: atoi(f["frag"]), fault: atoi(f["fault"]), once: f["once"] == "1", data2: f["data2"]}
		return runCR(c), true
	}
	return "", false
}

// runRSo adds the class-specific oracles (evaluated on the implementation's behaviour)
//
//	valid: clean end of stream and exactly the content;   trunc/fault: an error that is not a clean
//	end, delivered bytes a prefix of the content;   mut/hostile/life: (specification oracle in the model runner)
func runRSo(c *rsCase, cls string, want []byte) string {
	obs := runRS(c)
	f := map[string]string{}
	for _, kv := range strings.Split(obs, " ") {
		if i := strings.IndexByte(kv, '='); i > 0 {
			f[kv[:i]] = kv[i+1:]
		}
	}
	out := unhex(f["out"])
	if _, ok := f["final"]; !ok {
		f["final"] = f["x_final"]
	}
	switch cls {
	case "valid":
		if f["final"] != "eof" || !bytes.Equal(out, want) {
			obs += fmt.Sprintf(" oracle_content=fail:final=%s-got%d-want%d", f["final"], len(out), len(want))
		} else {
			obs += " oracle_content=ok"
		}
	case "trunc":
		if f["final"] == "eof" || f["final"] == "nil" || f["final"] == "none" {
			obs += " oracle_trunc=fail:truncated-frame-read-as-complete:final=" + f["final"]
		} else if !bytes.HasPrefix(want, out) {
			obs += " oracle_trunc=fail:delivered-bytes-not-a-prefix"
		} else {
			obs += " oracle_trunc=ok"
		}
	case "fault":
		if f["final"] != "injected" {
			obs += " oracle_fault=fail:source-error-not-returned:final=" + f["final"]
		} else if !bytes.HasPrefix(want, out) {
			obs += " oracle_fault=fail:delivered-bytes-not-a-prefix"
		} else {
			obs += " oracle_fault=ok"
		}
	}
	return obs
}

func (c *rsCase) fieldsO(cls string, want []byte) string {
	return c.fields() + fmt.Sprintf(" cls=%s want=%s", cls, hx(want))
}

// ---------------------------------------------------------------- frames

type fopt struct {
	bs, bc, cc, lvl, conc, leg int
	size                       int64
}

func (o fopt) String() string {
	s := fmt.Sprintf("bs=%d,bc=%d,cc=%d,lvl=%d,conc=%d,leg=%d", o.bs, o.bc, o.cc, o.lvl, o.conc, o.leg)
	if o.size >= 0 {
		s += fmt.Sprintf(",sz=%d", o.size)
	}
	return s
}

var levels = []int{0, 512, 1024, 2048, 4096, 8192, 16384, 32768, 65536, 131072}

func randOpts(r *rng, small bool) fopt {
	o := fopt{bs: 4 + r.intn(4), bc: r.intn(2), cc: r.intn(2), lvl: levels[r.intn(len(levels))], conc: []int{1, 1, 2, 4}[r.intn(4)], leg: 0, size: -1}
	if small {
		o.bs = 4
	}
	if r.intn(3) == 0 {
		o.size = -2 // replaced by the caller (true input length, or a deliberately different value)
	}
	if r.intn(8) == 0 {
		o.leg = 1
	}
	return o
}

// makeFrame produces a frame with the library's Writer (used as input for reader cases).
func makeFrame(o fopt, data []byte) []byte {
	var b bytes.Buffer
	zw := lz4.NewWriter(&b)
	_ = zw.Apply(parseOpts(o.String()).list(false)...)
	zw.Write(data)
	zw.Close()
	return b.Bytes()
}

// independent encoder: frames built from the specification, including dependent blocks
type gblock struct {
	stored []byte
	raw    bool
	dec    []byte
}

func buildFrame(indep, bc, cc bool, bsCode int, size int64, blocks []gblock, stored bool) []byte {
	var f []byte
	f = binary.LittleEndian.AppendUint32(f, 0x184D2204)
	flg := byte(1 << 6)
	if indep {
		flg |= 1 << 5
	}
	if bc {
		flg |= 1 << 4
	}
	if size >= 0 {
		flg |= 1 << 3
	}
	if cc {
		flg |= 1 << 2
	}
	desc := []byte{flg, byte(bsCode << 4)}
	if size >= 0 {
		desc = binary.LittleEndian.AppendUint64(desc, uint64(size))
	}
	f = append(f, desc...)
	f = append(f, byte(xxh32.ChecksumZero(desc)>>8))
	var content []byte
	for _, b := range blocks {
		w := uint32(len(b.stored))
		if b.raw {
			w |= 1 << 31
		}
		f = binary.LittleEndian.AppendUint32(f, w)
		f = append(f, b.stored...)
		if bc {
			if stored {
				f = binary.LittleEndian.AppendUint32(f, xxh32.ChecksumZero(b.stored))
			} else {
				f = binary.LittleEndian.AppendUint32(f, xxh32.ChecksumZero(b.dec))
			}
		}
		content = append(content, b.dec...)
	}
	f = append(f, 0, 0, 0, 0)
	if cc {
		f = binary.LittleEndian.AppendUint32(f, xxh32.ChecksumZero(content))
	}
	return f
}

// depBlocks builds blocks whose matches reach back into earlier blocks (up to 65535 bytes).
func depBlocks(r *rng, nblocks int, maxBlock int) (blocks []gblock, content []byte) {
	for bi := 0; bi < nblocks; bi++ {
		if r.intn(4) == 0 {
			// raw block
			n := 1 + r.intn(min(maxBlock, 3000))
			d := r.bytes(n)
			blocks = append(blocks, gblock{stored: d, raw: true, dec: d})
			content = append(content, d...)
			continue
		}
		var seqs []gseq
		var dec []byte
		ns := 1 + r.intn(6)
		for k := 0; k < ns; k++ {
			ll := r.intn(20)
			if len(content)+len(dec)+ll == 0 {
				ll = 1 + r.intn(20)
			}
			lits := r.bytes(ll)
			dec = append(dec, lits...)
			hist := len(content) + len(dec)
			lim := min(hist, 65535)
			off := 1 + r.intn(lim)
			switch r.intn(5) {
			case 0:
				off = lim // as far back as allowed (exactly 65535 once there is enough history)
			case 1:
				if len(dec)+1 <= lim {
					off = len(dec) + 1 + r.intn(lim-len(dec)) // reaches before this block
				}
			}
			ml := 4 + r.intn(40)
			if r.intn(6) == 0 {
				ml = 4 + r.intn(3000)
			}
			if len(dec)+ml > maxBlock-64 {
				ml = 4
			}
			for j := 0; j < ml; j++ {
				all := len(content) + len(dec)
				p := all - off
				var b byte
				if p < len(content) {
					b = content[p]
				} else {
					b = dec[p-len(content)]
				}
				dec = append(dec, b)
			}
			seqs = append(seqs, gseq{lits, off, ml})
		}
		last := r.bytes(5 + r.intn(10))
		dec = append(dec, last...)
		blocks = append(blocks, gblock{stored: encodeSeqs(seqs, last, true), raw: false, dec: dec})
		content = append(content, dec...)
	}
	return
}

// ---------------------------------------------------------------- component: writer sessions

func dataSpecFor(r *rng, n int) string {
	if n <= 64 && r.intn(2) == 0 {
		return "h:" + hx(r.bytes(n))
	}
	return fmt.Sprintf("g:%d,%d,%d", r.intn(4), r.intn(1000), n)
}

func compWS(o *out, seed uint64, tier string) {
	r := newRng(seed, "ws")
	defer compLegBig(o, tier)
	mult := 1
	if tier == "thorough" {
		mult = 8
	}
	emit := func(c *wsCase, class string) {
		run := iso
		if c.pre != 0 {
			run = isoFresh // the "before" half of a pool-history case needs pools without a history
		}
		obs := run("ws", c.fields(), 30*time.Second)
		// the model runner also validates the emitted frames against the frame specification
		sinks, acc, closed := "", "", ""
		for _, kv := range strings.Split(obs, " ") {
			if strings.HasPrefix(kv, "sinks=") {
				sinks = kv[6:]
			}
			if strings.HasPrefix(kv, "x_acc=") {
				acc = kv[6:]
			}
			if strings.HasPrefix(kv, "x_closed=") {
				closed = kv[9:]
			}
		}
		o.emit("ws", c.fields()+" isinks="+sinks+" iacc="+acc+" iclosed="+closed, obs, len(c.ops) >= 3)
		o.count(class)
	}
	bs := 65536
	// 1. option matrix x inputs x partitions (well-formed sessions)
	sizes := []int{0, 1, 13, bs - 1, bs, bs + 1, 2 * bs, 3*bs + 7}
	for i := 0; i < 48*mult; i++ {
		op := randOpts(r, r.intn(6) != 0)
		n := sizes[r.intn(len(sizes))]
		if n > bs+1 && (r.intn(3) != 0 || op.lvl > 2048) && tier != "thorough" {
			n = sizes[r.intn(6)] // multi-block inputs through the extracted HC model are costly: fewer in the quick tier
		}
		if op.bs != 4 {
			n = []int{0, 5, 70000, (1 << (8 + 2*uint(op.bs))) + 3}[r.intn(4)]
			if op.bs == 7 && n > 70000 && tier != "thorough" {
				n = 70000
			}
		}
		if op.leg == 1 {
			op.bc = 0 // legacy frames have no block checksums (option combination examined separately)
		}
		if op.size == -2 {
			op.size = int64(n)
			if r.intn(4) == 0 {
				op.size = int64(r.intn(100000)) // a configured size that is not the content length
			}
		}
		kind := r.intn(4)
		sd := r.intn(1000)
		ops := []string{"A:" + op.String()}
		if r.intn(4) == 0 {
			ops = append(ops, fmt.Sprintf("RF:g:%d,%d,%d|%d", kind, sd, n, r.intn(5)))
		} else {
			// partition the same generated stream into writes with flushes in between
			pos := 0
			data := genData(kind, sd, n)
			for pos < n || (n == 0 && r.intn(2) == 0 && len(ops) < 3) {
				l := n - pos
				switch r.intn(4) {
				case 0:
					l = 1 + r.intn(l+1)
				case 1:
					l = min(l, 1+r.intn(100))
				case 2:
					l = min(l, bs)
				}
				if l > n-pos {
					l = n - pos
				}
				ops = append(ops, "W:h:"+hx(data[pos:pos+l]))
				pos += l
				if r.intn(5) == 0 && op.conc == 1 {
					ops = append(ops, "F")
				}
				if n == 0 {
					break
				}
			}
		}
		ops = append(ops, "C")
		emit(&wsCase{ops: ops, wf: true, rdconc: []int{1, 4}[r.intn(2)]}, "matrix")
	}
	// 2. inputs whose XXH32 is zero (block / content checksum value 0), exact multiples via ReadFrom
	zero4 := "h:27114b23"
	for _, opt := range []string{"bs=4,bc=1,cc=1", "bs=4,bc=1,cc=0", "bs=4,bc=0,cc=1"} {
		emit(&wsCase{ops: []string{"A:" + opt, "W:" + zero4, "C"}, wf: true, rdconc: 1}, "zero-checksum")
		emit(&wsCase{ops: []string{"A:" + opt, "RF:" + zero4 + "|0", "C"}, wf: true, rdconc: 1}, "zero-checksum")
	}
	for _, n := range []int{0, bs, 2 * bs} {
		for conc := 1; conc <= 2; conc++ {
			emit(&wsCase{ops: []string{fmt.Sprintf("A:bs=4,conc=%d", conc), fmt.Sprintf("RF:g:1,5,%d|0", n), "C"}, wf: true, rdconc: 1}, "readfrom-multiple-of-blocksize")
		}
	}
	// 2b. edge values of every option, alone and after a valid option, followed by writes, and by a
	//     Reset and a second frame: a rejected option must leave no trace, an accepted one must mean
	//     what the reference machine says (concurrency 0 and negative = GOMAXPROCS)
	for _, edge := range []string{"conc=0", "conc=16", "conc=0,bc=1", "bsraw=8388608", "bsraw=0", "bsraw=65535", "bsraw=12345", "bsraw=4194305",
		"lvl=1", "lvl=3", "lvl=300", "lvl=100000", "lvl=262144", "lvl=1024,bsraw=12345", "bc=1,lvl=7", "sz=5,lvl=5"} {
		for _, pre := range []string{"", "A:bs=4,lvl=1024"} {
			var ops []string
			if pre != "" {
				ops = append(ops, pre)
			}
			// (text-like data of moderate size: the HC model is followed through the extracted code)
			ops = append(ops, "A:"+edge, "W:g:3,9,9000", "F", "W:h:68656c6c6f", "C", "R", "W:g:3,9,9000", "C")
			emit(&wsCase{ops: ops, wf: false, rdconc: 1}, "option-edge-values")
		}
	}
	// 2f. the legacy option toggled between the frames of one reused Writer (finding F29: the legacy
	//     frame's 8 MiB block-size code used to stay in the descriptor of the next modern frame):
	//     legacy then modern, modern then legacy then modern, with and without a configured block
	//     size, through Write and ReadFrom, sequentially and concurrently; and toggled twice before
	//     the first write
	for _, pre := range []string{"bs=4", "bs=5", "bc=1,cc=1", "bs=6,bc=1"} {
		for _, conc := range []int{1, 2} {
			a := fmt.Sprintf("A:%s,conc=%d", pre, conc)
			emit(&wsCase{ops: []string{a, "A:leg=1", "W:g:1,3,9000", "C", "R", "A:leg=0", "W:g:1,3,9000", "F", "W:h:68656c6c6f", "C"}, wf: false, rdconc: 1}, "legacy-toggle-between-frames")
			emit(&wsCase{ops: []string{a, "W:g:3,9,3000", "C", "R", "A:leg=1", "RF:g:1,5,7000|0", "C", "R", "A:leg=0", "RF:g:1,5,70000|0", "C"}, wf: false, rdconc: 1}, "legacy-toggle-between-frames")
			emit(&wsCase{ops: []string{a, "A:leg=1", "A:leg=0", "W:g:1,3,70000", "C", "R", "A:leg=1", "A:leg=0", "A:leg=1", "W:h:68656c6c6f", "C"}, wf: false, rdconc: 1}, "legacy-toggle-between-frames")
		}
	}
	// 2h. blocks that are incompressible except for a short tail (the compressor runs out of destination
	//     after its first, late match: the block must be stored raw, not reported as an error), whole
	//     blocks and a last partial block, fast and HC, through Write and ReadFrom
	for _, kind := range []int{4, 5} {
		for i, n := range []int{65536, 65536 + 3000, 2 * 65536, 5000} {
			for _, lvl := range []int{0, 512} {
				a := fmt.Sprintf("A:bs=4,conc=%d,lvl=%d,bc=%d", 1+i%2, lvl, i%2)
				// (kind 4: the error return needs about 200..260 zero bytes at the end of a 64 KiB block: seeds 160..219)
				emit(&wsCase{ops: []string{a, fmt.Sprintf("W:g:%d,%d,%d", kind, 160+r.intn(60), n), "C"}, wf: true, rdconc: 1}, "late-match-in-incompressible-block")
				emit(&wsCase{ops: []string{a, fmt.Sprintf("RF:g:%d,%d,%d|0", kind, 160+r.intn(60), n), "C"}, wf: true, rdconc: 1}, "late-match-in-incompressible-block")
			}
		}
	}
	// 2i. blocks that END in a literal run whose length sits on a length-encoding boundary (15, 15+255,
	//     15+2*255: the continuation bytes need their terminating byte), emitted by the Writer at HC and
	//     fast levels: compressible text followed by incompressible bytes, every tail length around the
	//     boundaries (the last match may end a few bytes before or after the text does), closed by Close
	//     and by Flush
	{
		text := genData(1, 9, 3000) // periodic text: the last match runs up to (or a little beyond) its end
		for _, base := range []int{15, 270, 525} {
			for d := -8; d <= 8; d++ {
				if base+d < 1 {
					continue
				}
				data := append(append([]byte{}, text...), r.bytes(base+d)...)
				lvl := []int{512, 0, 2048}[(d+8)%3]
				if d == 0 {
					lvl = 512
				}
				a := fmt.Sprintf("A:bs=4,conc=%d,lvl=%d,bc=%d", 1+(d+8)%2, lvl, (d+8)/2%2)
				ops := []string{a, "W:h:" + hx(data), "C"}
				if d%2 == 0 && (d+8)%2 == 0 {
					ops = []string{a, "W:h:" + hx(data), "F", "W:h:" + hx(text[:100]), "C"}
				}
				emit(&wsCase{ops: ops, wf: true, rdconc: 1}, "final-literal-run-on-a-length-boundary")
			}
		}
	}
	// 2g. a frame, Close, Reset, Close with nothing written (an EMPTY second frame: its content checksum is
	//     XXH32 of the empty input whatever the hash object held before), pending bytes in the hash object
	//     being those of a first frame whose length is not a multiple of 16
	for _, conc := range []int{1, 2} {
		for _, w1 := range []string{"W:h:68656c6c6f", "W:g:1,3,70001"} {
			emit(&wsCase{ops: []string{fmt.Sprintf("A:bs=4,conc=%d,cc=1", conc), w1, "C", "R", "C", "R", "F", "C"}, wf: false, rdconc: 1}, "empty-frame-after-reset")
		}
	}
	// 2e. ReadFrom (the io.Copy path) with a sink failing at every call, for good and once, modern
	//     and legacy (no end mark: only the failing call itself can report), input not a multiple of
	//     the block size so that the last block is written by ReadFrom's end-of-input branch
	for _, leg := range []int{0, 1} {
		for k := 1; k <= 7; k++ {
			for _, once := range []bool{false, true} {
				ops := []string{fmt.Sprintf("A:bs=4,leg=%d,cc=0", leg), "RF:g:1,5,70000|0", "C"}
				emit(&wsCase{ops: ops, fault: k, once: once, wf: false, rdconc: 1}, "readfrom-sink-fault")
			}
		}
	}
	// 2c. the package pools have a history: other objects failed or were abandoned just before
	for pre := 1; pre <= 5; pre++ {
		for _, conc := range []int{1, 2} {
			// (moderate sizes: every byte also goes through the extracted models)
			ops := []string{fmt.Sprintf("A:bs=4,conc=%d,bc=1", conc), "W:g:1,3,66000", "F", "W:g:0,8,3000", "C", "R", "RF:g:1,5,66000|0", "C"}
			emit(&wsCase{ops: ops, wf: true, rdconc: 1, pre: pre}, "pool-history")
		}
	}
	// 2d. a frame, Close, Reset onto a sink that fails from some call on, then several calls: every
	//     one of them reports what a new Writer would report
	for k := 1; k <= 8; k++ {
		ops := []string{"A:bs=4", "W:g:1,3,70000", "C", "R", "W:g:1,3,70000", "W:h:68656c6c6f", "F", "W:g:1,7,66000", "C"}
		emit(&wsCase{ops: ops, fault: 4 + k, once: false, wf: false, rdconc: 1}, "reset-onto-failing-sink")
	}
	// 3. reuse and misuse: all sequences up to length L over a small alphabet (C17), both modes
	alpha := []string{"A:bc=1", "A:bs=5", "W:h:68656c6c6f", "W:g:1,3,70000", "RF:h:776f726c64|0", "F", "C", "R"}
	L := 3
	if tier == "thorough" {
		L = 4
	}
	var rec func(prefix []string)
	rec = func(prefix []string) {
		if len(prefix) > 0 {
			for _, conc := range []int{1, 2} {
				ops := append([]string{fmt.Sprintf("A:bs=4,conc=%d", conc)}, prefix...)
				emit(&wsCase{ops: ops, wf: false, rdconc: 1}, "lifecycle")
			}
			if len(prefix) == L {
				// the same from a Writer configured with a larger block size, closing the last frame
				ops := append(append([]string{"A:bs=6,conc=1"}, prefix...), "A:bs=4", "W:g:1,3,70000", "C")
				emit(&wsCase{ops: ops, wf: false, rdconc: 1}, "lifecycle-blocksize-change")
			}
		}
		if len(prefix) == L {
			return
		}
		for _, a := range alpha {
			rec(append(append([]string{}, prefix...), a))
		}
	}
	rec(nil)
	// longer random lifecycle sequences
	for i := 0; i < 150*mult; i++ {
		k := 4 + r.intn(9)
		ops := []string{fmt.Sprintf("A:bs=4,conc=%d,bc=%d", 1+r.intn(2), r.intn(2))}
		for j := 0; j < k; j++ {
			ops = append(ops, alpha[r.intn(len(alpha))])
		}
		emit(&wsCase{ops: ops, wf: false, rdconc: 1}, "lifecycle-random")
	}
	// 4b. legacy frames with a flushed short block whose length equals the stored size of the next
	//     block: the Reader's Linux-kernel-trailer rule (a size word equal to the bytes decoded so
	//     far ends the stream) meets a real block there (the legacy round-trip theorem needs the
	//     side condition legacy_unambiguous exactly for this; finding F28)
	for i := 0; i < 3*mult; i++ {
		m := 20 + r.intn(1500)
		b := genData(3, r.intn(1000), m) // incompressible
		z := make([]byte, lz4.CompressBlockBound(m))
		k, _ := lz4.CompressBlock(b, z, nil)
		if k <= 0 {
			continue
		}
		a := genData(r.intn(4), r.intn(1000), k)
		ops := []string{"A:bs=4,leg=1", "W:h:" + hx(a), "F", "W:h:" + hx(b), "C"}
		emit(&wsCase{ops: ops, wf: true, rdconc: 1 + r.intn(2)}, "legacy-flush-size-word-equals-running-total")
	}
	// 4a. legacy frames written concurrently with a failing sink: nothing follows the blocks, so
	//     only the pipeline's own error report can surface the failure
	for i := 0; i < 4*mult; i++ {
		n := []int{100, 70000, 1000}[r.intn(3)]
		ops := []string{fmt.Sprintf("A:bs=4,leg=1,conc=%d", 2+r.intn(3)), fmt.Sprintf("W:g:%d,%d,%d", r.intn(4), r.intn(99), n), "C"}
		for k := 1; k <= 3; k++ {
			emit(&wsCase{ops: ops, fault: k, once: r.intn(2) == 0, wf: false, rdconc: 1}, "sink-fault-legacy-concurrent")
		}
	}
	// 4. sink failing at its k-th call, every k up to the fault-free call count
	for i := 0; i < 6*mult; i++ {
		op := randOpts(r, true)
		if op.leg == 1 {
			op.bc = 0
		}
		if op.size == -2 {
			op.size = 77
		}
		if op.lvl > 1024 {
			op.lvl = 512
		}
		n := []int{0, 100, 1000, bs + 5}[r.intn(4)]
		ops := []string{"A:" + op.String(), fmt.Sprintf("W:g:%d,%d,%d", r.intn(4), r.intn(99), n)}
		if r.intn(2) == 0 {
			ops = append(ops, "F", "W:h:0102030405")
		}
		ops = append(ops, "C")
		// count sink calls of the fault-free run
		probe := &sink{}
		zw := lz4.NewWriter(probe)
		_ = zw.Apply(parseOpts(op.String()).list(false)...)
		for _, x := range ops[1:] {
			switch {
			case strings.HasPrefix(x, "W:"):
				zw.Write(parseData(x[2:]))
			case x == "F":
				zw.Flush()
			case x == "C":
				zw.Close()
			}
		}
		for k := 1; k <= probe.calls; k++ {
			emit(&wsCase{ops: ops, fault: k, wf: false, rdconc: 1}, "sink-fault")
			// a transient failure (that call only): the failure must still be reported
			emit(&wsCase{ops: ops, fault: k, once: true, wf: false, rdconc: 1}, "sink-fault-once")
		}
	}
}

// ---------------------------------------------------------------- component: reader sessions

func compRS(o *out, seed uint64, tier string) {
	r := newRng(seed, "rs")
	mult := 1
	if tier == "thorough" {
		mult = 8
	}
	emit := func(c *rsCase, cls string, want []byte, class string) {
		obs := iso("rs", c.fieldsO(cls, want), 30*time.Second)
		ifin, icons, iout := "", "", ""
		for _, kv := range strings.Split(obs, " ") {
			switch {
			case strings.HasPrefix(kv, "final="):
				ifin = kv[6:]
			case strings.HasPrefix(kv, "x_final="):
				ifin = kv[8:]
			case strings.HasPrefix(kv, "consumed="):
				icons = kv[9:]
			case strings.HasPrefix(kv, "x_consumed="):
				icons = kv[11:]
			case strings.HasPrefix(kv, "out="):
				iout = kv[4:]
			}
		}
		if class == "source-fault-inside-skippable-frame" {
			// the model skips a payload in one atomic step and does not say how many bytes had been
			// consumed when the source failed inside it: that count is not compared (the verdict, the
			// delivered bytes and the oracle are)
			obs = strings.Replace(obs, " consumed=", " x_consumed=", 1)
		}
		o.emit("rs", c.fieldsO(cls, want)+fmt.Sprintf(" i_final=%s i_consumed=%s i_out=%s", ifin, icons, iout), obs, len(c.in) > 11)
		o.count(class)
	}
	readOps := func() []string {
		switch r.intn(5) {
		case 0:
			return []string{"WT"}
		case 1:
			return []string{"RM"}
		case 2:
			return []string{fmt.Sprintf("RA:%d", []int{1, 7, 4096, 65535, 65536, 65537, 4 << 20}[r.intn(7)])}
		case 3:
			return []string{"S", "RA:100", "S"}
		}
		return []string{"RA:70000"}
	}
	bs := 65536
	type fr struct {
		o    fopt
		data []byte
		f    []byte
	}
	var frames []fr
	// valid frames from the Writer: small ones (for per-byte truncation/mutation) and multi-block ones
	for i := 0; i < 24*mult; i++ {
		op := randOpts(r, true)
		op.conc = 1
		if op.leg == 1 {
			op.bc = 0
		}
		if op.size == -2 {
			op.size = int64(r.intn(400))
		}
		n := []int{0, 1, 5, 40, 100, 300}[r.intn(6)]
		if i%6 == 5 {
			n = []int{bs, bs + 9, 2*bs + 1}[r.intn(3)]
		}
		d := genData(r.intn(4), r.intn(100), n)
		frames = append(frames, fr{op, d, makeFrame(op, d)})
	}
	for _, x := range frames {
		for _, conc := range []int{1, 4} {
			emit(&rsCase{in: x.f, ops: readOps(), frag: r.intn(5), conc: conc}, "valid", x.data, "valid")
		}
		// skippable frames in front, trailing bytes behind
		skip := binary.LittleEndian.AppendUint32(nil, 0x184D2A50+uint32(r.intn(16)))
		skip = binary.LittleEndian.AppendUint32(skip, 5)
		skip = append(skip, 1, 2, 3, 4, 5)
		emit(&rsCase{in: append(append([]byte{}, skip...), x.f...), ops: readOps(), frag: r.intn(5), conc: 1}, "valid", x.data, "valid-after-skippable")
		if x.o.leg == 0 {
			emit(&rsCase{in: append(append([]byte{}, x.f...), 9, 9, 9, 9, 9), ops: append(readOps(), "R:10", "R:10"), frag: 0, conc: 1}, "life", x.data, "trailing-bytes")
		}
	}
	// every strict prefix of the small frames (C06), both concurrency settings alternate
	for _, x := range frames {
		if len(x.f) > 2000 {
			// large: structural boundaries +-3 and sampled interior points
			for _, k := range []int{4, 5, 6, 7, 8, 10, 11, 12, len(x.f) - 9, len(x.f) - 8, len(x.f) - 5, len(x.f) - 4, len(x.f) - 3, len(x.f) - 1, len(x.f) / 2, len(x.f) / 3} {
				if k >= 1 && k < len(x.f) {
					emit(&rsCase{in: x.f[:k], ops: readOps(), frag: 0, conc: 1 + 3*(k%2)}, "trunc", x.data, "trunc-large")
				}
			}
			continue
		}
		if x.o.leg == 1 {
			// legacy: a cut on a block boundary is a legitimate end (here: right after the magic, the
			// frames have one block); every other cut must be reported
			for k := 1; k < len(x.f); k++ {
				if k != 4 {
					emit(&rsCase{in: x.f[:k], ops: readOps(), frag: 0, conc: 1 + 3*(k%2)}, "trunc", x.data, "trunc-legacy-every-prefix")
				}
			}
			continue
		}
		for k := 1; k < len(x.f); k++ {
			emit(&rsCase{in: x.f[:k], ops: readOps(), frag: 0, conc: 1 + 3*(k%2)}, "trunc", x.data, "trunc-every-prefix")
		}
	}
	// legacy frames of SEVERAL short blocks (what Write; Flush; Write produces), cut at every position that is
	// not a block boundary, read with a buffer that reaches beyond the complete blocks (the failing call has
	// already delivered bytes), with small buffers and through WriteTo
	for i := 0; i < 2*mult; i++ {
		f := binary.LittleEndian.AppendUint32(nil, 0x184C2102)
		var content []byte
		bounds := map[int]bool{4: true}
		ok := true
		for b := 0; b < 3; b++ {
			d := genData(1, r.intn(100), 200+r.intn(600))
			z := make([]byte, lz4.CompressBlockBound(len(d)))
			n, err := lz4.CompressBlock(d, z, nil)
			if err != nil || n == 0 || n == len(content) {
				ok = false // (n == len(content): the size word would read as the kernel trailer, finding F28)
				break
			}
			f = binary.LittleEndian.AppendUint32(f, uint32(n))
			f = append(f, z[:n]...)
			content = append(content, d...)
			bounds[len(f)] = true
		}
		if !ok {
			continue
		}
		for k := 5; k < len(f); k++ {
			if bounds[k] {
				continue
			}
			ops := [][]string{{"RA:70000"}, {"RA:100"}, {"WT"}, {"RM"}}[k%4]
			if k%16 == 3 {
				ops = []string{"RA:70000"}
			}
			emit(&rsCase{in: f[:k], ops: ops, frag: 0, conc: 1 + 3*(k/4%2)}, "trunc", content, "trunc-legacy-multi-block")
		}
	}
	// SEVERAL undecodable blocks in one frame with independent blocks, read concurrently: more than one
	// worker fails (every failing worker closes its own channel; whoever drains the queue afterwards
	// meets more than one closed channel), also back to back and as the last blocks of the frame
	for i := 0; i < 6*mult; i++ {
		bad := []byte{0x10, 'A', 0x00, 0x00, 0x50, 'a', 'b', 'c', 'd', 'e'} // a match at offset 0
		var blocks []gblock
		nb := 5 + r.intn(6)
		b1 := 1 + r.intn(nb-2)
		b2 := b1 + 1 + r.intn(nb-b1-1)
		if i%3 == 0 {
			b2 = b1 + 1
		}
		for b := 0; b < nb; b++ {
			if b == b1 || b == b2 || (i%3 == 2 && b > b2) {
				blocks = append(blocks, gblock{stored: bad})
				continue
			}
			d := genData(1, r.intn(50), 100+r.intn(3000))
			blocks = append(blocks, gblock{stored: d, raw: true, dec: d})
		}
		f := buildFrame(true, i%2 == 0, true, 4, -1, blocks, false)
		for _, conc := range []int{2, 4, 1} {
			emit(&rsCase{in: f, ops: []string{"WT"}, conc: conc}, "mut", nil, "several-undecodable-blocks")
			emit(&rsCase{in: f, ops: []string{"RA:4096"}, conc: conc}, "mut", nil, "several-undecodable-blocks")
		}
	}
	// single bit flips at every byte of small frames, plus splices (C05); the specification decides
	for _, x := range frames {
		if len(x.f) > 400 {
			continue
		}
		for k := 0; k < len(x.f); k++ {
			m := append([]byte{}, x.f...)
			m[k] ^= 1 << uint(r.intn(8))
			emit(&rsCase{in: m, ops: readOps(), frag: 0, conc: 1 + 3*(k%2)}, "mut", nil, "bitflip")
		}
	}
	// a foreign word (legacy magic, frame magic, skippable magic, a huge size) inserted in front of
	// every block-size word and in front of the end mark of small modern frames
	for _, x := range frames {
		if len(x.f) > 400 || x.o.leg == 1 {
			continue
		}
		off := 7
		if x.o.size >= 0 {
			off += 8
		}
		for off+4 <= len(x.f) {
			for _, w := range []uint32{0x184C2102, 0x184D2204, 0x184D2A50, 0x80000000, 0xFFFFFFFF} {
				m := append([]byte{}, x.f[:off]...)
				m = binary.LittleEndian.AppendUint32(m, w)
				m = append(m, x.f[off:]...)
				emit(&rsCase{in: m, ops: readOps(), frag: 0, conc: 1 + 3*(off%2)}, "mut", nil, "foreign-word-at-block-position")
			}
			w := binary.LittleEndian.Uint32(x.f[off:])
			if w == 0 {
				break
			}
			off += 4 + int(w&0x7fffffff)
			if x.o.bc == 1 {
				off += 4
			}
		}
	}
	for i := 0; i < 60*mult; i++ {
		a, b := frames[r.intn(len(frames))], frames[r.intn(len(frames))]
		if len(a.f) > 4000 || len(b.f) > 4000 {
			continue
		}
		ca, cb := r.intn(len(a.f)+1), r.intn(len(b.f)+1)
		m := append(append([]byte{}, a.f[:ca]...), b.f[cb:]...)
		emit(&rsCase{in: m, ops: readOps(), frag: 0, conc: 1}, "mut", nil, "splice")
	}
	// independent encoder: dependent-block frames (C16) and frames with hostile fields (C07)
	for i := 0; i < 60*mult; i++ {
		nb := 1 + r.intn(5)
		blocks, content := depBlocks(r, nb, 65536)
		bc, cc := r.intn(2) == 1, r.intn(2) == 1
		size := int64(-1)
		if i%3 == 0 {
			size = int64(len(content)) // declared content size (it may well fit in one block: the blocks still depend on each other)
		}
		f := buildFrame(false, bc, cc, 4+r.intn(4), size, blocks, false)
		emit(&rsCase{in: f, ops: readOps(), frag: r.intn(5), conc: []int{1, 4}[r.intn(2)]}, "valid", content, "dependent-blocks")
		if size >= 0 {
			emit(&rsCase{in: f, ops: []string{"WT"}, frag: 0, conc: 2 + 2*r.intn(2)}, "valid", content, "dependent-blocks-with-size-concurrent")
		}
	}
	if true {
		// long dependent history: many blocks so that matches cross several boundaries at distance 65535
		blocks, content := depBlocks(r, 60, 65536)
		f := buildFrame(false, true, true, 4, -1, blocks, false)
		for _, ops := range [][]string{{"WT"}, {"RM"}, {"RA:65536"}, {"RA:1000"}} {
			emit(&rsCase{in: f, ops: ops, frag: 0, conc: 1}, "valid", content, "dependent-blocks-long")
		}
	}
	// a full-window (64 KiB) block followed by a block whose first match reaches back almost 65535
	// bytes after a very short literal run; read with small buffers, large buffers and WriteTo
	for i := 0; i < 10*mult; i++ {
		// first block: exactly the window; larger than the window (256 KiB block size: the Reader
		// must keep the LAST 64 KiB of it); or tiny (1..3 bytes: shorter than a match)
		firstLen := []int{65536, 65536, 65536, 70000, 150000, 262144, 1, 2, 3, 3}[i%10]
		bsCode := 4
		if firstLen > 65536 {
			bsCode = 5
		}
		first := r.bytes(firstLen)
		var blocks []gblock
		if r.intn(2) == 0 || firstLen != 65536 {
			blocks = append(blocks, gblock{stored: first, raw: true, dec: first})
		} else {
			// compressed: 16 literals then one long match of the remaining bytes at offset 16
			for j := 16; j < len(first); j++ {
				first[j] = first[j-16]
			}
			blocks = append(blocks, gblock{stored: encodeSeqs([]gseq{{first[:16], 16, 65536 - 16 - 8}}, first[65536-8:], true), dec: first})
		}
		content := append([]byte{}, first...)
		var seqs []gseq
		var dec []byte
		for k := 0; k < 1+r.intn(3); k++ {
			ll := 1 + r.intn(3)
			lits := r.bytes(ll)
			dec = append(dec, lits...)
			off := 65535 - r.intn(60)
			if off > len(content)+len(dec) {
				off = len(content) + len(dec) // (tiny first block: reaches the very first byte of the stream)
			}
			ml := 4 + r.intn(30)
			for j := 0; j < ml; j++ {
				all := len(content) + len(dec)
				p := all - off
				if p < len(content) {
					dec = append(dec, content[p])
				} else {
					dec = append(dec, dec[p-len(content)])
				}
			}
			seqs = append(seqs, gseq{lits, off, ml})
		}
		last := r.bytes(6)
		dec = append(dec, last...)
		blocks = append(blocks, gblock{stored: encodeSeqs(seqs, last, true), dec: dec})
		content = append(content, dec...)
		fr := buildFrame(false, r.intn(2) == 1, true, bsCode, -1, blocks, false)
		label := "dependent-full-window-block"
		if firstLen > 65536 {
			label = "dependent-after-block-larger-than-window"
		} else if firstLen < 4 {
			label = "dependent-after-tiny-block"
		}
		for _, ops := range [][]string{{"RA:1000"}, {"RA:4096"}, {"RA:65535"}, {"RM"}, {"WT"}, {"RA:65536"}} {
			emit(&rsCase{in: fr, ops: ops, frag: 0, conc: 1}, "valid", content, label)
		}
		if firstLen > 65536 {
			// a buffer of exactly the frame's block size: the large block is decoded straight into the
			// caller's memory and is the last thing of that Read call; the runner scribbles over the buffer
			// before the next call, so a window that merely points into it is lost
			emit(&rsCase{in: fr, ops: []string{"RA:262144"}, frag: 0, conc: 1}, "valid", content, label)
			emit(&rsCase{in: fr, ops: []string{fmt.Sprintf("RA:%d", firstLen)}, frag: 0, conc: 1}, "valid", content, label)
		}
	}
	// a declared content size that is a lie (the Reader does not compare it with the content, but it must
	// not ALLOCATE by it either): tiny frames announcing 5 MiB .. 2^63 bytes, through WriteTo into a
	// destination that has a Grow method (bytes.Buffer), through Read, sequentially and concurrently
	for _, sz := range []int64{5 << 20, 200 << 20, 1 << 30, (1 << 30) + 1, 1 << 40, 1<<63 - 1} {
		blocks, content := depBlocks(r, 1, 65536)
		f := buildFrame(true, false, true, 7, sz, blocks, false)
		for _, ops := range [][]string{{"WT"}, {"S", "WT"}, {"RA:4096"}} {
			for _, conc := range []int{1, 4} {
				emit(&rsCase{in: f, ops: ops, conc: conc}, "valid", content, "declared-size-is-a-lie")
			}
		}
	}
	hostile := func(words ...uint32) []byte {
		var b []byte
		for _, w := range words {
			b = binary.LittleEndian.AppendUint32(b, w)
		}
		return b
	}
	for m := uint32(0x184D2A40); m <= 0x184D2A6F; m++ { // every magic around the skippable range
		in := append(hostile(m, 3), 7, 7, 7)
		in = append(in, frames[0].f...)
		emit(&rsCase{in: in, ops: []string{"RA:4096"}, conc: 1}, "mut", nil, "magic-range")
	}
	for _, m := range []uint32{0x184D2900, 0x184D2AFF, 0x184D2B50, 0, 0xFFFFFFFF, 0x184D2205, 0x184C2103} {
		emit(&rsCase{in: append(hostile(m, 0), frames[0].f...), ops: []string{"RA:4096"}, conc: 1}, "mut", nil, "magic-range")
	}
	for _, skipLen := range []uint32{0, 1, 100, 0x7fffffff, 0xffffffff} {
		emit(&rsCase{in: append(hostile(0x184D2A50, skipLen), r.bytes(50)...), ops: []string{"RA:4096"}, conc: 1 + 3*int(skipLen%2)}, "mut", nil, "skippable-length")
	}
	hdr := frames[0].f[:7]
	for _, bsz := range []uint32{1, 65536, 65537, 0x7fffffff, 0x80000001, 0x80010001, 0xffffffff, 4 << 20, 4<<20 + 1} {
		in := append(append([]byte{}, hdr...), hostile(bsz)...)
		in = append(in, r.bytes(100)...)
		for _, conc := range []int{1, 4} {
			emit(&rsCase{in: in, ops: []string{"RA:4096"}, conc: conc}, "mut", nil, "hostile-block-size")
		}
	}
	for _, n := range []int{1, 2, 1000, 200000} { // repetitions of the legacy magic
		var in []byte
		for i := 0; i < n; i++ {
			in = binary.LittleEndian.AppendUint32(in, 0x184C2102)
		}
		emit(&rsCase{in: in, ops: []string{"RA:4096"}, conc: 1}, "mut", nil, "legacy-magic-repeated")
	}
	for _, n := range []int{1, 2, 1000, 450000} { // runs of empty skippable frames before a frame (a loop, not a recursion)
		var in []byte
		for i := 0; i < n; i++ {
			in = binary.LittleEndian.AppendUint32(in, 0x184D2A50+uint32(i%16))
			in = binary.LittleEndian.AppendUint32(in, 0)
		}
		in = append(in, frames[0].f...)
		emit(&rsCase{in: in, ops: []string{"RA:4096"}, conc: 1 + 3*(n%2)}, "valid", frames[0].data, "skippable-repeated")
	}
	for i := 0; i < 120*mult; i++ {
		emit(&rsCase{in: r.bytes(r.intn(64)), ops: readOps(), conc: 1 + 3*(i%2)}, "mut", nil, "random-bytes")
	}
	// source faults at every call index, and fragmentation patterns (C15)
	for i := 0; i < 10*mult; i++ {
		x := frames[r.intn(len(frames))]
		for frag := 0; frag < 5; frag++ {
			emit(&rsCase{in: x.f, ops: readOps(), frag: frag, conc: []int{1, 4}[r.intn(2)]}, "valid", x.data, "fragmentation")
		}
		probe := &source{data: x.f}
		zr := lz4.NewReader(probe)
		var b bytes.Buffer
		zr.WriteTo(&b)
		for k := 1; k <= probe.calls && k <= 40; k++ {
			emit(&rsCase{in: x.f, ops: []string{"WT"}, frag: 0, fault: k, conc: 1}, "fault", x.data, "source-fault")
			emit(&rsCase{in: x.f, ops: []string{"RA:4096"}, frag: 0, fault: k, conc: 1 + 3*(k%2)}, "fault", x.data, "source-fault")
		}
	}
	// source faults while the payload of a skippable frame is being skipped (the failure is the source's:
	// it is reported as such, not as a truncated stream), one large read and many small ones
	{
		x := frames[0]
		skip := binary.LittleEndian.AppendUint32(nil, 0x184D2A57)
		skip = binary.LittleEndian.AppendUint32(skip, 3000)
		skip = append(skip, r.bytes(3000)...)
		in := append(skip, x.f...)
		probe := &source{data: in}
		var b bytes.Buffer
		lz4.NewReader(probe).WriteTo(&b)
		for _, frag := range []int{0, 4} {
			for k := 1; k <= probe.calls; k++ {
				if frag == 4 && k > 5 {
					// (7 bytes per call: calls 3.. all fall into the payload; the model skips the payload in
					// one step, so later indices would mean different calls to it)
					break
				}
				emit(&rsCase{in: in, ops: []string{"WT"}, frag: frag, fault: k, conc: 1 + 3*(k%2)}, "fault", x.data, "source-fault-inside-skippable-frame")
				emit(&rsCase{in: in, ops: []string{"RA:4096"}, frag: frag, fault: k, conc: 1}, "fault", x.data, "source-fault-inside-skippable-frame")
			}
		}
	}
	// scripted reuse: a Reader that has read a whole frame is Reset onto another frame (with and
	// without concurrency, with and without a declared content size) and must behave as a new one:
	// content checksum state, declared size, block buffers
	for i := 0; i < 12*mult; i++ {
		a, b := frames[r.intn(len(frames))], frames[r.intn(len(frames))]
		if len(a.f) > 200000 || len(b.f) > 200000 || a.o.leg == 1 || b.o.leg == 1 {
			continue
		}
		rs := "RS:h:" + hx(b.f)
		for _, ops := range [][]string{{"A:conc=2", "WT", rs, "WT"}, {"WT", "S", rs, "S", "WT", "S"}, {"A:conc=4", "RA:70000", rs, "RA:70000"}, {"RA:100", "S", rs, "RA:4096", "S"}} {
			// (oracle of the class "valid": after the last Reset the session delivers exactly the
			// second frame's content and ends cleanly)
			emit(&rsCase{in: a.f, ops: ops, conc: 1}, "valid", b.data, "reuse-after-complete-frame")
		}
	}
	// reuse across DIFFERENT block sizes (larger first, smaller first), the first frame consumed through
	// WriteTo, through Read, or abandoned half-way: block buffers sized for the previous frame must go
	for _, pr := range [][2]int{{7, 4}, {4, 7}, {6, 5}, {4, 5}, {5, 4}} {
		for _, kd := range []int{1, 0} { // compressible / incompressible (stored blocks)
			da, db := genData(kd, 40+pr[0], 70000), genData(kd, 50+pr[1], 150000)
			fa := makeFrame(fopt{bs: pr[0], bc: 0, cc: 1, lvl: 0, conc: 1, leg: 0, size: -1}, da)
			fb := makeFrame(fopt{bs: pr[1], bc: 0, cc: 1, lvl: 0, conc: 1, leg: 0, size: -1}, db)
			rs := "RS:h:" + hx(fb)
			for _, ops := range [][]string{{"WT", rs, "WT"}, {"RA:4096", rs, "RA:4096"}, {"R:100", rs, "WT"}, {"WT", rs, "RA:70000"}} {
				emit(&rsCase{in: fa, ops: ops, conc: 1}, "valid", db, "reuse-across-block-sizes")
			}
		}
	}
	// reuse after a frame with DEPENDENT blocks onto an independent-block frame without checksums whose
	// first block holds a match reaching before the start of the block: a window that survives Reset
	// would resolve it against the previous frame's content instead of rejecting the block
	for i := 0; i < 3*mult; i++ {
		blocks, _ := depBlocks(r, 3, 65536)
		first := buildFrame(false, false, true, 4, -1, blocks, false)
		lits := r.bytes(1 + r.intn(10))
		bad := appendSeq(nil, lits, len(lits)+1+r.intn(3000), 8)
		bad = appendSeq(bad, r.bytes(12), 0, 0)
		second := buildFrame(true, false, false, 4, -1, []gblock{{stored: bad, raw: false, dec: nil}}, false)
		for _, ops := range [][]string{{"WT", "RS:h:" + hx(second), "WT"}, {"RA:4096", "RS:h:" + hx(second), "RA:100"}} {
			emit(&rsCase{in: first, ops: ops, conc: 1}, "life", nil, "reuse-after-dependent-frame-onto-bad-offset")
		}
	}
	// a large skippable frame in front of a valid frame, delivered by a source that can also Seek (frag 5)
	// and by a plain one: cut inside the skippable payload (an error, never a clean end), and with the
	// skippable frame's size field enlarged beyond the end of the source
	{
		x := frames[2]
		for _, skipLen := range []int{40000, 100} {
			skip := binary.LittleEndian.AppendUint32(binary.LittleEndian.AppendUint32(nil, 0x184D2A53), uint32(skipLen))
			skip = append(skip, r.bytes(skipLen)...)
			full := append(append([]byte{}, skip...), x.f...)
			for _, fr := range []int{5, 0} {
				emit(&rsCase{in: full, ops: readOps(), frag: fr, conc: 1}, "valid", x.data, "skippable-then-frame-seekable-source")
				for _, k := range []int{8, 9, 8 + skipLen/2, 8 + skipLen - 1, 8 + skipLen + 3} {
					emit(&rsCase{in: full[:k], ops: []string{"RA:4096"}, frag: fr, conc: 1}, "trunc", x.data, "cut-inside-skippable-frame")
					emit(&rsCase{in: full[:k], ops: []string{"WT"}, frag: fr, conc: 2}, "trunc", x.data, "cut-inside-skippable-frame")
				}
				for _, bit := range []uint{17, 24, 30} {
					m := append([]byte{}, full...)
					m[4+bit/8] ^= 1 << (bit % 8)
					emit(&rsCase{in: m, ops: []string{"RA:4096"}, frag: fr, conc: 1}, "mut", nil, "skippable-size-beyond-the-source")
				}
			}
		}
	}
	// Size() BEFORE the first read, on headers that must be rejected (wrong checksum, undefined block-size
	// code, not a frame): asking for the size must neither accept the header nor change what the reads report
	{
		good := makeFrame(fopt{bs: 4, bc: 0, cc: 1, lvl: 0, conc: 1, leg: 0, size: 300}, genData(1, 3, 300))
		for _, mutate := range []func(f []byte){func(f []byte) { f[len("....xx12345678")] ^= 0x5A }, func(f []byte) { f[5] = 0x30 }, func(f []byte) { f[5] = 0x10 }, func(f []byte) { f[0] ^= 1 }, func(f []byte) { f[6] ^= 0xFF }} {
			f := append([]byte{}, good...)
			mutate(f)
			for _, ops := range [][]string{{"S", "R:10", "S", "R:10"}, {"S", "WT", "S"}, {"S", "S", "RA:100"}} {
				emit(&rsCase{in: f, ops: ops, conc: 1}, "mut", nil, "size-before-read-on-bad-header")
			}
		}
		for _, ops := range [][]string{{"S", "R:10", "S", "RA:100", "S"}, {"S", "WT", "S"}} {
			emit(&rsCase{in: good, ops: ops, conc: 1}, "valid", genData(1, 3, 300), "size-before-read")
		}
	}
	// reuse onto a source that is NOT a frame, or a truncated one: every following call reports what a
	// new Reader would report (the error again, not the previous session's end of stream)
	for i := 0; i < 6*mult; i++ {
		a, b := frames[r.intn(len(frames))], frames[r.intn(len(frames))]
		if len(a.f) > 200000 || len(b.f) > 200000 || a.o.leg == 1 || b.o.leg == 1 || len(b.f) < 12 {
			continue
		}
		bad := [][]byte{r.bytes(40), b.f[:len(b.f)/2], b.f[:5], append([]byte{1, 2, 3, 4}, b.f...)}[i%4]
		rs := "RS:h:" + hx(bad)
		for _, ops := range [][]string{{"WT", rs, "R:10", "R:10", "WT", "R:10"}, {"RA:100", rs, "RA:4096", "R:10", "S", "R:10"}} {
			emit(&rsCase{in: a.f, ops: ops, conc: 1}, "life", a.data, "reuse-onto-bad-source")
		}
	}
	// reuse onto a TRUNCATED legacy frame whose first block's stored size equals the number of bytes
	// the previous session delivered: a byte counter that survives Reset would take the size word
	// for the kernel trailer and end the stream cleanly
	for i := 0; i < 4*mult; i++ {
		b := genData(0, 900+i, 30+r.intn(900))
		z := make([]byte, lz4.CompressBlockBound(len(b)))
		k, _ := lz4.CompressBlock(b, z, nil)
		if k <= 0 {
			continue
		}
		first := makeFrame(fopt{bs: 4, bc: 0, cc: 1, lvl: 0, conc: 1, leg: 0, size: -1}, genData(1, i, k))
		leg := makeFrame(fopt{bs: 4, bc: 0, cc: 0, lvl: 0, conc: 1, leg: 1, size: -1}, b)
		if len(leg) < 12 {
			continue
		}
		cut := leg[:8+r.intn(len(leg)-9)] // magic + size word + a strict part of the block
		for _, ops := range [][]string{{"RA:4096", "RS:h:" + hx(cut), "RA:4096"}, {"RA:100", "RS:h:" + hx(cut), "WT"}} {
			emit(&rsCase{in: first, ops: ops, conc: 1}, "life", nil, "reuse-onto-truncated-legacy-frame")
		}
	}
	// lifecycle: all sequences up to length L over the Reader's operations (C17)
	alpha := []string{"R:10", "R:0", "R:70000", "WT", "S", "A:conc=2", "RS:h:" + hx(frames[1].f)}
	L := 3
	if tier == "thorough" {
		L = 4
	}
	var rec func(prefix []string)
	rec = func(prefix []string) {
		if len(prefix) > 0 {
			emit(&rsCase{in: frames[2].f, ops: prefix, conc: 1}, "life", frames[2].data, "lifecycle")
		}
		if len(prefix) == L {
			return
		}
		for _, a := range alpha {
			rec(append(append([]string{}, prefix...), a))
		}
	}
	rec(nil)
}

// ---------------------------------------------------------------- component: compressing reader

func compCR(o *out, seed uint64, tier string) {
	r := newRng(seed, "cr")
	mult := 1
	if tier == "thorough" {
		mult = 8
	}
	bs := 65536
	// buffers that end exactly at the end of a block (nothing spilled into the overflow) while the
	// source still has data: sizes are read off the frame produced with one huge buffer
	for i := 0; i < 6*mult; i++ {
		n := 2*bs + r.intn(bs)
		opts := fmt.Sprintf("bs=4,bc=%d,cc=%d,lvl=0", r.intn(2), r.intn(2))
		data := fmt.Sprintf("g:%d,%d,%d", []int{0, 1, 3}[r.intn(3)], r.intn(500), n)
		probe := iso("cr", (&crCase{data: data, opts: opts, sizes: []int{4 << 20}}).fields(), 30*time.Second)
		var frame []byte
		for _, kv := range strings.Split(probe, " ") {
			if strings.HasPrefix(kv, "out=") {
				frame = unhex(kv[4:])
			}
		}
		if len(frame) < 20 {
			continue
		}
		// end of the first block: 7-byte header, 4-byte size word, payload, optional checksum
		w := int(binary.LittleEndian.Uint32(frame[7:]) & 0x7fffffff)
		end1 := 7 + 4 + w
		if strings.Contains(opts, "bc=1") {
			end1 += 4
		}
		for _, next := range []int{end1 + 100, 4096, 1, 70000} {
			c := &crCase{data: data, opts: opts, sizes: []int{end1, next, 100000}, frag: 0}
			obs := iso("cr", c.fields(), 30*time.Second)
			out := ""
			for _, kv := range strings.Split(obs, " ") {
				if strings.HasPrefix(kv, "out=") {
					out = kv[4:]
				}
			}
			o.emit("cr", c.fields()+" iout="+out, obs, true)
			o.count("buffer-ends-at-block-end")
		}
	}
	// reuse after a stream that ended EXACTLY on a block boundary, delivered by a source that returns its
	// last bytes together with io.EOF (frag 3) or with a separate io.EOF (frag 0), read to the clean end,
	// then Reset onto a second source: whatever the reader remembers about the first source's end must go
	for _, n := range []int{bs, 2 * bs} {
		for _, fr := range []int{3, 0, 2} {
			c := &crCase{data: fmt.Sprintf("g:1,%d,%d", r.intn(500), n), opts: "bs=4,bc=0,cc=1,lvl=0", sizes: []int{4 << 20, 4 << 20, 100, 100}, frag: fr,
				data2: fmt.Sprintf("g:%d,%d,%d", r.intn(4), r.intn(500), []int{1000, bs, 5}[r.intn(3)])}
			o.emit("cr", c.fields()+" iout=-", iso("cr", c.fields(), 30*time.Second), true)
			o.count("reset-after-block-multiple-stream")
		}
	}
	szc := []int{0, 1, 3, 6, 7, 8, 15, 100, 5000, 70000, 300000}
	for i := 0; i < 160*mult; i++ {
		n := []int{0, 1, 50, 1000, bs - 1, bs, bs + 1, 2 * bs}[r.intn(8)]
		var sizes []int
		for k := 1 + r.intn(6); k > 0; k-- {
			sizes = append(sizes, szc[r.intn(len(szc))])
		}
		if sizes[len(sizes)-1] == 0 {
			sizes = append(sizes, 1+r.intn(9))
		}
		if sizes[len(sizes)-1] < 100 && n > 1000 {
			n = r.intn(1000) // tiny buffers only with small inputs (cost of the extracted model)
		}
		opts := fmt.Sprintf("bs=4,bc=%d,cc=%d,lvl=%d", r.intn(2), r.intn(2), levels[r.intn(4)])
		if r.intn(4) == 0 {
			opts += fmt.Sprintf(",sz=%d", n)
		}
		c := &crCase{data: fmt.Sprintf("g:%d,%d,%d", r.intn(4), r.intn(500), n), opts: opts, sizes: sizes, frag: r.intn(5)}
		obs := iso("cr", c.fields(), 30*time.Second)
		out := ""
		for _, kv := range strings.Split(obs, " ") {
			if strings.HasPrefix(kv, "out=") {
				out = kv[4:]
			}
		}
		o.emit("cr", c.fields()+" iout="+out, obs, n > 0)
		o.count("reads")
		if i%8 == 0 {
			c2 := *c
			c2.fault = 1 + r.intn(4)
			c2.frag = 0
			o.emit("cr", c2.fields()+" iout=-", iso("cr", c2.fields(), 30*time.Second), true)
			o.count("source-fault")
		}
		if i%8 == 2 || i%8 == 6 {
			// reuse after a clean end, after a source failure (also on the very first source call,
			// when only the header has been staged), after reads abandoned half-way
			c2 := *c
			c2.frag = 0
			c2.data2 = fmt.Sprintf("g:%d,%d,%d", r.intn(4), r.intn(500), []int{0, 5, 1000, 70000}[r.intn(4)])
			switch r.intn(3) {
			case 0:
				c2.fault = 1 + r.intn(3)
			case 1:
				c2.sizes = []int{7, 3}
			default:
				c2.sizes = []int{4 << 20, 4 << 20, 4 << 20, 100, 100} // read to the clean end
			}
			o.emit("cr", c2.fields()+" iout=-", iso("cr", c2.fields(), 30*time.Second), true)
			o.count("reset-and-reuse")
		}
		if i%8 == 4 {
			// a source that fragments its reads and fails in the MIDDLE of a block, for good or once
			// (a transient failure): the error must be passed through by the Read that meets it
			c2 := *c
			c2.frag = []int{4, 1, 2}[r.intn(3)]
			c2.fault = 2 + r.intn(12)
			c2.once = r.intn(2) == 0
			o.emit("cr", c2.fields()+" iout=-", iso("cr", c2.fields(), 30*time.Second), true)
			o.count("source-fault-mid-block")
		}
	}
}
