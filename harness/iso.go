package main

import (
	"bufio"
	"fmt"
	"io"
	"os"
	"os/exec"
	"runtime/debug"
	"strings"
	"time"
)

// Process isolation: cases that may hang, crash the process or exhaust memory run in a worker
// child (this same binary with -worker).  A worker that does not answer within the deadline is
// killed and the case observed as a hang; a worker that dies is observed as a crash.
type worker struct {
	cmd *exec.Cmd
	in  io.WriteCloser
	out *bufio.Reader
}

var theWorker *worker

func startWorker() *worker {
	cmd := exec.Command(os.Args[0], "-worker")
	cmd.Stderr = nil
	// under the race detector a data race terminates the worker at once (observed as a crash)
	cmd.Env = append(os.Environ(), "GORACE=halt_on_error=1 exitcode=66")
	in, err := cmd.StdinPipe()
	must(err)
	outp, err := cmd.StdoutPipe()
	must(err)
	must(cmd.Start())
	return &worker{cmd: cmd, in: in, out: bufio.NewReaderSize(outp, 1<<20)}
}

func (w *worker) kill() {
	w.in.Close()
	if os.Getenv("VERIF_GRACEFUL") != "" {
		// development aid (statement-coverage runs of the harness): let a healthy worker end by itself
		// so that its coverage counters are written
		done := make(chan struct{})
		go func() { w.cmd.Wait(); close(done) }()
		select {
		case <-done:
			return
		case <-time.After(3 * time.Second):
		}
	}
	w.cmd.Process.Kill()
	w.cmd.Wait()
}

// iso runs one case (kind + fields, as in a cases file) in the worker.
var hangCount int

// isoFresh runs the case in a NEW worker process (no pool history, no leftover goroutines)
func isoFresh(kind, fields string, deadline time.Duration) string {
	if theWorker != nil {
		theWorker.kill()
		theWorker = nil
	}
	return iso(kind, fields, deadline)
}

func iso(kind, fields string, deadline time.Duration) string {
	if hangCount >= 4 {
		// enough hangs have been observed in this run: do not spend the run's time budget on more
		return "res=skipped-after-hangs"
	}
	if theWorker == nil {
		theWorker = startWorker()
	}
	w := theWorker
	if _, err := fmt.Fprintf(w.in, "x %s %s\n", kind, fields); err != nil {
		w.kill()
		theWorker = nil
		return "res=crash oracle_nocrash=fail:worker-died-before-case"
	}
	type ans struct {
		s   string
		err error
	}
	ch := make(chan ans, 1)
	go func() {
		s, err := w.out.ReadString('\n')
		ch <- ans{s, err}
	}()
	select {
	case a := <-ch:
		if a.err != nil {
			w.kill()
			theWorker = nil
			return "res=crash oracle_nocrash=fail:process-died(data-race-under-the-race-detector,-stack-overflow,-fatal-error-or-out-of-memory)"
		}
		s := strings.TrimRight(a.s, "\n")
		if i := strings.IndexByte(s, ' '); i >= 0 {
			s = s[i+1:]
		}
		return s
	case <-time.After(deadline):
		hangCount++
		w.kill()
		theWorker = nil
		return "res=hang oracle_nohang=fail:no-return-within-" + deadline.String()
	}
}

func stopWorker() {
	if theWorker != nil {
		theWorker.kill()
		theWorker = nil
	}
}

// workerMain: read "id kind fields" lines from stdin, answer "id obs".
func workerMain() {
	// a modest stack limit turns unbounded recursion into a prompt, observable crash (8 MiB: a run of 450 000 frames overflows it even at 19 bytes of stack per level; nothing in the library recurses)
	debug.SetMaxStack(8 << 20)
	sc := bufio.NewScanner(os.Stdin)
	sc.Buffer(make([]byte, 1<<20), 1<<30)
	w := bufio.NewWriter(os.Stdout)
	for sc.Scan() {
		line := sc.Text()
		parts := strings.Split(line, " ")
		if len(parts) < 2 {
			continue
		}
		f := map[string]string{}
		for _, kv := range parts[2:] {
			if i := strings.IndexByte(kv, '='); i > 0 {
				f[kv[:i]] = kv[i+1:]
			}
		}
		obs := "REPLAY-UNSUPPORTED"
		for _, r := range replayers {
			if o, ok := r(parts[1], f); ok {
				obs = o
				break
			}
		}
		fmt.Fprintf(w, "%s %s\n", parts[0], obs)
		w.Flush()
	}
}
