package main

import (
	"bytes"
	"encoding/binary"
	"fmt"
	"io"
	"runtime"
	"strconv"
	"strings"
	"time"

	lz4 "github.com/pierrec/lz4/v4"
	"github.com/pierrec/lz4/v4/internal/verifhook"
	"github.com/pierrec/lz4/v4/internal/xxh32"
)

func init() {
	components["rpipe"] = compRPipe
	replayers = append(replayers, replayRPipe)
}

// rpipe cases: a hand-assembled frame (valid stored blocks, compressed blocks, blocks that decode
// to nothing, undecodable blocks, blocks with a wrong checksum; ended, truncated or failing source)
// read by a concurrent Reader under the scheduling perturbation hooks, with a slow or fast
// consumer.  The recorded trace goes to the Reader pipeline model's checker (PipeR.trace_ok);
// the oracles are the theorems of PipeRSpec: exactly the blocks before the first undecodable one
// are delivered, in order; the verdict is that block's error (else the source's); nothing remains.
type rpipeCase struct {
	conc  int
	spec  string // blocks: v<n> stored, z<n> compressed zeros, e empty-decoding, b undecodable, k bad block checksum
	end   string // E end mark (+ content checksum), T truncated before the end mark, F source fails after the blocks
	bsum  bool
	csum  bool
	rbuf  int // Read buffer size; 0 = WriteTo
	delay int // microseconds slept by the consumer between calls
	pseed uint64
}

func (c *rpipeCase) fields() string {
	return fmt.Sprintf("conc=%d spec=%s end=%s bsum=%d csum=%d rbuf=%d delay=%d pseed=%d", c.conc, c.spec, c.end, b2i(c.bsum), b2i(c.csum), c.rbuf, c.delay, c.pseed)
}

func replayRPipe(kind string, f map[string]string) (string, bool) {
	if kind != "rpipe" {
		return "", false
	}
	ps, _ := strconv.ParseUint(f["pseed"], 10, 64)
	c := &rpipeCase{conc: atoi(f["conc"]), spec: f["spec"], end: f["end"], bsum: f["bsum"] == "1", csum: f["csum"] == "1", rbuf: atoi(f["rbuf"]), delay: atoi(f["delay"]), pseed: ps}
	return runRPipe(c), true
}

var revName = map[string]string{
	"r.rd.enqueue": "enq", "r.wk.start": "start", "r.wk.decoded": "dec", "r.col.take": "take", "r.col.recv": "recv", "r.col.deliver": "dlv",
}

type slowWriter struct {
	buf   bytes.Buffer
	delay time.Duration
}

func (s *slowWriter) Write(p []byte) (int, error) {
	if s.delay > 0 {
		time.Sleep(s.delay)
	}
	return s.buf.Write(p)
}

// buildRFrame assembles the frame; it returns the stream, the content of the blocks before the
// first undecodable one, the expected error class and the number of blocks.
func buildRFrame(c *rpipeCase) (frame []byte, want []byte, wantErr string, nblk int) {
	var hb bytes.Buffer
	w := lz4.NewWriter(&hb)
	w.Apply(lz4.BlockSizeOption(lz4.Block64Kb), lz4.ChecksumOption(c.csum), lz4.BlockChecksumOption(c.bsum))
	w.Write([]byte("0123456789"))
	w.Close()
	frame = append(frame, hb.Bytes()[:7]...)
	put := func(stored []byte, raw bool, sum uint32) {
		var b [4]byte
		n := uint32(len(stored))
		if raw {
			n |= 1 << 31
		}
		binary.LittleEndian.PutUint32(b[:], n)
		frame = append(frame, b[:]...)
		frame = append(frame, stored...)
		if c.bsum {
			binary.LittleEndian.PutUint32(b[:], sum)
			frame = append(frame, b[:]...)
		}
	}
	failed := false
	wantErr = ""
	for i, t := range strings.Split(c.spec, ",") {
		if t == "" {
			continue
		}
		nblk++
		n := 0
		if len(t) > 1 {
			n = atoi(t[1:])
		}
		switch t[0] {
		case 'v':
			d := genData(i%4, i+n, n)
			put(d, true, xxh32.ChecksumZero(d))
			if !failed {
				want = append(want, d...)
			}
		case 'z':
			d := make([]byte, n)
			z := make([]byte, lz4.CompressBlockBound(n))
			zn, _ := lz4.CompressBlock(d, z, nil)
			put(z[:zn], false, xxh32.ChecksumZero(d))
			if !failed {
				want = append(want, d...)
			}
		case 'e':
			put([]byte{0x00}, false, xxh32.ChecksumZero(nil))
		case 'b':
			put([]byte{0x10, 0x41, 0x00, 0x00}, false, 0)
			if !failed {
				failed, wantErr = true, "short"
			} else if !strings.Contains(wantErr, "short") {
				wantErr += "|short"
			}
		case 'k':
			d := genData(1, i, n)
			put(d, true, xxh32.ChecksumZero(d)^0x5a5a)
			if !failed {
				if c.bsum {
					failed, wantErr = true, "blksum"
				} else {
					want = append(want, d...)
				}
			} else if c.bsum && !strings.Contains(wantErr, "blksum") {
				wantErr += "|blksum"
			}
		}
	}
	switch c.end {
	case "E":
		frame = append(frame, 0, 0, 0, 0)
		if c.csum {
			var b [4]byte
			binary.LittleEndian.PutUint32(b[:], xxh32.ChecksumZero(want))
			frame = append(frame, b[:]...)
		}
		if !failed {
			wantErr = "nil"
		}
	case "T":
		if !failed {
			wantErr = "ueof-or-eof"
		}
	case "F":
		if !failed {
			wantErr = "injected"
		}
	}
	return
}

func runRPipe(c *rpipeCase) string {
	return withWatchdog(20*time.Second, func() string {
		g0 := runtime.NumGoroutine()
		frame, want, wantErr, nblk := buildRFrame(c)
		var src io.Reader = bytes.NewReader(frame)
		if c.end == "F" {
			src = &failingAfter{r: bytes.NewReader(frame)}
		}
		zr := lz4.NewReader(src)
		zr.Apply(lz4.ConcurrencyOption(c.conc))
		verifhook.Start(c.pseed, true)
		var out bytes.Buffer
		var err error
		d := time.Duration(c.delay) * time.Microsecond
		if c.rbuf == 0 {
			sw := &slowWriter{delay: d}
			_, err = zr.WriteTo(sw)
			out = sw.buf
		} else {
			buf := make([]byte, c.rbuf)
			for {
				var n int
				n, err = zr.Read(buf)
				out.Write(buf[:n])
				if err != nil {
					break
				}
				if d > 0 {
					time.Sleep(d)
				}
			}
			if err == io.EOF {
				err = nil
			}
		}
		// give the goroutines the time to finish (or to show that they never will) before the
		// trace is cut
		leak := "ok"
		deadline := time.Now().Add(5 * time.Second) // a goroutine that is still winding down is not a leak: only one that never ends is
		for runtime.NumGoroutine() > g0 && time.Now().Before(deadline) {
			time.Sleep(2 * time.Millisecond)
		}
		if n := runtime.NumGoroutine(); n > g0 {
			leak = fmt.Sprintf("fail:%d-goroutines-remain-after-the-Reader-reported-%s", n-g0, errClass(err))
		}
		tr := verifhook.Stop()
		ids := map[string]string{}
		nj := 0
		var evs []string
		for _, e := range tr {
			if e.Point == "r.rd.enqueue" {
				ids[e.Obj] = strconv.Itoa(nj)
				nj++
			}
			if e.Point == "r.rd.sentinel" {
				// channel addresses are reused once a channel is garbage: rebind
				ids[e.Obj] = "s"
			}
			n, ok := revName[e.Point]
			if !ok {
				continue
			}
			id, known := ids[e.Obj]
			if !known {
				id = "?"
			}
			evs = append(evs, n+":"+id)
		}
		got := errClass(err)
		verdict := "ok"
		switch {
		case wantErr == "ueof-or-eof":
			if got != "ueof" && got != "eof" {
				verdict = "fail:truncated-stream-reported-" + got
			}
		case !strings.Contains("|"+wantErr+"|", "|"+got+"|"):
			// with several undecodable blocks the reported error is that of ANY of them (the
			// workers race to the latch: pr_order), never the source's verdict
			verdict = "fail:reported-" + got + "-expected-" + wantErr
		}
		deliv := "ok"
		if !bytes.Equal(out.Bytes(), want) {
			deliv = fmt.Sprintf("fail:delivered-%d-bytes-expected-%d(the-blocks-before-the-first-undecodable-one)-prefix=%v", out.Len(), len(want), bytes.HasPrefix(want, out.Bytes()))
		}
		return fmt.Sprintf("x_nblk=%d x_njobs=%d x_tr=%s oracle_rverdict=%s oracle_rdelivered=%s oracle_rnoleak=%s", nblk, nj, strings.Join(evs, ","), verdict, deliv, leak)
	})
}

// failingAfter delivers the whole stream and then fails with the injected error instead of io.EOF
type failingAfter struct{ r *bytes.Reader }

func (f *failingAfter) Read(p []byte) (int, error) {
	n, err := f.r.Read(p)
	if err == io.EOF {
		return n, errInjected
	}
	return n, err
}

func compRPipe(o *out, seed uint64, tier string) {
	r := newRng(seed, "rpipe")
	n := 150
	if tier == "thorough" {
		n = 2000
	}
	tok := func(allowE, bsum bool) string {
		switch k := r.intn(12); {
		case k < 4:
			return fmt.Sprintf("v%d", []int{1, 100, 1000, 65536, 30000}[r.intn(5)])
		case k < 7:
			return fmt.Sprintf("z%d", []int{13, 1000, 65536, 40000}[r.intn(4)])
		case k < 9 && allowE:
			return "e"
		case k == 9:
			return "b"
		case k == 10 && bsum:
			return "k1000"
		}
		return "v500"
	}
	for i := 0; i < n; i++ {
		c := &rpipeCase{conc: []int{2, 2, 3, 4, 8}[r.intn(5)], end: []string{"E", "E", "E", "T", "F"}[r.intn(5)], pseed: r.next() % 1000000,
			rbuf: []int{0, 0, 1 << 16, 100, 7, 4096}[r.intn(6)], delay: []int{0, 0, 50, 500, 2000}[r.intn(5)]}
		c.bsum = r.intn(3) == 0
		c.csum = r.intn(2) == 0
		nb := r.intn(9)
		var toks []string
		for j := 0; j < nb; j++ {
			// under block checksums the stored and the decoded bytes must coincide for the frame
			// to mean the same thing to every reader: no empty-decoding / compressed blocks there
			t := tok(!c.bsum, c.bsum)
			if c.bsum && t[0] == 'z' {
				t = "v" + t[1:]
			}
			toks = append(toks, t)
		}
		// the corner of F27: an empty-decoding block, a few blocks, then an undecodable one, read slowly
		if i%5 == 0 && !c.bsum {
			toks = []string{"v1000", "e", "v1000"}
			for j := r.intn(3); j > 0; j-- {
				toks = append(toks, "v700")
			}
			toks = append(toks, "b")
			c.rbuf, c.delay = []int{100, 0}[r.intn(2)], 2000
		}
		if c.rbuf > 0 && c.rbuf < 1000 {
			// small buffers: keep the streams short
			for j := range toks {
				if len(toks[j]) > 5 {
					toks[j] = toks[j][:1] + "3000"
				}
			}
		}
		c.spec = strings.Join(toks, ",")
		obs := iso("rpipe", c.fields(), 30*time.Second)
		tr, nj := "", "0"
		for _, kv := range strings.Split(obs, " ") {
			if strings.HasPrefix(kv, "x_tr=") {
				tr = kv[5:]
			}
			if strings.HasPrefix(kv, "x_nblk=") {
				nj = kv[7:]
			}
		}
		o.emit("rpipe", c.fields()+" inblk="+nj+" itr="+tr, obs, len(toks) >= 2)
		o.count(fmt.Sprintf("rconc=%d", c.conc))
		o.count("end=" + c.end)
		if strings.Contains(c.spec, "b") || strings.Contains(c.spec, "k") {
			o.count("with-undecodable-block")
		}
		if strings.Contains(c.spec, "e") {
			o.count("with-empty-block")
		}
	}
}
