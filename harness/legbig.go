package main

import (
	"fmt"
	"io"
	"strconv"
	"time"

	lz4 "github.com/pierrec/lz4/v4"
)

func init() {
	replayers = append(replayers, replayLegBig)
}

// legbig: a legacy frame of nblk incompressible 8 MiB blocks streamed from a Writer to a Reader
// through a pipe (2.3 GiB pass through in about two seconds).  C02_legacy_incompressible_
// truncates: beyond 257 blocks the running total equals the size word of a block stored raw and the
// Reader's kernel-trailer rule ends the stream (finding F28, second manifestation).
func replayLegBig(kind string, f map[string]string) (string, bool) {
	if kind != "legbig" {
		return "", false
	}
	n, _ := strconv.Atoi(f["nblk"])
	return runLegBig(n), true
}

// legScan follows the legacy framing of the bytes that pass through it (magic, then size word +
// payload, repeated) and records the stored sizes of the blocks
type legScan struct {
	w     io.Writer
	state int // 0 magic, 1 word, 2 payload
	need  int
	acc   []byte
	sizes map[uint32]int
	order []uint32
}

func (l *legScan) Write(p []byte) (int, error) {
	q := p
	for len(q) > 0 {
		switch l.state {
		case 0, 1:
			take := 4 - len(l.acc)
			if take > len(q) {
				take = len(q)
			}
			l.acc = append(l.acc, q[:take]...)
			q = q[take:]
			if len(l.acc) == 4 {
				if l.state == 1 {
					w := uint32(l.acc[0]) | uint32(l.acc[1])<<8 | uint32(l.acc[2])<<16 | uint32(l.acc[3])<<24
					sz := w & 0x7fffffff
					if l.sizes[sz] == 0 {
						l.order = append(l.order, sz)
					}
					l.sizes[sz]++
					l.need = int(sz)
					l.state = 2
				} else {
					l.state = 1
				}
				l.acc = l.acc[:0]
				if l.state == 2 && l.need == 0 {
					l.state = 1
				}
			}
		default:
			take := l.need
			if take > len(q) {
				take = len(q)
			}
			q = q[take:]
			l.need -= take
			if l.need == 0 {
				l.state = 1
			}
		}
	}
	return l.w.Write(p)
}

type countWriter struct{ n int64 }

func (c *countWriter) Write(p []byte) (int, error) { c.n += int64(len(p)); return len(p), nil }

func runLegBig(nblk int) string {
	return withWatchdog(600*time.Second, func() string {
		blk := genData(0, 4242, 8<<20)
		pr, pw := io.Pipe()
		scan := &legScan{w: pw, sizes: map[uint32]int{}}
		werr := make(chan error, 1)
		go func() {
			zw := lz4.NewWriter(scan)
			if err := zw.Apply(lz4.LegacyOption(true)); err != nil {
				pw.CloseWithError(err)
				werr <- err
				return
			}
			var err error
			for i := 0; i < nblk && err == nil; i++ {
				_, err = zw.Write(blk)
			}
			if err == nil {
				err = zw.Close()
			}
			pw.CloseWithError(err)
			werr <- err
		}()
		cw := &countWriter{}
		_, rerr := lz4.NewReader(pr).WriteTo(cw)
		// drain whatever the Reader left unread so that the writer goroutine can finish
		io.Copy(io.Discard, pr)
		we := <-werr
		want := int64(nblk) * (8 << 20)
		rt := "ok"
		if rerr == nil && cw.n != want {
			rt = fmt.Sprintf("fail:legacy-stream-of-%d-bytes-read-back-as-%d-without-error", want, cw.n)
		} else if rerr != nil {
			rt = "fail:legacy-stream-read-error-" + errClass(rerr)
		}
		// C09: a legacy frame holds 8 MiB of content per block: incompressible input is emitted as
		// nblk blocks whose stored size is 8 MiB each
		blocks := "ok"
		if len(scan.order) != 1 || scan.order[0] != 8<<20 || scan.sizes[8<<20] != nblk {
			blocks = fmt.Sprintf("fail:legacy-frame-of-%d-incompressible-8MiB-chunks-has-blocks-of-stored-sizes-%v", nblk, scan.order)
		}
		return fmt.Sprintf("x_written=%d x_read=%d x_werr=%s oracle_rt=%s oracle_blocks=%s", want, cw.n, errClass(we), rt, blocks)
	})
}

func compLegBig(o *out, tier string) {
	for _, n := range []int{3, 300} {
		o.emit("legbig", fmt.Sprintf("nblk=%d", n), runLegBig(n), true)
		o.count("legacy-streams-of-8MiB-blocks")
	}
}
