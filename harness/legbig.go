package main

import (
	"fmt"
	"io"
	"strconv"
	"time"

	lz4 "github.com/pierrec/lz4/v4"
)

func init() {
	replayers = append(replayers, replayLegBig)
}

// legbig: a legacy frame of nblk incompressible 8 MiB blocks streamed from a Writer to a Reader
// through a pipe (2.3 GiB pass through in about two seconds).  C02_legacy_incompressible_
// truncates: beyond 257 blocks the running total equals the size word of a block stored raw and the
// Reader's kernel-trailer rule ends the stream (finding F28, second manifestation).
func replayLegBig(kind string, f map[string]string) (string, bool) {
	if kind != "legbig" {
		return "", false
	}
	n, _ := strconv.Atoi(f["nblk"])
	return runLegBig(n), true
}

type countWriter struct{ n int64 }

func (c *countWriter) Write(p []byte) (int, error) { c.n += int64(len(p)); return len(p), nil }

func runLegBig(nblk int) string {
	return withWatchdog(600*time.Second, func() string {
		blk := genData(0, 4242, 8<<20)
		pr, pw := io.Pipe()
		werr := make(chan error, 1)
		go func() {
			zw := lz4.NewWriter(pw)
			if err := zw.Apply(lz4.LegacyOption(true)); err != nil {
				pw.CloseWithError(err)
				werr <- err
				return
			}
			var err error
			for i := 0; i < nblk && err == nil; i++ {
				_, err = zw.Write(blk)
			}
			if err == nil {
				err = zw.Close()
			}
			pw.CloseWithError(err)
			werr <- err
		}()
		cw := &countWriter{}
		_, rerr := lz4.NewReader(pr).WriteTo(cw)
		// drain whatever the Reader left unread so that the writer goroutine can finish
		io.Copy(io.Discard, pr)
		we := <-werr
		want := int64(nblk) * (8 << 20)
		rt := "ok"
		if rerr == nil && cw.n != want {
			rt = fmt.Sprintf("fail:legacy-stream-of-%d-bytes-read-back-as-%d-without-error", want, cw.n)
		} else if rerr != nil {
			rt = "fail:legacy-stream-read-error-" + errClass(rerr)
		}
		return fmt.Sprintf("x_written=%d x_read=%d x_werr=%s oracle_rt=%s", want, cw.n, errClass(we), rt)
	})
}

func compLegBig(o *out, tier string) {
	for _, n := range []int{3, 300} {
		o.emit("legbig", fmt.Sprintf("nblk=%d", n), runLegBig(n), true)
		o.count("legacy-streams-of-8MiB-blocks")
	}
}
