package main

import (
	"bytes"
	"errors"
	"fmt"
	"io"
	"runtime"
	"runtime/debug"
	"strconv"
	"strings"
	"time"

	lz4 "github.com/pierrec/lz4/v4"
)

// ---------------------------------------------------------------- canonical errors

var errInjected = errors.New("verif: injected fault")

// The injected failure comes in four shapes, chosen by the position of the fault (so that the case
// format does not change): a plain error; one that wraps io.EOF; one that wraps io.ErrUnexpectedEOF
// (a source's own error is not an end of stream, however it is dressed: only the identical io.EOF
// value is); one whose type has Timeout/Temporary methods (a failure is a failure).  All of them
// satisfy errors.Is(err, errInjected).
type timeoutFault struct{}

func (timeoutFault) Error() string        { return "verif: injected fault (deadline exceeded)" }
func (timeoutFault) Timeout() bool        { return true }
func (timeoutFault) Temporary() bool      { return true }
func (timeoutFault) Is(target error) bool { return target == errInjected }

var faultShapes = []error{
	errInjected,
	fmt.Errorf("%w (wraps %w)", errInjected, io.EOF),
	fmt.Errorf("%w (wraps %w)", errInjected, io.ErrUnexpectedEOF),
	timeoutFault{},
}

// injectedFault(k, wrapEOF): the shape for a fault at call k; the EOF-wrapping shapes only where asked for
func injectedFault(k int, once bool, wrapEOF bool) error {
	i := k % 4
	if once {
		i = (k + 2) % 4
	}
	if !wrapEOF && (i == 1 || i == 2) {
		i = 3
	}
	return faultShapes[i]
}

func errClass(err error) string {
	switch {
	case err == nil:
		return "nil"
	case errors.Is(err, errInjected):
		return "injected"
	case errors.Is(err, io.ErrUnexpectedEOF):
		return "ueof"
	case errors.Is(err, io.EOF):
		return "eof"
	case errors.Is(err, lz4.ErrInvalidFrame):
		return "badframe"
	case errors.Is(err, lz4.ErrInvalidHeaderChecksum):
		return "hdrsum"
	case errors.Is(err, lz4.ErrInvalidBlockChecksum):
		return "blksum"
	case errors.Is(err, lz4.ErrInvalidFrameChecksum):
		return "frmsum"
	case errors.Is(err, lz4.ErrOptionInvalidBlockSize):
		return "blksize"
	case errors.Is(err, lz4.ErrInvalidSourceShortBuffer):
		return "short"
	case errors.Is(err, lz4.ErrOptionClosedOrError):
		return "closed"
	case errors.Is(err, lz4.ErrOptionNotApplicable):
		return "notapp"
	case errors.Is(err, lz4.ErrOptionInvalidCompressionLevel):
		return "badlevel"
	case errors.Is(err, lz4.ErrInternalUnhandledState):
		return "unhandled"
	case strings.Contains(err.Error(), "writer closed"):
		return "wclosed"
	case strings.Contains(err.Error(), "reader is done"):
		return "crdone"
	}
	return "other"
}

// ---------------------------------------------------------------- sinks and sources

type sink struct {
	buf    bytes.Buffer
	calls  int
	failAt int  // 1-based index of the Write call that fails; 0 = never
	once   bool // fail at that call only (a transient failure), instead of from that call on
	failed bool
}

func (s *sink) Write(p []byte) (int, error) {
	s.calls++
	if s.failAt > 0 && (s.calls == s.failAt || (!s.once && s.calls > s.failAt)) {
		if !s.failed {
			// the first failure takes its time: with a concurrent Writer the call that follows (usually
			// Close) has then certainly begun while the failing write is still in flight, which is the
			// interleaving in which a failure can get lost
			time.Sleep(30 * time.Millisecond)
		}
		s.failed = true
		return 0, injectedFault(s.failAt, s.once, false)
	}
	if s.buf.Len()+len(p) > 48<<20 {
		return 0, errors.New("verif: sink overflow")
	}
	s.buf.Write(p)
	return len(p), nil
}

// source delivers data with a fragmentation pattern and an optional fault.
//
//	frag 0: as much as asked; 1: one byte per call; 2: seeded random sizes with zero-length reads;
//	3: as 0 but the last bytes come together with io.EOF; 4: at most 7 bytes per call
type source struct {
	data     []byte
	pos      int
	frag     int
	r        *rng
	calls    int
	failAt   int
	once     bool // the fault fires at that call only (a transient failure)
	consumed int
	wrapEOF  bool // the injected failure may wrap io.EOF / io.ErrUnexpectedEOF
}

// seekSource: a source that can also Seek, ReadByte and WriteTo (frag 5), with the semantics of *os.File /
// bytes.Reader
type seekSource struct{ *source }

func (s *seekSource) Seek(off int64, whence int) (int64, error) {
	var abs int64
	switch whence {
	case io.SeekStart:
		abs = off
	case io.SeekCurrent:
		abs = int64(s.pos) + off
	case io.SeekEnd:
		abs = int64(len(s.data)) + off
	}
	if abs < 0 {
		return 0, errors.New("verif: negative position")
	}
	if abs > int64(len(s.data)) {
		s.pos = len(s.data) // reads beyond the end report io.EOF, as for a file
		s.consumed = len(s.data)
		return abs, nil
	}
	s.pos = int(abs)
	return abs, nil
}

func (s *source) Read(p []byte) (int, error) {
	s.calls++
	if s.failAt > 0 && (s.calls == s.failAt || (!s.once && s.calls > s.failAt)) {
		return 0, injectedFault(s.failAt, s.once, s.wrapEOF)
	}
	if len(p) == 0 {
		return 0, nil
	}
	rem := len(s.data) - s.pos
	if rem == 0 {
		return 0, io.EOF
	}
	n := len(p)
	switch s.frag {
	case 1:
		n = 1
	case 2:
		if s.r.intn(4) == 0 {
			return 0, nil
		}
		n = 1 + s.r.intn(len(p))
	case 4:
		if n > 7 {
			n = 7
		}
	}
	if n > rem {
		n = rem
	}
	copy(p, s.data[s.pos:s.pos+n])
	s.pos += n
	s.consumed += n
	if s.frag == 3 && s.pos == len(s.data) {
		return n, io.EOF
	}
	return n, nil
}

// ---------------------------------------------------------------- data generators (also implemented in the OCaml driver)

// genData: deterministic content from (kind, seed, n).
//
//	kind 0: pseudo-random bytes (incompressible); 1: text-like with period 37+seed%11; 2: all equal;
//	3: mixed: compressible and incompressible stretches of 1000 bytes
func genData(kind, seed, n int) []byte {
	b := make([]byte, n)
	x := uint32(seed)*2654435761 + 12345
	for i := range b {
		switch kind {
		case 0:
			x = x*1664525 + 1013904223
			b[i] = byte(x >> 24)
		case 1:
			p := 37 + seed%11
			b[i] = byte('a' + (i%p)%26 + (i/p)%3)
		case 2:
			b[i] = byte(seed)
		case 4, 5:
			// incompressible except for a short compressible tail: the block compressor, given a
			// destination of only len(src) bytes by the frame layer, finds its first match when the
			// destination is almost full (kind 4: zeros at the very end; kind 5: a repeat of the
			// block's first bytes shortly before the end)
			tail := 40 + seed%300
			switch {
			case kind == 4 && i >= n-tail:
				b[i] = 0
			case kind == 5 && i >= n-tail && i < n-tail+24 && n > 2*tail:
				b[i] = b[i-(n-tail)]
			default:
				x = x*1664525 + 1013904223
				b[i] = byte(x >> 24)
			}
		default:
			if (i/1000)%2 == 0 {
				x = x*1664525 + 1013904223
				b[i] = byte(x >> 24)
			} else {
				b[i] = byte('A' + (i%50)%26)
			}
		}
	}
	return b
}

// dataSpec: "h:<hex>" literal or "g:<kind>,<seed>,<n>" generated
func parseData(s string) []byte {
	if strings.HasPrefix(s, "g:") {
		p := strings.Split(s[2:], ",")
		k, _ := strconv.Atoi(p[0])
		sd, _ := strconv.Atoi(p[1])
		n, _ := strconv.Atoi(p[2])
		return genData(k, sd, n)
	}
	if strings.HasPrefix(s, "h:") {
		return unhex(s[2:])
	}
	return nil
}

// ---------------------------------------------------------------- options

type wopts struct {
	bs    int // block size code 4..7 (0: leave default), or an invalid size when bsraw != 0
	bsraw int
	bc    int // -1 unset, 0, 1
	cc    int
	size  int64 // -1 unset
	lvl   int   // -1 unset, else the CompressionLevel value
	conc  int   // -1 unset
	leg   int   // -1 unset
}

func parseOpts(s string) wopts {
	o := wopts{bc: -1, cc: -1, size: -1, lvl: -1, conc: -1, leg: -1}
	if s == "" || s == "-" {
		return o
	}
	for _, kv := range strings.Split(s, ",") {
		p := strings.SplitN(kv, "=", 2)
		v, _ := strconv.ParseInt(p[1], 10, 64)
		switch p[0] {
		case "bs":
			o.bs = int(v)
		case "bsraw":
			o.bsraw = int(v)
		case "bc":
			o.bc = int(v)
		case "cc":
			o.cc = int(v)
		case "sz":
			o.size = v
		case "lvl":
			o.lvl = int(v)
		case "conc":
			o.conc = int(v)
		case "leg":
			o.leg = int(v)
		}
	}
	return o
}

func (o wopts) list(forReader bool) []lz4.Option {
	var l []lz4.Option
	if !forReader {
		if o.bs != 0 {
			l = append(l, lz4.BlockSizeOption(lz4.BlockSize(1<<(8+2*uint(o.bs)))))
		}
		if o.bsraw != 0 {
			l = append(l, lz4.BlockSizeOption(lz4.BlockSize(o.bsraw)))
		}
		if o.bc >= 0 {
			l = append(l, lz4.BlockChecksumOption(o.bc == 1))
		}
		if o.cc >= 0 {
			l = append(l, lz4.ChecksumOption(o.cc == 1))
		}
		if o.size >= 0 {
			l = append(l, lz4.SizeOption(uint64(o.size)))
		}
		if o.lvl >= 0 {
			l = append(l, lz4.CompressionLevelOption(lz4.CompressionLevel(o.lvl)))
		}
		if o.leg >= 0 {
			l = append(l, lz4.LegacyOption(o.leg == 1))
		}
	}
	if o.conc >= 0 {
		l = append(l, lz4.ConcurrencyOption(o.conc))
	}
	return l
}

// ---------------------------------------------------------------- watchdog

// withWatchdog runs f; if it does not return within d the observation is "hang" (the goroutine is
// abandoned: a hang is a finding, the process is not reused for timing-sensitive observations)
func withWatchdog(d time.Duration, f func() string) string {
	ch := make(chan string, 1)
	go func() {
		defer func() {
			if r := recover(); r != nil {
				ch <- "res=panic oracle_nopanic=fail:" + sanitizeMsg(fmt.Sprint(r))
			}
		}()
		ch <- f()
	}()
	select {
	case s := <-ch:
		return s
	case <-time.After(d):
		return "res=hang oracle_nohang=fail:no-return-within-" + d.String()
	}
}

// ---------------------------------------------------------------- writer sessions

// ops: A:<opts> | W:<dataspec> | RF:<dataspec>:<frag> | F | C | R
type wsCase struct {
	ops    []string
	fault  int // sink Write call (counted over the whole session) that fails
	once   bool
	wf     bool
	rdconc int
	pre    int // prelude run on OTHER objects before the session (pool history): 0 none; 1 a sequential ReadFrom whose source fails; 2 a concurrent one; 3 a Reader abandoned mid-stream; 4 a complete sequential ReadFrom of a whole number of blocks; 5 a complete concurrent ReadFrom ending inside a block
}

func (c *wsCase) fields() string {
	f := fmt.Sprintf("ops=%s fault=%d once=%d wf=%d rdconc=%d", strings.Join(c.ops, ";"), c.fault, b2i(c.once), b2i(c.wf), c.rdconc)
	if c.pre != 0 {
		f += fmt.Sprintf(" pre=%d", c.pre)
	}
	return f
}

func fieldOf(obs, key string) string {
	for _, kv := range strings.Split(obs, " ") {
		if strings.HasPrefix(kv, key+"=") {
			return kv[len(key)+1:]
		}
	}
	return ""
}

// prelude exercises other Writer/Reader objects so that the package pools have a history when the
// session starts (C14: output does not depend on what the pools processed before)
func prelude(kind int) {
	if kind == 0 {
		return
	}
	defer func() { recover() }()
	for _, bs := range []lz4.BlockSize{lz4.Block64Kb, lz4.Block256Kb} {
		switch kind {
		case 1, 2:
			var b bytes.Buffer
			zw := lz4.NewWriter(&b)
			zw.Apply(lz4.BlockSizeOption(bs), lz4.ConcurrencyOption(kind))
			src := &source{data: genData(0, 77, 3*int(bs)+100), failAt: 1 + int(bs>>16)%3, r: newRng(1, "pre")}
			zw.ReadFrom(src) // the failed Writer is abandoned, as a caller that gives up would do
		case 3:
			var b bytes.Buffer
			zw := lz4.NewWriter(&b)
			zw.Apply(lz4.BlockSizeOption(bs))
			zw.Write(genData(1, 5, 3*int(bs)))
			zw.Close()
			zr := lz4.NewReader(bytes.NewReader(b.Bytes()))
			zr.Read(make([]byte, 100))
		case 4, 5:
			// a COMPLETE, successful ReadFrom session on another Writer: a source that ends exactly on a
			// block boundary (sequential), a source that ends inside a block (concurrent)
			var b bytes.Buffer
			zw := lz4.NewWriter(&b)
			zw.Apply(lz4.BlockSizeOption(bs), lz4.ConcurrencyOption(1+(kind-4)))
			n := 2 * int(bs)
			if kind == 5 {
				n += 1000
			}
			zw.ReadFrom(&source{data: genData(1, 7, n), r: newRng(1, "pre")})
			zw.Close()
		}
	}
}

func b2i(b bool) int {
	if b {
		return 1
	}
	return 0
}

// readBack decodes a frame with the library's own Reader.
func readBack(frame []byte, conc int, mode int, r *rng) (out []byte, err error) {
	zr := lz4.NewReader(bytes.NewReader(frame))
	if conc != 1 {
		if e := zr.Apply(lz4.ConcurrencyOption(conc)); e != nil {
			return nil, e
		}
	}
	if mode == 0 {
		var b bytes.Buffer
		_, err = zr.WriteTo(&b)
		return b.Bytes(), err
	}
	sizes := []int{1, 7, 4096, 65535, 65536, 65537, 4 << 20}
	for {
		p := make([]byte, sizes[r.intn(len(sizes))])
		n, e := zr.Read(p)
		out = append(out, p[:n]...)
		if e == io.EOF {
			return out, nil
		}
		if e != nil {
			return out, e
		}
		if len(out) > 64<<20 {
			return out, errors.New("runaway")
		}
	}
}

func runWS(c *wsCase) string {
	if c.pre != 0 {
		// C14: the same session before and after the pools were given a history must emit the
		// same bytes
		c0 := *c
		c0.pre = 0
		// (no collection in between: a GC empties sync.Pool and with it the history)
		defer debug.SetGCPercent(debug.SetGCPercent(-1))
		before := fieldOf(runWS(&c0), "sinks")
		prelude(c.pre)
		obs := runWS(&c0)
		if after := fieldOf(obs, "sinks"); after != before {
			obs += " oracle_pool=fail:output-depends-on-what-the-package-pools-processed-before"
		} else {
			obs += " oracle_pool=ok"
		}
		return obs
	}
	return withWatchdog(20*time.Second, func() string {
		g0 := runtime.NumGoroutine()
		sk := &sink{failAt: c.fault, once: c.once}
		sinks := []*sink{sk}
		zw := lz4.NewWriter(sk)
		var res []string
		var accepted [][]byte // per epoch: data accepted between Reset and Close
		cur := []byte{}
		closedOK := []bool{false}
		sawErr := false
		for _, op := range c.ops {
			switch {
			case strings.HasPrefix(op, "A:"):
				err := zw.Apply(parseOpts(op[2:]).list(false)...)
				res = append(res, "a:"+errClass(err))
			case strings.HasPrefix(op, "W:"):
				d := parseData(op[2:])
				buf := append([]byte(nil), d...)
				n, err := zw.Write(buf)
				for i := range buf { // the caller may reuse its buffer as soon as Write has returned
					buf[i] = 0xEE
				}
				res = append(res, fmt.Sprintf("%d:%s", n, errClass(err)))
				if n > 0 && n <= len(d) {
					cur = append(cur, d[:n]...)
				}
				if err != nil {
					sawErr = true
				}
			case strings.HasPrefix(op, "RF:"):
				p := strings.Split(op[3:], "|")
				d := parseData(p[0])
				fr, _ := strconv.Atoi(p[1])
				src := &source{data: d, frag: fr, r: newRng(uint64(len(d)), "rf")}
				n, err := zw.ReadFrom(src)
				res = append(res, fmt.Sprintf("%d:%s", n, errClass(err)))
				if n > 0 && int(n) <= len(d) {
					cur = append(cur, d[:n]...)
				}
				if err != nil {
					sawErr = true
				}
			case op == "F":
				err := zw.Flush()
				res = append(res, "f:"+errClass(err))
				if err != nil {
					sawErr = true
				}
			case op == "C":
				err := zw.Close()
				res = append(res, "c:"+errClass(err))
				if err == nil && !closedOK[len(closedOK)-1] {
					closedOK[len(closedOK)-1] = true
					accepted = append(accepted, cur)
				}
				if err != nil {
					sawErr = true
				}
			case op == "R":
				if !closedOK[len(closedOK)-1] {
					accepted = append(accepted, nil)
				}
				sk = &sink{}
				sinks = append(sinks, sk)
				closedOK = append(closedOK, false)
				cur = []byte{}
				zw.Reset(sk)
				res = append(res, "r")
			}
		}
		var sb []string
		for _, s := range sinks {
			sb = append(sb, hx(s.buf.Bytes()))
		}
		// per epoch: what was accepted and whether Close returned nil (for the specification oracle)
		var ab, cb []string
		for i := range sinks {
			a := cur
			if i < len(accepted) {
				a = accepted[i]
			}
			ab = append(ab, hx(a))
			cb = append(cb, strconv.Itoa(b2i(i < len(closedOK) && closedOK[i])))
		}
		obs := fmt.Sprintf("res=%s sinks=%s x_acc=%s x_closed=%s", strings.Join(res, "|"), strings.Join(sb, ","), strings.Join(ab, ","), strings.Join(cb, ","))
		conc := strings.Contains(c.ops[0], "conc=") && !strings.Contains(c.ops[0], "conc=1,") && !strings.HasSuffix(c.ops[0], "conc=1")
		if (conc || c.once) && c.fault > 0 {
			// with concurrency a sink failure surfaces at a later call: only the oracles apply
			obs = "x_" + strings.Replace(obs, " sinks=", " x_sinks=", 1)
		} else if conc && c.ops[len(c.ops)-1] != "C" && c.ops[len(c.ops)-1] != "R" {
			// blocks still in flight: the sink is only defined once Close has returned
			obs = strings.Replace(obs, " sinks=", " x_sinks=", 1)
		}
		if c.fault == 0 && len(c.ops) > 0 && c.ops[len(c.ops)-1] == "C" {
			for _, op := range c.ops {
				if op == "R" {
					obs += " lastsink=" + sb[len(sb)-1]
					break
				}
			}
		}
		// oracles on the implementation's own behaviour
		// C15: an injected sink failure must be reported by some operation, at the latest by Close
		if sinks[0].failed && !sawErr {
			obs += " oracle_fault_reported=fail:sink-failed-but-every-call-returned-nil"
		} else {
			obs += " oracle_fault_reported=ok"
		}
		// C02: for well-formed sessions every closed epoch decodes to what was accepted
		rt := "ok"
		if c.wf && c.fault == 0 {
			rr := newRng(uint64(len(c.ops)), "rb")
			for i, s := range sinks {
				if i >= len(closedOK) || !closedOK[i] {
					continue
				}
				for mode := 0; mode < 2; mode++ {
					out, err := readBack(s.buf.Bytes(), c.rdconc, mode, rr)
					if err != nil || !bytes.Equal(out, accepted[i]) {
						rt = fmt.Sprintf("fail:epoch%d-mode%d-err=%s-got%d-want%d", i, mode, errClass(err), len(out), len(accepted[i]))
					}
				}
			}
		}
		obs += " oracle_rt=" + rt
		// C08: no goroutine of the library remains after Close returned
		leak := "ok"
		if len(c.ops) > 0 && c.ops[len(c.ops)-1] == "C" { // Close has returned (with or without error)
			deadline := time.Now().Add(5 * time.Second) // a goroutine that is still winding down is not a leak: only one that never ends is
			for runtime.NumGoroutine() > g0 && time.Now().Before(deadline) {
				time.Sleep(2 * time.Millisecond)
			}
			if n := runtime.NumGoroutine(); n > g0 {
				leak = fmt.Sprintf("fail:%d-goroutines-remain", n-g0)
			}
		}
		obs += " oracle_noleak=" + leak
		return obs
	})
}

// ---------------------------------------------------------------- reader sessions

// ops: A:<opts> | R:<n> | WT | S | RS:<dataspec>   (Reset to a new source)
type rsCase struct {
	in    []byte
	ops   []string
	frag  int
	fault int
	conc  int
}

func (c *rsCase) fields() string {
	return fmt.Sprintf("in=%s ops=%s frag=%d fault=%d conc=%d", hx(c.in), strings.Join(c.ops, ";"), c.frag, c.fault, c.conc)
}

func runRS(c *rsCase) string {
	return withWatchdog(20*time.Second, func() string {
		g0 := runtime.NumGoroutine()
		var ms0 runtime.MemStats
		runtime.ReadMemStats(&ms0)
		src := &source{data: c.in, frag: c.frag, failAt: c.fault, wrapEOF: true, r: newRng(uint64(len(c.in)), "rs")}
		var rd io.Reader = src
		if c.frag == 5 {
			// what callers usually pass: a source with more methods than Read (a file, a bytes.Reader:
			// Seek beyond the end succeeds, the next Read reports io.EOF)
			rd = &seekSource{src}
		}
		zr := lz4.NewReader(rd)
		var res []string
		var delivered []byte
		if c.conc != 1 {
			err := zr.Apply(lz4.ConcurrencyOption(c.conc))
			res = append(res, "a:"+errClass(err))
		}
		final := "none"
		for _, op := range c.ops {
			switch {
			case strings.HasPrefix(op, "A:"):
				err := zr.Apply(parseOpts(op[2:]).list(true)...)
				res = append(res, "a:"+errClass(err))
			case strings.HasPrefix(op, "R:"):
				n, _ := strconv.Atoi(op[2:])
				p := make([]byte, n)
				m, err := zr.Read(p)
				if m < 0 || m > n {
					res = append(res, fmt.Sprintf("%d:%s:BADCOUNT", m, errClass(err)))
					continue
				}
				res = append(res, fmt.Sprintf("%d:%s:%s", m, errClass(err), hx(p[:m])))
				delivered = append(delivered, p[:m]...)
				final = errClass(err)
				scribble(p) // io.Reader: the Reader must not retain p; the caller does what it likes with it
			case strings.HasPrefix(op, "RA:") || op == "RM":
				// read until an error or the end of the stream: RA:<n> fixed buffer size, RM mixed sizes
				fixed := 0
				if op != "RM" {
					fixed, _ = strconv.Atoi(op[3:])
				}
				sizes := []int{1, 3, 7, 100, 4096, 65535, 65536, 65537, 1 << 20, 4 << 20}
				mk := len(c.in) % 10
				cnt := 0
				var e error
				var got []byte
				for iter := 0; iter < 1<<22; iter++ {
					sz := fixed
					if sz == 0 {
						sz = sizes[mk%10]
						mk++
					}
					p := make([]byte, sz)
					m, err := zr.Read(p)
					if m < 0 || m > sz {
						e = errors.New("badcount")
						break
					}
					cnt++
					got = append(got, p[:m]...)
					scribble(p) // the caller's buffer is the caller's again once Read has returned
					if err != nil {
						e = err
						break
					}
					if len(got) > 256<<20 {
						e = errors.New("runaway")
						break
					}
				}
				res = append(res, fmt.Sprintf("%d:%s:%s", len(got), errClass(e), hx(got)))
				delivered = append(delivered, got...)
				final = errClass(e)
			case op == "WT":
				var b bytes.Buffer
				n, err := zr.WriteTo(&b)
				res = append(res, fmt.Sprintf("%d:%s:%s", n, errClass(err), hx(b.Bytes())))
				delivered = append(delivered, b.Bytes()...)
				final = errClass(err)
				if err == nil {
					final = "eof" // WriteTo reports the end of the stream as nil
				}
			case op == "S":
				res = append(res, fmt.Sprintf("s:%d", zr.Size()))
			case strings.HasPrefix(op, "RS:"):
				src = &source{data: parseData(op[3:]), frag: c.frag, r: newRng(7, "rs2")}
				zr.Reset(src)
				delivered = nil
				final = "none"
				res = append(res, "r")
			}
		}
		obs := fmt.Sprintf("res=%s consumed=%d final=%s out=%s", strings.Join(res, "|"), src.consumed, final, hx(delivered))
		concurrent := c.conc != 1
		for _, op := range c.ops {
			if strings.HasPrefix(op, "A:") && strings.Contains(op, "conc=") && !strings.Contains(op, "conc=1") {
				concurrent = true
			}
		}
		if concurrent {
			// the concurrent Reader reads ahead and may report a different one of several errors:
			// only the delivered bytes and whether the stream ended cleanly are compared with the model
			fc := "err"
			if final == "eof" || final == "nil" || final == "none" {
				fc = final
			}
			obs = fmt.Sprintf("x_res=%s x_consumed=%d x_final=%s finalc=%s out=%s", strings.Join(res, "|"), src.consumed, final, fc, hx(delivered))
		}
		leak := "ok"
		switch final { // end of stream, or a source / decoding error has been reported
		case "eof", "ueof", "injected", "badframe", "hdrsum", "blksum", "frmsum", "blksize", "short":
			deadline := time.Now().Add(5 * time.Second) // a goroutine that is still winding down is not a leak: only one that never ends is
			for runtime.NumGoroutine() > g0 && time.Now().Before(deadline) {
				time.Sleep(2 * time.Millisecond)
			}
			if n := runtime.NumGoroutine(); n > g0 {
				leak = fmt.Sprintf("fail:%d-goroutines-remain", n-g0)
			}
		}
		// allocation must not follow attacker-controlled fields: a generous fixed budget (a few
		// 8 MiB buffers for legacy frames, read buffers of the session) plus the delivered bytes
		var ms1 runtime.MemStats
		runtime.ReadMemStats(&ms1)
		budget := uint64(96<<20) + 24*uint64(len(delivered)+len(c.in))
		for _, op := range c.ops {
			if strings.HasPrefix(op, "RA:") {
				budget += 8 << 20
			}
		}
		alloc := "ok"
		if grown := ms1.TotalAlloc - ms0.TotalAlloc; grown > budget {
			alloc = fmt.Sprintf("fail:%d-MiB-allocated-for-%d-input-bytes", grown>>20, len(c.in))
		}
		return obs + " oracle_noleak=" + leak + " oracle_alloc=" + alloc
	})
}

// ---------------------------------------------------------------- compressing reader sessions

type nopCloser struct{ io.Reader }

func (nopCloser) Close() error { return nil }

type crCase struct {
	data  string // dataspec
	opts  string
	sizes []int
	frag  int
	fault int
	once  bool   // the source fails at that call only
	data2 string // when set: Reset onto a second source after the first session and read it completely
}

func (c *crCase) fields() string {
	ss := make([]string, len(c.sizes))
	for i, s := range c.sizes {
		ss[i] = strconv.Itoa(s)
	}
	f := fmt.Sprintf("data=%s opts=%s sizes=%s frag=%d fault=%d once=%d", c.data, c.opts, strings.Join(ss, ","), c.frag, c.fault, b2i(c.once))
	if c.data2 != "" {
		f += " data2=" + c.data2
	}
	return f
}

func runCR(c *crCase) string {
	return withWatchdog(20*time.Second, func() string {
		d := parseData(c.data)
		src := &source{data: d, frag: c.frag, failAt: c.fault, once: c.once, wrapEOF: true, r: newRng(uint64(len(d)), "cr")}
		zr := lz4.NewCompressingReader(nopCloser{src})
		ao := "nil"
		if c.opts != "-" && c.opts != "" {
			o := parseOpts(c.opts)
			var l []lz4.Option
			if o.bs != 0 {
				l = append(l, lz4.BlockSizeOption(lz4.BlockSize(1<<(8+2*uint(o.bs)))))
			}
			if o.bc >= 0 {
				l = append(l, lz4.BlockChecksumOption(o.bc == 1))
			}
			if o.cc >= 0 {
				l = append(l, lz4.ChecksumOption(o.cc == 1))
			}
			if o.size >= 0 {
				l = append(l, lz4.SizeOption(uint64(o.size)))
			}
			if o.lvl >= 0 {
				l = append(l, lz4.CompressionLevelOption(lz4.CompressionLevel(o.lvl)))
			}
			ao = errClass(zr.Apply(l...))
		}
		var res []string
		var all []byte
		final := "none"
		progress := "ok"
		for i := 0; ; i++ {
			sz := c.sizes[len(c.sizes)-1]
			if i < len(c.sizes) {
				sz = c.sizes[i]
			}
			if i >= len(c.sizes) && sz == 0 {
				sz = 64
			}
			if c.data2 != "" && i >= len(c.sizes) {
				final = "abandoned" // reuse sessions make exactly the listed reads
				break
			}
			p := make([]byte, sz)
			n, err := zr.Read(p)
			if n < 0 || n > sz {
				res = append(res, fmt.Sprintf("%d:%s:BADCOUNT", n, errClass(err)))
				progress = "fail:count-out-of-range"
				break
			}
			res = append(res, fmt.Sprintf("%d:%s", n, errClass(err)))
			all = append(all, p[:n]...)
			if sz > 0 && n == 0 && err == nil {
				progress = fmt.Sprintf("fail:no-progress-at-call-%d-len(p)=%d", i, sz)
			}
			if err != nil {
				final = errClass(err)
				break
			}
			if i > 200000 {
				final = "runaway"
				break
			}
		}
		obs := fmt.Sprintf("apply=%s nreads=%d final=%s out=%s oracle_progress=%s", ao, len(res), final, hx(all), progress)
		if c.once || (c.fault > 0 && c.frag != 0) || c.data2 != "" {
			// transient failures and call-counted failures of fragmenting sources are outside the
			// model's sources (which count io.ReadFull calls): oracles only
			obs = fmt.Sprintf("x_apply=%s x_nreads=%d x_final=%s x_out=%s oracle_progress=%s", ao, len(res), final, hx(all), progress)
		}
		// a frame that the library's own Reader decodes to the source
		rt := "ok"
		if final == "abandoned" {
			// nothing to say about the first session
		} else if c.fault == 0 {
			out, err := readBack(all, 1, 0, nil)
			if final != "eof" || err != nil || !bytes.Equal(out, d) {
				rt = fmt.Sprintf("fail:final=%s-err=%s-got%d-want%d", final, errClass(err), len(out), len(d))
			}
		} else if src.failAt > 0 && src.calls >= src.failAt && final != "injected" {
			rt = "fail:source-error-not-passed-through:" + final
		}
		// reuse (C18 with C17's "Reset makes the object a new one"): whatever happened in the first
		// session — clean end, source failure in the middle of a Read, reads abandoned half-way —
		// after Reset the reader yields exactly one frame of the second source
		if c.data2 != "" {
			d2 := parseData(c.data2)
			zr.Reset(nopCloser{&source{data: d2, r: newRng(9, "cr2")}})
			var all2 []byte
			var err2 error
			for i := 0; i < 200000 && err2 == nil; i++ {
				p := make([]byte, []int{4096, 7, 100}[i%3])
				var n int
				n, err2 = zr.Read(p)
				all2 = append(all2, p[:n]...)
			}
			rt2 := "ok"
			out2, derr := readBack(all2, 1, 0, nil)
			if err2 != io.EOF || derr != nil || !bytes.Equal(out2, d2) {
				rt2 = fmt.Sprintf("fail:after-Reset-final=%s-decode=%s-got%d-want%d", errClass(err2), errClass(derr), len(out2), len(d2))
			}
			rt += " oracle_rt2=" + rt2
		}
		return obs + " oracle_rt=" + rt
	})
}

// scribble overwrites a buffer that was handed to Read: whatever the Reader still reads from it later
// (a dictionary window aliased to the caller's memory, say) shows up as wrong content.
func scribble(p []byte) {
	for i := range p {
		p[i] = 0xA5
	}
}
