package main

import (
	"fmt"
	"strconv"
	"strings"

	"github.com/pierrec/lz4/v4/internal/xxh32"
)

func init() {
	components["xxh"] = compXXH
	replayers = append(replayers, replayXXH)
}

func xxhStream(chunks [][]byte) uint32 {
	var x xxh32.XXHZero
	for _, c := range chunks {
		x.Write(c)
	}
	return x.Sum32()
}

// xxhStreamObs: the final digest of an object that was never asked before, and the running digests of
// a second object asked TWICE after every write (Sum32 is an observation: it must not disturb the
// state, and must be the digest of everything written so far)
func xxhStreamObs(chunks [][]byte) string {
	var y xxh32.XXHZero
	run := make([]string, 0, len(chunks))
	idem := "ok"
	for i, c := range chunks {
		y.Write(c)
		a := y.Sum32()
		b := y.Sum32()
		if a != b {
			idem = fmt.Sprintf("fail:two-consecutive-Sum32-calls-differ-after-write-%d", i)
		}
		run = append(run, strconv.FormatUint(uint64(b), 10))
	}
	// Reset makes the object new whatever it holds (pending bytes included): the digest asked right after
	// Reset, with no Write in between, is XXH32 of the empty input (0x02CC5D05), and the object then
	// hashes the first chunk as a fresh one does
	reset := "ok"
	y.Reset()
	if a := y.Sum32(); a != 0x02CC5D05 {
		reset = fmt.Sprintf("fail:Sum32-right-after-Reset-is-%d-not-XXH32-of-the-empty-input", a)
	} else if len(chunks) > 0 {
		y.Write(chunks[0])
		var z xxh32.XXHZero
		z.Write(chunks[0])
		if y.Sum32() != z.Sum32() {
			reset = "fail:object-after-Reset-hashes-differently-from-a-new-one"
		}
	}
	return fmt.Sprintf("sum=%d sums=%s oracle_idem=%s oracle_reset=%s", xxhStream(chunks), strings.Join(run, ","), idem, reset)
}

func chunksField(chunks [][]byte) string {
	s := make([]string, len(chunks))
	for i, c := range chunks {
		s[i] = hx(c)
	}
	return strings.Join(s, ",")
}

func xxhInject(v [4]uint32, total uint64, buf []byte, chunks [][]byte) string {
	var x xxh32.XXHZero
	x.VerifSetState(v, total, buf)
	for _, c := range chunks {
		x.Write(c)
	}
	sum := x.Sum32()
	nv, nt, nb := x.VerifState()
	return fmt.Sprintf("sum=%d v=%d,%d,%d,%d total=%d buf=%s", sum, nv[0], nv[1], nv[2], nv[3], nt, hx(nb))
}

func replayXXH(kind string, f map[string]string) (string, bool) {
	switch kind {
	case "xxh1":
		return fmt.Sprintf("sum=%d", xxh32.ChecksumZero(unhex(f["data"]))), true
	case "xxhs":
		var chunks [][]byte
		if f["chunks"] != "" {
			for _, c := range strings.Split(f["chunks"], ",") {
				chunks = append(chunks, unhex(c))
			}
		}
		return xxhStreamObs(chunks), true
	case "xxhbig":
		n, _ := strconv.ParseUint(f["n"], 10, 64)
		return xxhBig(n), true
	case "xxhi":
		var v [4]uint32
		for i, s := range strings.Split(f["v"], ",") {
			u, _ := strconv.ParseUint(s, 10, 32)
			v[i] = uint32(u)
		}
		total, _ := strconv.ParseUint(f["total"], 10, 64)
		var chunks [][]byte
		if f["chunks"] != "" {
			for _, c := range strings.Split(f["chunks"], ",") {
				chunks = append(chunks, unhex(c))
			}
		}
		return xxhInject(v, total, unhex(f["buf"]), chunks), true
	}
	return "", false
}

// xxhBig streams n zero bytes (1 MiB writes) and compares with the one-shot checksum of the
// same bytes.  The buffer is never written, so the kernel backs it with the shared zero page.
// The one-shot function is itself tied to the reference by the xxh1 cases and C13_oneshot.
func xxhBig(n uint64) string {
	buf := make([]byte, n)
	var x xxh32.XXHZero
	for off := uint64(0); off < n; off += 1 << 20 {
		end := off + 1<<20
		if end > n {
			end = n
		}
		x.Write(buf[off:end])
	}
	s, o := x.Sum32(), xxh32.ChecksumZero(buf)
	v := "ok"
	if s != o {
		v = fmt.Sprintf("fail:streaming=%08x,oneshot=%08x", s, o)
	}
	return fmt.Sprintf("x_stream=%d x_oneshot=%d oracle_stream_eq_oneshot=%s", s, o, v)
}

func compXXH(o *out, seed uint64, tier string) {
	r := newRng(seed, "xxh")
	mult := 1
	if tier == "thorough" {
		mult = 10
	}
	content := func(n int) []byte {
		switch r.intn(5) {
		case 0:
			return make([]byte, n)
		case 1:
			b := make([]byte, n)
			for i := range b {
				b[i] = 0xff
			}
			return b
		default:
			return r.bytes(n)
		}
	}
	// one-shot: every length 0..300, then sampled up to 70 KB
	for rep := 0; rep < mult; rep++ {
		for n := 0; n <= 300; n++ {
			d := content(n)
			o.emit("xxh1", "data="+hx(d), fmt.Sprintf("sum=%d", xxh32.ChecksumZero(d)), len(d) > 0)
			o.count(fmt.Sprintf("oneshot_len_mod16=%d", n%16))
		}
	}
	for i := 0; i < 6*mult; i++ {
		n := []int{1000, 4095, 4096, 4097, 65535, 65536, 70000}[r.intn(7)] + r.intn(3)
		d := content(n)
		o.emit("xxh1", "data="+hx(d), fmt.Sprintf("sum=%d", xxh32.ChecksumZero(d)), len(d) > 0)
		o.count("oneshot_large")
	}
	// streaming: all (buffered 0..15) x (next write length class), random contents
	nexts := []int{0, 1, 2, 3, 4, 5, 7, 8, 12, 14, 15, 16, 17, 20, 31, 32, 33, 47, 48, 49, 100}
	for rep := 0; rep < mult; rep++ {
		for m := 0; m < 16; m++ {
			for pre := 0; pre < 3; pre++ { // 0, 1 or 2 full stripes already consumed
				for _, nx := range append(nexts, 16-m-1, 16-m, 16-m+1) {
					if nx < 0 {
						continue
					}
					chunks := [][]byte{content(16*pre + m), content(nx)}
					if r.intn(3) == 0 {
						chunks = append(chunks, content(r.intn(40)))
					}
					o.emit("xxhs", "chunks="+chunksField(chunks), xxhStreamObs(chunks), len(chunks) > 1)
					o.count(fmt.Sprintf("stream_buffered=%d", m))
				}
			}
		}
	}
	// streaming: random chunkings, empty writes included
	for i := 0; i < 150*mult; i++ {
		k := r.intn(8)
		var chunks [][]byte
		for j := 0; j < k; j++ {
			switch r.intn(4) {
			case 0:
				chunks = append(chunks, nil)
			case 1:
				chunks = append(chunks, content(r.intn(16)))
			default:
				chunks = append(chunks, content(r.intn(200)))
			}
		}
		o.emit("xxhs", "chunks="+chunksField(chunks), xxhStreamObs(chunks), len(chunks) > 1)
		o.count("stream_random")
	}
	// state injection near 2^32, 2^33, 2^64: total lengths no byte-level test reaches
	bases := []uint64{1 << 32, 1 << 33, 3 << 32, 1 << 63, 0}
	for rep := 0; rep < mult; rep++ {
		for _, base := range bases {
			for d := -20; d <= 20; d++ {
				total := base + uint64(int64(d))
				if total == 0 {
					continue
				}
				v := [4]uint32{uint32(r.next()), uint32(r.next()), uint32(r.next()), uint32(r.next())}
				buf := content(int(total % 16))
				var chunks [][]byte
				for j := r.intn(3); j > 0; j-- {
					chunks = append(chunks, content(r.intn(40)))
				}
				f := fmt.Sprintf("v=%d,%d,%d,%d total=%d buf=%s chunks=%s", v[0], v[1], v[2], v[3], total, hx(buf), chunksField(chunks))
				o.emit("xxhi", f, xxhInject(v, total, buf, chunks), true)
				o.count(fmt.Sprintf("inject_base=%d", base>>32))
			}
		}
	}
	// real streams of 4 GiB and more, zeros (quick: one length; thorough: 2^32-1 .. 2^32+16)
	bigs := []uint64{1<<32 + 5}
	if tier == "thorough" {
		bigs = nil
		for d := -1; d <= 16; d++ {
			bigs = append(bigs, uint64(int64(1<<32)+int64(d)))
		}
	}
	for _, n := range bigs {
		o.emit("xxhbig", fmt.Sprintf("n=%d", n), xxhBig(n), true)
		o.count("real_stream_ge_4GiB")
	}
	if tier == "thorough" {
		// a real stream of 2^32-1 .. 2^32+16 bytes: the implementation's own state after
		// 2^32-16 bytes is handed to the model, which continues from there.
		var x xxh32.XXHZero
		blk := r.bytes(1 << 20)
		for i := 0; i < 4096-1; i++ {
			x.Write(blk)
		}
		x.Write(blk[:1<<20-16])
		v, total, buf := x.VerifState()
		for extra := 15; extra <= 32; extra++ {
			chunk := r.bytes(extra)
			y := x
			y.Write(chunk)
			f := fmt.Sprintf("v=%d,%d,%d,%d total=%d buf=%s chunks=%s", v[0], v[1], v[2], v[3], total, hx(buf), hx(chunk))
			nv, nt, nb := y.VerifState()
			o.emit("xxhi", f, fmt.Sprintf("sum=%d v=%d,%d,%d,%d total=%d buf=%s", y.Sum32(), nv[0], nv[1], nv[2], nv[3], nt, hx(nb)), true)
			o.count("real_4GiB_stream")
		}
	}
}
