module github.com/pierrec/lz4/v4/verifharness

go 1.21

require github.com/pierrec/lz4/v4 v4.0.0

replace github.com/pierrec/lz4/v4 => /repo
