package main

import (
	"bytes"
	"encoding/binary"
	"fmt"
	"strconv"
	"strings"

	lz4 "github.com/pierrec/lz4/v4"
	"github.com/pierrec/lz4/v4/internal/xxh32"
)

func init() {
	components["hdr"] = compHdr
	replayers = append(replayers, replayHdr)
}

// one case = one 16-bit descriptor, an 8-byte size field (used iff the size bit is set) and a
// list of checksum bytes; for every checksum byte: ValidFrameHeader's verdict, and the error of
// Reader.Read plus the value of Size
func runHdr(d int, sz []byte, cks []int) string {
	var v, rd, szs []string
	sizeFirst := "ok"
	for _, c := range cks {
		in := binary.LittleEndian.AppendUint32(nil, 0x184D2204)
		in = append(in, byte(d), byte(d>>8))
		if d&8 != 0 {
			in = append(in, sz...)
		}
		in = append(in, byte(c))
		ok, err := lz4.ValidFrameHeader(in)
		v = append(v, fmt.Sprintf("%d%s", b2i(ok), errClass(err)))
		zr := lz4.NewReader(bytes.NewReader(in))
		_, e := zr.Read(nil)
		rd = append(rd, errClass(e))
		szs = append(szs, strconv.Itoa(zr.Size()))
		// the same header through a Reader whose Size is asked BEFORE the first Read: asking must not
		// change what is accepted nor what is reported afterwards
		func() {
			defer func() {
				if p := recover(); p != nil {
					sizeFirst = fmt.Sprintf("fail:panic-after-Size-before-Read(checksum-byte-%d)", c)
				}
			}()
			zr2 := lz4.NewReader(bytes.NewReader(in))
			s0 := zr2.Size()
			_, e2 := zr2.Read(nil)
			if errClass(e2) != errClass(e) || zr2.Size() != zr.Size() || (e != nil && s0 != 0) {
				sizeFirst = fmt.Sprintf("fail:Size-before-Read-changes-the-verdict(checksum-byte-%d:%s-vs-%s,size-%d-vs-%d,early-size-%d)", c, errClass(e2), errClass(e), zr2.Size(), zr.Size(), s0)
			}
		}()
	}
	// acc: accepted or not, per checksum byte (compared with the frame specification's own verdict)
	acc := make([]string, len(v))
	for i := range v {
		acc[i] = v[i][:1]
	}
	return fmt.Sprintf("acc=%s vfh=%s rd=%s size=%s oracle_size_first=%s", strings.Join(acc, ","), strings.Join(v, ","), strings.Join(rd, ","), strings.Join(szs, ","), sizeFirst)
}

func hdrCks(d int, sz []byte, all bool, r *rng) []int {
	desc := []byte{byte(d), byte(d >> 8)}
	if d&8 != 0 {
		desc = append(desc, sz...)
	}
	good := int(byte(xxh32.ChecksumZero(desc) >> 8))
	if all {
		c := make([]int, 256)
		for i := range c {
			c[i] = i
		}
		return c
	}
	return []int{good, good ^ 1, (good + 1 + r.intn(254)) % 256, r.intn(256)}
}

func replayHdr(kind string, f map[string]string) (string, bool) {
	if kind != "hdr" {
		return "", false
	}
	var cks []int
	for _, s := range strings.Split(f["cks"], ",") {
		cks = append(cks, atoi(s))
	}
	return runHdr(atoi(f["d"]), unhex(f["sz"]), cks), true
}

func compHdr(o *out, seed uint64, tier string) {
	r := newRng(seed, "hdr")
	// a non-magic first word: ValidFrameHeader must say (false, nil)
	for _, m := range []uint32{0, 1, 0x184D2203, 0x184D2205, 0xFFFFFFFF, 0x184C2101} {
		in := binary.LittleEndian.AppendUint32(nil, m)
		in = append(in, 0x64, 0x40, 0xa7)
		ok, err := lz4.ValidFrameHeader(in)
		o.emit("hdrm", fmt.Sprintf("in=%s", hx(in)), fmt.Sprintf("vfh=%d%s", b2i(ok), errClass(err)), true)
		o.count("non-magic")
	}
	// every prefix of a valid header (with and without a size field), of a non-magic word followed by
	// junk, of the legacy magic, of a skippable frame followed by a header: a non-magic first word is
	// (false, nil) however short the input is; an input that ends inside a header is an error
	for _, full := range [][]byte{
		{0x04, 0x22, 0x4d, 0x18, 0x64, 0x40, 0xa7, 0, 0, 0, 0},
		append([]byte{0x04, 0x22, 0x4d, 0x18, 0x6c, 0x40, 5, 0, 0, 0, 0, 0, 0, 0}, byte(xxh32.ChecksumZero([]byte{0x6c, 0x40, 5, 0, 0, 0, 0, 0, 0, 0})>>8)),
		{0x05, 0x22, 0x4d, 0x18, 0x64, 0x40, 0xa7, 1, 2, 3},
		{0x02, 0x21, 0x4c, 0x18, 9, 0, 0, 0, 1, 2},
		{0x50, 0x2a, 0x4d, 0x18, 2, 0, 0, 0, 7, 7, 0x04, 0x22, 0x4d, 0x18, 0x64, 0x40, 0xa7},
	} {
		for k := 0; k <= len(full); k++ {
			in := full[:k]
			ok, err := lz4.ValidFrameHeader(in)
			o.emit("hdrm", fmt.Sprintf("in=%s", hx(in)), fmt.Sprintf("vfh=%d%s", b2i(ok), errClass(err)), true)
			o.count("every-prefix-of-a-header")
		}
	}
	// every first word around the reserved skippable range, followed by a 3-byte payload and a valid
	// header: exactly the sixteen magics 0x184D2A50..5F are skipped, every other word is not a frame
	for m := uint32(0x184D2A40); m <= 0x184D2A6F; m++ {
		in := binary.LittleEndian.AppendUint32(nil, m)
		in = binary.LittleEndian.AppendUint32(in, 3)
		in = append(in, 9, 9, 9, 0x04, 0x22, 0x4d, 0x18, 0x64, 0x40, 0xa7)
		ok, err := lz4.ValidFrameHeader(in)
		o.emit("hdrm", fmt.Sprintf("in=%s", hx(in)), fmt.Sprintf("vfh=%d%s", b2i(ok), errClass(err)), true)
		o.count("skippable-range")
	}
	for d := 0; d < 65536; d++ {
		sz := make([]byte, 8)
		switch r.intn(4) {
		case 0:
			sz = r.bytes(8)
		case 1:
			for i := range sz {
				sz[i] = 0xff
			}
		case 2:
			sz[7] = 0x80
		default:
			sz[0] = byte(r.next())
		}
		cks := hdrCks(d, sz, tier == "thorough", r)
		cs := make([]string, len(cks))
		for i, c := range cks {
			cs[i] = strconv.Itoa(c)
		}
		o.emit("hdr", fmt.Sprintf("d=%d sz=%s cks=%s", d, hx(sz), strings.Join(cs, ",")), runHdr(d, sz, cks), true)
		if d&8 != 0 {
			o.count("with-size-field")
		} else {
			o.count("without-size-field")
		}
	}
}
