// implrun: runs seeded case streams through the implementation built from the
// current /repo working tree and writes (a) the case file for the model runner
// and (b) the implementation's canonical observations.
package main

import (
	"bufio"
	"encoding/hex"
	"encoding/json"
	"flag"
	"fmt"
	"os"
	"path/filepath"
	"sort"
	"strings"
	"time"
)

// ---- deterministic PRNG (splitmix64); every random choice derives from the seed ----
type rng struct{ s uint64 }

func newRng(seed uint64, stream string) *rng {
	r := &rng{s: seed*0x9e3779b97f4a7c15 + 0x1234567}
	for _, c := range []byte(stream) {
		r.s = r.s*31 + uint64(c)
		r.next()
	}
	return r
}
func (r *rng) next() uint64 {
	r.s += 0x9e3779b97f4a7c15
	z := r.s
	z = (z ^ (z >> 30)) * 0xbf58476d1ce4e5b9
	z = (z ^ (z >> 27)) * 0x94d049bb133111eb
	return z ^ (z >> 31)
}
func (r *rng) intn(n int) int {
	if n <= 0 {
		return 0
	}
	return int(r.next() % uint64(n))
}
func (r *rng) pick(xs []int) int { return xs[r.intn(len(xs))] }
func (r *rng) bytes(n int) []byte {
	b := make([]byte, n)
	for i := range b {
		b[i] = byte(r.next())
	}
	return b
}

// ---- output ----
type out struct {
	cases, impl, meta *bufio.Writer
	n                 int
	stats             map[string]int
	samples           []string
	prefix            string
}

func hx(b []byte) string {
	if len(b) == 0 {
		return "-"
	}
	return hex.EncodeToString(b)
}

// emit records one case: kind, the model-side fields, the implementation's observation.
// nontrivial: whether the case counts as non-trivial by the component's stated rule.
func (o *out) emit(kind string, fields string, obs string, nontrivial bool) string {
	o.n++
	id := fmt.Sprintf("%s%06d", o.prefix, o.n)
	fmt.Fprintf(o.cases, "%s %s %s\n", id, kind, fields)
	fmt.Fprintf(o.impl, "%s %s\n", id, obs)
	nt := 0
	if nontrivial {
		nt = 1
	}
	fmt.Fprintf(o.meta, "%s %d\n", id, nt)
	if len(o.samples) < 6 && len(fields) < 400 {
		o.samples = append(o.samples, kind+" "+fields+" => "+obs)
	}
	return id
}
func (o *out) count(k string) { o.stats[k]++ }

type component func(o *out, seed uint64, tier string)

var components = map[string]component{}

func main() {
	comp := flag.String("comp", "", "component")
	seed := flag.Uint64("seed", 1, "seed")
	tier := flag.String("tier", "quick", "quick|thorough")
	dir := flag.String("out", "", "output directory")
	replay := flag.String("replay", "", "replay file (a cases file): run only these cases")
	isWorker := flag.Bool("worker", false, "internal: run cases from stdin")
	flag.Parse()
	if *isWorker {
		workerMain()
		return
	}
	if *replay != "" {
		doReplay(*replay)
		return
	}
	f, ok := components[*comp]
	if !ok {
		names := []string{}
		for k := range components {
			names = append(names, k)
		}
		sort.Strings(names)
		fmt.Fprintf(os.Stderr, "unknown component %q; have %s\n", *comp, strings.Join(names, " "))
		os.Exit(2)
	}
	must(os.MkdirAll(*dir, 0o755))
	cf, err := os.Create(filepath.Join(*dir, "cases.txt"))
	must(err)
	imf, err := os.Create(filepath.Join(*dir, "impl.txt"))
	must(err)
	mf, err := os.Create(filepath.Join(*dir, "meta.txt"))
	must(err)
	o := &out{cases: bufio.NewWriterSize(cf, 1<<20), impl: bufio.NewWriterSize(imf, 1<<20), meta: bufio.NewWriterSize(mf, 1<<16), stats: map[string]int{}, prefix: *comp + "-"}
	f(o, *seed, *tier)
	stopWorker()
	must(o.cases.Flush())
	must(o.impl.Flush())
	must(o.meta.Flush())
	mf.Close()
	cf.Close()
	imf.Close()
	st := map[string]interface{}{"cases": o.n, "classes": o.stats, "samples": o.samples}
	b, _ := json.MarshalIndent(st, "", " ")
	must(os.WriteFile(filepath.Join(*dir, "stats.json"), b, 0o644))
}

func must(err error) {
	if err != nil {
		fmt.Fprintln(os.Stderr, "implrun:", err)
		os.Exit(2)
	}
}

// ---- replay: re-run the cases of a file through the implementation ----
type replayer func(kind string, f map[string]string) (string, bool)

var replayers []replayer

func doReplay(path string) {
	fh, err := os.Open(path)
	must(err)
	defer fh.Close()
	sc := bufio.NewScanner(fh)
	sc.Buffer(make([]byte, 1<<20), 1<<30)
	defer stopWorker()
	for sc.Scan() {
		line := strings.TrimSpace(sc.Text())
		if line == "" || line[0] == '#' {
			continue
		}
		parts := strings.Split(line, " ")
		if len(parts) < 2 {
			continue
		}

		obs := iso(parts[1], strings.Join(parts[2:], " "), 60*time.Second)
		fmt.Printf("%s %s\n", parts[0], obs)
	}
}

func unhex(s string) []byte {
	if s == "-" || s == "" {
		return nil
	}
	b, err := hex.DecodeString(s)
	must(err)
	return b
}
