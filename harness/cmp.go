package main

import (
	"bytes"
	"fmt"
	"os"
	"strconv"
	"sync"

	lz4 "github.com/pierrec/lz4/v4"
)

func init() {
	components["cmp"] = compCmp
	replayers = append(replayers, replayCmp)
}

type cmpCase struct {
	src    []byte
	algo   string // fast | hc
	depth  int
	dstlen int
	ep     int // 0 package function, 1 fresh object, 2 object reused after `hist` other inputs, 3 pooled from goroutines
	hist   int
	stale  int
}

var (
	fastObj lz4.Compressor
	hcObj   lz4.CompressorHC
)

func (c *cmpCase) run() (obs string, block []byte) {
	const pad = 64
	arena := make([]byte, pad+c.dstlen+pad)
	for i := range arena {
		arena[i] = 0x5A
	}
	dst := arena[pad : pad+c.dstlen] // cap(dst) > len(dst): a sub-slice of a larger buffer
	src := append([]byte(nil), c.src...)
	var n int
	var err error
	concurrentDiffers := ""
	func() {
		defer func() {
			if r := recover(); r != nil {
				obs = "res=panic oracle_mem=fail:panic:" + sanitizeMsg(fmt.Sprint(r))
			}
		}()
		hr := newRng(uint64(c.hist)*7919+uint64(c.stale), "hist")
		history := func(f func(s, d []byte)) {
			for i := 0; i < c.hist; i++ {
				s := hr.bytes(hr.intn(70000))
				if hr.intn(4) == 0 {
					// a source too short to be searched (the compressors leave early on these)
					s = hr.bytes([]int{0, 1, 5, 12, 13, 14, 15, 16}[hr.intn(8)])
				}
				if len(src) > 200 && hr.intn(2) == 0 {
					// a history RELATED to the input: the same bytes shifted, so that the object's table
					// is full of entries whose hashes are those of the input's sequences at other
					// positions (stale entries that verify as matches if they are ever consulted)
					k := 1 + hr.intn(len(src)-1)
					if hr.intn(2) == 0 {
						k = 1 + hr.intn(100)
					}
					s = append(append([]byte(nil), src[k:]...), src[:k]...)
				} else if hr.intn(2) == 0 {
					for j := range s {
						s[j] = byte('a' + j%(1+hr.intn(9)))
					}
				}
				if hr.intn(2) == 0 {
					// an undersized destination: the call fails or reports incompressible data,
					// and leaves whatever state it leaves in the object
					f(s, make([]byte, hr.intn(len(s)/2+1)))
				} else {
					f(s, make([]byte, lz4.CompressBlockBound(len(s))))
				}
			}
		}
		switch {
		case c.algo == "fast" && c.ep == 0:
			history(func(s, d []byte) { lz4.CompressBlock(s, d, nil) })
			n, err = lz4.CompressBlock(src, dst, nil)
		case c.algo == "fast" && c.ep == 1:
			var o lz4.Compressor
			n, err = o.CompressBlock(src, dst)
		case c.algo == "fast" && c.ep == 4:
			h := staleHistory(c.stale)
			fastObj.CompressBlock(h, make([]byte, lz4.CompressBlockBound(len(h))))
			n, err = fastObj.CompressBlock(src, dst)
		case c.algo == "fast" && c.ep == 2:
			history(func(s, d []byte) { fastObj.CompressBlock(s, d) })
			n, err = fastObj.CompressBlock(src, dst)
		case c.algo == "fast":
			var wg sync.WaitGroup
			for g := 0; g < 4; g++ {
				wg.Add(1)
				go func(g int) {
					defer wg.Done()
					r := newRng(uint64(g)+uint64(c.stale), "pool")
					s := r.bytes(1000 + r.intn(3000))
					lz4.CompressBlock(s, make([]byte, lz4.CompressBlockBound(len(s))), nil)
				}(g)
			}
			wg.Wait()
			concurrentDiffers = concurrentCalls(c, func(s, d []byte) (int, error) { return lz4.CompressBlock(s, d, nil) })
			n, err = lz4.CompressBlock(src, dst, nil)
		case c.ep == 0:
			history(func(s, d []byte) { lz4.CompressBlockHC(s, d, lz4.CompressionLevel(c.depth), nil, nil) })
			n, err = lz4.CompressBlockHC(src, dst, lz4.CompressionLevel(c.depth), nil, nil)
		case c.ep == 1:
			o := lz4.CompressorHC{Level: lz4.CompressionLevel(c.depth)}
			n, err = o.CompressBlock(src, dst)
		case c.ep == 2:
			hcObj.Level = lz4.CompressionLevel(c.depth)
			history(func(s, d []byte) { hcObj.CompressBlock(s, d) })
			n, err = hcObj.CompressBlock(src, dst)
		default:
			var wg sync.WaitGroup
			for g := 0; g < 4; g++ {
				wg.Add(1)
				go func(g int) {
					defer wg.Done()
					r := newRng(uint64(g)+uint64(c.stale), "pool")
					s := r.bytes(1000 + r.intn(3000))
					lz4.CompressBlockHC(s, make([]byte, lz4.CompressBlockBound(len(s))), lz4.CompressionLevel(1+g), nil, nil)
				}(g)
			}
			wg.Wait()
			concurrentDiffers = concurrentCalls(c, func(s, d []byte) (int, error) {
				return lz4.CompressBlockHC(s, d, lz4.CompressionLevel(c.depth), nil, nil)
			})
			n, err = lz4.CompressBlockHC(src, dst, lz4.CompressionLevel(c.depth), nil, nil)
		}
	}()
	if obs != "" {
		return obs, nil
	}
	mem := "ok"
	for i := 0; i < pad; i++ {
		if arena[i] != 0x5A || arena[pad+c.dstlen+i] != 0x5A {
			mem = fmt.Sprintf("fail:write-beyond-len(dst)-at-%d", i)
			break
		}
	}
	if !bytes.Equal(src, c.src) {
		mem = "fail:src-modified"
	}
	if n > c.dstlen || n < 0 {
		mem = fmt.Sprintf("fail:n=%d>len(dst)=%d", n, c.dstlen)
		return fmt.Sprintf("res=ok n=%d oracle_mem=%s", n, mem), nil
	}
	bound := lz4.CompressBlockBound(len(c.src))
	ob := "ok"
	switch {
	case err != nil:
		if n != 0 {
			ob = "fail:error-with-nonzero-count"
		}
		if c.dstlen >= bound {
			ob = "fail:error-with-dst>=bound"
		}
		return fmt.Sprintf("res=err oracle_mem=%s oracle_bound=%s", mem, ob), nil
	case n == 0:
		if c.dstlen >= bound {
			ob = "fail:zero-with-dst>=bound"
		}
		return fmt.Sprintf("res=zero oracle_mem=%s oracle_bound=%s", mem, ob), nil
	}
	block = append([]byte(nil), dst[:n]...)
	// determinism (C14): a fresh object, same source, same destination size, gives the same bytes
	det := "ok"
	if concurrentDiffers != "" {
		det = concurrentDiffers
	}
	if c.ep != 1 {
		d2 := make([]byte, c.dstlen)
		var n2 int
		var e2 error
		func() {
			defer func() { recover() }()
			if c.algo == "fast" {
				var o lz4.Compressor
				n2, e2 = o.CompressBlock(c.src, d2)
			} else {
				o := lz4.CompressorHC{Level: lz4.CompressionLevel(c.depth)}
				n2, e2 = o.CompressBlock(c.src, d2)
			}
		}()
		if e2 != nil || n2 != n || !bytes.Equal(d2[:n2], block) {
			det = fmt.Sprintf("fail:output-depends-on-the-object's-history(fresh-object-gives-%d-bytes,this-call-%d)", n2, n)
		}
	}
	// round trip through the build's own decoder, destination of exactly the original length
	rt := "ok"
	out := make([]byte, len(c.src))
	m, derr := lz4.UncompressBlock(block, out)
	if derr != nil || m != len(c.src) || !bytes.Equal(out[:m], c.src) {
		rt = fmt.Sprintf("fail:decoded-n=%d-err=%v", m, derr != nil)
	}
	return fmt.Sprintf("res=ok n=%d block=%s oracle_mem=%s oracle_bound=%s oracle_rt=%s oracle_det=%s", n, hx(block), mem, ob, rt, det), block
}

func (c *cmpCase) fields(block []byte) string {
	return fmt.Sprintf("src=%s algo=%s depth=%d dstlen=%d ep=%d hist=%d stale=%d iblock=%s", hx(c.src), c.algo, c.depth, c.dstlen, c.ep, c.hist, c.stale, hx(block))
}

func replayCmp(kind string, f map[string]string) (string, bool) {
	if kind != "cmp" {
		return "", false
	}
	c := &cmpCase{src: unhex(f["src"]), algo: f["algo"]}
	c.depth, _ = strconv.Atoi(f["depth"])
	c.dstlen, _ = strconv.Atoi(f["dstlen"])
	c.ep, _ = strconv.Atoi(f["ep"])
	c.hist, _ = strconv.Atoi(f["hist"])
	c.stale, _ = strconv.Atoi(f["stale"])
	obs, _ := c.run()
	return obs, true
}

// staleToken / staleHistory / staleSource: a source beyond 64 KiB in which an 8-byte token occurs
// twice, first inside a long incompressible region (where the fast compressor's stride is large, so
// the position is not entered in the table) and again right after a short run of equal bytes (where
// the stride is 1, so the position is looked up); and a history that leaves exactly the first
// position's low 16 bits in the token's slot.  A compressor that consults a slot which the current
// call has not written finds a match there that a fresh compressor cannot find.
// concurrentCalls runs the same pooled call from four goroutines at once, each on its own copy of
// the source and its own destination, next to four goroutines compressing other data: the package
// functions are documented as safe for concurrent use, so every call must return what a call alone
// returns (the results are compared with each other here and with a fresh object by the caller)
func concurrentCalls(c *cmpCase, f func(s, d []byte) (int, error)) string {
	type res struct {
		n   int
		err bool
		b   []byte
	}
	out := make([]res, 4)
	var wg sync.WaitGroup
	for g := 0; g < 8; g++ {
		wg.Add(1)
		go func(g int) {
			defer wg.Done()
			defer func() { recover() }()
			if g >= 4 {
				r := newRng(uint64(g)+uint64(c.stale), "noise")
				s := r.bytes(2000 + r.intn(60000))
				for j := range s {
					s[j] = byte('a' + j%(1+g))
				}
				f(s, make([]byte, lz4.CompressBlockBound(len(s))))
				return
			}
			s := append([]byte(nil), c.src...)
			d := make([]byte, c.dstlen)
			n, err := f(s, d)
			if n < 0 || n > len(d) {
				n = 0
			}
			out[g] = res{n, err != nil, append([]byte(nil), d[:n]...)}
		}(g)
	}
	wg.Wait()
	for g := 1; g < 4; g++ {
		if out[g].n != out[0].n || out[g].err != out[0].err || !bytes.Equal(out[g].b, out[0].b) {
			return fmt.Sprintf("fail:concurrent-calls-of-the-package-function-on-the-same-input-disagree(%d-vs-%d-bytes,err=%v-vs-%v)", out[0].n, out[g].n, out[0].err, out[g].err)
		}
	}
	return ""
}

func staleToken(seed int) []byte {
	t := genData(0, seed+7777, 8)
	return t
}

func staleQ0(seed int) int { return 400 + (seed*131)%60000 }

func staleHistory(seed int) []byte {
	q0 := staleQ0(seed)
	h := genData(0, seed+1, q0-200)
	h = append(h, make([]byte, 200)...)
	h = append(h, staleToken(seed)...)
	return append(h, genData(0, seed+2, 1000)...)
}

func staleSource(seed int) []byte {
	q0 := staleQ0(seed)
	s := genData(0, seed+3, 65536+q0)
	s = append(s, staleToken(seed)...)
	s = append(s, genData(0, seed+4, 3000)...)
	s = append(s, make([]byte, 200)...)
	s = append(s, staleToken(seed)...)
	return append(s, genData(0, seed+5, 1000)...)
}

var textData []byte

func loadText() []byte {
	if textData == nil {
		for _, p := range []string{"/repo/testdata/e.txt", "/repo/testdata/gettysburg.txt", "/repo/README.md"} {
			if b, err := os.ReadFile(p); err == nil && len(b) > 1000 {
				textData = b
				break
			}
		}
		if textData == nil {
			textData = bytes.Repeat([]byte("the quick brown fox jumps over the lazy dog, "), 400)
		}
	}
	return textData
}

// genSource: mixture of uniform, small alphabet, runs, periodic, copy-from-distance, text
func genSource(r *rng, n int) []byte {
	b := make([]byte, n)
	switch r.intn(8) {
	case 0:
		copy(b, r.bytes(n))
	case 1:
		a := 2 + r.intn(4)
		for i := range b {
			b[i] = byte('a' + r.intn(a))
		}
	case 2: // runs
		for i := 0; i < n; {
			l := 1 + r.intn(600)
			v := byte(r.next())
			for j := 0; j < l && i < n; j++ {
				b[i] = v
				i++
			}
		}
	case 3: // periodic
		p := 1 + r.intn(40)
		if r.intn(3) == 0 {
			p = []int{1, 2, 3, 4, 5, 7, 8, 12, 13, 16, 255, 256, 257}[r.intn(13)]
		}
		pat := r.bytes(p)
		for i := range b {
			b[i] = pat[i%p]
		}
	case 4, 5: // random with copies from a chosen distance
		ds := []int{1, 2, 3, 4, 5, 8, 15, 16, 254, 255, 256, 4096, 65534, 65535, 65536, 65537, 70000}
		i := 0
		for i < n {
			if i > 0 && r.intn(3) != 0 {
				d := ds[r.intn(len(ds))]
				if d > i {
					d = 1 + r.intn(i)
				}
				l := 4 + r.intn(40)
				if r.intn(6) == 0 {
					l = 270 + r.intn(600)
				}
				for j := 0; j < l && i < n; j++ {
					b[i] = b[i-d]
					i++
				}
			} else {
				l := 1 + r.intn(30)
				for j := 0; j < l && i < n; j++ {
					b[i] = byte(r.next())
					i++
				}
			}
		}
	case 6: // a match-rich prefix followed by 15..300 bytes without repeats: long final literal run
		tail := 15 + r.intn(60)
		if r.intn(4) == 0 {
			tail = 255 + r.intn(60)
		}
		if tail > n {
			tail = n
		}
		p := 1 + r.intn(6)
		for i := 0; i < n-tail; i++ {
			b[i] = byte('a' + i%p)
		}
		for i := n - tail; i < n; i++ {
			b[i] = byte(37*i + 11*(i/7) + 5)
		}
	default:
		t := loadText()
		off := r.intn(len(t))
		for i := range b {
			b[i] = t[(off+i)%len(t)]
		}
	}
	return b
}

var hcDepths = []int{0, 1, 2, 3, 17, 512, 1024, 2048, 4096, 8192, 16384, 32768, 65536, 131072, 70000}

func compCmp(o *out, seed uint64, tier string) {
	r := newRng(seed, "cmp")
	defer compCmpBig(o, newRng(seed, "cmpbig"), tier)
	mult := 1
	if tier == "thorough" {
		mult = 12
	}
	emit := func(c *cmpCase, class string) {
		obs, block := c.run()
		o.emit("cmp", c.fields(block), obs, len(c.src) > 14)
		o.count(class)
		o.count("algo=" + c.algo)
		o.count("outcome=" + obs[4:min(len(obs), 8)])
	}
	pickAlgo := func() (string, int) {
		if r.intn(2) == 0 {
			return "fast", 0
		}
		return "hc", hcDepths[r.intn(len(hcDepths))]
	}
	// 1. lengths 0..40 dense, destination = bound and every smaller/larger size for a subset
	for rep := 0; rep < mult; rep++ {
		for n := 0; n <= 40; n++ {
			src := genSource(r, n)
			for _, algo := range []string{"fast", "hc"} {
				d := 0
				if algo == "hc" {
					d = hcDepths[r.intn(len(hcDepths))]
				}
				bound := lz4.CompressBlockBound(n)
				for ep := 0; ep < 4; ep++ { // every entry point on every small length: each has its own short-input path
					emit(&cmpCase{src: src, algo: algo, depth: d, dstlen: bound, ep: ep, hist: r.intn(3), stale: r.intn(1000)}, "small-at-bound")
				}
				emit(&cmpCase{src: src, algo: algo, depth: d, dstlen: r.intn(bound + 3), ep: r.intn(2), stale: r.intn(1000)}, "small-dst-sweep")
			}
		}
	}
	// 2. every destination length 0..bound+3 for a few compressible sources
	for rep := 0; rep < 6*mult; rep++ {
		n := 20 + r.intn(120)
		src := genSource(r, n)
		if rep%2 == 1 {
			// long final literal run after at least one match
			n = 60 + r.intn(80)
			src = make([]byte, n)
			tail := 15 + r.intn(30)
			for i := range src {
				if i < n-tail {
					src[i] = byte('a' + i%(1+rep%5))
				} else {
					src[i] = byte(37*i + 11*(i/7) + 5)
				}
			}
		}
		for _, algo := range []string{"fast", "hc"} {
			d := 0
			if algo == "hc" {
				d = hcDepths[r.intn(len(hcDepths))]
			}
			for dl := 0; dl <= lz4.CompressBlockBound(n)+3; dl++ {
				emit(&cmpCase{src: src, algo: algo, depth: d, dstlen: dl, ep: 1, stale: r.intn(1000)}, "all-dst-lengths")
			}
		}
	}
	// 2b. the final literal run swept over the length-encoding boundaries (15, 15+255k and their
	//     neighbours) after a match-rich prefix, and the same for a literal run in the MIDDLE of the
	//     block (followed by a second match-rich part), both compressors, destination at the bound
	for _, t := range []int{12, 13, 14, 15, 16, 17, 268, 269, 270, 271, 272, 523, 524, 525, 526, 527, 779, 780, 781, 1035, 1290} {
		for _, mid := range []bool{false, true} {
			n := 80 + t
			if mid {
				n += 80
			}
			src := make([]byte, n)
			x := uint32(t)*2654435761 + 99
			for i := range src {
				if i < 80 || i >= 80+t {
					src[i] = byte('a' + i%3)
				} else {
					x = x*1664525 + 1013904223
					src[i] = byte(x >> 24)
				}
			}
			for _, algo := range []string{"fast", "hc"} {
				for _, d := range []int{0, 512} {
					if algo == "fast" && d != 0 {
						continue
					}
					emit(&cmpCase{src: src, algo: algo, depth: d, dstlen: lz4.CompressBlockBound(n), ep: 1, stale: r.intn(1000)}, "literal-run-length-boundaries")
				}
			}
		}
	}
	// 3. medium sources, at bound and below
	for i := 0; i < 260*mult; i++ {
		n := 41 + r.intn(3000)
		if r.intn(5) == 0 {
			n = []int{269, 270, 271, 272, 300, 524, 525, 526, 1000, 4095, 4096, 4097}[r.intn(12)]
		}
		src := genSource(r, n)
		algo, d := pickAlgo()
		dl := lz4.CompressBlockBound(n)
		switch r.intn(4) {
		case 0:
			dl = r.intn(dl + 1)
		case 1:
			dl = n
		}
		emit(&cmpCase{src: src, algo: algo, depth: d, dstlen: dl, ep: r.intn(4), hist: r.intn(3), stale: r.intn(1000)}, "medium")
	}
	// 3b. end of block: a repeat placed so that the best match would start in the last 5..16 bytes
	//     (C10: the last match starts at least twelve bytes before the end, the last five bytes are
	//     literals), for every such position and several lengths, both algorithms
	for rep := 0; rep < mult; rep++ {
		for n := 20; n <= 76; n += 7 {
			for k := 4; k <= 17; k++ {
				src := r.bytes(n)
				l := 4 + r.intn(8)
				if n-k < 10 {
					continue
				}
				for j := 0; j < l && n-k+j < n; j++ {
					src[n-k+j] = src[2+j] // the bytes at 2.. recur at n-k..
				}
				if r.intn(2) == 0 {
					for j := n - k; j < n; j++ {
						src[j] = src[n-k-1] // a run reaching the very end
					}
				}
				for _, algo := range []string{"fast", "hc"} {
					d := 0
					if algo == "hc" {
						d = hcDepths[r.intn(len(hcDepths))]
					}
					emit(&cmpCase{src: src, algo: algo, depth: d, dstlen: lz4.CompressBlockBound(n), ep: 1, stale: r.intn(1000)}, "repeat-near-the-end")
				}
			}
		}
	}
	// 4. large sources: beyond 64 KiB the fast compressor keeps only 16-bit table positions
	nl := 6
	if tier == "thorough" {
		nl = 60
	}
	for i := 0; i < nl; i++ {
		n := 66000 + r.intn(140000)
		src := genSource(r, n)
		algo, d := pickAlgo()
		if algo == "hc" && d == 0 {
			d = 512 // unbounded depth on megabyte-scale periodic data is very slow in the extracted model
		}
		emit(&cmpCase{src: src, algo: algo, depth: d, dstlen: lz4.CompressBlockBound(n), ep: r.intn(4), hist: r.intn(2), stale: r.intn(1000)}, "large>64K")
		if i < 3 || tier == "thorough" {
			sd := r.intn(1000)
			ss := staleSource(sd)
			emit(&cmpCase{src: ss, algo: "fast", depth: 0, dstlen: lz4.CompressBlockBound(len(ss)), ep: 4, hist: 0, stale: sd}, "large>64K-stale-slot")
		}
		if algo == "fast" {
			// the same source on an object (or the pool) that has a history
			emit(&cmpCase{src: src, algo: algo, depth: d, dstlen: lz4.CompressBlockBound(n), ep: 2 + r.intn(2), hist: 1 + r.intn(3), stale: r.intn(1000)}, "large>64K-after-history")
		}
	}
}
