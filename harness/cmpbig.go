package main

import (
	"bytes"
	"fmt"
	"strconv"

	lz4 "github.com/pierrec/lz4/v4"
)

func init() {
	replayers = append(replayers, replayCmpBig)
}

// cmpbig cases: megabyte-scale sources (too large for the extracted compressor models to follow at
// a useful rate), judged by the implementation-side oracles of C01/C10/C11 only: with a destination
// of exactly the library's own CompressBlockBound the call succeeds with 0 < n <= len(dst), the
// block decodes (this build's decoder, destination of exactly the original length) to the source.
// Shapes: incompressible bytes (the bound must hold where n/255 matters), and an incompressible
// run of more than 1 MiB followed by a long compressible tail (one literal run beyond 1 MiB
// followed by matches: the decoders' bulk-copy paths).
type cmpBigCase struct {
	noise int // incompressible bytes
	tail  int // compressible bytes after them
	seed  int
	algo  string
	depth int
	ep    int // 0 package function, 1 object method
}

func (c *cmpBigCase) fields() string {
	return fmt.Sprintf("noise=%d tail=%d seed=%d algo=%s depth=%d ep=%d", c.noise, c.tail, c.seed, c.algo, c.depth, c.ep)
}

func replayCmpBig(kind string, f map[string]string) (string, bool) {
	if kind != "cmpbig" {
		return "", false
	}
	c := &cmpBigCase{algo: f["algo"]}
	c.noise, _ = strconv.Atoi(f["noise"])
	c.tail, _ = strconv.Atoi(f["tail"])
	c.seed, _ = strconv.Atoi(f["seed"])
	c.depth, _ = strconv.Atoi(f["depth"])
	c.ep, _ = strconv.Atoi(f["ep"])
	return c.run(), true
}

func (c *cmpBigCase) run() (obs string) {
	src := append(genData(0, c.seed, c.noise), genData(1, c.seed, c.tail)...)
	keep := append([]byte(nil), src...)
	bound := lz4.CompressBlockBound(len(src))
	const pad = 64
	arena := bytes.Repeat([]byte{0x5A}, bound+2*pad)
	dst := arena[pad : pad+bound : pad+bound]
	var n int
	var err error
	func() {
		defer func() {
			if r := recover(); r != nil {
				obs = "x_res=panic oracle_mem=fail:panic:" + sanitizeMsg(fmt.Sprint(r))
			}
		}()
		switch {
		case c.algo == "fast" && c.ep == 0:
			n, err = lz4.CompressBlock(src, dst, nil)
		case c.algo == "fast":
			var o lz4.Compressor
			n, err = o.CompressBlock(src, dst)
		case c.ep == 0:
			n, err = lz4.CompressBlockHC(src, dst, lz4.CompressionLevel(c.depth), nil, nil)
		default:
			o := lz4.CompressorHC{Level: lz4.CompressionLevel(c.depth)}
			n, err = o.CompressBlock(src, dst)
		}
	}()
	if obs != "" {
		return obs
	}
	mem := "ok"
	for i := 0; i < pad; i++ {
		if arena[i] != 0x5A || arena[pad+bound+i] != 0x5A {
			mem = "fail:write-beyond-len(dst)"
			break
		}
	}
	if !bytes.Equal(src, keep) {
		mem = "fail:src-modified"
	}
	if err != nil || n <= 0 || n > bound {
		return fmt.Sprintf("x_res=err x_n=%d x_bound=%d oracle_mem=%s oracle_bound=fail:no-success-with-dst=CompressBlockBound(%d)=%d:n=%d-err=%v", n, bound, mem, len(src), bound, n, err != nil)
	}
	// the bound as the format defines it (n + n/255 + 16): the library's own must not be smaller
	ob := "ok"
	if want := len(src) + len(src)/255 + 16; bound < want {
		ob = fmt.Sprintf("fail:CompressBlockBound(%d)=%d<%d", len(src), bound, want)
	}
	rt := "ok"
	out := make([]byte, len(src))
	m, derr := lz4.UncompressBlock(dst[:n], out)
	if derr != nil || m != len(src) || !bytes.Equal(out[:m], src) {
		rt = fmt.Sprintf("fail:decoded-n=%d-err=%v", m, derr != nil)
	}
	return fmt.Sprintf("x_res=ok x_n=%d x_bound=%d oracle_mem=%s oracle_bound=%s oracle_rt=%s", n, bound, mem, ob, rt)
}

func compCmpBig(o *out, r *rng, tier string) {
	n := 6
	if tier == "thorough" {
		n = 40
	}
	// one match covering (almost) a whole 4 MiB block and more: the longest match-length encodings
	// (about 16 Ki bytes of 0xFF) — the largest block a frame can hold, and a little beyond
	for i, tail := range []int{4 << 20, (4 << 20) + 70000} {
		for _, algo := range []string{"fast", "hc"} {
			c := &cmpBigCase{noise: 16 * i, tail: tail, seed: r.intn(1000), algo: algo, depth: []int{0, 512}[i], ep: i}
			if algo == "fast" {
				c.depth = 0
			}
			o.emit("cmpbig", c.fields(), c.run(), true)
			o.count("one-match-of-4MiB")
		}
	}
	for i := 0; i < n; i++ {
		c := &cmpBigCase{seed: r.intn(1000), algo: []string{"fast", "hc"}[i%2], depth: []int{512, 2048, 0}[r.intn(3)], ep: r.intn(2)}
		switch i % 3 {
		case 0:
			c.noise, c.tail = (1<<20)+r.intn(3<<20), 0
		case 1:
			c.noise, c.tail = (1<<20)+r.intn(70000), 100000+r.intn(200000)
		default:
			c.noise, c.tail = 950000+r.intn(200000), r.intn(5000)
		}
		if c.algo == "fast" {
			c.depth = 0
		}
		o.emit("cmpbig", c.fields(), c.run(), true)
		o.count("megabyte-sources")
	}
}
