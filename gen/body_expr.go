// body_expr.go: Go expressions -> pure Gallina terms over the state variable `s`, with the
// conditions under which their evaluation panics collected as boolean guards.
package main

import (
	"fmt"
	"go/ast"
	"go/constant"
	"go/importer"
	"go/token"
	"go/types"
	"os"
	"strings"
)

func readFile(path string) (string, error) {
	b, err := os.ReadFile(path)
	return string(b), err
}

func newImporter() types.Importer { return importer.ForCompiler(fset, "source", nil) }

type val struct {
	kind    kind
	term    string
	guards  []string // conjunction; each a bool term over s
	memread bool     // reads a location or a struct field
	loc     string   // kArray: location
	arrN    int64    // kArray: length
	ptrN    int64    // kSlice: N when the static type is *[N]T, else -1
	typ     types.Type
}

func addGuards(dst []string, src ...string) []string {
	for _, g := range src {
		if g == "true" || g == "" {
			continue
		}
		dup := false
		for _, d := range dst {
			if d == g {
				dup = true
			}
		}
		if !dup {
			dst = append(dst, g)
		}
	}
	return dst
}

func conj(gs []string) string {
	if len(gs) == 0 {
		return "true"
	}
	if len(gs) == 1 {
		return gs[0]
	}
	return "(" + strings.Join(gs, " && ") + ")"
}

func wrapName(ty types.Type) string {
	bits, signed, ok := width(ty)
	if !ok || bits == 0 {
		return ""
	}
	if signed {
		return fmt.Sprintf("wi%d", bits)
	}
	return fmt.Sprintf("wu%d", bits)
}

func (t *btr) wrapAt(n ast.Node, ty types.Type, s string) string {
	w := wrapName(ty)
	if w == "" {
		t.abort(n, "arithmetic at non-integer or untyped type %s", ty)
	}
	return "(" + w + " " + s + ")"
}

// conv re-wraps arg (of type src) at type dst; widening conversions are the identity.
func (t *btr) conv(n ast.Node, src, dst types.Type, arg string) string {
	sb, ss, sok := width(src)
	db, ds, dok := width(dst)
	if !sok || !dok || db == 0 {
		t.abort(n, "unsupported conversion %s -> %s", src, dst)
	}
	if sb != 0 && ((ss == ds && sb <= db) || (!ss && ds && sb < db)) {
		return arg
	}
	return t.wrapAt(n, dst, arg)
}

func (t *btr) constTerm(tv types.TypeAndValue) (val, bool) {
	if tv.Value == nil {
		return val{}, false
	}
	if tv.Value.Kind() == constant.Bool {
		if constant.BoolVal(tv.Value) {
			return val{kind: kBool, term: "true", typ: tv.Type, ptrN: -1}, true
		}
		return val{kind: kBool, term: "false", typ: tv.Type, ptrN: -1}, true
	}
	if s, ok := zlit(tv.Value); ok {
		return val{kind: kZ, term: s, typ: tv.Type, ptrN: -1}, true
	}
	return val{}, false
}

func (t *btr) objOf(id *ast.Ident) types.Object {
	if o := t.info.Defs[id]; o != nil {
		return o
	}
	return t.info.Uses[id]
}

// asSlice turns a slice, pointer-to-array (adding the nil check) or addressable array into a slice term.
func (t *btr) asSlice(n ast.Node, v val) (term string, guards []string, length string) {
	switch v.kind {
	case kSlice:
		guards = v.guards
		if v.ptrN >= 0 {
			// a non-nil pointer to [N]T has len = cap = N
			guards = addGuards(append([]string{}, guards...), "negb (s_nil "+v.term+")")
			return v.term, guards, fmt.Sprint(v.ptrN)
		}
		return v.term, guards, ""
	case kArray:
		return fmt.Sprintf("(sl_array %s %d)", v.loc, v.arrN), v.guards, fmt.Sprint(v.arrN)
	}
	t.abort(n, "slice, array or pointer to array expected")
	return
}

func isLittleEndian(fn *types.Func, name string) bool {
	return fn.FullName() == "(encoding/binary.littleEndian)."+name
}

// hoistable reports whether the call must be executed as a statement of its own: copy, or a
// translated function that is not pure.
func (t *btr) hoistable(c *ast.CallExpr) bool {
	if id, ok := unparen(c.Fun).(*ast.Ident); ok {
		if b, ok := t.info.Uses[id].(*types.Builtin); ok && b.Name() == "copy" {
			return true
		}
	}
	if k, ok := t.calleeKey(c); ok {
		f := t.funcs[k]
		return f != nil && !f.pure
	}
	return false
}

func (t *btr) expr(e ast.Expr) val {
	tv, ok := t.info.Types[e]
	if ok {
		if v, ok := t.constTerm(tv); ok {
			return v
		}
		if tv.Value != nil {
			t.abort(e, "constant of unsupported kind (string/float)")
		}
		if tv.IsNil() {
			return val{kind: kNil, term: "nilv", ptrN: -1, typ: tv.Type}
		}
	}
	switch e := e.(type) {
	case *ast.ParenExpr:
		return t.expr(e.X)
	case *ast.Ident:
		obj := t.objOf(e)
		if t.pureEnv != nil {
			if g, ok := t.pureEnv[obj]; ok {
				k, _, _, _ := classify(obj.Type())
				return val{kind: k, term: g, typ: obj.Type(), ptrN: -1}
			}
			t.abort(e, "identifier %s in a pure function is not a parameter", e.Name)
		}
		v := t.vars[obj]
		if v == nil {
			t.abort(e, "identifier %s is not a variable of a translated function (package-level variable?)", e.Name)
		}
		switch v.kind {
		case kZ, kBool:
			return val{kind: v.kind, term: "(" + v.field + " s)", typ: obj.Type(), ptrN: -1}
		case kSlice:
			return val{kind: kSlice, term: "(" + v.field + " s)", typ: obj.Type(), ptrN: v.ptrN}
		case kArray:
			return val{kind: kArray, term: "(" + v.field + " s)", loc: v.loc, arrN: v.arrN, typ: obj.Type(), memread: true, ptrN: -1}
		case kRecv:
			t.abort(e, "receiver %s used as a value (only %s.field and %s.method() are supported)", e.Name, e.Name, e.Name)
		}
		t.abort(e, "unsupported use of %s", e.Name)
	case *ast.SelectorExpr:
		return t.selector(e)
	case *ast.IndexExpr:
		x := t.expr(e.X)
		i := t.expr(e.Index)
		if i.kind != kZ {
			t.abort(e, "non-integer index")
		}
		_, idxConst := t.constTerm(t.info.Types[e.Index])
		out := val{kind: kZ, typ: tv.Type, memread: true, ptrN: -1}
		out.guards = addGuards(out.guards, x.guards...)
		out.guards = addGuards(out.guards, i.guards...)
		switch {
		case x.kind == kSlice && x.ptrN < 0:
			out.guards = addGuards(out.guards, fmt.Sprintf("sl_idx_ok %s %s", x.term, i.term))
			out.term = fmt.Sprintf("(sget %s %s s)", x.term, i.term)
		case x.kind == kSlice:
			out.guards = addGuards(out.guards, "negb (s_nil "+x.term+")")
			if !idxConst {
				out.guards = addGuards(out.guards, fmt.Sprintf("arr_idx_ok %d %s", x.ptrN, i.term))
			}
			out.term = fmt.Sprintf("(sget %s %s s)", x.term, i.term)
		case x.kind == kArray:
			if !idxConst {
				out.guards = addGuards(out.guards, fmt.Sprintf("arr_idx_ok %d %s", x.arrN, i.term))
			}
			out.term = fmt.Sprintf("(znth %s %s)", x.term, i.term)
		default:
			t.abort(e, "index of unsupported operand (map/string?)")
		}
		return out
	case *ast.SliceExpr:
		x := t.expr(e.X)
		xs, g, fixed := t.asSlice(e, x)
		out := val{kind: kSlice, typ: tv.Type, ptrN: -1, memread: false}
		out.guards = addGuards(out.guards, g...)
		part := func(p ast.Expr, def string) string {
			if p == nil {
				return def
			}
			v := t.expr(p)
			if v.kind != kZ {
				t.abort(p, "non-integer slice bound")
			}
			out.guards = addGuards(out.guards, v.guards...)
			out.memread = out.memread || v.memread
			return v.term
		}
		lo := part(e.Low, "0")
		dlen, dcap := "(s_len "+xs+")", "(s_cap "+xs+")"
		if fixed != "" {
			dlen, dcap = fixed, fixed
		}
		hi := part(e.High, dlen)
		mx := part(e.Max, dcap)
		out.guards = addGuards(out.guards, fmt.Sprintf("sl_slice_ok %s %s %s %s", xs, lo, hi, mx))
		out.term = fmt.Sprintf("(sl_slice %s %s %s %s)", xs, lo, hi, mx)
		return out
	case *ast.StarExpr:
		t.abort(e, "pointer dereference")
	case *ast.UnaryExpr:
		switch e.Op {
		case token.AND:
			x := t.expr(e.X)
			if x.kind != kArray {
				t.abort(e, "address-of is supported for array-typed struct fields and local arrays only")
			}
			return val{kind: kSlice, term: fmt.Sprintf("(sl_array %s %d)", x.loc, x.arrN), guards: x.guards, typ: tv.Type, ptrN: x.arrN}
		case token.NOT:
			x := t.expr(e.X)
			return val{kind: kBool, term: "(negb " + x.term + ")", guards: x.guards, memread: x.memread, typ: tv.Type, ptrN: -1}
		case token.SUB:
			x := t.expr(e.X)
			return val{kind: kZ, term: t.wrapAt(e, tv.Type, "(- "+x.term+")"), guards: x.guards, memread: x.memread, typ: tv.Type, ptrN: -1}
		case token.ADD:
			return t.expr(e.X)
		case token.XOR:
			x := t.expr(e.X)
			return val{kind: kZ, term: t.wrapAt(e, tv.Type, "(Z.lnot "+x.term+")"), guards: x.guards, memread: x.memread, typ: tv.Type, ptrN: -1}
		}
		t.abort(e, "unsupported unary operator %s", e.Op)
	case *ast.BinaryExpr:
		return t.binary(e, tv)
	case *ast.CallExpr:
		return t.callExpr(e, tv)
	case *ast.FuncLit:
		t.abort(e, "closure")
	case *ast.CompositeLit:
		t.abort(e, "composite literal")
	case *ast.TypeAssertExpr:
		t.abort(e, "type assertion (interface)")
	case *ast.BasicLit:
		t.abort(e, "literal of unsupported kind (string/float)")
	}
	t.abort(e, "unsupported expression %T", e)
	return val{}
}

func (t *btr) selector(e *ast.SelectorExpr) val {
	sel := t.info.Selections[e]
	if sel == nil || sel.Kind() != types.FieldVal {
		t.abort(e, "unsupported selector (qualified identifier or method value)")
	}
	id, ok := unparen(e.X).(*ast.Ident)
	if !ok {
		t.abort(e, "field selection on an expression other than the receiver")
	}
	v := t.vars[t.objOf(id)]
	if v == nil || v.kind != kRecv {
		t.abort(e, "field selection on something other than the pointer receiver")
	}
	named := v.obj.Type().(*types.Pointer).Elem().(*types.Named)
	st := t.structOf(named)
	sf := st.byName[e.Sel.Name]
	if sf == nil || len(sel.Index()) != 1 {
		t.abort(e, "embedded / unknown field %s", e.Sel.Name)
	}
	switch sf.kind {
	case kZ, kBool:
		return val{kind: sf.kind, term: "(" + sf.field + " s)", memread: true, typ: sf.typ, ptrN: -1}
	case kArray:
		return val{kind: kArray, term: "(" + sf.field + " s)", loc: sf.loc, arrN: sf.arrN, memread: true, typ: sf.typ, ptrN: -1}
	}
	t.abort(e, "struct field %s has unsupported type %s", sf.name, sf.typ)
	return val{}
}

func (t *btr) binary(e *ast.BinaryExpr, tv types.TypeAndValue) val {
	x, y := t.expr(e.X), t.expr(e.Y)
	out := val{typ: tv.Type, memread: x.memread || y.memread, ptrN: -1}
	// nil comparisons
	if x.kind == kNil || y.kind == kNil {
		o := x
		if x.kind == kNil {
			o = y
		}
		if o.kind != kSlice || (e.Op != token.EQL && e.Op != token.NEQ) {
			t.abort(e, "unsupported comparison with nil")
		}
		out.kind = kBool
		out.guards = o.guards
		out.term = "(s_nil " + o.term + ")"
		if e.Op == token.NEQ {
			out.term = "(negb " + out.term + ")"
		}
		return out
	}
	switch e.Op {
	case token.LAND, token.LOR:
		if x.kind != kBool || y.kind != kBool {
			t.abort(e, "non-boolean operand of %s", e.Op)
		}
		out.kind = kBool
		out.guards = addGuards(nil, x.guards...)
		if e.Op == token.LAND {
			out.term = "(" + x.term + " && " + y.term + ")"
			if len(y.guards) > 0 { // y is evaluated only when x holds
				out.guards = addGuards(out.guards, "implb "+x.term+" "+conj(y.guards))
			}
		} else {
			out.term = "(" + x.term + " || " + y.term + ")"
			if len(y.guards) > 0 {
				out.guards = addGuards(out.guards, "orb "+x.term+" "+conj(y.guards))
			}
		}
		return out
	}
	out.guards = addGuards(addGuards(nil, x.guards...), y.guards...)
	switch e.Op {
	case token.EQL, token.NEQ, token.LSS, token.LEQ, token.GTR, token.GEQ:
		out.kind = kBool
		if x.kind == kBool && y.kind == kBool {
			switch e.Op {
			case token.EQL:
				out.term = "(Bool.eqb " + x.term + " " + y.term + ")"
			case token.NEQ:
				out.term = "(negb (Bool.eqb " + x.term + " " + y.term + "))"
			default:
				t.abort(e, "ordering of booleans")
			}
			return out
		}
		if x.kind != kZ || y.kind != kZ {
			t.abort(e, "comparison of unsupported operands")
		}
		switch e.Op {
		case token.EQL:
			out.term = "(" + x.term + " =? " + y.term + ")"
		case token.NEQ:
			out.term = "(negb (" + x.term + " =? " + y.term + "))"
		case token.LSS:
			out.term = "(" + x.term + " <? " + y.term + ")"
		case token.LEQ:
			out.term = "(" + x.term + " <=? " + y.term + ")"
		case token.GTR:
			out.term = "(" + y.term + " <? " + x.term + ")"
		case token.GEQ:
			out.term = "(" + y.term + " <=? " + x.term + ")"
		}
		return out
	}
	if x.kind != kZ || y.kind != kZ {
		t.abort(e, "arithmetic on unsupported operands")
	}
	out.kind = kZ
	out.term = t.arith(e, e.Op, tv.Type, x.term, y.term, e.Y, &out.guards)
	return out
}

// arith builds x op y at static type ty; rhs is the Go expression of y (for constant checks).
func (t *btr) arith(n ast.Node, op token.Token, ty types.Type, x, y string, rhs ast.Expr, guards *[]string) string {
	_, signed, ok := width(ty)
	if !ok {
		t.abort(n, "arithmetic at type %s", ty)
	}
	rhsConst := func() (constant.Value, bool) {
		if rhs == nil {
			return nil, false
		}
		tv := t.info.Types[rhs]
		if tv.Value != nil && constant.ToInt(tv.Value).Kind() == constant.Int {
			return constant.ToInt(tv.Value), true
		}
		return nil, false
	}
	switch op {
	case token.ADD:
		return t.wrapAt(n, ty, "("+x+" + "+y+")")
	case token.SUB:
		return t.wrapAt(n, ty, "("+x+" - "+y+")")
	case token.MUL:
		return t.wrapAt(n, ty, "("+x+" * "+y+")")
	case token.QUO, token.REM:
		if c, ok := rhsConst(); !ok || constant.Sign(c) == 0 {
			*guards = addGuards(*guards, "negb ("+y+" =? 0)")
		}
		switch {
		case op == token.QUO && signed:
			return t.wrapAt(n, ty, "(Z.quot "+x+" "+y+")")
		case op == token.QUO:
			return "(Z.div " + x + " " + y + ")"
		case signed:
			return "(Z.rem " + x + " " + y + ")"
		}
		return "(Z.modulo " + x + " " + y + ")"
	case token.SHL, token.SHR:
		c, ok := rhsConst()
		if ok && constant.Sign(c) < 0 {
			t.abort(n, "shift by a negative constant")
		}
		if !ok {
			// Non-constant count.  On Z,  x * 2^y  re-wrapped at the type of x  and  floor(x / 2^y)  are Go's
			// results for EVERY count y >= 0 (counts >= the width give 0, resp. -1 for a negative x);
			// a negative count of signed type panics.
			if rhs == nil {
				t.abort(n, "shift by a non-constant count (op= with a call)")
			}
			cty := t.info.Types[rhs].Type
			_, csigned, cok := width(cty)
			if !cok {
				t.abort(n, "shift by a count of type %s", cty)
			}
			if csigned {
				*guards = addGuards(*guards, "0 <=? "+y)
			}
		}
		if op == token.SHL {
			return t.wrapAt(n, ty, "(Z.shiftl "+x+" "+y+")")
		}
		return "(Z.shiftr " + x + " " + y + ")"
	case token.AND:
		return "(Z.land " + x + " " + y + ")"
	case token.OR:
		return "(Z.lor " + x + " " + y + ")"
	case token.XOR:
		return "(Z.lxor " + x + " " + y + ")"
	case token.AND_NOT:
		return "(Z.ldiff " + x + " " + y + ")"
	}
	t.abort(n, "unsupported binary operator %s", op)
	return ""
}

func (t *btr) callExpr(e *ast.CallExpr, tv types.TypeAndValue) val {
	// conversion
	if ftv, ok := t.info.Types[e.Fun]; ok && ftv.IsType() {
		if len(e.Args) != 1 {
			t.abort(e, "bad conversion")
		}
		a := t.expr(e.Args[0])
		if a.kind != kZ {
			t.abort(e, "conversion of a non-integer")
		}
		return val{kind: kZ, term: t.conv(e, t.info.Types[e.Args[0]].Type, ftv.Type, a.term), guards: a.guards, memread: a.memread, typ: ftv.Type, ptrN: -1}
	}
	if e.Ellipsis != token.NoPos {
		t.abort(e, "variadic call")
	}
	switch f := unparen(e.Fun).(type) {
	case *ast.Ident:
		if b, ok := t.info.Uses[f].(*types.Builtin); ok {
			switch b.Name() {
			case "len", "cap":
				x := t.expr(e.Args[0])
				if x.kind != kSlice || x.ptrN >= 0 {
					t.abort(e, "%s of unsupported operand", b.Name())
				}
				return val{kind: kZ, term: "(s_" + b.Name() + " " + x.term + ")", guards: x.guards, typ: tv.Type, ptrN: -1}
			case "copy":
				t.abort(e, "copy(...) must be a whole statement or the right-hand side of an assignment (possibly under a conversion)")
			}
			t.abort(e, "builtin %s", b.Name())
		}
	case *ast.SelectorExpr:
		if fn, ok := t.info.Uses[f.Sel].(*types.Func); ok {
			for _, le := range []struct {
				name, ok, rd string
			}{{"Uint16", "sl_le16_ok", "le16"}, {"Uint32", "sl_le32_ok", "le32"}, {"Uint64", "sl_le64_ok", "le64"}} {
				if isLittleEndian(fn, le.name) {
					if le.name == "Uint64" {
						t.usesLe64 = true
					}
					x := t.expr(e.Args[0])
					if x.kind != kSlice || x.ptrN >= 0 {
						t.abort(e, "LittleEndian.%s of a non-slice", le.name)
					}
					g := addGuards(addGuards(nil, x.guards...), le.ok+" "+x.term)
					return val{kind: kZ, term: "(" + le.rd + " " + x.term + " s)", guards: g, memread: true, typ: tv.Type, ptrN: -1}
				}
			}
			if fn.FullName() == "math/bits.TrailingZeros64" && len(e.Args) == 1 {
				// argument: uint64 (in range by the wraps), result: int in 0..64
				x := t.expr(e.Args[0])
				if x.kind != kZ {
					t.abort(e, "TrailingZeros64 of a non-integer")
				}
				return val{kind: kZ, term: "(ctz64 " + x.term + ")", guards: x.guards, memread: x.memread, typ: tv.Type, ptrN: -1}
			}
		}
	}
	if k, ok := t.calleeKey(e); ok {
		f := t.funcs[k]
		if f == nil {
			t.abort(e, "call of %s, which is not translated", k)
		}
		if !f.pure {
			t.abort(e, "call of %s must be a whole statement, the right-hand side of an assignment (possibly under a conversion) or a return value", k)
		}
		out := val{kind: kZ, typ: tv.Type, ptrN: -1}
		if isBool(tv.Type) {
			out.kind = kBool
		}
		args := []string{}
		for _, a := range e.Args {
			v := t.expr(a)
			out.guards = addGuards(out.guards, v.guards...)
			out.memread = out.memread || v.memread
			args = append(args, v.term)
		}
		out.term = "(" + f.cname + " " + strings.Join(args, " ") + ")"
		return out
	}
	t.abort(e, "unsupported call")
	return val{}
}

// classifyPure decides whether f is a pure function (integer/bool parameters, one integer/bool
// result, body `return e` with e free of panics, memory and state) and if so emits it as a plain
// Gallina function.
func (t *btr) classifyPure(f *bfunc) {
	fd := f.fd
	if fd.Recv != nil || len(f.results) != 1 || len(fd.Body.List) == 0 {
		return
	}
	// local constant declarations may precede the return (they are folded by the type checker)
	for _, st := range fd.Body.List[:len(fd.Body.List)-1] {
		ds, ok := st.(*ast.DeclStmt)
		if !ok || ds.Decl.(*ast.GenDecl).Tok != token.CONST {
			return
		}
	}
	rs, ok := fd.Body.List[len(fd.Body.List)-1].(*ast.ReturnStmt)
	if !ok || len(rs.Results) != 1 {
		return
	}
	for _, v := range append(append([]*bvar{}, f.params...), f.results...) {
		if v.kind != kZ && v.kind != kBool {
			return
		}
	}
	if len(f.vars) != len(f.params)+1 {
		return
	}
	for _, c := range f.calls {
		if !t.funcs[c].pure {
			return
		}
	}
	// no hoistable call, no memory access: try the translation in pure mode
	bad := false
	ast.Inspect(rs.Results[0], func(n ast.Node) bool {
		switch n := n.(type) {
		case *ast.IndexExpr, *ast.SliceExpr, *ast.SelectorExpr, *ast.FuncLit:
			bad = true
		case *ast.CallExpr:
			if t.hoistable(n) {
				bad = true
			}
		}
		return !bad
	})
	if bad {
		return
	}
	t.pureEnv = map[types.Object]string{}
	ps := []string{}
	for _, v := range f.params {
		g := "a_" + v.name
		t.pureEnv[v.obj] = g
		ps = append(ps, fmt.Sprintf("(%s : %s)", g, v.kind.coq()))
	}
	v := t.expr(rs.Results[0])
	t.pureEnv = nil
	if len(v.guards) > 0 || v.memread {
		return
	}
	f.pure = true
	f.pureDef = fmt.Sprintf("%s\nDefinition %s %s : %s :=\n  %s.\n", t.where(fd), f.cname, strings.Join(ps, " "), f.results[0].kind.coq(), v.term)
}
