(* eval.ml — runs the extracted translated function bodies (GenXXHBody, GenDecodeBody) on the
   cases printed by cases/main.go and compares with the behaviour of the real Go code.

     eval <cases-file> <shard> <nshards>

   Case lines (tokens separated by one space, "-" = empty byte string, hex otherwise):
     X1 <input> <spare> <u32|PANIC>
     XS <v0> <v1> <v2> <v3> <totalLen> <pending> <nops> { W <data> <spare> (<n> <v0..v3> <totalLen> <pending> | PANIC)
                                                        | S (<u32>|PANIC) | R (<v0..v3> <totalLen> <pending> | PANIC) }
     D <mem0> <mem1> <mem2> <dst> <src> <dict> <ret|PANIC> <mem0'> <mem1'> <mem2'>
        slices: nil | loc,off,len,cap with loc 0/1/2 = the location of dst/src/dict
     C <table> <inUse> <src> <srcSpare> <dst> <dstSpare> <n|PANIC> <err> <dst'> <table'> <inUse'>
        tables: sparse, idx=val,idx=val ("-" = all zero); dst, dst' = the whole backing array of dst
   Prints one line per mismatch, then "cases=<n> mismatches=<m>"; exit status 1 when m > 0. *)
open BinNums
open Datatypes
module X = GenXXHBody
module D = GenDecodeBody
module C = GenCompressBody

let rec pos_of_int n =
  if n = 1 then Coq_xH
  else if n land 1 = 0 then Coq_xO (pos_of_int (n lsr 1))
  else Coq_xI (pos_of_int (n lsr 1))
let z_of_int n = if n = 0 then Z0 else if n > 0 then Zpos (pos_of_int n) else Zneg (pos_of_int (-n))
let nat_of_int n = let rec go acc n = if n <= 0 then acc else go (S acc) (n - 1) in go O n
let z10 = z_of_int 10
let z_of_dec (s : string) : coq_Z =
  let neg = String.length s > 0 && s.[0] = '-' in
  let acc = ref Z0 in
  String.iteri (fun i c -> if not (i = 0 && neg) then begin
    if c < '0' || c > '9' then failwith ("bad number " ^ s);
    acc := BinInt.Z.add (BinInt.Z.mul !acc z10) (z_of_int (Char.code c - 48)) end) s;
  if neg then BinInt.Z.opp !acc else !acc
let rec int_of_pos = function Coq_xH -> 1 | Coq_xO p -> 2 * int_of_pos p | Coq_xI p -> 2 * int_of_pos p + 1
let zbillion = z_of_int 1_000_000_000
let rec z_to_dec (x : coq_Z) : string =
  match x with
  | Z0 -> "0"
  | Zneg p -> "-" ^ z_to_dec (Zpos p)
  | Zpos p ->
    if BinInt.Z.ltb x zbillion then string_of_int (int_of_pos p)
    else z_to_dec (BinInt.Z.div x zbillion) ^
         Printf.sprintf "%09d" (match BinInt.Z.modulo x zbillion with Z0 -> 0 | Zpos q -> int_of_pos q | Zneg _ -> 0)

let byte_tab = Array.init 256 z_of_int
let hexval c = match c with
  | '0'..'9' -> Char.code c - 48 | 'a'..'f' -> Char.code c - 87 | 'A'..'F' -> Char.code c - 55
  | _ -> failwith "bad hex"
let bytes_of_hex (s : string) : coq_Z list =
  if s = "-" then [] else begin
    let n = String.length s / 2 in
    let r = ref [] in
    for i = n - 1 downto 0 do
      r := byte_tab.(hexval s.[2*i] * 16 + hexval s.[2*i+1]) :: !r
    done; !r end
let hex_of_bytes (l : coq_Z list) : string =
  if l = [] then "-" else begin
    let b = Buffer.create 64 in
    Stdlib.List.iter (fun z ->
      let v = match z with Z0 -> 0 | Zpos p -> int_of_pos p | Zneg _ -> -1 in
      if v < 0 || v > 255 then Buffer.add_string b "??" else Buffer.add_string b (Printf.sprintf "%02x" v)) l;
    Buffer.contents b end
let zeros n = Stdlib.List.init n (fun _ -> Z0)
let rec take n l = if n <= 0 then [] else match l with [] -> [] | x :: r -> x :: take (n - 1) r
let hexlen s = if s = "-" then 0 else String.length s / 2

let ncases = ref 0
let nmis = ref 0
let mismatch lineno what exp got =
  incr nmis;
  let cut s = if String.length s > 300 then String.sub s 0 300 ^ "..." else s in
  Printf.printf "MISMATCH line %d: %s: go=%s gallina=%s\n" lineno what (cut exp) (cut got)

(* ---------------- xxh32 ---------------- *)
let x1 lineno toks =
  match toks with
  | [inp; spare; exp] ->
    let input = bytes_of_hex inp in
    let spare = int_of_string spare in
    let s0 = X.init_xxh32_checksumZeroGo_fresh input (zeros spare) X.zero_state in
    let fuel = nat_of_int (Stdlib.List.length input + 50) in
    let got = match X.xxh32_checksumZeroGo fuel s0 with
      | GoT.Ret s' ->
        if s'.X.mem_checksumZeroGo_input <> input @ zeros spare then "MEMCHANGED"
        else z_to_dec s'.X.checksumZeroGo_ret0
      | GoT.Pan _ -> "PANIC" | GoT.Hang -> "HANG" | _ -> "BADOUTCOME" in
    if got <> exp then mismatch lineno "checksumZeroGo" exp got
  | _ -> failwith "bad X1 line"

let xstate (s : X.state) : string =
  let v = s.X.mem_XXHZero_v in
  let used = match s.X.coq_XXHZero_bufused with Z0 -> 0 | Zpos p -> int_of_pos p | Zneg _ -> -1 in
  Printf.sprintf "%s %s %s" (String.concat " " (Stdlib.List.map z_to_dec v)) (z_to_dec s.X.coq_XXHZero_totalLen)
    (if used < 0 then "NEGATIVE" else hex_of_bytes (take used s.X.mem_XXHZero_buf))

let xs lineno toks =
  match toks with
  | v0 :: v1 :: v2 :: v3 :: total :: pending :: nops :: rest ->
    let pend = bytes_of_hex pending in
    let np = Stdlib.List.length pend in
    let s = ref (X.init_xxh32_XXHZero (Stdlib.List.map z_of_dec [v0; v1; v2; v3]) (z_of_dec total)
                   (pend @ zeros (16 - np)) (z_of_int np) X.zero_state) in
    let rest = ref rest in
    let next () = match !rest with t :: r -> rest := r; t | [] -> failwith "short XS line" in
    let peek_panic () = match !rest with "PANIC" :: r -> rest := r; true | _ -> false in
    let nexts n = String.concat " " (Stdlib.List.init n (fun _ -> next ())) in
    let ok = ref true in
    for i = 1 to int_of_string nops do
      if !ok then begin
        let what, exp, got =
          match next () with
          | "W" ->
            let data = bytes_of_hex (next ()) in
            let spare = int_of_string (next ()) in
            let exp = if peek_panic () then "PANIC" else nexts 7 in
            let s1 = X.init_xxh32_XXHZero_Write_fresh data (zeros spare) !s in
            let fuel = nat_of_int (Stdlib.List.length data + 50) in
            let got = match X.xxh32_XXHZero_Write fuel s1 with
              | GoT.Ret s' -> s := s'; z_to_dec s'.X.coq_XXHZero_Write_ret0 ^ " " ^ xstate s'
              | GoT.Pan _ -> "PANIC" | GoT.Hang -> "HANG" | _ -> "BADOUTCOME" in
            Printf.sprintf "op %d Write" i, exp, got
          | "S" ->
            let exp = next () in
            let got = match X.xxh32_XXHZero_Sum32 (nat_of_int 50) !s with
              | GoT.Ret s' ->
                (* Sum32 must not change the hash state *)
                if xstate s' <> xstate !s then "STATECHANGED" else begin
                  s := s'; z_to_dec s'.X.coq_XXHZero_Sum32_ret0 end
              | GoT.Pan _ -> "PANIC" | GoT.Hang -> "HANG" | _ -> "BADOUTCOME" in
            Printf.sprintf "op %d Sum32" i, exp, got
          | "R" ->
            let exp = if peek_panic () then "PANIC" else nexts 6 in
            let got = match X.xxh32_XXHZero_Reset (nat_of_int 5) !s with
              | GoT.Fall s' | GoT.Ret s' -> s := s'; xstate s'
              | GoT.Pan _ -> "PANIC" | GoT.Hang -> "HANG" | _ -> "BADOUTCOME" in
            Printf.sprintf "op %d Reset" i, exp, got
          | t -> failwith ("bad op " ^ t) in
        if exp <> got then begin mismatch lineno what exp got; ok := false end
      end
    done
  | _ -> failwith "bad XS line"

(* ---------------- decodeBlock ---------------- *)
let dslice (t : string) : D.loc GoT.slice =
  if t = "nil" then D.nilv
  else match Stdlib.List.map int_of_string (String.split_on_char ',' t) with
    | [l; off; len; cap] ->
      let loc = match l with 0 -> D.L_decodeBlock_dst | 1 -> D.L_decodeBlock_src | 2 -> D.L_decodeBlock_dict
                             | _ -> failwith "bad loc" in
      { GoT.s_nil = false; s_loc = loc; s_off = z_of_int off; s_len = z_of_int len; s_cap = z_of_int cap }
    | _ -> failwith "bad slice"

let dcase lineno toks =
  match toks with
  | [m0; m1; m2; dst; src; dict; exp; e0; e1; e2] ->
    let s = D.set_mem_decodeBlock_dst (bytes_of_hex m0)
        (D.set_mem_decodeBlock_src (bytes_of_hex m1)
           (D.set_mem_decodeBlock_dict (bytes_of_hex m2) D.zero_state)) in
    let s = D.init_lz4block_decodeBlock (dslice dst) (dslice src) (dslice dict) s in
    let fuel = nat_of_int (hexlen m0 + hexlen m1 + 100) in
    let exp = String.concat " " [exp; e0; e1; e2] in
    let mems s' = String.concat " " (Stdlib.List.map hex_of_bytes
        [s'.D.mem_decodeBlock_dst; s'.D.mem_decodeBlock_src; s'.D.mem_decodeBlock_dict]) in
    let got = match D.lz4block_decodeBlock fuel s with
      | GoT.Ret s' -> z_to_dec s'.D.decodeBlock_ret ^ " " ^ mems s'
      | GoT.Pan s' -> "PANIC " ^ mems s'
      | GoT.Hang -> "HANG" | _ -> "BADOUTCOME" in
    if exp <> got then begin
      (* locate the first difference for the report *)
      let n = min (String.length exp) (String.length got) in
      let i = ref 0 in
      while !i < n && exp.[!i] = got.[!i] do incr i done;
      let from = max 0 (!i - 20) in
      let part s = String.sub s from (min 80 (String.length s - from)) in
      mismatch lineno (Printf.sprintf "decodeBlock (first difference at char %d)" !i) (part exp) (part got)
    end
  | _ -> failwith "bad D line"

(* ---------------- Compressor.CompressBlock ---------------- *)
let int_of_z = function Z0 -> 0 | Zpos p -> int_of_pos p | Zneg p -> - (int_of_pos p)
(* small numbers are shared; the zero tables are built once *)
let small_tab = Array.init 65536 z_of_int
let z_small n = if n >= 0 && n < 65536 then small_tab.(n) else z_of_int n
let zero_table = Stdlib.List.init 65536 (fun _ -> Z0)
let zero_inuse = Stdlib.List.init 2048 (fun _ -> Z0)
let table_of_sparse (size : int) (zero : coq_Z list) (t : string) : coq_Z list =
  if t = "-" then zero else begin
    let a = Array.make size Z0 in
    Stdlib.List.iter (fun kv -> match String.split_on_char '=' kv with
      | [k; v] -> a.(int_of_string k) <- z_small (int_of_string v)
      | _ -> failwith "bad sparse table") (String.split_on_char ',' t);
    Array.to_list a end
let sparse_of_table (size : int) (l : coq_Z list) : string =
  if Stdlib.List.length l <> size then Printf.sprintf "BADLENGTH(%d)" (Stdlib.List.length l) else begin
    let b = Buffer.create 256 in
    Stdlib.List.iteri (fun i z -> if z <> Z0 then begin
      if Buffer.length b > 0 then Buffer.add_char b ',';
      Buffer.add_string b (string_of_int i); Buffer.add_char b '='; Buffer.add_string b (z_to_dec z) end) l;
    if Buffer.length b = 0 then "-" else Buffer.contents b end

let ccase lineno toks =
  match toks with
  | [t0; u0; src; sspare; dst; dspare; en; eerr; edst; et; eu] ->
    let srcb = bytes_of_hex src and dfull = bytes_of_hex dst in
    let sspare = int_of_string sspare and dspare = int_of_string dspare in
    let dlen = Stdlib.List.length dfull - dspare in
    let rec split n l = if n <= 0 then [], l else match l with [] -> [], [] | x :: r -> let a, b = split (n - 1) r in x :: a, b in
    let d0, d1 = split dlen dfull in
    let s = C.init_lz4block_Compressor (table_of_sparse 65536 zero_table t0) (table_of_sparse 2048 zero_inuse u0) C.zero_state in
    let s = C.init_lz4block_Compressor_CompressBlock_fresh srcb (zeros sspare) d0 d1 s in
    let fuel = nat_of_int (Stdlib.List.length srcb + Stdlib.List.length dfull + 100) in
    let obs (s' : C.state) =
      [ hex_of_bytes s'.C.mem_Compressor_CompressBlock_dst;
        sparse_of_table 65536 s'.C.mem_Compressor_table; sparse_of_table 2048 s'.C.mem_Compressor_inUse ] in
    let names = [ "n"; "err"; "dst"; "table"; "inUse" ] in
    let exp = [ en; eerr; edst; et; eu ] in
    let got = match C.lz4block_Compressor_CompressBlock fuel s with
      | GoT.Ret s' ->
        if s'.C.mem_Compressor_CompressBlock_src <> srcb @ zeros sspare then [ "SRCCHANGED"; ""; ""; ""; "" ]
        else z_to_dec s'.C.coq_Compressor_CompressBlock_ret0 :: z_to_dec s'.C.coq_Compressor_CompressBlock_ret1 :: obs s'
      | GoT.Pan s' -> "PANIC" :: "0" :: obs s'
      | GoT.Hang -> [ "HANG"; ""; ""; ""; "" ]
      | _ -> [ "BADOUTCOME"; ""; ""; ""; "" ] in
    let rec cmp ns es gs = match ns, es, gs with
      | n :: ns, e :: es, g :: gs ->
        if e <> g then begin
          let m = min (String.length e) (String.length g) in
          let i = ref 0 in
          while !i < m && e.[!i] = g.[!i] do incr i done;
          let from = max 0 (!i - 20) in
          let part s = if String.length s <= from then "" else String.sub s from (min 80 (String.length s - from)) in
          mismatch lineno (Printf.sprintf "CompressBlock %s (first difference at char %d)" n !i) (part e) (part g)
        end else cmp ns es gs
      | _ -> () in
    cmp names exp got
  | _ -> failwith "bad C line"

let () =
  let file = Sys.argv.(1) in
  let shard = int_of_string Sys.argv.(2) and nshards = int_of_string Sys.argv.(3) in
  let ic = open_in file in
  let lineno = ref 0 in
  (try
     while true do
       let line = input_line ic in
       incr lineno;
       if !lineno mod nshards = shard && line <> "" then begin
         incr ncases;
         match String.split_on_char ' ' line with
         | "X1" :: r -> x1 !lineno r
         | "XS" :: r -> xs !lineno r
         | "D" :: r -> dcase !lineno r
         | "C" :: r -> ccase !lineno r
         | _ -> failwith ("bad line " ^ string_of_int !lineno)
       end
     done
   with End_of_file -> ());
  Printf.printf "cases=%d mismatches=%d\n" !ncases !nmis;
  exit (if !nmis > 0 then 1 else 0)
