// cases: prints test cases for the translated function bodies together with the observable
// behaviour of the REAL Go functions (built with -tags verif,noasm against the repo given to
// run.sh).  One case per line; see ../README in run.sh and ../eval.ml for the format.
//
//	cases xxh   one-shot checksums (X1) and streaming sessions (XS)
//	cases dec   decodeBlock (D)
//	cases cmp   (*Compressor).CompressBlock (C)
//	cases cmpfar  four 64 KiB sources for the window-size boundary (C; slow to evaluate)
package main

import (
	"bufio"
	"encoding/hex"
	"fmt"
	"math/rand"
	"os"
	"sort"
	"strings"

	"github.com/pierrec/lz4/v4/internal/lz4block"
	"github.com/pierrec/lz4/v4/internal/lz4errors"
	"github.com/pierrec/lz4/v4/internal/xxh32"
)

var out = bufio.NewWriterSize(os.Stdout, 1<<20)
var rng = rand.New(rand.NewSource(20261001))

func hx(b []byte) string {
	if len(b) == 0 {
		return "-"
	}
	return hex.EncodeToString(b)
}

func randBytes(n int) []byte {
	b := make([]byte, n)
	rng.Read(b)
	return b
}

// withSpare returns a slice of the given content whose capacity exceeds its length by spare.
func withSpare(b []byte, spare int) []byte {
	r := make([]byte, len(b), len(b)+spare)
	copy(r, b)
	return r
}

// ---------------------------------------------------------------- xxh32

func one(input []byte, spare int) {
	in := withSpare(input, spare)
	res := func() (s string) {
		defer func() {
			if recover() != nil {
				s = "PANIC"
			}
		}()
		return fmt.Sprint(xxh32.VerifChecksumZeroGo(in))
	}()
	fmt.Fprintf(out, "X1 %s %d %s\n", hx(input), spare, res)
}

type op struct {
	kind  byte // 'W', 'S', 'R'
	data  []byte
	spare int
}

func stateStr(x *xxh32.XXHZero) string {
	v, tl, buf := x.VerifState()
	return fmt.Sprintf("%d %d %d %d %d %s", v[0], v[1], v[2], v[3], tl, hx(buf))
}

func session(v [4]uint32, total uint64, pending []byte, ops []op) {
	var x xxh32.XXHZero
	x.VerifSetState(v, total, pending)
	var sb strings.Builder
	fmt.Fprintf(&sb, "XS %d %d %d %d %d %s %d", v[0], v[1], v[2], v[3], total, hx(pending), len(ops))
	for _, o := range ops {
		func() {
			defer func() {
				if recover() != nil {
					fmt.Fprintf(&sb, " PANIC")
				}
			}()
			switch o.kind {
			case 'W':
				fmt.Fprintf(&sb, " W %s %d", hx(o.data), o.spare)
				n, _ := x.Write(withSpare(o.data, o.spare))
				fmt.Fprintf(&sb, " %d %s", n, stateStr(&x))
			case 'S':
				fmt.Fprintf(&sb, " S")
				fmt.Fprintf(&sb, " %d", x.Sum32())
			case 'R':
				fmt.Fprintf(&sb, " R")
				x.Reset()
				fmt.Fprintf(&sb, " %s", stateStr(&x))
			}
		}()
	}
	fmt.Fprintln(out, sb.String())
}

func randTotal() uint64 {
	switch rng.Intn(6) {
	case 0:
		return 0
	case 1:
		return uint64(rng.Intn(16))
	case 2:
		return 16 + uint64(rng.Intn(1000))
	case 3:
		return ^uint64(0) - uint64(rng.Intn(40)) // wraps on the next write
	case 4:
		return uint64(rng.Uint32())<<32 | uint64(rng.Uint32())
	}
	return uint64(rng.Intn(1 << 20))
}

func xxhCases() {
	// one-shot: every length 0..300 (twice: exact capacity / spare capacity), patterns, larger
	for n := 0; n <= 300; n++ {
		one(randBytes(n), 0)
		one(randBytes(n), 1+rng.Intn(40))
	}
	for _, n := range []int{0, 1, 3, 4, 15, 16, 17, 31, 32, 33, 64, 255, 256} {
		b := make([]byte, n)
		one(b, 0)
		for i := range b {
			b[i] = 0xFF
		}
		one(b, 3)
	}
	for i := 0; i < 40; i++ {
		one(randBytes(301+rng.Intn(4000)), rng.Intn(3))
	}
	// streaming: every pending length 0..16 x write length 0..40, from an arbitrary state
	for m := 0; m <= 16; m++ {
		for n := 0; n <= 40; n++ {
			var v [4]uint32
			for i := range v {
				v[i] = rng.Uint32()
			}
			total := randTotal()
			if (m*41+n)%3 == 0 {
				total = uint64(16 + m + rng.Intn(100)) // a state that does not reset
			}
			session(v, total, randBytes(m), []op{{'S', nil, 0}, {'W', randBytes(n), rng.Intn(3)}, {'S', nil, 0}})
		}
	}
	// streaming from the zero value: random splits of one message, Sum32 after each piece
	for i := 0; i < 500; i++ {
		var ops []op
		k := 1 + rng.Intn(6)
		for j := 0; j < k; j++ {
			n := rng.Intn(50)
			switch rng.Intn(8) {
			case 0:
				n = 0
			case 1:
				n = 100 + rng.Intn(250)
			case 2:
				n = 16 * rng.Intn(5)
			}
			ops = append(ops, op{'W', randBytes(n), rng.Intn(2) * rng.Intn(20)})
			if rng.Intn(2) == 0 {
				ops = append(ops, op{'S', nil, 0})
			}
			if rng.Intn(12) == 0 {
				ops = append(ops, op{'R', nil, 0})
			}
		}
		ops = append(ops, op{'S', nil, 0})
		session([4]uint32{}, 0, nil, ops)
	}
	// streaming from arbitrary states
	for i := 0; i < 300; i++ {
		var v [4]uint32
		for j := range v {
			v[j] = rng.Uint32()
		}
		var ops []op
		for j := 0; j < 1+rng.Intn(4); j++ {
			ops = append(ops, op{'W', randBytes(rng.Intn(80)), 0}, op{'S', nil, 0})
		}
		session(v, randTotal(), randBytes(rng.Intn(17)), ops)
	}
}

// ---------------------------------------------------------------- decodeBlock

type sl struct {
	nilp               bool
	loc, off, len, cap int
}

func (s sl) String() string {
	if s.nilp {
		return "nil"
	}
	return fmt.Sprintf("%d,%d,%d,%d", s.loc, s.off, s.len, s.cap)
}

func (s sl) of(mems [3][]byte) []byte {
	if s.nilp {
		return nil
	}
	return mems[s.loc][s.off : s.off+s.len : s.off+s.cap]
}

var ndec int

// dec runs the real decoder on copies of the memories and prints the case.
func dec(mems [3][]byte, dst, src, dict sl) {
	var m [3][]byte
	for i := range mems {
		m[i] = append(make([]byte, 0, len(mems[i])), mems[i]...)
	}
	a, b, c := dst.of(m), src.of(m), dict.of(m) // a malformed case crashes the generator here
	res := func() (s string) {
		defer func() {
			if recover() != nil {
				s = "PANIC"
			}
		}()
		return fmt.Sprint(lz4block.VerifDecodeBlock(a, b, c))
	}()
	fmt.Fprintf(out, "D %s %s %s %v %v %v %s %s %s %s\n", hx(mems[0]), hx(mems[1]), hx(mems[2]), dst, src, dict, res, hx(m[0]), hx(m[1]), hx(m[2]))
	ndec++
}

// plain: dst (pre-filled with random bytes), src and dict each in their own memory.
func plain(block []byte, dstLen, dstSpare int, dict []byte, dictNil bool) {
	if dstLen < 0 {
		dstLen = 0
	}
	// dst is pre-filled with random bytes, so that stray writes and moved junk are visible
	d := randBytes(dstLen + dstSpare)
	srcSpare := rng.Intn(2) * rng.Intn(20)
	s := append(append([]byte{}, block...), randBytes(srcSpare)...)
	dl := sl{loc: 2, len: len(dict), cap: len(dict)}
	if dictNil {
		dl = sl{nilp: true}
	}
	dec([3][]byte{d, s, dict}, sl{loc: 0, len: dstLen, cap: dstLen + dstSpare}, sl{loc: 1, len: len(block), cap: len(s)}, dl)
}

func genInput(n int) []byte {
	b := make([]byte, n)
	switch rng.Intn(5) {
	case 0: // incompressible
		rng.Read(b)
	case 1: // small alphabet
		for i := range b {
			b[i] = byte('a' + rng.Intn(3))
		}
	case 2: // runs
		for i := 0; i < n; {
			c, l := byte(rng.Intn(256)), 1+rng.Intn(60)
			for j := 0; j < l && i < n; j++ {
				b[i] = c
				i++
			}
		}
	case 3: // repeated phrase with noise
		ph := randBytes(1 + rng.Intn(40))
		for i := range b {
			b[i] = ph[i%len(ph)]
			if rng.Intn(50) == 0 {
				b[i] ^= byte(1 + rng.Intn(255))
			}
		}
	default: // copies of earlier parts
		for i := 0; i < n; {
			if i > 8 && rng.Intn(2) == 0 {
				o, l := 1+rng.Intn(i), 4+rng.Intn(40)
				for j := 0; j < l && i < n; j++ {
					b[i] = b[i-o]
					i++
				}
			} else {
				b[i] = byte(rng.Intn(256))
				i++
			}
		}
	}
	return b
}

func compress(in []byte, hc bool) []byte {
	buf := make([]byte, lz4block.CompressBlockBound(len(in)))
	var n int
	var err error
	if hc {
		n, err = lz4block.CompressBlockHC(in, buf, 9)
	} else {
		n, err = lz4block.CompressBlock(in, buf)
	}
	if err != nil || n == 0 {
		return nil
	}
	return buf[:n]
}

func putLen(b []byte, n int) []byte {
	for ; n >= 255; n -= 255 {
		b = append(b, 255)
	}
	return append(b, byte(n))
}

// synth builds a block from random sequences; offsets may reach into a dictionary of dictLen
// bytes, overlap (offset < match length), or be invalid when wild is set.  It returns the block
// and the decoded size.
func synth(dictLen int, wild bool) ([]byte, int) {
	var b []byte
	di := 0
	nseq := 1 + rng.Intn(12)
	for k := 0; k < nseq; k++ {
		ll := rng.Intn(20)
		switch rng.Intn(10) {
		case 0:
			ll = 0
		case 1:
			ll = 15 + rng.Intn(600)
		case 2:
			ll = 14 + rng.Intn(4)
		}
		last := k == nseq-1
		ml := 4 + rng.Intn(20)
		switch rng.Intn(8) {
		case 0:
			ml = 19 + rng.Intn(600)
		case 1:
			ml = 17 + rng.Intn(4)
		case 2:
			ml = 4
		}
		tok := byte(0)
		if ll >= 15 {
			tok = 0xF0
		} else {
			tok = byte(ll) << 4
		}
		if !last {
			if ml-4 >= 15 {
				tok |= 0x0F
			} else {
				tok |= byte(ml - 4)
			}
		}
		b = append(b, tok)
		if ll >= 15 {
			b = putLen(b, ll-15)
		}
		b = append(b, randBytes(ll)...)
		di += ll
		if last {
			break
		}
		avail := di + dictLen
		off := 0
		if avail > 0 {
			off = 1 + rng.Intn(avail)
			switch rng.Intn(6) {
			case 0:
				off = 1 + rng.Intn(min(avail, 4)) // overlapping
			case 1:
				if di > 0 {
					off = 1 + rng.Intn(di) // inside the block
				}
			case 2:
				if dictLen > 0 { // starts in the dictionary
					off = di + 1 + rng.Intn(dictLen)
				}
			}
		}
		if off > 65535 {
			off = 65535
		}
		if wild && rng.Intn(3) == 0 {
			off = rng.Intn(65536)
		}
		b = append(b, byte(off), byte(off>>8))
		if ml-4 >= 15 {
			b = putLen(b, ml-4-15)
		}
		di += ml
	}
	return b, di
}

func min(a, b int) int {
	if a < b {
		return a
	}
	return b
}

func mutate(block []byte) []byte {
	b := append([]byte{}, block...)
	switch rng.Intn(5) {
	case 0:
		if len(b) > 0 {
			b = b[:rng.Intn(len(b))]
		}
	case 1:
		for k := 0; k < 1+rng.Intn(3) && len(b) > 0; k++ {
			b[rng.Intn(len(b))] = byte(rng.Intn(256))
		}
	case 2:
		b = append(b, randBytes(1+rng.Intn(20))...)
	case 3:
		if len(b) > 0 {
			b[rng.Intn(len(b))] ^= 1 << uint(rng.Intn(8))
		}
	default:
		if len(b) > 0 {
			i := rng.Intn(len(b))
			b[i] = []byte{0x00, 0x0F, 0xF0, 0xFF, 0x10, 0x1F}[rng.Intn(6)]
		}
	}
	return b
}

func smallSize() int {
	switch rng.Intn(10) {
	case 0:
		return rng.Intn(8)
	case 1, 2:
		return 300 + rng.Intn(1748)
	}
	return rng.Intn(300)
}

func decCases() {
	// the degenerate ones
	plain(nil, 0, 0, nil, true)
	plain(nil, 10, 0, nil, true)
	plain([]byte{0}, 0, 0, nil, true)
	plain([]byte{0}, 5, 2, nil, false)
	plain([]byte{0x10, 'x'}, 1, 0, nil, true)
	plain([]byte{0x10, 'x'}, 0, 0, nil, true)
	plain([]byte{0x10}, 4, 0, nil, true)
	plain([]byte{0xF0}, 4, 0, nil, true)
	plain([]byte{0x0F, 1, 0}, 40, 0, nil, true)
	plain([]byte{0x1F, 'a', 1, 0, 255, 255}, 40, 0, nil, true)
	// valid blocks from the compressors, all dst lengths around the true size
	for i := 0; i < 420; i++ {
		in := genInput(smallSize())
		blk := compress(in, i%3 == 0)
		if blk == nil {
			continue
		}
		plain(blk, len(in), rng.Intn(2)*rng.Intn(30), nil, rng.Intn(2) == 0)
		if i%6 == 0 {
			for d := -20; d <= 20; d++ {
				plain(blk, len(in)+d, (d+20)%3, nil, true)
			}
		} else {
			plain(blk, len(in)+rng.Intn(41)-20, rng.Intn(4), nil, true)
		}
		// mutated / truncated
		for k := 0; k < 2; k++ {
			plain(mutate(blk), len(in)+rng.Intn(9)-4, rng.Intn(3), nil, true)
		}
	}
	// the two shortcuts at their boundaries: literal length 1..14, match length 4..18, offset
	// around the match length, a short final literal run (so that the bytes the 16/18-byte
	// copies write past the sequence stay visible), dst lengths around the 18-byte window
	for ll := 1; ll <= 14; ll++ {
		for ml := 4; ml <= 18; ml++ {
			for _, off := range []int{ml - 1, ml, ml + 1, ll} {
				if off < 1 || off > ll {
					continue
				}
				k := rng.Intn(4)
				if ll+3+k <= 16 {
					k = 14 - ll + rng.Intn(3) // si+16 < len(src) holds at the first sequence
				}
				var b []byte
				b = append(b, byte(ll<<4|(ml-4)))
				b = append(b, randBytes(ll)...)
				b = append(b, byte(off), 0)
				b = append(b, byte(k<<4))
				b = append(b, randBytes(k)...)
				size := ll + ml + k
				plain(b, size, 0, nil, true)
				plain(b, size+rng.Intn(24), rng.Intn(2), nil, true)
			}
		}
	}
	// synthetic sequences, with dictionaries: nil, empty, 1..3 bytes, small, 64 KiB-ish
	dictLens := []int{0, 0, 1, 2, 3, 5, 17, 64, 300}
	for i := 0; i < 900; i++ {
		dl := dictLens[rng.Intn(len(dictLens))]
		wild := i%4 == 0
		blk, size := synth(dl, wild)
		dict := randBytes(dl)
		dictNil := dl == 0 && rng.Intn(2) == 0
		switch i % 5 {
		case 0:
			plain(blk, size, rng.Intn(3), dict, dictNil)
			plain(blk, size+rng.Intn(41)-20, rng.Intn(3), dict, dictNil)
		case 1:
			plain(blk, size+rng.Intn(7)-3, 0, dict, dictNil)
		case 2:
			plain(mutate(blk), size+rng.Intn(5), rng.Intn(2), dict, dictNil)
		case 3:
			plain(blk, size+18+rng.Intn(20), 0, dict, dictNil)
		default:
			// a dictionary shorter / longer than the one the offsets were drawn for
			plain(blk, size, 0, randBytes(rng.Intn(dl+2)), false)
		}
	}
	for _, dl := range []int{65535, 65536, 65537, 70000} {
		for k := 0; k < 6; k++ {
			blk, size := synth(dl, k == 5)
			plain(blk, size+rng.Intn(3)-1, k%2, randBytes(dl), false)
		}
	}
	// dictionary and dst in the same array (dict = the bytes in front of dst, as in streaming),
	// and dst overlapping the dictionary
	for i := 0; i < 150; i++ {
		dl := 1 + rng.Intn(200)
		blk, size := synth(dl, i%5 == 0)
		size += rng.Intn(5) - 2
		if size < 0 {
			size = 0
		}
		spare := rng.Intn(3)
		m0 := append(randBytes(dl), make([]byte, size+spare)...)
		dst := sl{loc: 0, off: dl, len: size, cap: size + spare}
		dict := sl{loc: 0, off: 0, len: dl, cap: dl + size + spare}
		if i%7 == 0 && dl > 4 && size+spare >= 2 { // overlapping
			dict = sl{loc: 0, off: 2, len: dl, cap: dl}
		}
		dec([3][]byte{m0, blk, nil}, dst, sl{loc: 1, len: len(blk), cap: len(blk)}, dict)
	}
	// src inside the same array as dst (in-place style decoding: src at the end)
	for i := 0; i < 60; i++ {
		in := genInput(rng.Intn(200))
		blk := compress(in, false)
		if blk == nil {
			continue
		}
		gap := rng.Intn(12)
		m0 := make([]byte, len(in)+gap)
		off := len(m0) - len(blk)
		if off < 0 {
			m0 = append(make([]byte, -off), m0...)
			off = 0
		}
		copy(m0[off:], blk)
		dec([3][]byte{m0, nil, nil}, sl{loc: 0, len: len(in), cap: len(in)}, sl{loc: 0, off: off, len: len(blk), cap: len(blk)}, sl{nilp: true})
	}
	// garbage
	for i := 0; i < 300; i++ {
		blk := randBytes(1 + rng.Intn(60))
		if i%3 == 0 {
			blk[0] = byte(rng.Intn(3)) << 4
		}
		plain(blk, rng.Intn(300), rng.Intn(2), randBytes(rng.Intn(4)), false)
	}
}

// ---------------------------------------------------------------- fast block compressor

// sparse prints the non-zero entries of a table as idx=val,idx=val ("-" when all are zero).
func sparse16(t *[65536]uint16) string {
	var sb strings.Builder
	for i, v := range t {
		if v != 0 {
			if sb.Len() > 0 {
				sb.WriteByte(',')
			}
			fmt.Fprintf(&sb, "%d=%d", i, v)
		}
	}
	if sb.Len() == 0 {
		return "-"
	}
	return sb.String()
}

func sparse32(t *[2048]uint32) string {
	var sb strings.Builder
	for i, v := range t {
		if v != 0 {
			if sb.Len() > 0 {
				sb.WriteByte(',')
			}
			fmt.Fprintf(&sb, "%d=%d", i, v)
		}
	}
	if sb.Len() == 0 {
		return "-"
	}
	return sb.String()
}

var cmpStats = map[string]int{}

// cmpCase runs the real (*Compressor).CompressBlock on the compressor c (whose table and bitmap are the
// state left by whatever happened before) and prints
//
//	C <table> <inUse> <src> <srcSpare> <dst> <dstSpare> <n> <err> <dst'> <table'> <inUse'>
//
// dst / dst' are the complete backing array of dst (length + spare capacity); err is 0 (nil),
// 1 (ErrInvalidSourceShortBuffer), 2 (any other error); a panic gives n = PANIC.
func cmpCase(c *lz4block.Compressor, src []byte, srcSpare int, dstFull []byte, dstLen int) {
	in := withSpare(src, srcSpare)
	for i := len(src); i < cap(in); i++ {
		in[:cap(in)][i] = 0
	}
	t0, u0 := sparse16(c.VerifTable()), sparse32(c.VerifInUse())
	d := append([]byte{}, dstFull...)
	before := hx(d)
	n, code := "", 0
	func() {
		defer func() {
			if recover() != nil {
				n = "PANIC"
			}
		}()
		r, err := c.CompressBlock(in, d[:dstLen:len(d)])
		n = fmt.Sprint(r)
		switch {
		case err == nil:
		case err == lz4errors.ErrInvalidSourceShortBuffer:
			code = 1
		default:
			code = 2
		}
		switch {
		case err != nil:
			cmpStats["error"]++
		case r == 0:
			cmpStats["zero,nil"]++
		default:
			cmpStats["compressed"]++
		}
	}()
	if n == "PANIC" {
		cmpStats["panic"]++
	}
	fmt.Fprintf(out, "C %s %s %s %d %s %d %s %d %s %s %s\n", t0, u0, hx(src), srcSpare, before, len(d)-dstLen, n, code,
		hx(d), sparse16(c.VerifTable()), sparse32(c.VerifInUse()))
}

// fresh compressor, dst of the given length with random prior contents and spare capacity
func cmpFresh(src []byte, dstLen, dstSpare int) {
	cmpCase(new(lz4block.Compressor), src, rng.Intn(3), randBytes(dstLen+dstSpare), dstLen)
}

// genSrc: the source families of the compressor cases.
func genSrc(kind, n int) []byte {
	b := make([]byte, n)
	switch kind {
	case 0: // incompressible
		rng.Read(b)
	case 1: // text-like: words from a small vocabulary
		words := []string{"the ", "quick ", "brown ", "fox ", "jumps ", "over ", "lazy ", "dog ", "lz4 ", "block ", "compress", "ion ", "\n", "a ", "of "}
		for i := 0; i < n; {
			w := words[rng.Intn(len(words))]
			i += copy(b[i:], w)
		}
	case 2: // periodic, period 1..40, a little noise
		ph := randBytes(1 + rng.Intn(40))
		noise := rng.Intn(3) == 0
		for i := range b {
			b[i] = ph[i%len(ph)]
			if noise && rng.Intn(60) == 0 {
				b[i] ^= byte(1 + rng.Intn(255))
			}
		}
	case 3: // zeros (or one repeated byte)
		c := byte(0)
		if rng.Intn(3) == 0 {
			c = byte(rng.Intn(256))
		}
		for i := range b {
			b[i] = c
		}
	case 4: // small alphabet
		for i := range b {
			b[i] = byte('a' + rng.Intn(3))
		}
	case 5: // incompressible head, then copies of it: long literal runs followed by matches
		h := n / 2
		rng.Read(b[:h])
		for i := h; i < n; i++ {
			b[i] = b[i-h]
		}
	default:
		return genInput(n)
	}
	return b
}

func cmpSize() int {
	switch rng.Intn(12) {
	case 0:
		return rng.Intn(20)
	case 1:
		return 1000 + rng.Intn(3100)
	case 2:
		return 300 + rng.Intn(700)
	}
	return 14 + rng.Intn(300)
}

// cmpFarCases: candidates at distance winSize-1, winSize, winSize+1 (the `offset >= winSize` test) and a
// position >= 64 KiB (the `si &^ winMask` arithmetic of get).  8 distinctive bytes at 0, zeros up to the
// distance, the same 8 bytes again: the candidate for the second occurrence is position 0.
// These four cases cost the list-based evaluator about a minute each (reads at index ~65536 are O(index)).
func cmpFarCases() {
	for _, dist := range []int{65535, 65536, 65537, 65536 + 300} {
		src := make([]byte, dist+8+24)
		copy(src, "ABCDEFGH")
		copy(src[dist:], "ABCDEFGH")
		copy(src[dist+8:], "the tail of the block...")
		bound := lz4block.CompressBlockBound(len(src))
		cmpCase(new(lz4block.Compressor), src, 0, randBytes(bound+1), bound)
	}
}

func cmpCases() {
	// 1. every source length 0..40
	for n := 0; n <= 40; n++ {
		for kind := 0; kind < 5; kind++ {
			src := genSrc(kind, n)
			bound := lz4block.CompressBlockBound(n)
			cmpFresh(src, bound, rng.Intn(4))
			cmpFresh(src, bound-1-rng.Intn(3), rng.Intn(2)) // not compressible: the (0, nil) exits
			cmpFresh(src, rng.Intn(bound+1), rng.Intn(3))
		}
	}
	// 2. sources of all families, up to ~4 KiB; dst at the bound, below it, anywhere
	for i := 0; i < 700; i++ {
		n := cmpSize()
		src := genSrc(i%8, n)
		bound := lz4block.CompressBlockBound(n)
		switch i % 4 {
		case 0, 1:
			cmpFresh(src, bound+rng.Intn(3), rng.Intn(5))
		case 2:
			cmpFresh(src, bound-1-rng.Intn(1+bound/4), rng.Intn(3))
		default:
			cmpFresh(src, rng.Intn(bound+4), rng.Intn(3))
		}
	}
	// 3. every destination length 0 .. bound+3 on a few sources (all error paths and both (0, nil) exits)
	for k, n := range []int{13, 14, 15, 19, 33, 64, 150, 290, 310} {
		for _, kind := range []int{k % 6, 5} {
			src := genSrc(kind, n)
			bound := lz4block.CompressBlockBound(n)
			for dl := 0; dl <= bound+3; dl++ {
				cmpFresh(src, dl, dl%3)
			}
		}
	}
	// a long literal run (>= 15+255) and a long match (>= 19+255) with every dst length near the places
	// where the length bytes are written
	{
		src := append(randBytes(600), make([]byte, 700)...)
		src = append(src, randBytes(20)...)
		bound := lz4block.CompressBlockBound(len(src))
		for dl := 590; dl <= 640; dl++ {
			cmpFresh(src, dl, 1)
		}
		cmpFresh(src, bound, 0)
	}
	// 4. reused objects: the table and bitmap left by previous calls on other sources
	for i := 0; i < 260; i++ {
		c := new(lz4block.Compressor)
		calls := 2 + rng.Intn(3)
		var prev []byte
		for k := 0; k < calls; k++ {
			n := cmpSize()
			if n > 1500 {
				n = 14 + rng.Intn(600)
			}
			src := genSrc(rng.Intn(8), n)
			if k > 0 && rng.Intn(3) == 0 && len(prev) > 20 {
				// a variation of the previous source: stale entries whose hashes come up again
				src = append([]byte{}, prev...)
				for j := 0; j < 1+rng.Intn(4); j++ {
					src[rng.Intn(len(src))] ^= byte(1 + rng.Intn(255))
				}
				if rng.Intn(2) == 0 {
					src = src[rng.Intn(len(src)/2):]
				}
			}
			prev = src
			bound := lz4block.CompressBlockBound(len(src))
			dl := bound
			if rng.Intn(4) == 0 {
				dl = rng.Intn(bound + 2)
			}
			cmpCase(c, src, rng.Intn(2), randBytes(dl+rng.Intn(3)), dl)
		}
	}
	// a table full of arbitrary entries with an arbitrary bitmap (reset must clear the bitmap only)
	for i := 0; i < 6; i++ {
		c := new(lz4block.Compressor)
		t, u := c.VerifTable(), c.VerifInUse()
		for j := range t {
			t[j] = uint16(rng.Intn(65536))
		}
		for j := range u {
			u[j] = rng.Uint32()
		}
		src := genSrc(i, 100+rng.Intn(400))
		cmpCase(c, src, 0, randBytes(lz4block.CompressBlockBound(len(src))+2), lz4block.CompressBlockBound(len(src)))
	}
	var keys []string
	for k, v := range cmpStats {
		keys = append(keys, fmt.Sprintf("%s=%d", k, v))
	}
	sort.Strings(keys)
	fmt.Fprintf(os.Stderr, "cases cmp: outcome mix: %s\n", strings.Join(keys, " "))
}

func main() {
	defer out.Flush()
	if len(os.Args) != 2 {
		fmt.Fprintln(os.Stderr, "usage: cases xxh|dec|cmp|cmpfar")
		os.Exit(2)
	}
	switch os.Args[1] {
	case "xxh":
		xxhCases()
	case "dec":
		decCases()
	case "cmp":
		cmpCases()
	case "cmpfar":
		cmpFarCases()
	default:
		os.Exit(2)
	}
}
