#!/bin/bash
# seeded_cmp.sh <repo-dir>
# Liveness of the tie for the fast block compressor (GenCompressBody.v): six deliberate edits of
# internal/lz4block/block.go are seeded, one at a time, into a scratch copy of the sources; the scratch
# copy is re-translated and the translated Gallina is compared with the behaviour of the ORIGINAL Go code
# of <repo-dir> (run.sh <repo-dir> <scratch>, compressor cases only).  Every edit must show up as a
# mismatch (or as an aborted translation).  Exit status 0 iff all six do.
# SEEDED_ONLY=C6 runs only the edits whose name starts with C6.
set -u
REPO=$(cd "$1" && pwd) || exit 2
HERE=$(cd "$(dirname "$0")" && pwd)
W=${SEEDED_WORK:-$(mktemp -d /tmp/bodyseedc.XXXXXX)}
mkdir -p "$W"
B=internal/lz4block/block.go
# name | case kinds | python expression transforming the source text s
edits=(
 "C1 'offset >= winSize' -> 'offset > winSize' (first candidate)|cmpfar|s.replace('if offset <= 0 || offset >= winSize || uint32(match) !=', 'if offset <= 0 || offset > winSize || uint32(match) !=', 1)"
 "C2 match extension 'for si+8 <= sn' -> 'for si+8 < sn'|cmp|s.replace('for si+8 <= sn {', 'for si+8 < sn {', 1)"
 "C3 literal length 'if lLen < 0xF' -> 'if lLen <= 0xF' (in the loop)|cmp|s.replace('if lLen < 0xF {', 'if lLen <= 0xF {', 1)"
 "C4 dropped 'c.put(h2, si+1)'|cmp|s.replace('c.put(h2, si+1)\n', '\n', 1)"
 "C5 'mfLimit = 10 + minMatch' -> '9 + minMatch'|cmp|s.replace('mfLimit = 10 + minMatch', 'mfLimit = 9 + minMatch', 1)"
 "C6 'offset >= winSize' -> 'offset >= winSize-1' (all three candidates; only a match at distance 65535 shows it)|cmpfar|s.replace('offset >= winSize ||', 'offset >= winSize-1 ||')"
)
bad=0
i=0
for e in "${edits[@]}"; do
  i=$((i + 1))
  name=${e%%|*}; rest=${e#*|}; kinds=${rest%%|*}; expr=${rest#*|}
  case "$name" in ${SEEDED_ONLY:-}*) ;; *) continue ;; esac
  S="$W/scratch$i"
  rm -rf "$S"; mkdir -p "$S"
  (cd "$REPO" && tar cf - --exclude=.git .) | (cd "$S" && tar xf -)
  python3 - "$S/$B" "$expr" <<'PY' || { echo "seeded: $name: the edit did not apply" >&2; bad=1; continue; }
import sys
p, expr = sys.argv[1], sys.argv[2]
s = open(p).read()
t = eval(expr)
if t == s: sys.exit(1)
open(p, 'w').write(t)
PY
  (cd "$S" && gofmt -l "$B" >/dev/null) || { echo "seeded: $name: edited file does not parse" >&2; bad=1; continue; }
  out=$(BODYTEST_KINDS="$kinds" BODYTEST_WORK="$W/work$i" BODYTEST_SHOW=2 "$HERE/run.sh" "$REPO" "$S" 2>&1); rc=$?
  summary=$(echo "$out" | grep -E 'bodytest: [a-z]+: cases=' | sed 's/bodytest: //; s/ (lines.*//' | tr '\n' ';')
  if [ $rc -eq 0 ]; then echo "seeded: $name: NOT DETECTED  [$summary]"; bad=1
  else echo "seeded: $name: detected (rc=$rc)  [$summary]"; echo "$out" | grep -E '^MISMATCH|aborted' | head -2 | cut -c1-220 | sed 's/^/    /'; fi
  diff <(cd "$REPO" && cat "$B") "$S/$B" | grep '^[<>]' | sed 's/^/    /'
done
[ -n "${SEEDED_WORK:-}" ] || rm -rf "$W"
exit $bad
