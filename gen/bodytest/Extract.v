(* Extract.v — extraction of the translated function bodies for gen/bodytest (run.sh).
   ExtrOcamlBasic only: Z, positive and nat stay Coq's inductives. *)
From Coq Require Extraction.
From Coq Require Import ExtrOcamlBasic.
From LZ4V Require Import GoT GenXXHBody GenDecodeBody GenCompressBody.
Set Extraction Output Directory ".".
Recursive Extraction Library GenXXHBody.
Recursive Extraction Library GenDecodeBody.
Recursive Extraction Library GenCompressBody.
