#!/bin/bash
# run.sh <repo-dir> [<translated-repo-dir>]
#
# Validation of the body translator (gen/body.go): the Gallina translated from
# <translated-repo-dir> (default: <repo-dir>) is extracted to OCaml and run on a few thousand
# cases; the expected observables come from the REAL Go functions of <repo-dir> (built with
# -tags verif,noasm).  Exit status 0 iff there is no mismatch.  Nothing is written outside the
# work directory ($BODYTEST_WORK, default: a fresh mktemp -d, removed on success).
#
# Environment: BODYTEST_WORK (work dir, kept), BODYTEST_JOBS (parallel shards, default nproc),
# BODYTEST_KINDS (default "xxh dec cmp cmpfar": xxh32, decodeBlock, the fast block compressor, and
# four 64 KiB compressor cases that take about a minute each in the list-based model).
set -u
[ $# -ge 1 ] || { echo "usage: run.sh <repo-dir> [<translated-repo-dir>]" >&2; exit 2; }
REPO=$(cd "$1" && pwd) || exit 2
TREPO=$(cd "${2:-$1}" && pwd) || exit 2
HERE=$(cd "$(dirname "$0")" && pwd)
GEN=$(dirname "$HERE")
COQ=$(dirname "$GEN")/coq
JOBS=${BODYTEST_JOBS:-$(nproc)}
export GOFLAGS=-mod=mod GOPROXY=off GOSUMDB=off GOTOOLCHAIN=local
if [ -n "${BODYTEST_WORK:-}" ]; then W=$BODYTEST_WORK; KEEP=1; mkdir -p "$W"; else W=$(mktemp -d /tmp/bodytest.XXXXXX); KEEP=0; fi
fail() { echo "bodytest: $*" >&2; echo "bodytest: work directory kept: $W" >&2; exit 2; }
rm -rf "$W/coq" "$W/ml" "$W/cases" "$W/out"; mkdir -p "$W/coq" "$W/ml" "$W/cases" "$W/out"

# 1. translator, from source; translate <translated-repo-dir>
(cd "$GEN" && go build -o "$W/gen" .) || fail "building gen failed"
"$W/gen" "$TREPO" "$W/coq" > "$W/out/gen.log" 2>&1 || { cat "$W/out/gen.log" >&2; fail "translation aborted"; }
cp "$COQ/GoT.v" "$W/coq/"
T0=$(date +%s.%N)
for f in GoT GenXXHBody GenDecodeBody GenCompressBody; do
  (cd "$W/coq" && timeout 600 coqc -Q . LZ4V $f.v) > "$W/out/coqc-$f.log" 2>&1 || { cat "$W/out/coqc-$f.log" >&2; fail "coqc $f.v failed"; }
done
T1=$(date +%s.%N)
if grep -nE '\b(Axiom|Parameter|Admitted|admit)\b' "$W/coq/GoT.v" "$W/coq/GenXXHBody.v" "$W/coq/GenDecodeBody.v" "$W/coq/GenCompressBody.v" | grep -v '^[^:]*:[0-9]*: *(\*' ; then fail "axiom / admitted found"; fi

# 2. extraction and the evaluator
(cd "$W/ml" && timeout 600 coqc -Q ../coq LZ4V "$HERE/Extract.v" -o "$W/ml/Extract.vo") > "$W/out/extract.log" 2>&1 || { cat "$W/out/extract.log" >&2; fail "extraction failed"; }
cp "$HERE/eval.ml" "$W/ml/"
(cd "$W/ml" && ocamlfind ocamlopt -O3 -w -a $(ocamlfind ocamldep -sort *.mli *.ml) -o "$W/eval" 2>/dev/null \
   || ocamlfind ocamlopt -w -a $(ocamlfind ocamldep -sort *.mli *.ml) -o "$W/eval") > "$W/out/ocaml.log" 2>&1 || { cat "$W/out/ocaml.log" >&2; fail "ocaml build failed"; }

# 3. the cases, from the real code of <repo-dir>
cp "$HERE/cases/main.go" "$W/cases/main.go"
cat > "$W/cases/go.mod" <<MOD
module github.com/pierrec/lz4/v4/bodytest

go 1.21

require github.com/pierrec/lz4/v4 v4.0.0

replace github.com/pierrec/lz4/v4 => $REPO
MOD
[ -f "$REPO/go.sum" ] && cp "$REPO/go.sum" "$W/cases/go.sum"
(cd "$W/cases" && go build -tags verif,noasm -o "$W/casesbin" .) > "$W/out/gobuild.log" 2>&1 || { cat "$W/out/gobuild.log" >&2; fail "building the case generator failed"; }
KINDS=${BODYTEST_KINDS:-xxh dec cmp cmpfar}
for kind in $KINDS; do
  "$W/casesbin" $kind > "$W/out/$kind.cases" || fail "case generation ($kind) failed"
done
# the tables of the compressor are lists of 65536 elements; List.firstn / app are not tail recursive
ulimit -s unlimited 2>/dev/null || ulimit -s 1000000 2>/dev/null || true

# 4. evaluate in shards
status=0
for kind in $KINDS; do
  pids=()
  TK0=$(date +%s.%N)
  for ((k = 0; k < JOBS; k++)); do
    "$W/eval" "$W/out/$kind.cases" $k $JOBS > "$W/out/$kind.$k.res" 2>&1 &
    pids+=($!)
  done
  for p in "${pids[@]}"; do wait $p; rc=$?; [ $rc -eq 0 ] || { [ $rc -eq 1 ] || echo "bodytest: evaluator crashed ($kind, rc=$rc)" >&2; status=1; }; done
  cases=0; mis=0
  for ((k = 0; k < JOBS; k++)); do
    l=$(grep '^cases=' "$W/out/$kind.$k.res" | tail -1)
    [ -n "$l" ] || { echo "bodytest: shard $k of $kind gave no summary:" >&2; tail -3 "$W/out/$kind.$k.res" >&2; status=1; continue; }
    c=${l#cases=}; c=${c%% *}; m=${l##*mismatches=}
    cases=$((cases + c)); mis=$((mis + m))
  done
  grep -h '^MISMATCH' "$W/out/$kind".*.res | sort -t' ' -k3 -n | head -${BODYTEST_SHOW:-20}
  echo "bodytest: $kind: cases=$cases mismatches=$mis (lines in file: $(wc -l < "$W/out/$kind.cases")) evaluation $(printf '%.0f' "$(echo "$(date +%s.%N) - $TK0" | bc)")s"
  [ "$mis" -eq 0 ] || status=1
  [ "$cases" -eq "$(wc -l < "$W/out/$kind.cases")" ] || { echo "bodytest: $kind: not every case was evaluated" >&2; status=1; }
done
printf 'bodytest: coqc GoT+GenXXHBody+GenDecodeBody+GenCompressBody: %.1fs\n' "$(echo "$T1 - $T0" | bc)"
if [ $status -eq 0 ] && [ $KEEP -eq 0 ]; then rm -rf "$W"; else echo "bodytest: work directory: $W"; fi
exit $status
