#!/bin/bash
# seeded.sh <repo-dir>
# Liveness of the tie: five deliberate edits are seeded, one at a time, into a scratch copy of
# the Go sources; the scratch copy is re-translated and the translated Gallina is compared with
# the behaviour of the ORIGINAL Go code of <repo-dir> (run.sh <repo-dir> <scratch>).  Every edit
# must show up as a mismatch (or as an aborted translation).  Exit status 0 iff all five do.
set -u
REPO=$(cd "$1" && pwd) || exit 2
HERE=$(cd "$(dirname "$0")" && pwd)
W=${SEEDED_WORK:-$(mktemp -d /tmp/bodyseed.XXXXXX)}
mkdir -p "$W"
X=internal/xxh32/xxh32zero.go
D=internal/lz4block/decode_other.go
# name | file | python expression transforming the source text s
edits=(
 "E1 checksumZeroGo: 4-byte tail loop 'p <= n' -> 'p < n'|$X|s.replace('for n := n - 4; p <= n; p += 4 {', 'for n := n - 4; p < n; p += 4 {', 2).replace('for n := n - 4; p < n; p += 4 {', 'for n := n - 4; p <= n; p += 4 {', 1)"
 "E2 XXHZero.Write: 'if n < r' -> 'if n <= r'|$X|s.replace('if n < r {', 'if n <= r {', 1)"
 "E3 decodeBlock: dropped 'si++' in the match-length extension loop|$D|s[:s.rindex('si++')] + s[s.rindex('si++')+4:]"
 "E4 decodeBlock shortcut 2: 'mLen <= offset' -> 'mLen < offset'|$D|s.replace('mLen <= offset && offset < di', 'mLen < offset && offset < di', 1)"
 "E5 XXHZero.Sum32: 'xxh.totalLen >= 16' -> '> 16'|$X|s.replace('if xxh.totalLen >= 16 {', 'if xxh.totalLen > 16 {', 1)"
)
bad=0
i=0
for e in "${edits[@]}"; do
  i=$((i + 1))
  name=${e%%|*}; rest=${e#*|}; file=${rest%%|*}; expr=${rest#*|}
  S="$W/scratch$i"
  rm -rf "$S"; mkdir -p "$S"
  (cd "$REPO" && tar cf - --exclude=.git .) | (cd "$S" && tar xf -)
  python3 - "$S/$file" "$expr" <<'PY' || { echo "seeded: $name: the edit did not apply" >&2; bad=1; continue; }
import sys
p, expr = sys.argv[1], sys.argv[2]
s = open(p).read()
t = eval(expr)
if t == s: sys.exit(1)
open(p, 'w').write(t)
PY
  (cd "$S" && gofmt -l "$file" >/dev/null) || { echo "seeded: $name: edited file does not parse" >&2; bad=1; continue; }
  out=$(BODYTEST_KINDS="${BODYTEST_KINDS:-xxh dec}" BODYTEST_WORK="$W/work$i" BODYTEST_SHOW=2 "$HERE/run.sh" "$REPO" "$S" 2>&1); rc=$?
  summary=$(echo "$out" | grep -E 'bodytest: (xxh|dec): cases=' | sed 's/bodytest: //; s/ (lines.*//' | tr '\n' ';')
  if [ $rc -eq 0 ]; then echo "seeded: $name: NOT DETECTED  [$summary]"; bad=1
  else echo "seeded: $name: detected (rc=$rc)  [$summary]"; echo "$out" | grep -E '^MISMATCH|aborted' | head -2 | cut -c1-220 | sed 's/^/    /'; fi
  diff <(cd "$REPO" && cat "$file") "$S/$file" | grep '^[<>]' | sed 's/^/    /'
done
[ -n "${SEEDED_WORK:-}" ] || rm -rf "$W"
exit $bad
