L = open('/tmp/agPD/coq/GenDecodeBody.v').read().split('\n')
def rng(a,b,strip_tail=''):
    t = '\n'.join(L[a-1:b])
    t = t.rstrip()
    if strip_tail:
        assert t.endswith(strip_tail), (a,b,t[-40:],strip_tail)
        t = t[:-len(strip_tail)].rstrip()
    return t
def cond(line, prefix, suffix):
    t = L[line-1].strip()
    assert t.startswith(prefix) and t.endswith(suffix), t
    return t[len(prefix):len(t)-len(suffix)].strip()
out=[]
def D(name, args, body):
    out.append('Definition %s %s: stmt :=\n%s.\n' % (name, args, body))
D('p_tok','(k : stmt) ', rng(284,289) + '\n k')
D('p_sc2b','', rng(319,326,') skip) skip) skip) ('))
c317 = cond(317,'ite','(')
c312 = cond(312,'ite','(')
D('p_sc2','(fuel : nat) ', rng(306,311) + '\n ite %s (\n %s\n ite %s p_sc2b skip) skip' % (c312, rng(314,316), c317))
c304 = cond(304,'ite','(')
D('p_sc','(fuel : nat) ', rng(296,303) + '\n ite %s (p_sc2 fuel) skip' % c304)
D('p_litloop_body','', rng(332,344,') skip ;;'))
D('p_litloop','(fuel : nat) ', 'loop fuel (fun _ => true) p_litloop_body skip')
D('p_litcopy','', rng(346,351,') ('))
c294 = cond(294,'ite','(')
c328 = cond(328,'ite','(')
c290 = cond(290,'ite','(')
D('p_lits','(fuel : nat) ', 'ite %s (catch_brk (ite %s (p_sc fuel) (ite %s (p_litloop fuel ;; p_litcopy) p_litcopy))) skip' % (c290,c294,c328))
D('m_A','(fuel : nat) (k : stmt) ', rng(361,382) + '\n k')
D('m_loop_body','', rng(388,400,') skip) skip ;;'))
c384 = cond(384,'ite','(')
D('m_loop','(fuel : nat) ', 'ite %s (loop fuel (fun _ => true) m_loop_body skip) skip' % c384)
D('m_dict','', rng(402,415,';;'))
D('m_exp','(k : stmt) ', rng(417,418) + '\n k')
c426 = L[426-1].strip()
assert c426.startswith('loop fuel ') and c426.endswith('(')
c426 = c426[len('loop fuel '):-1].strip()
D('m_dbl_body','', rng(428,429,') ('))
D('m_dbl_post','', rng(431,431,') ;;'))
c420 = cond(420,'ite','(')
D('m_dbl','(fuel : nat) ', 'ite %s (\n%s\n loop fuel %s m_dbl_body m_dbl_post ;;\n%s) skip' % (c420, rng(422,425), c426, rng(433,435,') skip ;;')))
D('m_fin','', rng(437,438,') skip ;;'))
D('p_match','(fuel : nat) ', 'm_A fuel (m_loop fuel ;; m_dict ;; m_exp (m_dbl fuel ;; m_fin))')
D('p_body','(fuel : nat) ', 'p_tok (p_lits fuel ;; p_match fuel)')
c282 = L[282-1].strip()
c282 = c282[len('loop fuel '):-1].strip()
D('p_main','(fuel : nat) ', 'loop fuel %s (p_body fuel) skip' % c282)
D('p_inner','(fuel : nat) ', rng(280,280) + '\n p_main fuel ;;\n' + rng(440,440,').'))
D('p_all','(fuel : nat) ', rng(268,276) + '\n recover_with (fun s => set_decodeBlock_ret (-2) s) (p_inner fuel)')
out.append('Lemma decodeBlock_decomp fuel : lz4block_decodeBlock fuel = p_all fuel.\nProof. reflexivity. Qed.\n')
hdr = '''(* GenDecodeBodyDecomp.v — names for the pieces of the generated body of lz4block_decodeBlock
   (GenDecodeBody.v).  Produced by /tmp/agPD/gen_decomp.py by cutting the text of GenDecodeBody.v at
   fixed line numbers; nothing here is trusted: decodeBlock_decomp (by reflexivity) checks that the
   pieces reassemble to the generated function, so a change of the generated file that moves the
   cuts makes this file fail to compile.
     p_tok k      token byte, si++, lLen                       (continuation-passing)
     p_lits       the literal part: shortcut 1 (p_sc, with shortcut 2 = p_sc2 / p_sc2b inside),
                  length-extension loop (p_litloop), bounds-checked copy (p_litcopy)
     p_match      from `mLen := b & 0xF` to the end of the loop body: m_A (end-of-block tests, offset),
                  m_loop (match-length extension), m_dict (dictionary part), m_exp (expanded := ...),
                  m_dbl (doubling copy: m_dbl_body / m_dbl_post), m_fin (final copy)
     p_body, p_main (the loop), p_inner (what recover_with protects), p_all *)
From Coq Require Import ZArith List Lia Bool Arith.
From LZ4V Require Import GoT GenDecodeBody.
Import ListNotations.
Open Scope Z_scope.
Open Scope got_scope.

'''
open('/tmp/agPD/coq/GenDecodeBodyDecomp.v','w').write(hdr + '\n'.join(out))
