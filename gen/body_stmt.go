// body_stmt.go: Go statements -> GoT statements (state -> outcome).
package main

import (
	"fmt"
	"go/ast"
	"go/token"
	"go/types"
	"strings"
)

func pad(ind int) string { return strings.Repeat("  ", ind) }

// guarded prefixes a statement term with its panic guard.
func guarded(ind int, guards []string, code string) string {
	if len(guards) == 0 {
		return pad(ind) + code
	}
	return pad(ind) + "guard (fun s => " + conj(guards) + ") (\n" + pad(ind) + code + ")"
}

func joinItems(ind int, items []string) string {
	if len(items) == 0 {
		return pad(ind) + "skip"
	}
	return strings.Join(items, " ;;\n")
}

type lval struct {
	kind        kind
	guards      []string // evaluation of the operands (phase 1)
	guards2     []string // the store itself (phase 2): index range, nil pointer
	get         string
	set         func(v, st string) string
	memread     bool // evaluating the operands or the current value reads memory
	plain       bool // local variable or blank: no guards, not observable by callees
	scalarField bool
	blank       bool
	typ         types.Type
	ptrN        int64
	loc         string
	arrN        int64
}

func (t *btr) lvalue(e ast.Expr) lval {
	switch e := unparen(e).(type) {
	case *ast.Ident:
		if e.Name == "_" {
			return lval{blank: true, plain: true, set: func(v, st string) string { return st }}
		}
		v := t.vars[t.objOf(e)]
		if v == nil {
			t.abort(e, "assignment to %s, which is not a variable of a translated function", e.Name)
		}
		switch v.kind {
		case kZ, kBool, kSlice:
			f := v.field
			return lval{kind: v.kind, get: "(" + f + " s)", plain: true, typ: v.obj.Type(), ptrN: v.ptrN,
				set: func(val, st string) string { return "(set_" + f + " " + val + " " + st + ")" }}
		case kArray:
			f := v.field
			return lval{kind: kArray, get: "(" + f + " s)", plain: true, typ: v.obj.Type(), loc: v.loc, arrN: v.arrN, ptrN: -1,
				set: func(val, st string) string { return "(set_" + f + " " + val + " " + st + ")" }}
		}
		t.abort(e, "assignment to %s (receiver / error result)", e.Name)
	case *ast.SelectorExpr:
		x := t.selector(e)
		named := t.cur.recv.obj.Type().(*types.Pointer).Elem().(*types.Named)
		sf := t.structOf(named).byName[e.Sel.Name]
		f := sf.field
		return lval{kind: x.kind, get: x.term, memread: true, scalarField: x.kind != kArray, typ: sf.typ, loc: sf.loc, arrN: sf.arrN, ptrN: -1,
			set: func(val, st string) string { return "(set_" + f + " " + val + " " + st + ")" }}
	case *ast.IndexExpr:
		x := t.expr(e.X)
		i := t.expr(e.Index)
		if i.kind != kZ {
			t.abort(e, "non-integer index")
		}
		_, idxConst := t.constTerm(t.info.Types[e.Index])
		lv := lval{kind: kZ, typ: t.info.Types[e].Type, memread: true, ptrN: -1}
		lv.guards = addGuards(addGuards(nil, x.guards...), i.guards...)
		var xs string
		switch {
		case x.kind == kSlice && x.ptrN < 0:
			xs = x.term
			lv.guards2 = addGuards(nil, fmt.Sprintf("sl_idx_ok %s %s", xs, i.term))
		case x.kind == kSlice:
			xs = x.term
			lv.guards2 = addGuards(nil, "negb (s_nil "+xs+")")
			if !idxConst {
				lv.guards2 = addGuards(lv.guards2, fmt.Sprintf("arr_idx_ok %d %s", x.ptrN, i.term))
			}
		case x.kind == kArray:
			xs = fmt.Sprintf("(sl_array %s %d)", x.loc, x.arrN)
			if !idxConst {
				lv.guards2 = addGuards(nil, fmt.Sprintf("arr_idx_ok %d %s", x.arrN, i.term))
			}
		default:
			t.abort(e, "store into unsupported operand (map?)")
		}
		lv.get = fmt.Sprintf("(sget %s %s s)", xs, i.term)
		it := i.term
		lv.set = func(val, st string) string { return fmt.Sprintf("(sset %s %s %s %s)", xs, it, val, st) }
		return lv
	case *ast.StarExpr:
		t.abort(e, "store through a pointer dereference")
	}
	t.abort(e, "unsupported assignment target %T", e)
	return lval{}
}

// rvalue converts a value to what is stored in a variable of kind k.
func (t *btr) rvalue(n ast.Node, lv lval, v val) string {
	if lv.blank {
		return v.term
	}
	switch lv.kind {
	case kZ, kBool:
		if v.kind != lv.kind {
			t.abort(n, "assignment of mismatching kinds")
		}
		return v.term
	case kSlice:
		if v.kind == kNil {
			return "nilv"
		}
		if v.kind != kSlice || v.ptrN != lv.ptrN {
			t.abort(n, "assignment of mismatching slice / pointer kinds")
		}
		return v.term
	case kArray:
		if v.kind != kArray || v.arrN != lv.arrN {
			t.abort(n, "array assignment from a non-array")
		}
		return v.term // the list itself: an array copy
	}
	t.abort(n, "unsupported assignment")
	return ""
}

// stripConv peels parentheses and integer conversions off e; wrap re-applies them to a term.
func (t *btr) stripConv(e ast.Expr) (core ast.Expr, wrap func(string) string) {
	wrap = func(s string) string { return s }
	for {
		switch x := e.(type) {
		case *ast.ParenExpr:
			e = x.X
			continue
		case *ast.CallExpr:
			if ftv, ok := t.info.Types[x.Fun]; ok && ftv.IsType() && len(x.Args) == 1 {
				src, dst := t.info.Types[x.Args[0]].Type, ftv.Type
				if _, _, ok := width(src); ok {
					outer := wrap
					node := x
					wrap = func(s string) string { return outer(t.conv(node, src, dst, s)) }
					e = x.Args[0]
					continue
				}
			}
		}
		return e, wrap
	}
}

// hoisted describes a call executed as its own statement(s).
type hoisted struct {
	pre    []string // statements to run first (parameter passing, the call)
	guards []string // guards of the arguments (in front of the first statement)
	result string   // term of the result (over s)
	post   string   // copy: the state after the effect, as a term over s ("" for calls: already done)
	isCopy bool
}

func (t *btr) isCopy(c *ast.CallExpr) bool {
	if id, ok := unparen(c.Fun).(*ast.Ident); ok {
		if b, ok := t.info.Uses[id].(*types.Builtin); ok && b.Name() == "copy" {
			return true
		}
	}
	return false
}

func (t *btr) hoist(c *ast.CallExpr, ind int, needResult bool) hoisted {
	if t.isCopy(c) {
		d, x := t.expr(c.Args[0]), t.expr(c.Args[1])
		if d.kind != kSlice || x.kind != kSlice || d.ptrN >= 0 || x.ptrN >= 0 {
			t.abort(c, "copy of unsupported operands (string?)")
		}
		h := hoisted{isCopy: true}
		h.guards = addGuards(addGuards(nil, d.guards...), x.guards...)
		h.result = fmt.Sprintf("(sl_copy_n %s %s)", d.term, x.term)
		h.post = fmt.Sprintf("(scopy %s %s s)", d.term, x.term)
		return h
	}
	k, ok := t.calleeKey(c)
	if !ok || t.funcs[k] == nil {
		t.abort(c, "unsupported call")
	}
	f := t.funcs[k]
	if f.fd.Recv != nil {
		sel, ok := unparen(c.Fun).(*ast.SelectorExpr)
		if !ok {
			t.abort(c, "method expression")
		}
		id, ok := unparen(sel.X).(*ast.Ident)
		if !ok || t.vars[t.objOf(id)] == nil || t.vars[t.objOf(id)].kind != kRecv ||
			!types.Identical(t.vars[t.objOf(id)].obj.Type(), f.recv.obj.Type()) {
			t.abort(c, "method call on something other than the pointer receiver")
		}
	}
	if len(c.Args) != len(f.params) {
		t.abort(c, "argument count (variadic / multi-value argument)")
	}
	h := hoisted{}
	var sets []string
	for i, a := range c.Args {
		v := t.expr(a)
		p := f.params[i]
		h.guards = addGuards(h.guards, v.guards...)
		lv := lval{kind: p.kind, ptrN: p.ptrN}
		sets = append(sets, "set_"+p.field+" "+t.rvalue(a, lv, v))
	}
	if len(sets) > 0 {
		h.pre = append(h.pre, guarded(ind, h.guards, "upd (fun s => "+nest(sets, "s")+")"))
	}
	h.pre = append(h.pre, pad(ind)+"call ("+f.cname+" fuel)")
	if needResult {
		n := 0
		for _, r := range f.results {
			if r.kind != kErr {
				n++
			}
		}
		if len(f.results) != 1 || n != 1 {
			t.abort(c, "use of the result of a call with %d results", len(f.results))
		}
		h.result = "(" + f.results[0].field + " s)"
	}
	return h
}

func opOfAssign(tok token.Token) token.Token {
	switch tok {
	case token.ADD_ASSIGN:
		return token.ADD
	case token.SUB_ASSIGN:
		return token.SUB
	case token.MUL_ASSIGN:
		return token.MUL
	case token.QUO_ASSIGN:
		return token.QUO
	case token.REM_ASSIGN:
		return token.REM
	case token.AND_ASSIGN:
		return token.AND
	case token.OR_ASSIGN:
		return token.OR
	case token.XOR_ASSIGN:
		return token.XOR
	case token.SHL_ASSIGN:
		return token.SHL
	case token.SHR_ASSIGN:
		return token.SHR
	case token.AND_NOT_ASSIGN:
		return token.AND_NOT
	}
	return token.ILLEGAL
}

func (t *btr) assign(s *ast.AssignStmt, ind int) []string {
	cm := pad(ind) + t.where(s) + "\n"
	if len(s.Lhs) != len(s.Rhs) {
		t.abort(s, "multi-value assignment from a call")
	}
	if len(s.Lhs) == 1 {
		lhs, rhs := s.Lhs[0], s.Rhs[0]
		op := token.ILLEGAL
		if s.Tok != token.ASSIGN && s.Tok != token.DEFINE {
			op = opOfAssign(s.Tok)
			if op == token.ILLEGAL {
				t.abort(s, "assignment operator %s", s.Tok)
			}
		}
		lv := t.lvalue(lhs)
		core, wrap := t.stripConv(rhs)
		if c, ok := core.(*ast.CallExpr); ok && t.hoistable(c) {
			if !lv.plain && !(lv.scalarField && (op == token.ILLEGAL || t.isCopy(c))) {
				t.abort(s, "call on the right-hand side with a target that is neither a local variable nor a scalar struct field")
			}
			h := t.hoist(c, ind, true)
			v := wrap(h.result)
			if op != token.ILLEGAL {
				var g []string
				v = t.arith(s, op, lv.typ, lv.get, v, nil, &g)
				if len(g) > 0 {
					t.abort(s, "division by the result of a call")
				}
			} else if !lv.blank && lv.kind != kZ {
				t.abort(s, "non-integer result of a call")
			}
			if h.isCopy {
				return []string{cm + guarded(ind, h.guards, "upd (fun s => "+lv.set(v, h.post)+")")}
			}
			items := append([]string{}, h.pre...)
			items[0] = cm + items[0]
			items = append(items, pad(ind)+"upd (fun s => "+lv.set(v, "s")+")")
			return items
		}
		var rv val
		if cl, ok := unparen(rhs).(*ast.CompositeLit); ok {
			rv = t.zeroArrayLit(cl, op)
		} else {
			rv = t.expr(rhs)
		}
		guards := addGuards(addGuards(nil, lv.guards...), rv.guards...)
		var v string
		if op != token.ILLEGAL {
			if lv.kind != kZ || rv.kind != kZ {
				t.abort(s, "%s on non-integers", s.Tok)
			}
			v = t.arith(s, op, lv.typ, lv.get, rv.term, rhs, &guards)
		} else {
			v = t.rvalue(s, lv, rv)
		}
		guards = addGuards(guards, lv.guards2...)
		return []string{cm + guarded(ind, guards, "upd (fun s => "+lv.set(v, "s")+")")}
	}
	// tuple assignment: operands and right-hand sides first, then the stores left to right
	if s.Tok != token.ASSIGN && s.Tok != token.DEFINE {
		t.abort(s, "tuple assignment operator")
	}
	var guards []string
	var lvs []lval
	var lines []string
	for i := range s.Lhs {
		lv := t.lvalue(s.Lhs[i])
		lvs = append(lvs, lv)
		guards = addGuards(guards, lv.guards...)
	}
	for i := range s.Rhs {
		core, _ := t.stripConv(s.Rhs[i])
		if c, ok := core.(*ast.CallExpr); ok && t.hoistable(c) {
			t.abort(s, "call with side effects inside a tuple assignment")
		}
		rv := t.expr(s.Rhs[i])
		guards = addGuards(guards, rv.guards...)
		lines = append(lines, fmt.Sprintf("%s  let t%d := %s in", pad(ind), i, t.rvalue(s, lvs[i], rv)))
	}
	// A later store whose own check (index range, nil pointer) is not already implied by the checks made
	// before the first store panics AFTER the earlier stores took effect: guard_part (GoT.v).  All the
	// checks are terms over the state before the statement and do not read memory (slice headers and
	// indices only), so they can be evaluated up front; only the state carried by the panic differs.
	allowed := addGuards(append([]string{}, guards...), lvs[0].guards2...)
	type latePanic struct {
		at     int
		guards []string
	}
	var late []latePanic
	for i, lv := range lvs {
		if i > 0 {
			var missing []string
			for _, g := range lv.guards2 {
				found := false
				for _, a := range allowed {
					if a == g {
						found = true
					}
				}
				if !found {
					missing = addGuards(missing, g)
				}
			}
			if len(missing) > 0 {
				late = append(late, latePanic{i, missing})
				allowed = addGuards(allowed, missing...)
			}
		}
	}
	guards = addGuards(guards, lvs[0].guards2...)
	st := "s"
	var stores []string
	for i, lv := range lvs {
		nst := fmt.Sprintf("s%d", i+1)
		stores = append(stores, fmt.Sprintf("%s  let %s := %s in", pad(ind), nst, lv.set(fmt.Sprintf("t%d", i), st)))
		st = nst
	}
	if len(late) == 0 {
		code := "upd (fun s =>\n" + strings.Join(append(append([]string{}, lines...), stores...), "\n") + "\n" + pad(ind) + "  " + st + ")"
		return []string{cm + guarded(ind, guards, code)}
	}
	var b strings.Builder
	for _, lp := range late {
		part := "s"
		if lp.at > 0 {
			part = fmt.Sprintf("s%d", lp.at)
		}
		b.WriteString(pad(ind) + "guard_part (fun s => " + conj(lp.guards) + ") (fun s =>\n" +
			strings.Join(append(append([]string{}, lines...), stores[:lp.at]...), "\n") + "\n" + pad(ind) + "  " + part + ") (\n")
	}
	b.WriteString(pad(ind) + "upd (fun s =>\n" + strings.Join(append(append([]string{}, lines...), stores...), "\n") + "\n" + pad(ind) + "  " + st + ")")
	b.WriteString(strings.Repeat(")", len(late)))
	return []string{cm + guarded(ind, guards, strings.TrimPrefix(b.String(), pad(ind)))}
}

// zeroArrayLit: the composite literal [N]T{} (no elements, integer T) as the right-hand side of a plain
// assignment: an array value, all zero.  Every other composite literal aborts.
func (t *btr) zeroArrayLit(cl *ast.CompositeLit, op token.Token) val {
	ty := t.info.Types[cl].Type
	k, _, arrN, ok := classify(ty)
	if !ok || k != kArray || len(cl.Elts) != 0 || op != token.ILLEGAL {
		t.abort(cl, "composite literal other than [N]T{} assigned to an array")
	}
	return val{kind: kArray, term: fmt.Sprintf("(zeros %d)", arrN), arrN: arrN, typ: ty, ptrN: -1}
}

func (t *btr) zero(n ast.Node, lv lval) string {
	switch lv.kind {
	case kZ:
		return "0"
	case kBool:
		return "false"
	case kSlice:
		return "nilv"
	case kArray:
		if lv.arrN > 4096 {
			t.abort(n, "zero value of a large array")
		}
		return fmt.Sprintf("(repeat 0 %d%%nat)", lv.arrN)
	}
	t.abort(n, "zero value of unsupported type")
	return ""
}

// block translates a statement list into a sequence term at indentation ind.
func (t *btr) block(list []ast.Stmt, ind int, top bool) string {
	var items []string
	for i, s := range list {
		if d, ok := s.(*ast.DeferStmt); ok {
			if !top {
				t.abort(d, "defer inside a nested block")
			}
			h := t.recoverIdiom(d)
			t.cur.hasDefer = true
			rest := t.block(list[i+1:], ind+1, false)
			items = append(items, fmt.Sprintf("%s%s\n%srecover_with (fun s => %s) (\n%s)", pad(ind), t.where(d), pad(ind), h, rest))
			return joinItems(ind, items)
		}
		if ls, ok := s.(*ast.LabeledStmt); ok && top && t.cur.labels[ls.Label.Name] == ls {
			// Label on a statement at the top level of the function body: the code from here to the end of the
			// function becomes a definition of its own, entered by falling through (here) or by  goto  (jump).
			tail := t.block(append([]ast.Stmt{ls.Stmt}, list[i+1:]...), 1, true)
			name := t.labelName(ls.Label.Name)
			t.cur.aux = append(t.cur.aux, fmt.Sprintf("(* %s: label %s of func %s: the statements from the label to the end of the function *)\nDefinition %s (fuel : nat) : stmt :=\n%s.\n",
				t.pos(ls), ls.Label.Name, t.cur.key, name, tail))
			items = append(items, fmt.Sprintf("%s%s\n%s%s fuel", pad(ind), t.where(ls), pad(ind), name))
			return joinItems(ind, items)
		}
		items = append(items, t.stmt(s, ind)...)
	}
	return joinItems(ind, items)
}

func (t *btr) labelName(l string) string { return t.cur.cname + "_at_" + sanitize(l) }

// recoverIdiom matches  defer func() { if recover() != nil { ret = C } }()  exactly.
func (t *btr) recoverIdiom(d *ast.DeferStmt) string {
	bad := func() { t.abort(d, "defer other than `defer func() { if recover() != nil { result = constant } }()`") }
	fl, ok := d.Call.Fun.(*ast.FuncLit)
	if !ok || len(d.Call.Args) != 0 || len(fl.Type.Params.List) != 0 || fl.Type.Results != nil || len(fl.Body.List) != 1 {
		bad()
	}
	is, ok := fl.Body.List[0].(*ast.IfStmt)
	if !ok || is.Init != nil || is.Else != nil || len(is.Body.List) != 1 {
		bad()
	}
	be, ok := is.Cond.(*ast.BinaryExpr)
	if !ok || be.Op != token.NEQ {
		bad()
	}
	c, ok := be.X.(*ast.CallExpr)
	if !ok || len(c.Args) != 0 {
		bad()
	}
	id, ok := c.Fun.(*ast.Ident)
	if !ok {
		bad()
	}
	if b, ok := t.info.Uses[id].(*types.Builtin); !ok || b.Name() != "recover" {
		bad()
	}
	if !t.info.Types[be.Y].IsNil() {
		bad()
	}
	as, ok := is.Body.List[0].(*ast.AssignStmt)
	if !ok || as.Tok != token.ASSIGN || len(as.Lhs) != 1 || len(as.Rhs) != 1 {
		bad()
	}
	lid, ok := as.Lhs[0].(*ast.Ident)
	if !ok {
		bad()
	}
	v := t.vars[t.objOf(lid)]
	if v == nil || !v.result || v.fn != t.cur || v.kind != kZ {
		bad()
	}
	cv, ok := t.constTerm(t.info.Types[as.Rhs[0]])
	if !ok || cv.kind != kZ {
		bad()
	}
	return "set_" + v.field + " " + cv.term + " s"
}

func (t *btr) nested(list []ast.Stmt, ind int) string {
	return "(\n" + t.block(list, ind+1, false) + ")"
}

func (t *btr) stmt(s ast.Stmt, ind int) []string {
	cm := pad(ind) + t.where(s) + "\n"
	switch s := s.(type) {
	case *ast.EmptyStmt:
		return nil
	case *ast.BlockStmt:
		var items []string
		for _, x := range s.List {
			if _, ok := x.(*ast.DeferStmt); ok {
				t.abort(x, "defer inside a nested block")
			}
			items = append(items, t.stmt(x, ind)...)
		}
		return items
	case *ast.DeclStmt:
		gd := s.Decl.(*ast.GenDecl)
		switch gd.Tok {
		case token.CONST, token.TYPE:
			if gd.Tok == token.TYPE {
				t.abort(s, "local type declaration")
			}
			return nil // constants are folded by the type checker
		case token.VAR:
			var items []string
			for _, sp := range gd.Specs {
				vs := sp.(*ast.ValueSpec)
				if len(vs.Values) == 0 {
					st := "s"
					for _, n := range vs.Names {
						lv := t.lvalue(n)
						if lv.blank {
							continue
						}
						st = lv.set(t.zero(n, lv), st)
					}
					items = append(items, cm+pad(ind)+"upd (fun s => "+st+")")
				} else if len(vs.Names) == 1 && len(vs.Values) == 1 {
					as := &ast.AssignStmt{Lhs: []ast.Expr{vs.Names[0]}, TokPos: vs.Pos(), Tok: token.DEFINE, Rhs: vs.Values}
					items = append(items, t.assign(as, ind)...)
				} else {
					t.abort(s, "var declaration with several initial values")
				}
			}
			return items
		}
		t.abort(s, "unsupported declaration")
	case *ast.AssignStmt:
		return t.assign(s, ind)
	case *ast.IncDecStmt:
		lv := t.lvalue(s.X)
		if lv.kind != kZ {
			t.abort(s, "++/-- on a non-integer")
		}
		op := token.ADD
		if s.Tok == token.DEC {
			op = token.SUB
		}
		guards := addGuards(nil, lv.guards...)
		v := t.arith(s, op, lv.typ, lv.get, "1", nil, &guards)
		guards = addGuards(guards, lv.guards2...)
		return []string{cm + guarded(ind, guards, "upd (fun s => "+lv.set(v, "s")+")")}
	case *ast.ExprStmt:
		c, ok := unparen(s.X).(*ast.CallExpr)
		if !ok || !t.hoistable(c) {
			if ok {
				if id, isId := unparen(c.Fun).(*ast.Ident); isId {
					if b, isB := t.info.Uses[id].(*types.Builtin); isB {
						t.abort(s, "call of builtin %s", b.Name())
					}
				}
			}
			t.abort(s, "expression statement that is not a call of copy or of a translated function")
		}
		h := t.hoist(c, ind, false)
		if h.isCopy {
			return []string{cm + guarded(ind, h.guards, "upd (fun s => "+h.post+")")}
		}
		items := append([]string{}, h.pre...)
		items[0] = cm + items[0]
		return items
	case *ast.ReturnStmt:
		f := t.cur
		if len(s.Results) == 0 {
			return []string{cm + pad(ind) + "ret"}
		}
		if len(s.Results) != len(f.results) {
			t.abort(s, "return of a multi-value call")
		}
		if len(s.Results) == 1 {
			core, wrap := t.stripConv(s.Results[0])
			if c, ok := core.(*ast.CallExpr); ok && t.hoistable(c) {
				r := f.results[0]
				if r.kind != kZ {
					t.abort(s, "return of a non-integer call result")
				}
				h := t.hoist(c, ind, true)
				if h.isCopy {
					return []string{cm + guarded(ind, h.guards, "ret_with (fun s => set_"+r.field+" "+wrap(h.result)+" "+h.post+")")}
				}
				items := append([]string{}, h.pre...)
				items[0] = cm + items[0]
				items = append(items, pad(ind)+"ret_with (fun s => set_"+r.field+" "+wrap(h.result)+" s)")
				return items
			}
		}
		var guards, sets []string
		for i, e := range s.Results {
			r := f.results[i]
			if r.kind == kErr {
				if !t.info.Types[e].IsNil() {
					t.abort(e, "non-nil error result (interface)")
				}
				continue
			}
			if r.errCode {
				sets = append(sets, "set_"+r.field+" "+t.errorCode(e))
				continue
			}
			core, _ := t.stripConv(e)
			if c, ok := core.(*ast.CallExpr); ok && t.hoistable(c) {
				t.abort(e, "call with side effects among several return values")
			}
			v := t.expr(e)
			guards = addGuards(guards, v.guards...)
			sets = append(sets, "set_"+r.field+" "+t.rvalue(e, lval{kind: r.kind, ptrN: r.ptrN}, v))
		}
		return []string{cm + guarded(ind, guards, "ret_with (fun s => "+nest(sets, "s")+")")}
	case *ast.BranchStmt:
		if s.Tok == token.GOTO {
			// supported: a forward goto to a label on a statement at the top level of the function body
			ls := t.cur.labels[s.Label.Name]
			if ls == nil {
				t.abort(s, "goto to a label that is not on a statement at the top level of the function body")
			}
			if s.Pos() >= ls.Pos() {
				t.abort(s, "backward goto")
			}
			return []string{cm + pad(ind) + "jump (" + t.labelName(s.Label.Name) + " fuel)"}
		}
		if s.Label != nil {
			t.abort(s, "labelled %s", s.Tok)
		}
		switch s.Tok {
		case token.BREAK:
			return []string{cm + pad(ind) + "brk"}
		case token.CONTINUE:
			return []string{cm + pad(ind) + "cont"}
		case token.GOTO:
			t.abort(s, "goto")
		case token.FALLTHROUGH:
			t.abort(s, "fallthrough that is not the last statement of a case")
		}
	case *ast.IfStmt:
		var items []string
		if s.Init != nil {
			items = append(items, t.stmt(s.Init, ind)...)
		}
		c := t.expr(s.Cond)
		if c.kind != kBool {
			t.abort(s.Cond, "non-boolean condition")
		}
		els := "skip"
		switch e := s.Else.(type) {
		case nil:
		case *ast.BlockStmt:
			els = t.nested(e.List, ind)
		case *ast.IfStmt:
			els = "(\n" + joinItems(ind+1, t.stmt(e, ind+1)) + ")"
		default:
			t.abort(s, "unsupported else")
		}
		code := "ite (fun s => " + c.term + ") " + t.nested(s.Body.List, ind) + " " + els
		hd := ""
		if s.Init == nil {
			hd = cm
		}
		items = append(items, hd+guarded(ind, c.guards, code))
		return items
	case *ast.ForStmt:
		var items []string
		if s.Init != nil {
			items = append(items, t.stmt(s.Init, ind)...)
		}
		cond := "(fun _ => true)"
		var pre []string
		if s.Cond != nil {
			c := t.expr(s.Cond)
			if c.kind != kBool {
				t.abort(s.Cond, "non-boolean condition")
			}
			if len(c.guards) == 0 {
				cond = "(fun s => " + c.term + ")"
			} else {
				// for c { b }  ==  for { if !c { break }; b }  when evaluating c can panic
				pre = append(pre, guarded(ind+1, c.guards, "ite (fun s => "+c.term+") skip brk"))
			}
		}
		bodyItems := append(pre, t.stmt(s.Body, ind+1)...)
		post := "skip"
		if s.Post != nil {
			post = "(\n" + joinItems(ind+1, t.stmt(s.Post, ind+1)) + ")"
		}
		hd := ""
		if s.Init == nil {
			hd = cm
		}
		items = append(items, hd+pad(ind)+"loop fuel "+cond+" (\n"+joinItems(ind+1, bodyItems)+") "+post)
		return items
	case *ast.SwitchStmt:
		return t.switchStmt(s, ind)
	case *ast.DeferStmt:
		t.abort(s, "defer inside a nested block")
	case *ast.GoStmt:
		t.abort(s, "go statement")
	case *ast.SelectStmt:
		t.abort(s, "select")
	case *ast.SendStmt:
		t.abort(s, "channel send")
	case *ast.RangeStmt:
		t.abort(s, "range")
	case *ast.LabeledStmt:
		t.abort(s, "label")
	case *ast.TypeSwitchStmt:
		t.abort(s, "type switch (interface)")
	}
	t.abort(s, "unsupported statement %T", s)
	return nil
}

func (t *btr) switchStmt(s *ast.SwitchStmt, ind int) []string {
	cm := pad(ind) + t.where(s) + "\n"
	var items []string
	if s.Init != nil {
		items = append(items, t.stmt(s.Init, ind)...)
	}
	var tag *val
	if s.Tag != nil {
		v := t.expr(s.Tag)
		if v.kind != kZ && v.kind != kBool {
			t.abort(s.Tag, "switch on a non-integer tag")
		}
		if len(v.guards) > 0 || v.memread {
			t.abort(s.Tag, "switch tag that reads memory or can panic")
		}
		tag = &v
	}
	clauses := s.Body.List
	// bodies, with fallthrough chained into the next clause (source order)
	bodies := make([][]ast.Stmt, len(clauses))
	for i := len(clauses) - 1; i >= 0; i-- {
		cc := clauses[i].(*ast.CaseClause)
		body := cc.Body
		if n := len(body); n > 0 {
			if b, ok := body[n-1].(*ast.BranchStmt); ok && b.Tok == token.FALLTHROUGH {
				if i == len(clauses)-1 {
					t.abort(b, "fallthrough in the last clause")
				}
				body = append(append([]ast.Stmt{}, body[:n-1]...), bodies[i+1]...)
			}
		}
		bodies[i] = body
	}
	def := -1
	for i, c := range clauses {
		if c.(*ast.CaseClause).List == nil {
			def = i
		}
	}
	// the chain of tests, built from the last tested clause backwards
	depth := 0
	for _, c := range clauses {
		if c.(*ast.CaseClause).List != nil {
			depth++
		}
	}
	var build func(i, ind int) string
	build = func(i, ind int) string {
		for i < len(clauses) && clauses[i].(*ast.CaseClause).List == nil {
			i++
		}
		if i >= len(clauses) {
			if def >= 0 {
				return pad(ind) + "(* default *)\n" + t.block(bodies[def], ind, false)
			}
			return pad(ind) + "skip"
		}
		cc := clauses[i].(*ast.CaseClause)
		// case e1, e2: tested left to right; e2 is evaluated only when e1 does not match
		var guards []string
		cond := ""
		for _, e := range cc.List {
			v := t.expr(e)
			var c string
			if tag == nil {
				if v.kind != kBool {
					t.abort(e, "non-boolean case in a tagless switch")
				}
				c = v.term
			} else if tag.kind == kBool {
				c = "(Bool.eqb " + tag.term + " " + v.term + ")"
			} else {
				if v.kind != kZ {
					t.abort(e, "non-integer case")
				}
				c = "(" + tag.term + " =? " + v.term + ")"
			}
			if cond == "" {
				cond = c
				guards = addGuards(guards, v.guards...)
			} else {
				if len(v.guards) > 0 {
					guards = addGuards(guards, "orb "+cond+" "+conj(v.guards))
				}
				cond = "(" + cond + " || " + c + ")"
			}
		}
		code := "ite (fun s => " + cond + ") (\n" + t.block(bodies[i], ind+1, false) + ") (\n" + build(i+1, ind+1) + ")"
		return pad(ind) + t.where(cc) + "\n" + guarded(ind, guards, code)
	}
	items = append(items, cm+pad(ind)+"catch_brk (\n"+build(0, ind+1)+")")
	return items
}

// errorCode: the value of an error result that is materialised as a code.
func (t *btr) errorCode(e ast.Expr) string {
	if t.info.Types[e].IsNil() {
		return "0"
	}
	var id *ast.Ident
	switch x := unparen(e).(type) {
	case *ast.SelectorExpr:
		id = x.Sel
	case *ast.Ident:
		id = x
	}
	if id != nil {
		if obj := t.info.Uses[id]; obj != nil && obj.Pkg() != nil && obj.Parent() == obj.Pkg().Scope() &&
			strings.HasSuffix(obj.Pkg().Path(), "/internal/lz4errors") && obj.Name() == "ErrInvalidSourceShortBuffer" {
			return "1"
		}
	}
	t.abort(e, "error value other than nil and lz4errors.ErrInvalidSourceShortBuffer")
	return ""
}

// function translates one non-pure function.
func (t *btr) function(f *bfunc) string {
	f.labels = map[string]*ast.LabeledStmt{}
	for _, st := range f.fd.Body.List {
		if ls, ok := st.(*ast.LabeledStmt); ok {
			f.labels[ls.Label.Name] = ls
		}
	}
	body := t.block(f.fd.Body.List, 1, true)
	if f.hasDefer && len(f.labels) > 0 {
		t.abort(f.fd, "labels in a function with a deferred recover")
	}
	var b strings.Builder
	p := fset.Position(f.fd.Pos())
	fmt.Fprintf(&b, "(* %s:%d  func %s\n", p.Filename, p.Line, f.key)
	for _, v := range f.params {
		fmt.Fprintf(&b, "     parameter %s : %s  -> field %s", v.name, v.obj.Type(), v.field)
		if v.loc != "" {
			fmt.Fprintf(&b, " (own location %s)", v.loc)
		}
		b.WriteString("\n")
	}
	if f.recv != nil {
		fmt.Fprintf(&b, "     receiver %s : the single %s instance (assumed non-nil)\n", f.recv.name, f.recv.obj.Type())
	}
	for i, v := range f.results {
		if v.kind == kErr {
			fmt.Fprintf(&b, "     result #%d : error, always nil, not materialised\n", i)
		} else if v.errCode {
			fmt.Fprintf(&b, "     result #%d : error as a code (0 = nil, 1 = lz4errors.ErrInvalidSourceShortBuffer) -> field %s\n", i, v.field)
		} else {
			fmt.Fprintf(&b, "     result #%d : %s -> field %s\n", i, v.obj.Type(), v.field)
		}
	}
	b.WriteString("*)\n")
	fmt.Fprintf(&b, "Definition %s (fuel : nat) : stmt :=\n%s.\n", f.cname, body)
	return b.String()
}
