#!/bin/bash
# usage: pmutant.sh <slot> <worktree> <patch.diff> <property>...   — development tool: evaluates a seeded change in a scratch
# worktree with a private copy of the machinery (/tmp/v<slot>), so that several evaluations can run side by side.
S="$1"; W="$2"; P="$3"; shift 3
cd "$W" && git checkout -q -- . && git apply "$P" || { echo "patch does not apply: $P"; exit 2; }
for prop in "$@"; do
  out=$(cd /tmp/v$S && VERIF_REPO="$W" timeout 2400 ./check "$prop" 2>&1)
  v=$(echo "$out" | grep -c "^VIOLATION")
  nf=$(echo "$out" | grep "^VIOLATION" | grep -vc "no-failing-input-found")
  why=$(echo "$out" | grep "^# " | head -1 | cut -c1-200)
  if [ "$v" = "0" ]; then r="MISSED"; elif [ "$nf" = "0" ]; then r="caught(no-failing-input-found)"; else r="caught(concrete-input)"; fi
  line="$(basename $(dirname $P))/$(basename $P) $prop $r $why"
  echo "$line"; echo "$line" >> /verif/out/mutants3.log
done
cd "$W" && git checkout -q -- .
