#!/usr/bin/env python3
"""regenerate MANIFEST.json from lib/registry.py (claimed properties) and properties.jsonl (all ids)"""
import json, os, sys, subprocess
ROOT = os.path.dirname(os.path.dirname(os.path.abspath(__file__)))
sys.path.insert(0, os.path.join(ROOT, "lib"))
from registry import PROPS, NOT_APPLICABLE, ENGINES, HOOK_COMMITS
ids = [json.loads(l)["id"] for l in open(os.path.join(ROOT, "properties.jsonl"))]
checks = []
for pid in ids:
    if pid not in PROPS:
        continue
    p = PROPS[pid]
    checks.append({
        "property_id": pid,
        "quick_cmd": f"./check {pid} --tier quick",
        "thorough_cmd": f"./check {pid} --tier thorough",
        "evidence_file": f"/verif/evidence/{pid}.json",
        "replay_cmd_template": "./check replay {path}",
        "engine": "coq-proof+correspondence",
        "level_claimed": {"category": "proof", "text": p["level_text"], "design_ref": p.get("design_ref", "DESIGN.md section 6, " + pid)},
        "level_note": p["level_note"],
        "technique": p.get("technique", "machine-checked proof in Coq 8.16.1 about a Gallina model, tied to the Go source by a translator (constants, tables, one-line functions) and a differential correspondence check (extracted OCaml model vs implementation)"),
    })
na = [{"property_id": pid, "reason": NOT_APPLICABLE.get(pid, "model and check not built yet in this tree; not claimed")} for pid in ids if pid not in PROPS]
m = {
    "version": 1,
    "setup_cmd": "./check setup",
    "hooks": {"guard": "verif (Go build tag)", "enable": "go build -tags verif (and -tags verif,noasm for the portable decoder); harness module github.com/pierrec/lz4/v4/verifharness with replace => /repo",
              "baseline_off_cmd": "/verif/lib/baseline.sh", "source_commits": HOOK_COMMITS, "add_only": True},
    "engines": ENGINES,
    "checks": checks,
    "notes": "Every check regenerates coq/Gen*.v from /repo, rebuilds the Coq development (make), re-extracts and rebuilds the model runner, rebuilds the implementation runner from /repo with -tags verif, runs the correspondence for the property's components, replays known findings, and writes evidence. See DESIGN.md.",
    "not_applicable": na,
}
json.dump(m, open(os.path.join(ROOT, "MANIFEST.json"), "w"), indent=1)
print("MANIFEST.json:", len(checks), "checks,", len(na), "not claimed")
