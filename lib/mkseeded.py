#!/usr/bin/env python3
"""development tool: mkseeded.py <new-id> <prop> <outdir> <k> <needs text>  — files a confirmed seeded change under seeded/<new-id>/
(confirmation JSON from /tmp/confirm2/<Cxx>-<k>.json, detection from the last matching line of out/mutants.log)"""
import sys, os, json, shutil, re
nid, prop, outdir, k, needs = sys.argv[1:6]
root = os.path.dirname(os.path.dirname(os.path.abspath(__file__)))
d = os.path.join(root, "seeded", nid)
os.makedirs(d, exist_ok=True)
pname = os.path.basename(outdir.rstrip("/"))
cx = pname.split("_")[0]
cdir = "/tmp/confirm3" if cx.startswith("A") else "/tmp/confirm2"
conf = json.load(open(f"{cdir}/{cx}-{k}.json"))
shutil.copy(os.path.join(outdir, f"patch{k}.diff"), os.path.join(d, "patch.diff"))
demo = os.path.join(outdir, f"demo{k}_test.go")
if not os.path.exists(demo): demo = os.path.join(outdir, "demo_bin.sh")
shutil.copy(demo, os.path.join(d, os.path.basename(demo)))
if os.path.exists(os.path.join(outdir, "meta.txt")):
    shutil.copy(os.path.join(outdir, "meta.txt"), os.path.join(d, "author_notes.txt"))
det = None
for l in list(open(os.path.join(root, "out", "mutants.log"))) + (list(open(os.path.join(root, "out", "mutants3.log"))) if os.path.exists(os.path.join(root, "out", "mutants3.log")) else []):
    if l.startswith(f"{pname}/patch{k}.diff "):
        parts = l.rstrip("\n").split(" ", 3)
        det = {"check": parts[1], "result": parts[2], "first_reason": (parts[3] if len(parts) > 3 else "").lstrip("# ")[:300]}
ok = conf.get("builds") == "ok" and conf.get("existing_suite_unchanged_default_and_noasm") == "yes" and \
     ("FAIL" in conf.get("demo_with_change", "") or "FAIL" in conf.get("demo_with_change_noasm", "")) and \
     conf.get("demo_on_clean_tree", "").startswith("ok") and conf.get("demo_on_clean_tree_noasm", "").startswith("ok")
meta = {"breaks_property": prop, "needs_to_manifest": needs, "confirmation": conf, "confirmed": ok, "round": 3 if cx.startswith("A") else 2,
        "what_i_ran": "lib/confirm_mutant.sh in the author's scratch worktree: go build; full suite pass/fail set compared with the unmodified tree (default and -tags noasm); the demonstration run with and without the change; then lib/mutant.sh (apply to /repo, run the property's quick check, restore)",
        "detected_by": det}
json.dump(meta, open(os.path.join(d, "meta.json"), "w"), indent=1)
print(nid, "confirmed" if ok else "NOT-CONFIRMED", det)
