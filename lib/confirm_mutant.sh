#!/bin/bash
# usage: confirm_mutant.sh <worktree> <patch.diff> <demo_test.go> [extra helper files...]
# Confirms in a scratch worktree that a seeded change (1) builds, (2) leaves the existing suite's pass/fail set
# unchanged (default and noasm), (3) makes the demonstration fail, which passes without the change.  Prints JSON.
export GOFLAGS=-mod=mod GOPROXY=off GOSUMDB=off GOTOOLCHAIN=local GOMAXPROCS=8
W="$1"; P="$2"; D="$3"; shift 3
cd "$W" || exit 2
git checkout -q -- . ; git clean -fdq -e cmd/lz4c/lz4c
pkg=$(grep -m1 "^package " "$D" | awk '{print $2}')
case "$pkg" in xxh32_test|xxh32) dir=internal/xxh32;; lz4block|lz4block_test) dir=internal/lz4block;; lz4stream|lz4stream_test) dir=internal/lz4stream;; *) dir=.;; esac
tags=""; grep -q "noasm" "$D" && head -5 "$D" | grep -q "build.*noasm" && tags="-tags noasm"
suite() { go test -count=1 -json $1 ./... 2>/dev/null | python3 -c "
import sys,json
r=set()
for l in sys.stdin:
    try: e=json.loads(l)
    except Exception: continue
    if e.get('Test') and e.get('Action') in ('pass','fail'): r.add(e['Package']+'::'+e['Test']+'='+e['Action'])
print('\n'.join(sorted(r)))"; }
suite "" > /tmp/cm_base.$$; suite "-tags noasm" > /tmp/cm_base_n.$$
cp "$D" "$dir/zz_demo_test.go"; for h in "$@"; do cp "$h" "$dir/"; done
run_demo() { go test -count=1 $1 ./$dir -run 'Demo|demo|Linked|TestDemo' 2>&1 | tail -3 | tr '\n' ' '; }
demo_clean=$(run_demo ""); demo_clean_n=$(run_demo "-tags noasm")
rm -f "$dir/zz_demo_test.go"; for h in "$@"; do rm -f "$dir/$(basename $h)"; done
{ git apply "$P" 2>/dev/null || patch -p1 -s -F3 < "$P"; } || { echo '{"error":"patch does not apply"}'; exit 2; }
build=ok; go build ./... 2>/dev/null || build=FAIL
suite "" > /tmp/cm_mut.$$; suite "-tags noasm" > /tmp/cm_mut_n.$$
same=yes; cmp -s /tmp/cm_base.$$ /tmp/cm_mut.$$ || same=no; cmp -s /tmp/cm_base_n.$$ /tmp/cm_mut_n.$$ || same=no
cp "$D" "$dir/zz_demo_test.go"; for h in "$@"; do cp "$h" "$dir/"; done
demo_mut=$(run_demo ""); demo_mut_n=$(run_demo "-tags noasm")
rm -f "$dir/zz_demo_test.go"; for h in "$@"; do rm -f "$dir/$(basename $h)"; done
git checkout -q -- . ; git clean -fdq -e cmd/lz4c/lz4c
python3 - "$build" "$same" "$demo_clean" "$demo_clean_n" "$demo_mut" "$demo_mut_n" "$dir" <<'PY'
import sys,json
b,s,dc,dcn,dm,dmn,d=sys.argv[1:]
print(json.dumps({"builds":b,"existing_suite_unchanged_default_and_noasm":s,"demo_dir":d,"demo_on_clean_tree":dc.strip()[-160:],"demo_on_clean_tree_noasm":dcn.strip()[-160:],"demo_with_change":dm.strip()[-160:],"demo_with_change_noasm":dmn.strip()[-160:]}))
PY
rm -f /tmp/cm_*.$$
