#!/bin/sh
# usage: mutant.sh <patch.diff> <property> [<property>...]   — apply a seeded change to /repo's working tree,
# run the properties' quick checks, restore the tree.  Development tool (not registered in MANIFEST).
P="$1"; shift
cd /repo && git apply --check "$P" || { echo "patch does not apply: $P"; exit 2; }
git apply "$P"
cd /verif
for prop in "$@"; do
  out=$(timeout 2400 ./check "$prop" 2>&1)
  v=$(echo "$out" | grep -c "^VIOLATION")
  nf=$(echo "$out" | grep "^VIOLATION" | grep -vc "no-failing-input-found")
  why=$(echo "$out" | grep "^# " | head -1 | cut -c1-160)
  if [ "$v" = "0" ]; then r="MISSED"; elif [ "$nf" = "0" ]; then r="caught(no-failing-input-found)"; else r="caught(concrete-input)"; fi
  line="$(basename $(dirname $P))/$(basename $P) $prop $r $why"
  echo "$line"; echo "$line" >> /verif/out/mutants.log
done
git -C /repo checkout -- . && git -C /repo status --short | grep -v lz4c$ | head -3
