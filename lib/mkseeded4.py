#!/usr/bin/env python3
"""development tool (round 4): mkseeded4.py <new-id> <prop> <Cxx> <k> <needs text>  — files a confirmed seeded change under
seeded/<new-id>/ (patch and demonstration from /tmp/mut4out/<Cxx>, confirmation JSON from /tmp/confirm4/<Cxx>-<k>.json,
detection = the LAST line about it in out/mutants4.log that reports a catch, else the last line)"""
import sys, os, json, shutil
nid, prop, cx, k, needs = sys.argv[1:6]
root = os.path.dirname(os.path.dirname(os.path.abspath(__file__)))
outdir = f"/tmp/mut4out/{cx}"
d = os.path.join(root, "seeded", nid)
os.makedirs(d, exist_ok=True)
conf = json.load(open(f"/tmp/confirm4/{cx}-{k}.json"))
shutil.copy(os.path.join(outdir, f"patch{k}.diff"), os.path.join(d, "patch.diff"))
for name in (f"demo{k}_test.go", f"demo{k}_bin.sh", "demo_bin.sh"):
    if os.path.exists(os.path.join(outdir, name)):
        shutil.copy(os.path.join(outdir, name), os.path.join(d, name))
if os.path.exists(os.path.join(outdir, "meta.txt")):
    shutil.copy(os.path.join(outdir, "meta.txt"), os.path.join(d, "author_notes.txt"))
det, first = None, None
for l in open(os.path.join(root, "out", "mutants4.log")):
    if l.startswith(f"r4/{cx}/patch{k}.diff "):
        parts = l.rstrip("\n").split(" ", 3)
        e = {"check": parts[1], "result": parts[2], "first_reason": (parts[3] if len(parts) > 3 else "").lstrip("# ")[:300]}
        if first is None: first = e
        if e["result"].startswith("caught") and "timed out" not in e["first_reason"]: det = e
if det is None: det = first
ok = conf.get("builds") == "ok" and conf.get("existing_suite_unchanged_default_and_noasm") == "yes" and \
     ("FAIL" in conf.get("demo_with_change", "") or "FAIL" in conf.get("demo_with_change_noasm", "")) and \
     conf.get("demo_on_clean_tree", "").startswith("ok") and conf.get("demo_on_clean_tree_noasm", "").startswith("ok")
meta = {"breaks_property": prop, "needs_to_manifest": needs, "confirmation": conf, "confirmed": ok, "round": 4,
        "first_evaluation": first,
        "what_i_ran": "lib/confirm_mutant.sh in the author's scratch worktree: go build; full suite pass/fail set compared with the unmodified tree (default and -tags noasm); the demonstration run with and without the change; then lib/eval4.sh / lib/reeval4.sh (a private copy of the machinery run against the patched worktree through VERIF_REPO)",
        "detected_by": det}
json.dump(meta, open(os.path.join(d, "meta.json"), "w"), indent=1)
print(nid, "confirmed" if ok else "NOT-CONFIRMED", det)
