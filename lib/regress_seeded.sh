#!/bin/bash
# usage: regress_seeded.sh <slot> <id>...   — development tool: re-evaluates filed seeded changes against the CURRENT
# machinery at the CURRENT /repo HEAD, in a scratch worktree (/tmp/reg/w<slot>) with a private copy of /verif (/tmp/v<slot>).
S=$1; shift
W=/tmp/reg/w$S
[ -d $W ] || { mkdir -p /tmp/reg; git -C /repo worktree add -q --detach $W HEAD; }
for id in "$@"; do
  d=/verif/seeded/$id
  prop=$(python3 -c "
import json,re
m=json.load(open('$d/meta.json')); d=m.get('detected_by')
if isinstance(d,dict): print(d['check'])
else:
    x=re.search(r'check (C[0-9]+)', str(d)); print(x.group(1) if x else m['breaks_property'])")
  cd $W && git checkout -q -- . && git clean -fdq
  if ! git apply --check $d/patch.diff 2>/dev/null; then echo "$id $prop does-not-apply-to-HEAD" | tee -a /verif/out/regress.log; continue; fi
  git apply $d/patch.diff
  out=$(cd /tmp/v$S && VERIF_REPO="$W" timeout 2400 ./check "$prop" 2>&1)
  v=$(echo "$out" | grep -c "^VIOLATION"); nf=$(echo "$out" | grep "^VIOLATION" | grep -vc "no-failing-input-found")
  why=$(echo "$out" | grep "^# " | head -1 | cut -c1-160)
  if [ "$v" = "0" ]; then r="MISSED"; elif [ "$nf" = "0" ]; then r="caught(no-failing-input-found)"; else r="caught(concrete-input)"; fi
  echo "$id $prop $r $why" | tee -a /verif/out/regress.log
  cd $W && git checkout -q -- . && git clean -fdq
done
