#!/bin/sh
# Runs the repository's baseline test suite with the verif guard OFF and compares with BASELINE.json.
export GOFLAGS=-mod=mod GOPROXY=off GOSUMDB=off GOTOOLCHAIN=local GOMAXPROCS=8
# TestWriterLegacyCommand (in the pinned baseline) needs the reference `lz4` command on PATH; it is installed under miniconda
command -v lz4 >/dev/null 2>&1 || PATH=$PATH:/root/miniconda/bin
cd /repo && go test -json -vet=off -count=1 -timeout 25m ./... > /tmp/verif-baseline.$$.json
python3 - /tmp/verif-baseline.$$.json <<'PY'
import json, sys
base = json.load(open('/root/.vp/BASELINE.json'))
want = set(base['stable_pass']); got = set()
for l in open(sys.argv[1]):
    try: e = json.loads(l)
    except Exception: continue
    if e.get('Action') == 'pass' and e.get('Test'): got.add(e['Package'] + '::' + e['Test'])
missing = sorted(want - got)
print(f"baseline: {len(want & got)}/{len(want)} stable tests pass; missing: {missing[:10]}")
sys.exit(0 if not missing else 1)
PY
rc=$?; rm -f /tmp/verif-baseline.$$.json; exit $rc
