#!/bin/bash
# usage: reeval4.sh <slot> <Cxx> <k> [more props]  — development tool (round 4): evaluate an already confirmed candidate again
# with a private, refreshed copy of the machinery (/tmp/v<slot>) against the author's scratch worktree /tmp/mut4/<Cxx>.
export GOFLAGS=-mod=mod GOPROXY=off GOSUMDB=off GOTOOLCHAIN=local
S=$1; P=$2; K=$3
# a PRIVATE worktree per slot: two slots evaluating patches of the same property must not share one
W=/tmp/mut4s/s$S; O=/tmp/mut4out/$P
[ -d $W ] || { mkdir -p /tmp/mut4s; git -C ${REPO_ROOT:-/repo} worktree add --detach $W HEAD >/dev/null 2>&1; }
[ -d /tmp/v$S ] || rsync -a --exclude .git --exclude .cache --exclude out/replays --exclude seeded /verif/ /tmp/v$S/
rsync -a --exclude .git --exclude .cache --exclude out --exclude seeded --exclude evidence --exclude bin --exclude '*.vo' --exclude '*.glob' --exclude '*.aux' /verif/ /tmp/v$S/
shift 3
props="$P $@"
cd $W && git checkout -q -- . && git clean -fdq && { git apply $O/patch$K.diff 2>/dev/null || patch -p1 -s -F3 < $O/patch$K.diff; } || { echo "r4/$P/patch$K.diff patch does not apply" | tee -a /verif/out/mutants4.log; exit 2; }
for prop in $props; do
  out=$(cd /tmp/v$S && VERIF_REPO="$W" timeout 3000 ./check "$prop" 2>&1)
  echo "$out" > /tmp/confirm4/$P-$K.$prop.out
  v=$(echo "$out" | grep -c "^VIOLATION"); nf=$(echo "$out" | grep "^VIOLATION" | grep -vc "no-failing-input-found")
  why=$(echo "$out" | grep "^# " | head -1 | cut -c1-200)
  if [ "$v" = "0" ]; then r="MISSED"; elif [ "$nf" = "0" ]; then r="caught(no-failing-input-found)"; else r="caught(concrete-input)"; fi
  line="r4/$P/patch$K.diff $prop $r $why"
  echo "$line"; echo "$line" >> /verif/out/mutants4.log
  [ "$r" != "MISSED" ] && break
done
cd $W && git checkout -q -- . && git clean -fdq
