"""registry: which theorems, which correspondence components and which findings belong to which property."""

TRUSTED_BASE = [
    "Coq 8.16.1 kernel (coqc, full .vo build; vm_compute used only for closed finite facts; no native_compute)",
    "no Axiom/Parameter/Conjecture/Admitted anywhere in /verif/coq (grepped on every run)",
    "translator /verif/gen (go/parser + go/types constant evaluation) producing coq/Gen*.v from /repo's working tree on every run",
    "extraction: Require Extraction + ExtrOcamlBasic only (no Extract Constant / Extract Inductive of our own); Z, positive, N, nat stay inductive; ocamlfind ocamlopt",
    "OCaml driver /verif/ocaml (int<->Z conversion, hex, line protocol) and Go harness /verif/harness (generators, canonicalisation) - trusted for the correspondence only, never for a theorem",
    "hand-written Gallina models of the Go control flow, tied to the code by the correspondence check of this run",
]

COMPONENTS = {
    "xxh": dict(builds=["implrun"], timeout=900),
    "cmp": dict(builds=["implrun"], timeout=1500),
    "ws": dict(builds=["implrun"], timeout=1500),
    "rs": dict(builds=["implrun"], timeout=1500),
    "cr": dict(builds=["implrun"], timeout=1500),
    "dec": dict(builds=["implrun", "implrun_noasm"], prefix={"implrun": "a_", "implrun_noasm": "p_"}, timeout=1200),
}

NOT_APPLICABLE = {}
HOOK_COMMITS = ["5361f0f"]
ENGINES = [
    {"name": "coq-proof+correspondence", "path": "/verif/check", "serves_properties": [],
     "kind_free_text": "Coq 8.16.1 development in /verif/coq (theorems in PropCxx.v), translator /verif/gen, extracted OCaml model runner /verif/ocaml, Go implementation runner /verif/harness, Python driver /verif/check"},
]

PROPS = {
    "C04": dict(
        prop_files=["PropC04.v"],
        components=["dec"],
        level_text="(in progress) block-format specification with proved round trip; decoder models validated by correspondence",
        level_note="in progress",
        rule="dec: blocks built from the sequence grammar with the class tables of the property, plus truncations/bit flips, both builds, guard pages and canaries; non-trivial = block with at least one sequence",
    ),
    "C13": dict(
        level_text="Theorems C13_oneshot, C13_stream, C13_state (Coq, closed under the global context) state that the one-shot and the streaming checksum models equal reference XXH32 for every byte string, every chunking (empty writes included) and every total length below 2^64. The models are tied to internal/xxh32 on every run: primes, lane seeds and rotations are re-translated from the source and the bridging lemmas re-proved; the control flow is compared differentially (one-shot, streaming, injected states around 2^32/2^64, a real >4 GiB stream).",
        level_note="Trusted: Coq kernel; translator; extraction (ExtrOcamlBasic only); the harness. The hand-written control-flow model (XXH32.v) is validated, not verified. ARM assembly variants are not modelled.",
        prop_files=["PropC13.v"],
        components=["xxh"],
        rule="xxh: one-shot on every length 0..300 and sampled to 70 KB; streaming on all (buffered 0..15) x (next-write length class) pairs and random chunkings with empty writes; state injection with totals around 2^32, 2^33, 3*2^32, 2^63, 2^64. Non-trivial = non-empty data / at least two writes / any injected state; distinct = distinct case text.",
        modelled="control flow of xxh32zero.go (Write/Sum32/checksumZeroGo) hand-modelled in XXH32.v; primes, seeds and rotations translated from the source",
        strength="full: C13_oneshot, C13_stream (all chunkings, all lengths < 2^64), C13_state",
        assumptions=["portable Go implementation (amd64 uses it); the ARM assembly update/ChecksumZero cannot be executed here and is not modelled",
                     "total length below 2^64 (the uint64 counter)"],
    ),
}
