"""registry: which theorems, which correspondence components and which findings belong to which property."""

TRUSTED_BASE = [
    "Coq 8.16.1 kernel (coqc, full .vo build; vm_compute used only for closed finite facts; no native_compute)",
    "no Axiom/Parameter/Conjecture/Admitted anywhere in /verif/coq (grepped on every run)",
    "translator /verif/gen (go/parser + go/types constant evaluation) producing coq/Gen*.v from /repo's working tree on every run",
    "extraction: Require Extraction + ExtrOcamlBasic only (no Extract Constant / Extract Inductive of our own); Z, positive, N, nat stay inductive; ocamlfind ocamlopt",
    "OCaml driver /verif/ocaml (int<->Z conversion, hex, line protocol) and Go harness /verif/harness (generators, canonicalisation) - trusted for the correspondence only, never for a theorem",
    "hand-written Gallina models of the Go control flow, tied to the code by the correspondence check of this run",
]

COMPONENTS = {
    "xxh": dict(builds=["implrun"], timeout=900),
    "cmp": dict(builds=["implrun"], timeout=1500),
    "hdr": dict(builds=["implrun"], timeout=1500),
    "lz4c": dict(builds=["implrun"], timeout=1500),
    "pipe": dict(builds=["implrun"], timeout=1500),
    "piper": dict(builds=["implrun_race"], arg="pipe", timeout=1500),
    "rpipe": dict(builds=["implrun"], timeout=1500),
    "rpiper": dict(builds=["implrun_race"], arg="rpipe", timeout=1500),
    "ws": dict(builds=["implrun"], timeout=1500),
    "rs": dict(builds=["implrun"], timeout=1500),
    "cr": dict(builds=["implrun"], timeout=1500),
    "dec": dict(builds=["implrun", "implrun_noasm"], prefix={"implrun": "a_", "implrun_noasm": "p_"}, timeout=1200),
}

NOT_APPLICABLE = {}
HOOK_COMMITS = ["5361f0f", "826255c", "1162414", "1396f63"]
ENGINES = [
    {"name": "coq-proof+correspondence", "path": "/verif/check", "serves_properties": [],
     "kind_free_text": "Coq 8.16.1 development in /verif/coq (theorems in PropCxx.v), translator /verif/gen, extracted OCaml model runner /verif/ocaml, Go implementation runner /verif/harness, Python driver /verif/check"},
]

PROPS = {
    "C01": dict(
        prop_files=["PropC01.v"], components=["cmp", "dec"],
        level_text="Theorems C01_fast (for EVERY stale state of the fast compressor's table), C01_hc (EVERY search depth >= 0: termination of the chain walk is proved independently of the depth, CompressHCTermination.hc_nohang_all) and C01_hc_any_object: with a destination of at least CompressBlockBound(len) bytes the compressor models succeed with a positive count and BOTH decoder models (assembly and portable), given a buffer of exactly the original length with arbitrary prior contents, return exactly the source. Proved for all byte strings of any length. The models are byte-exact transliterations validated on every run against the real compressors (all entry points, fresh/reused/pooled objects, inputs up to 200 KB) and decoders (both builds).",
        level_note="Trusted: Coq kernel; translator (constants, blockHash, blockHashHC, CompressBlockBound re-translated and the proofs re-checked on every run); extraction; harness. Modelled, not verified: control flow of block.go / decode_other.go / decode_amd64.s (hand-written Gallina, tied by the correspondence).",
        rule="cmp: sources of length 0..40 dense, all destination lengths 0..bound+3 for some sources, medium sources, 6 sources of 66-206 KB (16-bit table positions), fast and HC at 15 depths, four entry points with histories; non-trivial = source longer than 14 bytes (a match is possible). dec: see C04.",
        modelled="block.go compressors (CompressFast.v, CompressHC.v), both decoders (DecodeAsm.v, DecodePortable.v)",
        strength="full for the models (all sources, all table states, all depths)",
        assumptions=["Go int modelled as unbounded Z (lengths below 2^63)", "amd64 assembly modelled under the address-space assumption of DecodeAsm.v"],
    ),
    "C03": dict(
        prop_files=["PropC03.v"], components=["dec"],
        level_text="Theorems C03_asm / C03_portable: for every source, destination (any length, any prior contents) and dictionary the decoder models return an error or a count 0 <= n <= len(dst) and leave the destination's length unchanged; C03_total_*: they are total and agree with the block-format specification on every input. C03_asm_never_faults / C03_asm_monitor_erase: an instrumented copy of the assembly model in which every load and store carries its address range and is checked against the three buffers never reports an out-of-range access, on any input, and erasing the instrumentation gives back the decoder model. In the zipper models every read of src/dict and every write of dst is a list access that cannot leave the slice; the accesses the real code would make outside are the explicit error branches, and the wide copies (16/18/48/16 bytes) are performed literally under the guards the code tests. The correspondence compares return code and the WHOLE destination on thousands of grammar-built and mutated blocks per run in both builds, with src/dst/dict ending at PROT_NONE pages (over-reads fault) and with canaries around sub-sliced destinations.",
        level_note="Partial by nature for the assembly: what the model cannot exhibit is the MMU-level behaviour of the SSE/MOVQ loads and stores; it is observed by the guard-page runs, not proved. Address-space assumption (no pointer wrap) stated in DecodeAsm.v; the nil-destination wrap was finding F2 (repaired).",
        rule="dec: blocks built from the sequence grammar with the literal/match/offset class tables, destination-size classes (exact, one short, +k, tiny), truncations and bit flips, tail-shortcut classes (wide copies starting within 0..48 bytes of the ends), nil/empty destinations, random sources; both builds; non-trivial = at least one sequence",
        modelled="decode_amd64.s, decode_other.go as zipper models", strength="model theorems + validated access behaviour",
        assumptions=["buffers lie in [2^16, 2^63): no pointer arithmetic wraps (amd64 user space)"],
    ),
    "C04": dict(
        prop_files=["PropC04.v"], components=["dec"],
        level_text="Theorems C04_asm / C04_portable: for every source, destination length and dictionary both decoder models return exactly what the block-format specification defines: the same error/success outcome, the same length, the same bytes (offsets before the output start resolved against the end of the dictionary). Corollaries: well-formed blocks decode to their meaning (C04_wellformed_*), independence of the destination's prior contents (C04_independent_*), and the error clauses: zero offset, offset before the dictionary, output larger than the destination, truncated final literals. The specification (BlockFormat.v) shares nothing with the decoder models and decodes its own encoder's output (C04_spec_roundtrip).",
        level_note="Trusted: Coq kernel, translator (minMatch), extraction, harness. The decoder models are hand-written and validated against the assembly and the portable decoder on every run (full destination contents).",
        rule="dec: as C03; every case is additionally decoded by the extracted specification (the independent decoder) and compared with the implementation",
        modelled="decoders", strength="full for the models",
    ),
    "C10": dict(
        prop_files=["PropC10.v"], components=["cmp"],
        level_text="Theorems C10_fast / C10_hc: for ANY destination size, a positive result b of the compressor models parses back (parse_block) to a parse p with b = encode p, p well formed and STRICT (every offset in 1..65535 and inside the output produced so far, final literals-only sequence, at least five final literals, last match starting at least 12 bytes before the end), decoding to the source. On every run the extracted strict validator is also applied to the IMPLEMENTATION's blocks.",
        level_note="As C01.", rule="cmp (see C01); every implementation block is parsed back and checked by the extracted strict validator",
        modelled="compressors", strength="full for the models (all depths)",
    ),
    "C11": dict(
        prop_files=["PropC11.v"], components=["cmp"],
        level_text="Theorems C11_fast / C11_hc (contract): never a panic, never a hang; a positive result is a complete block for the whole source of length <= len(dst); zero/error only when len(dst) < CompressBlockBound(len(src)); C11_bound: |encode p| <= CompressBlockBound(decoded length), with CompressBlockBound translated from the Go function. Writes beyond len(dst) are impossible in the model (the serialiser is bounded by dstlen); on the implementation they are watched with canaries around sub-sliced destinations (cap > len) on every run - this is how finding F3 was reproduced.",
        level_note="As C01. The HC compressor's reliance on bounds-check panics (recovered) is modelled as the error result.",
        rule="cmp (see C01): all destination lengths 0..bound+3 for small sources; canaries around dst", modelled="compressors", strength="full for the models",
    ),
    "C12": dict(
        prop_files=["PropC12.v"], components=["dec"],
        level_text="Theorem C12: for every source, destination length and dictionary the assembly model and the portable model yield the same observation (error, or length and bytes), even from destinations with different prior contents; by transitivity through the specification (C04). The same seeded case stream is run through the default build and the noasm build on every run and both are compared with their models and with the specification.",
        level_note="As C03/C04.", rule="dec (see C03), both builds", modelled="decoders", strength="full for the models",
    ),
    "C19": dict(
        prop_files=["PropC19.v"], components=["hdr"],
        level_text="Theorem C19_exact: for EVERY two-byte descriptor, EVERY 8-byte size field (present iff the size bit is set), EVERY checksum byte and EVERY continuation the header parser model accepts iff the checksum byte is right and the block-size code is 4..7, reports a wrong checksum and an undefined block size as distinct errors, and returns flags, content size and remaining input unchanged - an unbounded statement proved by case analysis. C19_badmagic, C19_skippable (exactly the sixteen magics), C19_size. The correspondence enumerates ALL 65536 descriptors on every run (x 4 checksum bytes quick, x 256 thorough = the full 2^25 space) through ValidFrameHeader and through Reader.Read + Size.",
        level_note="Trusted as C01; bit layouts of the descriptor flags, the size-code table (Index/IsValid) and the magics are re-translated from frame_gen.go / blocks.go / frame.go on every run.",
        rule="hdr: all 65536 descriptors, size field present iff bit 3, checksum byte correct / off by one bit / two others (quick) or all 256 (thorough); every case non-trivial",
        modelled="ParseHeaders / initR in Reader.v", strength="full",
    ),
     "C02": dict(
        prop_files=["PropC02.v"], components=["ws", "rs"],
        level_text="Writer side: theorem C02_writer — for every option list the Writer accepts (modern frames), every split of the input into Write calls with Flush calls anywhere, every call succeeds, the Writer ends closed and the emitted bytes are accepted by the strict frame specification with exactly the input as content; C02_readfrom: a single ReadFrom emits the same frame. C02_roundtrip: those bytes are decoded by the Reader model, through WriteTo and through Read with ANY positive buffer size, to exactly the input followed by a clean end of stream (Reader closed, whole frame consumed). The Writer, Reader models are validated on every run against the implementation over the option matrix (4 block sizes x block checksum x content checksum x size x 10 levels x concurrency 1/2/4 x legacy), inputs {0,1,13,bs-1,bs,bs+1,2bs,3bs+7}, random partitions with flushes, ReadFrom with five fragmentation patterns, and read back with both concurrency settings through Read (mixed buffer sizes) and WriteTo.",
        level_note="Concurrency: the models are sequential; concurrent sessions are compared with the same model (their observable results are equal) and covered by C08's pipeline theorems. Legacy frames: C02_legacy_roundtrip_refuted (the round trip is FALSE for legacy frames: open finding F28, the Reader's kernel-trailer rule), C02_legacy_roundtrip (it holds, for every option list, level, raw blocks and any length, under the computable side condition legacy_unambiguous: no emitted size word equals the running total mod 2^32), C02_legacy_roundtrip_iff (the side condition is exact), C02_legacy_small_noflush / C02_legacy_noflush_below_2056MiB (sessions that satisfy it by construction), C02_legacy_incompressible_truncates (second manifestation: more than 257 full blocks with an incompressible 258th). Trusted: as C01.",
        rule="ws: option matrix x inputs x partitions (48 sessions quick), zero-checksum inputs, ReadFrom of k*blocksize, all op sequences up to length 3 over 7 ops in both modes (798), random longer sequences, sink faults at every call; rs: valid frames x read patterns x fragmentation, every prefix, bit flips at every byte, splices, dependent-block frames from an independent encoder, hostile fields, source faults, all Reader op sequences up to length 3; non-trivial = session with >= 3 ops / input > 11 bytes",
        modelled="writer.go, reader.go, lz4stream/{frame,block}.go, state.go, options.go as Writer.v / Reader.v / FrameImpl.v", strength="full for the sequential models (modern frames; legacy frames under the exact side condition, refuted without it)",
    ),
    "C05": dict(
        prop_files=["PropC05.v"], components=["rs"],
        level_text="Theorems C05_sound / C05_complete / C05_read: for EVERY byte string whose first frame is not a legacy frame, whenever the Reader model (WriteTo, or Read with any buffer size) completes without error, the frame specification — an independent parser: header checksum, block-size code, every block within the declared maximum and decoding under the block-format specification, every declared block checksum, end mark, content checksum — accepts the same input with the same output and the same number of consumed bytes; and conversely. So a flipped bit, a substituted byte, an inserted / deleted / duplicated / reordered block is accepted only if the specification accepts the result. C05_header_exact: header acceptance is exact. C05_legacy_refuted keeps visible that the statement including legacy frames is false (kernel-trailer convention; legacy frames carry no integrity fields). On every run the extracted specification is applied to the IMPLEMENTATION's behaviour: every clean end of stream reported by the real Reader (2 700 single bit flips at every byte of small frames, splices, hostile fields, both concurrency settings, Read and WriteTo) must be accepted by the specification with identical output and consumed count.",
        level_note="Checksum domain = decoded bytes (open finding F10, announced as KNOWN-FINDING); descriptor read non-strictly (the Reader does not validate version/reserved bits nor the declared content size). Concurrency: the model is sequential; concurrent reads are compared on delivered bytes and clean/erroneous end.",
        rule="rs (see C02)", modelled="reader.go, lz4stream read side as Reader.v; FrameSpec.v is the specification", strength="full for modern frames (decoded checksum domain)",
    ),
    "C06": dict(
        prop_files=["PropC06.v"], components=["rs"],
        level_text="Theorem C06_truncation: every frame a Writer session can emit (any accepted options, modern frames, any writes and flushes), cut at EVERY position 1 <= k < len, is read by the Reader model to an error that is neither nil nor io.EOF, after delivering a prefix of the content; C06_read extends it to Read with any buffer size. Validation on every run: every strict prefix of every small frame (about 2 300 prefixes), structural boundaries +-3 of large ones, both concurrency settings, Read and WriteTo, with the oracle 'a truncated frame never ends cleanly and delivers a prefix' evaluated on the implementation. Legacy frames: cuts that do not fall on a block boundary are covered by the correspondence and the oracle (legacy generator cases), not by the theorem.",
        level_note="As C05.", rule="rs", modelled="as C05", strength="full for modern frames",
    ),
    "C07": dict(
        prop_files=["PropC07.v"], components=["rs"],
        level_text="Theorems C07_total (on EVERY byte string every operation of the Reader model returns: fuel never runs out; the model has no panic; repeated legacy magics are consumed by a loop), C07_badmagic (a non-magic first word is an invalid frame), C07_skippable (exactly the sixteen magics skip exactly the announced bytes), C07_bounded_blocks (no accepted block exceeds the declared maximum). What no model can exhibit — stack depth, heap growth, goroutines — is observed: hostile streams (block sizes up to 2^31-1, skippable lengths up to 2^32-1, every magic around the reserved range, 200 000 repeated legacy magics) run in a worker process with a 32 MiB stack limit and a watchdog, under both concurrency settings; heap growth beyond 64 MiB, a process death, a hang or a leftover goroutine is a violation.",
        level_note="Partial by nature for stack/heap/goroutines (observed, not proved).", rule="rs", modelled="as C05", strength="logic full; runtime residue observed",
    ),
    "C16": dict(
        prop_files=["PropC16.v"], components=["rs", "dec"],
        level_text="Theorems C16_dependent_frames / C16_read: the frame specification decodes each block of a dependent-block frame against the last 64 KiB of all previous output; for every input it accepts (any block sizes, matches reaching up to 65535 bytes back across any number of blocks, raw and compressed blocks mixed, with or without checksums) the Reader model delivers exactly the specification's content through WriteTo and through Read with every buffer size (its trimmed 128 KiB dictionary and the specification's window decode identically). Validation on every run: dependent-block frames built by an independent encoder in the harness (1..5 and 60 blocks, offsets exactly as far back as allowed, raw blocks mixed in), read with every buffer-size class and both concurrency settings.",
        level_note="Concurrency silently falls back to sequential decoding for dependent frames (observed through the harness).", rule="rs: dependent-blocks, dependent-blocks-long; dec: dictionary classes", modelled="as C05", strength="full",
    ),
    "C17": dict(
        prop_files=["PropC17.v"], components=["ws", "rs"],
        level_text="Writer: theorems C17_writer_results / _state (for EVERY sequence of Apply, Write, ReadFrom, Flush, Close, Reset — misuse included — every call's result equals the four-phase reference machine's), C17_writer_output (whenever an epoch has been closed the sink is a frame of the strict specification holding exactly the data accepted in that epoch), C17_writer_quiet (after Close or a failure only Reset changes the sink: further writes fail without output, a second Close emits nothing), C17_writer_reset (Reset makes the object indistinguishable from a new one with the same options, for every continuation), C17_writer_flush (after Flush the sink is a decodable prefix of everything written). Reader: C17_reader_ended / _ended_read (after the end Read keeps returning io.EOF and WriteTo (0,nil) without consuming), C17_reader_reset, C17_reader_total. Validation on every run: ALL sequences up to length 3 over 7 Writer operations in sequential and concurrent mode (798), 150 random longer ones, ALL sequences up to length 3 over 7 Reader operations (399), each call's result and the sink / consumed count compared with the models; hangs and crashes by watchdog.",
        level_note="The reference machine treats API misuse (Apply after writing, ReadFrom after Write) as a failure of the object, as the code does.", rule="ws: lifecycle, lifecycle-random; rs: lifecycle", modelled="state.go, writer.go, reader.go", strength="full (sequential objects)",
    ),
    "C08": dict(
        prop_files=["PropC08.v"], components=["pipe", "piper", "rpipe", "rpiper", "ws"],
        level_text="Theorems about the labelled transition system of the concurrent Writer pipeline (producer, one worker per block, ordering goroutine, bounded queue, per-block channels, buffer ownership), for EVERY interleaving, every concurrency level, every number of blocks and every set of failing sink writes: C08_order (blocks reach the sink in submission order, exactly the prefix before the first failure), C08_ownership (no buffer is read after release or while its worker runs), C08_no_deadlock (every reachable state is final or can step), C08_terminates (explicit decreasing measure), C08_no_leak (after Close returned: ordering goroutine exited, nothing queued, no worker blocked), C08_checker_sound (the trace checker accepts every run of the model). The same for the concurrent READER pipeline (PipeR.v: reading goroutine, one worker per block, collector, consumer; every interleaving, every queue capacity, every set of undecodable blocks): C08_reader_order (the consumer receives exactly the blocks before the first undecodable one, in order, then an undecodable block's error if there is one, else the source's verdict), C08_reader_ownership, C08_reader_no_deadlock, C08_reader_terminates, C08_reader_no_leak (once the end or an error was reported: reading goroutine and collector exited, nothing queued, no worker blocked), C08_reader_checker_sound. Tie to the code: hook call sites (verif tag) at every channel operation record traces and perturb scheduling; on every run 120 perturbed, buffer-poisoned sessions (Write/Flush/Close/Reset/reuse, sink faults, concurrency 2..16) are checked by the EXTRACTED checker, compared byte for byte with the sequential output, read back by a perturbed concurrent Reader (also on a corrupted frame), checked for leftover goroutines, and repeated under the race detector; 150 hand-assembled frames (stored, compressed, empty-decoding, undecodable and bad-checksum blocks; ended, truncated or failing sources) are read by a perturbed concurrent Reader with slow and fast consumers, their traces checked by the extracted Reader checker and the outcome compared with C08_reader_order / C08_reader_no_leak, also under the race detector.",
        level_note="Partial by nature: the theorems are about the protocol model; the Go scheduler, memory model and sync.Pool are assumed; the trace check is inclusion of OBSERVED traces in the checker's language.",
        rule="pipe/piper: seeded sessions (conc 2,3,4,8,16; 0..6 full blocks + tail; chunkings; Flush every 1..3 writes; reuse after Close; sink fault at a random call); rpipe/rpiper: frames of 0..8 blocks from the block alphabet {stored, compressed, empty-decoding, undecodable, bad checksum} x {end mark, truncated, failing source} x consumer {WriteTo, Read 7..65536} x delays; non-trivial = at least two blocks",
        modelled="Blocks.initW/close, Writer.write as PipeW.v; Blocks.initR and the concurrent branches of Reader.Read/WriteTo as PipeR.v", strength="model theorems + validated traces",
    ),
    "C09": dict(
        prop_files=["PropC09.v"], components=["ws", "cr"],
        level_text="Theorems C09_sessions / C09_frame / C09_size: every byte stream the Writer model emits for a well-formed session (any accepted option list, modern) — and the frame the compressing reader and ReadFrom emit — is accepted by the STRICT frame specification (magic, version 01, reserved bits zero, correct header checksum, block-size code 4..7, configured content size, every block within the declared maximum and decoding under the block-format specification, block and content checksums equal to reference XXH32, end mark) with exactly the input as content. C09_stored_domain_refuted keeps the open finding F10 visible: with the format's own checksum domain (stored bytes) such a frame is rejected. On every run the extracted specification validates the IMPLEMENTATION's frames (Writer, compressing reader), including inputs whose XXH32 is 0 and exact multiples of the block size.",
        level_note="Open findings: F10 (block checksum domain; announced as KNOWN-FINDING), F17-raw (legacy raw flag, thorough tier). Legacy frames are validated by the specification oracle, not covered by the theorems.",
        rule="ws, cr (see C02, C18)", modelled="as C02", strength="full for modern frames in the decoded checksum domain",
    ),
    "C14": dict(
        prop_files=["PropC14.v"], components=["cmp", "ws", "pipe"],
        level_text="Theorems C14_fast_state (for EVERY stale content of the fast compressor's table the output is the same), C14_hc_state (every reachable HC object behaves as a fresh one), C14_chunking (without Flush the frame depends only on the concatenation of the writes), C14_schedule_order (in every interleaving of the pipeline model blocks reach the sink in submission order). Validation: block outputs after arbitrary histories (other inputs, failed short-buffer calls, pooled objects from several goroutines) equal the history-free model; frames from concurrency 1/2/4 and perturbed schedules with poisoned pools are byte-identical to the sequential frame.",
        level_note="Schedule independence is a theorem about the pipeline model (see C08).", rule="cmp, ws, pipe", modelled="as C01/C02/C08", strength="block and chunking full; schedules via the LTS",
    ),
    "C15": dict(
        prop_files=["PropC15.v"], components=["ws", "rs"],
        level_text="Theorem C15_sink_fault: for EVERY k, the underlying writer failing from its k-th call on, in every well-formed session: what reached the sink is a prefix of the fault-free output and some call returns the failure, Close at the latest. C15_source_fault: the underlying reader failing at its k-th call, for every k and every input: the delivered bytes are a prefix of the fault-free output and the result is the injected error, never a clean end, unless the stream had been read completely. C15_fragmentation_irrelevant: the Reader takes every byte through io.ReadFull, and io.ReadFull over a source fragmenting its reads by ANY finite plan (single bytes, zero-length reads, data delivered together with io.EOF) returns the bytes, error class and remaining stream of the unfragmented read, so every Reader theorem holds for every fragmentation; that the code reads only through io.ReadFull is validated by five fragmentation patterns against the implementation. Validation: sink faults at every call index of sessions (sequential compared with the model; concurrent by oracles), source faults at every call index, five fragmentation patterns (single bytes, zero-length reads, data with io.EOF, 7-byte reads).",
        level_note="The sink model fails permanently from call k; a transient failure followed by success is outside the theorem (after a failed Flush the pending block is re-emitted).", rule="ws, rs", modelled="as C02", strength="full for the models",
    ),
    "C18": dict(
        prop_files=["PropC18.v"], components=["cr"],
        level_text="Theorems C18_reads / C18_complete / C18_frame_valid: for every sequence of buffer sizes the concatenated output of the compressing-reader model is a prefix of THE frame of the source for the applied options (the same frame the Writer emits), each call returns at most len(p) bytes, makes progress whenever len(p) > 0, reports io.EOF only after the whole frame, and with enough reads delivers the whole frame; that frame satisfies the strict specification with the source as content. C18_source_fault: a source whose k-th call fails, for EVERY k: the delivered bytes are a prefix of the frame, every call returns nil / the injected error / io.EOF after the whole frame, the error is passed through by the Read during which the source failed and the source is not asked again. Validated on every run against CompressingReader over buffer-size lists from {0,1,3,6,7,8,15,100,5000,70000,300000}, inputs {0,1,50,1000,bs-1,bs,bs+1,2bs}, options, fragmenting and failing sources.",
        level_note="LegacyOption/ConcurrencyOption are not applicable to a compressing reader (model and code agree).", rule="cr", modelled="compressing_reader.go as CReader.v", strength="full",
    ),
    "C20": dict(
        prop_files=["PropC20.v"], components=["lz4c"],
        level_text="Theorems C20_flags / C20_usage / C20_options / C20_compress / C20_stdio: the option list built from the flags is exactly [BlockChecksum(-bc), BlockSize(-size), Checksum(not -sc), Level(-l), Concurrency(-c)], matching the wording of the usage strings; for any list of files every .lz4 file is the frame of its file for those options (hence, by C09, a well-formed frame that decodes to the file). Which flag feeds which option, negations, usage wording, where the level switch is evaluated and the order of the per-file calls are regenerated from compress.go by the translator on every run. The command itself is built from the working tree (replace => /repo) and run on files of sizes {0,1,100,5000,bs-1,bs,bs+1} x flag sets, one or two files, files and stdin/stdout; outputs are compared with the model, validated by the specification, compared with a library Writer configured as the usage text promises, and round-tripped through `lz4c uncompress` including permission bits.",
        level_note="File-system behaviour (modes, pre-existing outputs: outputs are opened without O_TRUNC) is observed, not proved.", rule="lz4c", modelled="cmd/lz4c as Lz4c.v", strength="logic full; file system residue",
    ),
    "C13": dict(
        level_text="Theorems C13_oneshot, C13_stream, C13_state (Coq, closed under the global context) state that the one-shot and the streaming checksum models equal reference XXH32 for every byte string, every chunking (empty writes included) and every total length below 2^64. The models are tied to internal/xxh32 on every run: primes, lane seeds and rotations are re-translated from the source and the bridging lemmas re-proved; the control flow is compared differentially (one-shot, streaming, injected states around 2^32/2^64, a real >4 GiB stream).",
        level_note="Trusted: Coq kernel; translator; extraction (ExtrOcamlBasic only); the harness. The hand-written control-flow model (XXH32.v) is validated, not verified. ARM assembly variants are not modelled.",
        prop_files=["PropC13.v"],
        components=["xxh"],
        rule="xxh: one-shot on every length 0..300 and sampled to 70 KB; streaming on all (buffered 0..15) x (next-write length class) pairs and random chunkings with empty writes; state injection with totals around 2^32, 2^33, 3*2^32, 2^63, 2^64. Non-trivial = non-empty data / at least two writes / any injected state; distinct = distinct case text.",
        modelled="control flow of xxh32zero.go (Write/Sum32/checksumZeroGo) hand-modelled in XXH32.v; primes, seeds and rotations translated from the source",
        strength="full: C13_oneshot, C13_stream (all chunkings, all lengths < 2^64), C13_state",
        assumptions=["portable Go implementation (amd64 uses it); the ARM assembly update/ChecksumZero cannot be executed here and is not modelled",
                     "total length below 2^64 (the uint64 counter)"],
    ),
}
