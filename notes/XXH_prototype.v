From Coq Require Import ZArith List Lia Bool Arith.
Import ListNotations.
Open Scope Z_scope.

Definition len {A} (l : list A) : Z := Z.of_nat (length l).

(* ---- word arithmetic (opaque to the structural proofs) ---- *)
Definition w32 (x : Z) : Z := x mod 4294967296.
Definition rol (r x : Z) : Z := w32 (x * 2 ^ r) + x / 2 ^ (32 - r).
Definition P1 := 2654435761. Definition P2 := 2246822519. Definition P3 := 3266489917.
Definition P4 := 668265263.  Definition P5 := 374761393.
Definition le32 (a b c d : Z) := a + 256 * b + 65536 * c + 16777216 * d.
Definition word (l : list Z) (i : nat) : Z :=
  le32 (nth i l 0) (nth (i + 1) l 0) (nth (i + 2) l 0) (nth (i + 3) l 0).
Definition round (v x : Z) : Z := w32 (rol 13 (w32 (v + x * P2)) * P1).

Definition lanes := (Z * Z * Z * Z)%type.
Definition init_lanes : lanes := (w32 (P1 + P2), P2, 0, w32 (- P1)).
Definition stripe (v : lanes) (l : list Z) : lanes :=
  let '(a, b, c, d) := v in
  (round a (word l 0), round b (word l 4), round c (word l 8), round d (word l 12)).
Definition merge (v : lanes) : Z :=
  let '(a, b, c, d) := v in w32 (rol 1 a + rol 7 b + rol 12 c + rol 18 d).

Fixpoint stripes_n (k : nat) (v : lanes) (l : list Z) : lanes :=
  match k with O => v | S k' => stripes_n k' (stripe v l) (skipn 16 l) end.
Definition nfull (l : list Z) : nat := (length l / 16)%nat.
Definition lanes_of (v : lanes) (l : list Z) : lanes := stripes_n (nfull l) v l.
Definition tail_of (l : list Z) : list Z := skipn (16 * nfull l) l.

Fixpoint tail4_n (k : nat) (h : Z) (l : list Z) : Z :=
  match k with O => h | S k' => tail4_n k' (w32 (rol 17 (w32 (h + word l 0 * P3)) * P4)) (skipn 4 l) end.
Fixpoint tail1 (h : Z) (l : list Z) : Z :=
  match l with [] => h | b :: r => tail1 (w32 (rol 11 (w32 (h + b * P5)) * P1)) r end.
Definition avalanche (h : Z) : Z :=
  let h := Z.lxor h (h / 2 ^ 15) in let h := w32 (h * P2) in
  let h := Z.lxor h (h / 2 ^ 13) in let h := w32 (h * P3) in
  Z.lxor h (h / 2 ^ 16).
Definition finish (h : Z) (l : list Z) : Z :=
  let k := (length l / 4)%nat in avalanche (tail1 (tail4_n k h l) (skipn (4 * k) l)).

(* ---- reference ---- *)
Definition xxh32_ref (l : list Z) : Z :=
  let n := len l in
  let h0 := if n <? 16 then P5 else merge (lanes_of init_lanes l) in
  finish (w32 (h0 + n)) (tail_of l).

(* ---- streaming implementation model (xxh32zero.go: Reset / Write / Sum32, repaired guard) ---- *)
Record xst := mkx { xv : lanes; xtotal : Z; xbuf : list Z }.
Definition xzero : xst := mkx (0, 0, 0, 0) 0 [].
Definition xwrite (st : xst) (inp : list Z) : xst :=
  let v0 := if xtotal st =? 0 then init_lanes else xv st in
  let b0 := if xtotal st =? 0 then [] else xbuf st in
  let n := length inp in let m := length b0 in
  let t := (xtotal st + Z.of_nat n) mod 2 ^ 64 in
  if (n <? 16 - m)%nat then mkx v0 t (b0 ++ inp)
  else
    let '(v1, inp1) := if (m =? 0)%nat then (v0, inp)
                       else (stripe v0 (b0 ++ firstn (16 - m) inp), skipn (16 - m) inp) in
    mkx (lanes_of v1 inp1) t (tail_of inp1).
Definition xsum32 (st : xst) : Z :=
  let h := if 16 <=? xtotal st then w32 (w32 (xtotal st) + merge (xv st))
           else w32 (w32 (xtotal st) + P5) in
  finish h (xbuf st).

(* ---- proofs: purely structural ---- *)
Lemma skipn_add {A} a b (l : list A) : skipn (a + b) l = skipn b (skipn a l).
Proof.
  revert l; induction a as [|a IH]; intros l; [reflexivity|].
  destruct l as [|x l]; [now rewrite !skipn_nil|]. cbn [Nat.add skipn]. apply IH.
Qed.
Lemma nth_firstn {A} n : forall (l : list A) i d, (i < n)%nat -> nth i (firstn n l) d = nth i l d.
Proof.
  induction n as [|n IH]; intros l i d Hi; [lia|].
  destruct l as [|x l]; [reflexivity|]. destruct i as [|i]; [reflexivity|].
  cbn [firstn nth]. apply IH. lia.
Qed.

Lemma stripe_firstn v l k : (16 <= k)%nat -> stripe v (firstn k l) = stripe v l.
Proof.
  intros Hk. destruct v as [[[a b] c] d]. unfold stripe, word.
  rewrite !nth_firstn by lia. reflexivity.
Qed.

Lemma stripe_app v a b : (16 <= length a)%nat -> stripe v (a ++ b) = stripe v a.
Proof.
  intros H. rewrite <- (stripe_firstn v (a ++ b) (length a)) by assumption.
  rewrite firstn_app, Nat.sub_diag, firstn_all. cbn [firstn]. rewrite app_nil_r. reflexivity.
Qed.

Lemma stripes_n_app k : forall v a b, length a = (16 * k)%nat ->
  stripes_n k v (a ++ b) = stripes_n k v a.
Proof.
  induction k as [|k IH]; intros v a b Ha; [reflexivity|].
  cbn [stripes_n].
  assert (Hs : skipn 16 (a ++ b) = skipn 16 a ++ b).
  { rewrite skipn_app. replace (16 - length a)%nat with O by lia. reflexivity. }
  rewrite Hs, stripe_app by lia.
  apply IH. rewrite skipn_length. lia.
Qed.

(* k full stripes then continue *)
Lemma stripes_n_add j : forall k v l, stripes_n (j + k) v l = stripes_n k (stripes_n j v l) (skipn (16 * j) l).
Proof.
  induction j as [|j IH]; intros k v l; [reflexivity|].
  cbn [Nat.add stripes_n]. rewrite IH.
  replace (16 * S j)%nat with (16 + 16 * j)%nat by lia. rewrite skipn_add. reflexivity.
Qed.

Lemma nfull_spec (l : list Z) : (length l = 16 * nfull l + length (tail_of l) /\ length (tail_of l) < 16)%nat.
Proof.
  unfold tail_of, nfull. rewrite skipn_length.
  pose proof (Nat.div_mod (length l) 16 ltac:(lia)).
  pose proof (Nat.mod_upper_bound (length l) 16 ltac:(lia)). lia.
Qed.

Lemma split_full (l : list Z) : l = firstn (16 * nfull l) l ++ tail_of l.
Proof. unfold tail_of. symmetry. apply firstn_skipn. Qed.

(* lanes and tail after appending x to l, in terms of the tail of l *)
Lemma lanes_tail_app v l x :
  lanes_of v (l ++ x) = lanes_of (lanes_of v l) (tail_of l ++ x) /\
  tail_of (l ++ x) = tail_of (tail_of l ++ x).
Proof.
  destruct (nfull_spec l) as [Hl Ht].
  set (k := nfull l) in *. set (t := tail_of l) in *.
  assert (Hf : length (firstn (16 * k) l) = (16 * k)%nat) by (rewrite firstn_length; lia).
  assert (Hn : nfull (l ++ x) = (k + nfull (t ++ x))%nat).
  { unfold nfull. rewrite !app_length. rewrite Hl.
    replace (16 * k + length t + length x)%nat with ((length t + length x) + k * 16)%nat by lia.
    rewrite Nat.div_add by lia. lia. }
  assert (Hsk : skipn (16 * k) (l ++ x) = t ++ x).
  { rewrite skipn_app. replace (16 * k - length l)%nat with O by lia. reflexivity. }
  split.
  - unfold lanes_of at 1. rewrite Hn, stripes_n_add, Hsk.
    unfold lanes_of. f_equal.
    rewrite (split_full l) at 1. fold k. fold t. rewrite <- app_assoc.
    rewrite stripes_n_app by assumption.
    rewrite (split_full l) at 2. fold k. fold t.
    rewrite stripes_n_app by assumption. reflexivity.
  - unfold tail_of at 1. rewrite Hn.
    replace (16 * (k + nfull (t ++ x)))%nat with (16 * k + 16 * nfull (t ++ x))%nat by lia.
    rewrite skipn_add, Hsk. reflexivity.
Qed.

Lemma lanes_short v l : (length l < 16)%nat -> lanes_of v l = v /\ tail_of l = l.
Proof.
  intros H. unfold lanes_of, tail_of, nfull. rewrite Nat.div_small by assumption. split; reflexivity.
Qed.

(* one stripe peeled off the front *)
Lemma lanes_peel v l : (16 <= length l)%nat ->
  lanes_of v l = lanes_of (stripe v l) (skipn 16 l) /\ tail_of l = tail_of (skipn 16 l).
Proof.
  intros H.
  assert (Hn : nfull l = S (nfull (skipn 16 l))).
  { unfold nfull. rewrite skipn_length.
    replace (length l) with ((length l - 16) + 1 * 16)%nat at 1 by lia.
    rewrite Nat.div_add by lia. lia. }
  split.
  - unfold lanes_of. rewrite Hn. reflexivity.
  - unfold tail_of. rewrite Hn.
    replace (16 * S (nfull (skipn 16 l)))%nat with (16 + 16 * nfull (skipn 16 l))%nat by lia.
    apply skipn_add.
Qed.

(* representation invariant of the streaming state *)
Definition repr (st : xst) (l : list Z) : Prop :=
  xtotal st = len l /\ xbuf st = tail_of l /\ (l <> [] -> xv st = lanes_of init_lanes l).

Lemma repr_zero : repr xzero [].
Proof. split; [reflexivity|]. split; [reflexivity|]. intros H; contradiction. Qed.

Lemma xwrite_repr st l inp : len l + len inp < 2 ^ 64 -> repr st l -> repr (xwrite st inp) (l ++ inp).
Proof.
  intros Hlen (Ht & Hb & Hr).
  assert (Hlen0 : 0 <= len l) by (unfold len; lia).
  assert (Hlen1 : 0 <= len inp) by (unfold len; lia).
  set (v0 := if xtotal st =? 0 then init_lanes else xv st).
  set (b0 := if xtotal st =? 0 then [] else xbuf st).
  assert (Hv0 : v0 = lanes_of init_lanes l /\ b0 = tail_of l).
  { unfold v0, b0. destruct (xtotal st =? 0) eqn:E.
    - assert (l = []) as -> by (destruct l; [reflexivity|unfold len in *; cbn [length] in *; lia]).
      split; reflexivity.
    - split; [|exact Hb]. apply Hr. intros ->. unfold len in *; cbn in *; lia. }
  destruct Hv0 as [Hv0 Hb0].
  destruct (nfull_spec l) as [Hl Hm]. rewrite <- Hb0 in Hl, Hm.
  destruct (lanes_tail_app init_lanes l inp) as [EL ET]. rewrite <- Hv0 in EL. rewrite <- Hb0 in EL, ET.
  unfold xwrite. fold v0. fold b0.
  assert (Htot : (xtotal st + Z.of_nat (length inp)) mod 2 ^ 64 = len (l ++ inp)).
  { rewrite Ht. unfold len in *. rewrite app_length, Nat2Z.inj_add. apply Z.mod_small. lia. }
  rewrite Htot.
  destruct (length inp <? 16 - length b0)%nat eqn:Esh.
  - apply Nat.ltb_lt in Esh.
    destruct (lanes_short v0 (b0 ++ inp)) as [S1 S2]; [rewrite app_length; lia|].
    split; [reflexivity|]. cbn [xv xbuf]. rewrite EL, ET, S1, S2. split; [reflexivity|]. intros _; reflexivity.
  - apply Nat.ltb_ge in Esh.
    destruct (length b0 =? 0)%nat eqn:Em.
    + apply Nat.eqb_eq in Em. destruct b0; [|cbn in Em; lia].
      cbn [app] in EL, ET.
      split; [reflexivity|]. cbn [xv xbuf]. rewrite EL, ET. split; [reflexivity|]. intros _; reflexivity.
    + apply Nat.eqb_neq in Em.
      destruct (lanes_peel v0 (b0 ++ inp)) as [Q1 Q2]; [rewrite app_length; lia|].
      assert (Hsk : skipn 16 (b0 ++ inp) = skipn (16 - length b0) inp).
      { rewrite skipn_app. rewrite skipn_all2 by lia. reflexivity. }
      assert (Hst : stripe v0 (b0 ++ inp) = stripe v0 (b0 ++ firstn (16 - length b0) inp)).
      { rewrite <- (stripe_firstn v0 (b0 ++ inp) 16) by lia.
        rewrite firstn_app. rewrite (firstn_all2 b0) by lia. reflexivity. }
      split; [reflexivity|]. cbn [xv xbuf]. rewrite EL, ET, Q1, Q2, Hsk, Hst.
      split; [reflexivity|]. intros _; reflexivity.
Qed.

Lemma w32_w32_add a b : w32 (w32 a + b) = w32 (a + b).
Proof. unfold w32. rewrite Zplus_mod_idemp_l. reflexivity. Qed.

Theorem stream_eq_ref : forall chunks st l,
  repr st l -> len l + len (concat chunks) < 2 ^ 64 ->
  xsum32 (fold_left xwrite chunks st) = xxh32_ref (l ++ concat chunks).
Proof.
  induction chunks as [|c cs IH]; intros st l Hr Hlen.
  - cbn [fold_left concat]. rewrite app_nil_r.
    destruct Hr as (Ht & Hb & Hr). unfold xsum32, xxh32_ref. rewrite Ht, Hb.
    assert (H0 : 0 <= len l) by (unfold len; lia).
    destruct (16 <=? len l) eqn:E1; destruct (len l <? 16) eqn:E2; try lia.
    + rewrite w32_w32_add. rewrite Hr.
      * f_equal. f_equal. lia.
      * intros ->. unfold len in E1; cbn in E1. lia.
    + rewrite w32_w32_add. f_equal. f_equal. lia.
  - cbn [fold_left concat]. cbn [concat] in Hlen.
    assert (Hc : 0 <= len (concat cs)) by (unfold len; lia).
    assert (Hlc : len (c ++ concat cs) = len c + len (concat cs)) by (unfold len; rewrite app_length; lia).
    rewrite Hlc in Hlen.
    rewrite app_assoc. apply IH.
    + apply xwrite_repr; [lia|assumption].
    + unfold len in *. rewrite app_length. lia.
Qed.

Theorem C13_stream : forall chunks, len (concat chunks) < 2 ^ 64 ->
  xsum32 (fold_left xwrite chunks xzero) = xxh32_ref (concat chunks).
Proof. intros cs H. apply (stream_eq_ref cs xzero []); [apply repr_zero|exact H]. Qed.
Print Assumptions C13_stream.

Eval vm_compute in xxh32_ref [97;98;99].                       (* 0x32d153ff = 852579327 *)
Eval vm_compute in xsum32 (fold_left xwrite [[97];[];[98;99]] xzero).
Definition abc20 := [97;98;99;100;101;102;103;104;105;106;107;108;109;110;111;112;113;114;115;116].
Eval vm_compute in (xxh32_ref abc20, xsum32 (fold_left xwrite [firstn 7 abc20; skipn 7 abc20] xzero)).
