From Coq Require Import ZArith List Lia Bool.
Import ListNotations.
Open Scope Z_scope.

Definition len {A} (l : list A) : Z := Z.of_nat (length l).
Definition bytes (l : list Z) := Forall (fun b => 0 <= b < 256) l.

(* ---------- lengths ---------- *)
Definition ext (v : Z) : list Z := repeat 255 (Z.to_nat (v / 255)) ++ [v mod 255].
Definition nib (v : Z) : Z := if v <? 15 then v else 15.
Definition extl (v : Z) : list Z := if v <? 15 then [] else ext (v - 15).

Fixpoint read_ext (src : list Z) (acc : Z) : option (Z * list Z) :=
  match src with
  | [] => None
  | x :: r => if x =? 255 then read_ext r (acc + 255) else Some (acc + x, r)
  end.
Definition read_len (nibble : Z) (src : list Z) : option (Z * list Z) :=
  if nibble =? 15 then read_ext src 15 else Some (nibble, src).

(* ---------- abstract meaning ---------- *)
Record seq := mkseq { lits : list Z; off : Z; mlen : Z }.

Definition byte_at (rdict rout : list Z) (o : Z) : option Z :=
  if o <=? 0 then None else
  if o <=? len rout then nth_error rout (Z.to_nat (o - 1))
  else nth_error rdict (Z.to_nat (o - 1 - len rout)).

Fixpoint copy_match (n : nat) (rdict rout : list Z) (o : Z) : option (list Z) :=
  match n with
  | O => Some rout
  | S k => match byte_at rdict rout o with
           | None => None
           | Some b => copy_match k rdict (b :: rout) o
           end
  end.

Definition exec_seq (rdict : list Z) (cap : Z) (rout : list Z) (s : seq) : option (list Z) :=
  let rout1 := rev_append (lits s) rout in
  if cap <? len rout1 then None else
  match copy_match (Z.to_nat (mlen s)) rdict rout1 (off s) with
  | None => None
  | Some r2 => if cap <? len r2 then None else Some r2
  end.

Fixpoint expand (rdict : list Z) (cap : Z) (rout : list Z) (ss : list seq) : option (list Z) :=
  match ss with
  | [] => Some rout
  | s :: tl => match exec_seq rdict cap rout s with None => None | Some r => expand rdict cap r tl end
  end.

Definition expand_parse rdict cap rout (p : list seq * list Z) : option (list Z) :=
  match expand rdict cap rout (fst p) with
  | None => None
  | Some r => let r' := rev_append (snd p) r in if cap <? len r' then None else Some r'
  end.

(* ---------- encoder ---------- *)
Definition enc_seq (s : seq) : list Z :=
  (16 * nib (len (lits s)) + nib (mlen s - 4)) :: extl (len (lits s)) ++ lits s
    ++ [off s mod 256; off s / 256] ++ extl (mlen s - 4).
Definition enc_last (l : list Z) : list Z := (16 * nib (len l)) :: extl (len l) ++ l.
Definition encode (p : list seq * list Z) : list Z := flat_map enc_seq (fst p) ++ enc_last (snd p).

(* ---------- format, read left to right ---------- *)
Fixpoint sdec (fuel : nat) (src rdict rout : list Z) (cap : Z) : option (list Z) :=
  match fuel with O => None | S f =>
  match src with
  | [] => Some rout
  | tok :: r0 =>
    match read_len (tok / 16) r0 with None => None | Some (ll, r1) =>
    if len r1 <? ll then None else
    let rout1 := rev_append (firstn (Z.to_nat ll) r1) rout in
    if cap <? len rout1 then None else
    match skipn (Z.to_nat ll) r1 with
    | [] => if tok mod 16 =? 0 then Some rout1 else None
    | [_] => None
    | o1 :: o2 :: r3 =>
      let o := o1 + 256 * o2 in
      if o =? 0 then None else
      match read_len (tok mod 16) r3 with None => None | Some (ml, r4) =>
      match copy_match (Z.to_nat (ml + 4)) rdict rout1 o with None => None | Some rout2 =>
      if cap <? len rout2 then None else sdec f r4 rdict rout2 cap end end
    end end end end.

Definition wf_seq (s : seq) := bytes (lits s) /\ 1 <= off s <= 65535 /\ 4 <= mlen s.

(* ---------- proofs ---------- *)
Lemma len_nonneg {A} (l : list A) : 0 <= len l. Proof. unfold len; lia. Qed.
Lemma len_app {A} (a b : list A) : len (a ++ b) = len a + len b.
Proof. unfold len; rewrite app_length; lia. Qed.
Lemma len_cons {A} (x : A) l : len (x :: l) = 1 + len l.
Proof. unfold len; cbn [length]; lia. Qed.

Lemma read_ext_repeat k r rest acc : r <> 255 ->
  read_ext (repeat 255 k ++ r :: rest) acc = Some (acc + 255 * Z.of_nat k + r, rest).
Proof.
  revert acc; induction k as [|k IH]; intros acc Hr; cbn [repeat app read_ext].
  - destruct (r =? 255) eqn:E; [lia|]. f_equal. f_equal. lia.
  - change (255 =? 255) with true. cbn iota. rewrite IH by assumption. f_equal. f_equal. lia.
Qed.

Lemma read_ext_ext v rest acc : 0 <= v ->
  read_ext (ext v ++ rest) acc = Some (acc + v, rest).
Proof.
  intros Hv. unfold ext. rewrite <- app_assoc. cbn [app].
  rewrite read_ext_repeat.
  - f_equal. f_equal. rewrite Z2Nat.id by (apply Z.div_pos; lia).
    pose proof (Z.div_mod v 255 ltac:(lia)). lia.
  - pose proof (Z.mod_pos_bound v 255 ltac:(lia)). lia.
Qed.

Lemma read_len_enc v rest : 0 <= v -> read_len (nib v) (extl v ++ rest) = Some (v, rest).
Proof.
  intros Hv. unfold read_len, nib, extl.
  destruct (v <? 15) eqn:E.
  - destruct (v =? 15) eqn:E2; [lia|]. reflexivity.
  - change (15 =? 15) with true. cbn iota. rewrite read_ext_ext by lia. f_equal. f_equal. lia.
Qed.

Lemma nib_range v : 0 <= v -> 0 <= nib v <= 15.
Proof. unfold nib; destruct (v <? 15) eqn:E; lia. Qed.

Lemma tok_div a b : 0 <= b <= 15 -> (16 * a + b) / 16 = a.
Proof. intros. rewrite Z.mul_comm, Z.div_add_l by lia. rewrite Z.div_small; lia. Qed.
Lemma tok_mod a b : 0 <= b <= 15 -> (16 * a + b) mod 16 = b.
Proof. intros. rewrite Z.add_comm, Z.mul_comm, Z.mod_add by lia. apply Z.mod_small; lia. Qed.

Lemma firstn_len_app {A} (a b : list A) : firstn (Z.to_nat (len a)) (a ++ b) = a.
Proof. unfold len. rewrite Nat2Z.id. rewrite firstn_app, Nat.sub_diag, firstn_all. cbn. apply app_nil_r. Qed.
Lemma skipn_len_app {A} (a b : list A) : skipn (Z.to_nat (len a)) (a ++ b) = b.
Proof. unfold len. rewrite Nat2Z.id. rewrite skipn_app, Nat.sub_diag, skipn_all. reflexivity. Qed.

Lemma off_le o : 1 <= o <= 65535 -> (o mod 256) + 256 * (o / 256) = o.
Proof. intros. pose proof (Z.div_mod o 256 ltac:(lia)). lia. Qed.

(* one sequence followed by more input *)
Lemma sdec_seq f s rest rdict rout cap : wf_seq s ->
  sdec (S f) (enc_seq s ++ rest) rdict rout cap =
  match exec_seq rdict cap rout s with None => None | Some r => sdec f rest rdict r cap end.
Proof.
  intros (Hb & Ho & Hm).
  unfold enc_seq. cbn [app sdec].
  pose proof (len_nonneg (lits s)) as Hl.
  rewrite tok_div, tok_mod by (apply nib_range; lia).
  rewrite <- !app_assoc.
  rewrite read_len_enc by lia.
  rewrite len_app.
  match goal with |- context [len (lits s) + len ?t <? len (lits s)] =>
    pose proof (len_nonneg t); replace (len (lits s) + len t <? len (lits s)) with false by lia end.
  rewrite firstn_len_app, skipn_len_app.
  unfold exec_seq.
  destruct (cap <? len (rev_append (lits s) rout)) eqn:Ecap; [reflexivity|].
  cbn [app].
  rewrite off_le by lia.
  destruct (off s =? 0) eqn:E0; [lia|].
  rewrite read_len_enc by lia.
  replace (mlen s - 4 + 4) with (mlen s) by lia.
  destruct (copy_match (Z.to_nat (mlen s)) rdict (rev_append (lits s) rout) (off s)); [|reflexivity].
  destruct (cap <? len l); reflexivity.
Qed.

Lemma firstn_len {A} (l : list A) : firstn (Z.to_nat (len l)) l = l.
Proof. unfold len. rewrite Nat2Z.id. apply firstn_all. Qed.
Lemma skipn_len {A} (l : list A) : skipn (Z.to_nat (len l)) l = [].
Proof. unfold len. rewrite Nat2Z.id. apply skipn_all. Qed.

Lemma sdec_last f l rdict rout cap :
  sdec (S f) (enc_last l) rdict rout cap =
  let r' := rev_append l rout in if cap <? len r' then None else Some r'.
Proof.
  unfold enc_last. cbn [sdec].
  pose proof (len_nonneg l) as Hl.
  replace (16 * nib (len l)) with (16 * nib (len l) + 0) by lia.
  rewrite tok_div, tok_mod by lia.
  rewrite read_len_enc by lia.
  rewrite Z.ltb_irrefl.
  rewrite firstn_len, skipn_len. cbn zeta.
  destruct (cap <? len (rev_append l rout)); reflexivity.
Qed.

Theorem sdec_encode : forall ss last f rdict rout cap,
  Forall wf_seq ss -> (length ss < f)%nat ->
  sdec f (encode (ss, last)) rdict rout cap = expand_parse rdict cap rout (ss, last).
Proof.
  induction ss as [|s ss IH]; intros last f rdict rout cap Hwf Hf.
  - destruct f as [|f]; [cbn in Hf; lia|].
    unfold encode, expand_parse. cbn [fst snd flat_map app expand]. apply sdec_last.
  - destruct f as [|f]; [cbn in Hf; lia|].
    inversion Hwf as [|? ? Hs Hss]; subst.
    unfold encode. cbn [fst snd flat_map]. rewrite <- app_assoc.
    rewrite sdec_seq by assumption.
    unfold expand_parse. cbn [fst snd expand].
    destruct (exec_seq rdict cap rout s) as [r|]; [|reflexivity].
    specialize (IH last f rdict r cap Hss). unfold encode, expand_parse in IH. cbn [fst snd] in IH.
    apply IH. cbn [length] in Hf. lia.
Qed.
Print Assumptions sdec_encode.

(* executable sanity *)
Definition ex1 := ([mkseq [97] 1 4; mkseq [66] 1 19], [101;110;100]).
Eval vm_compute in encode ex1.
Eval vm_compute in option_map (@rev Z) (sdec 100 (encode ex1) [] [] 1000).
